(* C01 / C03 for populations made by NewPopulationRandom (genomes WITHOUT common ancestry).

   The registry invariant [GInv] of PopWF.v cannot hold for such a population: its per-genome part
   [gok] contains the clause

       gk_first : In (c_n0 C) (map g_innov (genes g))

   "every genome carries the innovation number of the start genome's first gene" (together with
   [ro_bound]'s lower bound this says that all genomes start with the same gene; it is what single-point
   crossover needs, Registry.gok_hd / mate_singlepoint_gok).  Two randomly constructed genomes need not
   share any gene.  [gokR] is [gok] without that clause; [rok] is kept unchanged (instantiated with
   c_n0 = 0, a lower bound of every number of the connection matrix), and [GInvR] is [GInv] over [gokR].

   Every step of an epoch other than single-point crossover preserves [GInvR]: the per-operator lemmas
   of MutateWF.v (through [mutators_ok]), MateSpec.v / MateWF.v ([mp_post_holds], [child_wf]) and the
   registry steps of Registry.v ([add_node_reg], [add_link_reg], [connect_sensors_reg], [rok_new_link],
   [rok_new_node]) are reused as they are; only the thin assembling layer that mentions [gok] is redone
   for [gokR].  Single-point crossover is excluded by [NoSinglePoint.no_single]: under that condition on
   the options the model's method draw never reaches mate_singlepoint, for every tape. *)
From NeatModel Require Import Compat.
From NeatModel Require Import Res F64 GoRand Genome Options Insert Dup Mutate Mate Population RandGenome InsertSpec WF
     MutateMonad MutateFrame MutateSpec MutateWF MateSpec MateWF Registry PopWF RandGenomeSpec NoSinglePoint.
From Coq Require Import Lia Sorting.Sorted Sorting.Permutation.

Notation innovs := Genome.innovs.

(* ------------------------------------------------------------------------------------------ *)
(* 1. the weakened per-genome invariant                                                         *)
(* ------------------------------------------------------------------------------------------ *)
Record gokR (C : ctx) (e : ienv) (R : reg) (NR : nreg) (g : genome) : Prop := {
  gr_wf : wf g;
  gr_env : env_ok e g;
  gr_reg : g_agrees R g;
  gr_nreg : n_agrees NR g;
  gr_io : incl (c_io C) (io_nodes g);
  gr_tshape : tshape g = c_tshape C
}.

(* exactly one clause was dropped *)
Lemma gok_iff_gokR C e R NR g :
  gok C e R NR g <-> gokR C e R NR g /\ In (c_n0 C) (map g_innov (genes g)).
Proof.
  split.
  - intros [A B D E F G H]. split; [constructor; assumption|exact H].
  - intros [[A B D E F G] H]. constructor; assumption.
Qed.

Lemma gokR_mono C e e' R R' NR NR' g :
  gokR C e R NR g -> env_extends e e' -> incl R R' -> incl NR NR' -> gokR C e' R' NR' g.
Proof.
  intros [A B D E F G] X IR IN. constructor; auto.
  - eapply env_ok_extends; eauto.
  - intros x Hx. apply IR. now apply D.
  - intros n Hn. apply IN. now apply E.
Qed.

Lemma gokR_with_id C e R NR g i : gokR C e R NR g -> gokR C e R NR (with_id g i).
Proof.
  intros [A B D E F G]. constructor; try assumption.
  - now apply wf_with_id.
  - now apply env_ok_with_id.
Qed.

Lemma gokR_forget C e R NR g : gokR C e R NR g -> gokR C (forget e) R NR g.
Proof. intros [A B D E F G]. constructor; try assumption. now apply env_ok_forget. Qed.

(* genomes that satisfy the weakened invariant are still "relatives" in the sense the multipoint
   crossovers need: consistent numbering, same trait shape, same io nodes *)
Lemma gokR_relatives C e R NR p1 p2 : rok C e R NR -> gokR C e R NR p1 -> gokR C e R NR p2 -> relatives p1 p2.
Proof.
  intros RO G1 G2. constructor.
  - apply (gr_wf _ _ _ _ _ G1).
  - apply (gr_wf _ _ _ _ _ G2).
  - eapply agrees_consistent; [apply (ro_fun _ _ _ _ RO)|apply (gr_reg _ _ _ _ _ G1)|apply (gr_reg _ _ _ _ _ G2)].
  - apply tshape_ids. rewrite (gr_tshape _ _ _ _ _ G1), (gr_tshape _ _ _ _ _ G2). reflexivity.
  - apply tshape_params. rewrite (gr_tshape _ _ _ _ _ G1), (gr_tshape _ _ _ _ _ G2). reflexivity.
  - unfold retains_io. eapply incl_tran; [eapply io_back; [exact RO|apply (gr_nreg _ _ _ _ _ G1)]|apply (gr_io _ _ _ _ _ G2)].
  - unfold retains_io. eapply incl_tran; [eapply io_back; [exact RO|apply (gr_nreg _ _ _ _ _ G2)]|apply (gr_io _ _ _ _ _ G1)].
Qed.

(* ------------------------------------------------------------------------------------------ *)
(* 2. one operator application                                                                  *)
(* ------------------------------------------------------------------------------------------ *)
Definition step_okR (C : ctx) (e e' : ienv) (R : reg) (NR : nreg) (g' : genome) : Prop :=
  exists R' NR', env_extends e e' /\ ext e e' R R' NR NR' /\ rok C e' R' NR' /\ gokR C e' R' NR' g'.

Lemma step_okR_refl C e R NR g : rok C e R NR -> gokR C e R NR g -> step_okR C e e R NR g.
Proof. intros A B. exists R, NR. split; [apply env_extends_refl|]. split; [apply ext_refl|]. auto. Qed.

Lemma step_okR_trans C e0 e1 e2 R NR g1 g2 :
  step_okR C e0 e1 R NR g1 ->
  (forall R1 NR1, rok C e1 R1 NR1 -> gokR C e1 R1 NR1 g1 -> step_okR C e1 e2 R1 NR1 g2) ->
  step_okR C e0 e2 R NR g2.
Proof.
  intros (R1 & N1 & X1 & E1 & RO1 & G1) H. destruct (H R1 N1 RO1 G1) as (R2 & N2 & X2 & E2 & RO2 & G2).
  exists R2, N2. split; [eapply env_extends_trans; eauto|]. split; [eapply ext_trans; eauto|]. auto.
Qed.

Lemma assembleR C e e' R NR R' NR' g g' :
  gokR C e R NR g ->
  wf g' /\ retains_io g g' /\ env_ok e' g' /\ env_extends e e' ->
  ext e e' R R' NR NR' -> rok C e' R' NR' -> g_agrees R' g' -> n_agrees NR' g' -> tshape g' = tshape g ->
  step_okR C e e' R NR g'.
Proof.
  intros G (W & IO & EO & EX) X RO A N T. exists R', NR'. split; [exact EX|]. split; [exact X|]. split; [exact RO|].
  constructor; auto.
  - eapply incl_tran; [apply (gr_io _ _ _ _ _ G)|exact IO].
  - rewrite T. apply (gr_tshape _ _ _ _ _ G).
Qed.

Lemma frame_stepR C e e' R NR g g' :
  rok C e R NR -> gokR C e R NR g -> frame g g' -> tshape g' = tshape g ->
  wf g' /\ retains_io g g' /\ env_ok e' g' /\ env_extends e e' ->
  next_innov e' = next_innov e -> next_node e' = next_node e -> innovs e' = innovs e ->
  step_okR C e e' R NR g'.
Proof.
  intros RO G F T W E1 E2 E3. eapply assembleR; eauto.
  - now apply ext_same_counters.
  - destruct RO as [A B D E F' G' H I J K]. constructor; rewrite ?E1, ?E2, ?E3; assumption.
  - eapply frame_agrees; [exact F|apply (gr_reg _ _ _ _ _ G)].
  - eapply frame_nagrees; [exact F|apply (gr_nreg _ _ _ _ _ G)].
Qed.

Lemma reg_step_okR C e e' R NR g g' :
  gokR C e R NR g -> reg_step C e e' R NR g g' ->
  wf g' /\ retains_io g g' /\ env_ok e' g' /\ env_extends e e' -> step_okR C e e' R NR g'.
Proof.
  intros G (R' & NR' & X & RO' & A' & N' & T & F) W. eapply assembleR; eauto. now apply tshape_traits.
Qed.

Section MutatorsR.
  Variable MH : mutators_ok.
  Variable C : ctx.

  Lemma link_weights_stepR pw rt ga R NR g s g' b s' :
    rok C (s_env s) R NR -> gokR C (s_env s) R NR g ->
    mutate_link_weights pw rt ga g s = Ok ((g', b), s') -> step_okR C (s_env s) (s_env s') R NR g'.
  Proof.
    intros RO G H. pose proof (H_link_weights MH pw rt ga g s g' b s' H (gr_wf _ _ _ _ _ G) (gr_env _ _ _ _ _ G)) as W.
    apply link_weights_spec in H. destruct H as (F & _ & T & _ & _ & E).
    eapply frame_stepR; eauto; try (now rewrite E). now apply tshape_traits.
  Qed.

  Lemma all_nonstructural_stepR o R NR g s g' b s' :
    rok C (s_env s) R NR -> gokR C (s_env s) R NR g ->
    mutate_all_nonstructural o g s = Ok ((g', b), s') -> step_okR C (s_env s) (s_env s') R NR g'.
  Proof.
    intros RO G H. pose proof (H_all_nonstructural MH o g s g' b s' H (gr_wf _ _ _ _ _ G) (gr_env _ _ _ _ _ G)) as W.
    pose proof (all_nonstructural_tshape _ _ _ _ _ _ H) as T.
    apply all_nonstructural_spec in H. destruct H as (F & E).
    eapply frame_stepR; eauto; now rewrite E.
  Qed.

  Lemma add_node_stepR o R NR g s g' b s' :
    rok C (s_env s) R NR -> gokR C (s_env s) R NR g ->
    mutate_add_node o g s = Ok ((g', b), s') -> step_okR C (s_env s) (s_env s') R NR g'.
  Proof.
    intros RO G H. eapply reg_step_okR; [exact G| |].
    - eapply add_node_reg; eauto; [apply (gr_reg _ _ _ _ _ G)|apply (gr_nreg _ _ _ _ _ G)].
    - eapply (H_add_node MH); eauto; [apply (gr_wf _ _ _ _ _ G)|apply (gr_env _ _ _ _ _ G)].
  Qed.

  Lemma add_link_stepR o R NR g s g' b s' :
    rok C (s_env s) R NR -> gokR C (s_env s) R NR g ->
    mutate_add_link o g s = Ok ((g', b), s') -> step_okR C (s_env s) (s_env s') R NR g'.
  Proof.
    intros RO G H. eapply reg_step_okR; [exact G| |].
    - eapply add_link_reg; eauto; [apply (gr_reg _ _ _ _ _ G)|apply (gr_nreg _ _ _ _ _ G)].
    - eapply (H_add_link MH); eauto; [apply (gr_wf _ _ _ _ _ G)|apply (gr_env _ _ _ _ _ G)].
  Qed.

  Lemma connect_sensors_stepR R NR g s g' b s' :
    rok C (s_env s) R NR -> gokR C (s_env s) R NR g ->
    mutate_connect_sensors g s = Ok ((g', b), s') -> step_okR C (s_env s) (s_env s') R NR g'.
  Proof.
    intros RO G H. eapply reg_step_okR; [exact G| |].
    - eapply connect_sensors_reg; eauto; [apply (gr_reg _ _ _ _ _ G)|apply (gr_nreg _ _ _ _ _ G)].
    - eapply (H_connect_sensors MH); eauto; [apply (gr_wf _ _ _ _ _ G)|apply (gr_env _ _ _ _ _ G)].
  Qed.
End MutatorsR.

(* ------------------------------------------------------------------------------------------ *)
(* 3. the multipoint crossovers                                                                 *)
(* ------------------------------------------------------------------------------------------ *)
Lemma child_gokR C e R NR p1 p2 c :
  rok C e R NR -> gokR C e R NR p1 -> gokR C e R NR p2 -> child_facts p1 p2 c -> gokR C e R NR c.
Proof.
  intros RO G1 G2 F.
  pose proof (gokR_relatives _ _ _ _ _ _ RO G1 G2) as Rel.
  destruct (child_wf p1 p2 c Rel F) as (W & IO1 & IO2).
  assert (Horig : forall y, In y (genes c) -> exists x p, (p = p1 \/ p = p2) /\ In x (genes p) /\ kin x y).
  { intros y Hy. destruct (cf_origin _ _ _ F y Hy) as (x & [Hx|Hx] & K); [exists x, p1|exists x, p2]; auto. }
  assert (Hpar : forall p, p = p1 \/ p = p2 -> gokR C e R NR p) by (intros p [->| ->]; assumption).
  assert (Hnsrc : forall n, In n (nodes c) -> exists m p, (p = p1 \/ p = p2) /\ In m (nodes p) /\
                                                         n_id m = n_id n /\ n_type m = n_type n).
  { intros n Hn. destruct (cf_nsrc _ _ _ F n Hn) as (m & [Hm|Hm] & Ei & Et & _); [exists m, p1|exists m, p2]; auto. }
  constructor.
  - exact W.
  - pose proof (gr_env _ _ _ _ _ G1) as E1. constructor.
    + intros y Hy. destruct (Horig y Hy) as (x & p & Hp & Hx & (K1 & _)). rewrite K1.
      apply (eo_innov _ _ (gr_env _ _ _ _ _ (Hpar p Hp))). exact Hx.
    + intros n Hn. destruct (Hnsrc n Hn) as (m & p & Hp & Hm & Ei & _). rewrite <- Ei.
      apply (eo_node _ _ (gr_env _ _ _ _ _ (Hpar p Hp))). exact Hm.
    + intros i y Hi Ht Hy Hnum. destruct (Horig y Hy) as (x & p & Hp & Hx & (K1 & K2 & K3 & K4)).
      unfold link_key. rewrite K2, K3, K4.
      apply (eo_link _ _ (gr_env _ _ _ _ _ (Hpar p Hp)) i x); auto. congruence.
    + intros i y Hi Ht Hy. destruct (Horig y Hy) as (x & p & Hp & Hx & (K1 & K2 & K3 & K4)).
      rewrite K1, K2, K3. apply (eo_split _ _ (gr_env _ _ _ _ _ (Hpar p Hp)) i x); auto.
    + apply (eo_rec _ _ E1).
    + apply (eo_uniq _ _ E1).
  - intros y Hy. destruct (Horig y Hy) as (x & p & Hp & Hx & (K1 & K2 & K3 & K4)).
    unfold link_key. rewrite K1, K2, K3, K4. apply (gr_reg _ _ _ _ _ (Hpar p Hp)). exact Hx.
  - intros n Hn. destruct (Hnsrc n Hn) as (m & p & Hp & Hm & Ei & Et). rewrite <- Ei, <- Et.
    apply (gr_nreg _ _ _ _ _ (Hpar p Hp)). exact Hm.
  - eapply incl_tran; [apply (gr_io _ _ _ _ _ G1)|exact IO1].
  - unfold tshape. rewrite (cf_traits _ _ _ F), mean_traits_tshape; [apply (gr_tshape _ _ _ _ _ G1)|apply (rel_tpar _ _ Rel)].
Qed.

Theorem mate_multipoint_gen_gokR C e R NR avg p1 p2 id f1 f2 s c s' :
  rok C e R NR -> gokR C e R NR p1 -> gokR C e R NR p2 ->
  mate_multipoint_gen avg p1 p2 id f1 f2 s = Ok (c, s') -> s_env s' = s_env s /\ gokR C e R NR c.
Proof.
  intros RO G1 G2 H. split; [exact (ep_mate_multipoint_gen _ _ _ _ _ _ _ _ _ H)|].
  pose proof (gokR_relatives _ _ _ _ _ _ RO G1 G2) as Rel.
  pose proof (mp_post_holds avg p1 p2 id f1 f2 s s' c (relatives_mate_hyps _ _ Rel) H) as P.
  exact (child_gokR C e R NR p1 p2 c RO G1 G2 (mp_child_facts avg p1 p2 f1 f2 c Rel P)).
Qed.

(* ------------------------------------------------------------------------------------------ *)
(* 4. reproduction without single-point crossover                                               *)
(* ------------------------------------------------------------------------------------------ *)
Section ReproR.
  Variable MH : mutators_ok.
  Variable C : ctx.
  Variable o : options.
  Hypothesis NS : no_single o.

  Definition pop_stepR (e e' : ienv) (R : reg) (NR : nreg) (h' : list organism) : Prop :=
    exists R' NR', env_extends e e' /\ ext e e' R R' NR NR' /\ rok C e' R' NR' /\ hall (gokR C e' R' NR') h'.

  Lemma pop_stepR_refl e R NR h : rok C e R NR -> hall (gokR C e R NR) h -> pop_stepR e e R NR h.
  Proof. intros A B. exists R, NR. split; [apply env_extends_refl|]. split; [apply ext_refl|]. auto. Qed.

  Lemma pop_stepR_trans e0 e1 e2 R NR h1 h2 :
    pop_stepR e0 e1 R NR h1 ->
    (forall R1 NR1, rok C e1 R1 NR1 -> hall (gokR C e1 R1 NR1) h1 -> pop_stepR e1 e2 R1 NR1 h2) ->
    pop_stepR e0 e2 R NR h2.
  Proof.
    intros (R1 & N1 & X1 & E1 & RO1 & G1) H. destruct (H R1 N1 RO1 G1) as (R2 & N2 & X2 & E2 & RO2 & G2).
    exists R2, N2. split; [eapply env_extends_trans; eauto|]. split; [eapply ext_trans; eauto|]. auto.
  Qed.

  Lemma finish_stepR e e' R NR h g' h' :
    hall (gokR C e R NR) h -> step_okR C e e' R NR g' ->
    (forall P : genome -> Prop, hall P h -> P g' -> hall P h') -> pop_stepR e e' R NR h'.
  Proof.
    intros Hh (R' & NR' & X & E & RO & G) Hb. exists R', NR'. split; [exact X|]. split; [exact E|]. split; [exact RO|].
    apply Hb; [|exact G]. intros x Hx. eapply gokR_mono; [now apply Hh|exact X|apply (x_R _ _ _ _ _ _ E)|apply (x_NR _ _ _ _ _ _ E)].
  Qed.

  Lemma mutate_baby_stepR R NR g s g' b s' :
    rok C (s_env s) R NR -> gokR C (s_env s) R NR g ->
    mutate_baby o g s = Ok ((g', b), s') -> step_okR C (s_env s) (s_env s') R NR g'.
  Proof.
    unfold mutate_baby. intros RO G H.
    mb H as r1 s1 E1. apply ep_float64 in E1. rewrite <- E1 in RO, G |- *.
    destruct (PrimFloat.ltb r1 _).
    { mb H as r s2 E2. destruct r as [g2 b2]. apply ret_inv in H. destruct H as [H ->]. injection H as <- _.
      eapply (add_node_stepR MH); eauto. }
    mb H as r2 s2 E2. apply ep_float64 in E2. rewrite <- E2 in RO, G |- *.
    destruct (PrimFloat.ltb r2 _).
    { mb H as r s3 E3. destruct r as [g2 b2]. apply ret_inv in H. destruct H as [H ->]. injection H as <- _.
      eapply (add_link_stepR MH); eauto. }
    mb H as r3 s3 E3. apply ep_float64 in E3. rewrite <- E3 in RO, G |- *.
    mb H as gs s4 E4. destruct gs as [g1 structural].
    assert (S1 : step_okR C (s_env s3) (s_env s4) R NR g1).
    { destruct (PrimFloat.ltb r3 _).
      - eapply (connect_sensors_stepR MH); eauto.
      - apply ret_inv in E4. destruct E4 as [E4 ->]. injection E4 as <- _. now apply step_okR_refl. }
    destruct structural.
    - apply ret_inv in H. destruct H as [H ->]. injection H as <- _. exact S1.
    - mb H as r s5 E5. destruct r as [g5 b5]. apply ret_inv in H. destruct H as [H ->]. injection H as <- _.
      eapply step_okR_trans; [exact S1|]. intros R1 NR1 RO1 G1. eapply (all_nonstructural_stepR MH); eauto.
  Qed.

  Lemma dup_gokR e R NR g count g0 : gokR C e R NR g -> duplicate g count = Ok g0 -> gokR C e R NR g0.
  Proof.
    intros G H. rewrite (duplicate_wf g count (gr_wf _ _ _ _ _ G)) in H. injection H as <-. now apply gokR_with_id.
  Qed.

  (* one offspring: as PopWF.one_baby_ok, except that the third branch of the method draw
     (mate_singlepoint) is shown unreachable from [no_single o] *)
  Lemma one_baby_okR gen all sorted sp count rs s rs' s' R NR :
    rok C (s_env s) R NR -> hall (gokR C (s_env s) R NR) (r_heap rs) ->
    one_baby o gen all sorted sp count rs s = Ok (rs', s') ->
    pop_stepR (s_env s) (s_env s') R NR (r_heap rs').
  Proof.
    unfold one_baby. intros RO Hh H. cbv zeta in H.
    mb H as champ s1 E1. ml E1.
    assert (Hc : gokR C (s_env s) R NR (o_genome champ)) by (eapply first_org_hall; eauto).
    destruct (Z.gtb (o_super champ) 0).
    { (* a super champion's offspring *)
      mb H as g0 s2 E2. ml E2. pose proof (dup_gokR _ _ _ _ _ _ Hc E2) as G0.
      mb H as gm s3 E3. destruct gm as [g1 ms].
      assert (S : step_okR C (s_env s) (s_env s3) R NR g1).
      { destruct (Z.gtb (o_super champ) 1).
        - mb E3 as r s4 E4. apply ep_float64 in E4. rewrite <- E4 in RO, G0 |- *.
          destruct (_ || _).
          + mb E3 as x s5 E5. destruct x as [gx bx]. apply ret_inv in E3. destruct E3 as [E3 ->]. injection E3 as <- _.
            eapply (link_weights_stepR MH); eauto.
          + mb E3 as x s5 E5. destruct x as [gx bx]. apply ret_inv in E3. destruct E3 as [E3 ->]. injection E3 as <- _.
            eapply (add_link_stepR MH); eauto.
        - apply ret_inv in E3. destruct E3 as [E3 ->]. injection E3 as <- _. now apply step_okR_refl. }
      apply ret_inv in H. destruct H as [H ->]. rewrite <- H. cbn [r_heap].
      eapply finish_stepR; [exact Hh|exact S|]. intros P HP Hg.
      apply hall_hset; [apply hall_hset; [exact HP|cbn; eapply first_org_hall; eauto]|].
      destruct (_ && _); cbn; exact Hg. }
    destruct (_ && _).
    { (* the champion's clone *)
      mb H as g0 s2 E2. ml E2. pose proof (dup_gokR _ _ _ _ _ _ Hc E2) as G0.
      apply ret_inv in H. destruct H as [H ->]. rewrite <- H. cbn [r_heap].
      eapply finish_stepR; [exact Hh|apply step_okR_refl; eauto|]. intros P HP Hg. apply hall_hset; [exact HP|exact Hg]. }
    mb H as r s2 E2. apply ep_float64 in E2. rewrite <- E2 in RO, Hh, Hc |- *.
    destruct (_ || _).
    { (* mutation only *)
      mb H as k s3 E3. apply ep_int31n in E3. rewrite <- E3 in RO, Hh, Hc |- *.
      mb H as mk s4 E4. ml E4. mb H as mom s5 E5. ml E5.
      assert (Hm : gokR C (s_env s3) R NR (o_genome mom)) by (eapply hall_hget; eauto).
      mb H as g0 s6 E6. ml E6. pose proof (dup_gokR _ _ _ _ _ _ Hm E6) as G0.
      mb H as gm s7 E7. destruct gm as [g1 b1].
      apply ret_inv in H. destruct H as [H ->]. rewrite <- H. cbn [r_heap fst].
      eapply finish_stepR; [exact Hh|eapply mutate_baby_stepR; eauto|].
      intros P HP Hg. apply hall_hset; [exact HP|exact Hg]. }
    (* mating *)
    mb H as k s3 E3. apply ep_int31n in E3. rewrite <- E3 in RO, Hh, Hc |- *.
    mb H as mk s4 E4. ml E4. mb H as mom s5 E5. ml E5.
    assert (Hm : gokR C (s_env s3) R NR (o_genome mom)) by (eapply hall_hget; eauto).
    mb H as r2 s6 E6. apply ep_float64 in E6. rewrite <- E6 in RO, Hh, Hc, Hm |- *.
    mb H as dad s7 E7.
    assert (Hd : gokR C (s_env s7) R NR (o_genome dad) /\ s_env s7 = s_env s6).
    { destruct (PrimFloat.ltb _ r2).
      - mb E7 as k2 s8 E8. apply ep_int31n in E8. mb E7 as dk s9 E9. ml E9. ml E7.
        rewrite E8. split; [eapply hall_hget; eauto|reflexivity].
      - mb E7 as sid s8 E8. apply ep_pick_other_species in E8. destruct (sp_find all sid); [|discriminate].
        ml E7. rewrite E8. split; [eapply first_org_hall; eauto|reflexivity]. }
    destruct Hd as [Hd Es7]. rewrite <- Es7 in RO, Hh, Hc, Hm |- *.
    mb H as r3 s8 E8. pose proof E8 as D8. apply ep_float64 in E8. rewrite <- E8 in RO, Hh, Hc, Hm, Hd |- *.
    mb H as child s9 E9.
    assert (Hch : s_env s9 = s_env s8 /\ gokR C (s_env s8) R NR child).
    { destruct (PrimFloat.ltb r3 _) eqn:L3.
      - exact (mate_multipoint_gen_gokR C _ R NR false _ _ _ _ _ _ _ _ RO Hm Hd E9).
      - mb E9 as r4 s10 E10. pose proof E10 as D10. apply ep_float64 in E10. rewrite <- E10 in RO, Hm, Hd |- *.
        destruct (PrimFloat.ltb r4 _) eqn:L4.
        + exact (mate_multipoint_gen_gokR C _ R NR true _ _ _ _ _ _ _ _ RO Hm Hd E9).
        + (* single point: excluded by the condition on the options *)
          exfalso. destruct NS as [N|N].
          * rewrite (r_float64_below _ _ _ _ D8 N) in L3. discriminate L3.
          * rewrite (r_float64_below _ _ _ _ D10 N) in L4. discriminate L4. }
    destruct Hch as [Es9 Hch]. rewrite <- Es9 in RO, Hh, Hch |- *.
    mb H as r5 s10 E10. apply ep_float64 in E10. rewrite <- E10 in RO, Hh, Hch |- *.
    mb H as gm s11 E11. destruct gm as [g1 b1].
    apply ret_inv in H. destruct H as [H ->]. rewrite <- H. cbn [r_heap fst].
    eapply finish_stepR; [exact Hh| |intros P HP Hg; apply hall_hset; [exact HP|exact Hg]].
    destruct (_ || _).
    - eapply mutate_baby_stepR; eauto.
    - apply ret_inv in E11. destruct E11 as [E11 ->]. injection E11 as <- _. now apply step_okR_refl.
  Qed.

  Lemma reproduce_loop_okR gen all sorted sp : forall n count rs s rs' s' R NR,
      rok C (s_env s) R NR -> hall (gokR C (s_env s) R NR) (r_heap rs) ->
      reproduce_loop n o gen all sorted sp count rs s = Ok (rs', s') ->
      pop_stepR (s_env s) (s_env s') R NR (r_heap rs').
  Proof.
    induction n as [|n IH]; intros count rs s rs' s' R NR RO Hh H; cbn [reproduce_loop] in H.
    - apply ret_inv in H. destruct H as [<- ->]. now apply pop_stepR_refl.
    - mb H as rs1 s1 E1. eapply pop_stepR_trans; [eapply one_baby_okR; eauto|].
      intros R1 NR1 RO1 Hh1. eapply IH; eauto.
  Qed.

  Lemma reproduce_species_okR gen all sorted sp h key s h' key' bs s' R NR :
    rok C (s_env s) R NR -> hall (gokR C (s_env s) R NR) h ->
    reproduce_species o gen all sorted sp h key s = Ok ((h', key', bs), s') ->
    pop_stepR (s_env s) (s_env s') R NR h'.
  Proof.
    unfold reproduce_species. intros RO Hh H. destruct (_ && _); [discriminate|].
    destruct (sp_orgs sp); [discriminate|].
    mb H as rs s1 E1. apply ret_inv in H. destruct H as [H ->]. injection H as <- _ _.
    eapply reproduce_loop_okR; [exact RO| |exact E1]. exact Hh.
  Qed.

  Lemma reproduce_all_okR gen all sorted best : forall l h key babies br s h' key' babies' br' s' R NR,
      rok C (s_env s) R NR -> hall (gokR C (s_env s) R NR) h ->
      reproduce_all o gen all sorted best l h key babies br s = Ok ((h', key', babies', br'), s') ->
      pop_stepR (s_env s) (s_env s') R NR h'.
  Proof.
    induction l as [|sp l IH]; intros h key babies br s h' key' babies' br' s' R NR RO Hh H; cbn [reproduce_all] in H.
    - apply ret_inv in H. destruct H as [H ->]. injection H as <- _ _ _. now apply pop_stepR_refl.
    - mb H as r s1 E1. destruct r as [[h1 key1] bs].
      eapply pop_stepR_trans; [eapply reproduce_species_okR; eauto|].
      intros R1 NR1 RO1 Hh1. eapply IH; eauto.
  Qed.

  Lemma reproduce_okR gen p sorted x s p' x' s' R NR :
    rok C (s_env s) R NR -> hall (gokR C (s_env s) R NR) (p_heap p) ->
    reproduce o gen p sorted x s = Ok ((p', x'), s') ->
    pop_stepR (s_env s) (s_env s') R NR (p_heap p').
  Proof.
    unfold reproduce. intros RO Hh H. mb H as r s1 E1. destruct r as [[[h1 key1] babies] br].
    destruct (negb _); [discriminate|]. mb H as p2 s2 E2. ml E2.
    apply ret_inv in H. destruct H as [H ->]. injection H as <- _.
    destruct (reproduce_all_okR _ _ _ _ _ _ _ _ _ _ _ _ _ _ _ _ _ RO Hh E1) as (R' & NR' & X & E & RO' & Hh').
    exists R', NR'. split; [exact X|]. split; [exact E|]. split; [exact RO'|].
    eapply speciate_hall; [exact E2|]. exact Hh'.
  Qed.
End ReproR.

(* ------------------------------------------------------------------------------------------ *)
(* 5. the weakened population invariant, one epoch, histories                                   *)
(* ------------------------------------------------------------------------------------------ *)
Record GInvR (C : ctx) (p : population) (e : ienv) (R : reg) (NR : nreg) : Prop := {
  gir_reg : rok C e R NR;
  gir_orgs : hall (gokR C e R NR) (p_heap p)
}.

(* the invariant of spawned populations implies the weakened one *)
Lemma GInv_GInvR C p e R NR : GInv C p e R NR -> GInvR C p e R NR.
Proof. intros [RO Hp]. constructor; [exact RO|]. intros y Hy. apply gok_iff_gokR. now apply Hp. Qed.

Theorem GInvR_step C o gen p x s p' x' s' R NR :
  no_single o ->
  GInvR C p (s_env s) R NR -> next_epoch o gen p x s = Ok ((p', x'), s') ->
  exists R' NR', ext (s_env s) (s_env s') R R' NR NR' /\ GInvR C p' (s_env s') R' NR' /\ innovs (s_env s') = [].
Proof.
  unfold next_epoch. intros NS [RO Hh] H.
  mb H as r s1 E1. destruct r as [[p1 sorted] best].
  destruct (prepare_hall _ _ _ _ _ _ _ _ E1 Hh) as [Hh1 Es1]. rewrite <- Es1 in RO, Hh1 |- *.
  mb H as r2 s2 E2. destruct r2 as [p2 x2].
  destruct (reproduce_okR mutators_ok_holds C o NS _ _ _ _ _ _ _ _ _ _ RO Hh1 E2) as (R' & NR' & X & E & RO' & Hh2).
  mb H as p3 s3 E3. apply ret_inv in H. destruct H as [H ->]. injection H as <- _.
  destruct (finalize_hall (gokR C (s_env s2) R' NR') (fun g i => gokR_with_id C _ R' NR' g i) _ _ _ _ _ E3 Hh2) as [Hh3 Es3].
  exists R', NR'. rewrite Es3. split; [now apply ext_forget|]. split; [|reflexivity].
  constructor; [now apply rok_forget|]. intros y Hy. apply gokR_forget. now apply Hh3.
Qed.

Theorem GInvR_history C o p s l p' s' : no_single o -> history o p s l p' s' -> forall R NR,
  GInvR C p (s_env s) R NR ->
  exists R' NR', incl R R' /\ incl NR NR' /\ GInvR C p' (s_env s') R' NR' /\
                 (forall n k, In (n, k) R' -> In (n, k) R \/ next_innov (s_env s) < n) /\
                 (forall i t, In (i, t) NR' -> In (i, t) NR \/ next_node (s_env s) < i) /\
                 forall q, In q l -> exists e, hall (gokR C e R' NR') (p_heap q).
Proof.
  intros NS. induction 1 as [p s|p s fs h gen x tp p1 x1 s1 l p2 s2 Hf He Hh IH]; intros R NR G.
  - exists R, NR. split; [apply incl_refl|]. split; [apply incl_refl|]. split; [exact G|]. split; [auto|]. split; [auto|].
    intros q [].
  - assert (G0 : GInvR C (p_with_heap p h) (s_env {| s_tape := tp; s_env := s_env s |}) R NR).
    { destruct G as [RO Hp]. constructor; [exact RO|]. cbn [p_heap p_with_heap p_with s_env].
      eapply set_fitness_hall; eauto. }
    destruct (GInvR_step _ _ _ _ _ _ _ _ _ _ _ NS G0 He) as (R1 & N1 & X1 & G1 & _). cbn [s_env] in X1.
    destruct (IH R1 N1 G1) as (R2 & N2 & I1 & I2 & G2 & New1 & New2 & Hl).
    exists R2, N2. split; [eapply incl_tran; [apply (x_R _ _ _ _ _ _ X1)|exact I1]|].
    split; [eapply incl_tran; [apply (x_NR _ _ _ _ _ _ X1)|exact I2]|]. split; [exact G2|].
    split; [|split].
    + intros n k Hin. destruct (New1 n k Hin) as [H1|H1].
      * apply (x_new _ _ _ _ _ _ X1 n k H1).
      * right. pose proof (x_innov _ _ _ _ _ _ X1). lia.
    + intros i t Hin. destruct (New2 i t Hin) as [H1|H1].
      * apply (x_nnew _ _ _ _ _ _ X1 i t H1).
      * right. pose proof (x_node _ _ _ _ _ _ X1). lia.
    + intros q [<-|Hq]; [|now apply Hl]. exists (s_env s1). intros y Hy.
      destruct G1 as [_ Hp1]. specialize (Hp1 y Hy). destruct Hp1 as [A B D E F G'].
      constructor; auto.
      * intros z Hz. apply I1. now apply D.
      * intros z Hz. apply I2. now apply E.
Qed.

(* every genome of every population of the history: well-formed, with the io nodes of the context *)
Theorem GInvR_history_wf C o p s l p' s' R NR :
  no_single o -> GInvR C p (s_env s) R NR -> history o p s l p' s' ->
  forall q, In q (p :: l) -> hall (fun g => wf g /\ incl (c_io C) (io_nodes g)) (p_heap q).
Proof.
  intros NS G H. destruct (GInvR_history C _ _ _ _ _ _ NS H R NR G) as (R' & NR' & _ & _ & _ & _ & _ & Hl).
  intros q [<-|Hq] y Hy.
  - destruct G as [_ Hp]. specialize (Hp y Hy). split; [apply (gr_wf _ _ _ _ _ Hp)|apply (gr_io _ _ _ _ _ Hp)].
  - destruct (Hl q Hq) as (e & He). specialize (He y Hy). split; [apply (gr_wf _ _ _ _ _ He)|apply (gr_io _ _ _ _ _ He)].
Qed.

(* any two genes that ever lived in the population and carry the same innovation number join the
   same nodes with the same recurrence flag; a node id never denotes nodes of different roles *)
Theorem GInvR_history_one_link_per_number C o p s l p' s' R NR :
  no_single o -> GInvR C p (s_env s) R NR -> history o p s l p' s' ->
  forall pa pb a b, In pa (p :: l) -> In pb (p :: l) -> In a (p_heap pa) -> In b (p_heap pb) ->
    (forall xa xb, In xa (genes (o_genome a)) -> In xb (genes (o_genome b)) -> g_innov xa = g_innov xb ->
                   link_key xa = link_key xb) /\
    (forall na nb, In na (nodes (o_genome a)) -> In nb (nodes (o_genome b)) -> n_id na = n_id nb ->
                   n_type na = n_type nb).
Proof.
  intros NS G H. destruct (GInvR_history C _ _ _ _ _ _ NS H R NR G) as (R' & NR' & I1 & I2 & G' & _ & _ & Hl).
  assert (Hall : forall q, In q (p :: l) -> hall (fun g => g_agrees R' g /\ n_agrees NR' g) (p_heap q)).
  { intros q [<-|Hq] y Hy.
    - destruct G as [_ Hp]. specialize (Hp y Hy). split.
      + intros z Hz. apply I1. now apply (gr_reg _ _ _ _ _ Hp).
      + intros z Hz. apply I2. now apply (gr_nreg _ _ _ _ _ Hp).
    - destruct (Hl q Hq) as (e & He). specialize (He y Hy). split; [apply (gr_reg _ _ _ _ _ He)|apply (gr_nreg _ _ _ _ _ He)]. }
  intros pa pb a b Hpa Hpb Ha Hb. destruct (Hall pa Hpa a Ha) as [A1 A2]. destruct (Hall pb Hpb b Hb) as [B1 B2].
  destruct G' as [RO' _]. split.
  - intros xa xb Hxa Hxb E. apply (ro_fun _ _ _ _ RO' (g_innov xa)); [now apply A1|]. rewrite E. now apply B1.
  - intros na nb Hna Hnb E. apply (ro_nfun _ _ _ _ RO' (n_id na)); [now apply A2|]. rewrite E. now apply B2.
Qed.

(* ------------------------------------------------------------------------------------------ *)
(* 6. initialisation: NewPopulationRandom                                                       *)
(* ------------------------------------------------------------------------------------------ *)
(* the input, bias and output nodes every random genome carries: (id, role) *)
Definition rand_io (in_ mh T : Z) : list (Z * Z) :=
  map (fun i => (i, if Z.eqb i in_ then BIAS else INPUT)) (for_range 1 in_) ++
  map (fun i => (i, OUTPUT)) (for_range (in_ + mh + 1) T).

Definition rand_ctx (in_ out mh : Z) : ctx :=
  {| c_io := rand_io in_ mh (in_ + out + mh); c_tshape := [(1, 8%nat)]; c_n0 := 0 |}.

Definition heap_reg (h : list organism) : reg := flat_map (fun x => reg_of (o_genome x)) h.
Definition heap_nreg (h : list organism) : nreg := flat_map (fun x => nreg_of (o_genome x)) h.

(* the role of a node and the link of a gene are functions of the id / the innovation number *)
Definition rand_role (in_ fo i : Z) : Z :=
  if Z.leb i in_ then (if Z.eqb i in_ then BIAS else INPUT) else if Z.ltb i fo then HIDDEN else OUTPUT.
Definition rand_key (T n : Z) : Z * Z * bool :=
  (n mod T + 1, n / T + 1, negb (Z.gtb (n / T + 1) (n mod T + 1))).

Section RandMember.
  Variables (o : options) (new_id in_ out n mh : Z) (rc : bool) (g : genome).
  Hypothesis Hin : 1 <= in_.
  Hypothesis Hout : 1 <= out.
  Hypothesis Hn : 0 <= n <= mh.
  Hypothesis RG : rand_genome_ok o new_id in_ out n mh rc g.

  Let T := in_ + out + mh.
  Let S := rg_shape _ _ _ _ _ _ _ _ RG.

  Lemma rm_role x : In x (nodes g) -> n_type x = rand_role in_ (in_ + mh + 1) (n_id x).
  Proof using All.
    intros Hx. unfold rand_role. destruct (Z.leb_spec (n_id x) in_) as [Hle|Hgt].
    - rewrite (nsh_sensor _ _ _ _ _ _ S x Hx Hle) at 1. reflexivity.
    - destruct (Z.ltb_spec (n_id x) (in_ + mh + 1)) as [Hlt|Hge].
      + destruct (nsh_hidden _ _ _ _ _ _ S x Hx (conj Hgt Hlt)) as [_ [Ht _]]. exact Ht.
      + rewrite (nsh_output _ _ _ _ _ _ S x Hx Hge) at 1. reflexivity.
  Qed.

  Lemma rm_key x : In x (genes g) -> link_key x = rand_key T (g_innov x).
  Proof using All.
    intros Hx. destruct (rgc_gene_ok _ _ _ _ _ _ _ _ Hin Hout Hn RG x Hx) as [(H1 & H2 & H3 & _ & _ & _ & _ & _ & H9 & _) _].
    fold T in H1, H2, H3.
    assert (HT : 0 < T) by (unfold T; lia).
    assert (Eq : g_innov x / T = g_out x - 1).
    { symmetry. apply (Z.div_unique_pos _ _ _ (g_in x - 1)); lia. }
    assert (Er : g_innov x mod T = g_in x - 1).
    { symmetry. apply (Z.mod_unique_pos _ _ (g_out x - 1)); lia. }
    unfold link_key, rand_key. rewrite Eq, Er, H9.
    replace (g_in x - 1 + 1) with (g_in x) by lia. replace (g_out x - 1 + 1) with (g_out x) by lia. reflexivity.
  Qed.

  Lemma rm_io_incl : incl (rand_io in_ mh T) (io_nodes g).
  Proof using All.
    intros [i t] Hit. unfold rand_io in Hit. apply in_app_or in Hit. destruct Hit as [Hit|Hit].
    - apply in_map_iff in Hit. destruct Hit as (j & [= <- <-] & Hj). apply for_range_In in Hj.
      pose proof (rgc_sensor_nodes _ _ _ _ _ _ _ _ Hin Hout Hn RG j Hj) as Hl.
      apply node_with_id_In in Hl. destruct Hl as [Hl _].
      apply (in_io_nodes g (rand_sensor in_ j) Hl). unfold rand_sensor, is_io, is_sensor. cbn [n_type].
      destruct (Z.eqb j in_); reflexivity.
    - apply in_map_iff in Hit. destruct Hit as (j & [= <- <-] & Hj). apply for_range_In in Hj.
      pose proof (rgc_output_nodes _ _ _ _ _ _ _ _ Hin Hout Hn RG j Hj) as Hl.
      apply node_with_id_In in Hl. destruct Hl as [Hl _].
      apply (in_io_nodes g (rand_output j) Hl). reflexivity.
  Qed.

  Lemma rm_io_back : incl (io_nodes g) (rand_io in_ mh T).
  Proof using All.
    intros [i t] Hit. destruct (io_nodes_in g i t Hit) as (x & Hx & Hio & <- & <-).
    unfold rand_io. apply in_or_app.
    destruct (Z_le_gt_dec (n_id x) in_) as [Hle|Hgt].
    - left. apply in_map_iff. exists (n_id x). split.
      + rewrite (rm_role x Hx). unfold rand_role. destruct (Z.leb_spec (n_id x) in_); [reflexivity|lia].
      + apply for_range_In. pose proof (rgc_node_bound _ _ _ _ _ _ _ _ Hin Hout Hn RG x Hx). lia.
    - destruct (Z_lt_le_dec (n_id x) (in_ + mh + 1)) as [Hlt|Hge].
      + exfalso. destruct (nsh_hidden _ _ _ _ _ _ S x Hx) as [_ [Ht _]]; [lia|].
        unfold is_io, is_sensor in Hio. rewrite Ht in Hio. discriminate Hio.
      + right. apply in_map_iff. exists (n_id x). split.
        * rewrite (rm_role x Hx). unfold rand_role. destruct (Z.leb_spec (n_id x) in_); [lia|].
          destruct (Z.ltb_spec (n_id x) (in_ + mh + 1)); [lia|reflexivity].
        * apply for_range_In. pose proof (rgc_node_bound _ _ _ _ _ _ _ _ Hin Hout Hn RG x Hx). fold T in H. lia.
  Qed.

  Lemma rm_tshape : tshape g = [(1, 8%nat)].
  Proof using All. unfold tshape. rewrite (rg_traits _ _ _ _ _ _ _ _ RG). reflexivity. Qed.
End RandMember.

Lemma in_heap_reg h n k : In (n, k) (heap_reg h) -> exists y x, In y h /\ In x (genes (o_genome y)) /\ n = g_innov x /\ k = link_key x.
Proof.
  unfold heap_reg. intros H. apply in_flat_map in H. destruct H as (y & Hy & H).
  unfold reg_of in H. apply in_map_iff in H. destruct H as (x & [= <- <-] & Hx). exists y, x. auto.
Qed.

Lemma in_heap_nreg h i t : In (i, t) (heap_nreg h) -> exists y x, In y h /\ In x (nodes (o_genome y)) /\ i = n_id x /\ t = n_type x.
Proof.
  unfold heap_nreg. intros H. apply in_flat_map in H. destruct H as (y & Hy & H).
  unfold nreg_of in H. apply in_map_iff in H. destruct H as (x & [= <- <-] & Hx). exists y, x. auto.
Qed.

Theorem GInvR_random o in_ out mh rc lp s p s' :
  1 <= in_ -> 1 <= out -> innovs (s_env s) = [] ->
  new_population_random o in_ out mh rc lp s = Ok (p, s') ->
  (forall x, In x (p_heap p) -> genes (o_genome x) <> []) ->
  GInvR (rand_ctx in_ out mh) p (s_env s') (heap_reg (p_heap p)) (heap_nreg (p_heap p)) /\ innovs (s_env s') = [].
Proof.
  intros Hin Hout Ei H Hne.
  destruct (new_population_random_spec _ _ _ _ _ _ _ _ _ Hin Hout H) as (Ha & Hni & Hnn & Hinn).
  rewrite Ei in Hinn. split; [|exact Hinn].
  set (T := in_ + out + mh) in *.
  assert (HT : 0 <= T * T) by apply Z.square_nonneg.
  assert (Hmem : forall y, In y (p_heap p) -> exists id n, 0 <= n <= mh /\ rand_genome_ok o id in_ out n mh rc (o_genome y)).
  { intros y Hy. destruct (Ha y Hy) as (id & n & Hn & RG). exists id, n. split; [lia|exact RG]. }
  constructor.
  - constructor; cbn [rand_ctx c_n0 c_io]; rewrite ?Hinn; try (intros; contradiction).
    + intros a b b' H1 H2. apply in_heap_reg in H1. apply in_heap_reg in H2.
      destruct H1 as (y1 & x1 & Hy1 & Hx1 & -> & ->). destruct H2 as (y2 & x2 & Hy2 & Hx2 & E & ->).
      destruct (Hmem y1 Hy1) as (id1 & n1 & Hn1 & RG1). destruct (Hmem y2 Hy2) as (id2 & n2 & Hn2 & RG2).
      rewrite (rm_key _ _ _ _ _ _ _ _ Hin Hout Hn1 RG1 x1 Hx1), (rm_key _ _ _ _ _ _ _ _ Hin Hout Hn2 RG2 x2 Hx2), E.
      reflexivity.
    + intros a b b' H1 H2. apply in_heap_nreg in H1. apply in_heap_nreg in H2.
      destruct H1 as (y1 & x1 & Hy1 & Hx1 & -> & ->). destruct H2 as (y2 & x2 & Hy2 & Hx2 & E & ->).
      destruct (Hmem y1 Hy1) as (id1 & n1 & Hn1 & RG1). destruct (Hmem y2 Hy2) as (id2 & n2 & Hn2 & RG2).
      rewrite (rm_role _ _ _ _ _ _ _ _ Hin Hout Hn1 RG1 x1 Hx1), (rm_role _ _ _ _ _ _ _ _ Hin Hout Hn2 RG2 x2 Hx2), E. reflexivity.
    + rewrite Hni. lia.
    + intros n k Hin'. apply in_heap_reg in Hin'. destruct Hin' as (y & x & Hy & Hx & -> & _).
      destruct (Hmem y Hy) as (id & n0 & Hn0 & RG).
      destruct (rgc_gene_ok _ _ _ _ _ _ _ _ Hin Hout Hn0 RG x Hx) as [_ Hr]. fold T in Hr. rewrite Hni. lia.
    + intros i t Hin'. apply in_heap_nreg in Hin'. destruct Hin' as (y & x & Hy & Hx & -> & _).
      destruct (Hmem y Hy) as (id & n0 & Hn0 & RG).
      pose proof (rgc_node_bound _ _ _ _ _ _ _ _ Hin Hout Hn0 RG x Hx) as Hb. fold T in Hb. rewrite Hnn. lia.
    + intros i t Hin' Hio. apply in_heap_nreg in Hin'. destruct Hin' as (y & x & Hy & Hx & -> & ->).
      destruct (Hmem y Hy) as (id & n0 & Hn0 & RG).
      apply (rm_io_back _ _ _ _ _ _ _ _ Hin Hout Hn0 RG). apply in_io_nodes; [exact Hx|]. now rewrite is_io_io_type.
  - intros y Hy. destruct (Hmem y Hy) as (id & n0 & Hn0 & RG). constructor; cbn [rand_ctx c_io c_tshape].
    + exact (rgc_wf _ _ _ _ _ _ _ _ Hin Hout Hn0 RG (Hne y Hy)).
    + constructor; rewrite ?Hinn; try (intros; contradiction).
      * intros x Hx. destruct (rgc_gene_ok _ _ _ _ _ _ _ _ Hin Hout Hn0 RG x Hx) as [_ Hr]. fold T in Hr. rewrite Hni. lia.
      * intros m Hm. pose proof (rgc_node_bound _ _ _ _ _ _ _ _ Hin Hout Hn0 RG m Hm) as Hb. fold T in Hb. rewrite Hnn. lia.
      * constructor.
    + intros x Hx. unfold heap_reg. apply in_flat_map. exists y. split; [exact Hy|].
      unfold reg_of. apply in_map_iff. now exists x.
    + intros m Hm. unfold heap_nreg. apply in_flat_map. exists y. split; [exact Hy|].
      unfold nreg_of. apply in_map_iff. now exists m.
    + exact (rm_io_incl _ _ _ _ _ _ _ _ Hin Hout Hn0 RG).
    + exact (rm_tshape _ _ _ _ _ _ _ _ Hin Hout Hn0 RG).
Qed.

Lemma rand_io_sensor in_ mh T i : 1 <= i <= in_ -> In (i, if Z.eqb i in_ then BIAS else INPUT) (rand_io in_ mh T).
Proof.
  intros Hi. unfold rand_io. apply in_or_app. left. apply in_map_iff. exists i. split; [reflexivity|]. now apply for_range_In.
Qed.

Lemma rand_io_output in_ mh T i : in_ + mh + 1 <= i <= T -> In (i, OUTPUT) (rand_io in_ mh T).
Proof.
  intros Hi. unfold rand_io. apply in_or_app. right. apply in_map_iff. exists i. split; [reflexivity|]. now apply for_range_In.
Qed.

(* ------------------------------------------------------------------------------------------ *)
(* 7. C01 / C03 for random populations                                                          *)
(* ------------------------------------------------------------------------------------------ *)
Theorem random_history_wf o in_ out mh rc lp s p s1 l p' s' :
  1 <= in_ -> 1 <= out -> innovs (s_env s) = [] -> no_single o ->
  new_population_random o in_ out mh rc lp s = Ok (p, s1) ->
  (forall x, In x (p_heap p) -> genes (o_genome x) <> []) ->
  history o p s1 l p' s' ->
  forall q, In q (p :: l) -> forall x, In x (p_heap q) ->
    wf (o_genome x) /\
    (forall i, 1 <= i <= in_ -> In (i, if Z.eqb i in_ then BIAS else INPUT) (io_nodes (o_genome x))) /\
    (forall i, in_ + mh + 1 <= i <= in_ + mh + out -> In (i, OUTPUT) (io_nodes (o_genome x))).
Proof.
  intros Hin Hout Ei NS H Hne Hh q Hq x Hx.
  destruct (GInvR_random _ _ _ _ _ _ _ _ _ Hin Hout Ei H Hne) as [G _].
  destruct (GInvR_history_wf _ _ _ _ _ _ _ _ _ NS G Hh q Hq x Hx) as [W IO]. cbn [rand_ctx c_io] in IO.
  split; [exact W|]. split.
  - intros i Hi. apply IO. now apply rand_io_sensor.
  - intros i Hi. apply IO. apply rand_io_output. lia.
Qed.

(* the same through the key lists, relative to the genomes of the constructed population *)
Theorem random_history_wf_reachable o in_ out mh rc lp s p s1 l p' s' :
  1 <= in_ -> 1 <= out -> innovs (s_env s) = [] -> no_single o ->
  new_population_random o in_ out mh rc lp s = Ok (p, s1) ->
  (forall x, In x (p_heap p) -> genes (o_genome x) <> []) ->
  history o p s1 l p' s' ->
  forall q, In q (p :: l) -> forall k x, hget (p_heap q) k = Ok x ->
    wf (o_genome x) /\ forall a, In a (p_heap p) -> retains_io (o_genome a) (o_genome x).
Proof.
  intros Hin Hout Ei NS H Hne Hh q Hq k x Hk.
  destruct (GInvR_random _ _ _ _ _ _ _ _ _ Hin Hout Ei H Hne) as [G _].
  destruct (GInvR_history_wf _ _ _ _ _ _ _ _ _ NS G Hh q Hq x (hget_In _ _ _ Hk)) as [W IO].
  split; [exact W|]. intros a Ha. destruct G as [RO Hp]. unfold retains_io.
  eapply incl_tran; [eapply io_back; [exact RO|apply (gr_nreg _ _ _ _ _ (Hp a Ha))]|exact IO].
Qed.

Theorem random_history_one_link_per_number o in_ out mh rc lp s p s1 l p' s' :
  1 <= in_ -> 1 <= out -> innovs (s_env s) = [] -> no_single o ->
  new_population_random o in_ out mh rc lp s = Ok (p, s1) ->
  (forall x, In x (p_heap p) -> genes (o_genome x) <> []) ->
  history o p s1 l p' s' ->
  forall pa pb a b, In pa (p :: l) -> In pb (p :: l) -> In a (p_heap pa) -> In b (p_heap pb) ->
    (forall xa xb, In xa (genes (o_genome a)) -> In xb (genes (o_genome b)) -> g_innov xa = g_innov xb ->
                   link_key xa = link_key xb) /\
    (forall na nb, In na (nodes (o_genome a)) -> In nb (nodes (o_genome b)) -> n_id na = n_id nb ->
                   n_type na = n_type nb).
Proof.
  intros Hin Hout Ei NS H Hne Hh.
  destruct (GInvR_random _ _ _ _ _ _ _ _ _ Hin Hout Ei H Hne) as [G _].
  exact (GInvR_history_one_link_per_number _ _ _ _ _ _ _ _ _ NS G Hh).
Qed.

(* ------------------------------------------------------------------------------------------ *)
(* 8. an executable history of a random population (used by the non-vacuity examples)           *)
(* ------------------------------------------------------------------------------------------ *)
Definition run_random (o : options) (in_ out mh : Z) (rc : bool) (lp : float) (s0 : st) (fit : list float) (n : nat)
  : res (list population * st) :=
  do r <- new_population_random o in_ out mh rc lp s0;
  let '(p, s) := r in
  do r2 <- run_epochs o fit n 1 p {| x_best_id := 0; x_best_reproduced := false |} s;
  Ok (p :: fst r2, snd r2).

Lemma run_random_history o in_ out mh rc lp s0 fit n l s2 :
  run_random o in_ out mh rc lp s0 fit n = Ok (l, s2) ->
  exists p s l' p' s', new_population_random o in_ out mh rc lp s0 = Ok (p, s) /\ history o p s l' p' s' /\
                       length l' = n /\ l = p :: l'.
Proof.
  unfold run_random. intros H. rbind H as r E0. destruct r as [p s]. rbind H as r2 E1. injection H as <- _.
  destruct (run_epochs_history _ _ _ _ _ _ _ _ E1) as (p' & s' & Hh & Hl). exists p, s, (fst r2), p', s'. auto.
Qed.
