(* C11: the statements of props/C11.v, about the network [n] returned by [genesis g netId]
   (GenesisSpec.v: it is [spec_net g netId]; GraphSpec.v: the graph view of [spec_net g netId]). *)
From NeatModel Require Import Res F64 Genome Genesis Graph GenesisSpec GraphSpec.
From Coq Require Import Lia Permutation.

Lemma nodup_app_l {A} (l1 l2 : list A) : NoDup (l1 ++ l2) -> NoDup l1.
Proof.
  induction l1 as [|a l1 IH]; simpl; intros H; [constructor|].
  inversion H as [|? ? Hni Hnd]; subst. constructor; [|now apply IH].
  intros X. apply Hni. apply in_or_app. now left.
Qed.

(* a successful Genesis returned the specified network *)
Lemma genesis_ok_inv g netId n :
  wf_nodes g -> wf_genes g -> wf_modules g -> genesis g netId = Ok n -> n = spec_net g netId.
Proof.
  intros Hn Hg Hm H.
  assert (G : genes g <> []).
  { intros X. rewrite genesis_unfold, X in H. discriminate. }
  assert (O : output_ids g <> []).
  { intros X. rewrite genesis_unfold, X in H. destruct (genes g); discriminate. }
  rewrite (genesis_ok g netId Hn Hg Hm G O) in H. now injection H.
Qed.

Section Genesis.
  Variables (g : genome) (netId : Z) (n : pnet).
  Hypothesis Hn : NoDup (map n_id (nodes g)).
  Hypothesis Hg : forall x, In x (genes g) -> g_en x = true ->
                            In (g_in x) (map n_id (nodes g)) /\ In (g_out x) (map n_id (nodes g)).
  Hypothesis Hm : forall m, In m (modules g) -> m_en m = true ->
                            forall s w, In (s, w) (m_ins m) \/ In (s, w) (m_outs m) -> In s (map n_id (nodes g)).
  Hypothesis Hok : genesis g netId = Ok n.

  Lemma n_is_spec : n = spec_net g netId.
  Proof. exact (genesis_ok_inv g netId n Hn Hg Hm Hok). Qed.

  Lemma genesis_nodes :
    net_id n = netId /\
    map (fun p => (p_id p, p_type p, p_act p, p_trait p)) (net_all n) =
    map (fun nd => (n_id nd, n_type nd, n_act nd, n_trait nd)) (nodes g) /\
    net_inputs n = map n_id (filter (fun nd => Z.eqb (n_type nd) INPUT || Z.eqb (n_type nd) BIAS) (nodes g)) /\
    net_outputs n = map n_id (filter (fun nd => Z.eqb (n_type nd) OUTPUT) (nodes g)).
  Proof.
    rewrite n_is_spec. simpl. rewrite map_map. simpl. repeat split.
  Qed.

  Lemma genesis_links :
    (forall p, In p (net_all n) ->
       p_incoming p = map (fun x => {| l_in := g_in x; l_out := g_out x; l_w := g_w x; l_rec := g_rec x; l_trait := g_trait x |})
                          (filter (fun x => g_en x && Z.eqb (g_out x) (p_id p)) (genes g)) /\
       p_outgoing p = map (fun x => {| l_in := g_in x; l_out := g_out x; l_w := g_w x; l_rec := g_rec x; l_trait := g_trait x |})
                          (filter (fun x => g_en x && Z.eqb (g_in x) (p_id p)) (genes g))) /\
    Permutation (concat (map p_incoming (net_all n)))
                (map (fun x => {| l_in := g_in x; l_out := g_out x; l_w := g_w x; l_rec := g_rec x; l_trait := g_trait x |})
                     (filter g_en (genes g))) /\
    Permutation (concat (map p_outgoing (net_all n)))
                (map (fun x => {| l_in := g_in x; l_out := g_out x; l_w := g_w x; l_rec := g_rec x; l_trait := g_trait x |})
                     (filter g_en (genes g))).
  Proof.
    rewrite n_is_spec. split; [|split].
    - intros p Hp. simpl in Hp. apply in_map_iff in Hp. destruct Hp as (nd & <- & _). simpl. split; reflexivity.
    - exact (spec_incoming_perm g netId Hn Hg).
    - exact (spec_outgoing_perm g netId Hn Hg).
  Qed.

  Lemma genesis_modules :
    net_control n =
    map (fun m => {| p_id := n_id (m_node m); p_type := n_type (m_node m); p_act := n_act (m_node m);
                     p_trait := n_trait (m_node m);
                     p_incoming := map (fun sw => {| l_in := fst sw; l_out := n_id (m_node m); l_w := snd sw;
                                                     l_rec := false; l_trait := None |}) (m_ins m);
                     p_outgoing := map (fun dw => {| l_in := n_id (m_node m); l_out := fst dw; l_w := snd dw;
                                                     l_rec := false; l_trait := None |}) (m_outs m) |})
        (filter m_en (modules g)) /\
    net_all_mimo n = net_all n ++ net_control n.
  Proof. rewrite n_is_spec. simpl. split; reflexivity. Qed.

End Genesis.

(* Genesis succeeds on every well-formed genome with a gene and an output node *)
Lemma genesis_succeeds g netId :
  NoDup (map n_id (nodes g)) ->
  (forall x, In x (genes g) -> g_en x = true ->
             In (g_in x) (map n_id (nodes g)) /\ In (g_out x) (map n_id (nodes g))) ->
  (forall m, In m (modules g) -> m_en m = true ->
             forall s w, In (s, w) (m_ins m) \/ In (s, w) (m_outs m) -> In s (map n_id (nodes g))) ->
  genes g <> [] -> (exists nd, In nd (nodes g) /\ n_type nd = OUTPUT) ->
  exists n, genesis g netId = Ok n.
Proof.
  intros Hn Hg Hm G (nd & Hnd & Ht). exists (spec_net g netId). apply genesis_ok; auto.
  unfold output_ids. intros X.
  assert (Y : In (n_id nd) (map n_id (filter is_output (nodes g)))).
  { apply in_map. apply filter_In. split; [exact Hnd|]. unfold is_output. rewrite Ht. reflexivity. }
  rewrite X in Y. contradiction.
Qed.

Lemma genesis_error g netId :
  (genesis g netId = GoErr ErrNoGenes <-> genes g = []) /\
  (genesis g netId = GoErr ErrNoOutputs <->
   genes g <> [] /\ filter (fun nd => Z.eqb (n_type nd) OUTPUT) (nodes g) = []) /\
  (forall c, genesis g netId = GoErr c -> c = ErrNoGenes \/ c = ErrNoOutputs).
Proof.
  destruct (genesis_error_iff g netId) as (A & B & C). split; [exact A|]. split; [|exact C].
  unfold output_ids in B. fold is_output.
  split.
  - intros H. apply B in H. destruct H as [H1 H2]. split; [exact H1|].
    destruct (filter is_output (nodes g)); [reflexivity|discriminate].
  - intros [H1 H2]. apply B. split; [exact H1|]. now rewrite H2.
Qed.

Section View.
  Variables (g : genome) (netId : Z) (n : pnet).
  Hypothesis Hc : NoDup (map n_id (nodes g) ++ map (fun m => n_id (m_node m)) (filter m_en (modules g))).
  Hypothesis Hg : forall x, In x (genes g) -> g_en x = true ->
                            In (g_in x) (map n_id (nodes g)) /\ In (g_out x) (map n_id (nodes g)).
  Hypothesis Hm : forall m, In m (modules g) -> m_en m = true ->
                            forall s w, In (s, w) (m_ins m) \/ In (s, w) (m_outs m) -> In s (map n_id (nodes g)).
  Hypothesis Hok : genesis g netId = Ok n.

  Let Hn : NoDup (map n_id (nodes g)) := nodup_app_l _ _ Hc.

  Lemma n_spec : n = spec_net g netId.
  Proof. exact (genesis_ok_inv g netId n Hn Hg Hm Hok). Qed.

  Lemma view_has_edge_from_to u v : has_edge_from_to n u v = true <-> E g u v.
  Proof. rewrite n_spec. exact (has_edge_from_to_iff g Hg Hm Hc netId u v). Qed.

  Lemma view_has_edge_between u v : has_edge_between n u v = true <-> E g u v \/ E g v u.
  Proof. rewrite n_spec. exact (has_edge_between_iff g Hg Hm Hc netId u v). Qed.

  Lemma view_edge u v :
    (gedge n u v = None <-> ~ E g u v) /\
    (forall l, gedge n u v = Some l -> l_in l = u /\ l_out l = v /\ net_link g l) /\
    gweighted_edge n u v = gedge n u v.
  Proof.
    rewrite n_spec. split; [exact (gedge_none_iff g Hg Hm Hc netId u v)|]. split; [|reflexivity].
    intros l H. destruct (gedge_some g Hg Hm Hc netId u v l H) as (A & B & C). auto.
  Qed.

  Lemma view_edge_nodes u v :
    In u (map n_id (nodes g)) -> In v (map n_id (nodes g)) ->
    gedge n u v =
    option_map (fun x => {| l_in := g_in x; l_out := g_out x; l_w := g_w x; l_rec := g_rec x; l_trait := g_trait x |})
               (find (fun x => g_en x && Z.eqb (g_in x) u && Z.eqb (g_out x) v) (genes g)).
  Proof. rewrite n_spec. exact (edge_between_directed_nodes g netId u v). Qed.

  Lemma view_weight u v :
    (E g u v -> exists l, gedge n u v = Some l /\ gweight n u v = (l_w l, true)) /\
    (~ E g u v -> gweight n u v = (0%float, false)).
  Proof.
    rewrite n_spec. rewrite (gweight_spec g netId u v). split.
    - intros HE. destruct (gedge (spec_net g netId) u v) as [l|] eqn:X.
      + now exists l.
      + apply (gedge_none_iff g Hg Hm Hc netId u v) in X. contradiction.
    - intros HE. apply (gedge_none_iff g Hg Hm Hc netId u v) in HE. now rewrite HE.
  Qed.

  Lemma view_node u : (gnode n u = Some u /\ V g u) \/ (gnode n u = None /\ ~ V g u).
  Proof. rewrite n_spec. exact (gnode_spec g netId u). Qed.

  Lemma view_nodes : gnodes n = map n_id (nodes g) ++ map (fun m => n_id (m_node m)) (filter m_en (modules g)).
  Proof. rewrite n_spec. exact (gnodes_spec g netId). Qed.

  Lemma view_from u :
    gfrom n u =
    (if existsb (Z.eqb u) (map n_id (nodes g)) then
       map g_out (filter (fun x => g_en x && Z.eqb (g_in x) u) (genes g))
       ++ map (fun m => n_id (m_node m))
              (filter (fun m => existsb (fun sw => Z.eqb (fst sw) u) (m_ins m)) (filter m_en (modules g)))
     else match find (fun m => Z.eqb (n_id (m_node m)) u) (filter m_en (modules g)) with
          | Some m => map fst (m_outs m)
          | None => []
          end) /\
    (forall v, In v (gfrom n u) <-> E g u v).
  Proof.
    rewrite n_spec. split.
    - exact (gfrom_spec g Hm netId u).
    - intros v. exact (gfrom_iff g Hg Hm Hc netId u v).
  Qed.

  Lemma view_to v :
    gto n v =
    (if existsb (Z.eqb v) (map n_id (nodes g)) then
       map g_in (filter (fun x => g_en x && Z.eqb (g_out x) v) (genes g))
       ++ map (fun m => n_id (m_node m))
              (filter (fun m => existsb (fun dw => Z.eqb (fst dw) v) (m_outs m)) (filter m_en (modules g)))
     else match find (fun m => Z.eqb (n_id (m_node m)) v) (filter m_en (modules g)) with
          | Some m => map fst (m_ins m)
          | None => []
          end) /\
    (forall u, In u (gto n v) <-> E g u v).
  Proof.
    rewrite n_spec. split.
    - exact (gto_spec g Hm netId v).
    - intros u. exact (gto_iff g Hg Hm Hc netId u v).
  Qed.

  Lemma view_counts :
    node_count n = zlen (nodes g) + zlen (filter m_en (modules g)) /\
    link_count n = zlen (filter g_en (genes g))
                   + fold_right Z.add 0 (map (fun m => zlen (m_ins m) + zlen (m_outs m)) (filter m_en (modules g))) /\
    complexity n = node_count n + link_count n.
  Proof.
    rewrite n_spec. split; [exact (node_count_spec g netId)|]. split; [|reflexivity].
    exact (link_count_spec g netId Hn Hg).
  Qed.

End View.
