(* C18, real-number level: every documented closed form lies in its documented range, and the
   sigmoid family, tanh, linear, clipped linear and step are monotonically non-decreasing. *)
From Coq Require Import ZArith List Reals Lra Lia.
From NeatModel Require Import Res F64 ActRegistry Act.
Open Scope R_scope.

(* ---------- helpers ---------- *)
Lemma exp_le_mono : forall a b, a <= b -> exp a <= exp b.
Proof.
  intros a b [H|H]; [left; now apply exp_increasing | subst; right; reflexivity].
Qed.

Lemma div_le : forall a b c d, 0 < b -> 0 < d -> a * d <= c * b -> a / b <= c / d.
Proof.
  intros a b c d Hb Hd H.
  replace (a / b) with ((a * d) / (b * d)) by (field; lra).
  replace (c / d) with ((c * b) / (b * d)) by (field; lra).
  unfold Rdiv. apply Rmult_le_compat_r; [|assumption].
  left. apply Rinv_0_lt_compat. now apply Rmult_lt_0_compat.
Qed.

(* s(a) = 1/(1+exp a): in (0,1), antitone in a *)
Lemma sig_range : forall a, 0 < 1 / (1 + exp a) < 1.
Proof.
  intros a. pose proof (exp_pos a) as He. split.
  - apply Rdiv_lt_0_compat; lra.
  - apply (Rmult_lt_reg_r (1 + exp a)); [lra|]. field_simplify; lra.
Qed.

Lemma sig_antitone : forall a b, a <= b -> 1 / (1 + exp b) <= 1 / (1 + exp a).
Proof.
  intros a b H. pose proof (exp_pos a). pose proof (exp_pos b). pose proof (exp_le_mono a b H).
  apply div_le; lra.
Qed.

(* ---------- the sigmoid family ---------- *)
Lemma plainSigmoid_range : forall x, 0 < plainSigmoid_R x < 1.
Proof. intros. apply sig_range. Qed.
Lemma plainSigmoid_mono : forall x y, x <= y -> plainSigmoid_R x <= plainSigmoid_R y.
Proof. intros. apply sig_antitone. lra. Qed.

Lemma reducedSigmoid_range : forall x, 0 < reducedSigmoid_R x < 1.
Proof. intros. apply sig_range. Qed.
Lemma reducedSigmoid_mono : forall x y, x <= y -> reducedSigmoid_R x <= reducedSigmoid_R y.
Proof. intros. apply sig_antitone. lra. Qed.

Lemma steepenedSigmoid_range : forall x, 0 < steepenedSigmoid_R x < 1.
Proof. intros. apply sig_range. Qed.
Lemma steepenedSigmoid_mono : forall x y, x <= y -> steepenedSigmoid_R x <= steepenedSigmoid_R y.
Proof. intros. apply sig_antitone. unfold k_steep. lra. Qed.

Lemma bipolarSigmoid_range : forall x, -1 < bipolarSigmoid_R x < 1.
Proof.
  intros x. unfold bipolarSigmoid_R.
  pose proof (sig_range (- k_steep * x)) as H.
  replace (2 / (1 + exp (- k_steep * x))) with (2 * (1 / (1 + exp (- k_steep * x))))
    by (field; pose proof (exp_pos (- k_steep * x)); lra).
  lra.
Qed.
Lemma bipolarSigmoid_mono : forall x y, x <= y -> bipolarSigmoid_R x <= bipolarSigmoid_R y.
Proof.
  intros x y H. unfold bipolarSigmoid_R.
  assert (A : 1 / (1 + exp (- k_steep * x)) <= 1 / (1 + exp (- k_steep * y)))
    by (apply sig_antitone; unfold k_steep; lra).
  replace (2 / (1 + exp (- k_steep * x))) with (2 * (1 / (1 + exp (- k_steep * x))))
    by (field; pose proof (exp_pos (- k_steep * x)); lra).
  replace (2 / (1 + exp (- k_steep * y))) with (2 * (1 / (1 + exp (- k_steep * y))))
    by (field; pose proof (exp_pos (- k_steep * y)); lra).
  lra.
Qed.

Lemma leftShiftedSigmoid_range : forall x, 0 < leftShiftedSigmoid_R x < 1.
Proof. intros. apply sig_range. Qed.
Lemma leftShiftedSigmoid_mono : forall x y, x <= y -> leftShiftedSigmoid_R x <= leftShiftedSigmoid_R y.
Proof. intros. apply sig_antitone. lra. Qed.

Lemma leftShiftedSteepenedSigmoid_range : forall x, 0 < leftShiftedSteepenedSigmoid_R x < 1.
Proof. intros. apply sig_range. Qed.
Lemma leftShiftedSteepenedSigmoid_mono :
  forall x y, x <= y -> leftShiftedSteepenedSigmoid_R x <= leftShiftedSteepenedSigmoid_R y.
Proof. intros. apply sig_antitone. unfold k_steep. lra. Qed.

Lemma rightShiftedSteepenedSigmoid_range : forall x, 0 < rightShiftedSteepenedSigmoid_R x < 1.
Proof. intros. apply sig_range. Qed.
Lemma rightShiftedSteepenedSigmoid_mono :
  forall x y, x <= y -> rightShiftedSteepenedSigmoid_R x <= rightShiftedSteepenedSigmoid_R y.
Proof. intros. apply sig_antitone. unfold k_steep. lra. Qed.

(* the two piecewise-quadratic approximations: continuous at the breakpoints, left piece <= 1/2 <= right piece *)
Lemma approximationSigmoid_range : forall x, 0 <= approximationSigmoid_R x <= 1.
Proof.
  intros x. unfold approximationSigmoid_R.
  destruct (Rlt_dec x (-4)); [lra|]. destruct (Rlt_dec x 0); [nra|]. destruct (Rlt_dec x 4); nra.
Qed.
Lemma approximationSigmoid_mono : forall x y, x <= y -> approximationSigmoid_R x <= approximationSigmoid_R y.
Proof.
  intros x y H. unfold approximationSigmoid_R.
  destruct (Rlt_dec x (-4)); destruct (Rlt_dec y (-4)); try lra;
  destruct (Rlt_dec x 0); destruct (Rlt_dec y 0); try lra; try nra;
  destruct (Rlt_dec x 4); destruct (Rlt_dec y 4); try lra; nra.
Qed.

Lemma approximationSteepenedSigmoid_range : forall x, 0 <= approximationSteepenedSigmoid_R x <= 1.
Proof.
  intros x. unfold approximationSteepenedSigmoid_R.
  destruct (Rlt_dec x (-1)); [lra|]. destruct (Rlt_dec x 0); [nra|]. destruct (Rlt_dec x 1); nra.
Qed.
Lemma approximationSteepenedSigmoid_mono :
  forall x y, x <= y -> approximationSteepenedSigmoid_R x <= approximationSteepenedSigmoid_R y.
Proof.
  intros x y H. unfold approximationSteepenedSigmoid_R.
  destruct (Rlt_dec x (-1)); destruct (Rlt_dec y (-1)); try lra;
  destruct (Rlt_dec x 0); destruct (Rlt_dec y 0); try lra; try nra;
  destruct (Rlt_dec x 1); destruct (Rlt_dec y 1); try lra; nra.
Qed.

(* inverse-abs sigmoid: over R it IS monotone (the binary64 evaluation is not, see ActFloat.v) *)
Lemma invabs_core_range : forall x, -1 < x / (1 + Rabs x) < 1.
Proof.
  intros x. pose proof (Rabs_pos x) as Hp.
  assert (Hd : 0 < 1 + Rabs x) by lra.
  split.
  - apply (Rmult_lt_reg_r (1 + Rabs x)); [assumption|].
    unfold Rdiv. rewrite Rmult_assoc, Rinv_l by lra.
    unfold Rabs. destruct (Rcase_abs x); lra.
  - apply (Rmult_lt_reg_r (1 + Rabs x)); [assumption|].
    unfold Rdiv. rewrite Rmult_assoc, Rinv_l by lra.
    unfold Rabs. destruct (Rcase_abs x); lra.
Qed.

Lemma invabs_core_mono : forall x y, x <= y -> x / (1 + Rabs x) <= y / (1 + Rabs y).
Proof.
  intros x y H. pose proof (Rabs_pos x). pose proof (Rabs_pos y).
  apply div_le; try lra.
  unfold Rabs. destruct (Rcase_abs x); destruct (Rcase_abs y); nra.
Qed.

Lemma inverseAbsoluteSigmoid_range : forall x, 0 < inverseAbsoluteSigmoid_R x < 1.
Proof. intros x. unfold inverseAbsoluteSigmoid_R. pose proof (invabs_core_range x). lra. Qed.
Lemma inverseAbsoluteSigmoid_mono :
  forall x y, x <= y -> inverseAbsoluteSigmoid_R x <= inverseAbsoluteSigmoid_R y.
Proof. intros x y H. unfold inverseAbsoluteSigmoid_R. pose proof (invabs_core_mono x y H). lra. Qed.

(* ---------- tanh ---------- *)
Lemma tanh_alt : forall x, tanh x = 1 - 2 / (exp (2 * x) + 1).
Proof.
  intros x. unfold tanh, sinh, cosh.
  replace (2 * x) with (x + x) by lra. rewrite exp_plus, exp_Ropp.
  pose proof (exp_pos x). field. split; nra.
Qed.

Lemma tanh_range : forall x, -1 < tanh x < 1.
Proof.
  intros x. rewrite tanh_alt. pose proof (exp_pos (2 * x)) as He.
  assert (0 < 2 / (exp (2 * x) + 1) < 2).
  { split; [apply Rdiv_lt_0_compat; lra|].
    apply (Rmult_lt_reg_r (exp (2 * x) + 1)); [lra|]. field_simplify; lra. }
  lra.
Qed.

Lemma tanh_mono : forall x y, x <= y -> tanh x <= tanh y.
Proof.
  intros x y H. rewrite !tanh_alt.
  pose proof (exp_pos (2 * x)). pose proof (exp_pos (2 * y)).
  assert (exp (2 * x) <= exp (2 * y)) by (apply exp_le_mono; lra).
  assert (2 / (exp (2 * y) + 1) <= 2 / (exp (2 * x) + 1)) by (apply div_le; lra).
  lra.
Qed.

Lemma hyperbolicTangent_range : forall x, -1 < hyperbolicTangent_R x < 1.
Proof. intros. apply tanh_range. Qed.
Lemma hyperbolicTangent_mono : forall x y, x <= y -> hyperbolicTangent_R x <= hyperbolicTangent_R y.
Proof. intros. apply tanh_mono. lra. Qed.

(* ---------- the others ---------- *)
Lemma gaussian_range : forall x, 0 < gaussian_R x <= 1.
Proof.
  intros x. unfold gaussian_R. split; [apply exp_pos|].
  rewrite <- exp_0. apply exp_le_mono. nra.
Qed.

Lemma bipolarGaussian_range : forall x, -1 < bipolarGaussian_R x <= 1.
Proof.
  intros x. unfold bipolarGaussian_R.
  pose proof (exp_pos (- (x * 2.5 * (x * 2.5)))).
  assert (exp (- (x * 2.5 * (x * 2.5))) <= 1) by (rewrite <- exp_0; apply exp_le_mono; nra).
  lra.
Qed.

Lemma linear_mono : forall x y, x <= y -> linear_R x <= linear_R y.
Proof. intros. exact H. Qed.

Lemma absoluteLinear_range : forall x, 0 <= absoluteLinear_R x.
Proof. intros. apply Rabs_pos. Qed.

Lemma clippedLinear_range : forall x, -1 <= clippedLinear_R x <= 1.
Proof.
  intros x. unfold clippedLinear_R. destruct (Rlt_dec x (-1)); [lra|]. destruct (Rlt_dec 1 x); lra.
Qed.
Lemma clippedLinear_mono : forall x y, x <= y -> clippedLinear_R x <= clippedLinear_R y.
Proof.
  intros x y H. unfold clippedLinear_R.
  destruct (Rlt_dec x (-1)); destruct (Rlt_dec y (-1)); destruct (Rlt_dec 1 x); destruct (Rlt_dec 1 y); lra.
Qed.

Lemma nullFunctor_value : forall x, nullFunctor_R x = 0.
Proof. reflexivity. Qed.

Lemma signFunction_values : forall x, signFunction_R x = -1 \/ signFunction_R x = 0 \/ signFunction_R x = 1.
Proof.
  intros x. unfold signFunction_R. destruct (Req_EM_T x 0); [tauto|]. destruct (Rlt_dec x 0); tauto.
Qed.

Lemma sineFunction_range : forall x, -1 <= sineFunction_R x <= 1.
Proof. intros. apply SIN_bound. Qed.

Lemma stepFunction_values : forall x, stepFunction_R x = 0 \/ stepFunction_R x = 1.
Proof. intros x. unfold stepFunction_R. destruct (Rlt_dec x 0); tauto. Qed.
Lemma stepFunction_mono : forall x y, x <= y -> stepFunction_R x <= stepFunction_R y.
Proof.
  intros x y H. unfold stepFunction_R. destruct (Rlt_dec x 0); destruct (Rlt_dec y 0); lra.
Qed.

(* ---------- one table: code -> documented closed form, range, monotone? ---------- *)
Open Scope Z_scope.
Definition closed_form (c : Z) : option (R -> R) :=
  match c with
  | 1 => Some plainSigmoid_R | 2 => Some reducedSigmoid_R | 3 => Some bipolarSigmoid_R
  | 4 => Some steepenedSigmoid_R | 5 => Some approximationSigmoid_R
  | 6 => Some approximationSteepenedSigmoid_R | 7 => Some inverseAbsoluteSigmoid_R
  | 8 => Some leftShiftedSigmoid_R | 9 => Some leftShiftedSteepenedSigmoid_R
  | 10 => Some rightShiftedSteepenedSigmoid_R | 11 => Some hyperbolicTangent_R
  | 12 => Some bipolarGaussian_R | 13 => Some gaussian_R | 14 => Some linear_R
  | 15 => Some absoluteLinear_R | 16 => Some clippedLinear_R | 17 => Some nullFunctor_R
  | 18 => Some signFunction_R | 19 => Some sineFunction_R | 20 => Some stepFunction_R
  | _ => None
  end.

(* documented range [lo, hi]; None = unbounded on that side *)
Definition doc_lo (c : Z) : option R :=
  match c with
  | 14 => None
  | 3 | 11 | 12 | 16 | 18 | 19 => Some (-1)%R
  | _ => Some 0%R
  end.
Definition doc_hi (c : Z) : option R :=
  match c with
  | 14 | 15 => None
  | 17 => Some 0%R
  | _ => Some 1%R
  end.
(* the property's monotone family: sigmoids, tanh, linear, clipped linear, step *)
Definition doc_monotone (c : Z) : bool :=
  match c with
  | 1 | 2 | 3 | 4 | 5 | 6 | 7 | 8 | 9 | 10 | 11 | 14 | 16 | 20 => true
  | _ => false
  end.
Open Scope R_scope.

Definition above (lo : option R) (v : R) : Prop := match lo with Some l => l <= v | None => True end.
Definition below (hi : option R) (v : R) : Prop := match hi with Some h => v <= h | None => True end.

Lemma closed_form_cases : forall c f, closed_form c = Some f ->
  (c = 1 \/ c = 2 \/ c = 3 \/ c = 4 \/ c = 5 \/ c = 6 \/ c = 7 \/ c = 8 \/ c = 9 \/ c = 10 \/
   c = 11 \/ c = 12 \/ c = 13 \/ c = 14 \/ c = 15 \/ c = 16 \/ c = 17 \/ c = 18 \/ c = 19 \/ c = 20)%Z.
Proof.
  intros c f H.
  destruct c as [|p|p]; try discriminate.
  do 5 (destruct p as [p|p|]; try discriminate; try lia).
Qed.

Lemma closed_form_in_range : forall c f, closed_form c = Some f ->
    forall x, above (doc_lo c) (f x) /\ below (doc_hi c) (f x).
Proof.
  intros c f H x. pose proof (closed_form_cases c f H) as C.
  repeat (destruct C as [C|C]; [subst c; injection H as <-; simpl; first
    [ pose proof (plainSigmoid_range x); lra | pose proof (reducedSigmoid_range x); lra
    | pose proof (bipolarSigmoid_range x); lra | pose proof (steepenedSigmoid_range x); lra
    | pose proof (approximationSigmoid_range x); lra | pose proof (approximationSteepenedSigmoid_range x); lra
    | pose proof (inverseAbsoluteSigmoid_range x); lra | pose proof (leftShiftedSigmoid_range x); lra
    | pose proof (leftShiftedSteepenedSigmoid_range x); lra | pose proof (rightShiftedSteepenedSigmoid_range x); lra
    | pose proof (hyperbolicTangent_range x); lra | pose proof (bipolarGaussian_range x); lra
    | pose proof (gaussian_range x); lra | tauto | pose proof (absoluteLinear_range x); tauto
    | pose proof (clippedLinear_range x); lra | unfold nullFunctor_R; lra
    | pose proof (signFunction_values x); lra | pose proof (sineFunction_range x); lra ] |]).
  subst c; injection H as <-; simpl. pose proof (stepFunction_values x); lra.
Qed.

Lemma closed_form_monotone : forall c f, closed_form c = Some f -> doc_monotone c = true ->
    forall x y, x <= y -> f x <= f y.
Proof.
  intros c f H M x y Hxy. pose proof (closed_form_cases c f H) as C.
  repeat (destruct C as [C|C]; [subst c; try discriminate M; injection H as <-; first
    [ now apply plainSigmoid_mono | now apply reducedSigmoid_mono | now apply bipolarSigmoid_mono
    | now apply steepenedSigmoid_mono | now apply approximationSigmoid_mono
    | now apply approximationSteepenedSigmoid_mono | now apply inverseAbsoluteSigmoid_mono
    | now apply leftShiftedSigmoid_mono | now apply leftShiftedSteepenedSigmoid_mono
    | now apply rightShiftedSteepenedSigmoid_mono | now apply hyperbolicTangent_mono
    | now apply linear_mono | now apply clippedLinear_mono ] |]).
  subst c; injection H as <-. now apply stepFunction_mono.
Qed.

(* product of a list *)
Lemma multiplyModule_R_spec : forall l, multiplyModule_R l = fold_right Rmult 1 l.
Proof.
  intros l. unfold multiplyModule_R.
  assert (G : forall l a, fold_left Rmult l a = a * fold_right Rmult 1 l).
  { induction l0 as [|x l0 IH]; simpl; intros a; [lra|]. rewrite IH. lra. }
  rewrite G. lra.
Qed.
