(* C08 at binary64 level: < on floats that are not NaN is transitive and negatively transitive,
   so the speciation theorems hold for the executable float instance of the model whenever no
   distance is NaN.  (Uses the specification of primitive floats, Coq.Floats.FloatAxioms.) *)
From NeatModel Require Import Res F64 Speciate SpeciateSpec.
From Coq Require Import Lia.

Definition not_nan (x : float) : Prop := Prim2SF x <> S754_nan.

(* a strictly monotone embedding of the non-NaN values into triples of integers, lexicographically *)
Definition sf_key (x : spec_float) : Z * Z * Z :=
  match x with
  | S754_infinity true => (-2, 0, 0)
  | S754_finite true m e => (-1, - e, - Zpos m)
  | S754_zero _ => (0, 0, 0)
  | S754_nan => (0, 0, 0)
  | S754_finite false m e => (1, e, Zpos m)
  | S754_infinity false => (2, 0, 0)
  end.

Definition lexlt (a b : Z * Z * Z) : Prop :=
  let '(a1, a2, a3) := a in let '(b1, b2, b3) := b in
  a1 < b1 \/ (a1 = b1 /\ (a2 < b2 \/ (a2 = b2 /\ a3 < b3))).

Lemma SFltb_key x y : x <> S754_nan -> y <> S754_nan -> (SFltb x y = true <-> lexlt (sf_key x) (sf_key y)).
Proof.
  intros Hx Hy. unfold SFltb.
  destruct x as [sx|sx| |sx mx ex], y as [sy|sy| |sy my ey]; try congruence; simpl;
    try (destruct sx); try (destruct sy); simpl; try (split; [discriminate|lia]); try (split; [lia|reflexivity]);
    try (split; [reflexivity|lia]); try (split; [lia|discriminate]).
  - destruct (Z.compare_spec ex ey); [|split; [discriminate|lia]|split; [lia|reflexivity]].
    change (Pos.compare_cont Eq mx my) with (Pos.compare mx my).
    destruct (Pos.compare_spec mx my); simpl; subst; split; try discriminate; try lia; reflexivity.
  - destruct (Z.compare_spec ex ey); [|split; [lia|reflexivity]|split; [discriminate|lia]].
    change (Pos.compare_cont Eq mx my) with (Pos.compare mx my).
    destruct (Pos.compare_spec mx my); simpl; subst; split; try discriminate; try lia; reflexivity.
Qed.

Lemma lexlt_trans a b c : lexlt a b -> lexlt b c -> lexlt a c.
Proof. destruct a as [[a1 a2] a3], b as [[b1 b2] b3], c as [[c1 c2] c3]. unfold lexlt. lia. Qed.
Lemma lexlt_negtrans a b c : lexlt a b -> lexlt a c \/ lexlt c b.
Proof. destruct a as [[a1 a2] a3], b as [[b1 b2] b3], c as [[c1 c2] c3]. unfold lexlt. lia. Qed.

Lemma fltb_trans : forall a b c : float, not_nan a -> not_nan b -> not_nan c ->
  PrimFloat.ltb a b = true -> PrimFloat.ltb b c = true -> PrimFloat.ltb a c = true.
Proof.
  intros a b c Ha Hb Hc. rewrite !ltb_spec, !SFltb_key by assumption. apply lexlt_trans.
Qed.

Lemma fltb_negtrans : forall a b c : float, not_nan a -> not_nan b -> not_nan c ->
  PrimFloat.ltb a b = true -> PrimFloat.ltb a c = true \/ PrimFloat.ltb c b = true.
Proof.
  intros a b c Ha Hb Hc. rewrite !ltb_spec, !SFltb_key by assumption. apply lexlt_negtrans.
Qed.

(* math.MaxFloat64 *)
Definition max_float64 : float := 0x1.fffffffffffffp+1023%float.
Definition f_is_zero (x : float) : bool := PrimFloat.eqb x PrimFloat.zero.

Lemma max_float64_not_nan : not_nan max_float64.
Proof. unfold not_nan. vm_compute. discriminate. Qed.

(* a threshold that is a number other than +infinity is not above MaxFloat64 *)
Lemma finite_thr_le_max (thr : float) : not_nan thr -> Prim2SF thr <> S754_infinity false ->
  PrimFloat.ltb max_float64 thr = false.
Proof.
  intros Hn Hi. apply Bool.not_true_is_false. rewrite ltb_spec, SFltb_key by (assumption || apply max_float64_not_nan).
  pose proof (Prim2SF_valid thr) as Hv. unfold not_nan in Hn.
  replace (Prim2SF max_float64) with (S754_finite false 9007199254740991 971) by (vm_compute; reflexivity).
  destruct (Prim2SF thr) as [s|s| |s m e]; try congruence; simpl.
  - lia.
  - destruct s; [lia|congruence].
  - destruct s; [lia|]. unfold SpecFloat.valid_binary, bounded in Hv. apply andb_prop in Hv. destruct Hv as [Hc He].
    apply Z.leb_le in He. unfold canonical_mantissa in Hc. apply Zeq_bool_eq in Hc.
    unfold fexp, SpecFloat.emin, emax, prec in *.
    assert (Hp : forall p, Z.pos p < 2 ^ Z.pos (digits2_pos p)).
    { induction p as [p IH|p IH|]; simpl digits2_pos; rewrite ?Pos2Z.inj_succ, ?Z.pow_succ_r by lia; lia. }
    specialize (Hp m).
    assert (e < 971 \/ e = 971) as [Hlt | ->] by lia; [lia|].
    assert (Hdig : Z.pos (digits2_pos m) <= 53) by lia.
    assert (2 ^ Z.pos (digits2_pos m) <= 2 ^ 53) by (apply Z.pow_le_mono_r; lia). lia.
Qed.

Section FloatInstance.
  Variable G : Type.
  Variable compat : G -> G -> float.
  Variable thr : float.
  Hypothesis compat_not_nan : forall g1 g2, not_nan (compat g1 g2).
  Hypothesis thr_not_nan : not_nan thr.
  Hypothesis thr_not_inf : Prim2SF thr <> S754_infinity false.
  Hypothesis thr_nonzero : f_is_zero thr = false.

  Definition each_organism_placed_float :=
    each_organism_placed float G PrimFloat.ltb f_is_zero max_float64 compat thr not_nan
      fltb_trans fltb_negtrans compat_not_nan thr_not_nan max_float64_not_nan
      (finite_thr_le_max thr thr_not_nan thr_not_inf) thr_nonzero.
  Definition founder_or_within_float :=
    founder_or_within float G PrimFloat.ltb f_is_zero max_float64 compat thr not_nan
      fltb_trans fltb_negtrans compat_not_nan thr_not_nan max_float64_not_nan
      (finite_thr_le_max thr thr_not_nan thr_not_inf) thr_nonzero.
End FloatInstance.
