(* Inversion lemmas for the state monad of the randomised operators, the primitive draws and the
   innovation environment; tactics that unfold a successful monadic run step by step; and the
   compositional predicate "this computation never touches the innovation environment". *)
From NeatModel Require Import Res F64 GoRand Genome Options Insert Mutate.
From Coq Require Import Lia.

Section Inv.
  Context {S : Type}.

  Lemma bindM_inv {A B} (m : @M S A) (f : A -> @M S B) s b s' :
    bindM m f s = Ok (b, s') -> exists a s1, m s = Ok (a, s1) /\ f a s1 = Ok (b, s').
  Proof.
    unfold bindM. destruct (m s) as [[a s1]| | | | |]; try discriminate. intros H. now exists a, s1.
  Qed.

  Lemma ret_inv {A} (a b : A) (s s' : S) : ret a s = Ok (b, s') -> a = b /\ s' = s.
  Proof. unfold ret. intros H. injection H as <- <-. auto. Qed.

  Lemma lift_inv {A} (r : res A) (s s' : S) a : lift r s = Ok (a, s') -> r = Ok a /\ s' = s.
  Proof. unfold lift, bind. destruct r; try discriminate. intros H; injection H as <- <-. auto. Qed.

  Lemma fail_err_inv {A} c (s : S) (x : A * S) : fail_err c s = Ok x -> False.
  Proof. unfold fail_err. discriminate. Qed.
End Inv.

Lemma pair_eq_inv {A B} (a c : A) (b d : B) : (a, b) = (c, d) -> a = c /\ b = d.
Proof. intros H; injection H; auto. Qed.

Lemma on_tape_inv {A} (f : tape -> res (A * tape)) s a s' :
  on_tape f s = Ok (a, s') ->
  exists t', f (s_tape s) = Ok (a, t') /\ s' = {| s_tape := t'; s_env := s_env s |}.
Proof.
  unfold on_tape. destruct (f (s_tape s)) as [[a0 t']| | | | |]; try discriminate.
  intros H. injection H as <- <-. now exists t'.
Qed.

Lemma e_next_innov_inv s v s' :
  e_next_innov s = Ok (v, s') ->
  v = next_innov (s_env s) + 1 /\
  s' = {| s_tape := s_tape s;
          s_env := {| innovs := innovs (s_env s); next_innov := next_innov (s_env s) + 1;
                      next_node := next_node (s_env s) |} |}.
Proof. unfold e_next_innov. intros H. injection H as <- <-. auto. Qed.

Lemma e_next_node_inv s v s' :
  e_next_node s = Ok (v, s') ->
  v = next_node (s_env s) + 1 /\
  s' = {| s_tape := s_tape s;
          s_env := {| innovs := innovs (s_env s); next_innov := next_innov (s_env s);
                      next_node := next_node (s_env s) + 1 |} |}.
Proof. unfold e_next_node. intros H. injection H as <- <-. auto. Qed.

Lemma e_store_inv i s u s' :
  e_store i s = Ok (u, s') ->
  s' = {| s_tape := s_tape s;
          s_env := {| innovs := innovs (s_env s) ++ [i]; next_innov := next_innov (s_env s);
                      next_node := next_node (s_env s) |} |}.
Proof. unfold e_store. intros H. injection H as _ <-. auto. Qed.

Lemma e_innovs_inv s l s' : e_innovs s = Ok (l, s') -> l = innovs (s_env s) /\ s' = s.
Proof. unfold e_innovs. intros H. injection H as <- <-. auto. Qed.

Lemma tape_len_inv s n s' : tape_len s = Ok (n, s') -> s' = s.
Proof. unfold tape_len. intros H. injection H as _ <-. auto. Qed.

(* slice indexing *)
Lemma nth_res_inv {A} (l : list A) : forall k x, nth_res l k = Ok x -> nth_error l k = Some x.
Proof.
  induction l as [|y l IH]; intros [|k] x H; cbn in *; try discriminate.
  - now injection H as <-.
  - now apply IH.
Qed.

Lemma idx_inv {A} (l : list A) i x : idx l i = Ok x -> 0 <= i /\ nth_error l (Z.to_nat i) = Some x.
Proof.
  unfold idx. destruct (Z.ltb_spec i 0) as [Hlt|Hge]; [discriminate|]. intros Hr. split; [lia|now apply nth_res_inv].
Qed.

Lemma trait_at_inv g k r : trait_at g k = Ok r ->
  exists t, 0 <= k /\ nth_error (traits g) (Z.to_nat k) = Some t /\ r = Some (t_id t).
Proof.
  unfold trait_at, bind. destruct (idx (traits g) k) eqn:E; try discriminate.
  intros Hr. injection Hr as <-. apply idx_inv in E. destruct E as [E1 E2]. exists a. auto.
Qed.

(* ---- step tactics ---- *)
Ltac pairs :=
  repeat match goal with
         | H : (_, _) = (_, _) |- _ => apply pair_eq_inv in H; destruct H
         end.

(* one inversion step on some hypothesis that is a successful monadic run *)
Ltac minv1 :=
  match goal with
  | H : bindM _ _ _ = Ok (_, _) |- _ =>
    let a := fresh "a" in let s := fresh "s" in let E := fresh "E" in
    apply bindM_inv in H; destruct H as (a & s & E & H); cbv beta in H
  | H : ret _ _ = Ok (_, _) |- _ => apply ret_inv in H; destruct H as [H ?]
  | H : lift _ _ = Ok (_, _) |- _ => apply lift_inv in H; destruct H as [H ?]
  | H : fail_err _ _ = Ok _ |- _ => exfalso; exact (fail_err_inv _ _ _ H)
  | H : e_innovs _ = Ok (_, _) |- _ => apply e_innovs_inv in H; destruct H as [H ?]
  | H : tape_len _ = Ok (_, _) |- _ => apply tape_len_inv in H
  end.
Ltac minv := repeat minv1.

(* ---- computations that leave the innovation environment alone ---- *)
Definition env_pres {A} (m : @M st A) : Prop := forall s a s', m s = Ok (a, s') -> s_env s' = s_env s.

Lemma ep_ret {A} (a : A) : env_pres (ret a).
Proof. intros s b s' H. apply ret_inv in H. destruct H as [_ ->]. reflexivity. Qed.

Lemma ep_bind {A B} (m : @M st A) (f : A -> @M st B) :
  env_pres m -> (forall a, env_pres (f a)) -> env_pres (bindM m f).
Proof.
  intros Hm Hf s b s' H. apply bindM_inv in H. destruct H as (a & s1 & H1 & H2).
  rewrite (Hf _ _ _ _ H2). exact (Hm _ _ _ H1).
Qed.

Lemma ep_lift {A} (r : res A) : env_pres (lift r).
Proof. intros s b s' H. apply lift_inv in H. destruct H as [_ ->]. reflexivity. Qed.

Lemma ep_fail {A} c : env_pres (@fail_err st A c).
Proof. intros s b s' H. destruct (fail_err_inv _ _ _ H). Qed.

Lemma ep_on_tape {A} (f : tape -> res (A * tape)) : env_pres (on_tape f).
Proof. intros s b s' H. apply on_tape_inv in H. destruct H as (t' & _ & ->). reflexivity. Qed.

Lemma ep_e_innovs : env_pres e_innovs.
Proof. intros s b s' H. apply e_innovs_inv in H. destruct H as [_ ->]. reflexivity. Qed.

Lemma ep_tape_len : env_pres tape_len.
Proof. intros s b s' H. apply tape_len_inv in H. now subst. Qed.

Lemma ep_float64 : env_pres r_float64. Proof. apply ep_on_tape. Qed.
Lemma ep_float32 : env_pres r_float32. Proof. apply ep_on_tape. Qed.
Lemma ep_intn n : env_pres (r_intn n). Proof. apply ep_on_tape. Qed.
Lemma ep_randsign : env_pres r_randsign. Proof. apply ep_on_tape. Qed.

Lemma ep_if {A} (c : bool) (m1 m2 : @M st A) : env_pres m1 -> env_pres m2 -> env_pres (if c then m1 else m2).
Proof. now destruct c. Qed.

Create HintDb ep.
Ltac ep_step :=
  first [ solve [auto 2 with ep nocore] | apply ep_ret | apply ep_lift | apply ep_fail | apply ep_float64 | apply ep_float32
        | apply ep_intn | apply ep_randsign | apply ep_on_tape | apply ep_e_innovs | apply ep_tape_len
        | assumption
        | apply ep_bind; [|intros ?]
        | apply ep_if ].
Ltac ep := repeat ep_step.

Lemma ep_mapM {A B} (f : A -> @M st B) : (forall x, env_pres (f x)) -> forall l, env_pres (mapM f l).
Proof. intros Hf. induction l as [|x l IH]; cbn [mapM]; ep. Qed.
