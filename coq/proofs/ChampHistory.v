(* C10: the epoch theorem through NextEpoch, the best organism of a species is its champion, and
   the corollary over histories. *)
From NeatModel Require Import Compat.
From NeatModel Require Import Res F64 GoRand Genome Options Population MonadLemmas WF
     ChampHeap ChampSpec ChampPrepare ChampEpoch ChampSort ChampWho.
From Coq Require Import Lia Floats.

(* genome [g] (modulo its id) is carried by an organism of population [p] *)
Definition present (g : genome) (p : population) : Prop :=
  exists b, In (o_key b) (p_orgs p) /\ hget (p_heap p) (o_key b) = Ok b /\ exists n, o_genome b = with_id g n.

Lemma next_epoch_inv o gen p x st p' x' st' :
  next_epoch o gen p x st = Ok ((p', x'), st') ->
  exists p1 sorted best st1 p2 st2,
    prepare o p st = Ok ((p1, sorted, best), st1) /\
    reproduce o gen p1 sorted {| x_best_id := best; x_best_reproduced := x_best_reproduced x |} st1 = Ok ((p2, x'), st2) /\
    finalize p2 x' st2 = Ok (p', st').
Proof.
  unfold next_epoch. intros H. mbind H as r s1 H1 H. destruct r as [[p1 sorted] best].
  mbind H as r2 s2 H2 H. destruct r2 as [p2 x2]. mbind H as p3 s3 H3 H.
  apply ret_ok in H. destruct H as [H <-]. injection H as <- <-.
  now exists p1, sorted, best, s1, p2, s2.
Qed.

(* C10 through NextEpoch: every species that prepare gives a quota above five has its champion's
   genome in the next population *)
Theorem champ_survives_next_epoch o gen p x st p' x' st' :
  next_epoch o gen p x st = Ok ((p', x'), st') ->
  pop_ok p ->
  exists p1 sorted best st1,
    prepare o p st = Ok ((p1, sorted, best), st1) /\
    forall sp champ,
      In sp (p_species p1) -> sp_exp sp > 5 -> first_org (p_heap p1) sp = Ok champ -> refs_ok (o_genome champ) ->
      present (o_genome champ) p'.
Proof.
  intros H Hwf. destruct (next_epoch_inv _ _ _ _ _ _ _ _ H) as [p1 [sorted [best [st1 [p2 [st2 [H1 [H2 H3]]]]]]]].
  exists p1, sorted, best, st1. split; [exact H1|]. intros sp champ Hsp Hexp Hfirst Hrefs.
  exact (champ_survives_epoch _ _ _ _ _ _ _ _ _ _ _ _ _ _ H1 H2 H3 Hwf sp champ Hsp Hexp Hfirst Hrefs).
Qed.

(* the population size is what the epoch produced *)
Lemma reproduce_pop_size o gen p sorted x st p2 x2 st2 :
  reproduce o gen p sorted x st = Ok ((p2, x2), st2) -> 0 <= o_pop_size o.
Proof.
  unfold reproduce. intros H. mbind H as r sR HR H. destruct r as [[[h1 key1] babies] brep].
  destruct (negb (Z.eqb (zlen babies) (o_pop_size o))) eqn:Esz; [discriminate|].
  apply negb_false_iff, Z.eqb_eq in Esz. rewrite <- Esz. unfold zlen. lia.
Qed.

(* an organism strictly fitter (raw fitness) than every other member of its species is the
   species' champion, so with a quota above five its genome is in the next population *)
Theorem best_of_species_survives o gen p x st p' x' st' :
  next_epoch o gen p x st = Ok ((p', x'), st') ->
  pop_ok p ->
  (forall s, In s (p_species p) -> species_hyps o (p_heap p) s) ->
  (forall s a b ka kb, In s (p_species p) -> In ka (sp_orgs s) -> In kb (sp_orgs s) ->
                       hget (p_heap p) ka = Ok a -> hget (p_heap p) kb = Ok b ->
                       PrimFloat.ltb (o_fit a) (o_fit b) = true ->
                       PrimFloat.ltb (o_fit (adjusted o s a)) (o_fit (adjusted o s b)) = true) ->
  exists p1 sorted best st1,
    prepare o p st = Ok ((p1, sorted, best), st1) /\
    forall s0 kb xb sp champ,
      In s0 (p_species p) -> In kb (sp_orgs s0) -> hget (p_heap p) kb = Ok xb ->
      (forall k y, In k (sp_orgs s0) -> hget (p_heap p) k = Ok y -> k <> kb -> PrimFloat.ltb (o_fit y) (o_fit xb) = true) ->
      refs_ok (o_genome xb) ->
      In sp (p_species p1) -> sp_id sp = sp_id s0 -> sp_exp sp > 5 -> first_org (p_heap p1) sp = Ok champ ->
      o_key champ = kb /\ present (o_genome xb) p'.
Proof.
  intros H Hwf Hhyp Hmono. destruct (next_epoch_inv _ _ _ _ _ _ _ _ H) as [p1 [sorted [best [st1 [p2 [st2 [H1 [H2 H3]]]]]]]].
  exists p1, sorted, best, st1. split; [exact H1|].
  intros s0 kb xb sp champ Hs0 Hkb Hxb Hbest Hrefs Hsp Eid Hexp Hfirst.
  pose proof (reproduce_pop_size _ _ _ _ _ _ _ _ _ H2) as Hpop.
  destruct Hwf as [Wi Wm Ws Wk Wo].
  destruct (champion_max_raw _ _ _ _ _ _ _ H1 Hpop Wi Wm Ws Hhyp Hmono sp champ Hsp Hfirst)
    as [s0' [xc [Hs0' [Eid' [Hck [Hxc [Eg Hmax]]]]]]].
  assert (s0' = s0) by (apply (ids_nodup_eq (p_species p)); try assumption; congruence). subst s0'.
  assert (Ek : o_key champ = kb).
  { destruct (Z.eq_dec (o_key champ) kb) as [E|Hne]; [exact E|]. exfalso.
    pose proof (Hbest _ xc Hck Hxc Hne) as Hlt. rewrite (Hmax kb xb Hkb Hxb) in Hlt. discriminate. }
  split; [exact Ek|]. rewrite Ek, Hxb in Hxc. injection Hxc as <-. rewrite <- Eg.
  apply (champ_survives_epoch _ _ _ _ _ _ _ _ _ _ _ _ _ _ H1 H2 H3 (Build_pop_ok _ Wi Wm Ws Wk Wo) sp champ Hsp Hexp Hfirst).
  now rewrite Eg.
Qed.

