(* C08 instantiated with the library's own distance (model/Compat.v) over the reals. *)
From NeatModel Require Import Res Compat CompatSpec Speciate SpeciateSpec.
From Coq Require Import Reals Lra.
Local Open Scope R_scope.

(* the distance speciate sees: compatibility never fails (CompatSpec.no_div_by_zero), so the
   default branch is dead code *)
Definition compat_R (linear : bool) (dc ec mc : R) (g1 g2 : list (Z * R)) : R :=
  match compatibility R_num linear dc ec mc g1 g2 with Ok v => v | _ => 0 end.

Lemma compat_R_ok linear dc ec mc g1 g2 :
  compatibility R_num linear dc ec mc g1 g2 = Ok (compat_R linear dc ec mc g1 g2).
Proof. unfold compat_R. destruct (no_div_by_zero linear dc ec mc g1 g2) as [v ->]. reflexivity. Qed.

Lemma Rltb_true a b : Rltb a b = true <-> a < b.
Proof. unfold Rltb. destruct (Rlt_dec a b); split; intros; (assumption || discriminate || reflexivity || contradiction). Qed.
Lemma Rltb_false a b : Rltb a b = false <-> b <= a.
Proof. unfold Rltb. destruct (Rlt_dec a b); split; intros; try discriminate; try reflexivity; lra. Qed.

Lemma Rltb_trans : forall a b c : R, True -> True -> True -> Rltb a b = true -> Rltb b c = true -> Rltb a c = true.
Proof. intros a b c _ _ _. rewrite !Rltb_true. lra. Qed.
Lemma Rltb_negtrans : forall a b c : R, True -> True -> True -> Rltb a b = true -> Rltb a c = true \/ Rltb c b = true.
Proof. intros a b c _ _ _. rewrite !Rltb_true. destruct (Rlt_dec a c); [now left|right; lra]. Qed.
Lemma Ris_zero_pos thr : 0 < thr -> Ris_zero thr = false.
Proof. intros H. unfold Ris_zero. destruct (Req_EM_T thr 0); [lra|reflexivity]. Qed.

Section RInstance.
  Variable linear : bool.
  Variables dc ec mc thr maxv : R.
  Hypothesis thr_pos : 0 < thr.
  Hypothesis thr_le_max : thr <= maxv.

  Local Notation cR := (compat_R linear dc ec mc).
  Let Hmax : Rltb maxv thr = false. Proof. now apply Rltb_false. Qed.
  Let Hz : Ris_zero thr = false. Proof. now apply Ris_zero_pos. Qed.

  Definition each_organism_placed_R :=
    each_organism_placed R (list (Z * R)) Rltb Ris_zero maxv cR thr (fun _ => True)
      Rltb_trans Rltb_negtrans (fun _ _ => I) I I Hmax Hz.
  Definition representatives_kept_R :=
    representatives_kept R (list (Z * R)) Rltb Ris_zero maxv cR thr (fun _ => True)
      Rltb_trans Rltb_negtrans (fun _ _ => I) I I Hmax Hz.
  Definition founder_or_within_R :=
    founder_or_within R (list (Z * R)) Rltb Ris_zero maxv cR thr (fun _ => True)
      Rltb_trans Rltb_negtrans (fun _ _ => I) I I Hmax Hz.
  Definition loop_ids_R :=
    loop_ids R (list (Z * R)) Rltb Ris_zero maxv cR thr (fun _ => True)
      Rltb_trans Rltb_negtrans (fun _ _ => I) I I Hmax Hz.
End RInstance.
