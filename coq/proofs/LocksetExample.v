(* C16 -- the executable counterparts of the trace predicates are sound (so that concrete traces can
   be checked by computation), a concrete trace of the executor's shape that satisfies every
   hypothesis of lockset_sound (non-vacuity), and a concrete racy trace (the definition of a race is
   not vacuous either: it is the shape of defect D9, Innovations() read without the mutex). *)
From Coq Require Import List Arith Lia Bool.
From NeatModel Require Import Lockset LocksetSound LocksetTable.
Import ListNotations.

Lemma op_eqb_spec a b : op_eqb a b = true <-> a = b.
Proof.
  destruct a, b; simpl; split; intros E; try discriminate;
    try (apply Nat.eqb_eq in E; now subst); try (injection E as ->; apply Nat.eqb_refl).
Qed.

Lemma event_eqb_spec a b : event_eqb a b = true <-> a = b.
Proof.
  destruct a as [t o], b as [u p]. unfold event_eqb. simpl. split.
  - intros E. apply andb_true_iff in E. destruct E as [E1 E2].
    apply Nat.eqb_eq in E1. apply op_eqb_spec in E2. now subst.
  - intros E. injection E as -> ->. rewrite Nat.eqb_refl. now apply op_eqb_spec.
Qed.

Lemma event_eqb_false a b : event_eqb a b = false -> a <> b.
Proof. intros E H. apply event_eqb_spec in H. congruence. Qed.

(* ---------- holdsb ---------- *)
Lemma holds_step_other tr k t m :
  ~ at_pos tr k (Ev t (Acq m)) -> ~ at_pos tr k (Ev t (Rel m)) ->
  (holds tr (S k) t m <-> holds tr k t m).
Proof.
  intros NA NR. split.
  - intros [a [Ha [Hacq Hno]]]. destruct (Nat.eq_dec a k) as [->|Hne]; [contradiction|].
    exists a. split; [lia|]. split; [exact Hacq|]. intros j Hj. apply Hno. lia.
  - intros [a [Ha [Hacq Hno]]]. exists a. split; [lia|]. split; [exact Hacq|].
    intros j Hj. destruct (Nat.eq_dec j k) as [->|Hne]; [exact NR | apply Hno; lia].
Qed.

Lemma holdsb_spec tr i t m : holdsb tr i t m = true <-> holds tr i t m.
Proof.
  induction i as [|k IH]; simpl.
  - split; [discriminate|]. intros [a [Ha _]]. lia.
  - destruct (nth_error tr k) as [e|] eqn:E.
    + destruct (event_eqb e (Ev t (Acq m))) eqn:EA.
      * apply event_eqb_spec in EA. subst e. split; [|reflexivity]. intros _.
        exists k. split; [lia|]. split; [exact E|]. intros j Hj. lia.
      * apply event_eqb_false in EA. destruct (event_eqb e (Ev t (Rel m))) eqn:ER.
        -- apply event_eqb_spec in ER. subst e. split; [discriminate|].
           intros [a [Ha [Hacq Hno]]]. exfalso. destruct (Nat.eq_dec a k) as [->|Hne].
           ++ unfold at_pos in Hacq. rewrite E in Hacq. discriminate.
           ++ apply (Hno k); [lia | exact E].
        -- apply event_eqb_false in ER. rewrite IH. symmetry. apply holds_step_other.
           ++ unfold at_pos. rewrite E. intros H. injection H as H. contradiction.
           ++ unfold at_pos. rewrite E. intros H. injection H as H. contradiction.
    + rewrite IH. symmetry. apply holds_step_other; unfold at_pos; rewrite E; discriminate.
Qed.

(* ---------- wf_locksb ---------- *)
Lemma wf_locksb_sound tr : wf_locksb tr = true -> wf_locks tr.
Proof.
  unfold wf_locksb. rewrite forallb_forall. intros H. split.
  - intros i t m Hi u Hu.
    assert (Hin : In i (seq 0 (List.length tr))).
    { apply in_seq. assert (i < List.length tr) by (apply nth_error_Some; unfold at_pos in Hi; congruence). lia. }
    specialize (H i Hin). unfold at_pos in Hi. rewrite Hi in H. rewrite forallb_forall in H.
    assert (Hth : In u (map thr tr)).
    { destruct Hu as [a [_ [Ha _]]]. apply nth_error_In in Ha. apply (in_map thr) in Ha. exact Ha. }
    specialize (H u Hth). apply negb_true_iff in H. apply holdsb_spec in Hu. congruence.
  - intros i t m Hi.
    assert (Hin : In i (seq 0 (List.length tr))).
    { apply in_seq. assert (i < List.length tr) by (apply nth_error_Some; unfold at_pos in Hi; congruence). lia. }
    specialize (H i Hin). unfold at_pos in Hi. rewrite Hi in H. now apply holdsb_spec.
Qed.

(* ---------- positions paired with events ---------- *)
Lemma in_combine_seq (l : trace) : forall s i e,
    nth_error l i = Some e -> In (s + i, e) (combine (seq s (List.length l)) l).
Proof.
  induction l as [|x l IH]; intros s i e H.
  - destruct i; discriminate.
  - destruct i as [|i]; simpl in *.
    + injection H as ->. left. f_equal. lia.
    + right. replace (s + S i) with (S s + i) by lia. now apply IH.
Qed.

Lemma combine_seq_in (l : trace) : forall s i e,
    In (i, e) (combine (seq s (List.length l)) l) -> s <= i /\ nth_error l (i - s) = Some e.
Proof.
  induction l as [|x l IH]; intros s i e H; [destruct H|].
  simpl in H. destruct H as [H|H].
  - injection H as -> ->. split; [lia|]. now rewrite Nat.sub_diag.
  - apply IH in H. destruct H as [H1 H2]. split; [lia|].
    replace (i - s) with (S (i - S s)) by lia. exact H2.
Qed.

Lemma accs_in_spec tr lo hi x i e :
  at_pos tr i e -> accesses_loc (act e) x -> region lo hi i -> In (i, e) (accs_in tr lo hi x).
Proof.
  intros Hi A [L1 L2]. unfold accs_in. apply filter_In. split.
  - apply filter_In. split.
    + apply (in_combine_seq tr 0 i e Hi).
    + simpl. apply andb_true_iff. split; now apply Nat.leb_le.
  - simpl. destruct A as [A|[A|[A|A]]]; rewrite A; simpl; apply Nat.eqb_refl.
Qed.

Lemma op_atomicb_spec o : op_atomicb o = true -> atomic_op o.
Proof. destruct o; simpl; intros E; try discriminate; eexists; eauto. Qed.

Lemma op_writeb_spec o x : writes_loc o x -> op_writeb o = true.
Proof. intros [->| ->]; reflexivity. Qed.

Lemma disciplinedb_sound tr lo hi x : disciplinedb tr lo hi x = true -> disciplined tr (region lo hi) x.
Proof.
  unfold disciplinedb. intros H.
  repeat (apply orb_true_iff in H; destruct H as [H|H]).
  - left. intros i e Rg Hi A. rewrite forallb_forall in H.
    apply op_atomicb_spec. apply (H (i, e)). now apply accs_in_spec.
  - right. left. intros i e Rg Hi A Hw. rewrite forallb_forall in H.
    specialize (H (i, e) (accs_in_spec _ _ _ _ _ _ Hi A Rg)). simpl in H.
    apply op_writeb_spec in Hw. rewrite Hw in H. discriminate.
  - right. right. left. apply existsb_exists in H. destruct H as [m [_ H]]. exists m.
    intros i e Rg Hi A. rewrite forallb_forall in H.
    apply holdsb_spec. apply (H (i, e)). now apply accs_in_spec.
  - right. right. right. destruct (accs_in tr lo hi x) as [|p l] eqn:E.
    + exists 0. intros i e Rg Hi A. pose proof (accs_in_spec _ _ _ _ _ _ Hi A Rg) as Hin. rewrite E in Hin. destruct Hin.
    + exists (thr (snd p)). intros i e Rg Hi A. rewrite forallb_forall in H.
      pose proof (accs_in_spec _ _ _ _ _ _ Hi A Rg) as Hin. rewrite E in Hin.
      specialize (H (i, e) Hin). simpl in H. now apply Nat.eqb_eq in H.
Qed.

Lemma disciplinedb_all tr lo hi :
  forallb (disciplinedb tr lo hi) (locs_of tr) = true -> forall x, disciplined tr (region lo hi) x.
Proof.
  intros H x. rewrite forallb_forall in H.
  destruct (in_dec Nat.eq_dec x (locs_of tr)) as [Hin|Hnin].
  - apply disciplinedb_sound. now apply H.
  - (* x is not accessed at all *)
    right. left. intros i e _ Hi A _. apply Hnin. unfold locs_of. apply in_flat_map.
    exists e. split; [eapply nth_error_In; exact Hi|].
    destruct A as [A|[A|[A|A]]]; rewrite A; simpl; auto.
Qed.

Lemma fork_joinb_sound tr main lo hi : fork_joinb tr main lo hi = true -> fork_join tr main lo hi.
Proof.
  unfold fork_joinb. rewrite forallb_forall. intros H k e Hk Hne.
  specialize (H (k, e) (in_combine_seq tr 0 k e Hk)). simpl in H.
  apply orb_true_iff in H. destruct H as [H|H]; [apply Nat.eqb_eq in H; contradiction|].
  apply andb_true_iff in H. destruct H as [HF HJ]. split.
  - apply existsb_exists in HF. destruct HF as [f [_ HF]].
    apply andb_true_iff in HF. destruct HF as [HF E]. apply andb_true_iff in HF. destruct HF as [L1 L2].
    exists f. apply Nat.leb_le in L1. apply Nat.ltb_lt in L2. repeat split; try assumption.
    unfold at_pos. destruct (nth_error tr f) as [e'|]; [|discriminate]. apply event_eqb_spec in E. now subst.
  - apply existsb_exists in HJ. destruct HJ as [j [_ HJ]].
    apply andb_true_iff in HJ. destruct HJ as [HJ E]. apply andb_true_iff in HJ. destruct HJ as [L1 L2].
    exists j. apply Nat.ltb_lt in L1. apply Nat.leb_le in L2. repeat split; try assumption.
    unfold at_pos. destruct (nth_error tr j) as [e'|]; [|discriminate]. apply event_eqb_spec in E. now subst.
Qed.

(* everything at once: a trace that passes the three executable checks is race free *)
Theorem checked_race_free tr main lo hi :
  wf_locksb tr = true -> fork_joinb tr main lo hi = true ->
  forallb (disciplinedb tr lo hi) (locs_of tr) = true -> race_free tr.
Proof.
  intros H1 H2 H3. apply (lockset_sound tr main lo hi).
  - now apply wf_locksb_sound.
  - now apply fork_joinb_sound.
  - now apply disciplinedb_all.
Qed.

(* ---------- a concrete turnover with two species ----------
   goroutine 0 = the executor, 1 and 2 = the species goroutines; mutex 0 = Population.mutex.
   locations: 10 = Species.ExpectedOffspring of species A, 11 = of species B (read-only in the region,
   written by main before and after), 20 = Population.innovations (mutex), 21 = nextInnovNum (atomic),
   30 / 31 = superChampOffspring of the champion of A / B (owner-confined), 40 / 41 = a baby of
   goroutine 1 / 2 (local), 12 = the champion's Genotype pointer of A, read by BOTH goroutines
   (interspecies mating). *)
Definition ex_trace : trace := [
  Ev 0 (Wr 10); Ev 0 (Wr 11); Ev 0 (Wr 20); Ev 0 (Wr 30); Ev 0 (Wr 12);        (* prepareForReproduction *)
  Ev 0 (Fork 1);
  Ev 1 (Rd 10);
  Ev 0 (Fork 2);
  Ev 2 (Rd 11);
  Ev 1 (Acq 0); Ev 1 (Rd 20); Ev 1 (Rel 0);                                    (* Innovations() *)
  Ev 2 (Rd 12);
  Ev 1 (AtomicRMW 21);                                                         (* NextInnovationNumber() *)
  Ev 2 (AtomicRMW 21);
  Ev 2 (Acq 0); Ev 2 (Rd 20); Ev 2 (Wr 20); Ev 2 (Rel 0);                      (* StoreInnovation *)
  Ev 1 (Acq 0); Ev 1 (Rd 20); Ev 1 (Wr 20); Ev 1 (Rel 0);
  Ev 1 (Rd 30); Ev 1 (Wr 30); Ev 1 (Rd 12);                                    (* theChamp.superChampOffspring-- *)
  Ev 2 (Wr 41); Ev 1 (Wr 40); Ev 2 (Rd 41); Ev 1 (Rd 40);                      (* babies *)
  Ev 0 (Join 1); Ev 0 (Join 2);
  Ev 0 (Wr 20); Ev 0 (Rd 40); Ev 0 (Wr 10); Ev 0 (Wr 30)                       (* speciate, finalize *)
].

Example ex_trace_race_free : race_free ex_trace.
Proof. apply (checked_race_free ex_trace 0 5 31); vm_compute; reflexivity. Qed.

(* ---------- a concrete race: the shape of D9 ---------- *)
Definition racy_trace : trace := [
  Ev 0 (Fork 1); Ev 0 (Fork 2);
  Ev 1 (Acq 0); Ev 1 (Wr 20);          (* StoreInnovation appends under the mutex *)
  Ev 2 (Rd 20);                        (* Innovations() of the unrepaired code: no mutex *)
  Ev 1 (Rel 0);
  Ev 0 (Join 1); Ev 0 (Join 2) ].

Lemma hb_closed tr (Q : nat -> Prop) i j :
  hb tr i j -> Q i -> (forall a b, Q a -> hb1 tr a b -> Q b) -> Q j.
Proof.
  intros H. induction H as [i j H|i j k _ IH1 _ IH2]; intros Qi Hcl.
  - now apply (Hcl i j).
  - apply IH2; [apply IH1|]; assumption.
Qed.

Ltac at_conc H :=
  unfold at_pos, racy_trace in H;
  repeat (match type of H with nth_error _ ?b = _ => destruct b as [|b]; simpl in H end);
  try discriminate.

Example racy_trace_has_race : race racy_trace 3 4.
Proof.
  exists (Ev 1 (Wr 20)), (Ev 2 (Rd 20)), 20.
  repeat split; try reflexivity; try discriminate; simpl; auto.
  - unfold accesses_loc. auto.
  - unfold accesses_loc. auto.
  - left. left. reflexivity.
  - intros [[x [H|H]] _]; discriminate.
  - (* no happens-before path from the write (3) to the read (4): everything after 3 is 5, 6 or 7 *)
    intros H.
    assert (Q : 4 = 3 \/ 4 = 5 \/ 4 = 6 \/ 4 = 7); [|lia].
    apply (hb_closed racy_trace (fun k => k = 3 \/ k = 5 \/ k = 6 \/ k = 7) 3 4 H); [lia|].
    intros a b Qa Hab.
    assert (Hb : b = 0 \/ b = 1 \/ b = 2 \/ b = 3 \/ b = 4 \/ b = 5 \/ b = 6 \/ b = 7).
    { assert (b < 8); [|lia].
      inversion Hab; subst;
        match goal with Hx : at_pos racy_trace b _ |- _ => apply at_pos_lt in Hx; exact Hx end. }
    assert (Hlt : a < b) by (apply (hb_lt racy_trace); now apply hb_step).
    destruct Qa as [-> | [-> | [-> | ->]]];
      destruct Hb as [-> | [-> | [-> | [-> | [-> | [-> | [-> | ->]]]]]]]; try lia; exfalso;
      inversion Hab as [? ? e1 e2 _ H1 H2 Et|? ? t u m _ H1 H2|? ? t e _ H1 H2|? ? t e _ H1 H2|? ? t e x _ H1 H2 Ha]; subst;
      unfold at_pos, racy_trace in *; simpl in *;
      repeat match goal with
             | Hx : Some _ = Some _ |- _ => injection Hx as Hx; try subst; try discriminate
             end; simpl in *; try discriminate; try congruence.
  - intros H. apply hb_lt in H. lia.
Qed.
