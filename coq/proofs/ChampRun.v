(* C10 over whole runs: the structural invariant the epoch theorem needs holds in every
   generation of a run that starts with NewPopulation (partition invariant [Part] of PopBase.v /
   PopInv.v, genome well-formedness of PopWF.v, and "no reserved super-champion offspring between
   epochs" proved here), so the champion theorem holds in every generation. *)
From NeatModel Require Import Compat.
From NeatModel Require Import Res F64 GoRand Genome Options Dup Mutate Population MonadLemmas WF SpawnSpec.
From NeatModel Require PopBase PopInv PopWF.
From NeatModel Require Import ChampHeap ChampSpec ChampPrepare ChampEpoch ChampSort ChampWho ChampHistory.
From Coq Require Import Lia Floats.

(* ---------- the partition invariant gives the structural hypotheses ---------- *)
Lemma Part_pop_ok p : PopBase.Part p -> S0 (p_heap p) -> pop_ok p.
Proof.
  intros HP Hs. constructor.
  - exact (PopBase.part_ids _ HP).
  - intros s k Hs' Hk. pose proof (PopBase.part_incl _ HP s k Hs' Hk) as Ho.
    destruct (PopBase.part_heap _ HP k Ho) as [x [Hx _]]. exists x. split; [exact Hx|].
    destruct (PopBase.part_back _ HP k x Ho Hx) as [s' [Hs'' [Eid Hk']]].
    rewrite <- Eid. f_equal. symmetry. exact (PopBase.nodup_members_same _ _ _ _ (PopBase.part_once _ HP) Hs' Hs'' Hk Hk').
  - exact Hs.
  - exact (PopBase.part_bound _ HP).
  - intros k Hk. destruct (PopBase.part_heap _ HP k Hk) as [x [Hx _]]. exact (PopBase.part_bound _ HP k x Hx).
Qed.

(* ---------- S0: no organism carries reserved super-champion offspring between epochs ---------- *)
Lemma set_fitness_rel : forall ks fs h h', set_fitness h ks fs = Ok h' -> heap_rel proj_gss h h'.
Proof.
  induction ks as [|k ks IH]; intros fs h h' H; cbn [set_fitness] in H; [injection H as <-; apply heap_rel_refl|].
  destruct fs as [|f fs]; [injection H as <-; apply heap_rel_refl|]. rbind H as x Hx.
  apply (heap_rel_trans _ _ (hset h (o_with_fit x f))); [|exact (IH _ _ _ H)].
  apply (heap_rel_hset _ _ x); [|reflexivity]. cbn [o_with_fit o_key]. now rewrite (hget_key _ _ _ Hx).
Qed.

Lemma set_fitness_S0 ks fs h h' : set_fitness h ks fs = Ok h' -> S0 h -> S0 h'.
Proof. intros H. apply S0_rel. exact (set_fitness_rel _ _ _ _ H). Qed.

Lemma spawn_loop_super n g : forall count acc s l s',
  spawn_loop n g count acc s = Ok (l, s') -> (forall x, In x acc -> o_super x = 0) -> forall x, In x l -> o_super x = 0.
Proof.
  induction n as [|n IH]; intros count acc s l s' H Hacc; cbn [spawn_loop] in H.
  - apply ret_ok in H. destruct H as [<- _]. exact Hacc.
  - mbind H as d s1 Hd H. mbind H as r s2 Hr H. apply (IH _ _ _ _ _ H).
    intros x Hx. apply in_app_or in Hx. destruct Hx as [Hx|[<-|[]]]; [now apply Hacc|reflexivity].
Qed.

Lemma new_population_S0 o g s p s' : new_population o g s = Ok (p, s') -> S0 (p_heap p).
Proof.
  unfold new_population. destruct (Z.leb (o_pop_size o) 0); [discriminate|]. intros H.
  mbind H as orgs s1 Hsp H. mbind H as ln s2 H1 H. mbind H as ni s3 H2 H. mbind H as u s4 H3 H.
  apply lift_ok in H. destruct H as [H _]. unfold speciate in H.
  destruct (map o_key orgs) as [|k0 ks0] eqn:Ek; [discriminate|]. rewrite <- Ek in H.
  apply speciate_loop_spec in H. cbn [p_heap] in H. destruct H as [_ [_ [Hr _]]].
  intros k x Hx. destruct (Hr k) as [_ B]. destruct (B x Hx) as [x0 [Hx0 E]].
  unfold proj_kgu in E. apply (f_equal snd) in E. cbn [snd] in E. rewrite E.
  apply (spawn_loop_super _ _ _ _ _ _ _ Hsp); [intros y []|]. exact (hget_In _ _ _ Hx0).
Qed.

(* ---------- the invariant of a run ---------- *)
Definition run_inv (p : population) : Prop := PopBase.Part p /\ S0 (p_heap p).

Lemma run_inv_ok p : run_inv p -> pop_ok p.
Proof. intros [HP Hs]. now apply Part_pop_ok. Qed.

Theorem run_inv_spawn o g s p s' : new_population o g s = Ok (p, s') -> run_inv p.
Proof.
  intros H. split; [exact (PopInv.sw_part _ _ (PopInv.new_population_ok _ _ _ _ _ H))|exact (new_population_S0 _ _ _ _ _ H)].
Qed.

Theorem run_inv_fitness p fs h : run_inv p -> set_fitness (p_heap p) (p_orgs p) fs = Ok h -> run_inv (p_with_heap p h).
Proof.
  intros [HP Hs] H. split; [exact (PopInv.set_fitness_part _ _ _ HP H)|]. cbn [p_with_heap p_with p_heap].
  exact (set_fitness_S0 _ _ _ _ H Hs).
Qed.

Theorem run_inv_epoch o gen p x st p' x' st' : run_inv p -> next_epoch o gen p x st = Ok ((p', x'), st') -> run_inv p'.
Proof.
  intros Hinv H. pose proof (run_inv_ok _ Hinv) as Hok. destruct Hinv as [HP Hs].
  pose proof (PopInv.next_epoch_step _ _ _ _ _ _ _ _ H HP) as Hpost. split; [exact (PopInv.ep_part _ _ _ Hpost)|].
  destruct (next_epoch_inv _ _ _ _ _ _ _ _ H) as [p1 [sorted [best [st1 [p2 [st2 [H1 [H2 H3]]]]]]]].
  intros k y Hy. destruct (next_epoch_babies_super _ _ _ _ _ _ _ _ _ _ _ _ _ _ H1 H2 H3 Hok k y Hy) as [Hko Hz].
  apply Hz. exact (PopInv.ep_fresh _ _ _ Hpost k Hko).
Qed.

Theorem run_inv_history o p s l p' s' :
  PopWF.history o p s l p' s' -> run_inv p -> forall q, In q (p :: l) -> run_inv q.
Proof.
  induction 1 as [p s|p s fs h gen x tp p1 x1 s1 l p2 s2 Hf He Hh IH]; intros Hinv q Hq.
  - destruct Hq as [<-|[]]. exact Hinv.
  - destruct Hq as [<-|Hq]; [exact Hinv|]. apply IH; [|exact Hq].
    exact (run_inv_epoch _ _ _ _ _ _ _ _ (run_inv_fitness _ _ _ Hinv Hf) He).
Qed.

(* ---------- C10 in every generation of a run ---------- *)
(* [q] is any population of a run started by NewPopulation on a well-formed genome; whatever
   fitness values are assigned and whatever the random tape, the turnover keeps the champion of
   every species whose quota exceeds five *)
Theorem champion_in_every_generation o g0 s0 p s l p' s' q :
  wf g0 -> innovs (s_env s0) = [] ->
  new_population o g0 s0 = Ok (p, s) -> PopWF.history o p s l p' s' -> In q (p :: l) ->
  forall fs h gen x st q' x' st',
    set_fitness (p_heap q) (p_orgs q) fs = Ok h ->
    next_epoch o gen (p_with_heap q h) x st = Ok ((q', x'), st') ->
    exists p1 sorted best st1,
      prepare o (p_with_heap q h) st = Ok ((p1, sorted, best), st1) /\
      forall sp champ,
        In sp (p_species p1) -> sp_exp sp > 5 -> first_org (p_heap p1) sp = Ok champ ->
        present (o_genome champ) q'.
Proof.
  intros Wg Ei Hnew Hhist Hq fs h gen x st q' x' st' Hfit Hnext.
  pose proof (run_inv_history _ _ _ _ _ _ Hhist (run_inv_spawn _ _ _ _ _ Hnew) q Hq) as Hinv.
  pose proof (run_inv_ok _ (run_inv_fitness _ _ _ Hinv Hfit)) as Hok.
  pose proof (PopWF.pop_wf_history _ _ _ _ _ _ _ _ Wg Ei Hnew Hhist q Hq) as Hwf.
  assert (Hwfh : PopWF.hall (fun g => wf g /\ retains_io g0 g) h) by exact (PopWF.set_fitness_hall _ _ _ _ _ Hfit Hwf).
  destruct (champ_survives_next_epoch _ _ _ _ _ _ _ _ Hnext Hok) as [p1 [sorted [best [st1 [Hprep Hall]]]]].
  exists p1, sorted, best, st1. split; [exact Hprep|]. intros sp champ Hsp Hexp Hfirst.
  apply (Hall sp champ Hsp Hexp Hfirst).
  destruct (next_epoch_inv _ _ _ _ _ _ _ _ Hnext) as [p1' [sorted' [best' [st1' [p2 [st2 [H1 [H2 _]]]]]]]].
  rewrite Hprep in H1. injection H1 as <- <- <- <-.
  destruct Hok as [Wi Wm Ws Wk Wo].
  pose proof (prepare_frame _ _ _ _ _ _ _ Hprep (reproduce_pop_size _ _ _ _ _ _ _ _ _ H2) Wi Wm Ws) as [_ _ _ Ph _ _].
  destruct (first_org_member _ _ _ Hfirst) as [_ Hcg].
  destruct (heap_rel_gs_bwd _ _ _ _ Ph Hcg) as [y0 [Hy0 [Eg _]]]. cbn [p_with_heap p_with p_heap] in Hy0.
  rewrite Eg. apply wf_refs_ok. exact (proj1 (Hwfh y0 (hget_In _ _ _ Hy0))).
Qed.

(* ---------- the corollary over a history ---------- *)
(* a run from population [p]: fitness values are assigned, the epoch is turned over, the evaluator
   may consume randomness in between; at every epoch the genome [g] is held by the champion of a
   species whose quota exceeds five.  The list collects the successive populations. *)
Inductive held_history (o : options) (g : genome) : Z -> population -> executor -> st -> list population -> Prop :=
| hh_nil : forall gen p x st, held_history o g gen p x st []
| hh_step : forall gen p x st fs h p1 sorted best st1 sp champ n p' x' st' st'' l,
    set_fitness (p_heap p) (p_orgs p) fs = Ok h ->
    prepare o (p_with_heap p h) st = Ok ((p1, sorted, best), st1) ->
    In sp (p_species p1) -> sp_exp sp > 5 -> first_org (p_heap p1) sp = Ok champ ->
    o_genome champ = with_id g n ->
    next_epoch o gen (p_with_heap p h) x st = Ok ((p', x'), st') ->
    held_history o g (gen + 1) p' x' st'' l ->
    held_history o g gen p x st (p' :: l).

Theorem best_never_lost o g gen p x st l :
  refs_ok g -> run_inv p -> held_history o g gen p x st l -> Forall (present g) l.
Proof.
  intros Hrefs Hinv H. induction H as [|gen p x st fs h p1 sorted best st1 sp champ n p' x' st' st'' l Hfit Hprep Hsp Hexp Hfirst Hg Hnext _ IH];
    constructor.
  - pose proof (run_inv_ok _ (run_inv_fitness _ _ _ Hinv Hfit)) as Hok.
    destruct (champ_survives_next_epoch _ _ _ _ _ _ _ _ Hnext Hok) as [p1' [sorted' [best' [st1' [Hprep' Hall]]]]].
    rewrite Hprep in Hprep'. injection Hprep' as <- _ _ _.
    destruct (Hall sp champ Hsp Hexp Hfirst) as [b [Hb1 [Hb2 [m Hm]]]]; [rewrite Hg; exact Hrefs|].
    exists b. split; [exact Hb1|]. split; [exact Hb2|]. exists m. now rewrite Hm, Hg.
  - apply IH. exact (run_inv_epoch _ _ _ _ _ _ _ _ (run_inv_fitness _ _ _ Hinv Hfit) Hnext).
Qed.
