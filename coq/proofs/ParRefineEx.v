(* C16, Part III: a concrete pool of the model's species-reproduction programs under two schedules. *)
From Coq Require Import ZArith List Floats.
Import ListNotations.
Open Scope Z_scope.
From NeatModel Require Import Res F64 GoRand GoSource Genome Options GenomeLit Population WF ParStep ParRefineA ParRefine.

Definition pex_opts : options := OPT [0x1p-01%float; 0x1p+00%float; 0x1.4p+01%float; 0x1p+00%float; 0x1p+00%float; 0x1.999999999999ap-02%float; 0x1.3333333333333p-02%float; 0x1p+00%float; 0x1.999999999999ap-04%float; 0x1.412feefadd96fp-01%float; 0x1.999999999999ap-04%float; 0x1.999999999999ap-04%float; 0x1.999999999999ap-04%float; 0x1.ccccccccccccdp-01%float; 0x1.3559a2dae866cp-03%float; 0x1.937e04d94711ap-03%float; 0x1.aaa7660b6ed51p-04%float; 0x1.bb6523f418de7p-01%float; 0x1.21bb238153d06p-03%float; 0x1.3333333333333p-02%float; 0x1.999999999999ap-02%float; 0x1.3333333333333p-02%float; 0x1.3333333333333p-02%float; 0x1.999999999999ap-03%float; 0x1.999999999999ap-03%float] 16 3 20 0 true [12; 4] [0x1p-01%float; 0x1p-01%float].
Definition pex_genome : genome := GN 1 [(T 1 [0x1.999999999999ap-04%float; zero; zero; zero; zero; zero; zero; zero]); (T 2 [0x1.999999999999ap-03%float; zero; zero; zero; zero; zero; zero; zero]); (T 3 [0x1.3333333333333p-02%float; zero; zero; zero; zero; zero; zero; zero])] [(N 1 1 17 None); (N 2 1 17 None); (N 3 3 17 None); (N 4 2 4 None)] [(G 1 4 false zero (Some 1) 1 zero true); (G 2 4 false zero (Some 2) 2 zero true); (G 3 4 false zero (Some 3) 3 zero true)] [].
Definition pex_s0 : st := {| s_tape := go_tape 8274700777983696934 3000; s_env := EV [] 0 0 |}.
Definition pex_fit : list float := [1; 2; 3; 4; 5; 6; 7; 8; 9; 10; 11; 12; 13; 14; 15; 16]%float.

(* the state of the first turnover at the point where the species goroutines are started *)
Definition pex_prepared : res (population * list Z * ienv) :=
  do ps <- new_population pex_opts pex_genome pex_s0;
  do h <- set_fitness (p_heap (fst ps)) (p_orgs (fst ps)) pex_fit;
  do r <- prepare pex_opts (p_with_heap (fst ps) h) (snd ps);
  Ok (fst (fst (fst r)), snd (fst (fst r)), s_env (snd r)).

(* one goroutine per species, each with its own stream of draws and its own range of organism keys *)
Definition pool_from (x : population * list Z * ienv) : ienv * list (prog (res (list organism * Z * list Z * tape))) :=
  let p1 := fst (fst x) in
  (snd x,
   map (fun si => species_prog pex_opts 1 (p_species p1 ++ p_detached p1) (snd (fst x)) (fst si) (p_heap p1)
                               (p_next_key p1 + 100 * snd si) (go_tape (snd si) 800))
       (combine (p_species p1) [1; 2; 3; 4; 5; 6])).

Definition pool_of_res (r : res (population * list Z * ienv)) :=
  match r with Ok x => pool_from x | _ => (env0, []) end.

Definition pex_pool : ienv * list (prog (res (list organism * Z * list Z * tape))) := pool_of_res pex_prepared.

(* (type, in, out, old innovation, number, second number, node id) per record; the two counters *)
Definition env_summary (e : ienv) :=
  (map (fun i => (i_type i, i_in i, i_out i, i_old i, i_num i, i_num2 i, i_node i)) (innovs e), next_innov e, next_node e).
(* 1: finished with a result, 2: finished with a failure, 0: still running *)
Definition finished {A} (p : prog (res A)) : Z :=
  match p with Ret (Ok _) => 1 | Ret _ => 2 | Fail _ => 2 | _ => 0 end.
Fixpoint round_robin (n k : nat) : list nat :=
  match n with O => [] | S n' => seq 0 k ++ round_robin n' k end.

(* three species (quotas 4, 4, 8); the record is empty and the counters are at 3 and 5 *)
Example pex_start :
  match pex_prepared with
  | Ok (p1, sorted, e) => Some (map (fun s => (sp_id s, sp_exp s, sp_orgs s)) (p_species p1), sorted, e)
  | _ => None
  end = Some ([(1, 4, [15; 12]); (2, 4, [9]); (3, 8, [14])], [1; 3; 2], {| innovs := []; next_innov := 3; next_node := 5 |}).
Proof. vm_compute. reflexivity. Qed.

(* round robin over the three goroutines, one primitive at a time: goroutines 2 and 3 both split
   the gene 2->4 (innovation 2), both miss a record for it and both allocate -- two records for one
   structural key, with different numbers and node ids; all goroutines finish *)
Example pex_round_robin :
  (let c := exec_sched (round_robin 10 3) pex_pool in (env_summary (fst c), map finished (snd c)))
  = (([(2, 4, 4, 0, 4, 0, 0); (1, 2, 4, 2, 5, 7, 6); (1, 2, 4, 2, 6, 8, 7)], 8, 7), [1; 1; 1]).
Proof. vm_compute. reflexivity. Qed.

(* species after species (the sequential executor): different numbers, different records *)
Example pex_sequential :
  (let c := run_all (snd pex_pool) (fst pex_pool) in (env_summary (fst c), map finished (snd c)))
  = (([(1, 2, 4, 2, 4, 5, 6); (2, 4, 4, 0, 6, 0, 0); (1, 1, 4, 1, 7, 8, 7)], 8, 7), [1; 1; 1]).
Proof. vm_compute. reflexivity. Qed.

Lemma pex_pool_model : model_pool (snd pex_pool).
Proof.
  unfold pex_pool, pool_of_res. destruct pex_prepared as [x| | | | |]; try (intros p []).
  unfold pool_from. cbn [snd]. intros p Hp. apply in_map_iff in Hp. destruct Hp as [[s i] [<- _]].
  repeat eexists.
Qed.

(* both final environments extend the initial one -- by the theorem, not by inspection *)
Lemma pex_both_extend :
  env_extends (fst pex_pool) (fst (exec_sched (round_robin 10 3) pex_pool)) /\
  env_extends (fst pex_pool) (fst (run_all (snd pex_pool) (fst pex_pool))).
Proof.
  split.
  - destruct (exec_sched_steps (round_robin 10 3) pex_pool) as [lbs H].
    destruct (exec_sched (round_robin 10 3) pex_pool) as [e ts] eqn:E. cbn [fst].
    eapply (model_pool_env_extends (snd pex_pool) ts (fst pex_pool) e lbs pex_pool_model).
    now rewrite <- surjective_pairing.
  - destruct (sequential_is_a_schedule (snd pex_pool) (fst pex_pool)) as [lbs H].
    destruct (run_all (snd pex_pool) (fst pex_pool)) as [e ts] eqn:E. cbn [fst].
    exact (model_pool_env_extends (snd pex_pool) ts (fst pex_pool) e lbs pex_pool_model H).
Qed.
