(* C02, "turning over an epoch succeeds without error": the quota chain of prepareForReproduction.
   After purgeZeroOffspringSpecies, deltaCoding / giveBabiesToTheBest and purgeOrganisms the quotas of
   Population.Species total the configured population size (the hypothesis of PopNoErr.next_epoch_failures),
   at least one species survives, and "no organism carries a negative ExpectedOffspring" is an
   invariant of the whole run.
   Since int(math.Floor(x)) is modelled as on amd64 (F64.f_trunc_Z: NaN, the infinities and everything
   from 2^63 on convert to math.MinInt64), "ExpectedOffspring not below zero" no longer implies that the
   quotas countOffspring computes are not negative (NaN and +Inf are "not below zero"); that the
   computed quotas are not negative is therefore part of the float-dependent hypothesis Hsum. *)
From NeatModel Require Import Compat.
From NeatModel Require Import Res F64 GoRand Genome Options Insert Dup Mutate Mate Population MonadLemmas
     PopBase PopPrepare PopRepro PopFinal PopInv PopNoErr QuotaReal QuotaSpec QuotaFloat QuotaSteal QuotaSort.
From Coq Require Import Lia Permutation Floats.

(* no organism carries a negative ExpectedOffspring (NaN and -0 allowed: exactly what C09 needs) *)
Definition exps_nonneg (h : list organism) : Prop := forall x, In x h -> PrimFloat.ltb (o_exp x) 0%float = false.

(* the one float-dependent hypothesis ("Hsum"): the floor-and-carry total the chain computes does not
   exceed the population size, and no species' computed quota is negative (a negative quota arises
   exactly from an out-of-range conversion int(math.Floor(ExpectedOffspring)) = math.MinInt64, i.e.
   from an ExpectedOffspring that is NaN, +Inf or >= 2^63) *)
Definition quota_sum_ok (o : options) (p : population) : Prop :=
  forall h1 sps1 p2 sps T,
    adjust_all o (p_heap p) (p_species p) = Ok (h1, sps1) ->
    purge_zero_offspring (p_with p sps1 (p_detached p) (p_orgs p) h1) = Ok p2 ->
    count_all (p_heap p2) sps1 0%float 0 = Ok (sps, T) ->
    T <= o_pop_size o /\ forall s, In s sps -> 0 <= sp_exp s.

(* ------------------------------------------------------------------------------------------ *)
(* 1. binary64 sign facts                                                                       *)
(* ------------------------------------------------------------------------------------------ *)
(* "not below zero": NaN, either zero, +infinity and positive finite numbers *)
Definition nn (x : float) : Prop := PrimFloat.ltb x 0%float = false.

Definition nn_sf (x : spec_float) : Prop :=
  match x with S754_infinity true | S754_finite true _ _ => False | _ => True end.
(* sign bit clear, or NaN *)
Definition snn_sf (x : spec_float) : Prop :=
  match x with S754_zero true | S754_infinity true | S754_finite true _ _ => False | _ => True end.

Lemma Prim2SF_zero : Prim2SF 0%float = S754_zero false.
Proof. vm_compute. reflexivity. Qed.

Lemma nn_iff x : nn x <-> nn_sf (Prim2SF x).
Proof.
  unfold nn. rewrite ltb_spec, Prim2SF_zero.
  destruct (Prim2SF x) as [s|s| |s m e]; cbn; try destruct s; cbn; split; auto; try discriminate; contradiction.
Qed.

Lemma snn_nn x : snn_sf x -> nn_sf x.
Proof. destruct x as [s|s| |s m e]; cbn; try destruct s; auto. Qed.

Lemma binary_round_aux_snn mx ex lx : snn_sf (binary_round_aux prec emax false mx ex lx).
Proof.
  unfold binary_round_aux. destruct (shr_fexp prec emax mx ex lx) as [m1 e1].
  destruct (shr_fexp prec emax _ e1 loc_Exact) as [m2 e2].
  destruct (shr_m m2); [exact I| |exact I]. destruct (Zle_bool e2 (emax - prec)); exact I.
Qed.

Lemma binary_normalize_snn m e : 0 <= m -> snn_sf (binary_normalize prec emax m e false).
Proof.
  intros H. destruct m as [|p|p]; [exact I| |lia]. cbn [binary_normalize]. unfold binary_round.
  destruct (shl_align p e _) as [mz ez]. apply binary_round_aux_snn.
Qed.

(* x / y for x not below zero and y with a clear sign bit (or NaN) *)
Lemma SFdiv_nn x y : nn_sf x -> snn_sf y -> nn_sf (SFdiv prec emax x y).
Proof.
  destruct x as [sx|sx| |sx mx ex], y as [sy|sy| |sy my ey]; cbn [nn_sf snn_sf SFdiv];
    try destruct sx; try destruct sy; cbn; auto; try contradiction.
  intros _ _. destruct (SFdiv_core_binary prec emax (Z.pos mx) ex (Z.pos my) ey) as [[mz ez] lz].
  apply snn_nn, binary_round_aux_snn.
Qed.

Lemma SFadd_nn x y : nn_sf x -> nn_sf y -> nn_sf (SFadd prec emax x y).
Proof.
  destruct x as [sx|sx| |sx mx ex], y as [sy|sy| |sy my ey]; cbn [nn_sf SFadd];
    try destruct sx; try destruct sy; cbn; auto; try contradiction.
  intros _ _. unfold binary_round. destruct (shl_align _ _ _) as [mz ez]. apply snn_nn, binary_round_aux_snn.
Qed.

Lemma nn_add a b : nn a -> nn b -> nn (a + b)%float.
Proof. rewrite !nn_iff, add_spec. apply SFadd_nn. Qed.

(* float64(n) for n >= 0: sign bit clear *)
Lemma f_of_Z_snn z : 0 <= z -> snn_sf (Prim2SF (f_of_Z z)).
Proof.
  intros H. destruct z as [|p|p]; [vm_compute; exact I| |lia]. cbn [f_of_Z]. rewrite of_uint63_spec.
  pose proof (Uint63.to_Z_bounded (Uint63.of_Z (Z.pos p))) as B.
  apply binary_normalize_snn. lia.
Qed.

Lemma nn_div_of_Z a z : nn a -> 0 <= z -> nn (a / f_of_Z z)%float.
Proof. rewrite !nn_iff, div_spec. intros Ha Hz. apply SFdiv_nn; [exact Ha|now apply f_of_Z_snn]. Qed.

(* x / avg when the average is neither below zero nor equal to zero *)
Lemma nn_div_nonzero a b : nn a -> nn b -> PrimFloat.eqb b 0%float = false -> nn (a / b)%float.
Proof.
  rewrite !nn_iff, div_spec, eqb_spec, Prim2SF_zero. intros Ha Hb Hz. apply SFdiv_nn; [exact Ha|].
  destruct (Prim2SF b) as [s|s| |s m e]; cbn in *; try destruct s; auto; discriminate.
Qed.

Lemma nn_const : nn 0x1.a36e2eb1c432dp-14%float.
Proof. vm_compute. reflexivity. Qed.
Lemma nn_zero : nn 0%float.
Proof. vm_compute. reflexivity. Qed.

(* ------------------------------------------------------------------------------------------ *)
(* 2. the heap: where the organisms of a written-back heap come from                            *)
(* ------------------------------------------------------------------------------------------ *)
Lemma hset_in h o x : In x (hset h o) -> x = o \/ In x h.
Proof.
  induction h as [|y h IH]; cbn [hset]; intros H.
  - destruct H as [<-|[]]. now left.
  - destruct (Z.eqb (o_key y) (o_key o)).
    + destruct H as [<-|H]; [now left|right; now right].
    + destruct H as [<-|H]; [right; now left|]. destruct (IH H); [now left|right; now right].
Qed.

Lemma hsets_in l : forall h x, In x (hsets h l) -> In x l \/ In x h.
Proof.
  unfold hsets. induction l as [|y l IH]; intros h x H; cbn [fold_left] in H; [now right|].
  destruct (IH _ _ H) as [H1|H1]; [left; now right|]. apply hset_in in H1. destruct H1 as [->|H1]; [left; now left|now right].
Qed.

Lemma hgets_all_in h ks l x : hgets h ks = Ok l -> In x l -> In x h.
Proof. intros H Hx. destruct (PopBase.hgets_in _ _ _ _ H Hx) as [Hg _]. eapply hget_in; eauto. Qed.

(* looking up a key after a write-back: the organism comes from the written list, or the key was not written *)
Lemma hget_hsets_cases l : forall h k x,
  hget (hsets h l) k = Ok x -> In x l \/ (~ In k (map o_key l) /\ hget h k = Ok x).
Proof.
  unfold hsets. induction l as [|y l IH]; intros h k x H; cbn [fold_left] in H; [right; split; [intros []|exact H]|].
  destruct (IH _ _ _ H) as [H1|[N H1]]; [left; now right|].
  rewrite PopBase.hget_hset in H1. destruct (Z.eqb_spec k (o_key y)) as [->|Ne].
  - injection H1 as <-. left. now left.
  - right. split; [|exact H1]. cbn [map]. intros [E|Hi]; [now apply Ne|now apply N].
Qed.

Lemma exps_hset h o : exps_nonneg h -> nn (o_exp o) -> exps_nonneg (hset h o).
Proof. intros H Ho x Hx. apply hset_in in Hx. destruct Hx as [->|Hx]; [exact Ho|now apply H]. Qed.

Lemma exps_hget h k x : exps_nonneg h -> hget h k = Ok x -> nn (o_exp x).
Proof. intros H Hg. apply H. eapply hget_in; eauto. Qed.

Lemma exps_hsets l h : exps_nonneg h -> exps_nonneg l -> exps_nonneg (hsets h l).
Proof. intros H Hl x Hx. apply hsets_in in Hx. destruct Hx; auto. Qed.

Lemma exps_hgets h ks l : exps_nonneg h -> hgets h ks = Ok l -> exps_nonneg l.
Proof. intros H Hg x Hx. apply H. eapply hgets_all_in; eauto. Qed.

Lemma exps_filter (f : organism -> bool) h : exps_nonneg h -> exps_nonneg (filter f h).
Proof. intros H x Hx. apply filter_In in Hx. apply H. tauto. Qed.

Lemma exps_app l l' : exps_nonneg l -> exps_nonneg l' -> exps_nonneg (l ++ l').
Proof. intros H H' x Hx. apply in_app_or in Hx. destruct Hx; auto. Qed.

(* ------------------------------------------------------------------------------------------ *)
(* 3. adjustFitness: the stored fitness is not below zero, ExpectedOffspring is not touched      *)
(* ------------------------------------------------------------------------------------------ *)
Lemma adjust_one_exp o age debt n x : o_exp (adjust_one o age debt n x) = o_exp x.
Proof. reflexivity. Qed.

Lemma adjust_one_fit o age debt n x : 0 <= n -> nn (o_fit (adjust_one o age debt n x)).
Proof.
  intros Hn. unfold adjust_one. cbv zeta. cbn [o_fit o_with_fit o_with_orig].
  apply nn_div_of_Z; [|exact Hn].
  match goal with |- nn (if PrimFloat.ltb ?f 0 then _ else _) => destruct (PrimFloat.ltb f 0) eqn:E end;
    [exact nn_const|exact E].
Qed.

Lemma mark_elim_in l : forall i n y, In y (mark_elim l i n) -> exists x, In x l /\ (y = x \/ y = o_with_elim x true).
Proof.
  induction l as [|x l IH]; intros i n y H; cbn [mark_elim] in H; [destruct H|]. destruct H as [<-|H].
  - exists x. split; [now left|]. destruct (Z.geb i n); auto.
  - destruct (IH _ _ _ H) as (x0 & Hx0 & E). exists x0. split; [now right|exact E].
Qed.

Lemma mark_elim_keys l : forall i n, map o_key (mark_elim l i n) = map o_key l.
Proof.
  induction l as [|x l IH]; intros i n; cbn; [reflexivity|]. f_equal; [now destruct (Z.geb i n)|apply IH].
Qed.

(* the list adjustFitness writes back *)
Definition af_marked (sorted : list organism) (np : Z) : list organism :=
  match mark_elim sorted 0 np with t :: r => o_with_champ t true :: r | [] => [] end.

Lemma af_marked_in sorted np y : In y (af_marked sorted np) ->
  exists x, In x sorted /\ o_exp y = o_exp x /\ o_fit y = o_fit x.
Proof.
  unfold af_marked. intros H.
  assert (G : exists z, In z (mark_elim sorted 0 np) /\ o_exp y = o_exp z /\ o_fit y = o_fit z).
  { destruct (mark_elim sorted 0 np) as [|t r]; [destruct H|]. destruct H as [<-|H].
    - exists t. split; [now left|split; reflexivity].
    - exists y. split; [now right|split; reflexivity]. }
  destruct G as (z & Hz & E1 & E2). apply mark_elim_in in Hz. destruct Hz as (x & Hx & [->| ->]); exists x; auto.
Qed.

Lemma af_marked_keys sorted np : map o_key (af_marked sorted np) = map o_key sorted.
Proof.
  unfold af_marked. rewrite <- (mark_elim_keys sorted 0 np). destruct (mark_elim sorted 0 np); reflexivity.
Qed.

Lemma adjust_fitness_unfold o h s h' s' :
  adjust_fitness o h s = Ok (h', s') ->
  exists orgs age debt np,
    hgets h (sp_orgs s) = Ok orgs /\
    h' = hsets h (af_marked (sort_desc org_lt (map (adjust_one o age debt (zlen orgs)) orgs)) np).
Proof.
  unfold adjust_fitness. cbv zeta. intros H. rbind H as orgs G.
  destruct (sort_desc org_lt _) as [|top rest] eqn:S; [discriminate|].
  destruct (Z.ltb (f_trunc_Z _) 0); [discriminate|].
  injection H as <- _. eexists orgs, _, _, _. split; [exact G|]. rewrite S. reflexivity.
Qed.

Lemma zlen_nonneg {A} (l : list A) : 0 <= zlen l.
Proof. unfold zlen. lia. Qed.

Lemma adjust_fitness_exps o h s h' s' :
  adjust_fitness o h s = Ok (h', s') -> exps_nonneg h -> exps_nonneg h'.
Proof.
  intros H Hh. apply adjust_fitness_unfold in H. destruct H as (orgs & age & debt & np & G & ->).
  apply exps_hsets; [exact Hh|]. intros y Hy. apply af_marked_in in Hy. destruct Hy as (x & Hx & E & _).
  unfold nn in *. rewrite E.
  apply (Permutation_in _ (sort_desc_perm org_lt _)) in Hx. apply in_map_iff in Hx. destruct Hx as (x0 & <- & Hx0).
  rewrite adjust_one_exp. apply Hh. eapply hgets_all_in; eauto.
Qed.

Lemma adjust_fitness_fit o h s h' s' :
  adjust_fitness o h s = Ok (h', s') ->
  (forall k x, hget h' k = Ok x -> nn (o_fit x) \/ hget h k = Ok x) /\
  (forall k x, In k (sp_orgs s) -> hget h' k = Ok x -> nn (o_fit x)).
Proof.
  intros H. apply adjust_fitness_unfold in H. destruct H as (orgs & age & debt & np & G & ->).
  set (sorted := sort_desc org_lt (map (adjust_one o age debt (zlen orgs)) orgs)).
  assert (Hm : forall y, In y (af_marked sorted np) -> nn (o_fit y)).
  { intros y Hy. apply af_marked_in in Hy. destruct Hy as (x & Hx & _ & E). unfold nn. rewrite E.
    apply (Permutation_in _ (sort_desc_perm org_lt _)) in Hx. apply in_map_iff in Hx. destruct Hx as (x0 & <- & Hx0).
    apply adjust_one_fit, zlen_nonneg. }
  split.
  - intros k x Hg. apply hget_hsets_cases in Hg. destruct Hg as [Hi|[_ Hg]]; [left; now apply Hm|now right].
  - intros k x Hk Hg. apply hget_hsets_cases in Hg. destruct Hg as [Hi|[N _]]; [now apply Hm|]. exfalso. apply N.
    rewrite af_marked_keys. rewrite <- (PopBase.hgets_keys _ _ _ G) in Hk. apply in_map_iff in Hk. destruct Hk as (x0 & <- & Hx0).
    apply in_map_iff. exists (adjust_one o age debt (zlen orgs) x0). split; [reflexivity|].
    apply (Permutation_in _ (Permutation_sym (sort_desc_perm org_lt _))). now apply in_map.
Qed.

Lemma adjust_all_exps o : forall l h h2 l2, adjust_all o h l = Ok (h2, l2) -> exps_nonneg h -> exps_nonneg h2.
Proof.
  induction l as [|s l IH]; intros h h2 l2 H Hh; cbn [adjust_all] in H.
  - injection H as <- _. exact Hh.
  - rbind H as r Hr. destruct r as [h1 s1]. rbind H as r2 Hr2. destruct r2 as [h2' l2']. injection H as <- _.
    eapply IH; [exact Hr2|]. eapply adjust_fitness_exps; eauto.
Qed.

Lemma adjust_all_fit o : forall l h h2 l2, adjust_all o h l = Ok (h2, l2) ->
  forall k x, hget h2 k = Ok x -> (In k (members l) -> nn (o_fit x)) /\ (nn (o_fit x) \/ hget h k = Ok x).
Proof.
  induction l as [|s l IH]; intros h h2 l2 H k x Hg; cbn [adjust_all] in H.
  - injection H as <- _. split; [intros []|now right].
  - rbind H as r Hr. destruct r as [h1 s1]. rbind H as r2 Hr2. destruct r2 as [h2' l2']. injection H as <- _.
    destruct (IH _ _ _ Hr2 _ _ Hg) as [A B]. destruct (adjust_fitness_fit _ _ _ _ _ Hr) as [C D]. split.
    + change (members (s :: l)) with (sp_orgs s ++ members l). intros Hk.
      destruct B as [B|B]; [exact B|]. apply in_app_or in Hk. destruct Hk as [Hk|Hk]; [eapply D; eauto|now apply A].
    + destruct B as [B|B]; [now left|]. exact (C _ _ B).
Qed.

(* ------------------------------------------------------------------------------------------ *)
(* A. after purgeZeroOffspringSpecies no organism has a negative ExpectedOffspring               *)
(* ------------------------------------------------------------------------------------------ *)
Lemma fold_fit_nn l : forall acc, nn acc -> (forall x, In x l -> nn (o_fit x)) ->
  nn (fold_left (fun a x => PrimFloat.add a (o_fit x)) l acc).
Proof.
  induction l as [|x l IH]; intros acc Ha H; cbn [fold_left]; [exact Ha|].
  apply IH; [apply nn_add; [exact Ha|apply H; now left]|intros y Hy; apply H; now right].
Qed.

Lemma purge_zero_exps_nonneg : forall o p h1 sps1 p2,
  adjust_all o (p_heap p) (p_species p) = Ok (h1, sps1) ->
  purge_zero_offspring (p_with p sps1 (p_detached p) (p_orgs p) h1) = Ok p2 ->
  Part p -> exps_nonneg (p_heap p) -> exps_nonneg (p_heap p2).
Proof.
  intros o p h1 sps1 p2 Ea Ez HP He.
  pose proof (adjust_all_exps _ _ _ _ _ Ea He) as He1.
  apply purge_zero_unfold in Ez. cbn [p_heap p_orgs p_with] in Ez.
  destruct Ez as (orgs & sps & T & G & Eh & _). rewrite Eh. unfold pz_heap.
  destruct (PrimFloat.eqb (pz_avg orgs) 0) eqn:Eavg; [exact He1|].
  assert (Hfit : forall x, In x orgs -> nn (o_fit x)).
  { intros x Hx. destruct (PopBase.hgets_in _ _ _ _ G Hx) as [Hg Hk].
    destruct (adjust_all_fit _ _ _ _ _ Ea _ _ Hg) as [A _]. apply A.
    destruct (part_heap _ HP _ Hk) as (x0 & Hx0 & _).
    destruct (part_back _ HP _ _ Hk Hx0) as (s & Hs & _ & Hi). apply members_in. eauto. }
  assert (Havg : nn (pz_avg orgs)).
  { unfold pz_avg. apply nn_div_of_Z; [|apply zlen_nonneg]. apply fold_fit_nn; [exact nn_zero|exact Hfit]. }
  apply exps_hsets; [exact He1|]. intros y Hy. apply in_map_iff in Hy. destruct Hy as (x & <- & Hx).
  cbn [o_exp o_with_exp]. apply nn_div_nonzero; [now apply Hfit|exact Havg|exact Eavg].
Qed.

(* ------------------------------------------------------------------------------------------ *)
(* B. the quota chain                                                                           *)
(* ------------------------------------------------------------------------------------------ *)
Lemma sum_exp_nonneg l : (forall s, In s l -> 0 <= sp_exp s) -> sum_exp l = sp_sum l.
Proof.
  induction l as [|x l IH]; intros H; [reflexivity|]. cbn [sum_exp]. rewrite sp_sum_cons, IH by (intros; apply H; now right).
  specialize (H x (or_introl eq_refl)). lia.
Qed.

Lemma sum_exp_map l : forall l', map sp_exp l = map sp_exp l' -> sum_exp l = sum_exp l'.
Proof.
  induction l as [|x l IH]; intros [|y l'] H; try discriminate; [reflexivity|].
  cbn in H. injection H as E1 E2. cbn [sum_exp]. now rewrite E1, (IH _ E2).
Qed.

Lemma half_split n : 0 <= n -> 0 <= Z.quot n 2 /\ 0 <= n - Z.quot n 2.
Proof.
  intros H. rewrite Z.quot_div_nonneg by lia. pose proof (Z.div_pos n 2). pose proof (Z.div_le_upper_bound n 2 n). lia.
Qed.

Lemma NoDup_map_filter {A B} (f : A -> B) (g : A -> bool) l : NoDup (map f l) -> NoDup (map f (filter g l)).
Proof.
  induction l as [|x l IH]; cbn; intros H; [constructor|]. inversion H as [|? ? Hx Hl]; subst.
  destruct (g x); cbn; [|now apply IH]. constructor; [|now apply IH].
  intros Hi. apply Hx. apply in_map_iff in Hi. destruct Hi as (y & E & Hy). apply filter_In in Hy.
  rewrite <- E. apply in_map. tauto.
Qed.

(* ---------- purgeOrganisms writes no quota ---------- *)
Lemma sp_replace_exps l : forall s s', sp_find l (sp_id s') = Some s -> sp_exp s' = sp_exp s ->
  map sp_exp (sp_replace l s') = map sp_exp l.
Proof.
  induction l as [|x l IH]; intros s s' F E; cbn in *; [reflexivity|].
  destruct (Z.eqb (sp_id x) (sp_id s')).
  - injection F as ->. cbn. now rewrite E.
  - cbn. f_equal. eapply IH; eauto.
Qed.

Lemma remove_org_exps l sid k l' : remove_org l sid k = Ok l' -> map sp_exp l' = map sp_exp l.
Proof.
  intros H. apply remove_org_ok in H. destruct H as (s & F & ->).
  apply (sp_replace_exps l s); [|reflexivity]. cbn [drop_key sp_id sp_with_orgs].
  destruct (PopBase.sp_find_some _ _ _ F) as [_ ->]. exact F.
Qed.

Lemma remove_from_species_exps p x p1 :
  remove_from_species p x = Ok p1 -> map sp_exp (p_species p1) = map sp_exp (p_species p).
Proof.
  unfold remove_from_species. destruct (sp_find (p_species p) (o_species x)); intros H; rbind H as l R; injection H as <-;
    cbn [p_species p_with]; [eapply remove_org_exps; eauto|reflexivity].
Qed.

Lemma purge_loop_exps : forall ks p keep p6,
  purge_organisms_loop p ks keep = Ok p6 -> map sp_exp (p_species p6) = map sp_exp (p_species p).
Proof.
  induction ks as [|k ks IH]; intros p keep p6 H; cbn [purge_organisms_loop] in H.
  - injection H as <-. reflexivity.
  - rbind H as x Hx. destruct (o_elim x).
    + rbind H as p1 H1. rewrite (IH _ _ _ H). eapply remove_from_species_exps; eauto.
    + eapply IH; eauto.
Qed.

(* ---------- purgeZeroOffspringSpecies: the kept quotas total the population size ---------- *)
Lemma purge_zero_quota o p h1 sps1 p2 :
  Part p -> zlen (p_orgs p) = o_pop_size o -> 0 < o_pop_size o -> quota_sum_ok o p ->
  adjust_all o (p_heap p) (p_species p) = Ok (h1, sps1) ->
  purge_zero_offspring (p_with p sps1 (p_detached p) (p_orgs p) h1) = Ok p2 ->
  sp_sum (p_species p2) = o_pop_size o /\ (forall s, In s (p_species p2) -> 0 < sp_exp s) /\
  NoDup (map sp_id (p_species p2)).
Proof.
  intros HP Hlen Hpos Hq Ea Ez.
  pose proof (adjust_all_ok _ _ _ _ _ Ea) as [F1 S1].
  assert (Hnd1 : NoDup (map sp_id sps1)) by (rewrite (forall2_sim_ids _ _ S1); apply HP).
  destruct (purge_zero_unfold _ _ Ez) as (orgs & sps & T & G & _ & Hc & _).
  cbn [p_heap p_orgs p_species p_with] in G, Hc.
  assert (Hne : sps1 <> []).
  { destruct (p_orgs p) as [|k ks] eqn:Eo; [unfold zlen in Hlen; cbn in Hlen; lia|].
    destruct (part_heap _ HP k) as (x0 & Hx0 & _); [rewrite Eo; now left|].
    destruct (part_back _ HP k x0) as (s & Hs & _); [rewrite Eo; now left|exact Hx0|].
    intros ->. inversion S1 as [E|]. rewrite <- E in Hs. destruct Hs. }
  destruct (Hq _ _ _ _ _ Ea Ez Hc) as [HT Hnn].
  destruct (total_robust_sum (p_with p sps1 (p_detached p) (p_orgs p) h1) p2 orgs sps T Ez G Hc Hne Hnd1 Hnn)
    as (A1 & _ & A3 & _).
  assert (Elen : zlen orgs = o_pop_size o).
  { rewrite <- Hlen. unfold zlen. now rewrite (hgets_length _ _ _ G). }
  split; [|split].
  - rewrite <- Elen. apply A1. rewrite Elen. exact HT.
  - exact A3.
  - destruct (purge_zero_ok _ _ Ez Hnd1) as (sps' & S2 & Es & _). cbn [p_species p_with] in S2.
    rewrite Es. apply NoDup_map_filter. now rewrite (forall2_sim_ids _ _ S2).
Qed.

(* ---------- deltaCoding: no quota is negative ---------- *)
Lemma sp_set_forall (P : species -> Prop) l id f :
  (forall s, In s l -> P s) -> (forall s, P (f s)) -> forall s, In s (sp_set l id f) -> P s.
Proof.
  intros H Hf s Hs. apply sp_set_In in Hs. destruct Hs as (s0 & Hs0 & ->). destruct (Z.eqb _ _); auto.
Qed.

Lemma fold_zero_forall (P : species -> Prop) rest : forall l,
  (forall s, In s l -> P s) -> (forall s, P (sp_with_exp s 0)) ->
  forall s, In s (fold_left (fun acc id => sp_set acc id (fun s => sp_with_exp s 0)) rest l) -> P s.
Proof.
  induction rest as [|id rest IH]; intros l H H0; cbn [fold_left]; [exact H|].
  apply IH; [|exact H0]. apply sp_set_forall; auto.
Qed.

Lemma delta_nonneg o p sorted p' :
  delta_coding o p sorted = Ok p' -> 0 <= o_pop_size o ->
  (forall s, In s (p_species p) -> 0 <= sp_exp s) -> forall s, In s (p_species p') -> 0 <= sp_exp s.
Proof.
  unfold delta_coding. cbv zeta. intros H Hn Hnn. destruct (half_split _ Hn) as [Hh1 Hh2].
  destruct sorted as [|a [|b rest]]; [discriminate| |].
  - rbind H as sa Ha. rbind H as h1 H1. injection H as <-.
    cbn [p_species p_with p_with_stagnation]. apply sp_set_forall; [exact Hnn|]. intros s. exact Hn.
  - rbind H as sa Ha. rbind H as sb Hb. rbind H as h1 H1. rbind H as h2 H2. injection H as <-.
    cbn [p_species p_with p_with_stagnation]. apply fold_zero_forall; [|intros s; cbn; lia].
    apply sp_set_forall; [|intros s; exact Hh2]. apply sp_set_forall; [exact Hnn|intros s; exact Hh1].
Qed.

(* ---------- giveBabiesToTheBest: no quota becomes negative ---------- *)
Lemma give_loop_nonneg o blocks : forall sorted bi sps h stolen st sps' h' stolen' st',
  give_loop o sorted bi blocks (sps, h, stolen) st = Ok ((sps', h', stolen'), st') ->
  (forall i, 0 <= nth i blocks 0) -> 0 <= stolen -> (forall s, In s sps -> 0 <= sp_exp s) ->
  (forall s, In s sps' -> 0 <= sp_exp s) /\ 0 <= stolen'.
Proof.
  induction sorted as [|id r IH]; intros bi sps h stolen st sps' h' stolen' st' H Hb Hst Hnn.
  - cbn in H. apply ret_ok in H. destruct H as [H _]. injection H as <- _ <-. auto.
  - cbn [give_loop] in H. destruct (sp_find sps id) as [s|] eqn:F; [|discriminate].
    destruct (Z.gtb (sp_age s - sp_lastimp s) (o_dropoff o)); [exact (IH _ _ _ _ _ _ _ _ _ H Hb Hst Hnn)|].
    mbind H as acc' s1 H1 H2. apply give_inner_spec in H1. destruct H1 as [_ H1].
    destruct H1 as [->|(k & c & stolen1 & Hk & Hle & -> & Hc & ->)]; cbv beta iota in H2.
    + destruct (Z.leb stolen 0).
      * apply ret_ok in H2. destruct H2 as [H2 _]. injection H2 as <- _ <-. auto.
      * exact (IH _ _ _ _ _ _ _ _ _ H2 Hb Hst Hnn).
    + assert (Hk0 : 0 <= k) by (destruct Hk as [->|[->| ->]]; [apply Hb|lia|lia]).
      assert (Hnn1 : forall s0, In s0 (sp_set sps id (fun s0 => sp_with_exp s0 (sp_exp s0 + k))) -> 0 <= sp_exp s0).
      { intros s0 Hs0. apply sp_set_In in Hs0. destruct Hs0 as (s2 & Hs2 & ->). specialize (Hnn _ Hs2).
        destruct (Z.eqb _ _); cbn; lia. }
      destruct (Z.leb (stolen - k) 0).
      * apply ret_ok in H2. destruct H2 as [H2 _]. injection H2 as <- _ <-. split; [exact Hnn1|lia].
      * apply (IH _ _ _ _ _ _ _ _ _ H2 Hb); [lia|exact Hnn1].
Qed.

Lemma give_babies_nonneg o p sorted st p' st' :
  give_babies o p sorted st = Ok (p', st') -> NoDup (map sp_id (p_species p)) -> 0 <= o_babies_stolen o ->
  (forall s, In s (p_species p) -> 0 <= sp_exp s) -> forall s, In s (p_species p') -> 0 <= sp_exp s.
Proof.
  intros H Hnd Hbs Hnn. unfold give_babies in H.
  destruct (steal_loop o (p_species p) (rev sorted) 0) as [sps1 stolen] eqn:S.
  destruct (steal_loop_spec _ _ _ _ _ _ S Hnd) as (_ & _ & S3 & S4).
  cbv zeta in H. mbind H as r s1 H1 H2. destruct r as [[sps2 h2] leftover].
  destruct (give_loop_nonneg _ _ _ _ _ _ _ _ _ _ _ _ H1) as [G1 G2]; [|apply S4; lia|now apply S3|].
  { intros i. destruct i as [|[|[|i]]]; cbn [nth]; try (apply Z.quot_pos; lia). destruct i; lia. }
  destruct (Z.gtb leftover 0).
  - destruct sorted as [|id rest]; [discriminate|].
    destruct (sp_find sps2 id) as [s|] eqn:F; [|discriminate].
    mbind H2 as c s2 Ha Hb. apply ret_ok in Hb. destruct Hb as [<- _]. cbn [p_species p_with].
    intros s0 Hs0. apply sp_set_In in Hs0. destruct Hs0 as (s3 & Hs3 & ->). specialize (G1 _ Hs3).
    destruct (Z.eqb _ _); cbn; lia.
  - apply ret_ok in H2. destruct H2 as [<- _]. exact G1.
Qed.

(* ---------- prepareForReproduction ---------- *)
Theorem prepare_quota_total : forall o p s p1 sorted best s1,
  Part p -> zlen (p_orgs p) = o_pop_size o -> 0 < o_pop_size o ->
  quota_sum_ok o p ->
  prepare o p s = Ok ((p1, sorted, best), s1) -> sum_exp (p_species p1) = o_pop_size o.
Proof.
  intros o p s p1 sorted best s1 HP Hlen Hpos Hq H. unfold prepare in H.
  mbind H as r s1' Ha H. apply lift_ok in Ha. destruct Ha as [Ea ->]. destruct r as [h1 sps1].
  mbind H as p2 s2 Hz H. apply lift_ok in Hz. destruct Hz as [Ez ->].
  destruct (purge_zero_quota _ _ _ _ _ HP Hlen Hpos Hq Ea Ez) as (Q1 & Q2 & Q3).
  destruct (sort_desc (species_lt (p_heap p2)) (p_species p2)) as [|b rest] eqn:Sd; [discriminate|].
  assert (Psort : Permutation (b :: rest) (p_species p2)) by (rewrite <- Sd; apply sort_desc_perm).
  mbind H as c s3 Hc H. apply lift_ok in Hc. destruct Hc as [Hc ->].
  cbv zeta in H.
  mbind H as p5 s5 H5 H.
  mbind H as p6 s6 H6 H. apply lift_ok in H6. destruct H6 as [H6 ->].
  apply ret_ok in H. destruct H as [H _]. injection H as <- _ _.
  match type of H5 with context [give_babies o ?q _] => set (p4 := q) in H5 end.
  assert (E4 : p_species p4 = p_species p2) by (unfold p4; destruct (PrimFloat.ltb _ _); reflexivity).
  clearbody p4.
  assert (Hnd4 : NoDup (map sp_id (p_species p4))) by (rewrite E4; exact Q3).
  assert (Hnn4 : forall y, In y (p_species p4) -> 0 <= sp_exp y).
  { intros y Hy. rewrite E4 in Hy. specialize (Q2 _ Hy). lia. }
  assert (K : sp_sum (p_species p5) = o_pop_size o /\ forall y, In y (p_species p5) -> 0 <= sp_exp y).
  { destruct (Z.geb (p_epochs_highest p4) (o_dropoff o + 5)).
    - apply lift_ok in H5. destruct H5 as [H5 _]. split.
      + apply (delta_conserves _ _ _ _ H5); [|exact Hnd4|].
        * eapply Permutation_NoDup; [apply Permutation_map, Permutation_sym, Psort|exact Q3].
        * intros y Hy. rewrite E4 in Hy. apply in_map. eapply Permutation_in; [apply Permutation_sym, Psort|exact Hy].
      + apply (delta_nonneg _ _ _ _ H5); [lia|exact Hnn4].
    - destruct (Z.gtb (o_babies_stolen o) 0) eqn:Gb.
      + rewrite Z.gtb_ltb in Gb. apply Z.ltb_lt in Gb. split.
        * destruct (steal_conserves _ _ _ _ _ _ H5 Hnd4) as [A _]. rewrite A, E4. exact Q1.
        * apply (give_babies_nonneg _ _ _ _ _ _ H5 Hnd4); [lia|exact Hnn4].
      + apply ret_ok in H5. destruct H5 as [<- _]. split; [rewrite E4; exact Q1|exact Hnn4]. }
  destruct K as [K1 K2]. unfold purge_organisms in H6.
  rewrite (sum_exp_map _ _ (purge_loop_exps _ _ _ _ H6)), (sum_exp_nonneg _ K2). exact K1.
Qed.

Theorem quota_survives : forall o p,
  Part p -> zlen (p_orgs p) = o_pop_size o -> 0 < o_pop_size o -> quota_sum_ok o p -> survives o p.
Proof.
  intros o p HP Hlen Hpos Hq h1 sps1 p2 Ea Ez.
  destruct (purge_zero_quota _ _ _ _ _ HP Hlen Hpos Hq Ea Ez) as (Q1 & _). intros E. rewrite E in Q1. cbn in Q1. lia.
Qed.

(* ------------------------------------------------------------------------------------------ *)
(* C. "no negative ExpectedOffspring" is an invariant of the whole run                          *)
(* ------------------------------------------------------------------------------------------ *)
Theorem exps_nonneg_set_fitness : forall ks fs h h', set_fitness h ks fs = Ok h' -> exps_nonneg h -> exps_nonneg h'.
Proof.
  induction ks as [|k ks IH]; intros fs h h' H Hh; cbn [set_fitness] in H; [injection H as <-; exact Hh|].
  destruct fs as [|f fs]; [injection H as <-; exact Hh|]. rbind H as y E.
  eapply IH; [exact H|]. apply exps_hset; [exact Hh|]. cbn [o_exp o_with_fit]. eapply exps_hget; eauto.
Qed.

(* ---------- speciate ---------- *)
Lemma speciate_one_exps o p k p' : speciate_one o p k = Ok p' -> exps_nonneg (p_heap p) -> exps_nonneg (p_heap p').
Proof.
  unfold speciate_one. intros H Hh. rbind H as baby Hb. cbv zeta in H.
  assert (Hn : forall id, exps_nonneg (hset (p_heap p) (o_with_species baby id))).
  { intros id. apply exps_hset; [exact Hh|]. cbn [o_exp o_with_species]. eapply exps_hget; eauto. }
  destruct (p_species p) as [|s0 sps]; [injection H as <-; apply Hn|].
  destruct (PrimFloat.eqb _ _); [discriminate|]. rbind H as bst Hbst.
  destruct bst as [id|]; injection H as <-; cbn [p_heap p_with]; apply Hn.
Qed.

Lemma speciate_loop_exps o : forall ks p p', speciate_loop o p ks = Ok p' -> exps_nonneg (p_heap p) -> exps_nonneg (p_heap p').
Proof.
  induction ks as [|k ks IH]; intros p p' H Hh; cbn [speciate_loop] in H.
  - injection H as <-. exact Hh.
  - rbind H as p1 H1. eapply IH; [exact H|]. eapply speciate_one_exps; eauto.
Qed.

Lemma speciate_exps o p ks p' : speciate o p ks = Ok p' -> exps_nonneg (p_heap p) -> exps_nonneg (p_heap p').
Proof. unfold speciate. destruct ks; [discriminate|]. apply speciate_loop_exps. Qed.

(* ---------- NewPopulation ---------- *)
Lemma spawn_loop_exps g : forall n count acc s l s',
  spawn_loop n g count acc s = Ok (l, s') -> exps_nonneg acc -> exps_nonneg l.
Proof.
  induction n as [|n IH]; intros count acc s l s' H Ha; cbn [spawn_loop] in H.
  - apply ret_ok in H. destruct H as [<- _]. exact Ha.
  - mbind H as d s1 E1 H. mbind H as r s2 E2 H. eapply IH; [exact H|].
    apply exps_app; [exact Ha|]. intros y [<-|[]]. exact nn_zero.
Qed.

Theorem exps_nonneg_spawn : forall o g s p s', new_population o g s = Ok (p, s') -> exps_nonneg (p_heap p).
Proof.
  intros o g s p s' H. unfold new_population in H. destruct (Z.leb (o_pop_size o) 0); [discriminate|].
  mbind H as orgs s1 E1 H. mbind H as ln s2 E2 H. mbind H as ni s3 E3 H. mbind H as u s4 E4 H.
  apply lift_ok in H. destruct H as [H _]. eapply speciate_exps; [exact H|]. cbn [p_heap].
  eapply spawn_loop_exps; [exact E1|]. intros x [].
Qed.

(* ---------- prepareForReproduction ---------- *)
Lemma first_org_exp h s c : first_org h s = Ok c -> exps_nonneg h -> nn (o_exp c).
Proof. intros H Hh. apply first_org_ok in H. destruct H as (k & r & _ & Hk). eapply exps_hget; eauto. Qed.

Lemma set_champ_super_exps h s n h' : set_champ_super h s n = Ok h' -> exps_nonneg h -> exps_nonneg h'.
Proof.
  unfold set_champ_super. intros H Hh. rbind H as c Hc. injection H as <-.
  apply exps_hset; [exact Hh|]. cbn [o_exp o_with_super]. eapply first_org_exp; eauto.
Qed.

Lemma delta_coding_exps o p sorted p' : delta_coding o p sorted = Ok p' -> exps_nonneg (p_heap p) -> exps_nonneg (p_heap p').
Proof.
  unfold delta_coding. cbv zeta. intros H Hh. destruct sorted as [|a [|b rest]]; [discriminate| |].
  - rbind H as sa Ha. rbind H as h1 H1. injection H as <-. cbn [p_heap p_with p_with_stagnation].
    eapply set_champ_super_exps; eauto.
  - rbind H as sa Ha. rbind H as sb Hb. rbind H as h1 H1. rbind H as h2 H2. injection H as <-.
    cbn [p_heap p_with p_with_stagnation]. eapply set_champ_super_exps; [exact H2|]. eapply set_champ_super_exps; eauto.
Qed.

Lemma give_loop_exps o blocks : forall sorted bi sps h stolen st sps' h' stolen' st',
  give_loop o sorted bi blocks (sps, h, stolen) st = Ok ((sps', h', stolen'), st') -> exps_nonneg h -> exps_nonneg h'.
Proof.
  induction sorted as [|id r IH]; intros bi sps h stolen st sps' h' stolen' st' H Hh.
  - cbn in H. apply ret_ok in H. destruct H as [H _]. injection H as _ <- _. exact Hh.
  - cbn [give_loop] in H. destruct (sp_find sps id) as [s|] eqn:F; [|discriminate].
    destruct (Z.gtb (sp_age s - sp_lastimp s) (o_dropoff o)); [exact (IH _ _ _ _ _ _ _ _ _ H Hh)|].
    mbind H as acc' s1 H1 H2. apply give_inner_spec in H1. destruct H1 as [_ H1].
    destruct H1 as [->|(k & c & stolen1 & Hk & Hle & -> & Hc & ->)]; cbv beta iota in H2.
    + destruct (Z.leb stolen 0).
      * apply ret_ok in H2. destruct H2 as [H2 _]. injection H2 as _ <- _. exact Hh.
      * exact (IH _ _ _ _ _ _ _ _ _ H2 Hh).
    + assert (Hh1 : exps_nonneg (hset h (o_with_super c k))).
      { apply exps_hset; [exact Hh|]. cbn [o_exp o_with_super]. eapply first_org_exp; eauto. }
      destruct (Z.leb (stolen - k) 0).
      * apply ret_ok in H2. destruct H2 as [H2 _]. injection H2 as _ <- _. exact Hh1.
      * exact (IH _ _ _ _ _ _ _ _ _ H2 Hh1).
Qed.

Lemma give_babies_exps o p sorted st p' st' :
  give_babies o p sorted st = Ok (p', st') -> exps_nonneg (p_heap p) -> exps_nonneg (p_heap p').
Proof.
  intros H Hh. unfold give_babies in H.
  destruct (steal_loop o (p_species p) (rev sorted) 0) as [sps1 stolen].
  cbv zeta in H. mbind H as r s1 H1 H2. destruct r as [[sps2 h2] leftover].
  pose proof (give_loop_exps _ _ _ _ _ _ _ _ _ _ _ _ H1 Hh) as Hh2.
  destruct (Z.gtb leftover 0).
  - destruct sorted as [|id rest]; [discriminate|].
    destruct (sp_find sps2 id) as [s|]; [|discriminate].
    mbind H2 as c s2 Ha Hb. apply lift_ok in Ha. destruct Ha as [Ha _].
    apply ret_ok in Hb. destruct Hb as [<- _]. cbn [p_heap p_with].
    apply exps_hset; [exact Hh2|]. cbn [o_exp o_with_super]. eapply first_org_exp; eauto.
  - apply ret_ok in H2. destruct H2 as [<- _]. exact Hh2.
Qed.

Lemma remove_from_species_heap p x p' : remove_from_species p x = Ok p' -> p_heap p' = p_heap p.
Proof.
  unfold remove_from_species. destruct (sp_find _ _); intros H; rbind H as l R; injection H as <-; reflexivity.
Qed.

Lemma purge_organisms_loop_heap : forall ks p keep p', purge_organisms_loop p ks keep = Ok p' -> p_heap p' = p_heap p.
Proof.
  induction ks as [|k ks IH]; intros p keep p' H; cbn [purge_organisms_loop] in H.
  - injection H as <-. reflexivity.
  - rbind H as x Hx. destruct (o_elim x).
    + rbind H as p1 H1. rewrite (IH _ _ _ H). eapply remove_from_species_heap; eauto.
    + eapply IH; eauto.
Qed.

Lemma prepare_exps o p s p1 sorted best s1 :
  prepare o p s = Ok ((p1, sorted, best), s1) -> Part p -> exps_nonneg (p_heap p) -> exps_nonneg (p_heap p1).
Proof.
  intros H HP He. unfold prepare in H.
  mbind H as r s1' Ha H. apply lift_ok in Ha. destruct Ha as [Ea ->]. destruct r as [h1 sps1].
  mbind H as p2 s2 Hz H. apply lift_ok in Hz. destruct Hz as [Ez ->].
  pose proof (purge_zero_exps_nonneg _ _ _ _ _ Ea Ez HP He) as He2.
  destruct (sort_desc (species_lt (p_heap p2)) (p_species p2)) as [|b rest] eqn:Sd; [discriminate|].
  mbind H as c s3 Hc H. apply lift_ok in Hc. destruct Hc as [Hc ->].
  cbv zeta in H.
  mbind H as p5 s5 H5 H.
  mbind H as p6 s6 H6 H. apply lift_ok in H6. destruct H6 as [H6 ->].
  apply ret_ok in H. destruct H as [H _]. injection H as <- _ _.
  match type of H5 with context [give_babies o ?q _] => set (p4 := q) in H5 end.
  assert (He4 : exps_nonneg (p_heap p4)).
  { assert (He3 : exps_nonneg (hset (p_heap p2) (o_with_popchamp c true))).
    { apply exps_hset; [exact He2|]. cbn [o_exp o_with_popchamp]. eapply first_org_exp; eauto. }
    unfold p4. destruct (PrimFloat.ltb _ _); exact He3. }
  clearbody p4.
  assert (He5 : exps_nonneg (p_heap p5)).
  { destruct (Z.geb (p_epochs_highest p4) (o_dropoff o + 5)).
    - apply lift_ok in H5. destruct H5 as [H5 _]. eapply delta_coding_exps; eauto.
    - destruct (Z.gtb (o_babies_stolen o) 0).
      + eapply give_babies_exps; eauto.
      + apply ret_ok in H5. destruct H5 as [<- _]. exact He4. }
  unfold purge_organisms in H6. rewrite (purge_organisms_loop_heap _ _ _ _ H6). exact He5.
Qed.

(* ---------- reproduce ---------- *)
Lemma one_baby_exps o gen all sorted s count rs :
  exps_nonneg (r_heap rs) -> Post (one_baby o gen all sorted s count rs) (fun rs' => exps_nonneg (r_heap rs')).
Proof.
  intros R. unfold one_baby. cbv beta zeta.
  apply post_bind_lift. intros champ Hc.
  assert (Hch : forall n, exps_nonneg (hset (r_heap rs) (o_with_super champ n))).
  { intros n. apply exps_hset; [exact R|]. cbn [o_exp o_with_super]. eapply first_org_exp; eauto. }
  repeat match goal with
         | |- Post (bindM _ _) _ => apply post_bind; intros
         | |- Post (ret _) _ =>
           apply post_ret; cbn [r_heap]; apply exps_hset; [solve [apply Hch|exact R]|
             cbn; repeat match goal with |- context [if ?c then _ else _] => destruct c end; exact nn_zero]
         | |- Post (match ?x with _ => _ end) _ => destruct x
         end.
Qed.

Lemma reproduce_loop_exps o gen all sorted s n : forall count rs,
  exps_nonneg (r_heap rs) ->
  Post (reproduce_loop n o gen all sorted s count rs) (fun rs' => exps_nonneg (r_heap rs')).
Proof.
  induction n as [|n IH]; intros count rs R; cbn [reproduce_loop].
  - apply post_ret. exact R.
  - eapply post_bind_strong; [apply one_baby_exps; exact R|]. intros rs1 R1. now apply IH.
Qed.

Lemma reproduce_species_exps o gen all sorted s h key :
  exps_nonneg h -> Post (reproduce_species o gen all sorted s h key) (fun r => exps_nonneg (fst (fst r))).
Proof.
  intros Hh. unfold reproduce_species. destruct (_ && _); [apply post_fail_err|].
  destruct (sp_orgs s) as [|k0 r0]; [apply post_fail_panic|].
  eapply post_bind_strong; [apply reproduce_loop_exps; exact Hh|]. intros rs R. apply post_ret. exact R.
Qed.

Lemma reproduce_all_exps o gen all sorted best l : forall h key babies br,
  exps_nonneg h ->
  Post (reproduce_all o gen all sorted best l h key babies br) (fun r => exps_nonneg (fst (fst (fst r)))).
Proof.
  induction l as [|s l IH]; intros h key babies br Hh; cbn [reproduce_all].
  - apply post_ret. exact Hh.
  - eapply post_bind_strong; [apply reproduce_species_exps; exact Hh|].
    intros [[h1 key1] bs] Hh1. cbn [fst] in Hh1. now apply IH.
Qed.

Lemma reproduce_exps o gen p sorted x s p' x' s' :
  reproduce o gen p sorted x s = Ok ((p', x'), s') -> exps_nonneg (p_heap p) -> exps_nonneg (p_heap p').
Proof.
  unfold reproduce. cbv zeta. intros H Hh. mbind H as r s1 E1 H. destruct r as [[[h1 key1] babies] br].
  pose proof (reproduce_all_exps _ _ _ _ _ _ _ _ _ _ Hh _ _ _ E1) as Hh1. cbn [fst] in Hh1.
  destruct (negb _); [discriminate|]. mbind H as p2 s2 E2 H. apply lift_ok in E2. destruct E2 as [E2 _].
  apply ret_ok in H. destruct H as [H _]. injection H as <- _.
  eapply speciate_exps; [exact E2|]. exact Hh1.
Qed.

(* ---------- finalizeReproduction ---------- *)
Lemma purge_old_loop_heap : forall ks p p', purge_old_loop p ks = Ok p' -> p_heap p' = p_heap p.
Proof.
  induction ks as [|k ks IH]; intros p p' H; cbn [purge_old_loop] in H.
  - injection H as <-. reflexivity.
  - rbind H as x Hx. rbind H as p1 H1. rewrite (IH _ _ H). eapply remove_from_species_heap; eauto.
Qed.

Lemma renumber_exps : forall ks h c h' c', renumber h ks c = Ok (h', c') -> exps_nonneg h -> exps_nonneg h'.
Proof.
  induction ks as [|k ks IH]; intros h c h' c' H Hh; cbn [renumber] in H.
  - injection H as <- _. exact Hh.
  - rbind H as x Hx. eapply IH; [exact H|]. apply exps_hset; [exact Hh|]. cbn [o_exp o_with_genome]. eapply exps_hget; eauto.
Qed.

Lemma purge_or_age_exps : forall l h c orgs l' h' orgs',
  purge_or_age l h c orgs = Ok (l', h', orgs') -> exps_nonneg h -> exps_nonneg h'.
Proof.
  induction l as [|s l IH]; intros h c orgs l' h' orgs' H Hh; cbn [purge_or_age] in H.
  - injection H as _ <- _. exact Hh.
  - destruct (sp_orgs s) as [|k0 ks0] eqn:Eo; [eapply IH; eauto|].
    rbind H as r E. destruct r as [h1 c1]. rbind H as r2 E2. destruct r2 as [[l2 h2] o2]. injection H as _ <- _.
    eapply IH; [exact E2|]. eapply renumber_exps; eauto.
Qed.

Lemma finalize_exps p x s p' s' : finalize p x s = Ok (p', s') -> exps_nonneg (p_heap p) -> exps_nonneg (p_heap p').
Proof.
  unfold finalize. intros H Hh. mbind H as p1 s1 E1 H. apply lift_ok in E1. destruct E1 as [E1 ->].
  mbind H as r s2 E2 H. apply lift_ok in E2. destruct E2 as [E2 ->]. destruct r as [[sps h] orgs].
  cbv beta iota zeta in H. destruct (_ && _); [discriminate|]. injection H as <- _. cbn [p_heap p_with].
  apply exps_filter. eapply purge_or_age_exps; [exact E2|]. rewrite (purge_old_loop_heap _ _ _ E1). exact Hh.
Qed.

(* ---------- NextEpoch ---------- *)
Theorem exps_nonneg_step : forall o gen p x s p' x' s',
  next_epoch o gen p x s = Ok ((p', x'), s') -> Part p -> exps_nonneg (p_heap p) -> exps_nonneg (p_heap p').
Proof.
  intros o gen p x s p' x' s' H HP He. unfold next_epoch in H.
  mbind H as r s1 E1 H. destruct r as [[p1 sorted] best].
  pose proof (prepare_exps _ _ _ _ _ _ _ E1 HP He) as He1.
  mbind H as r2 s2 E2 H. destruct r2 as [p2 x2].
  pose proof (reproduce_exps _ _ _ _ _ _ _ _ _ E2 He1) as He2.
  mbind H as p3 s3 E3 H. apply ret_ok in H. destruct H as [H _]. injection H as <- _.
  eapply finalize_exps; eauto.
Qed.
