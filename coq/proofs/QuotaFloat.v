(* C09, binary64 level: the quota countOffspring computes is never negative when no member's
   expected offspring is negative (uses the specification of primitive floats,
   Coq.Floats.FloatAxioms, for <, <=, abs and the int -> float conversion). *)
From NeatModel Require Import Res F64 GoRand Genome Options Population QuotaReal QuotaSpec.
From Coq Require Import Lia Floats.
From Coq Require Uint63.

(* not a negative finite number (zeros, infinities and NaN truncate to 0 in f_trunc_Z) *)
Definition sf_nonneg (x : spec_float) : Prop := match x with S754_finite true _ _ => False | _ => True end.

Lemma f_trunc_Z_nonneg x : sf_nonneg (Prim2SF x) -> 0 <= f_trunc_Z x.
Proof.
  unfold f_trunc_Z. destruct (Prim2SF x) as [s|s| |s m e]; cbn; try lia.
  destruct s; [contradiction|]. intros _.
  destruct (Z.leb 0 e); [apply Z.shiftl_nonneg|apply Z.shiftr_nonneg]; lia.
Qed.

Lemma binary_round_aux_nonneg mx ex lx : sf_nonneg (binary_round_aux prec emax false mx ex lx).
Proof.
  unfold binary_round_aux. destruct (shr_fexp prec emax mx ex lx) as [m1 e1].
  destruct (shr_fexp prec emax _ e1 loc_Exact) as [m2 e2].
  destruct (shr_m m2); [exact I| |exact I]. destruct (Zle_bool e2 (emax - prec)); exact I.
Qed.

Lemma binary_normalize_nonneg m e : 0 <= m -> sf_nonneg (binary_normalize prec emax m e false).
Proof.
  intros H. destruct m as [|p|p]; [exact I| |lia]. cbn [binary_normalize]. unfold binary_round.
  destruct (shl_align p e _) as [mz ez]. apply binary_round_aux_nonneg.
Qed.

Lemma f_of_Z_nonneg z : 0 <= z -> sf_nonneg (Prim2SF (f_of_Z z)).
Proof.
  intros H. destruct z as [|p|p]; [|cbn [f_of_Z]|lia].
  - vm_compute. exact I.
  - rewrite of_uint63_spec. apply binary_normalize_nonneg. pose proof (Uint63.to_Z_bounded (Uint63.of_Z (Z.pos p))). lia.
Qed.

Lemma not_lt0_nonneg x : PrimFloat.ltb x 0%float = false -> sf_nonneg (Prim2SF x).
Proof.
  rewrite ltb_spec. replace (Prim2SF 0%float) with (S754_zero false) by (vm_compute; reflexivity).
  destruct (Prim2SF x) as [s|s| |s m e]; cbn; auto. destruct s; [discriminate|auto].
Qed.

Lemma ge1_not_lt0 x : PrimFloat.leb 1%float x = true -> PrimFloat.ltb x 0%float = false.
Proof.
  rewrite leb_spec, ltb_spec. replace (Prim2SF 0%float) with (S754_zero false) by (vm_compute; reflexivity).
  replace (Prim2SF 1%float) with (S754_finite false 4503599627370496 (-52)) by (vm_compute; reflexivity).
  destruct (Prim2SF x) as [s|s| |s m e]; cbn; auto; destruct s; cbn; auto; discriminate.
Qed.

(* int(math.Floor(x)) for x not below zero *)
Lemma floorZ_nonneg x : PrimFloat.ltb x 0%float = false -> 0 <= f_trunc_Z (ffloor x).
Proof.
  intros H. pose proof (not_lt0_nonneg x H) as Hs. unfold ffloor.
  destruct (PrimFloat.leb two52 (PrimFloat.abs x)); [now apply f_trunc_Z_nonneg|].
  destruct (Prim2SF x) as [s|s| |s m e] eqn:E; try (apply f_trunc_Z_nonneg; rewrite E; exact I).
  destruct s; [contradiction|].
  assert (Hz : 0 <= f_floor_Z x).
  { unfold f_floor_Z. rewrite E. destruct (Z.leb 0 e); [apply Z.shiftl_nonneg; lia|apply Z.shiftr_nonneg; lia]. }
  destruct (Z.eqb (f_floor_Z x) 0).
  - rewrite H. vm_compute. discriminate.
  - apply f_trunc_Z_nonneg. now apply f_of_Z_nonneg.
Qed.

Lemma count_offspring_gen_nonneg : forall exps expected skim,
  Forall (fun e => PrimFloat.ltb e 0%float = false) exps -> 0 <= expected ->
  0 <= fst (count_offspring_gen float_qnum exps expected skim).
Proof.
  induction exps as [|e l IH]; intros expected skim Hf He; [exact He|].
  inversion Hf as [|? ? H1 H2]; subst. cbn [count_offspring_gen].
  pose proof (floorZ_nonneg e H1) as F1. cbn [q_floorZ q_ge1 q_add q_frac q_sub q_floor float_qnum].
  destruct (PrimFloat.leb 1%float (PrimFloat.add skim (fmod1 e))) eqn:G.
  - apply IH; [assumption|]. pose proof (floorZ_nonneg _ (ge1_not_lt0 _ G)). lia.
  - apply IH; [assumption|lia].
Qed.

(* the quotas of the chain are not negative when no organism's expected offspring is *)
Lemma count_all_nonneg h : forall l skim total l2 t,
  count_all h l skim total = Ok (l2, t) ->
  (forall s k x, In s l -> In k (sp_orgs s) -> hget h k = Ok x -> PrimFloat.ltb (o_exp x) 0%float = false) ->
  forall s, In s l2 -> 0 <= sp_exp s.
Proof.
  induction l as [|s0 l IH]; intros skim total l2 t H Hnn s Hs.
  - cbn in H. injection H as <- <-. destruct Hs.
  - apply count_all_cons_ok in H. destruct H as [orgs [e [skim' [l3 [H1 [H2 [H3 ->]]]]]]].
    destruct Hs as [<-|Hs].
    + cbn [sp_exp sp_with_exp]. unfold count_offspring in H2.
      pose proof (count_offspring_gen_nonneg (map o_exp orgs) 0 skim) as P. rewrite H2 in P. apply P; [|lia].
      apply Forall_forall. intros f Hf. apply in_map_iff in Hf. destruct Hf as [x [<- Hx]].
      destruct (hgets_In _ _ _ H1 _ Hx) as [A B]. exact (Hnn s0 _ x (or_introl eq_refl) A B).
    + apply (IH _ _ _ _ H3); [|exact Hs]. intros s1 k x Hs1. apply Hnn. now right.
Qed.

(* total_robust with the hypothesis stated on the organisms' expected offspring *)
Lemma total_robust_float : forall p p' orgs sps T,
  purge_zero_offspring p = Ok p' ->
  hgets (p_heap p) (p_orgs p) = Ok orgs ->
  count_all (p_heap p') (p_species p) 0%float 0 = Ok (sps, T) ->
  p_species p <> [] -> NoDup (map sp_id (p_species p)) ->
  (forall s k x, In s (p_species p) -> In k (sp_orgs s) -> hget (p_heap p') k = Ok x ->
                 PrimFloat.ltb (o_exp x) 0%float = false) ->
  (T <= zlen orgs -> sp_sum (p_species p') = zlen orgs) /\
  (zlen orgs < T -> sp_sum (p_species p') = T) /\
  (forall s, In s (p_species p') -> 0 < sp_exp s) /\
  (forall s, In s (p_detached p') -> In s (p_detached p) \/ sp_exp s <= 0).
Proof.
  intros p p' orgs sps T Hp Ho Hc Hne Hnd Hnn.
  apply (total_robust_sum p p' orgs sps T Hp Ho Hc Hne Hnd).
  exact (count_all_nonneg _ _ _ _ _ _ Hc Hnn).
Qed.
