(* C09, binary64 level: the quota countOffspring computes is never negative when every member's
   expected offspring is a finite number in [0, 2^52) (through Flocq: QuotaFloatSumA.v).
   The conversion int(math.Floor(x)) of the implementation is modelled as on amd64 (F64.f_trunc_Z,
   platform assumption "amd64-cvttsd2sq"): for NaN, an infinity and every finite value from 2^63 on it
   yields math.MinInt64, so "not below zero" (which admits NaN and +Inf) does NOT suffice:
   [count_offspring_nan_negative] below.  Below 2^52 Floor, Mod(.,1) and the conversion are exact and
   the carried fraction stays in [0,1), so every int(..) added is >= 0. *)
From Coq Require Import ZArith Reals Lra Lia Bool List.
From Flocq Require Import Core BinarySingleNaN.
From Coq Require Import Floats.
From NeatModel Require Import ActFloatBase.
From NeatModel Require Import Res F64 GoRand Genome Options Population QuotaReal QuotaSpec.
From NeatModel Require Import EpochTotalFloat QuotaFloatSumA.
Import ListNotations.
Open Scope Z_scope.

(* an ExpectedOffspring value the chain converts faithfully: finite and 0 <= e < 2^52
   (as float comparisons; -0 is admitted, NaN and the infinities are not) *)
Definition exp_conv (e : float) : Prop :=
  PrimFloat.leb 0%float e = true /\ PrimFloat.ltb e 0x1p+52%float = true.

Lemma exp_conv_ok e : exp_conv e -> exp_ok e.
Proof. intros [H0 H1]. now apply exp_ok_of_cmp. Qed.

Lemma fin_zero_skim : fin 0%float /\ (0 <= FR 0%float < 1)%R.
Proof. split; [exact fin_zero|]. rewrite FR_zero. lra. Qed.

(* int(math.Floor(x)) for a finite 0 <= x < 2^52 *)
Lemma floorZ_nonneg x : exp_conv x -> 0 <= f_trunc_Z (ffloor x).
Proof.
  intros H. destruct (exp_conv_ok x H) as [F R]. rewrite (trunc_ffloor x F R). apply Zfloor_lub. apply R.
Qed.

(* countOffspring over members with such values, entered with a carried fraction in [0,1): the count
   only grows and the fraction carried out is again in [0,1) *)
Lemma count_offspring_gen_nonneg : forall exps expected skim,
  Forall exp_conv exps -> fin skim -> (0 <= FR skim < 1)%R -> 0 <= expected ->
  0 <= fst (count_offspring_gen float_qnum exps expected skim).
Proof.
  intros exps expected skim Hf Fs Hs He.
  destruct (count_offspring_gen float_qnum exps expected skim) as [e' skim'] eqn:E. cbn [fst].
  assert (Hok : Forall exp_ok exps) by (eapply Forall_impl; [|exact Hf]; exact exp_conv_ok).
  pose proof (count_gen_lower _ _ _ _ _ Hok Fs Hs E). lia.
Qed.

(* the quotas of the chain are not negative when every organism's expected offspring is convertible *)
Lemma count_all_nonneg_from h : forall l skim total l2 t,
  count_all h l skim total = Ok (l2, t) -> fin skim -> (0 <= FR skim < 1)%R ->
  (forall s k x, In s l -> In k (sp_orgs s) -> hget h k = Ok x -> exp_conv (o_exp x)) ->
  forall s, In s l2 -> 0 <= sp_exp s.
Proof.
  induction l as [|s0 l IH]; intros skim total l2 t H Fs Hs Hnn s Hin.
  - cbn in H. injection H as <- <-. destruct Hin.
  - apply count_all_cons_ok in H. destruct H as [orgs [e [skim' [l3 [H1 [H2 [H3 ->]]]]]]].
    unfold count_offspring in H2.
    assert (Hf : Forall exp_conv (map o_exp orgs)).
    { apply Forall_forall. intros f Hf. apply in_map_iff in Hf. destruct Hf as [x [<- Hx]].
      destruct (hgets_In _ _ _ H1 _ Hx) as [A B]. exact (Hnn s0 _ x (or_introl eq_refl) A B). }
    assert (Hok : Forall exp_ok (map o_exp orgs)) by (eapply Forall_impl; [|exact Hf]; exact exp_conv_ok).
    destruct Hin as [<-|Hin].
    + cbn [sp_exp sp_with_exp]. pose proof (count_gen_lower _ _ _ _ _ Hok Fs Hs H2). lia.
    + destruct (count_gen_bound _ _ _ _ _ Hok Fs Hs H2) as (Fs' & Hs' & _).
      apply (IH _ _ _ _ H3 Fs' Hs'); [|exact Hin]. intros s1 k x Hs1. apply Hnn. now right.
Qed.

Lemma count_all_nonneg h : forall l total l2 t,
  count_all h l 0%float total = Ok (l2, t) ->
  (forall s k x, In s l -> In k (sp_orgs s) -> hget h k = Ok x -> exp_conv (o_exp x)) ->
  forall s, In s l2 -> 0 <= sp_exp s.
Proof.
  intros l total l2 t H. destruct fin_zero_skim as [F0 R0]. exact (count_all_nonneg_from h l _ _ _ _ H F0 R0).
Qed.

(* total_robust with the hypothesis stated on the organisms' expected offspring *)
Lemma total_robust_float : forall p p' orgs sps T,
  purge_zero_offspring p = Ok p' ->
  hgets (p_heap p) (p_orgs p) = Ok orgs ->
  count_all (p_heap p') (p_species p) 0%float 0 = Ok (sps, T) ->
  p_species p <> [] -> NoDup (map sp_id (p_species p)) ->
  (forall s k x, In s (p_species p) -> In k (sp_orgs s) -> hget (p_heap p') k = Ok x ->
                 PrimFloat.leb 0%float (o_exp x) = true /\ PrimFloat.ltb (o_exp x) 0x1p+52%float = true) ->
  (T <= zlen orgs -> sp_sum (p_species p') = zlen orgs) /\
  (zlen orgs < T -> sp_sum (p_species p') = T) /\
  (forall s, In s (p_species p') -> 0 < sp_exp s) /\
  (forall s, In s (p_detached p') -> In s (p_detached p) \/ sp_exp s <= 0).
Proof.
  intros p p' orgs sps T Hp Ho Hc Hne Hnd Hnn.
  apply (total_robust_sum p p' orgs sps T Hp Ho Hc Hne Hnd).
  exact (count_all_nonneg _ _ _ _ _ Hc Hnn).
Qed.

(* "not below zero" does not suffice: one member whose expected offspring is NaN (or +Inf, or 2^63)
   makes the quota math.MinInt64 *)
Lemma count_offspring_nan_negative :
  PrimFloat.ltb PrimFloat.nan 0%float = false /\ PrimFloat.ltb infinity 0%float = false /\
  fst (count_offspring_gen float_qnum [PrimFloat.nan] 0 0%float) = int64_indefinite /\
  fst (count_offspring_gen float_qnum [infinity] 0 0%float) = int64_indefinite /\
  fst (count_offspring_gen float_qnum [0x1p+63%float] 0 0%float) = int64_indefinite.
Proof. repeat split; vm_compute; reflexivity. Qed.
