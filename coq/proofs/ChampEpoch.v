(* C10, epoch level: the exact duplicate of every sizeable species' champion made by
   Species.reproduce is carried into the next population by speciate and finalizeReproduction. *)
From NeatModel Require Import Compat.
From NeatModel Require Import Res F64 GoRand Genome Options Insert Dup Mutate Mate Population MonadLemmas WF
     ChampHeap ChampSpec ChampPrepare.
From Coq Require Import Lia Sorting.Permutation.

Lemma nodup_app_r {A} (a b : list A) : NoDup (a ++ b) -> NoDup b.
Proof. induction a as [|x a IH]; cbn [app]; [auto|]. intros H. inversion H; subst. auto. Qed.

(* ---------- the first organisms of a species list ---------- *)
Definition first_keys (l : list species) : list Z := flat_map (fun s => firstn 1 (sp_orgs s)) l.

Lemma first_keys_In l k : In k (first_keys l) <-> exists s rest, In s l /\ sp_orgs s = k :: rest.
Proof.
  unfold first_keys. rewrite in_flat_map. split.
  - intros [s [Hs Hk]]. destruct (sp_orgs s) as [|k0 rest] eqn:E; cbn in Hk; [destruct Hk|].
    destruct Hk as [<-|[]]. now exists s, rest.
  - intros [s [rest [Hs E]]]. exists s. split; [exact Hs|]. rewrite E. now left.
Qed.

Lemma first_keys_nodup h l : ids_nodup l -> members_ok h l -> NoDup (first_keys l).
Proof.
  unfold ids_nodup. induction l as [|x l IH]; intros Hnd Hm; [constructor|].
  cbn [map] in Hnd. inversion Hnd as [|? ? Hnot Hnd']; subst.
  assert (Hm' : members_ok h l) by (intros s k Hs Hk; apply Hm; [now right|exact Hk]).
  change (first_keys (x :: l)) with (firstn 1 (sp_orgs x) ++ first_keys l).
  destruct (sp_orgs x) as [|k rest] eqn:Ex; cbn [firstn app]; [now apply IH|].
  constructor; [|now apply IH]. intros Hin. apply first_keys_In in Hin. destruct Hin as [s [rest' [Hs Es]]].
  apply Hnot. apply in_map_iff. exists s. split; [|exact Hs].
  apply (members_same_species h (x :: l) s x k Hm); [now right|now left|rewrite Es; now left|rewrite Ex; now left].
Qed.

Lemma first_org_key h s c : first_org h s = Ok c -> exists rest, sp_orgs s = o_key c :: rest /\ hget h (o_key c) = Ok c.
Proof.
  unfold first_org. destruct (sp_orgs s) as [|k r]; [discriminate|]. intros H.
  rewrite (hget_key _ _ _ H). now exists r.
Qed.

(* ---------- reproduction of all species in turn ---------- *)
Record all_frame (l : list species) (h : list organism) (key : Z) (babies : list Z)
       (h' : list organism) (key' : Z) (babies' : list Z) : Prop := {
  af_key : key <= key';
  af_babies : exists new, babies' = babies ++ new /\ forall k, In k new <-> key <= k < key';
  af_old : forall k, k < key \/ key' <= k -> ~ In k (first_keys l) -> hget h' k = hget h k;
  af_champ : forall k x, In k (first_keys l) -> hget h k = Ok x -> exists m, hget h' k = Ok (o_with_super x m);
  af_new : forall k, key <= k < key' -> exists b, hget h' k = Ok b /\ o_super b = 0;
  af_clone : forall s champ, In s l -> sp_exp s > 5 -> first_org h s = Ok champ -> refs_ok (o_genome champ) ->
                             o_super champ <= sp_exp s ->
                             exists k c b, key <= k < key' /\ hget h' k = Ok b /\ o_genome b = with_id (o_genome champ) c
}.

Lemma reproduce_all_spec o gen all sorted best_id : forall l h key babies br st h' key' babies' br' st',
  reproduce_all o gen all sorted best_id l h key babies br st = Ok ((h', key', babies', br'), st') ->
  NoDup (first_keys l) -> (forall k, In k (first_keys l) -> k < key) ->
  all_frame l h key babies h' key' babies'.
Proof.
  induction l as [|s l IH]; intros h key babies br st h' key' babies' br' st' H Hnd Hlt; cbn [reproduce_all] in H.
  - apply ret_ok in H. destruct H as [H _]. injection H as <- <- <- _. constructor.
    + lia.
    + exists []. split; [now rewrite app_nil_r|]. intros k. split; [intros []|lia].
    + reflexivity.
    + intros k x [].
    + intros k Hk. lia.
    + intros s champ [].
  - mbind H as r s1 H1 H. destruct r as [[h1 key1] bs].
    change (first_keys (s :: l)) with (firstn 1 (sp_orgs s) ++ first_keys l) in *.
    assert (Hlts : forall k rest, sp_orgs s = k :: rest -> k < key).
    { intros k rest E. apply Hlt. rewrite E. now left. }
    pose proof (reproduce_species_frame _ _ _ _ _ _ _ _ _ _ _ _ H1 Hlts) as [Sk Sb So Sc Sn].
    assert (Hk1 : key <= key1) by lia.
    assert (Hnd' : NoDup (first_keys l)) by (apply nodup_app_r in Hnd; exact Hnd).
    assert (Hlt' : forall k, In k (first_keys l) -> k < key1).
    { intros k Hk. assert (k < key) by (apply Hlt, in_or_app; now right). lia. }
    destruct (IH _ _ _ _ _ _ _ _ _ _ H Hnd' Hlt') as [Ak [new [Ab Anew]] Ao Ac An Acl].
    assert (Hdisj : forall k rest, sp_orgs s = k :: rest -> ~ In k (first_keys l)).
    { intros k rest E Hin. rewrite E in Hnd. cbn [firstn app] in Hnd. inversion Hnd; subst. contradiction. }
    constructor.
    + lia.
    + exists (bs ++ new). split; [now rewrite Ab, app_assoc|]. intros k. rewrite in_app_iff, Sb, Anew. lia.
    + intros k Hk Hnin. rewrite Ao.
      * apply So; [lia|]. intros rest E. apply Hnin, in_or_app. left. rewrite E. now left.
      * lia.
      * intros Hin. apply Hnin, in_or_app. now right.
    + intros k x Hin Hx. apply in_app_or in Hin. destruct Hin as [Hin|Hin].
      * destruct (sp_orgs s) as [|k0 rest] eqn:Es; cbn [firstn] in Hin; [destruct Hin|]. destruct Hin as [<-|[]].
        assert (Hf : first_org h s = Ok x) by (unfold first_org; now rewrite Es).
        specialize (Sc x Hf). unfold first_org in Sc. rewrite Es in Sc.
        eexists. rewrite Ao; [exact Sc| |exact (Hdisj _ _ eq_refl)].
        left. specialize (Hlts k0 rest eq_refl). lia.
      * assert (Hk : k < key) by (apply Hlt, in_or_app; now right).
        assert (E1 : hget h1 k = Ok x).
        { rewrite So; [exact Hx|lia|]. intros rest E. exact (Hdisj _ _ E Hin). }
        exact (Ac k x Hin E1).
    + intros k Hk. destruct (Z_lt_le_dec k key1) as [Hlt1|Hge1].
      * destruct (Sn k) as [b [Hb Hs0]]; [lia|]. exists b. split; [|exact Hs0].
        rewrite Ao; [exact Hb|lia|]. intros Hin. specialize (Hlt' k Hin).
        assert (k < key) by (apply Hlt, in_or_app; now right). lia.
      * destruct (An k) as [b Hb]; [lia|]. now exists b.
    + intros s0 champ [<-|Hin] Hexp Hfirst Hrefs Hsup.
      * destruct (first_org_key _ _ _ Hfirst) as [rest [Es _]].
        destruct (champ_clone _ _ _ _ _ _ _ _ _ _ _ _ _ H1 Hexp Hfirst Hrefs Hsup (Hlts _ _ Es)) as [k [c [b [_ [Hk [Hb Hg]]]]]].
        exists k, c, b. split; [lia|]. split; [|exact Hg].
        rewrite Ao; [exact Hb|lia|]. intros Hin. specialize (Hlt' k Hin).
        assert (k < key) by (apply Hlt, in_or_app; now right). lia.
      * destruct (first_org_key _ _ _ Hfirst) as [rest [Es Hg]].
        assert (Hin1 : In (o_key champ) (first_keys l)) by (apply first_keys_In; now exists s0, rest).
        assert (Hf1 : first_org h1 s0 = Ok champ).
        { unfold first_org. rewrite Es. rewrite So; [exact Hg| |].
          - left. apply Hlt, in_or_app. now right.
          - intros rest' E. exact (Hdisj _ _ E Hin1). }
        destruct (Acl s0 champ Hin Hexp Hf1 Hrefs Hsup) as [k [c [b [Hk [Hb Hgen]]]]].
        exists k, c, b. split; [lia|now split].
Qed.

(* ---------- speciate: babies join species, genomes untouched ---------- *)
Definition proj_kgu (x : organism) := (o_key x, o_genome x, o_super x).

Definition is_member (sps : list species) (k : Z) : Prop := exists s, In s sps /\ In k (sp_orgs s).

Lemma best_species_In o h baby : forall l best bv id,
  best_species o h baby l best bv = Ok (Some id) -> best = Some id \/ exists s, In s l /\ sp_id s = id.
Proof.
  induction l as [|s l IH]; intros best bv id H; cbn [best_species] in H.
  - injection H as ->. now left.
  - assert (Hrec : forall best' bv', best_species o h baby l best' bv' = Ok (Some id) ->
                     best' = best \/ best' = Some (sp_id s) ->
                     best = Some id \/ exists s0, In s0 (s :: l) /\ sp_id s0 = id).
    { intros best' bv' H' Hb. destruct (IH _ _ _ H') as [E|[s0 [Hs0 E]]].
      - destruct Hb as [->| ->]; [now left|]. injection E as E. right. exists s. split; [now left|exact E].
      - right. exists s0. split; [now right|exact E]. }
    destruct (sp_orgs s) as [|k r]; [apply (Hrec _ _ H); now left|].
    rbind H as rep Hrep. destruct (_ && _); [apply (Hrec _ _ H); now right|apply (Hrec _ _ H); now left].
Qed.

Lemma speciate_one_spec o p k p' :
  speciate_one o p k = Ok p' ->
  p_orgs p' = p_orgs p /\ p_next_key p' = p_next_key p /\
  heap_rel proj_kgu (p_heap p) (p_heap p') /\
  is_member (p_species p') k /\
  (forall k0, is_member (p_species p) k0 -> is_member (p_species p') k0).
Proof.
  unfold speciate_one. intros H. rbind H as baby Hb.
  assert (Hrel : forall id, heap_rel proj_kgu (p_heap p) (hset (p_heap p) (o_with_species baby id))).
  { intros id. apply (heap_rel_hset _ _ baby); [|reflexivity]. cbn [o_with_species o_key].
    now rewrite (hget_key _ _ _ Hb). }
  assert (Hnew : forall pn, pn = {| p_species := p_species p ++ [new_species (p_last_species p + 1) k];
                                   p_detached := p_detached p; p_orgs := p_orgs p;
                                   p_heap := hset (p_heap p) (o_with_species baby (p_last_species p + 1));
                                   p_last_species := p_last_species p + 1; p_highest := p_highest p;
                                   p_epochs_highest := p_epochs_highest p; p_next_key := p_next_key p |} ->
                 p_orgs pn = p_orgs p /\ p_next_key pn = p_next_key p /\ heap_rel proj_kgu (p_heap p) (p_heap pn) /\
                 is_member (p_species pn) k /\ (forall k0, is_member (p_species p) k0 -> is_member (p_species pn) k0)).
  { intros pn ->. cbn [p_orgs p_next_key p_heap p_species]. split; [reflexivity|split; [reflexivity|split; [apply Hrel|split]]].
    - exists (new_species (p_last_species p + 1) k). split; [apply in_or_app; right; now left|now left].
    - intros k0 [s [Hs Hk]]. exists s. split; [apply in_or_app; now left|exact Hk]. }
  destruct (p_species p) as [|s0 sps0] eqn:Esp; [injection H as <-; now apply Hnew|].
  rewrite <- Esp in *. destruct (PrimFloat.eqb _ _); [discriminate|].
  rbind H as b Hbs. destruct b as [id|]; [|injection H as <-; now apply Hnew].
  injection H as <-. cbn [p_with p_orgs p_next_key p_heap p_species].
  split; [reflexivity|split; [reflexivity|split; [apply Hrel|]]].
  destruct (best_species_In _ _ _ _ _ _ _ Hbs) as [E|[s [Hs Eid]]]; [discriminate|].
  split.
  - exists (sp_with_orgs s (sp_orgs s ++ [k])). split.
    + unfold sp_set. apply in_map_iff. exists s. split; [|exact Hs]. rewrite Eid, Z.eqb_refl. reflexivity.
    + cbn [sp_with_orgs sp_orgs]. apply in_or_app. right. now left.
  - intros k0 [s1 [Hs1 Hk0]]. unfold sp_set.
    exists (if Z.eqb (sp_id s1) id then sp_with_orgs s1 (sp_orgs s1 ++ [k]) else s1). split.
    + apply in_map_iff. now exists s1.
    + destruct (Z.eqb _ _); [cbn [sp_with_orgs sp_orgs]; apply in_or_app; now left|exact Hk0].
Qed.

Lemma speciate_loop_spec o : forall ks p p',
  speciate_loop o p ks = Ok p' ->
  p_orgs p' = p_orgs p /\ p_next_key p' = p_next_key p /\
  heap_rel proj_kgu (p_heap p) (p_heap p') /\
  (forall k, In k ks -> is_member (p_species p') k) /\
  (forall k0, is_member (p_species p) k0 -> is_member (p_species p') k0).
Proof.
  induction ks as [|k ks IH]; intros p p' H; cbn [speciate_loop] in H.
  - injection H as <-. split; [reflexivity|split; [reflexivity|split; [apply heap_rel_refl|split]]].
    + intros k [].
    + auto.
  - rbind H as p1 H1. apply speciate_one_spec in H1. destruct H1 as [Ho [Hn [Hr [Hk Hm]]]].
    destruct (IH _ _ H) as [Ho' [Hn' [Hr' [Hk' Hm']]]].
    split; [congruence|split; [congruence|split; [exact (heap_rel_trans _ _ _ _ Hr Hr')|split]]].
    + intros k0 [<-|Hin]; [now apply Hm'|now apply Hk'].
    + auto.
Qed.

(* ---------- finalizeReproduction ---------- *)
Lemma remove_org_keeps l sid k l' k0 :
  remove_org l sid k = Ok l' -> k0 <> k -> is_member l k0 -> is_member l' k0.
Proof.
  unfold remove_org. intros H Hne. destruct (sp_find l sid) as [s|] eqn:Ef; [|discriminate].
  destruct (_ && _); [|discriminate]. injection H as <-.
  revert Ef. induction l as [|y l IH]; cbn [sp_find sp_replace]; [discriminate|].
  cbn [sp_with_orgs sp_id]. destruct (Z.eqb_spec (sp_id y) sid) as [E|Hn].
  - intros Hs. injection Hs as ->. subst sid. rewrite Z.eqb_refl. intros [s0 [[<-|Hs0] Hk0]].
    + eexists. split; [now left|]. cbn [sp_orgs]. apply filter_In. split; [exact Hk0|].
      apply negb_true_iff. now apply Z.eqb_neq.
    + exists s0. split; [now right|exact Hk0].
  - intros Hs. destruct (sp_find_In _ _ _ Hs) as [_ Eid]. rewrite Eid.
    destruct (Z.eqb_spec (sp_id y) sid); [contradiction|]. intros [s0 [[<-|Hs0] Hk0]].
    + exists y. split; [now left|exact Hk0].
    + destruct (IH Hs) as [s1 [Hs1 Hk1]]; [now exists s0|]. exists s1. split; [now right|exact Hk1].
Qed.

Lemma purge_old_loop_spec : forall ks p p',
  purge_old_loop p ks = Ok p' ->
  p_heap p' = p_heap p /\ p_next_key p' = p_next_key p /\
  forall k0, ~ In k0 ks -> is_member (p_species p) k0 -> is_member (p_species p') k0.
Proof.
  induction ks as [|k ks IH]; intros p p' H; cbn [purge_old_loop] in H.
  - injection H as <-. cbn [p_with p_heap p_next_key p_species]. auto.
  - rbind H as x Hx. rbind H as p1 Hp1. destruct (IH _ _ H) as [Hh [Hn Hm]].
    assert (Hp : p_heap p1 = p_heap p /\ p_next_key p1 = p_next_key p /\
                 forall k0, k0 <> k -> is_member (p_species p) k0 -> is_member (p_species p1) k0).
    { unfold remove_from_species in Hp1. destruct (sp_find (p_species p) (o_species x)).
      - rbind Hp1 as l Hl. injection Hp1 as <-. cbn [p_with p_heap p_next_key p_species]. repeat split.
        intros k0 Hne. rewrite (hget_key _ _ _ Hx) in Hl. exact (remove_org_keeps _ _ _ _ _ Hl Hne).
      - rbind Hp1 as l Hl. injection Hp1 as <-. cbn [p_with p_heap p_next_key p_species]. auto. }
    destruct Hp as [Hh1 [Hn1 Hm1]]. split; [congruence|split; [congruence|]].
    intros k0 Hnin Hmem. apply Hm; [intros Hin; apply Hnin; now right|].
    apply Hm1; [intros ->; apply Hnin; now left|exact Hmem].
Qed.

Definition proj_noid (x : organism) := (o_key x, with_id (o_genome x) 0, o_species x, o_super x).

Lemma renumber_spec : forall ks h count h' count',
  renumber h ks count = Ok (h', count') -> heap_rel proj_noid h h'.
Proof.
  induction ks as [|k ks IH]; intros h count h' count' H; cbn [renumber] in H.
  - injection H as <- _. apply heap_rel_refl.
  - rbind H as x Hx. apply (heap_rel_trans _ _ (hset h (o_with_genome x (with_id (o_genome x) count)))).
    + apply (heap_rel_hset _ _ x); [|reflexivity]. cbn [o_with_genome o_key]. now rewrite (hget_key _ _ _ Hx).
    + exact (IH _ _ _ _ H).
Qed.

Lemma purge_or_age_spec : forall l h count orgs l2 h2 orgs2,
  purge_or_age l h count orgs = Ok (l2, h2, orgs2) ->
  heap_rel proj_noid h h2 /\
  (forall k, In k orgs2 <-> In k orgs \/ is_member l k).
Proof.
  induction l as [|s l IH]; intros h count orgs l2 h2 orgs2 H; cbn [purge_or_age] in H.
  - injection H as _ <- <-. split; [apply heap_rel_refl|]. intros k. split; [now left|].
    intros [Hk|[s [[] _]]]. exact Hk.
  - destruct (sp_orgs s) as [|k0 ks0] eqn:Es.
    + destruct (IH _ _ _ _ _ _ H) as [Hr Ho]. split; [exact Hr|]. intros k. rewrite Ho. split.
      * intros [Hk|[s1 [Hs1 Hk]]]; [now left|]. right. exists s1. split; [now right|exact Hk].
      * intros [Hk|[s1 [[<-|Hs1] Hk]]]; [now left|rewrite Es in Hk; destruct Hk|].
        right. now exists s1.
    + rbind H as r Hr. destruct r as [h1 count1]. rbind H as r2 Hr2. destruct r2 as [[l3 h3] orgs3].
      injection H as _ <- <-. apply renumber_spec in Hr. destruct (IH _ _ _ _ _ _ Hr2) as [Hr' Ho].
      split; [exact (heap_rel_trans _ _ _ _ Hr Hr')|]. intros k. rewrite Ho, in_app_iff. split.
      * intros [[Hk|Hk]|[s1 [Hs1 Hk]]]; [now left| |].
        -- right. exists s. split; [now left|now rewrite Es].
        -- right. exists s1. split; [now right|exact Hk].
      * intros [Hk|[s1 [[<-|Hs1] Hk]]]; [left; now left| |].
        -- left. right. now rewrite Es in Hk.
        -- right. now exists s1.
Qed.

Lemma hget_filter_live orgs k : In k orgs -> forall h,
  hget (filter (fun x => existsb (Z.eqb (o_key x)) orgs) h) k = hget h k.
Proof.
  intros Hin. induction h as [|x h IH]; cbn [filter hget]; [reflexivity|].
  destruct (existsb (Z.eqb (o_key x)) orgs) eqn:Ex; cbn [hget].
  - destruct (Z.eqb (o_key x) k); [reflexivity|exact IH].
  - destruct (Z.eqb_spec (o_key x) k) as [E|_]; [|exact IH].
    exfalso. assert (Ht : existsb (Z.eqb (o_key x)) orgs = true).
    { apply existsb_exists. exists k. split; [exact Hin|]. now apply Z.eqb_eq. }
    congruence.
Qed.

Lemma finalize_spec p x st p3 st3 :
  finalize p x st = Ok (p3, st3) ->
  forall k, ~ In k (p_orgs p) -> is_member (p_species p) k ->
  In k (p_orgs p3) /\
  forall b, hget (p_heap p) k = Ok b -> exists b', hget (p_heap p3) k = Ok b' /\ proj_noid b' = proj_noid b.
Proof.
  unfold finalize. intros H k Hnin Hmem.
  mbind H as p1 s1 H1 H. apply lift_ok in H1. destruct H1 as [H1 ->].
  mbind H as r s2 H2 H. apply lift_ok in H2. destruct H2 as [H2 ->]. destruct r as [[sps h] orgs].
  destruct (negb _ && negb _); [discriminate|]. injection H as <- _.
  cbn [p_with p_orgs p_heap].
  apply purge_old_loop_spec in H1. destruct H1 as [Hh1 [_ Hm1]].
  apply purge_or_age_spec in H2. destruct H2 as [Hr Ho].
  assert (Hk : In k orgs) by (apply Ho; right; now apply Hm1).
  split; [exact Hk|]. intros b Hb. rewrite hget_filter_live by exact Hk.
  rewrite <- Hh1 in Hb. destruct (Hr k) as [F _]. exact (F b Hb).
Qed.

Lemma with_id_0_eq g g' : with_id g 0 = with_id g' 0 -> g = with_id g' (gid g).
Proof. destruct g, g'. cbn. intros H. injection H as -> -> -> ->. reflexivity. Qed.

(* ---------- the structural invariant of a population between epochs ---------- *)
Record pop_ok (p : population) : Prop := {
  pw_ids : ids_nodup (p_species p);
  pw_members : members_ok (p_heap p) (p_species p);
  pw_super : S0 (p_heap p);
  pw_keys : forall k x, hget (p_heap p) k = Ok x -> k < p_next_key p;
  pw_orgs : forall k, In k (p_orgs p) -> k < p_next_key p
}.

(* Theorem C10_step *)
Theorem champ_survives_epoch o gen p st p1 sorted best st1 x1 p2 x2 st2 p3 st3 :
  prepare o p st = Ok ((p1, sorted, best), st1) ->
  reproduce o gen p1 sorted x1 st1 = Ok ((p2, x2), st2) ->
  finalize p2 x2 st2 = Ok (p3, st3) ->
  pop_ok p ->
  forall sp champ,
    In sp (p_species p1) -> sp_exp sp > 5 -> first_org (p_heap p1) sp = Ok champ -> refs_ok (o_genome champ) ->
    exists b, In (o_key b) (p_orgs p3) /\ hget (p_heap p3) (o_key b) = Ok b /\
              exists n, o_genome b = with_id (o_genome champ) n.
Proof.
  intros Hprep Hrep Hfin [Wi Wm Ws Wk Wo] sp champ Hsp Hexp Hfirst Hrefs.
  unfold reproduce in Hrep. mbind Hrep as r sR HR Hrep. destruct r as [[[h1 key1] babies] brep].
  destruct (negb (Z.eqb (zlen babies) (o_pop_size o))) eqn:Esz; [discriminate|].
  assert (Hpop : 0 <= o_pop_size o).
  { apply negb_false_iff, Z.eqb_eq in Esz. rewrite <- Esz. unfold zlen. lia. }
  mbind Hrep as p2' sS HS Hrep. apply lift_ok in HS. destruct HS as [HS ->].
  apply ret_ok in Hrep. destruct Hrep as [Hrep _]. injection Hrep as -> _.
  destruct (prepare_frame _ _ _ _ _ _ _ Hprep Hpop Wi Wm Ws) as [Pi Pm Pq Ph Pn Po].
  assert (Hfk : forall k, In k (first_keys (p_species p1)) -> k < p_next_key p1).
  { intros k Hk. apply first_keys_In in Hk. destruct Hk as [s [rest [Hs Es]]].
    destruct (Pm s k Hs) as [y [Hy _]]; [rewrite Es; now left|].
    destruct (heap_rel_gs_bwd _ _ _ _ Ph Hy) as [y0 [Hy0 _]]. rewrite Pn. exact (Wk _ _ Hy0). }
  pose proof (reproduce_all_spec _ _ _ _ _ _ _ _ _ _ _ _ _ _ _ _ HR (first_keys_nodup _ _ Pi Pm) Hfk)
    as [Ak [new [Ab Anew]] _ _ _ Acl].
  destruct (first_org_member _ _ _ Hfirst) as [Hcm Hcg].
  assert (Hsup : o_super champ <= sp_exp sp) by (specialize (Pq sp _ champ Hsp Hcm Hcg); lia).
  destruct (Acl sp champ Hsp Hexp Hfirst Hrefs Hsup) as [k [c [b [Hk [Hb Hg]]]]].
  cbn [app] in Ab. subst babies.
  assert (Hkb : In k new) by (apply Anew; exact Hk).
  unfold speciate in HS. destruct new as [|k0 new0] eqn:En; [destruct Hkb|]. rewrite <- En in *.
  apply speciate_loop_spec in HS. cbn [p_orgs p_next_key p_heap p_species] in HS.
  destruct HS as [Ho2 [_ [Hr2 [Hmem2 _]]]].
  destruct (Hr2 k) as [F2 _]. destruct (F2 b Hb) as [b2 [Hb2 E2]].
  assert (Hnin : ~ In k (p_orgs p2)).
  { rewrite Ho2. intros Hin. apply Po in Hin. apply Wo in Hin. lia. }
  destruct (finalize_spec _ _ _ _ _ Hfin k Hnin (Hmem2 k Hkb)) as [Hko Hh3].
  destruct (Hh3 b2 Hb2) as [b3 [Hb3 E3]].
  exists b3. rewrite (hget_key _ _ _ Hb3). split; [exact Hko|]. split; [exact Hb3|].
  exists (gid (o_genome b3)). unfold proj_noid in E3. unfold proj_kgu in E2.
  apply (f_equal (fun t => snd (fst (fst t)))) in E3. cbn [fst snd] in E3.
  apply (f_equal (fun t => snd (fst t))) in E2. cbn [fst snd] in E2.
  rewrite E2, Hg in E3. apply with_id_0_eq. exact E3.
Qed.

(* the heap after finalizeReproduction: renumbered genomes, garbage dropped *)
Lemma finalize_heap p x st p3 st3 :
  finalize p x st = Ok (p3, st3) ->
  exists h, heap_rel proj_noid (p_heap p) h /\
            p_heap p3 = filter (fun y => existsb (Z.eqb (o_key y)) (p_orgs p3)) h.
Proof.
  unfold finalize. intros H.
  mbind H as p1 s1 H1 H. apply lift_ok in H1. destruct H1 as [H1 ->].
  mbind H as r s2 H2 H. apply lift_ok in H2. destruct H2 as [H2 ->]. destruct r as [[sps h] orgs].
  destruct (negb _ && negb _); [discriminate|]. injection H as <- _.
  cbn [p_with p_orgs p_heap].
  apply purge_old_loop_spec in H1. destruct H1 as [Hh1 _].
  apply purge_or_age_spec in H2. destruct H2 as [Hr _].
  exists h. split; [now rewrite <- Hh1|reflexivity].
Qed.

Lemma hget_filter_key orgs h k x :
  hget (filter (fun y => existsb (Z.eqb (o_key y)) orgs) h) k = Ok x -> In k orgs /\ hget h k = Ok x.
Proof.
  intros H. assert (Hin : In k orgs).
  { pose proof (hget_In _ _ _ H) as Hx. apply filter_In in Hx. destruct Hx as [_ Hx].
    apply existsb_exists in Hx. destruct Hx as [k' [Hk' E]]. apply Z.eqb_eq in E.
    rewrite (hget_key _ _ _ H) in E. now subst k'. }
  split; [exact Hin|]. now rewrite hget_filter_live in H.
Qed.

(* after the epoch every organism in the heap is a baby made by this epoch, with no reserved
   super-champion offspring, provided its key is fresh *)
Theorem next_epoch_babies_super o gen p st p1 sorted best st1 x1 p2 x2 st2 p3 st3 :
  prepare o p st = Ok ((p1, sorted, best), st1) ->
  reproduce o gen p1 sorted x1 st1 = Ok ((p2, x2), st2) ->
  finalize p2 x2 st2 = Ok (p3, st3) ->
  pop_ok p ->
  forall k x, hget (p_heap p3) k = Ok x -> In k (p_orgs p3) /\ (p_next_key p <= k -> o_super x = 0).
Proof.
  intros Hprep Hrep Hfin [Wi Wm Ws Wk Wo] k x Hx.
  unfold reproduce in Hrep. mbind Hrep as r sR HR Hrep. destruct r as [[[h1 key1] babies] brep].
  destruct (negb (Z.eqb (zlen babies) (o_pop_size o))) eqn:Esz; [discriminate|].
  assert (Hpop : 0 <= o_pop_size o).
  { apply negb_false_iff, Z.eqb_eq in Esz. rewrite <- Esz. unfold zlen. lia. }
  mbind Hrep as p2' sS HS Hrep. apply lift_ok in HS. destruct HS as [HS ->].
  apply ret_ok in Hrep. destruct Hrep as [Hrep _]. injection Hrep as -> _.
  destruct (prepare_frame _ _ _ _ _ _ _ Hprep Hpop Wi Wm Ws) as [Pi Pm Pq Ph Pn Po].
  assert (Hfk : forall k, In k (first_keys (p_species p1)) -> k < p_next_key p1).
  { intros k0 Hk. apply first_keys_In in Hk. destruct Hk as [s [rest [Hs Es]]].
    destruct (Pm s k0 Hs) as [y [Hy _]]; [rewrite Es; now left|].
    destruct (heap_rel_gs_bwd _ _ _ _ Ph Hy) as [y0 [Hy0 _]]. rewrite Pn. exact (Wk _ _ Hy0). }
  pose proof (reproduce_all_spec _ _ _ _ _ _ _ _ _ _ _ _ _ _ _ _ HR (first_keys_nodup _ _ Pi Pm) Hfk)
    as [Ak _ Ao _ An _].
  unfold speciate in HS. destruct babies as [|k0 bs0] eqn:En; [discriminate|]. rewrite <- En in *.
  apply speciate_loop_spec in HS. cbn [p_orgs p_next_key p_heap p_species] in HS.
  destruct HS as [_ [_ [Hr2 _]]].
  destruct (finalize_heap _ _ _ _ _ Hfin) as [h [Hr3 Eh3]]. rewrite Eh3 in Hx.
  apply hget_filter_key in Hx. destruct Hx as [Hko Hx]. split; [exact Hko|]. intros Hfresh.
  destruct (Hr3 k) as [_ B3]. destruct (B3 x Hx) as [x2' [Hx2 E3]].
  destruct (Hr2 k) as [_ B2]. destruct (B2 x2' Hx2) as [x1' [Hx1 E2]].
  assert (Es : o_super x = o_super x1').
  { unfold proj_noid in E3. unfold proj_kgu in E2.
    apply (f_equal snd) in E3. apply (f_equal snd) in E2. cbn [snd] in E3, E2. congruence. }
  rewrite Es. destruct (Z_lt_le_dec k key1) as [Hlt|Hge].
  - destruct (An k) as [b [Hb Hb0]]; [rewrite Pn; lia|]. rewrite Hb in Hx1. injection Hx1 as <-. exact Hb0.
  - exfalso. rewrite Ao in Hx1.
    + destruct (heap_rel_gs_bwd _ _ _ _ Ph Hx1) as [y0 [Hy0 _]]. specialize (Wk _ _ Hy0). lia.
    + now right.
    + intros Hin. specialize (Hfk _ Hin). rewrite Pn in Hfk. lia.
Qed.
