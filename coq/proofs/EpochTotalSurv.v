(* C02, binary64: a concrete sufficient condition for [survivors_ok] (PopNoErr.v), "the survival
   threshold keeps at least the champion of every species":
     int(math.Floor(SurvivalThresh * float64(n) + 1)) >= 1   for every species size 1 <= n < 2^31.
   int(x) is modelled as on amd64 (F64.f_trunc_Z, platform assumption "amd64-cvttsd2sq"): NaN, the
   infinities and every finite value from 2^63 on convert to math.MinInt64.  So the statement is NOT
   true for every finite SurvivalThresh >= 0: SurvivalThresh = 2^1023, n = 2 gives +Inf,
   math.Floor(+Inf) = +Inf and int(+Inf) = math.MinInt64 ([survivors_ok_overflow_refuted]; with a
   negative numParents adjustFitness then panics, index out of range).  Nor is it true of any positive
   threshold for EVERY n: for SurvivalThresh = 1 and n = 2^63 - 1 the sum is 2^63
   ([survivors_ok_unbounded_refuted]).  True for every n < 2^31 as soon as
   0 <= SurvivalThresh <= 2^29 (the sum is below 2^61), in particular for SurvivalThresh in [0,1]. *)
From Coq Require Import ZArith Reals Lra Lia Bool List.
From Flocq Require Import Core BinarySingleNaN.
From Coq Require Import Floats.
From Coq Require Uint63.
From NeatModel Require Import ActFloatBase.
From NeatModel Require Import Res F64 GoRand Genome Options Population PopNoErr EpochTotalDefs EpochTotalFloat.
Import ListNotations.
Open Scope Z_scope.

(* ---------- float64(n) for an arbitrary n >= 1 ---------- *)
Lemma of_uint63_f_of_Z i : PrimFloat.of_uint63 i = f_of_Z (Uint63.to_Z i).
Proof.
  rewrite <- (Uint63.of_to_Z i) at 1. destruct (Uint63.to_Z i) as [|q|q] eqn:E.
  - vm_compute. reflexivity.
  - cbn [f_of_Z]. exact eq_refl.
  - pose proof (Uint63.to_Z_bounded i). lia.
Qed.

Lemma f_of_Z_pos_R n : 1 <= n -> fin (f_of_Z n) /\ (0 <= FR (f_of_Z n) <= bpow radix2 63)%R.
Proof.
  intros Hn. destruct n as [|p|p]; try lia. cbn [f_of_Z]. rewrite of_uint63_f_of_Z.
  pose proof (Uint63.to_Z_bounded (Uint63.of_Z (Z.pos p))) as Hb. change Uint63.wB with (2 ^ 63) in Hb.
  destruct (f_of_Z_R _ Hb) as (F & E & B). split; [exact F|]. rewrite E. exact B.
Qed.

(* ---------- powers of two as float constants ---------- *)
Definition c900 : float := 0x1p+900%float.
Definition c964 : float := 0x1p+964%float.

Lemma FR_pow2_const c e : Prim2SF c = S754_finite false 4503599627370496 (e - 52) -> FR c = bpow radix2 e.
Proof.
  intros H. rewrite FR_SF, H. unfold SF2R, F2R. cbn [cond_Zopp Fnum Fexp].
  change 4503599627370496 with (Zpower radix2 52). rewrite IZR_Zpower by lia. rewrite <- bpow_plus.
  f_equal. lia.
Qed.

Lemma FR_c900 : FR c900 = bpow radix2 900. Proof. apply FR_pow2_const. vm_compute. reflexivity. Qed.
Lemma FR_c964 : FR c964 = bpow radix2 964. Proof. apply FR_pow2_const. vm_compute. reflexivity. Qed.
Lemma fin_c900 : fin c900. Proof. fin_c. Qed.
Lemma fin_c964 : fin c964. Proof. fin_c. Qed.

Lemma leb_leb_fin x y : PrimFloat.leb 0%float x = true -> PrimFloat.leb x y = true -> fin y -> fin x.
Proof.
  intros H0 H1 Fy. apply fin_B. apply fin_B in Fy. rewrite FP.leb_equiv in H0, H1.
  destruct (FP.Prim2B x) as [s|s| |s m e Hb]; try reflexivity.
  - destruct s; [discriminate H0|].
    destruct (FP.Prim2B y) as [s'|s'| |s' m' e' Hb']; try discriminate Fy; try destruct s'; discriminate H1.
  - discriminate H0.
Qed.

(* ---------- SurvivalThresh * float64(n) + 1 ---------- *)
Lemma survival_sum_R s n : PrimFloat.leb 0%float s = true -> PrimFloat.leb s c900 = true -> 1 <= n ->
  let a := PrimFloat.add (PrimFloat.mul s (f_of_Z n)) 1%float in fin a /\ (1 <= FR a)%R.
Proof.
  intros H0 H1 Hn a.
  assert (Fs : fin s) by exact (leb_leb_fin _ _ H0 H1 fin_c900).
  assert (S0 : (0 <= FR s)%R) by (rewrite <- FR_zero; apply leb_true_R; auto using fin_zero).
  assert (S1 : (FR s <= bpow radix2 900)%R) by (rewrite <- FR_c900; apply leb_true_R; auto using fin_c900).
  destruct (f_of_Z_pos_R n Hn) as [Fl [L0 L1]].
  assert (P963 : (bpow radix2 900 * bpow radix2 63 = bpow radix2 963)%R) by (rewrite <- bpow_plus; reflexivity).
  assert (P964 : (bpow radix2 964 = 2 * bpow radix2 963)%R) by (change 964 with (1 + 963); rewrite bpow_plus; reflexivity).
  assert (G1 : (1 <= bpow radix2 963)%R) by (change 1%R with (bpow radix2 0); apply bpow_le; lia).
  assert (Hq : (FR 0%float <= FR s * FR (f_of_Z n) <= FR c964)%R).
  { rewrite FR_zero, FR_c964. split; [nra|].
    apply Rle_trans with (bpow radix2 900 * bpow radix2 63)%R; [|lra].
    apply Rmult_le_compat; lra. }
  destruct (mul_R s (f_of_Z n) Fs Fl (rnd_no_overflow _ _ _ Hq)) as [Ep Fp].
  set (p := PrimFloat.mul s (f_of_Z n)) in *.
  assert (Pb : (0 <= FR p <= bpow radix2 963)%R).
  { rewrite Ep. split.
    - apply rnd_nonneg. nra.
    - rewrite <- (rnd_bpow 963) by lia. apply rnd_le. rewrite <- P963. apply Rmult_le_compat; lra. }
  assert (Hr : (FR 1%float <= FR p + FR 1%float <= FR c964)%R).
  { rewrite FR_one, FR_c964. lra. }
  destruct (add_R p 1%float Fp fin_one (rnd_no_overflow _ _ _ Hr)) as [Ea Fa].
  split; [exact Fa|]. fold a in Ea. rewrite Ea. apply rnd_between in Hr. rewrite FR_one in Hr |- *. apply Hr.
Qed.

(* int(math.Floor(a)) >= 1 for every finite 1 <= a < 2^63 *)
Lemma trunc_ffloor_ge1 a : fin a -> (1 <= FR a < bpow radix2 63)%R -> 1 <= f_trunc_Z (ffloor a).
Proof.
  intros Fa [A1 A63].
  assert (Hz : 1 <= Zfloor (FR a)) by (apply Zfloor_lub; exact A1).
  destruct (PrimFloat.leb two52 (PrimFloat.abs a)) eqn:E.
  - unfold ffloor. rewrite E. rewrite f_trunc_Z_floor by (try exact Fa; try exact A63; lra). exact Hz.
  - rewrite trunc_ffloor; [exact Hz|exact Fa|]. split; [lra|].
    rewrite leb_R in E by auto using fin_two52, fin_abs.
    rewrite FR_two52, FR_abs, Rabs_pos_eq in E by lra.
    revert E. case Rle_bool_spec; [discriminate|auto].
Qed.

(* ---------- SurvivalThresh * float64(n) + 1 for 0 <= SurvivalThresh <= 2^29, 1 <= n < 2^31 ---------- *)
Definition c29 : float := 0x1p+29%float.
Lemma FR_c29 : FR c29 = bpow radix2 29. Proof. apply FR_pow2_const. vm_compute. reflexivity. Qed.
Lemma fin_c29 : fin c29. Proof. fin_c. Qed.

Lemma survival_sum_small s n : PrimFloat.leb 0%float s = true -> PrimFloat.leb s c29 = true -> 1 <= n < 2 ^ 31 ->
  let a := PrimFloat.add (PrimFloat.mul s (f_of_Z n)) 1%float in fin a /\ (1 <= FR a <= bpow radix2 61)%R.
Proof.
  intros H0 H1 Hn a.
  assert (Fs : fin s) by exact (leb_leb_fin _ _ H0 H1 fin_c29).
  assert (S0 : (0 <= FR s)%R) by (rewrite <- FR_zero; apply leb_true_R; auto using fin_zero).
  assert (S1 : (FR s <= bpow radix2 29)%R) by (rewrite <- FR_c29; apply leb_true_R; auto using fin_c29).
  destruct (f_of_Z_exact n) as [Fl El]; [lia|].
  assert (L0 : (0 <= FR (f_of_Z n))%R) by (rewrite El; apply IZR_le; lia).
  assert (L1 : (FR (f_of_Z n) <= bpow radix2 31)%R).
  { rewrite El. rewrite <- (IZR_Zpower radix2 31) by lia. apply IZR_le. change (Zpower radix2 31) with (2 ^ 31). lia. }
  assert (P60 : (bpow radix2 29 * bpow radix2 31 = bpow radix2 60)%R) by (rewrite <- bpow_plus; reflexivity).
  assert (P61 : (bpow radix2 61 = 2 * bpow radix2 60)%R) by (change 61 with (1 + 60); rewrite bpow_plus; reflexivity).
  assert (G1 : (1 <= bpow radix2 60)%R) by (change 1%R with (bpow radix2 0); apply bpow_le; lia).
  assert (Lt : (bpow radix2 61 < two1024)%R) by (apply bpow_lt; unfold emax; lia).
  assert (Hprod : (0 <= FR s * FR (f_of_Z n) <= bpow radix2 60)%R).
  { split; [nra|]. rewrite <- P60. apply Rmult_le_compat; lra. }
  assert (Rp : (0 <= rnd (FR s * FR (f_of_Z n)) <= bpow radix2 60)%R).
  { split; [apply rnd_nonneg; apply Hprod|]. rewrite <- (rnd_bpow 60) by lia. apply rnd_le. apply Hprod. }
  destruct (mul_R s (f_of_Z n) Fs Fl) as [Ep Fp]; [rewrite Rabs_pos_eq by apply Rp; lra|].
  set (p := PrimFloat.mul s (f_of_Z n)) in *.
  assert (Rs : (1 <= rnd (FR p + FR 1%float) <= bpow radix2 61)%R).
  { rewrite FR_one, Ep. split.
    - replace 1%R with (rnd 1) at 1 by (change 1%R with (bpow radix2 0); apply rnd_bpow; lia). apply rnd_le. lra.
    - rewrite <- (rnd_bpow 61) by lia. apply rnd_le. lra. }
  destruct (add_R p 1%float Fp fin_one) as [Ea Fa]; [rewrite Rabs_pos_eq by lra; lra|].
  split; [exact Fa|]. fold a in Ea. rewrite Ea. exact Rs.
Qed.

(* ---------- the sufficient conditions ---------- *)
Lemma survivors_ok_bounded : forall o,
  PrimFloat.leb 0%float (o_survival o) = true -> PrimFloat.leb (o_survival o) 0x1p+29%float = true -> survivors_ok o.
Proof.
  intros o H0 H1 n Hn. unfold num_parents.
  destruct (survival_sum_small (o_survival o) n H0 H1 Hn) as [Fa [A1 A2]]. apply trunc_ffloor_ge1; [exact Fa|].
  split; [exact A1|]. apply Rle_lt_trans with (1 := A2). apply bpow_lt. lia.
Qed.

Lemma leb_1_c29 s : PrimFloat.leb 0%float s = true -> PrimFloat.leb s 1%float = true -> PrimFloat.leb s c29 = true.
Proof.
  intros H0 H1. assert (Fs : fin s) by exact (leb_leb_fin _ _ H0 H1 fin_one).
  apply leb_of_R; [exact Fs|exact fin_c29|]. rewrite FR_c29.
  apply Rle_trans with 1%R; [rewrite <- FR_one; apply leb_true_R; auto using fin_one|].
  change 1%R with (bpow radix2 0). apply bpow_le. lia.
Qed.

(* SurvivalThresh in [0,1] keeps at least the champion, for every species size below 2^31 *)
Lemma survivors_ok_unit : forall o,
  PrimFloat.leb 0%float (o_survival o) = true -> PrimFloat.leb (o_survival o) 1%float = true -> survivors_ok o.
Proof. intros o H0 H1. apply survivors_ok_bounded; [exact H0|]. now apply leb_1_c29. Qed.

Definition survivors_ok_upto (o : options) (N : Z) : Prop := forall n, 1 <= n <= N -> 1 <= num_parents o n.

Lemma survivors_ok_upto_nonneg : forall o,
  PrimFloat.leb 0%float (o_survival o) = true -> PrimFloat.leb (o_survival o) 1%float = true ->
  survivors_ok_upto o (2 ^ 31 - 1).
Proof. intros o H0 H1 n Hn. apply (survivors_ok_unit o H0 H1). lia. Qed.

(* "finite and >= 0 suffices" is false: 2^1023 * 2 overflows to +Inf, and int(+Inf) = math.MinInt64 *)
Lemma survivors_ok_overflow_refuted : forall o, o_survival o = 0x1p+1023%float ->
  PrimFloat.leb 0%float (o_survival o) = true /\ PrimFloat.ltb (o_survival o) infinity = true /\ ~ survivors_ok o /\
  num_parents o 2 = int64_indefinite.
Proof.
  intros o E. rewrite E. split; [vm_compute; reflexivity|]. split; [vm_compute; reflexivity|].
  assert (N : num_parents o 2 = int64_indefinite) by (unfold num_parents; rewrite E; vm_compute; reflexivity).
  split; [|exact N].
  intros H. specialize (H 2 ltac:(lia)). rewrite N in H. vm_compute in H. apply H. reflexivity.
Qed.

(* no bound on the species size: for SurvivalThresh = 1 a species of 2^63 - 1 organisms (the largest
   Go int) has float64(n) = 2^63, 1 * 2^63 + 1 = 2^63 and int(2^63) = math.MinInt64 *)
Lemma survivors_ok_unbounded_refuted : forall o, o_survival o = 1%float ->
  num_parents o (2 ^ 63 - 1) = int64_indefinite.
Proof. intros o E. unfold num_parents. rewrite E. vm_compute. reflexivity. Qed.
