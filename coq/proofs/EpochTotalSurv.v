(* C02, binary64: a concrete sufficient condition for [survivors_ok] (PopNoErr.v), "the survival
   threshold keeps at least the champion of every species":
     int(math.Floor(SurvivalThresh * float64(n) + 1)) >= 1   for every n >= 1.
   NOT true for every finite SurvivalThresh >= 0: in the model (as in Go, where int(+Inf) is
   implementation-defined) the product may overflow to +Inf, e.g. SurvivalThresh = 2^1023, n = 2
   gives +Inf, math.Floor(+Inf) = +Inf and the model's int(+Inf) = 0 ([survivors_ok_overflow_refuted]).
   True for every n (also n >= 2^63, where float64(n) wraps through Uint63.of_Z but stays in
   [0, 2^63]) as soon as 0 <= SurvivalThresh <= 2^900, in particular for SurvivalThresh in [0,1]. *)
From Coq Require Import ZArith Reals Lra Lia Bool List.
From Flocq Require Import Core BinarySingleNaN.
From Coq Require Import Floats.
From Coq Require Uint63.
From NeatModel Require Import ActFloatBase.
From NeatModel Require Import Res F64 GoRand Genome Options Population PopNoErr EpochTotalDefs EpochTotalFloat.
Import ListNotations.
Open Scope Z_scope.

(* ---------- float64(n) for an arbitrary n >= 1 ---------- *)
Lemma of_uint63_f_of_Z i : PrimFloat.of_uint63 i = f_of_Z (Uint63.to_Z i).
Proof.
  rewrite <- (Uint63.of_to_Z i) at 1. destruct (Uint63.to_Z i) as [|q|q] eqn:E.
  - vm_compute. reflexivity.
  - cbn [f_of_Z]. exact eq_refl.
  - pose proof (Uint63.to_Z_bounded i). lia.
Qed.

Lemma f_of_Z_pos_R n : 1 <= n -> fin (f_of_Z n) /\ (0 <= FR (f_of_Z n) <= bpow radix2 63)%R.
Proof.
  intros Hn. destruct n as [|p|p]; try lia. cbn [f_of_Z]. rewrite of_uint63_f_of_Z.
  pose proof (Uint63.to_Z_bounded (Uint63.of_Z (Z.pos p))) as Hb. change Uint63.wB with (2 ^ 63) in Hb.
  destruct (f_of_Z_R _ Hb) as (F & E & B). split; [exact F|]. rewrite E. exact B.
Qed.

(* ---------- powers of two as float constants ---------- *)
Definition c900 : float := 0x1p+900%float.
Definition c964 : float := 0x1p+964%float.

Lemma FR_pow2_const c e : Prim2SF c = S754_finite false 4503599627370496 (e - 52) -> FR c = bpow radix2 e.
Proof.
  intros H. rewrite FR_SF, H. unfold SF2R, F2R. cbn [cond_Zopp Fnum Fexp].
  change 4503599627370496 with (Zpower radix2 52). rewrite IZR_Zpower by lia. rewrite <- bpow_plus.
  f_equal. lia.
Qed.

Lemma FR_c900 : FR c900 = bpow radix2 900. Proof. apply FR_pow2_const. vm_compute. reflexivity. Qed.
Lemma FR_c964 : FR c964 = bpow radix2 964. Proof. apply FR_pow2_const. vm_compute. reflexivity. Qed.
Lemma fin_c900 : fin c900. Proof. fin_c. Qed.
Lemma fin_c964 : fin c964. Proof. fin_c. Qed.

Lemma leb_leb_fin x y : PrimFloat.leb 0%float x = true -> PrimFloat.leb x y = true -> fin y -> fin x.
Proof.
  intros H0 H1 Fy. apply fin_B. apply fin_B in Fy. rewrite FP.leb_equiv in H0, H1.
  destruct (FP.Prim2B x) as [s|s| |s m e Hb]; try reflexivity.
  - destruct s; [discriminate H0|].
    destruct (FP.Prim2B y) as [s'|s'| |s' m' e' Hb']; try discriminate Fy; try destruct s'; discriminate H1.
  - discriminate H0.
Qed.

(* ---------- SurvivalThresh * float64(n) + 1 ---------- *)
Lemma survival_sum_R s n : PrimFloat.leb 0%float s = true -> PrimFloat.leb s c900 = true -> 1 <= n ->
  let a := PrimFloat.add (PrimFloat.mul s (f_of_Z n)) 1%float in fin a /\ (1 <= FR a)%R.
Proof.
  intros H0 H1 Hn a.
  assert (Fs : fin s) by exact (leb_leb_fin _ _ H0 H1 fin_c900).
  assert (S0 : (0 <= FR s)%R) by (rewrite <- FR_zero; apply leb_true_R; auto using fin_zero).
  assert (S1 : (FR s <= bpow radix2 900)%R) by (rewrite <- FR_c900; apply leb_true_R; auto using fin_c900).
  destruct (f_of_Z_pos_R n Hn) as [Fl [L0 L1]].
  assert (P963 : (bpow radix2 900 * bpow radix2 63 = bpow radix2 963)%R) by (rewrite <- bpow_plus; reflexivity).
  assert (P964 : (bpow radix2 964 = 2 * bpow radix2 963)%R) by (change 964 with (1 + 963); rewrite bpow_plus; reflexivity).
  assert (G1 : (1 <= bpow radix2 963)%R) by (change 1%R with (bpow radix2 0); apply bpow_le; lia).
  assert (Hq : (FR 0%float <= FR s * FR (f_of_Z n) <= FR c964)%R).
  { rewrite FR_zero, FR_c964. split; [nra|].
    apply Rle_trans with (bpow radix2 900 * bpow radix2 63)%R; [|lra].
    apply Rmult_le_compat; lra. }
  destruct (mul_R s (f_of_Z n) Fs Fl (rnd_no_overflow _ _ _ Hq)) as [Ep Fp].
  set (p := PrimFloat.mul s (f_of_Z n)) in *.
  assert (Pb : (0 <= FR p <= bpow radix2 963)%R).
  { rewrite Ep. split.
    - apply rnd_nonneg. nra.
    - rewrite <- (rnd_bpow 963) by lia. apply rnd_le. rewrite <- P963. apply Rmult_le_compat; lra. }
  assert (Hr : (FR 1%float <= FR p + FR 1%float <= FR c964)%R).
  { rewrite FR_one, FR_c964. lra. }
  destruct (add_R p 1%float Fp fin_one (rnd_no_overflow _ _ _ Hr)) as [Ea Fa].
  split; [exact Fa|]. fold a in Ea. rewrite Ea. apply rnd_between in Hr. rewrite FR_one in Hr |- *. apply Hr.
Qed.

(* int(math.Floor(a)) >= 1 for every finite a >= 1 *)
Lemma trunc_ffloor_ge1 a : fin a -> (1 <= FR a)%R -> 1 <= f_trunc_Z (ffloor a).
Proof.
  intros Fa A1.
  assert (Hz : 1 <= Zfloor (FR a)) by (apply Zfloor_lub; exact A1).
  destruct (PrimFloat.leb two52 (PrimFloat.abs a)) eqn:E.
  - unfold ffloor. rewrite E. rewrite f_trunc_Z_floor by (try exact Fa; lra). exact Hz.
  - rewrite trunc_ffloor; [exact Hz|exact Fa|]. split; [lra|].
    rewrite leb_R in E by auto using fin_two52, fin_abs.
    rewrite FR_two52, FR_abs, Rabs_pos_eq in E by lra.
    revert E. case Rle_bool_spec; [discriminate|auto].
Qed.

(* ---------- the sufficient conditions ---------- *)
Lemma survivors_ok_bounded : forall o,
  PrimFloat.leb 0%float (o_survival o) = true -> PrimFloat.leb (o_survival o) 0x1p+900%float = true -> survivors_ok o.
Proof.
  intros o H0 H1 n Hn. unfold num_parents.
  destruct (survival_sum_R (o_survival o) n H0 H1 Hn) as [Fa A1]. now apply trunc_ffloor_ge1.
Qed.

Lemma leb_1_c900 s : PrimFloat.leb 0%float s = true -> PrimFloat.leb s 1%float = true -> PrimFloat.leb s c900 = true.
Proof.
  intros H0 H1. assert (Fs : fin s) by exact (leb_leb_fin _ _ H0 H1 fin_one).
  apply leb_of_R; [exact Fs|exact fin_c900|]. rewrite FR_c900.
  apply Rle_trans with 1%R; [rewrite <- FR_one; apply leb_true_R; auto using fin_one|].
  change 1%R with (bpow radix2 0). apply bpow_le. lia.
Qed.

(* SurvivalThresh in [0,1] keeps at least the champion, for every species size *)
Lemma survivors_ok_unit : forall o,
  PrimFloat.leb 0%float (o_survival o) = true -> PrimFloat.leb (o_survival o) 1%float = true -> survivors_ok o.
Proof. intros o H0 H1. apply survivors_ok_bounded; [exact H0|]. now apply leb_1_c900. Qed.

Definition survivors_ok_upto (o : options) (N : Z) : Prop := forall n, 1 <= n <= N -> 1 <= num_parents o n.

Lemma survivors_ok_upto_nonneg : forall o,
  PrimFloat.leb 0%float (o_survival o) = true -> PrimFloat.leb (o_survival o) 1%float = true ->
  survivors_ok_upto o (2 ^ 31).
Proof. intros o H0 H1 n Hn. apply (survivors_ok_unit o H0 H1). lia. Qed.

(* the unbounded statement "finite and >= 0 suffices" is false in the model: 2^1023 * 2 overflows *)
Lemma survivors_ok_overflow_refuted : forall o, o_survival o = 0x1p+1023%float ->
  PrimFloat.leb 0%float (o_survival o) = true /\ PrimFloat.ltb (o_survival o) infinity = true /\ ~ survivors_ok o.
Proof.
  intros o E. rewrite E. split; [vm_compute; reflexivity|]. split; [vm_compute; reflexivity|].
  intros H. specialize (H 2 ltac:(lia)). unfold num_parents in H. rewrite E in H. vm_compute in H. apply H. reflexivity.
Qed.
