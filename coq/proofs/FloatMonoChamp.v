(* C10 without the order-preservation hypothesis: the fitness adjustment is monotone (FloatMono.v), so
   the champion of a species has maximal raw fitness UP TO ties of the adjusted values; the float
   side conditions of ChampWho.species_hyps (numParents >= 1, adjusted fitness not NaN) follow from
   hypotheses on the inputs. *)
From NeatModel Require Import Compat.
From NeatModel Require Import Res F64 GoRand Genome Options Population MonadLemmas WF
     ChampHeap ChampSpec ChampPrepare ChampEpoch ChampSort ChampWho ChampHistory.
From NeatModel Require Import FloatMono.
From Coq Require Import Lia Floats.

(* SurvivalThresh in [0, 2^29]; AgeSignificance positive and finite.  (With species of fewer than 2^31
   members SurvivalThresh * float64(n) + 1 stays below 2^61, inside the range in which int(x) truncates;
   from 2^63 on the amd64 conversion yields math.MinInt64 and adjustFitness panics: F64.f_trunc_Z.) *)
Definition opts_float_ok (o : options) : Prop :=
  PrimFloat.leb 0%float (o_survival o) = true /\ PrimFloat.leb (o_survival o) 0x1p+29%float = true /\
  PrimFloat.ltb 0%float (o_age_sig o) = true /\ PrimFloat.ltb (o_age_sig o) infinity = true.

(* members listed once, fewer than 2^31 of them, none marked for elimination, raw fitness >= 0
   (not NaN, +infinity allowed), highest fitness not NaN *)
Definition species_inputs_ok (h : list organism) (s : species) : Prop :=
  NoDup (sp_orgs s) /\ zlen (sp_orgs s) < 2 ^ 31 /\
  forall k x, In k (sp_orgs s) -> hget h k = Ok x ->
              o_elim x = false /\ PrimFloat.leb 0%float (o_fit x) = true /\ PrimFloat.is_nan (o_highest x) = false.

Lemma ltb_leb x y : PrimFloat.ltb x y = true -> PrimFloat.leb x y = true.
Proof.
  rewrite ltb_spec, leb_spec. unfold SFltb, SFleb. destruct (SFcompare _ _) as [[| |]|]; congruence.
Qed.

Lemma zlen_member {A} (l : list A) k : In k l -> 1 <= zlen l.
Proof. unfold zlen. destruct l; [intros []|cbn [length]; lia]. Qed.

Lemma adjusted_fit_eq o s x : o_fit (adjusted o s x) = adj_fit o (sp_age s) (adj_debt o s) (zlen (sp_orgs s)) (o_fit x).
Proof. reflexivity. Qed.

(* the adjustment is monotone within a species *)
Lemma adjusted_mono o s a b :
  PrimFloat.ltb 0%float (o_age_sig o) = true -> PrimFloat.ltb (o_age_sig o) infinity = true ->
  1 <= zlen (sp_orgs s) < 2 ^ 63 ->
  PrimFloat.leb 0%float (o_fit a) = true -> PrimFloat.leb (o_fit a) (o_fit b) = true ->
  PrimFloat.leb 0%float (o_fit (adjusted o s a)) = true /\
  PrimFloat.leb (o_fit (adjusted o s a)) (o_fit (adjusted o s b)) = true.
Proof.
  intros S0 S1 Hn Ha Hab. rewrite !adjusted_fit_eq. apply adj_fit_mono; auto.
Qed.

Lemma species_hyps_of_inputs o h s : opts_float_ok o -> species_inputs_ok h s -> species_hyps o h s.
Proof.
  intros (T0 & T1 & S0 & S1) (Hnd & Hlen & Hm). split; [exact Hnd|]. split.
  - change (num_parents o (zlen (sp_orgs s))) with (np_of (o_survival o) (zlen (sp_orgs s))).
    apply (np_of_small (o_survival o) (zlen (sp_orgs s)) T0 T1). unfold zlen in *. lia.
  - intros k x Hk Hx. destruct (Hm k x Hk Hx) as (E & F & Hh). split; [exact E|]. split.
    + apply ext_not_nan, ext_iff.
      apply (adjusted_mono o s x x S0 S1); [split; [exact (zlen_member _ k Hk)|lia]|exact F|].
      apply ext_leb_refl, ext_iff, F.
    + exact Hh.
Qed.

Lemma org_lt_false_fit a b : org_lt a b = false -> PrimFloat.ltb (o_fit a) (o_fit b) = false.
Proof. unfold org_lt. destruct (PrimFloat.ltb (o_fit a) (o_fit b)); [discriminate|reflexivity]. Qed.

(* The champion's raw fitness is maximal up to rounding ties: no member of its species has a
   strictly greater ADJUSTED fitness, and a member with strictly greater RAW fitness has an equal
   adjusted fitness. *)
Theorem champion_raw_up_to_rounding o p st p1 sorted best st1 :
  prepare o p st = Ok ((p1, sorted, best), st1) ->
  0 <= o_pop_size o ->
  ids_nodup (p_species p) -> members_ok (p_heap p) (p_species p) -> S0 (p_heap p) ->
  opts_float_ok o ->
  (forall s, In s (p_species p) -> species_inputs_ok (p_heap p) s) ->
  forall sp champ, In sp (p_species p1) -> first_org (p_heap p1) sp = Ok champ ->
    exists s0 xc, In s0 (p_species p) /\ sp_id s0 = sp_id sp /\ In (o_key champ) (sp_orgs s0) /\
      hget (p_heap p) (o_key champ) = Ok xc /\ o_genome champ = o_genome xc /\
      forall k x, In k (sp_orgs s0) -> hget (p_heap p) k = Ok x ->
        PrimFloat.ltb (o_fit (adjusted o s0 xc)) (o_fit (adjusted o s0 x)) = false /\
        (PrimFloat.ltb (o_fit xc) (o_fit x) = true ->
         PrimFloat.eqb (o_fit (adjusted o s0 xc)) (o_fit (adjusted o s0 x)) = true).
Proof.
  intros H Hpop Hnd Hm Hs0 Hopt Hin sp champ Hsp Hfirst.
  assert (Hhyp : forall s, In s (p_species p) -> species_hyps o (p_heap p) s).
  { intros s Hs. apply species_hyps_of_inputs; auto. }
  destruct (prepare_champion _ _ _ _ _ _ _ H Hpop Hnd Hm Hs0 Hhyp sp champ Hsp Hfirst) as [s0 [Hs0' [Eid [Hck [_ Hall]]]]].
  destruct (Hm s0 _ Hs0' Hck) as [xc [Hxc _]].
  destruct (Hall _ xc Hck Hxc) as [yc [Hyc [Oc [Fc [Hc _]]]]].
  pose proof (prepare_frame _ _ _ _ _ _ _ H Hpop Hnd Hm Hs0) as [_ _ _ Ph _ _].
  destruct (heap_rel_gs_fwd _ _ _ _ Ph Hxc) as [c' [Hc' [Eg _]]].
  destruct (first_org_member _ _ _ Hfirst) as [_ Hcg]. rewrite Hcg in Hc'. injection Hc' as <-.
  rewrite Hcg in Hyc. injection Hyc as <-.
  exists s0, xc. split; [exact Hs0'|]. split; [exact Eid|]. split; [exact Hck|]. split; [exact Hxc|]. split; [exact Eg|].
  intros k x Hk Hx. destruct (Hall k x Hk Hx) as [y [_ [_ [Fy [_ Hy]]]]].
  apply org_lt_false_fit in Hy. rewrite Fc, Fy in Hy. split; [exact Hy|]. intros Hlt.
  destruct Hopt as (_ & _ & A0 & A1). destruct (Hin s0 Hs0') as (_ & Hlen & Hmem).
  destruct (Hmem _ xc Hck Hxc) as (_ & Fxc & _).
  destruct (adjusted_mono o s0 xc x A0 A1) as [E1 E2];
    [split; [exact (zlen_member _ _ Hck)|lia]|exact Fxc|now apply ltb_leb|].
  apply leb_not_ltb_eqb; [now apply ext_iff|exact E2|exact Hy].
Qed.

(* The organism [xb] strictly fitter (raw fitness) than every other member of its species: the
   champion's adjusted fitness EQUALS xb's; the champion is xb itself or a less fit organism that
   ties with it after rounding; the champion's genome is in the next population when the quota
   exceeds five; and if no other member ties with xb after rounding, the champion is xb. *)
Theorem best_of_species_up_to_rounding o gen p x st p' x' st' :
  next_epoch o gen p x st = Ok ((p', x'), st') ->
  pop_ok p ->
  opts_float_ok o ->
  (forall s, In s (p_species p) -> species_inputs_ok (p_heap p) s) ->
  exists p1 sorted best st1,
    prepare o p st = Ok ((p1, sorted, best), st1) /\
    forall s0 kb xb sp champ,
      In s0 (p_species p) -> In kb (sp_orgs s0) -> hget (p_heap p) kb = Ok xb ->
      (forall k y, In k (sp_orgs s0) -> hget (p_heap p) k = Ok y -> k <> kb -> PrimFloat.ltb (o_fit y) (o_fit xb) = true) ->
      In sp (p_species p1) -> sp_id sp = sp_id s0 -> first_org (p_heap p1) sp = Ok champ ->
      exists xc, In (o_key champ) (sp_orgs s0) /\ hget (p_heap p) (o_key champ) = Ok xc /\ o_genome champ = o_genome xc /\
        PrimFloat.eqb (o_fit (adjusted o s0 xc)) (o_fit (adjusted o s0 xb)) = true /\
        (o_key champ = kb \/ PrimFloat.ltb (o_fit xc) (o_fit xb) = true) /\
        (sp_exp sp > 5 -> refs_ok (o_genome xc) -> present (o_genome xc) p') /\
        ((forall k y, In k (sp_orgs s0) -> hget (p_heap p) k = Ok y -> k <> kb ->
                      PrimFloat.eqb (o_fit (adjusted o s0 y)) (o_fit (adjusted o s0 xb)) = false) ->
         o_key champ = kb /\ xc = xb).
Proof.
  intros H Hwf Hopt Hin. destruct (next_epoch_inv _ _ _ _ _ _ _ _ H) as [p1 [sorted [best [st1 [p2 [st2 [H1 [H2 H3]]]]]]]].
  exists p1, sorted, best, st1. split; [exact H1|].
  intros s0 kb xb sp champ Hs0 Hkb Hxb Hbest Hsp Eid Hfirst.
  pose proof (reproduce_pop_size _ _ _ _ _ _ _ _ _ H2) as Hpop.
  destruct Hwf as [Wi Wm Ws Wk Wo].
  destruct (champion_raw_up_to_rounding _ _ _ _ _ _ _ H1 Hpop Wi Wm Ws Hopt Hin sp champ Hsp Hfirst)
    as [s0' [xc [Hs0' [Eid' [Hck [Hxc [Eg Hmax]]]]]]].
  assert (s0' = s0) by (apply (ids_nodup_eq (p_species p)); try assumption; congruence). subst s0'.
  exists xc. split; [exact Hck|]. split; [exact Hxc|]. split; [exact Eg|].
  destruct (Hmax kb xb Hkb Hxb) as [M1 M2].
  assert (Hcase : o_key champ = kb \/ PrimFloat.ltb (o_fit xc) (o_fit xb) = true).
  { destruct (Z.eq_dec (o_key champ) kb) as [E|Hne]; [now left|right]. exact (Hbest _ xc Hck Hxc Hne). }
  assert (Heq : PrimFloat.eqb (o_fit (adjusted o s0 xc)) (o_fit (adjusted o s0 xb)) = true).
  { destruct Hcase as [E|Hlt]; [|exact (M2 Hlt)].
    rewrite E, Hxb in Hxc. injection Hxc as <-.
    destruct Hopt as (_ & _ & A0 & A1). destruct (Hin s0 Hs0) as (_ & Hlen & Hmem).
    destruct (Hmem _ xb Hkb Hxb) as (_ & Fxb & _).
    destruct (adjusted_mono o s0 xb xb A0 A1) as [E1 E2];
      [split; [exact (zlen_member _ _ Hkb)|lia]|exact Fxb|apply ext_leb_refl, ext_iff, Fxb|].
    apply leb_not_ltb_eqb; [now apply ext_iff|exact E2|exact M1]. }
  split; [exact Heq|]. split; [exact Hcase|]. split.
  - intros Hexp Hrefs. rewrite <- Eg.
    apply (champ_survives_epoch _ _ _ _ _ _ _ _ _ _ _ _ _ _ H1 H2 H3 (Build_pop_ok _ Wi Wm Ws Wk Wo) sp champ Hsp Hexp Hfirst).
    now rewrite Eg.
  - intros Hnotie.
    assert (Ek : o_key champ = kb).
    { destruct (Z.eq_dec (o_key champ) kb) as [E|Hne]; [exact E|]. exfalso.
      rewrite (Hnotie _ xc Hck Hxc Hne) in Heq. discriminate. }
    split; [exact Ek|]. rewrite Ek, Hxb in Hxc. now injection Hxc.
Qed.

(* the monotonicity FAILS for negative raw fitness: -1 is adjusted to 0.0001/n, which exceeds the
   adjusted value 0 of the larger raw fitness 0 (NEAT requires fitness >= 0) *)
Lemma adj_fit_negative_not_monotone o :
  PrimFloat.ltb (-1)%float 0%float = true /\
  PrimFloat.ltb (adj_fit o 20 0 4 0%float) (adj_fit o 20 0 4 (-1)%float) = true.
Proof. split; vm_compute; reflexivity. Qed.
