(* C18, float level, libm-free activations: linear, abs, clipped linear, null, sign, step, the two
   piecewise-quadratic sigmoid approximations and the inverse-abs sigmoid, as evaluated in binary64.
   For every finite input (inverse-abs: |x| <= 1e300) the result is finite, lies in the documented
   range, equals the documented real definition with each arithmetic operation rounded to nearest
   even, and -- except for the inverse-abs sigmoid, which is refuted by a witness -- is monotonically
   non-decreasing in the numeric order on floats. *)
From Coq Require Import ZArith Reals Lra Lia Bool List.
From Flocq Require Import Core BinarySingleNaN.
From Coq Require Import Floats.
From NeatModel Require Import Res F64 ActRegistry Act ActReal ActFloatBase.
Open Scope R_scope.

(* libm-free functions never look at the library: their value is the same under every interpretation *)
Definition value_of (c : comp) : float := run (fun _ _ _ => nan) c.

Lemma run_Done : forall L v, run L (Done v) = v.
Proof. reflexivity. Qed.

(* the property's domain: |x| <= 1e300 *)
Definition in_domain (x : float) : Prop := (abs x <=? c_1e300)%float = true.

Lemma in_domain_fin : forall x, in_domain x -> fin x.
Proof.
  intros x H. unfold in_domain in H. apply fin_B.
  rewrite FP.leb_equiv, FP.abs_equiv in H.
  destruct (FP.Prim2B x) as [s|s| |s m e Hb]; try reflexivity.
  - destruct s; vm_compute in H; discriminate.
  - vm_compute in H. discriminate.
Qed.

Lemma fin_c_1e300 : fin c_1e300. Proof. fin_c. Qed.
Lemma fin_c_max : fin c_max_float64. Proof. fin_c. Qed.

Lemma in_domain_R : forall x, in_domain x -> Rabs (FR x) <= FR c_1e300.
Proof.
  intros x H. pose proof (in_domain_fin x H) as Hf.
  unfold in_domain in H. apply leb_true_R in H; [|now apply fin_abs|apply fin_c_1e300].
  now rewrite FR_abs in H.
Qed.

(* numeric order on finite floats is the order of their real values *)
Lemma leb_iff_R : forall x y, fin x -> fin y -> ((x <=? y)%float = true <-> FR x <= FR y).
Proof. intros x y Hx Hy. split; [now apply leb_true_R | now apply leb_of_R]. Qed.

Lemma fin_zero : fin 0%float. Proof. fin_c. Qed.
Lemma fin_one : fin 1%float. Proof. fin_c. Qed.
Lemma fin_mone : fin (-1)%float. Proof. fin_c. Qed.
Lemma fin_half : fin c_half. Proof. fin_c. Qed.

(* ------------------------------------------------------------------------------------------ *)
(* linear, abs, null                                                                           *)
(* ------------------------------------------------------------------------------------------ *)
Lemma linear_float : forall L x, run L (linear x) = x.
Proof. reflexivity. Qed.

Lemma absoluteLinear_float : forall L x, fin x ->
    fin (run L (absoluteLinear x)) /\ FR (run L (absoluteLinear x)) = absoluteLinear_R (FR x)
    /\ 0 <= FR (run L (absoluteLinear x)).
Proof.
  intros L x H. simpl. split; [now apply fin_abs|]. rewrite FR_abs. split; [reflexivity|apply Rabs_pos].
Qed.

Lemma nullFunctor_float : forall L x, run L (nullFunctor x) = 0%float.
Proof. reflexivity. Qed.

(* ------------------------------------------------------------------------------------------ *)
(* clipped linear                                                                              *)
(* ------------------------------------------------------------------------------------------ *)
Lemma clippedLinear_float : forall L x, fin x ->
    fin (run L (clippedLinear x)) /\ FR (run L (clippedLinear x)) = clippedLinear_R (FR x).
Proof.
  intros L x H. simpl. unfold clippedLinear_R.
  rewrite (ltb_R x (-1)%float H fin_mone), (ltb_R 1%float x fin_one H), FR_mone, FR_one.
  destruct (Rlt_bool_spec (FR x) (-1)) as [A|A]; destruct (Rlt_dec (FR x) (-1)) as [A'|A']; try lra.
  - split; [apply fin_mone|apply FR_mone].
  - destruct (Rlt_bool_spec 1 (FR x)) as [B|B]; destruct (Rlt_dec 1 (FR x)) as [B'|B']; try lra.
    + split; [apply fin_one|apply FR_one].
    + split; [assumption|reflexivity].
Qed.

Lemma clippedLinear_float_range : forall L x, fin x -> -1 <= FR (run L (clippedLinear x)) <= 1.
Proof.
  intros L x H. destruct (clippedLinear_float L x H) as [_ ->].
  pose proof (ActReal.clippedLinear_range (FR x)). lra.
Qed.

Lemma clippedLinear_float_mono : forall L x y, fin x -> fin y -> (x <=? y)%float = true ->
    (run L (clippedLinear x) <=? run L (clippedLinear y))%float = true.
Proof.
  intros L x y Hx Hy H.
  destruct (clippedLinear_float L x Hx) as [Fx Ex]. destruct (clippedLinear_float L y Hy) as [Fy Ey].
  apply leb_of_R; try assumption. rewrite Ex, Ey.
  apply ActReal.clippedLinear_mono. now apply leb_true_R.
Qed.

(* ------------------------------------------------------------------------------------------ *)
(* step: input < 0 ? 0 : 1, so step(-0) = step(+0) = 1                                         *)
(* ------------------------------------------------------------------------------------------ *)
Lemma stepFunction_float : forall L x, fin x ->
    fin (run L (stepFunction x)) /\ FR (run L (stepFunction x)) = stepFunction_R (FR x).
Proof.
  intros L x H. simpl. unfold stepFunction_R.
  rewrite (ltb_R x 0%float H fin_zero), FR_zero.
  destruct (Rlt_bool_spec (FR x) 0) as [A|A]; destruct (Rlt_dec (FR x) 0) as [A'|A']; try lra.
  - split; [apply fin_zero|apply FR_zero].
  - split; [apply fin_one|apply FR_one].
Qed.

Lemma stepFunction_float_values : forall L x,
    run L (stepFunction x) = 0%float \/ run L (stepFunction x) = 1%float.
Proof. intros L x. simpl. destruct (x <? 0)%float; tauto. Qed.

Lemma stepFunction_float_mono : forall L x y, fin x -> fin y -> (x <=? y)%float = true ->
    (run L (stepFunction x) <=? run L (stepFunction y))%float = true.
Proof.
  intros L x y Hx Hy H.
  destruct (stepFunction_float L x Hx) as [Fx Ex]. destruct (stepFunction_float L y Hy) as [Fy Ey].
  apply leb_of_R; try assumption. rewrite Ex, Ey.
  apply ActReal.stepFunction_mono. now apply leb_true_R.
Qed.

Lemma stepFunction_signed_zeros : forall L,
    run L (stepFunction (-0)%float) = 1%float /\ run L (stepFunction 0%float) = 1%float.
Proof. intros L. split; reflexivity. Qed.

(* ------------------------------------------------------------------------------------------ *)
(* sign                                                                                        *)
(* ------------------------------------------------------------------------------------------ *)
Lemma fin_not_nan : forall x, fin x -> is_nan x = false.
Proof.
  intros x H. apply fin_B in H. rewrite FP.is_nan_equiv.
  destruct (FP.Prim2B x); try reflexivity; discriminate.
Qed.

Lemma signbit_R : forall x, fin x -> FR x <> 0 -> f_signbit x = Rlt_bool (FR x) 0.
Proof.
  intros x H Hnz. unfold f_signbit. rewrite FR_SF in *. apply fin_B in H.
  rewrite <- FP.B2SF_Prim2B in *.
  destruct (FP.Prim2B x) as [s|s| |s m e Hb]; simpl in *; try discriminate; try lra.
  destruct s; simpl.
  - symmetry. apply Rlt_bool_true. apply F2R_lt_0. simpl. lia.
  - symmetry. apply Rlt_bool_false. left. apply F2R_gt_0. simpl. lia.
Qed.

Lemma signFunction_float : forall L x, fin x ->
    fin (run L (signFunction x)) /\ FR (run L (signFunction x)) = signFunction_R (FR x).
Proof.
  intros L x H. simpl. unfold signFunction_R.
  rewrite (fin_not_nan x H), (eqb_R x 0%float H fin_zero), FR_zero. simpl.
  destruct (Req_bool_spec (FR x) 0) as [A|A]; destruct (Req_EM_T (FR x) 0) as [A'|A']; try contradiction.
  - split; [apply fin_zero|apply FR_zero].
  - rewrite (signbit_R x H A).
    destruct (Rlt_bool_spec (FR x) 0) as [B|B]; destruct (Rlt_dec (FR x) 0) as [B'|B']; try lra.
    + split; [apply fin_mone|apply FR_mone].
    + split; [apply fin_one|apply FR_one].
Qed.

(* ------------------------------------------------------------------------------------------ *)
(* the piecewise-quadratic sigmoid approximations, generically in breakpoint b and scale s      *)
(* ------------------------------------------------------------------------------------------ *)
Section Poly.
Variables b s b2 : float.
Hypothesis fin_b : fin b.
Hypothesis fin_s : fin s.
Hypothesis fin_b2 : fin b2.
Hypothesis b_pos : 0 < FR b.
Hypothesis s_pos : 0 < FR s.
Hypothesis b2_eq : FR b2 = FR b * FR b.
Hypothesis half_eq : FR b2 * FR s = 0.5.

Definition poly (x : float) : float :=
  (if x <? - b then 0
   else if x <? 0 then (x + b) * (x + b) * s
   else if x <? b then 1 - (x - b) * (x - b) * s
   else 1)%float.

(* the same over R with every operation rounded *)
Definition Lp (X : R) : R := rnd (rnd (rnd (X + FR b) * rnd (X + FR b)) * FR s).
Definition Rp (X : R) : R := rnd (1 - rnd (rnd (rnd (X - FR b) * rnd (X - FR b)) * FR s)).
Definition poly_rnd (X : R) : R :=
  if Rlt_dec X (- FR b) then 0 else if Rlt_dec X 0 then Lp X else if Rlt_dec X (FR b) then Rp X else 1.

Let fin_mb : fin (- b)%float := fin_opp b fin_b.

(* [t] in [lo,hi] given as floats *)
Ltac between lo hi := apply (rnd_between _ lo hi).

Lemma sq_scale_bounds : forall T, - FR b <= T <= FR b ->
    0 <= rnd (T * T) <= FR b2 /\ 0 <= rnd (rnd (T * T) * FR s) <= 0.5.
Proof.
  intros T HT.
  assert (A : 0 <= rnd (T * T) <= FR b2).
  { rewrite <- FR_zero. apply rnd_between. rewrite FR_zero, b2_eq. nra. }
  split; [exact A|].
  rewrite <- FR_zero, <- FR_half. apply rnd_between. rewrite FR_zero, FR_half, <- half_eq. nra.
Qed.

Lemma Lp_bounds : forall X, - FR b <= X <= 0 -> 0 <= Lp X <= 0.5.
Proof.
  intros X HX. unfold Lp.
  assert (T : 0 <= rnd (X + FR b) <= FR b).
  { rewrite <- FR_zero at 1. apply rnd_between. rewrite FR_zero. lra. }
  apply sq_scale_bounds. lra.
Qed.

Lemma Rp_bounds : forall X, 0 <= X <= FR b -> 0.5 <= Rp X <= 1.
Proof.
  intros X HX. unfold Rp.
  assert (T : - FR b <= rnd (X - FR b) <= 0).
  { rewrite <- FR_zero, <- FR_opp. apply rnd_between. rewrite FR_zero, FR_opp. lra. }
  destruct (sq_scale_bounds (rnd (X - FR b))) as [_ V]; [lra|].
  rewrite <- FR_half, <- FR_one. apply rnd_between. rewrite FR_half, FR_one. lra.
Qed.

Lemma Lp_mono : forall X Y, - FR b <= X -> X <= Y -> Y <= 0 -> Lp X <= Lp Y.
Proof.
  intros X Y H1 H2 H3. unfold Lp.
  assert (TX : 0 <= rnd (X + FR b)).
  { rewrite <- rnd_0. apply rnd_le. lra. }
  assert (TXY : rnd (X + FR b) <= rnd (Y + FR b)) by (apply rnd_le; lra).
  apply rnd_le. apply Rmult_le_compat_r; [lra|]. apply rnd_le. nra.
Qed.

Lemma Rp_mono : forall X Y, 0 <= X -> X <= Y -> Y <= FR b -> Rp X <= Rp Y.
Proof.
  intros X Y H1 H2 H3. unfold Rp.
  assert (TY : rnd (Y - FR b) <= 0).
  { rewrite <- rnd_0. apply rnd_le. lra. }
  assert (TXY : rnd (X - FR b) <= rnd (Y - FR b)) by (apply rnd_le; lra).
  apply rnd_le.
  assert (rnd (rnd (rnd (Y - FR b) * rnd (Y - FR b)) * FR s) <= rnd (rnd (rnd (X - FR b) * rnd (X - FR b)) * FR s)).
  { apply rnd_le. apply Rmult_le_compat_r; [lra|]. apply rnd_le. nra. }
  lra.
Qed.

(* square-and-scale on floats *)
Lemma sq_scale_float : forall t, fin t -> - FR b <= FR t <= FR b ->
    fin (t * t * s)%float /\ FR (t * t * s)%float = rnd (rnd (FR t * FR t) * FR s).
Proof.
  intros t Ht HT.
  destruct (sq_scale_bounds (FR t) HT) as [U V].
  destruct (mul_R t t Ht Ht) as [Eu Fu].
  { apply (rnd_no_overflow _ 0%float b2). rewrite FR_zero, b2_eq. nra. }
  destruct (mul_R (t * t)%float s Fu fin_s) as [Ev Fv].
  { rewrite Eu. apply (rnd_no_overflow _ 0%float c_half). unfold c_half. rewrite FR_zero, FR_half, <- half_eq. nra. }
  split; [exact Fv|]. now rewrite Ev, Eu.
Qed.

Lemma left_piece : forall x, fin x -> - FR b <= FR x <= 0 ->
    fin ((x + b) * (x + b) * s)%float /\ FR ((x + b) * (x + b) * s)%float = Lp (FR x).
Proof.
  intros x Hx HX.
  destruct (add_R x b Hx fin_b) as [Et Ft].
  { apply (rnd_no_overflow _ 0%float b). rewrite FR_zero. lra. }
  assert (T : 0 <= rnd (FR x + FR b) <= FR b).
  { rewrite <- FR_zero at 1. apply rnd_between. rewrite FR_zero. lra. }
  destruct (sq_scale_float (x + b)%float Ft) as [F E]; [rewrite Et; lra|].
  split; [exact F|]. rewrite E, Et. reflexivity.
Qed.

Lemma right_piece : forall x, fin x -> 0 <= FR x <= FR b ->
    fin (1 - (x - b) * (x - b) * s)%float /\ FR (1 - (x - b) * (x - b) * s)%float = Rp (FR x).
Proof.
  intros x Hx HX.
  destruct (sub_R x b Hx fin_b) as [Et Ft].
  { apply (rnd_no_overflow _ (- b)%float 0%float). rewrite FR_zero, FR_opp. lra. }
  assert (T : - FR b <= rnd (FR x - FR b) <= 0).
  { rewrite <- FR_zero, <- FR_opp. apply rnd_between. rewrite FR_zero, FR_opp. lra. }
  destruct (sq_scale_float (x - b)%float Ft) as [F E]; [rewrite Et; lra|].
  destruct (sq_scale_bounds (rnd (FR x - FR b))) as [_ V]; [lra|].
  destruct (sub_R 1%float ((x - b) * (x - b) * s)%float fin_one F) as [Ew Fw].
  { rewrite FR_one, E, Et. apply (rnd_no_overflow _ c_half 1%float). unfold c_half. rewrite FR_half, FR_one. lra. }
  split; [exact Fw|]. rewrite Ew, FR_one, E, Et. reflexivity.
Qed.

Lemma poly_float : forall x, fin x -> fin (poly x) /\ FR (poly x) = poly_rnd (FR x).
Proof.
  intros x Hx. unfold poly, poly_rnd.
  rewrite (ltb_R x (- b)%float Hx fin_mb), (ltb_R x 0%float Hx fin_zero), (ltb_R x b Hx fin_b), FR_opp, FR_zero.
  destruct (Rlt_bool_spec (FR x) (- FR b)) as [A|A]; destruct (Rlt_dec (FR x) (- FR b)) as [A'|A']; try lra.
  { split; [apply fin_zero|apply FR_zero]. }
  destruct (Rlt_bool_spec (FR x) 0) as [B|B]; destruct (Rlt_dec (FR x) 0) as [B'|B']; try lra.
  { apply left_piece; [assumption|lra]. }
  destruct (Rlt_bool_spec (FR x) (FR b)) as [C|C]; destruct (Rlt_dec (FR x) (FR b)) as [C'|C']; try lra.
  { apply right_piece; [assumption|lra]. }
  split; [apply fin_one|apply FR_one].
Qed.

Lemma poly_rnd_range : forall X, 0 <= poly_rnd X <= 1.
Proof.
  intros X. unfold poly_rnd.
  destruct (Rlt_dec X (- FR b)); [lra|].
  destruct (Rlt_dec X 0); [pose proof (Lp_bounds X); lra|].
  destruct (Rlt_dec X (FR b)); [pose proof (Rp_bounds X); lra|]. lra.
Qed.

Lemma poly_rnd_mono : forall X Y, X <= Y -> poly_rnd X <= poly_rnd Y.
Proof.
  intros X Y H. unfold poly_rnd.
  destruct (Rlt_dec X (- FR b)) as [A|A].
  { destruct (Rlt_dec Y (- FR b)); [lra|].
    destruct (Rlt_dec Y 0); [pose proof (Lp_bounds Y); lra|].
    destruct (Rlt_dec Y (FR b)); [pose proof (Rp_bounds Y); lra|]. lra. }
  destruct (Rlt_dec Y (- FR b)); [lra|].
  destruct (Rlt_dec X 0) as [B|B].
  { destruct (Rlt_dec Y 0); [apply Lp_mono; lra|].
    pose proof (Lp_bounds X).
    destruct (Rlt_dec Y (FR b)); [pose proof (Rp_bounds Y); lra|]. lra. }
  destruct (Rlt_dec Y 0); [lra|].
  destruct (Rlt_dec X (FR b)) as [C|C].
  { destruct (Rlt_dec Y (FR b)); [apply Rp_mono; lra|]. pose proof (Rp_bounds X). lra. }
  destruct (Rlt_dec Y (FR b)); lra.
Qed.

Lemma poly_float_range : forall x, fin x -> 0 <= FR (poly x) <= 1.
Proof. intros x Hx. destruct (poly_float x Hx) as [_ ->]. apply poly_rnd_range. Qed.

Lemma poly_float_mono : forall x y, fin x -> fin y -> (x <=? y)%float = true -> (poly x <=? poly y)%float = true.
Proof.
  intros x y Hx Hy H.
  destruct (poly_float x Hx) as [Fx Ex]. destruct (poly_float y Hy) as [Fy Ey].
  apply leb_of_R; try assumption. rewrite Ex, Ey. apply poly_rnd_mono. now apply leb_true_R.
Qed.
End Poly.

(* instances: breakpoint 4, scale 1/32; breakpoint 1, scale 1/2 *)
Lemma fin_four : fin 4%float. Proof. fin_c. Qed.
Lemma fin_16 : fin 16%float. Proof. fin_c. Qed.
Lemma fin_32nd : fin c_one32nd. Proof. fin_c. Qed.

Definition approx4_rnd : R -> R := poly_rnd 4%float c_one32nd.
Definition approx1_rnd : R -> R := poly_rnd 1%float c_half.

Lemma approximationSigmoid_is_poly : forall L x, run L (approximationSigmoid x) = poly 4%float c_one32nd x.
Proof. reflexivity. Qed.
Lemma approximationSteepenedSigmoid_is_poly : forall L x, run L (approximationSteepenedSigmoid x) = poly 1%float c_half x.
Proof. reflexivity. Qed.

Lemma poly4_hyps : 0 < FR 4%float /\ 0 < FR c_one32nd /\ FR 16%float = FR 4%float * FR 4%float /\ FR 16%float * FR c_one32nd = 0.5.
Proof. unfold c_one32nd. rewrite FR_four, FR_32nd, FR_16. lra. Qed.
Lemma poly1_hyps : 0 < FR 1%float /\ 0 < FR c_half /\ FR 1%float = FR 1%float * FR 1%float /\ FR 1%float * FR c_half = 0.5.
Proof. unfold c_half. rewrite FR_one, FR_half. lra. Qed.

Lemma approximationSigmoid_float : forall L x, fin x ->
    fin (run L (approximationSigmoid x)) /\ FR (run L (approximationSigmoid x)) = approx4_rnd (FR x)
    /\ 0 <= FR (run L (approximationSigmoid x)) <= 1.
Proof.
  intros L x Hx. rewrite approximationSigmoid_is_poly.
  destruct poly4_hyps as (A & B & C & D).
  destruct (poly_float 4%float c_one32nd 16%float fin_four fin_32nd A B C D x Hx) as [F E].
  split; [exact F|]. split; [exact E|].
  exact (poly_float_range 4%float c_one32nd 16%float fin_four fin_32nd A B C D x Hx).
Qed.

Lemma approximationSigmoid_float_mono : forall L x y, fin x -> fin y -> (x <=? y)%float = true ->
    (run L (approximationSigmoid x) <=? run L (approximationSigmoid y))%float = true.
Proof.
  intros L x y Hx Hy H. rewrite !approximationSigmoid_is_poly.
  destruct poly4_hyps as (A & B & C & D).
  exact (poly_float_mono 4%float c_one32nd 16%float fin_four fin_32nd A B C D x y Hx Hy H).
Qed.

Lemma approximationSteepenedSigmoid_float : forall L x, fin x ->
    fin (run L (approximationSteepenedSigmoid x))
    /\ FR (run L (approximationSteepenedSigmoid x)) = approx1_rnd (FR x)
    /\ 0 <= FR (run L (approximationSteepenedSigmoid x)) <= 1.
Proof.
  intros L x Hx. rewrite approximationSteepenedSigmoid_is_poly.
  destruct poly1_hyps as (A & B & C & D).
  destruct (poly_float 1%float c_half 1%float fin_one fin_half A B C D x Hx) as [F E].
  split; [exact F|]. split; [exact E|].
  exact (poly_float_range 1%float c_half 1%float fin_one fin_half A B C D x Hx).
Qed.

Lemma approximationSteepenedSigmoid_float_mono : forall L x y, fin x -> fin y -> (x <=? y)%float = true ->
    (run L (approximationSteepenedSigmoid x) <=? run L (approximationSteepenedSigmoid y))%float = true.
Proof.
  intros L x y Hx Hy H. rewrite !approximationSteepenedSigmoid_is_poly.
  destruct poly1_hyps as (A & B & C & D).
  exact (poly_float_mono 1%float c_half 1%float fin_one fin_half A B C D x y Hx Hy H).
Qed.

(* ------------------------------------------------------------------------------------------ *)
(* inverse-abs sigmoid                                                                         *)
(* ------------------------------------------------------------------------------------------ *)
Definition invabs_rnd (X : R) : R := rnd (0.5 + rnd (rnd (X / rnd (1 + Rabs X)) * 0.5)).

Lemma big_constants : 1 + FR c_1e300 <= FR c_max_float64 /\ 0 < FR c_1e300.
Proof.
  rewrite (FR_SF c_1e300), (FR_SF c_max_float64).
  let v := eval vm_compute in (Prim2SF c_1e300) in change (Prim2SF c_1e300) with v.
  let v := eval vm_compute in (Prim2SF c_max_float64) in change (Prim2SF c_max_float64) with v.
  unfold SF2R, F2R, Fnum, Fexp. simpl bpow. simpl. lra.
Qed.

Lemma inverseAbsoluteSigmoid_float : forall L x, in_domain x ->
    fin (run L (inverseAbsoluteSigmoid x))
    /\ FR (run L (inverseAbsoluteSigmoid x)) = invabs_rnd (FR x)
    /\ 0 <= FR (run L (inverseAbsoluteSigmoid x)) <= 1.
Proof.
  intros L x Hd. simpl.
  pose proof (in_domain_fin x Hd) as Hx. pose proof (in_domain_R x Hd) as HX.
  destruct big_constants as [BC BP].
  pose proof (Rabs_pos (FR x)) as Hp.
  (* d = 1 + |x| *)
  destruct (add_R 1%float (abs x) fin_one (fin_abs x Hx)) as [Ed Fd].
  { apply (rnd_no_overflow _ 1%float c_max_float64). rewrite FR_one, FR_abs. lra. }
  rewrite FR_one, FR_abs in Ed.
  assert (D1 : 1 <= rnd (1 + Rabs (FR x))).
  { rewrite <- FR_one at 1. rewrite <- (rnd_FR 1%float). apply rnd_le. rewrite FR_one. lra. }
  assert (D2 : Rabs (FR x) <= rnd (1 + Rabs (FR x))).
  { replace (Rabs (FR x)) with (rnd (Rabs (FR x))) at 1; [apply rnd_le; lra|]. rewrite <- FR_abs. apply rnd_FR. }
  (* t = x / d in [-1,1] *)
  assert (Q : -1 <= FR x / rnd (1 + Rabs (FR x)) <= 1).
  { remember (rnd (1 + Rabs (FR x))) as d eqn:Hd'. clear Hd'.
    assert (Hdp : 0 < d) by lra.
    assert (AX : - d <= FR x <= d) by (unfold Rabs in D2; destruct (Rcase_abs (FR x)); lra).
    split.
    - apply (Rmult_le_reg_r d); [assumption|].
      unfold Rdiv. rewrite Rmult_assoc, Rinv_l by lra. lra.
    - apply (Rmult_le_reg_r d); [assumption|].
      unfold Rdiv. rewrite Rmult_assoc, Rinv_l by lra. lra. }
  destruct (div_R x (1 + abs x)%float Hx) as [Et Ft].
  { rewrite Ed. lra. }
  { rewrite Ed. apply (rnd_no_overflow _ (-1)%float 1%float). rewrite FR_mone, FR_one. exact Q. }
  rewrite Ed in Et.
  assert (T : -1 <= rnd (FR x / rnd (1 + Rabs (FR x))) <= 1).
  { rewrite <- FR_mone, <- FR_one. apply rnd_between. rewrite FR_mone, FR_one. exact Q. }
  (* h = t * 0.5 in [-1/2, 1/2] *)
  destruct (mul_R (x / (1 + abs x))%float c_half Ft fin_half) as [Eh Fh].
  { rewrite Et. unfold c_half. rewrite FR_half. apply (rnd_no_overflow _ (-1)%float 1%float). rewrite FR_mone, FR_one. lra. }
  unfold c_half in Eh. rewrite Et, FR_half in Eh. fold c_half in Eh.
  assert (Hh : -0.5 <= rnd (rnd (FR x / rnd (1 + Rabs (FR x))) * 0.5) <= 0.5).
  { assert (E1 : -0.5 = FR (- c_half)%float) by (rewrite FR_opp; unfold c_half; rewrite FR_half; lra).
    rewrite E1. rewrite <- FR_half. apply rnd_between. rewrite <- E1, FR_half. lra. }
  (* r = 0.5 + h in [0, 1] *)
  destruct (add_R c_half (x / (1 + abs x) * c_half)%float fin_half Fh) as [Er Fr].
  { rewrite Eh. unfold c_half. rewrite FR_half. apply (rnd_no_overflow _ 0%float 1%float). rewrite FR_zero, FR_one. lra. }
  unfold c_half in Er. rewrite FR_half in Er. fold c_half in Er. rewrite Eh in Er.
  split; [exact Fr|]. split; [exact Er|].
  rewrite Er. rewrite <- FR_zero, <- FR_one. apply rnd_between. rewrite FR_zero, FR_one. lra.
Qed.

(* the binary64 evaluation is NOT monotone: f(2^53) = 1 > f(2^53 + 2) = 1 - 2^-53 *)
Lemma invabs_float_monotone_refuted :
  exists x y, in_domain x /\ in_domain y /\ (x <? y)%float = true
              /\ (value_of (inverseAbsoluteSigmoid y) <? value_of (inverseAbsoluteSigmoid x))%float = true.
Proof.
  exists 0x1p+53%float, 0x1.0000000000001p+53%float.
  repeat split; vm_compute; reflexivity.
Qed.

(* ... and on the negative side the drop is a factor of two: f(-2^52) = 2^-53 > f(-(2^52 - 1/2)) = 2^-54 *)
Lemma invabs_float_monotone_refuted_neg :
  exists x y, in_domain x /\ in_domain y /\ (x <? y)%float = true
              /\ value_of (inverseAbsoluteSigmoid x) = 0x1p-53%float
              /\ value_of (inverseAbsoluteSigmoid y) = 0x1p-54%float.
Proof.
  exists (-0x1p+52)%float, (-0x1.fffffffffffffp+51)%float.
  repeat split; vm_compute; reflexivity.
Qed.
