(* Fast solver with modules (model/FastMod.v):
   (a) conservativity: without modules it is model/Fast.v, operation by operation, and the translation of a
       network without control nodes is Fast.fast_of_net;
   (b) C13: Flush makes a modular fast solver observationally equal to a fresh one, for every solver with
       sensorNeuronCount <= totalNeuronCount (any connections, any modules, any indices).  Flush clears
       neuronSignals from biasNeuronCount on and the WHOLE scratch array neuronSignalsBeingProcessed.  (Before the
       repair of Flush the scratch array was cleared from biasNeuronCount on only; a module that writes a bias slot
       which a module reads then made the statement false, and the theorem carried the premise [flush_ok] excluding
       that: see props/C13.v.)
       Relation: equal neuronSignals and equal neuronSignalsBeingProcessed (a module may read any slot of it);
       invariant: array lengths and the bias signals 1. *)
From NeatModel Require Import Res Net Fast NetMod FastMod SolverUtil FlushFast.
From Coq Require Import Arith Lia.
Open Scope nat_scope.

Section ModSpecFast.
Variable F : Type.
Variable NF : num F.
Variable act : Z -> F -> res F.
Variable mact : Z -> list F -> res (list F).

Notation fstate := (fstate F).

(* ================= (a) conservativity ================= *)
Section NoModules.
Variable fx : fmnet F.
Hypothesis no_mods : fx_mods fx = [].

Lemma mforward_step_nil d s : mforward_step NF act mact fx d s = forward_step NF act (fx_net fx) d s.
Proof.
  unfold mforward_step, forward_step. rewrite no_mods.
  destruct (fs_activate NF act (fx_net fx) (neuron_range (fx_net fx)) (fold_left (conn_step NF) (f_conns (fx_net fx)) s)) as [a r].
  destruct r; reflexivity.
Qed.

Lemma mff_loop_nil it : forall last s, mff_loop NF act mact fx it last s = ff_loop NF act (fx_net fx) it last s.
Proof.
  induction it as [|it IH]; intros last s; simpl; [reflexivity|].
  rewrite mforward_step_nil. destruct (forward_step NF act (fx_net fx) (fzero NF) s) as [a r].
  destruct r; try reflexivity. apply IH.
Qed.

Lemma mrelax_loop_nil it d : forall last s, mrelax_loop NF act mact fx it d last s = relax_loop NF act (fx_net fx) it d last s.
Proof.
  induction it as [|it IH]; intros last s; simpl; [reflexivity|].
  rewrite mforward_step_nil. destruct (forward_step NF act (fx_net fx) d s) as [a r].
  destruct r as [[|]| | | | |]; try reflexivity. apply IH.
Qed.

Theorem mfast_step_nil s o : mfast_step NF act mact fx s o = fast_step NF act (fx_net fx) s o.
Proof.
  destruct o as [x|k| |ms d|]; simpl; try reflexivity.
  - apply mff_loop_nil.
  - unfold mfast_recursive. rewrite no_mods. reflexivity.
  - apply mrelax_loop_nil.
Qed.

Theorem mfast_run_nil h : forall s, mfast_run NF act mact fx s h = fast_run NF act (fx_net fx) s h.
Proof.
  unfold mfast_run, fast_run. induction h as [|o rest IH]; intros s; simpl; [reflexivity|].
  rewrite mfast_step_nil. apply IH.
Qed.

Theorem mfast_trace_nil ops : forall s, mfast_trace NF act mact fx s ops = fast_trace NF act (fx_net fx) s ops.
Proof.
  induction ops as [|o rest IH]; intros s; simpl; [reflexivity|].
  rewrite mfast_step_nil. destruct (fast_step NF act (fx_net fx) s o) as [a r]. unfold mfast_outputs. f_equal. apply IH.
Qed.
End NoModules.

(* the translation: the lookup table exists whenever Fast.fast_of_net succeeds *)
Lemma net_lookup_of_fast (n : net F) (fn : fnet F) : fast_of_net NF n = Ok fn -> exists k, net_lookup n = Ok k.
Proof.
  unfold fast_of_net, net_lookup.
  destruct (process_list n (nnodes n) 0 (positions_with n is_bias) (repeat 0%Z (nnodes n)) []) as [[[i1 a1] k1]| | | | |]; try discriminate.
  destruct (process_list n (nnodes n) i1 (positions_with n is_input) a1 k1) as [[[i2 a2] k2]| | | | |]; try discriminate.
  destruct (process_list n (nnodes n) i2 (outputs n) a2 k2) as [[[i3 a3] k3]| | | | |]; try discriminate.
  destruct (process_list n (nnodes n) i3 (positions_with n is_hidden) a3 k3) as [[[i4 a4] k4]| | | | |]; try discriminate.
  intros _. eauto.
Qed.

Theorem fast_of_net_mod_nil (n : net F) :
  fast_of_net_mod NF (mkMnet n []) =
  match fast_of_net NF n with Ok fn => Ok (mkFmnet fn []) | e => res_cast e (GoPanic 0%Z) end.
Proof.
  unfold fast_of_net_mod. simpl. destruct (fast_of_net NF n) as [fn| | | | |] eqn:E; try reflexivity.
  destruct (net_lookup_of_fast n fn E) as [k ->]. reflexivity.
Qed.

(* the whole client-visible behaviour *)
Theorem mfast_conservative (n : net F) (fn : fnet F) (ops : list (op F)) :
  fast_of_net NF n = Ok fn ->
  fast_of_net_mod NF (mkMnet n []) = Ok (mkFmnet fn []) /\
  mfast_trace NF act mact (mkFmnet fn []) (mfast_init NF (mkFmnet fn [])) ops = fast_trace NF act fn (fast_init NF fn) ops.
Proof.
  intros H. split.
  - rewrite fast_of_net_mod_nil, H. reflexivity.
  - apply (mfast_trace_nil (mkFmnet fn []) eq_refl).
Qed.

(* ================= (b) Flush ================= *)
Section Flush.
Variable fx : fmnet F.
Notation fn := (fx_net fx).
Hypothesis sensor_le_total : f_sensor fn <= f_total fn.

(* the relation: FlushFast's [rsig] on every index *)
Definition PR (j : nat) : Prop := True.

Lemma bias_le_sensor' : f_bias fn <= f_sensor fn.
Proof. unfold f_sensor. lia. Qed.

(* ----- the module loop respects the relation ----- *)
Lemma write_outs_rsig P tgts : forall outs s1 s2,
  rsig F NF P s1 s2 ->
  rsig F NF P (fst (write_outs s1 outs tgts)) (fst (write_outs s2 outs tgts)) /\
  snd (write_outs s1 outs tgts) = snd (write_outs s2 outs tgts).
Proof.
  induction tgts as [|o tgts IH]; intros outs s1 s2 H; simpl; [auto|].
  destruct outs as [|v outs]; [auto|].
  assert (EL : length (fs_bp s1) = length (fs_bp s2)) by apply H. rewrite EL.
  destruct (o <? length (fs_bp s2)); [|auto].
  apply IH. apply set_bp_rsig_in; [exact H|reflexivity].
Qed.

Lemma module_step_rsig P m s1 s2 :
  rsig F NF P s1 s2 -> (forall j, In j (fmd_ins m) -> P j) ->
  rsig F NF P (fst (module_step NF mact s1 m)) (fst (module_step NF mact s2 m)) /\
  snd (module_step NF mact s1 m) = snd (module_step NF mact s2 m).
Proof.
  intros H HP. unfold module_step.
  assert (EL : length (fs_bp s1) = length (fs_bp s2)) by apply H. rewrite EL.
  destruct (forallb (fun i => i <? length (fs_bp s2)) (fmd_ins m)); [|auto].
  assert (E : map (bpF NF s1) (fmd_ins m) = map (bpF NF s2) (fmd_ins m)).
  { apply map_ext_in. intros j Hj. apply H. apply HP. exact Hj. }
  rewrite E. destruct (mact (fmd_act m) (map (bpF NF s2) (fmd_ins m))) as [outs| | | | |]; simpl; auto.
  apply write_outs_rsig. exact H.
Qed.

Lemma modules_loop_rsig P ms : forall s1 s2,
  rsig F NF P s1 s2 -> (forall m j, In m ms -> In j (fmd_ins m) -> P j) ->
  rsig F NF P (fst (modules_loop NF mact ms s1)) (fst (modules_loop NF mact ms s2)) /\
  snd (modules_loop NF mact ms s1) = snd (modules_loop NF mact ms s2).
Proof.
  induction ms as [|m rest IH]; intros s1 s2 H HP; simpl; [auto|].
  destruct (module_step_rsig P m s1 s2 H) as [Hr He]; [intros j Hj; apply (HP m j); simpl; auto|].
  destruct (module_step NF mact s1 m) as [a1 r1], (module_step NF mact s2 m) as [a2 r2]. simpl in Hr, He. subst r2.
  destruct r1; simpl; auto. apply IH; [exact Hr|]. intros m' j Hm Hj. apply (HP m' j); simpl; auto.
Qed.

Lemma mforward_step_rsig d s1 s2 :
  rsig F NF PR s1 s2 ->
  rsig F NF PR (fst (mforward_step NF act mact fx d s1)) (fst (mforward_step NF act mact fx d s2)) /\
  snd (mforward_step NF act mact fx d s1) = snd (mforward_step NF act mact fx d s2).
Proof.
  intros H. unfold mforward_step.
  assert (TP : forall i, In i (neuron_range fn) -> PR i) by (intros; exact I).
  pose proof (fold_conn_step_rsig F NF PR (f_conns fn) s1 s2 H) as H1.
  destruct (fs_activate_rsig F NF act fn PR (neuron_range fn) _ _ H1 TP) as [H2 E2].
  destruct (fs_activate NF act fn (neuron_range fn) (fold_left (conn_step NF) (f_conns fn) s1)) as [a1 r1].
  destruct (fs_activate NF act fn (neuron_range fn) (fold_left (conn_step NF) (f_conns fn) s2)) as [a2 r2].
  simpl in H2, E2. subst r2. destruct r1; simpl; auto.
  destruct (modules_loop_rsig PR (fx_mods fx) a1 a2 H2 (fun _ _ _ _ => I)) as [H3 E3].
  destruct (modules_loop NF mact (fx_mods fx) a1) as [b1 q1], (modules_loop NF mact (fx_mods fx) a2) as [b2 q2].
  simpl in H3, E3. subst q2. destruct q1; simpl; auto.
  destruct (fleb NF d (fzero NF)); simpl.
  - split; [|reflexivity]. apply fs_commit_rsig; [exact H3|exact TP].
  - destruct (fs_commit_delta_rsig F NF PR d (neuron_range fn) true b1 b2 H3 TP) as [H4 E4].
    destruct (fs_commit_delta NF d (neuron_range fn) true b1) as [c1 p1].
    destruct (fs_commit_delta NF d (neuron_range fn) true b2) as [c2 p2].
    simpl in *. subst p2. auto.
Qed.

Lemma mff_loop_rsig it : forall last s1 s2,
  rsig F NF PR s1 s2 ->
  rsig F NF PR (fst (mff_loop NF act mact fx it last s1)) (fst (mff_loop NF act mact fx it last s2)) /\
  snd (mff_loop NF act mact fx it last s1) = snd (mff_loop NF act mact fx it last s2).
Proof.
  induction it as [|it IH]; intros last s1 s2 H; simpl; [auto|].
  destruct (mforward_step_rsig (fzero NF) s1 s2 H) as [H1 E1].
  destruct (mforward_step NF act mact fx (fzero NF) s1) as [a1 r1], (mforward_step NF act mact fx (fzero NF) s2) as [a2 r2].
  simpl in *. subst r2. destruct r1; simpl; auto.
Qed.

Lemma mrelax_loop_rsig it d : forall last s1 s2,
  rsig F NF PR s1 s2 ->
  rsig F NF PR (fst (mrelax_loop NF act mact fx it d last s1)) (fst (mrelax_loop NF act mact fx it d last s2)) /\
  snd (mrelax_loop NF act mact fx it d last s1) = snd (mrelax_loop NF act mact fx it d last s2).
Proof.
  induction it as [|it IH]; intros last s1 s2 H; simpl; [auto|].
  destruct (mforward_step_rsig d s1 s2 H) as [H1 E1].
  destruct (mforward_step NF act mact fx d s1) as [a1 r1], (mforward_step NF act mact fx d s2) as [a2 r2].
  simpl in *. subst r2. destruct r1 as [[|]| | | | |]; simpl; auto.
Qed.

Lemma fast_load_rsig P x s1 s2 :
  rsig F NF P s1 s2 ->
  rsig F NF P (fst (fast_load NF fn x s1)) (fst (fast_load NF fn x s2)) /\
  snd (fast_load NF fn x s1) = snd (fast_load NF fn x s2).
Proof.
  intros H. unfold fast_load. destruct (length x =? f_in fn); simpl; auto.
  split; [|reflexivity]. generalize (seq 0 (f_in fn)). intros is. revert s1 s2 H.
  induction is as [|i rest IH]; intros s1 s2 H; simpl; [exact H|]. apply IH. apply set_sig_rsig. exact H.
Qed.

Lemma fast_flush_rsig P s1 s2 :
  rsig F NF P s1 s2 -> rsig F NF P (fst (fast_flush NF fn s1)) (fst (fast_flush NF fn s2)).
Proof.
  intros (H1 & H2 & H3).
  destruct (fast_flush_fields F NF fn s1) as (A1 & A2 & _). destruct (fast_flush_fields F NF fn s2) as (B1 & B2 & _).
  unfold rsig, bpF. rewrite A1, A2, B1, B2, H1, H2. repeat split; reflexivity.
Qed.

(* with at least one module RecursiveSteps is an error that touches nothing *)
Hypothesis has_mods : fx_mods fx <> [].

Theorem mfast_step_respects o s1 s2 :
  rsig F NF PR s1 s2 ->
  rsig F NF PR (fst (mfast_step NF act mact fx s1 o)) (fst (mfast_step NF act mact fx s2 o)) /\
  snd (mfast_step NF act mact fx s1 o) = snd (mfast_step NF act mact fx s2 o).
Proof.
  intros H. destruct o as [x|k| |ms d|]; simpl.
  - apply fast_load_rsig. exact H.
  - apply mff_loop_rsig. exact H.
  - unfold mfast_recursive. destruct (fx_mods fx); [contradiction|]. simpl. auto.
  - apply mrelax_loop_rsig. exact H.
  - split; [|reflexivity]. apply fast_flush_rsig. exact H.
Qed.

Lemma mfast_outputs_respects P s1 s2 : rsig F NF P s1 s2 -> mfast_outputs NF fx s1 = mfast_outputs NF fx s2.
Proof.
  intros (H1 & _). unfold mfast_outputs, fast_outputs. apply map_ext. intros j. unfold sigF. now rewrite H1.
Qed.

Theorem mfast_trace_respects ops : forall s1 s2,
  rsig F NF PR s1 s2 -> mfast_trace NF act mact fx s1 ops = mfast_trace NF act mact fx s2 ops.
Proof.
  induction ops as [|o rest IH]; intros s1 s2 H; simpl; [reflexivity|].
  destruct (mfast_step_respects o s1 s2 H) as [Hr He].
  destruct (mfast_step NF act mact fx s1 o) as [a1 r1], (mfast_step NF act mact fx s2 o) as [a2 r2]. simpl in *.
  subst r2. rewrite (mfast_outputs_respects PR a1 a2 Hr). f_equal. apply IH. exact Hr.
Qed.

(* ----- invariants of every reachable state: array lengths, bias signals ----- *)
Definition minv (s : fstate) : Prop := flens F s = full_lens F fn /\ bias_ok F NF fn s.

Lemma flens_write_outs tgts : forall outs s, flens F (fst (write_outs s outs tgts)) = flens F s.
Proof.
  induction tgts as [|o tgts IH]; intros outs s; simpl; [reflexivity|].
  destruct outs as [|v outs]; [reflexivity|]. destruct (o <? length (fs_bp s)); [|reflexivity].
  rewrite IH. unfold set_bp, flens. simpl. now rewrite upd_length.
Qed.

Lemma flens_modules_loop ms : forall s, flens F (fst (modules_loop NF mact ms s)) = flens F s.
Proof.
  induction ms as [|m rest IH]; intros s; simpl; [reflexivity|].
  assert (Hm : flens F (fst (module_step NF mact s m)) = flens F s).
  { unfold module_step. destruct (forallb _ _); [|reflexivity].
    destruct (mact _ _); simpl; try reflexivity. apply flens_write_outs. }
  destruct (module_step NF mact s m) as [a r]. simpl in Hm.
  destruct r; simpl; try exact Hm. rewrite IH. exact Hm.
Qed.

Lemma sig_write_outs tgts : forall outs (s : fstate), fs_sig (fst (write_outs s outs tgts)) = fs_sig s.
Proof.
  induction tgts as [|o tgts IH]; intros outs s; simpl; [reflexivity|].
  destruct outs as [|v outs]; [reflexivity|]. destruct (o <? length (fs_bp s)); [|reflexivity].
  rewrite IH. reflexivity.
Qed.

Lemma sig_modules_loop ms : forall s, fs_sig (fst (modules_loop NF mact ms s)) = fs_sig s.
Proof.
  induction ms as [|m rest IH]; intros s; simpl; [reflexivity|].
  assert (Hm : fs_sig (fst (module_step NF mact s m)) = fs_sig s).
  { unfold module_step. destruct (forallb _ _); [|reflexivity].
    destruct (mact _ _); simpl; try reflexivity. apply sig_write_outs. }
  destruct (module_step NF mact s m) as [a r]. simpl in Hm.
  destruct r; simpl; try exact Hm. rewrite IH. exact Hm.
Qed.

Lemma flens_mforward_step d s : flens F (fst (mforward_step NF act mact fx d s)) = flens F s.
Proof.
  unfold mforward_step.
  pose proof (flens_fs_activate F NF act fn (neuron_range fn) (fold_left (conn_step NF) (f_conns fn) s)) as H.
  rewrite (flens_fold_conn F NF) in H.
  destruct (fs_activate NF act fn (neuron_range fn) (fold_left (conn_step NF) (f_conns fn) s)) as [a r].
  simpl in H. destruct r; simpl; try exact H.
  pose proof (flens_modules_loop (fx_mods fx) a) as H2.
  destruct (modules_loop NF mact (fx_mods fx) a) as [b q]. simpl in H2. rewrite H in H2.
  destruct q; simpl; try exact H2.
  destruct (fleb NF d (fzero NF)); simpl.
  - now rewrite (flens_fs_commit F NF).
  - pose proof (flens_fs_commit_delta F NF d (neuron_range fn) true b) as H3.
    destruct (fs_commit_delta NF d (neuron_range fn) true b) as [c p]. simpl in *. congruence.
Qed.

Lemma sig_mforward_step d s j : j < f_sensor fn -> sigF NF (fst (mforward_step NF act mact fx d s)) j = sigF NF s j.
Proof.
  intros Hj. unfold mforward_step.
  assert (Hn : forall i, In i (neuron_range fn) -> i <> j).
  { intros i Hi. unfold neuron_range in Hi. apply in_seq in Hi. lia. }
  pose proof (sig_fs_activate F NF act fn (neuron_range fn) (fold_left (conn_step NF) (f_conns fn) s)) as H.
  rewrite (sig_fold_conn F NF) in H.
  destruct (fs_activate NF act fn (neuron_range fn) (fold_left (conn_step NF) (f_conns fn) s)) as [a r].
  simpl in H.
  assert (Ha : sigF NF a j = sigF NF s j) by (unfold sigF; now rewrite H).
  destruct r; simpl; try exact Ha.
  pose proof (sig_modules_loop (fx_mods fx) a) as H2.
  destruct (modules_loop NF mact (fx_mods fx) a) as [b q]. simpl in H2.
  assert (Hb : sigF NF b j = sigF NF s j) by (unfold sigF in *; now rewrite H2).
  destruct q; simpl; try exact Hb.
  destruct (fleb NF d (fzero NF)); simpl.
  - rewrite (sig_fs_commit F NF) by exact Hn. exact Hb.
  - pose proof (sig_fs_commit_delta F NF d (neuron_range fn) j Hn true b) as H3.
    destruct (fs_commit_delta NF d (neuron_range fn) true b) as [c p]. simpl in *. congruence.
Qed.

Lemma minv_mforward_step d s : minv s -> minv (fst (mforward_step NF act mact fx d s)).
Proof.
  intros (L & B). split; [rewrite flens_mforward_step; exact L|].
  intros j Hj. rewrite sig_mforward_step by (pose proof bias_le_sensor'; lia). apply B. exact Hj.
Qed.

Lemma minv_mff_loop it : forall last s, minv s -> minv (fst (mff_loop NF act mact fx it last s)).
Proof.
  induction it as [|it IH]; intros last s H; simpl; [exact H|].
  pose proof (minv_mforward_step (fzero NF) s H) as H1.
  destruct (mforward_step NF act mact fx (fzero NF) s) as [a r]. simpl in H1. destruct r; simpl; auto.
Qed.

Lemma minv_mrelax_loop it d : forall last s, minv s -> minv (fst (mrelax_loop NF act mact fx it d last s)).
Proof.
  induction it as [|it IH]; intros last s H; simpl; [exact H|].
  pose proof (minv_mforward_step d s H) as H1.
  destruct (mforward_step NF act mact fx d s) as [a r]. simpl in H1. destruct r as [[|]| | | | |]; simpl; auto.
Qed.

Lemma minv_fast_load x s : minv s -> minv (fst (fast_load NF fn x s)).
Proof.
  intros (L & B). split; [rewrite (flens_fast_load F NF); exact L|].
  unfold fast_load. destruct (length x =? f_in fn); simpl; [|auto].
  generalize (seq 0 (f_in fn)). intros is. revert s L B.
  induction is as [|i rest IH]; intros s L B; simpl; [auto|].
  apply IH.
  - rewrite <- L. unfold set_sig, flens. simpl. now rewrite upd_length.
  - intros j Hj. unfold sigF, set_sig, getF. simpl. rewrite nth_upd_other by lia. apply B. exact Hj.
Qed.

Lemma minv_fast_flush s : minv s -> minv (fst (fast_flush NF fn s)).
Proof.
  intros (L & B). split; [rewrite (flens_fast_flush F NF); exact L|].
  destruct (fast_flush_fields F NF fn s) as (A1 & _ & _).
  intros j Hj. unfold sigF, getF. rewrite A1.
  rewrite fold_upd_below by (intros i Hi E; apply in_seq in Hi; lia). apply B. exact Hj.
Qed.

Lemma minv_mfast_step s o : minv s -> minv (fst (mfast_step NF act mact fx s o)).
Proof.
  intros H. destruct o as [x|k| |ms d|]; simpl.
  - apply minv_fast_load. exact H.
  - apply minv_mff_loop. exact H.
  - unfold mfast_recursive. destruct (fx_mods fx); [contradiction|]. exact H.
  - apply minv_mrelax_loop. exact H.
  - apply minv_fast_flush. exact H.
Qed.

Lemma minv_mfast_run h : forall s, minv s -> minv (mfast_run NF act mact fx s h).
Proof.
  unfold mfast_run. induction h as [|o rest IH]; intros s H; simpl; [exact H|]. apply IH. apply minv_mfast_step. exact H.
Qed.

Lemma minv_init : minv (fast_init NF fn).
Proof. destruct (finv_init F NF fn sensor_le_total) as (L & B & _). split; [exact L|exact B]. Qed.

(* Flush brings every reachable state back to the initial one, as far as signals and scratch buffer go *)
Lemma mfast_flush_init s : minv s -> rsig F NF PR (fst (fast_flush NF fn s)) (fast_init NF fn).
Proof.
  intros (L & B). pose proof bias_le_sensor' as HB.
  unfold flens, full_lens in L. injection L as L1 L2 L3 L4 L5.
  destruct (fast_flush_fields F NF fn s) as (E1 & E2 & _).
  assert (Hin : forall j, f_bias fn <= j < f_total fn -> In j (seq (f_bias fn) (f_total fn - f_bias fn))).
  { intros j Hj. apply in_seq. lia. }
  unfold rsig, bpF. rewrite E1, E2, L2. unfold fast_init. simpl.
  repeat split.
  apply nth_ext with (d := fzero NF) (d' := fzero NF).
  - rewrite fold_upd_length, app_length, !repeat_length. lia.
  - intros j Hj. rewrite fold_upd_length in Hj.
    destruct (Nat.lt_ge_cases j (f_bias fn)) as [Hlt|Hge].
    + rewrite fold_upd_below by (intros i Hi E; apply in_seq in Hi; lia).
      rewrite app_nth1 by (rewrite repeat_length; exact Hlt). rewrite nth_repeat_lt by exact Hlt. apply B. exact Hlt.
    + rewrite (fold_upd_at (fun _ => fzero NF)); [|apply seq_NoDup|apply Hin; lia|lia].
      rewrite app_nth2 by (rewrite repeat_length; exact Hge). now rewrite nth_repeat.
Qed.

Theorem mfast_flush_fresh_mods (h ops : list (op F)) :
  mfast_trace NF act mact fx (fst (fast_flush NF fn (mfast_run NF act mact fx (mfast_init NF fx) h))) ops =
  mfast_trace NF act mact fx (mfast_init NF fx) ops.
Proof.
  apply mfast_trace_respects. apply mfast_flush_init. apply minv_mfast_run. apply minv_init.
Qed.

End Flush.

(* C13 for the modular fast solver, with or without modules *)
Theorem mfast_flush_fresh (fx : fmnet F) :
  f_sensor (fx_net fx) <= f_total (fx_net fx) ->
  forall h ops : list (op F),
    mfast_trace NF act mact fx (fst (fast_flush NF (fx_net fx) (mfast_run NF act mact fx (mfast_init NF fx) h))) ops =
    mfast_trace NF act mact fx (mfast_init NF fx) ops.
Proof.
  intros HS h ops. destruct (fx_mods fx) as [|m ms] eqn:E.
  - rewrite (mfast_run_nil fx E), !(mfast_trace_nil fx E). unfold mfast_init.
    exact (fast_flush_fresh F NF act (fx_net fx) HS h ops).
  - apply mfast_flush_fresh_mods; [exact HS|]. rewrite E. discriminate.
Qed.

End ModSpecFast.
