(* Fast solver with modules (model/FastMod.v):
   (a) conservativity: without modules it is model/Fast.v, operation by operation, and the translation of a
       network without control nodes is Fast.fast_of_net;
   (b) C13: Flush makes a modular fast solver observationally equal to a fresh one, for every solver in which no
       slot of neuronSignalsBeingProcessed below biasNeuronCount is both WRITTEN (target of a connection, output of
       a module) and READ by a module ([flush_ok]).  Flush clears the array from biasNeuronCount on only, so
       without that premise the statement is false (props/C13.v has the counterexample, confirmed on the code).
       Relation: equal neuronSignals; neuronSignalsBeingProcessed equal on every index a module or the activation
       loop may read ([readable]: from biasNeuronCount on, or never written); invariant: the never-written slots
       hold 0 and the bias signals hold 1. *)
From NeatModel Require Import Res Net Fast NetMod FastMod SolverUtil FlushFast.
From Coq Require Import Arith Lia.
Open Scope nat_scope.

Section ModSpecFast.
Variable F : Type.
Variable NF : num F.
Variable act : Z -> F -> res F.
Variable mact : Z -> list F -> res (list F).

Notation fstate := (fstate F).

(* ================= (a) conservativity ================= *)
Section NoModules.
Variable fx : fmnet F.
Hypothesis no_mods : fx_mods fx = [].

Lemma mforward_step_nil d s : mforward_step NF act mact fx d s = forward_step NF act (fx_net fx) d s.
Proof.
  unfold mforward_step, forward_step. rewrite no_mods.
  destruct (fs_activate NF act (fx_net fx) (neuron_range (fx_net fx)) (fold_left (conn_step NF) (f_conns (fx_net fx)) s)) as [a r].
  destruct r; reflexivity.
Qed.

Lemma mff_loop_nil it : forall last s, mff_loop NF act mact fx it last s = ff_loop NF act (fx_net fx) it last s.
Proof.
  induction it as [|it IH]; intros last s; simpl; [reflexivity|].
  rewrite mforward_step_nil. destruct (forward_step NF act (fx_net fx) (fzero NF) s) as [a r].
  destruct r; try reflexivity. apply IH.
Qed.

Lemma mrelax_loop_nil it d : forall last s, mrelax_loop NF act mact fx it d last s = relax_loop NF act (fx_net fx) it d last s.
Proof.
  induction it as [|it IH]; intros last s; simpl; [reflexivity|].
  rewrite mforward_step_nil. destruct (forward_step NF act (fx_net fx) d s) as [a r].
  destruct r as [[|]| | | | |]; try reflexivity. apply IH.
Qed.

Theorem mfast_step_nil s o : mfast_step NF act mact fx s o = fast_step NF act (fx_net fx) s o.
Proof.
  destruct o as [x|k| |ms d|]; simpl; try reflexivity.
  - apply mff_loop_nil.
  - unfold mfast_recursive. rewrite no_mods. reflexivity.
  - apply mrelax_loop_nil.
Qed.

Theorem mfast_run_nil h : forall s, mfast_run NF act mact fx s h = fast_run NF act (fx_net fx) s h.
Proof.
  unfold mfast_run, fast_run. induction h as [|o rest IH]; intros s; simpl; [reflexivity|].
  rewrite mfast_step_nil. apply IH.
Qed.

Theorem mfast_trace_nil ops : forall s, mfast_trace NF act mact fx s ops = fast_trace NF act (fx_net fx) s ops.
Proof.
  induction ops as [|o rest IH]; intros s; simpl; [reflexivity|].
  rewrite mfast_step_nil. destruct (fast_step NF act (fx_net fx) s o) as [a r]. unfold mfast_outputs. f_equal. apply IH.
Qed.
End NoModules.

(* the translation: the lookup table exists whenever Fast.fast_of_net succeeds *)
Lemma net_lookup_of_fast (n : net F) (fn : fnet F) : fast_of_net NF n = Ok fn -> exists k, net_lookup n = Ok k.
Proof.
  unfold fast_of_net, net_lookup.
  destruct (process_list n (nnodes n) 0 (positions_with n is_bias) (repeat 0%Z (nnodes n)) []) as [[[i1 a1] k1]| | | | |]; try discriminate.
  destruct (process_list n (nnodes n) i1 (positions_with n is_input) a1 k1) as [[[i2 a2] k2]| | | | |]; try discriminate.
  destruct (process_list n (nnodes n) i2 (outputs n) a2 k2) as [[[i3 a3] k3]| | | | |]; try discriminate.
  destruct (process_list n (nnodes n) i3 (positions_with n is_hidden) a3 k3) as [[[i4 a4] k4]| | | | |]; try discriminate.
  intros _. eauto.
Qed.

Theorem fast_of_net_mod_nil (n : net F) :
  fast_of_net_mod NF (mkMnet n []) =
  match fast_of_net NF n with Ok fn => Ok (mkFmnet fn []) | e => res_cast e (GoPanic 0%Z) end.
Proof.
  unfold fast_of_net_mod. simpl. destruct (fast_of_net NF n) as [fn| | | | |] eqn:E; try reflexivity.
  destruct (net_lookup_of_fast n fn E) as [k ->]. reflexivity.
Qed.

(* the whole client-visible behaviour *)
Theorem mfast_conservative (n : net F) (fn : fnet F) (ops : list (op F)) :
  fast_of_net NF n = Ok fn ->
  fast_of_net_mod NF (mkMnet n []) = Ok (mkFmnet fn []) /\
  mfast_trace NF act mact (mkFmnet fn []) (mfast_init NF (mkFmnet fn [])) ops = fast_trace NF act fn (fast_init NF fn) ops.
Proof.
  intros H. split.
  - rewrite fast_of_net_mod_nil, H. reflexivity.
  - apply (mfast_trace_nil (mkFmnet fn []) eq_refl).
Qed.

(* ================= (b) Flush ================= *)
Section Flush.
Variable fx : fmnet F.
Notation fn := (fx_net fx).
Hypothesis sensor_le_total : f_sensor fn <= f_total fn.

Definition written (j : nat) : bool :=
  existsb (fun c => fl_tgt c =? j) (f_conns fn) || existsb (fun m => existsb (Nat.eqb j) (fmd_outs m)) (fx_mods fx).
Definition readable (j : nat) : bool := (f_bias fn <=? j) || negb (written j).
Definition flush_ok : bool := forallb (fun m => forallb readable (fmd_ins m)) (fx_mods fx).

Definition PR (j : nat) : Prop := readable j = true.

(* [flush_ok] spelled out: a module never reads a slot below biasNeuronCount that a connection or a module writes *)
Lemma flush_ok_iff :
  flush_ok = true <->
  forall m j, In m (fx_mods fx) -> In j (fmd_ins m) -> j < f_bias fn ->
    (forall c, In c (f_conns fn) -> fl_tgt c <> j) /\ (forall m', In m' (fx_mods fx) -> ~ In j (fmd_outs m')).
Proof.
  unfold flush_ok. rewrite forallb_forall. split.
  - intros H m j Hm Hj Hlt. specialize (H m Hm). rewrite forallb_forall in H. specialize (H j Hj).
    unfold readable in H. destruct (f_bias fn <=? j) eqn:E; [apply Nat.leb_le in E; lia|]. simpl in H.
    apply negb_true_iff in H. unfold written in H. apply orb_false_iff in H. destruct H as [H1 H2]. split.
    + intros c Hc Et. assert (X : existsb (fun c => fl_tgt c =? j) (f_conns fn) = true).
      { apply existsb_exists. exists c. split; [exact Hc|]. apply Nat.eqb_eq. exact Et. } congruence.
    + intros m' Hm' Hin. assert (X : existsb (fun m => existsb (Nat.eqb j) (fmd_outs m)) (fx_mods fx) = true).
      { apply existsb_exists. exists m'. split; [exact Hm'|]. apply existsb_exists. exists j. split; [exact Hin|apply Nat.eqb_refl]. }
      congruence.
  - intros H m Hm. rewrite forallb_forall. intros j Hj. unfold readable.
    destruct (f_bias fn <=? j) eqn:E; [reflexivity|]. apply Nat.leb_gt in E. simpl. apply negb_true_iff.
    destruct (H m j Hm Hj E) as [H1 H2]. unfold written. apply orb_false_iff. split.
    + destruct (existsb (fun c => fl_tgt c =? j) (f_conns fn)) eqn:X; [|reflexivity]. exfalso.
      apply existsb_exists in X. destruct X as (c & Hc & Et). apply Nat.eqb_eq in Et. exact (H1 c Hc Et).
    + destruct (existsb (fun m0 => existsb (Nat.eqb j) (fmd_outs m0)) (fx_mods fx)) eqn:X; [|reflexivity]. exfalso.
      apply existsb_exists in X. destruct X as (m' & Hm' & X). apply existsb_exists in X. destruct X as (j' & Hj' & Ee).
      apply Nat.eqb_eq in Ee. subst j'. exact (H2 m' Hm' Hj').
Qed.

Lemma bias_le_sensor' : f_bias fn <= f_sensor fn.
Proof. unfold f_sensor. lia. Qed.

Lemma from_sensor_PR j : from_sensor F fn j -> PR j.
Proof.
  unfold from_sensor, PR, readable. intros H. pose proof bias_le_sensor'.
  destruct (f_bias fn <=? j) eqn:E; [reflexivity|]. apply Nat.leb_gt in E. lia.
Qed.

Lemma neuron_range_PR i : In i (neuron_range fn) -> PR i.
Proof. intros H. apply from_sensor_PR. unfold neuron_range in H. apply in_seq in H. unfold from_sensor. lia. Qed.

(* ----- the module loop respects the relation ----- *)
Lemma write_outs_rsig P tgts : forall outs s1 s2,
  rsig F NF P s1 s2 ->
  rsig F NF P (fst (write_outs s1 outs tgts)) (fst (write_outs s2 outs tgts)) /\
  snd (write_outs s1 outs tgts) = snd (write_outs s2 outs tgts).
Proof.
  induction tgts as [|o tgts IH]; intros outs s1 s2 H; simpl; [auto|].
  destruct outs as [|v outs]; [auto|].
  assert (EL : length (fs_bp s1) = length (fs_bp s2)) by apply H. rewrite EL.
  destruct (o <? length (fs_bp s2)); [|auto].
  apply IH. apply set_bp_rsig_in; [exact H|reflexivity].
Qed.

Lemma module_step_rsig P m s1 s2 :
  rsig F NF P s1 s2 -> (forall j, In j (fmd_ins m) -> P j) ->
  rsig F NF P (fst (module_step NF mact s1 m)) (fst (module_step NF mact s2 m)) /\
  snd (module_step NF mact s1 m) = snd (module_step NF mact s2 m).
Proof.
  intros H HP. unfold module_step.
  assert (EL : length (fs_bp s1) = length (fs_bp s2)) by apply H. rewrite EL.
  destruct (forallb (fun i => i <? length (fs_bp s2)) (fmd_ins m)); [|auto].
  assert (E : map (bpF NF s1) (fmd_ins m) = map (bpF NF s2) (fmd_ins m)).
  { apply map_ext_in. intros j Hj. apply H. apply HP. exact Hj. }
  rewrite E. destruct (mact (fmd_act m) (map (bpF NF s2) (fmd_ins m))) as [outs| | | | |]; simpl; auto.
  apply write_outs_rsig. exact H.
Qed.

Lemma modules_loop_rsig P ms : forall s1 s2,
  rsig F NF P s1 s2 -> (forall m j, In m ms -> In j (fmd_ins m) -> P j) ->
  rsig F NF P (fst (modules_loop NF mact ms s1)) (fst (modules_loop NF mact ms s2)) /\
  snd (modules_loop NF mact ms s1) = snd (modules_loop NF mact ms s2).
Proof.
  induction ms as [|m rest IH]; intros s1 s2 H HP; simpl; [auto|].
  destruct (module_step_rsig P m s1 s2 H) as [Hr He]; [intros j Hj; apply (HP m j); simpl; auto|].
  destruct (module_step NF mact s1 m) as [a1 r1], (module_step NF mact s2 m) as [a2 r2]. simpl in Hr, He. subst r2.
  destruct r1; simpl; auto. apply IH; [exact Hr|]. intros m' j Hm Hj. apply (HP m' j); simpl; auto.
Qed.

Hypothesis FOK : flush_ok = true.

Lemma mods_read_PR m j : In m (fx_mods fx) -> In j (fmd_ins m) -> PR j.
Proof.
  intros Hm Hj. unfold flush_ok in FOK. rewrite forallb_forall in FOK. specialize (FOK m Hm).
  rewrite forallb_forall in FOK. exact (FOK j Hj).
Qed.

Lemma mforward_step_rsig d s1 s2 :
  rsig F NF PR s1 s2 ->
  rsig F NF PR (fst (mforward_step NF act mact fx d s1)) (fst (mforward_step NF act mact fx d s2)) /\
  snd (mforward_step NF act mact fx d s1) = snd (mforward_step NF act mact fx d s2).
Proof.
  intros H. unfold mforward_step.
  pose proof (fold_conn_step_rsig F NF PR (f_conns fn) s1 s2 H) as H1.
  destruct (fs_activate_rsig F NF act fn PR (neuron_range fn) _ _ H1 neuron_range_PR) as [H2 E2].
  destruct (fs_activate NF act fn (neuron_range fn) (fold_left (conn_step NF) (f_conns fn) s1)) as [a1 r1].
  destruct (fs_activate NF act fn (neuron_range fn) (fold_left (conn_step NF) (f_conns fn) s2)) as [a2 r2].
  simpl in H2, E2. subst r2. destruct r1; simpl; auto.
  destruct (modules_loop_rsig PR (fx_mods fx) a1 a2 H2 mods_read_PR) as [H3 E3].
  destruct (modules_loop NF mact (fx_mods fx) a1) as [b1 q1], (modules_loop NF mact (fx_mods fx) a2) as [b2 q2].
  simpl in H3, E3. subst q2. destruct q1; simpl; auto.
  destruct (fleb NF d (fzero NF)); simpl.
  - split; [|reflexivity]. apply fs_commit_rsig; [exact H3|exact neuron_range_PR].
  - destruct (fs_commit_delta_rsig F NF PR d (neuron_range fn) true b1 b2 H3 neuron_range_PR) as [H4 E4].
    destruct (fs_commit_delta NF d (neuron_range fn) true b1) as [c1 p1].
    destruct (fs_commit_delta NF d (neuron_range fn) true b2) as [c2 p2].
    simpl in *. subst p2. auto.
Qed.

Lemma mff_loop_rsig it : forall last s1 s2,
  rsig F NF PR s1 s2 ->
  rsig F NF PR (fst (mff_loop NF act mact fx it last s1)) (fst (mff_loop NF act mact fx it last s2)) /\
  snd (mff_loop NF act mact fx it last s1) = snd (mff_loop NF act mact fx it last s2).
Proof.
  induction it as [|it IH]; intros last s1 s2 H; simpl; [auto|].
  destruct (mforward_step_rsig (fzero NF) s1 s2 H) as [H1 E1].
  destruct (mforward_step NF act mact fx (fzero NF) s1) as [a1 r1], (mforward_step NF act mact fx (fzero NF) s2) as [a2 r2].
  simpl in *. subst r2. destruct r1; simpl; auto.
Qed.

Lemma mrelax_loop_rsig it d : forall last s1 s2,
  rsig F NF PR s1 s2 ->
  rsig F NF PR (fst (mrelax_loop NF act mact fx it d last s1)) (fst (mrelax_loop NF act mact fx it d last s2)) /\
  snd (mrelax_loop NF act mact fx it d last s1) = snd (mrelax_loop NF act mact fx it d last s2).
Proof.
  induction it as [|it IH]; intros last s1 s2 H; simpl; [auto|].
  destruct (mforward_step_rsig d s1 s2 H) as [H1 E1].
  destruct (mforward_step NF act mact fx d s1) as [a1 r1], (mforward_step NF act mact fx d s2) as [a2 r2].
  simpl in *. subst r2. destruct r1 as [[|]| | | | |]; simpl; auto.
Qed.

Lemma fast_load_rsig P x s1 s2 :
  rsig F NF P s1 s2 ->
  rsig F NF P (fst (fast_load NF fn x s1)) (fst (fast_load NF fn x s2)) /\
  snd (fast_load NF fn x s1) = snd (fast_load NF fn x s2).
Proof.
  intros H. unfold fast_load. destruct (length x =? f_in fn); simpl; auto.
  split; [|reflexivity]. generalize (seq 0 (f_in fn)). intros is. revert s1 s2 H.
  induction is as [|i rest IH]; intros s1 s2 H; simpl; [exact H|]. apply IH. apply set_sig_rsig. exact H.
Qed.

Lemma fast_flush_rsig P s1 s2 :
  rsig F NF P s1 s2 -> rsig F NF P (fst (fast_flush NF fn s1)) (fst (fast_flush NF fn s2)).
Proof.
  intros H. unfold fast_flush. simpl. generalize (seq (f_bias fn) (f_total fn - f_bias fn)). intros is.
  revert s1 s2 H. induction is as [|i rest IH]; intros s1 s2 H; simpl; [exact H|].
  apply IH. unfold flush_one. apply set_bp_rsig_in; [|reflexivity]. apply set_sig_rsig. exact H.
Qed.

(* with at least one module RecursiveSteps is an error that touches nothing *)
Hypothesis has_mods : fx_mods fx <> [].

Theorem mfast_step_respects o s1 s2 :
  rsig F NF PR s1 s2 ->
  rsig F NF PR (fst (mfast_step NF act mact fx s1 o)) (fst (mfast_step NF act mact fx s2 o)) /\
  snd (mfast_step NF act mact fx s1 o) = snd (mfast_step NF act mact fx s2 o).
Proof.
  intros H. destruct o as [x|k| |ms d|]; simpl.
  - apply fast_load_rsig. exact H.
  - apply mff_loop_rsig. exact H.
  - unfold mfast_recursive. destruct (fx_mods fx); [contradiction|]. simpl. auto.
  - apply mrelax_loop_rsig. exact H.
  - split; [|reflexivity]. apply fast_flush_rsig. exact H.
Qed.

Lemma mfast_outputs_respects P s1 s2 : rsig F NF P s1 s2 -> mfast_outputs NF fx s1 = mfast_outputs NF fx s2.
Proof.
  intros (H1 & _). unfold mfast_outputs, fast_outputs. apply map_ext. intros j. unfold sigF. now rewrite H1.
Qed.

Theorem mfast_trace_respects ops : forall s1 s2,
  rsig F NF PR s1 s2 -> mfast_trace NF act mact fx s1 ops = mfast_trace NF act mact fx s2 ops.
Proof.
  induction ops as [|o rest IH]; intros s1 s2 H; simpl; [reflexivity|].
  destruct (mfast_step_respects o s1 s2 H) as [Hr He].
  destruct (mfast_step NF act mact fx s1 o) as [a1 r1], (mfast_step NF act mact fx s2 o) as [a2 r2]. simpl in *.
  subst r2. rewrite (mfast_outputs_respects PR a1 a2 Hr). f_equal. apply IH. exact Hr.
Qed.

(* ----- invariants of every reachable state ----- *)
Definition low_clean (s : fstate) : Prop :=
  forall j, j < f_bias fn -> written j = false -> bpF NF s j = fzero NF.
Definition minv (s : fstate) : Prop := flens F s = full_lens F fn /\ bias_ok F NF fn s /\ low_clean s.

(* frames: what one forward step leaves alone *)
Lemma bp_set_bp_other (s : fstate) i v j : i <> j -> bpF NF (set_bp s i v) j = bpF NF s j.
Proof. intros H. unfold bpF, set_bp, getF. simpl. apply nth_upd_other. exact H. Qed.

Lemma bp_fold_conn cs j : (forall c, In c cs -> fl_tgt c <> j) ->
  forall s, bpF NF (fold_left (conn_step NF) cs s) j = bpF NF s j.
Proof.
  induction cs as [|c rest IH]; intros Hn s; simpl; [reflexivity|].
  rewrite IH by (intros c' Hc'; apply Hn; simpl; auto).
  unfold conn_step. apply bp_set_bp_other. apply Hn. simpl. auto.
Qed.

Lemma bp_fs_activate is j : (forall i, In i is -> i <> j) ->
  forall s, bpF NF (fst (fs_activate NF act fn is s)) j = bpF NF s j.
Proof.
  induction is as [|i rest IH]; intros Hn s; simpl; [reflexivity|].
  assert (Hi : i <> j) by (apply Hn; simpl; auto).
  destruct (act _ _); simpl; try (apply bp_set_bp_other; exact Hi).
  rewrite IH by (intros k Hk; apply Hn; simpl; auto). apply bp_set_bp_other. exact Hi.
Qed.

Lemma bp_fs_commit is j : (forall i, In i is -> i <> j) ->
  forall s, bpF NF (fs_commit NF is s) j = bpF NF s j.
Proof.
  induction is as [|i rest IH]; intros Hn s; simpl; [reflexivity|].
  rewrite IH by (intros k Hk; apply Hn; simpl; auto).
  unfold commit_one. rewrite bp_set_bp_other by (apply Hn; simpl; auto). reflexivity.
Qed.

Lemma bp_fs_commit_delta d is j : (forall i, In i is -> i <> j) ->
  forall r s, bpF NF (fst (fs_commit_delta NF d is r s)) j = bpF NF s j.
Proof.
  induction is as [|i rest IH]; intros Hn r s; simpl; [reflexivity|].
  rewrite IH by (intros k Hk; apply Hn; simpl; auto).
  unfold commit_one. rewrite bp_set_bp_other by (apply Hn; simpl; auto). reflexivity.
Qed.

Lemma bp_write_outs tgts j : ~ In j tgts ->
  forall outs s, bpF NF (fst (write_outs s outs tgts)) j = bpF NF s j.
Proof.
  induction tgts as [|o tgts IH]; intros Hn outs s; simpl; [reflexivity|].
  destruct outs as [|v outs]; [reflexivity|].
  destruct (o <? length (fs_bp s)); [|reflexivity].
  rewrite IH by (intros Hj; apply Hn; simpl; auto). apply bp_set_bp_other. intros E. apply Hn. simpl. auto.
Qed.

Lemma bp_modules_loop ms j : (forall m, In m ms -> ~ In j (fmd_outs m)) ->
  forall s, bpF NF (fst (modules_loop NF mact ms s)) j = bpF NF s j.
Proof.
  induction ms as [|m rest IH]; intros Hn s; simpl; [reflexivity|].
  assert (Hm : bpF NF (fst (module_step NF mact s m)) j = bpF NF s j).
  { unfold module_step. destruct (forallb _ _); [|reflexivity].
    destruct (mact _ _); simpl; try reflexivity. apply bp_write_outs. apply Hn. simpl. auto. }
  destruct (module_step NF mact s m) as [a r]. simpl in Hm.
  destruct r; simpl; try exact Hm. rewrite IH by (intros m' Hm'; apply Hn; simpl; auto). exact Hm.
Qed.

Lemma written_false_conn j : written j = false -> forall c, In c (f_conns fn) -> fl_tgt c <> j.
Proof.
  unfold written. intros H c Hc E. apply orb_false_iff in H. destruct H as [H _].
  assert (X : existsb (fun c => fl_tgt c =? j) (f_conns fn) = true).
  { apply existsb_exists. exists c. split; [exact Hc|]. apply Nat.eqb_eq. exact E. }
  congruence.
Qed.

Lemma written_false_mod j : written j = false -> forall m, In m (fx_mods fx) -> ~ In j (fmd_outs m).
Proof.
  unfold written. intros H m Hm Hj. apply orb_false_iff in H. destruct H as [_ H].
  assert (X : existsb (fun m => existsb (Nat.eqb j) (fmd_outs m)) (fx_mods fx) = true).
  { apply existsb_exists. exists m. split; [exact Hm|]. apply existsb_exists. exists j. split; [exact Hj|]. apply Nat.eqb_refl. }
  congruence.
Qed.

Lemma neuron_range_not_low i j : In i (neuron_range fn) -> j < f_bias fn -> i <> j.
Proof. unfold neuron_range. intros H Hj. apply in_seq in H. pose proof bias_le_sensor'. lia. Qed.

Lemma bp_mforward_step d s j : j < f_bias fn -> written j = false ->
  bpF NF (fst (mforward_step NF act mact fx d s)) j = bpF NF s j.
Proof.
  intros Hj Hw. unfold mforward_step.
  assert (Hn : forall i, In i (neuron_range fn) -> i <> j) by (intros i Hi; apply (neuron_range_not_low i j Hi Hj)).
  pose proof (bp_fs_activate (neuron_range fn) j Hn (fold_left (conn_step NF) (f_conns fn) s)) as H1.
  rewrite (bp_fold_conn (f_conns fn) j (written_false_conn j Hw)) in H1.
  destruct (fs_activate NF act fn (neuron_range fn) (fold_left (conn_step NF) (f_conns fn) s)) as [a r].
  simpl in H1. destruct r; simpl; try exact H1.
  pose proof (bp_modules_loop (fx_mods fx) j (written_false_mod j Hw) a) as H2.
  destruct (modules_loop NF mact (fx_mods fx) a) as [b q]. simpl in H2. rewrite H1 in H2.
  destruct q; simpl; try exact H2.
  destruct (fleb NF d (fzero NF)); simpl.
  - rewrite bp_fs_commit by exact Hn. exact H2.
  - pose proof (bp_fs_commit_delta d (neuron_range fn) j Hn true b) as H3.
    destruct (fs_commit_delta NF d (neuron_range fn) true b) as [c p]. simpl in *. congruence.
Qed.

(* lengths and signals *)
Lemma flens_write_outs tgts : forall outs s, flens F (fst (write_outs s outs tgts)) = flens F s.
Proof.
  induction tgts as [|o tgts IH]; intros outs s; simpl; [reflexivity|].
  destruct outs as [|v outs]; [reflexivity|]. destruct (o <? length (fs_bp s)); [|reflexivity].
  rewrite IH. unfold set_bp, flens. simpl. now rewrite upd_length.
Qed.

Lemma flens_modules_loop ms : forall s, flens F (fst (modules_loop NF mact ms s)) = flens F s.
Proof.
  induction ms as [|m rest IH]; intros s; simpl; [reflexivity|].
  assert (Hm : flens F (fst (module_step NF mact s m)) = flens F s).
  { unfold module_step. destruct (forallb _ _); [|reflexivity].
    destruct (mact _ _); simpl; try reflexivity. apply flens_write_outs. }
  destruct (module_step NF mact s m) as [a r]. simpl in Hm.
  destruct r; simpl; try exact Hm. rewrite IH. exact Hm.
Qed.

Lemma sig_write_outs tgts : forall outs (s : fstate), fs_sig (fst (write_outs s outs tgts)) = fs_sig s.
Proof.
  induction tgts as [|o tgts IH]; intros outs s; simpl; [reflexivity|].
  destruct outs as [|v outs]; [reflexivity|]. destruct (o <? length (fs_bp s)); [|reflexivity].
  rewrite IH. reflexivity.
Qed.

Lemma sig_modules_loop ms : forall s, fs_sig (fst (modules_loop NF mact ms s)) = fs_sig s.
Proof.
  induction ms as [|m rest IH]; intros s; simpl; [reflexivity|].
  assert (Hm : fs_sig (fst (module_step NF mact s m)) = fs_sig s).
  { unfold module_step. destruct (forallb _ _); [|reflexivity].
    destruct (mact _ _); simpl; try reflexivity. apply sig_write_outs. }
  destruct (module_step NF mact s m) as [a r]. simpl in Hm.
  destruct r; simpl; try exact Hm. rewrite IH. exact Hm.
Qed.

Lemma flens_mforward_step d s : flens F (fst (mforward_step NF act mact fx d s)) = flens F s.
Proof.
  unfold mforward_step.
  pose proof (flens_fs_activate F NF act fn (neuron_range fn) (fold_left (conn_step NF) (f_conns fn) s)) as H.
  rewrite (flens_fold_conn F NF) in H.
  destruct (fs_activate NF act fn (neuron_range fn) (fold_left (conn_step NF) (f_conns fn) s)) as [a r].
  simpl in H. destruct r; simpl; try exact H.
  pose proof (flens_modules_loop (fx_mods fx) a) as H2.
  destruct (modules_loop NF mact (fx_mods fx) a) as [b q]. simpl in H2. rewrite H in H2.
  destruct q; simpl; try exact H2.
  destruct (fleb NF d (fzero NF)); simpl.
  - now rewrite (flens_fs_commit F NF).
  - pose proof (flens_fs_commit_delta F NF d (neuron_range fn) true b) as H3.
    destruct (fs_commit_delta NF d (neuron_range fn) true b) as [c p]. simpl in *. congruence.
Qed.

Lemma sig_mforward_step d s j : j < f_sensor fn -> sigF NF (fst (mforward_step NF act mact fx d s)) j = sigF NF s j.
Proof.
  intros Hj. unfold mforward_step.
  assert (Hn : forall i, In i (neuron_range fn) -> i <> j).
  { intros i Hi. unfold neuron_range in Hi. apply in_seq in Hi. lia. }
  pose proof (sig_fs_activate F NF act fn (neuron_range fn) (fold_left (conn_step NF) (f_conns fn) s)) as H.
  rewrite (sig_fold_conn F NF) in H.
  destruct (fs_activate NF act fn (neuron_range fn) (fold_left (conn_step NF) (f_conns fn) s)) as [a r].
  simpl in H.
  assert (Ha : sigF NF a j = sigF NF s j) by (unfold sigF; now rewrite H).
  destruct r; simpl; try exact Ha.
  pose proof (sig_modules_loop (fx_mods fx) a) as H2.
  destruct (modules_loop NF mact (fx_mods fx) a) as [b q]. simpl in H2.
  assert (Hb : sigF NF b j = sigF NF s j) by (unfold sigF in *; now rewrite H2).
  destruct q; simpl; try exact Hb.
  destruct (fleb NF d (fzero NF)); simpl.
  - rewrite (sig_fs_commit F NF) by exact Hn. exact Hb.
  - pose proof (sig_fs_commit_delta F NF d (neuron_range fn) j Hn true b) as H3.
    destruct (fs_commit_delta NF d (neuron_range fn) true b) as [c p]. simpl in *. congruence.
Qed.

Lemma minv_mforward_step d s : minv s -> minv (fst (mforward_step NF act mact fx d s)).
Proof.
  intros (L & B & C). split; [rewrite flens_mforward_step; exact L|]. split.
  - intros j Hj. rewrite sig_mforward_step by (pose proof bias_le_sensor'; lia). apply B. exact Hj.
  - intros j Hj Hw. rewrite bp_mforward_step by assumption. apply C; assumption.
Qed.

Lemma minv_mff_loop it : forall last s, minv s -> minv (fst (mff_loop NF act mact fx it last s)).
Proof.
  induction it as [|it IH]; intros last s H; simpl; [exact H|].
  pose proof (minv_mforward_step (fzero NF) s H) as H1.
  destruct (mforward_step NF act mact fx (fzero NF) s) as [a r]. simpl in H1. destruct r; simpl; auto.
Qed.

Lemma minv_mrelax_loop it d : forall last s, minv s -> minv (fst (mrelax_loop NF act mact fx it d last s)).
Proof.
  induction it as [|it IH]; intros last s H; simpl; [exact H|].
  pose proof (minv_mforward_step d s H) as H1.
  destruct (mforward_step NF act mact fx d s) as [a r]. simpl in H1. destruct r as [[|]| | | | |]; simpl; auto.
Qed.

Lemma minv_fast_load x s : minv s -> minv (fst (fast_load NF fn x s)).
Proof.
  intros (L & B & C). split; [rewrite (flens_fast_load F NF); exact L|].
  unfold fast_load. destruct (length x =? f_in fn); simpl; [|auto].
  generalize (seq 0 (f_in fn)). intros is. revert s L B C.
  induction is as [|i rest IH]; intros s L B C; simpl; [auto|].
  apply IH.
  - rewrite <- L. unfold set_sig, flens. simpl. now rewrite upd_length.
  - intros j Hj. unfold sigF, set_sig, getF. simpl. rewrite nth_upd_other by lia. apply B. exact Hj.
  - exact C.
Qed.

Lemma minv_fast_flush s : minv s -> minv (fst (fast_flush NF fn s)).
Proof.
  intros (L & B & C). split; [rewrite (flens_fast_flush F NF); exact L|].
  unfold fast_flush. simpl.
  assert (G : forall is s, (forall i, In i is -> f_bias fn <= i) -> bias_ok F NF fn s -> low_clean s ->
              bias_ok F NF fn (fold_left (flush_one NF) is s) /\ low_clean (fold_left (flush_one NF) is s)).
  { induction is as [|i rest IH]; intros s0 Hi B0 C0; simpl; [auto|].
    specialize (Hi i (or_introl eq_refl)) as Hii.
    apply IH; [intros k Hk; apply Hi; simpl; auto| |].
    - intros j Hj. unfold flush_one, sigF, set_bp, set_sig, getF. simpl.
      rewrite nth_upd_other by lia. apply B0. exact Hj.
    - intros j Hj Hw. unfold flush_one. rewrite bp_set_bp_other by lia.
      unfold bpF, set_sig. simpl. apply C0; assumption. }
  apply G; auto. intros i Hi. apply in_seq in Hi. lia.
Qed.

Lemma minv_mfast_step s o : minv s -> minv (fst (mfast_step NF act mact fx s o)).
Proof.
  intros H. destruct o as [x|k| |ms d|]; simpl.
  - apply minv_fast_load. exact H.
  - apply minv_mff_loop. exact H.
  - unfold mfast_recursive. destruct (fx_mods fx); [contradiction|]. exact H.
  - apply minv_mrelax_loop. exact H.
  - apply minv_fast_flush. exact H.
Qed.

Lemma minv_mfast_run h : forall s, minv s -> minv (mfast_run NF act mact fx s h).
Proof.
  unfold mfast_run. induction h as [|o rest IH]; intros s H; simpl; [exact H|]. apply IH. apply minv_mfast_step. exact H.
Qed.

Lemma minv_init : minv (fast_init NF fn).
Proof.
  destruct (finv_init F NF fn sensor_le_total) as (L & B & _). split; [exact L|]. split; [exact B|].
  intros j Hj _. unfold bpF, fast_init, getF. simpl. apply nth_repeat.
Qed.

(* Flush brings every reachable state back to a state related to the initial one *)
Lemma mfast_flush_init s : minv s -> rsig F NF PR (fst (fast_flush NF fn s)) (fast_init NF fn).
Proof.
  intros (L & B & C). pose proof bias_le_sensor' as HB.
  unfold flens, full_lens in L. injection L as L1 L2 L3 L4 L5.
  unfold fast_flush. simpl.
  destruct (flush_fields F NF (seq (f_bias fn) (f_total fn - f_bias fn)) s) as (E1 & E2 & E3).
  assert (Hin : forall j, f_bias fn <= j < f_total fn -> In j (seq (f_bias fn) (f_total fn - f_bias fn))).
  { intros j Hj. apply in_seq. lia. }
  unfold rsig, bpF. rewrite E1, E2. unfold fast_init. simpl.
  repeat split.
  - apply nth_ext with (d := fzero NF) (d' := fzero NF).
    + rewrite fold_upd_length, app_length, !repeat_length. lia.
    + intros j Hj. rewrite fold_upd_length in Hj.
      destruct (Nat.lt_ge_cases j (f_bias fn)) as [Hlt|Hge].
      * rewrite fold_upd_below by (intros i Hi E; apply in_seq in Hi; lia).
        rewrite app_nth1 by (rewrite repeat_length; exact Hlt). rewrite nth_repeat_lt by exact Hlt. apply B. exact Hlt.
      * rewrite (fold_upd_at (fun _ => fzero NF)); [|apply seq_NoDup|apply Hin; lia|lia].
        rewrite app_nth2 by (rewrite repeat_length; exact Hge). now rewrite nth_repeat.
  - rewrite fold_upd_length, repeat_length. exact L2.
  - intros j Hj. unfold getF. rewrite nth_repeat.
    destruct (Nat.lt_ge_cases j (f_bias fn)) as [Hlow|Hhigh].
    + (* a slot below the bias count: readable only because nothing ever writes it *)
      rewrite fold_upd_below by (intros i Hi E; apply in_seq in Hi; lia).
      unfold PR, readable in Hj. destruct (f_bias fn <=? j) eqn:E; [apply Nat.leb_le in E; lia|].
      simpl in Hj. apply negb_true_iff in Hj. exact (C j Hlow Hj).
    + destruct (Nat.lt_ge_cases j (f_total fn)) as [Hlt|Hge].
      * rewrite (fold_upd_at (fun _ => fzero NF)); [reflexivity|apply seq_NoDup|apply Hin; lia|lia].
      * apply nth_overflow. rewrite fold_upd_length. lia.
Qed.

Theorem mfast_flush_fresh_mods (h ops : list (op F)) :
  mfast_trace NF act mact fx (fst (fast_flush NF fn (mfast_run NF act mact fx (mfast_init NF fx) h))) ops =
  mfast_trace NF act mact fx (mfast_init NF fx) ops.
Proof.
  apply mfast_trace_respects. apply mfast_flush_init. apply minv_mfast_run. apply minv_init.
Qed.

End Flush.

(* C13 for the modular fast solver, with or without modules *)
Theorem mfast_flush_fresh (fx : fmnet F) :
  f_sensor (fx_net fx) <= f_total (fx_net fx) -> flush_ok fx = true ->
  forall h ops : list (op F),
    mfast_trace NF act mact fx (fst (fast_flush NF (fx_net fx) (mfast_run NF act mact fx (mfast_init NF fx) h))) ops =
    mfast_trace NF act mact fx (mfast_init NF fx) ops.
Proof.
  intros HS HF h ops. destruct (fx_mods fx) as [|m ms] eqn:E.
  - rewrite (mfast_run_nil fx E), !(mfast_trace_nil fx E). unfold mfast_init.
    exact (fast_flush_fresh F NF act (fx_net fx) HS h ops).
  - apply mfast_flush_fresh_mods; [exact HS|exact HF|]. rewrite E. discriminate.
Qed.

End ModSpecFast.
