(* C02, "succeeds without error", population level: under the registry invariant of C03 (every
   genome of the heap well-formed, consistent with the innovation environment, all of them
   relatives), the book-keeping invariant of C02 and a tape of genuine draws, the per-baby body of
   Species.reproduce returns Ok or runs out of tape; hence so do the breeding loop and the whole
   epoch turnover. *)
From NeatModel Require Import Compat.
From NeatModel Require Import Res F64 GoRand Genome Options Insert Dup Mutate Mate Population InsertSpec WF
     MutateMonad MutateFrame MutateSpec MutateWF MateSpec MateWF Registry
     PopBase PopPrepare PopRepro PopFinal PopInv PopNoErr PopWF TapeLocal
     EpochTotalDefs EpochTotalFloat EpochTotalMut.
From Coq Require Import Lia Permutation.

Notation innovs := Genome.innovs.

(* ------------------------------------------------------------------------------------------ *)
(* 1. small facts                                                                               *)
(* ------------------------------------------------------------------------------------------ *)
Lemma tot_int31n n s : 0 < n -> tot (fun k s' => 0 <= k < n /\ tstep s s') (r_int31n n s).
Proof.
  intros Hn. unfold r_int31n. destruct (Z.leb_spec n 0); [lia|]. apply tot_on_tape; [apply rl_int31n| |].
  - apply tape_int31n_safe.
  - intros a t'. now apply tape_int31n_range.
Qed.

(* a computation known to return Ok or OutOfTape, that leaves the environment alone and only consumes tape *)
Lemma tot_of_total {A} (m : @M st A) s :
  (exists a s', m s = Ok (a, s')) \/ m s = OutOfTape -> env_pres m -> tape_local m ->
  tot (fun _ s' => tstep s s') (m s).
Proof.
  intros [(a & s' & E)|E] Hep Htl; rewrite E; [|exact I]. cbn. split; [exact (Hep _ _ _ E)|].
  destruct s as [t e], s' as [t' e']. destruct (Htl _ _ _ _ _ E) as (u & -> & _). cbn [s_tape]. apply tape_ok_app.
Qed.

Lemma hdom_ext {A} (f : organism -> A) h h' k : hext f h h' -> hdom h k -> hdom h' k.
Proof.
  intros F (x & Hx). pose proof (hview_get f _ _ _ Hx) as V. apply F in V.
  apply hview_some in V. destruct V as (y & Hy & _). now exists y.
Qed.

(* a species the breeding loop can draw parents from *)
Definition sp_good (h : list organism) (y : species) : Prop := sp_orgs y <> [] /\ dom_sp h y.

Lemma sp_good_ext {A} (f : organism -> A) h h' y : hext f h h' -> sp_good h y -> sp_good h' y.
Proof. intros F [Ne D]. split; [exact Ne|]. intros k Hk. eapply hdom_ext; eauto. Qed.

Lemma sp_good_member h y k : sp_good h y -> 0 <= k < zlen (sp_orgs y) -> exists mk x, idx (sp_orgs y) k = Ok mk /\ hget h mk = Ok x.
Proof.
  intros [_ D] Hk. destruct (idx_ok (sp_orgs y) k Hk) as (mk & E & N). destruct (D mk) as [x Hx]; [eapply nth_error_In; eauto|].
  exists mk, x. auto.
Qed.

Section Baby.
  Variable C : ctx.
  Variable o : options.
  Hypothesis HA : act_safe o.

  Definition nC : Z := zlen (c_tshape C).

  Lemma gok_traits_len e R NR g : gok C e R NR g -> zlen (traits g) = nC.
  Proof.
    intros G. unfold nC. rewrite <- (gk_tshape _ _ _ _ _ G). unfold tshape, zlen. now rewrite map_length.
  Qed.

  (* registry, heap and state invariant of the breeding loop *)
  Definition binv (R : reg) (NR : nreg) (h : list organism) (s : st) : Prop :=
    rok C (s_env s) R NR /\ hall (gok C (s_env s) R NR) h /\ sgood nC s.

  Lemma binv_env R NR h s s1 : s_env s1 = s_env s -> sgood nC s1 -> binv R NR h s -> binv R NR h s1.
  Proof. intros E G (A & B & _). unfold binv. rewrite E. auto. Qed.

  (* ---------------------------------------------------------------------------------------- *)
  (* 2. the mutation cascade                                                                    *)
  (* ---------------------------------------------------------------------------------------- *)
  Lemma tot_link_weights_g pw rt ga e R NR g s :
    gok C e R NR g -> sgood nC s -> tot (fun _ s' => sgood nC s') (mutate_link_weights pw rt ga g s).
  Proof. intros G S. apply (tot_t_g nC _ s); [exact S|]. apply tot_link_weights, (wf_nonempty g (gk_wf _ _ _ _ _ G)). Qed.

  Lemma tot_add_link_g e R NR g s :
    gok C e R NR g -> sgood nC s -> tot (fun _ s' => sgood nC s') (mutate_add_link o g s).
  Proof. intros G S. apply tot_add_link; [apply (gk_wf _ _ _ _ _ G)|eapply gok_traits_len; eauto|exact S]. Qed.

  Lemma tot_mutate_baby R NR g s :
    rok C (s_env s) R NR -> gok C (s_env s) R NR g -> sgood nC s -> tot (fun _ s' => sgood nC s') (mutate_baby o g s).
  Proof.
    intros RO G S. pose proof (gk_wf _ _ _ _ _ G) as W. pose proof (gok_traits_len _ _ _ _ G) as Ht.
    unfold mutate_baby.
    eapply tot_bind_g; [exact S|apply tot_true_t, tot_float64|]. intros r1 s1 E1 _ S1. apply ep_float64 in E1.
    destruct (PrimFloat.ltb r1 _).
    { eapply tot_bind; [apply tot_add_node; eauto|]. intros r s2 _ S2. apply tot_ret, S2. }
    eapply tot_bind_g; [exact S1|apply tot_true_t, tot_float64|]. intros r2 s2 E2 _ S2. apply ep_float64 in E2.
    destruct (PrimFloat.ltb r2 _).
    { eapply tot_bind; [apply tot_add_link; eauto|]. intros r s3 _ S3. apply tot_ret, S3. }
    eapply tot_bind_g; [exact S2|apply tot_true_t, tot_float64|]. intros r3 s3 E3 _ S3. apply ep_float64 in E3.
    assert (RO3 : rok C (s_env s3) R NR) by (rewrite E3, E2, E1; exact RO).
    assert (G3 : gok C (s_env s3) R NR g) by (rewrite E3, E2, E1; exact G).
    eapply tot_bind with (P := fun gs s4 => gpre s4 (fst gs) /\ sgood nC s4).
    { destruct (PrimFloat.ltb r3 _).
      - apply tot_add_spec; [apply tot_connect_sensors; eauto|]. intros [g1 b1] s4 E4.
        destruct (connect_sensors_step mutators_ok_holds C R NR _ _ _ _ _ RO3 G3 E4) as (R' & NR' & _ & _ & _ & G4).
        split; [apply (gk_wf _ _ _ _ _ G4)|apply (gk_env _ _ _ _ _ G4)].
      - apply tot_ret. split; [|exact S3]. split; [exact W|apply (gk_env _ _ _ _ _ G3)]. }
    intros [g1 structural] s4 _ [G4 S4]. cbn [fst] in G4. destruct structural; [apply tot_ret, S4|].
    eapply tot_bind; [apply tot_all_nonstructural, G4|]. intros r s5 _ [_ T5]. apply tot_ret. eapply sgood_tstep; eauto.
  Qed.

  (* ---------------------------------------------------------------------------------------- *)
  (* 3. the interspecies draw                                                                   *)
  (* ---------------------------------------------------------------------------------------- *)
  Lemma r_float64_unit s r s1 : tape_ok (s_tape s) -> r_float64 s = Ok (r, s1) -> unit_float r.
  Proof.
    intros T H. unfold r_float64 in H. apply on_tape_inv in H. destruct H as (t' & H & _).
    exact (proj1 (tape_float64_unit _ _ _ T H)).
  Qed.

  Lemma tot_pick_other self sorted : 1 <= zlen sorted < 2 ^ 31 -> forall tries cur s, tape_ok (s_tape s) ->
    tot (fun id s' => (id = cur \/ In id sorted) /\ tstep s s') (pick_other_species tries self sorted cur s).
  Proof.
    intros Hl. induction tries as [|k IH]; intros cur s T; cbn [pick_other_species].
    - apply tot_ret. split; [now left|apply tstep_refl].
    - destruct (negb _); [apply tot_ret; split; [now left|apply tstep_refl]|].
      eapply tot_bind_tv; [apply tot_true_t, tot_float64|]. intros r s1 E1 _ T1. cbv zeta.
      pose proof (r_float64_unit _ _ _ T E1) as Ur.
      destruct (idx_ok sorted _ (interspecies_index_ok r (zlen sorted) Ur Hl)) as (id & Ei & Ni).
      rewrite (bindM_lift_ok _ _ _ _ Ei).
      eapply tot_mono; [apply IH, (proj2 T1 T)|]. intros id' s' _ [[->|Hin] T']; (split; [right|exact T']); auto.
      eapply nth_error_In; eauto.
  Qed.

  (* ---------------------------------------------------------------------------------------- *)
  (* 4. one baby                                                                                *)
  (* ---------------------------------------------------------------------------------------- *)
  Lemma tot_mate_gen avg R NR p1 p2 id f1 f2 s :
    rok C (s_env s) R NR -> gok C (s_env s) R NR p1 -> gok C (s_env s) R NR p2 ->
    tot (fun _ s' => tstep s s') (mate_multipoint_gen avg p1 p2 id f1 f2 s).
  Proof.
    intros RO G1 G2. apply tot_of_total; [|apply ep_mate_multipoint_gen|apply tl_mate_multipoint_gen].
    apply mp_total, relatives_mate_hyps. eapply gok_relatives; eauto.
  Qed.

  Lemma tot_mate_single R NR p1 p2 id s :
    rok C (s_env s) R NR -> gok C (s_env s) R NR p1 -> gok C (s_env s) R NR p2 ->
    tot (fun _ s' => tstep s s') (mate_singlepoint p1 p2 id s).
  Proof.
    intros RO G1 G2. apply tot_of_total; [|apply ep_mate_singlepoint|apply tl_mate_singlepoint].
    apply sp_total; [apply relatives_mate_hyps; eapply gok_relatives; eauto|apply (wf_nonempty _ (gk_wf _ _ _ _ _ G1))
                    |apply (wf_nonempty _ (gk_wf _ _ _ _ _ G2))].
  Qed.

  Section OneBaby.
    Variables (gen : Z) (all : list species) (sorted : list Z).
    Hypothesis Hsorted : 1 <= zlen sorted < 2 ^ 31.

    (* every id of the order list resolves to a species parents can be drawn from *)
    Definition find_good (h : list organism) : Prop :=
      forall id, In id sorted -> exists y, sp_find all id = Some y /\ sp_good h y.

    Lemma tot_one_baby sp count rs s R NR :
      sp_good (r_heap rs) sp -> In (sp_id sp) sorted -> find_good (r_heap rs) ->
      binv R NR (r_heap rs) s ->
      tot (fun _ s' => sgood nC s') (one_baby o gen all sorted sp count rs s).
    Proof.
      intros Gsp Hin Hfind (RO & Hh & S). unfold one_baby. cbv zeta.
      destruct (first_org_total (r_heap rs) sp (proj1 Gsp) (proj2 Gsp)) as [champ Ec].
      rewrite (bindM_lift_ok _ _ _ _ Ec).
      assert (Gc : gok C (s_env s) R NR (o_genome champ)) by (eapply first_org_hall; eauto).
      assert (Dup : forall x, gok C (s_env s) R NR x -> duplicate x count = Ok (with_id x count)).
      { intros x Gx. apply duplicate_wf, (gk_wf _ _ _ _ _ Gx). }
      assert (Pool : 0 < zlen (sp_orgs sp)) by (apply zlen_pos, (proj1 Gsp)).
      destruct (Z.gtb (o_super champ) 0).
      { (* super champion offspring *)
        rewrite (bindM_lift_ok _ _ _ _ (Dup _ Gc)).
        pose proof (gok_with_id _ _ _ _ _ count Gc) as G0.
        eapply tot_bind with (P := fun _ s' => sgood nC s').
        - destruct (Z.gtb (o_super champ) 1); [|apply tot_ret, S].
          eapply tot_bind_g; [exact S|apply tot_true_t, tot_float64|]. intros r s1 E1 _ S1. apply ep_float64 in E1.
          destruct (_ || _).
          + eapply tot_bind; [eapply tot_link_weights_g; eauto|]. intros x s2 _ S2. apply tot_ret, S2.
          + eapply tot_bind; [eapply tot_add_link_g; eauto|]. intros x s2 _ S2. apply tot_ret, S2.
        - intros [g1 ms] s1 _ S1. apply tot_ret, S1. }
      destruct (_ && _).
      { rewrite (bindM_lift_ok _ _ _ _ (Dup _ Gc)). apply tot_ret, S. }
      eapply tot_bind_g; [exact S|apply tot_true_t, tot_float64|]. intros r s1 E1 _ S1. apply ep_float64 in E1.
      assert (B1 : binv R NR (r_heap rs) s1) by (eapply binv_env; [exact E1|exact S1|exact (conj RO (conj Hh S))]).
      clear RO Hh S Gc Dup. destruct B1 as (RO & Hh & S).
      assert (Dup : forall s0 x, s_env s0 = s_env s1 -> gok C (s_env s0) R NR x -> duplicate x count = Ok (with_id x count)).
      { intros s0 x _ Gx. apply duplicate_wf, (gk_wf _ _ _ _ _ Gx). }
      destruct (_ || _).
      { (* mutation only *)
        eapply tot_bind_g; [exact S|apply tot_int31n, Pool|]. intros k s2 E2 Hk S2. apply ep_int31n in E2.
        destruct (sp_good_member _ _ k Gsp Hk) as (mk & mom & Emk & Emom).
        rewrite (bindM_lift_ok _ _ _ _ Emk), (bindM_lift_ok _ _ _ _ Emom).
        assert (Gm : gok C (s_env s2) R NR (o_genome mom)) by (rewrite E2; eapply hall_hget; eauto).
        rewrite (bindM_lift_ok _ _ _ _ (Dup s2 _ E2 Gm)).
        eapply tot_bind; [apply (tot_mutate_baby R NR); [rewrite E2; exact RO|apply gok_with_id, Gm|exact S2]|].
        intros gm s3 _ S3. apply tot_ret, S3. }
      (* mating *)
      eapply tot_bind_g; [exact S|apply tot_int31n, Pool|]. intros k s2 E2 Hk S2. apply ep_int31n in E2.
      destruct (sp_good_member _ _ k Gsp Hk) as (mk & mom & Emk & Emom).
      rewrite (bindM_lift_ok _ _ _ _ Emk), (bindM_lift_ok _ _ _ _ Emom).
      eapply tot_bind_g; [exact S2|apply tot_true_t, tot_float64|]. intros r2 s3 E3 _ S3. apply ep_float64 in E3.
      assert (E31 : s_env s3 = s_env s1) by congruence.
      eapply tot_bind with (P := fun dad s4 => s_env s4 = s_env s1 /\ sgood nC s4 /\ exists kd, hget (r_heap rs) kd = Ok dad).
      { destruct (PrimFloat.ltb _ r2).
        - eapply tot_bind; [apply tot_int31n, Pool|]. intros k2 s4 E4 [Hk2 T4]. apply ep_int31n in E4.
          destruct (sp_good_member _ _ k2 Gsp Hk2) as (dk & dad & Edk & Edad).
          rewrite (bindM_lift_ok _ _ _ _ Edk). apply (tot_lift _ dad); [exact Edad|].
          split; [congruence|]. split; [eapply sgood_tstep; eauto|eauto].
        - eapply tot_bind; [apply (tot_pick_other (sp_id sp) sorted Hsorted 5 (sp_id sp) s3), (proj2 S3)|].
          intros sid s4 E4 [Hsid T4]. apply ep_pick_other_species in E4.
          assert (Hs : In sid sorted) by (destruct Hsid as [->|Hs]; assumption).
          destruct (Hfind sid Hs) as (y & Ey & Gy). rewrite Ey.
          destruct (first_org_total (r_heap rs) y (proj1 Gy) (proj2 Gy)) as [dad Ed].
          apply (tot_lift _ dad); [exact Ed|]. split; [congruence|]. split; [eapply sgood_tstep; eauto|].
          apply first_org_ok in Ed. destruct Ed as (kd & rd & _ & Hd). eauto. }
      intros dad s4 _ (E4 & S4 & kd & Hd).
      assert (RO4 : rok C (s_env s4) R NR) by (rewrite E4; exact RO).
      assert (Gm : gok C (s_env s4) R NR (o_genome mom)) by (rewrite E4; eapply hall_hget; eauto).
      assert (Gd : gok C (s_env s4) R NR (o_genome dad)) by (rewrite E4; eapply hall_hget; eauto).
      eapply tot_bind_g; [exact S4|apply tot_true_t, tot_float64|]. intros r3 s5 E5 _ S5. apply ep_float64 in E5.
      assert (RO5 : rok C (s_env s5) R NR) by (rewrite E5; exact RO4).
      assert (Gm5 : gok C (s_env s5) R NR (o_genome mom)) by (rewrite E5; exact Gm).
      assert (Gd5 : gok C (s_env s5) R NR (o_genome dad)) by (rewrite E5; exact Gd).
      eapply tot_bind with (P := fun child s6 => (s_env s6 = s_env s5 /\ gok C (s_env s5) R NR child) /\ sgood nC s6).
      { destruct (PrimFloat.ltb r3 _).
        - apply tot_add_spec; [apply (tot_t_g nC _ s5 S5), (tot_mate_gen false R NR); assumption|].
          intros child s6 E6. exact (mate_multipoint_gen_gok C _ R NR false _ _ _ _ _ _ _ _ RO5 Gm5 Gd5 E6).
        - eapply tot_bind; [apply tot_float64|]. intros r4 s6 E6 T6. cbv beta in T6.
          pose proof (sgood_tstep _ _ _ S5 T6) as S6. apply ep_float64 in E6.
          rewrite <- E6 in RO5, Gm5, Gd5 |- *.
          destruct (PrimFloat.ltb r4 _).
          + apply tot_add_spec; [apply (tot_t_g nC _ s6 S6), (tot_mate_gen true R NR); assumption|].
            intros child s7 E7. exact (mate_multipoint_gen_gok C _ R NR true _ _ _ _ _ _ _ _ RO5 Gm5 Gd5 E7).
          + apply tot_add_spec; [apply (tot_t_g nC _ s6 S6), (tot_mate_single R NR); assumption|].
            intros child s7 E7. exact (mate_singlepoint_gok C _ R NR _ _ _ _ _ _ RO5 Gm5 Gd5 E7). }
      intros child s6 _ ((E6 & Gch) & S6).
      eapply tot_bind_g; [exact S6|apply tot_true_t, tot_float64|]. intros r5 s7 E7 _ S7. apply ep_float64 in E7.
      eapply tot_bind with (P := fun _ s8 => sgood nC s8).
      { destruct (_ || _); [|apply tot_ret, S7].
        apply (tot_mutate_baby R NR); [rewrite E7, E6; exact RO5|rewrite E7, E6; exact Gch|exact S7]. }
      intros gm s8 _ S8. apply tot_ret, S8.
    Qed.

    (* ---------------------------------------------------------------------------------------- *)
    (* 5. the breeding loops                                                                      *)
    (* ---------------------------------------------------------------------------------------- *)
    Lemma find_good_ext {A} (f : organism -> A) h h' : hext f h h' -> find_good h -> find_good h'.
    Proof. intros X Hf id Hid. destruct (Hf id Hid) as (y & Ey & Gy). exists y. split; [exact Ey|eapply sp_good_ext; eauto]. Qed.

    Lemma tot_reproduce_loop sp h0 key0 : sp_good h0 sp -> In (sp_id sp) sorted -> find_good h0 ->
      forall n count rs s R NR, rs_ok h0 key0 rs -> binv R NR (r_heap rs) s ->
      tot (fun rs' s' => exists R' NR', binv R' NR' (r_heap rs') s') (reproduce_loop n o gen all sorted sp count rs s).
    Proof.
      intros Gsp Hin Hf. induction n as [|n IH]; intros count rs s R NR Rs B; cbn [reproduce_loop].
      - apply tot_ret. eauto.
      - pose proof (ro_ext _ _ _ Rs) as X.
        eapply tot_bind.
        + apply tot_add_spec with (Q := fun rs1 s1 => rs_ok h0 key0 rs1 /\ pop_step C (s_env s) (s_env s1) R NR (r_heap rs1)).
          * apply (tot_one_baby sp count rs s R NR); [eapply sp_good_ext; eauto|exact Hin|eapply find_good_ext; eauto|exact B].
          * intros rs1 s1 E1. split; [exact (proj1 (PopRepro.one_baby_ok o gen all sorted sp count h0 key0 rs Rs _ _ _ E1))|].
            destruct B as (RO & Hh & _). exact (PopWF.one_baby_ok mutators_ok_holds C o gen all sorted sp count rs s rs1 s1 R NR RO Hh E1).
        + intros rs1 s1 _ ((Rs1 & (R' & NR' & _ & _ & RO' & Hh')) & S1). cbv beta.
          apply (IH (count + 1) rs1 s1 R' NR' Rs1). exact (conj RO' (conj Hh' S1)).
    Qed.

    Lemma tot_reproduce_species sp h key s R NR :
      sp_good h sp -> In (sp_id sp) sorted -> find_good h -> hbound h key -> binv R NR h s ->
      tot (fun r s' => exists R' NR', binv R' NR' (fst (fst r)) s') (reproduce_species o gen all sorted sp h key s).
    Proof.
      intros Gsp Hin Hf Hb B. unfold reproduce_species. destruct (sp_orgs sp) as [|k0 r0] eqn:E; [destruct (proj1 Gsp E)|].
      cbn [length Nat.eqb]. rewrite andb_false_r.
      assert (R0 : rs_ok h key {| r_heap := h; r_key := key; r_babies := []; r_clone_done := false |}).
      { constructor; cbn; auto using hext_refl; [lia|now rewrite zrange_nil|intros; lia|intros; lia]. }
      eapply tot_bind; [apply (tot_reproduce_loop sp h key Gsp Hin Hf _ 0 _ s R NR R0); exact B|].
      intros rs s1 _ H. apply tot_ret. exact H.
    Qed.

    Lemma tot_reproduce_all best hP : find_good hP -> forall l h key babies br s R NR,
      (forall sp, In sp l -> sp_good hP sp /\ In (sp_id sp) sorted) -> hext pe hP h -> hbound h key -> binv R NR h s ->
      tot (fun _ _ => True) (reproduce_all o gen all sorted best l h key babies br s).
    Proof.
      intros Hf. induction l as [|sp l IH]; intros h key babies br s R NR Hl X Hb B; cbn [reproduce_all]; [exact I|].
      destruct (Hl sp (or_introl eq_refl)) as [Gsp Hin].
      eapply tot_bind.
      - apply tot_add_spec with (Q := fun r s1 => bred h key (fst (fst r)) (snd (fst r))).
        + apply (tot_reproduce_species sp h key s R NR); [eapply sp_good_ext; eauto|exact Hin|eapply find_good_ext; eauto|exact Hb|exact B].
        + intros [[h1 key1] bs] s1 E1. exact (proj1 (PopRepro.reproduce_species_ok o gen all sorted sp h key Hb _ _ _ E1)).
      - intros [[h1 key1] bs] s1 _ (Br & (R' & NR' & B1)). cbn [fst snd] in Br, B1.
        apply (IH h1 key1 _ _ s1 R' NR'); [intros y Hy; apply Hl; now right| |apply (br_bound _ _ _ _ Br)|exact B1].
        eapply hext_trans; [exact X|apply (br_ext _ _ _ _ Br)].
    Qed.
  End OneBaby.
End Baby.

(* ------------------------------------------------------------------------------------------ *)
(* 6. what prepareForReproduction hands to the breeding loop                                    *)
(* ------------------------------------------------------------------------------------------ *)
Lemma remove_org_ids l sid k l' : remove_org l sid k = Ok l' -> map sp_id l' = map sp_id l.
Proof.
  unfold remove_org. destruct (sp_find l sid) as [y|]; [|discriminate]. destruct (_ && _); [|discriminate].
  intros H. injection H as <-. apply sp_replace_ids.
Qed.

Lemma remove_from_species_ids p x p1 :
  remove_from_species p x = Ok p1 -> map sp_id (p_species p1) = map sp_id (p_species p).
Proof.
  unfold remove_from_species. destruct (sp_find (p_species p) (o_species x)); intros H; rbind H as l E; injection H as <-; cbn.
  - eapply remove_org_ids; eauto.
  - reflexivity.
Qed.

Lemma purge_loop_ids : forall ks p keep p6,
  purge_organisms_loop p ks keep = Ok p6 -> map sp_id (p_species p6) = map sp_id (p_species p).
Proof.
  induction ks as [|k ks IH]; intros p keep p6 H; cbn [purge_organisms_loop] in H.
  - injection H as <-. reflexivity.
  - rbind H as y Hy. destruct (o_elim y).
    + rbind H as p1 H1. rewrite (IH _ _ _ H). eapply remove_from_species_ids; eauto.
    + eapply IH; eauto.
Qed.

(* the order list names exactly the species that are left *)
Lemma prepare_sorted_ids o p s p6 sorted best s' :
  prepare o p s = Ok ((p6, sorted, best), s') -> Permutation sorted (map sp_id (p_species p6)).
Proof.
  unfold prepare. intros H.
  mb H as r s1 Ha. ml Ha. destruct r as [h1 sps1].
  mb H as p2 s2 Hz. ml Hz.
  destruct (sort_desc (species_lt (p_heap p2)) (p_species p2)) as [|b rest] eqn:Sd; [discriminate|].
  mb H as c s3 Hc. ml Hc. cbv zeta in H.
  mb H as p5 s5 H5. mb H as p6' s6 H6. ml H6.
  apply ret_inv in H. destruct H as [H _]. injection H as <- <- _.
  unfold purge_organisms in H6. rewrite (purge_loop_ids _ _ _ _ H6).
  assert (E5 : map sp_id (p_species p5) = map sp_id (p_species p2)).
  { destruct (PrimFloat.ltb (p_highest _) _);
      (destruct (Z.geb _ _);
       [ml H5; rewrite (forall2_sim_ids _ _ (sf_species _ _ (delta_coding_ok _ _ _ _ H5))); reflexivity|
        destruct (Z.gtb _ _);
        [rewrite (forall2_sim_ids _ _ (sf_species _ _ (give_babies_ok _ _ _ _ _ _ H5))); reflexivity|
         apply ret_inv in H5; destruct H5 as [<- _]; reflexivity]]). }
  rewrite E5. change (sp_id b :: map sp_id rest) with (map sp_id (b :: rest)). rewrite <- Sd.
  apply Permutation_map, sort_desc_perm.
Qed.

Lemma length_le_members l : (forall y, In y l -> sp_orgs y <> []) -> (length l <= length (members l))%nat.
Proof.
  induction l as [|y l IH]; intros H; [cbn; lia|]. change (members (y :: l)) with (sp_orgs y ++ members l).
  rewrite app_length. specialize (IH (fun z Hz => H z (or_intror Hz))). pose proof (H y (or_introl eq_refl)).
  destruct (sp_orgs y); [congruence|]. cbn [length]. lia.
Qed.

(* no more species than organisms *)
Lemma species_le_orgs l (ks : list Z) :
  NoDup (members l) -> (forall y k, In y l -> In k (sp_orgs y) -> In k ks) ->
  (forall y, In y l -> sp_orgs y <> []) -> (length l <= length ks)%nat.
Proof.
  intros Hn Hi Ne. etransitivity; [apply length_le_members, Ne|]. apply NoDup_incl_length; [exact Hn|].
  intros k Hk. apply members_in in Hk. destruct Hk as (y & Hy & Hk). eauto.
Qed.

Lemma tape_ok_local {A} (m : @M st A) s a s' : tape_local m -> m s = Ok (a, s') -> tape_ok (s_tape s) -> tape_ok (s_tape s').
Proof.
  intros Htl E. destruct s as [t e], s' as [t' e']. destruct (Htl _ _ _ _ _ E) as (u & -> & _). cbn [s_tape]. apply tape_ok_app.
Qed.

(* ------------------------------------------------------------------------------------------ *)
(* 7. after a successful breeding loop the epoch succeeds (tail of PopNoErr.next_epoch_failures) *)
(* ------------------------------------------------------------------------------------------ *)
Lemma next_epoch_after_breeding o gen p x s p1 sorted best s1 h2 key2 babies br s2 :
  Part p -> 0 < o_pop_size o -> PrimFloat.eqb (o_compat_thresh o) 0 = false ->
  prepare o p s = Ok ((p1, sorted, best), s1) -> sum_exp (p_species p1) = o_pop_size o ->
  reproduce_all o gen (p_species p1 ++ p_detached p1) sorted best (p_species p1) (p_heap p1) (p_next_key p1) []
                (x_best_reproduced x) s1 = Ok ((h2, key2, babies, br), s2) ->
  exists r, next_epoch o gen p x s = Ok r.
Proof.
  intros HP Hpos Hc Ep Hq Er.
  pose proof (prepare_ok _ _ _ _ _ _ _ Ep (Part_Wf _ HP) (part_detached _ HP) (part_orgs_nodup _ HP))
    as [A1 A2 A3 A4 A5 A6 A7 A8 A9].
  unfold next_epoch. rewrite (bindM_ok_eq _ _ _ _ _ Ep). cbv beta iota zeta.
  set (x1 := {| x_best_id := best; x_best_reproduced := x_best_reproduced x |}).
  assert (Hl1 : forall y, In y (all_sp p1) -> sp_id y <= p_last_species p1).
  { intros y Hy. rewrite A6. assert (Hi : In (sp_id y) (map sp_id (p_species p))) by (apply A8; now apply in_map).
    apply in_map_iff in Hi. destruct Hi as (z & <- & Hz). now apply HP. }
  assert (B1 : hbound (p_heap p1) (p_next_key p1)).
  { rewrite A7. eapply hbound_frame; [exact A4|apply HP]. }
  change best with (x_best_id x1) in Er. change (x_best_reproduced x) with (x_best_reproduced x1) in Er.
  pose proof (PopRepro.reproduce_all_ok o gen (p_species p1 ++ p_detached p1) sorted (x_best_id x1) (p_species p1)
                               (p_heap p1) (p_next_key p1) [] (x_best_reproduced x1) B1 _ _ _ Er) as R.
  cbn in R. destruct R as ([R1 R2 R3 R4 R5] & -> & Ek & ->).
  assert (Hold : forall k, In k (p_orgs p1) -> k < p_next_key p1).
  { intros k Hk. destruct (wf_cover _ _ _ A1 k Hk) as (y & Hy & Hi).
    destruct (Wf_dom _ _ _ _ A1 Hy k Hi) as [z Hz]. eapply B1; eauto. }
  assert (Hlen : zlen (zrange (p_next_key p1) key2) = o_pop_size o).
  { unfold zlen. rewrite zrange_length. lia. }
  set (pm := {| p_species := p_species p1; p_detached := p_detached p1; p_orgs := p_orgs p1; p_heap := h2;
                p_last_species := p_last_species p1; p_highest := p_highest p1;
                p_epochs_highest := p_epochs_highest p1; p_next_key := key2 |}).
  destruct (speciate_loop_total o (zrange (p_next_key p1) key2) pm (fun k => In k (p_orgs p1))) as [p2 Es]; auto.
  { change (all_sp pm) with (all_sp p1). cbn. eapply Wf_ext; [exact A1|apply hext_pe_species, R1]. }
  { intros k Hk Ho. apply zrange_in in Hk. apply Hold in Ho. lia. }
  { apply zrange_nodup. }
  { intros k Hk. apply zrange_in in Hk. destruct (R4 k Hk) as [a Ha]. apply hview_some in Ha.
    destruct Ha as (z & Hz & _). now exists z. }
  set (x2 := {| x_best_id := x_best_id x1;
                x_best_reproduced := (x_best_reproduced x1 ||
                  existsb (fun sp => Z.eqb (sp_id sp) (x_best_id x1)) (p_species p1))%bool |}).
  assert (Erep : reproduce o gen p1 sorted x1 s1 = Ok ((p2, x2), s2)).
  { unfold reproduce. cbv zeta. rewrite (bindM_ok_eq _ _ _ _ _ Er). cbv beta iota zeta.
    rewrite Hlen, Z.eqb_refl. cbn [negb]. fold pm.
    assert (Esp : speciate o pm (zrange (p_next_key p1) key2) = Ok p2).
    { unfold speciate. destruct (zrange (p_next_key p1) key2) eqn:Ez; [|exact Es]. unfold zlen in Hlen. cbn in Hlen. lia. }
    rewrite (bindM_lift_eq _ _ p2 s2 Esp). reflexivity. }
  rewrite (bindM_ok_eq _ _ _ _ _ Erep). cbv beta iota zeta.
  destruct (PopFinal.reproduce_ok _ _ _ _ _ _ _ _ _ Erep A1 B1 Hl1)
    as (bb & [C1 C2 C3 C4 C5 C6 C7 C7' C8 C9 C10 C11 C12 C13]).
  destruct (finalize_total p2 x2 s2 bb) as (p' & s' & Ef).
  - rewrite C5. exact C4.
  - now rewrite C5.
  - intros k Hk Hb. rewrite C5 in Hk. apply C6 in Hk. rewrite C1 in Hb. apply zrange_in in Hb. lia.
  - cbn. rewrite (existsb_id_in best (p_species p1) A9). apply orb_true_r.
  - rewrite (bindM_ok_eq _ _ _ _ _ Ef). eexists. reflexivity.
Qed.

(* ------------------------------------------------------------------------------------------ *)
(* 8. the epoch                                                                                 *)
(* ------------------------------------------------------------------------------------------ *)
Theorem next_epoch_total C o gen p x s R NR :
  act_safe o -> Part p -> Fresh p -> survivors_ok o -> survives o p ->
  0 < o_pop_size o -> zlen (p_orgs p) < 2 ^ 31 ->
  PrimFloat.eqb (o_compat_thresh o) 0 = false ->
  (forall p1 sorted best s1, prepare o p s = Ok ((p1, sorted, best), s1) -> sum_exp (p_species p1) = o_pop_size o) ->
  GInv C p (s_env s) R NR -> records_traits_ok (s_env s) (nC C) -> tape_ok (s_tape s) ->
  (exists r, next_epoch o gen p x s = Ok r) \/ next_epoch o gen p x s = OutOfTape.
Proof.
  intros HA HP Fr Sv Hal Hpos Hsmall Hc Hq [RO Hh] Hrec Htape.
  destruct (prepare_forward o p s HP Fr Hsmall Sv Hal) as [Et|(p1 & sorted & best & s1 & Ep & Ne1)].
  { right. unfold next_epoch. now apply bindM_tape_eq. }
  pose proof (prepare_ok _ _ _ _ _ _ _ Ep (Part_Wf _ HP) (part_detached _ HP) (part_orgs_nodup _ HP))
    as [A1 A2 A3 A4 A5 A6 A7 A8 A9].
  destruct (prepare_hall _ _ _ _ _ _ _ _ Ep Hh) as [Hh1 Es1].
  pose proof (tape_ok_local _ _ _ _ (tl_prepare o p) Ep Htape) as Ht1.
  pose proof (prepare_sorted_ids _ _ _ _ _ _ _ Ep) as Ps.
  assert (B1 : hbound (p_heap p1) (p_next_key p1)).
  { rewrite A7. eapply hbound_frame; [exact A4|apply HP]. }
  (* the order list *)
  assert (Hsorted : 1 <= zlen sorted < 2 ^ 31).
  { unfold zlen. rewrite (Permutation_length Ps), map_length.
    assert (L1 : (length (p_species p1) <= length (p_orgs p1))%nat).
    { apply species_le_orgs; [| |exact Ne1].
      - pose proof (Wf_members_nodup _ _ _ A1) as Hn. unfold all_sp in Hn. rewrite members_app in Hn.
        apply nodup_app_inv in Hn. tauto.
      - intros y k Hy Hk. apply (wf_incl _ _ _ A1 y k); [unfold all_sp; apply in_or_app; now left|exact Hk]. }
    assert (L2 : (length (p_orgs p1) <= length (p_orgs p))%nat) by (apply NoDup_incl_length; assumption).
    assert (L3 : p_species p1 <> []).
    { intros E. rewrite E in A9. destruct A9. }
    unfold zlen in Hsmall. destruct (p_species p1); [congruence|]. cbn [length] in *. lia. }
  (* every species of the order list can be bred from *)
  assert (Hgood : forall y, In y (p_species p1) -> sp_good (p_heap p1) y /\ In (sp_id y) sorted).
  { intros y Hy. split; [split; [now apply Ne1|eapply Wf_dom; [exact A1|unfold all_sp; apply in_or_app; now left]]|].
    eapply Permutation_in; [symmetry; exact Ps|]. now apply in_map. }
  assert (Hfind : find_good (all_sp p1) sorted (p_heap p1)).
  { intros id Hid. assert (Hi : In id (map sp_id (p_species p1))) by (eapply Permutation_in; eauto).
    apply in_map_iff in Hi. destruct Hi as (y & <- & Hy). exists y. split; [|apply Hgood, Hy].
    apply sp_find_in; [eapply wf_ids; eauto|unfold all_sp; apply in_or_app; now left]. }
  assert (B : binv C R NR (p_heap p1) s1).
  { unfold binv. rewrite Es1. split; [exact RO|]. split; [exact Hh1|]. split; [now rewrite Es1|exact Ht1]. }
  pose proof (tot_reproduce_all C o HA gen (all_sp p1) sorted Hsorted best (p_heap p1) Hfind (p_species p1) (p_heap p1)
                (p_next_key p1) [] (x_best_reproduced x) s1 R NR Hgood (hext_refl pe _) B1 B) as T.
  unfold all_sp in T.
  destruct (reproduce_all o gen (p_species p1 ++ p_detached p1) sorted best (p_species p1) (p_heap p1) (p_next_key p1) []
                          (x_best_reproduced x) s1) as [[[[[h2 key2] babies] br] s2]| | | | |] eqn:Er; try contradiction.
  - left. eapply next_epoch_after_breeding; eauto.
  - right. unfold next_epoch. rewrite (bindM_ok_eq _ _ _ _ _ Ep). cbv beta iota zeta.
    apply bindM_tape_eq. unfold reproduce. cbv zeta. apply bindM_tape_eq. exact Er.
Qed.
