(* C09 / C02: the hand-written model of Population.purgeZeroOffspringSpecies IS the code of population.go.

   gen/QuotaPrep.v is regenerated on every run by `neatverif translate quotaprep`: the body of the method
   translated construct by construct over the view of a population of model/QuotaView.v (Organism and Species
   structs in pointer-keyed heaps, Population.Organisms / Species as pointer lists; field reads and writes are
   heap look-ups and functional heap updates that panic on a pointer without a struct; the calls of
   Species.countOffspring are gen/QuotaLoop.v's translated loop).
   This file is checked in.  [abs] maps the heap-keyed population of model/Population.v to that view: an
   organism pointer is its heap key, a species pointer its id.  For every population satisfying the partition
   invariant [Part] (proofs/PopBase.v) the model function returns a population p' and the translated code, run
   on [abs p], returns without panic a view that agrees with [abs p']: the same Organism heap, the same
   Population.Organisms and Population.Species, the same struct behind every pointer of Population.Species, and
   behind the pointer of every species the model detaches that species' final state.  The proofs are loop
   invariants of the form "heap = already processed part ++ part still to do", one per range loop. *)
From Coq Require Import ZArith List Bool Floats Lia.
From NeatModel Require Import Res F64 Genome Population PopBase GoSlice GoHeap QuotaView QuotaLoop QuotaLoopAgree QuotaPrep.
Import ListNotations.
Open Scope Z_scope.

(* ---------------------------------------------------------------------------------------------- *)
(* the abstraction                                                                                 *)
(* ---------------------------------------------------------------------------------------------- *)
Definition oview_of (x : organism) : qorg := {| qo_Fitness := o_fit x; qo_ExpectedOffspring := o_exp x |}.
Definition oview (h : list organism) (k : Z) : qorg :=
  match hget h k with Ok x => oview_of x | _ => {| qo_Fitness := 0%float; qo_ExpectedOffspring := 0%float |} end.
Definition sview (s : species) : qspecies := {| qs_Organisms := sp_orgs s; qs_ExpectedOffspring := sp_exp s |}.

Definition oheap (h : list organism) (ks : list Z) : gheap qorg := map (fun k => (k, oview h k)) ks.
Definition sheap (l : list species) : gheap qspecies := map (fun s => (sp_id s, sview s)) l.

Definition abs (p : population) : qpop :=
  {| qp_organisms := oheap (p_heap p) (p_orgs p);
     qp_species := sheap (p_species p);
     qp_Organisms := p_orgs p;
     qp_Species := map sp_id (p_species p) |}.

(* ---------------------------------------------------------------------------------------------- *)
(* heaps                                                                                           *)
(* ---------------------------------------------------------------------------------------------- *)
Section Heaps.
  Context {A : Type}.
  Implicit Types (h : gheap A).

  Lemma gh_get_mid h1 k (v : A) h2 : ~ In k (map fst h1) -> gh_get (h1 ++ (k, v) :: h2) k = Ok v.
  Proof.
    induction h1 as [|[k' v'] h1 IH]; cbn; intros N.
    - now rewrite Z.eqb_refl.
    - destruct (Z.eqb_spec k' k) as [->|_]; [exfalso; apply N; now left|]. apply IH. intros Hi. apply N. now right.
  Qed.

  Lemma gh_set_mid h1 k (v w : A) h2 : ~ In k (map fst h1) -> gh_set (h1 ++ (k, v) :: h2) k w = Ok (h1 ++ (k, w) :: h2).
  Proof.
    induction h1 as [|[k' v'] h1 IH]; cbn; intros N.
    - now rewrite Z.eqb_refl.
    - destruct (Z.eqb_spec k' k) as [->|_]; [exfalso; apply N; now left|].
      rewrite IH; [reflexivity|]. intros Hi. apply N. now right.
  Qed.

  Lemma gh_upd_mid h1 k (v : A) h2 f : ~ In k (map fst h1) -> gh_upd (h1 ++ (k, v) :: h2) k f = Ok (h1 ++ (k, f v) :: h2).
  Proof. intros N. unfold gh_upd. rewrite gh_get_mid by assumption. cbn [bind]. now apply gh_set_mid. Qed.

  Lemma gh_get_in h k (v : A) : NoDup (map fst h) -> In (k, v) h -> gh_get h k = Ok v.
  Proof.
    intros Hn Hi. apply in_split in Hi. destruct Hi as (h1 & h2 & ->). apply gh_get_mid.
    rewrite map_app in Hn. cbn [map fst] in Hn. apply NoDup_remove_2 in Hn. intros Hi. apply Hn. apply in_or_app. now left.
  Qed.
End Heaps.

Lemma oheap_get h ks k : In k ks -> gh_get (oheap h ks) k = Ok (oview h k).
Proof.
  unfold oheap. induction ks as [|a ks IH]; cbn; intros Hi; [contradiction|].
  destruct (Z.eqb_spec a k) as [->|N]; [reflexivity|]. destruct Hi as [E|Hi]; [contradiction|]. now apply IH.
Qed.

Lemma oview_get h k x : hget h k = Ok x -> oview h k = oview_of x.
Proof. unfold oview. now intros ->. Qed.

Lemma sheap_keys l : map fst (sheap l) = map sp_id l.
Proof. unfold sheap. rewrite map_map. reflexivity. Qed.

Lemma sheap_get l s : NoDup (map sp_id l) -> In s l -> gh_get (sheap l) (sp_id s) = Ok (sview s).
Proof.
  intros Hn Hi. apply gh_get_in; [now rewrite sheap_keys|]. unfold sheap.
  change (sp_id s, sview s) with ((fun s => (sp_id s, sview s)) s). now apply in_map.
Qed.

(* ---------------------------------------------------------------------------------------------- *)
(* (1) the average: total += o.Fitness                                                             *)
(* ---------------------------------------------------------------------------------------------- *)
Lemma loop_total (OH : gheap qorg) h : forall ks orgs (t0 : float),
    hgets h ks = Ok orgs -> (forall k, In k ks -> gh_get OH k = Ok (oview h k)) ->
    go_for ks (fun v_total v_o => do p_1 <- gh_get OH v_o; Ok (v_total + qo_Fitness p_1)%float) t0 =
    Ok (fold_left (fun acc x => PrimFloat.add acc (o_fit x)) orgs t0).
Proof.
  induction ks as [|k ks IH]; intros orgs t0 Hg HO.
  - injection Hg as <-. reflexivity.
  - cbn [hgets] in Hg. destruct (hget h k) as [x| | | | |] eqn:Hx; try discriminate. cbn [bind] in Hg.
    destruct (hgets h ks) as [xs| | | | |] eqn:Hxs; try discriminate. injection Hg as <-.
    cbn [go_for]. rewrite (HO k (or_introl eq_refl)). cbn [bind]. rewrite (oview_get _ _ _ Hx). cbn [oview_of qo_Fitness fold_left].
    apply IH; [reflexivity|]. intros k' Hk'. apply HO. now right.
Qed.

(* ---------------------------------------------------------------------------------------------- *)
(* (1) o.ExpectedOffspring = o.Fitness / overallAverage                                            *)
(* ---------------------------------------------------------------------------------------------- *)
Definition with_share (avg : float) (x : organism) : organism := o_with_exp x (PrimFloat.div (o_fit x) avg).
Definition okv (x : organism) : Z * qorg := (o_key x, oview_of x).

Lemma oheap_of_orgs h ks orgs : hgets h ks = Ok orgs -> oheap h ks = map okv orgs.
Proof.
  revert orgs. induction ks as [|k ks IH]; intros orgs Hg.
  - injection Hg as <-. reflexivity.
  - cbn [hgets] in Hg. destruct (hget h k) as [x| | | | |] eqn:Hx; try discriminate. cbn [bind] in Hg.
    destruct (hgets h ks) as [xs| | | | |] eqn:Hxs; try discriminate. injection Hg as <-.
    cbn [oheap map]. rewrite (oview_get _ _ _ Hx). unfold okv at 1. rewrite (hget_key _ _ _ Hx).
    f_equal. now apply IH.
Qed.

Lemma loop_expected (avg : float) : forall (todo done : list organism),
    NoDup (map o_key (done ++ todo)) ->
    go_for (map o_key todo)
      (fun h_Organism v_o =>
         do p_2 <- gh_get h_Organism v_o;
         do h_Organism <- gh_upd h_Organism v_o (fun r => qo_set_ExpectedOffspring r (qo_Fitness p_2 / avg)%float);
         Ok h_Organism)
      (map okv (map (with_share avg) done) ++ map okv todo) =
    Ok (map okv (map (with_share avg) (done ++ todo))).
Proof.
  induction todo as [|x todo IH]; intros done Hn.
  - cbn [map go_for]. now rewrite !app_nil_r.
  - cbn [map go_for].
    assert (N : ~ In (o_key x) (map fst (map okv (map (with_share avg) done)))).
    { rewrite !map_map. cbn [okv fst with_share o_with_exp o_key].
      rewrite map_app in Hn. cbn [map] in Hn. apply NoDup_remove_2 in Hn. intros Hi. apply Hn. apply in_or_app. now left. }
    change (okv x) with (o_key x, oview_of x). rewrite gh_get_mid by exact N. cbn [bind]. rewrite gh_upd_mid by exact N. cbn [bind].
    replace (map okv (map (with_share avg) done) ++
             (o_key x, qo_set_ExpectedOffspring (oview_of x) (qo_Fitness (oview_of x) / avg)%float) :: map okv todo)
      with (map okv (map (with_share avg) (done ++ [x])) ++ map okv todo)
      by (rewrite !map_app, <- app_assoc; reflexivity).
    rewrite IH by (now rewrite <- app_assoc). now rewrite <- app_assoc.
Qed.

Lemma my_hsets_get_out l : forall h k, ~ In k (map o_key l) -> hget (hsets h l) k = hget h k.
Proof.
  unfold hsets. induction l as [|y l IH]; intros h k N; cbn; [reflexivity|].
  rewrite IH; [|intros Hi; apply N; now right]. rewrite hget_hset.
  destruct (Z.eqb_spec k (o_key y)) as [->|]; [|reflexivity]. exfalso. apply N. now left.
Qed.

Lemma my_hsets_get_in l : forall h x, NoDup (map o_key l) -> In x l -> hget (hsets h l) (o_key x) = Ok x.
Proof.
  induction l as [|y l IH]; intros h x Hn Hi; [contradiction|]. inversion Hn as [|? ? Hy Hl]; subst.
  change (hsets h (y :: l)) with (hsets (hset h y) l). destruct Hi as [->|Hi].
  - rewrite my_hsets_get_out by assumption. rewrite hget_hset. now rewrite Z.eqb_refl.
  - now apply IH.
Qed.

Lemma with_share_keys avg l : map o_key (map (with_share avg) l) = map o_key l.
Proof. rewrite map_map. reflexivity. Qed.

(* the new heap of the model, seen through the abstraction *)
Lemma oheap_after_share h ks orgs avg :
  hgets h ks = Ok orgs -> NoDup ks ->
  oheap (hsets h (map (with_share avg) orgs)) ks = map okv (map (with_share avg) orgs).
Proof.
  intros Hg Hn. pose proof (hgets_keys _ _ _ Hg) as K.
  apply oheap_of_orgs. rewrite <- K at 1. rewrite <- (with_share_keys avg orgs).
  assert (Hn' : NoDup (map o_key (map (with_share avg) orgs))) by (rewrite with_share_keys, K; exact Hn).
  clear K Hg. set (l := map (with_share avg) orgs) in *. set (H := hsets h l).
  assert (G : forall y, In y l -> hget H (o_key y) = Ok y) by (intros y Hy; now apply my_hsets_get_in).
  clearbody H. clear Hn'. induction l as [|y l IH]; [reflexivity|].
  cbn [map hgets]. rewrite (G y (or_introl eq_refl)). cbn [bind]. rewrite IH; [reflexivity|]. intros z Hz. apply G. now right.
Qed.

(* ---------------------------------------------------------------------------------------------- *)
(* (2) sp.ExpectedOffspring, skim = sp.countOffspring(skim); totalExpected += sp.ExpectedOffspring *)
(* ---------------------------------------------------------------------------------------------- *)
Lemma member_expected (OH : gheap qorg) h : forall ks orgs (acc : list float),
    hgets h ks = Ok orgs -> (forall k, In k ks -> gh_get OH k = Ok (oview h k)) ->
    go_for ks (fun acc k => do o <- gh_get OH k; Ok (acc ++ [qo_ExpectedOffspring o])) acc = Ok (acc ++ map o_exp orgs).
Proof.
  induction ks as [|k ks IH]; intros orgs acc Hg HO.
  - injection Hg as <-. cbn. now rewrite app_nil_r.
  - cbn [hgets] in Hg. destruct (hget h k) as [x| | | | |] eqn:Hx; try discriminate. cbn [bind] in Hg.
    destruct (hgets h ks) as [xs| | | | |] eqn:Hxs; try discriminate. injection Hg as <-.
    cbn [go_for]. rewrite (HO k (or_introl eq_refl)). cbn [bind]. rewrite (oview_get _ _ _ Hx). cbn [oview_of qo_ExpectedOffspring].
    rewrite (IH xs); [|reflexivity|intros k' Hk'; apply HO; now right]. cbn [map]. now rewrite <- app_assoc.
Qed.

Lemma member_expected_view (OH : gheap qorg) h s orgs :
  hgets h (sp_orgs s) = Ok orgs -> (forall k, In k (sp_orgs s) -> gh_get OH k = Ok (oview h k)) ->
  qs_member_expected OH (sview s) = Ok (map o_exp orgs).
Proof. intros Hg HO. unfold qs_member_expected. cbn [sview qs_Organisms]. now rewrite (member_expected OH h _ orgs [] Hg HO). Qed.

Definition skv (s : species) : Z * qspecies := (sp_id s, sview s).
Lemma sheap_is_map l : sheap l = map skv l. Proof. reflexivity. Qed.

Lemma count_all_ids h : forall l skim total l2 t, count_all h l skim total = Ok (l2, t) -> map sp_id l2 = map sp_id l.
Proof.
  induction l as [|s l IH]; intros skim total l2 t H; cbn [count_all] in H.
  - injection H as <- _. reflexivity.
  - destruct (hgets h (sp_orgs s)) as [orgs| | | | |]; try discriminate. cbn [bind] in H.
    destruct (count_offspring orgs 0 skim) as [e skim'].
    destruct (count_all h l skim' (total + e)) as [[l2' t']| | | | |] eqn:R; try discriminate. cbn [bind] in H.
    injection H as <- _. cbn [map sp_with_exp sp_id]. f_equal. eapply IH; eauto.
Qed.

Lemma loop_count (OH : gheap qorg) h : forall (todo done : list species) (skim : float) (total : Z) l2 t,
    NoDup (map sp_id (done ++ todo)) ->
    (forall s k, In s todo -> In k (sp_orgs s) -> gh_get OH k = Ok (oview h k)) ->
    count_all h todo skim total = Ok (l2, t) ->
    exists skim',
      go_for (map sp_id todo)
        (fun '(h_Species, v_skim, v_totalExpected) v_sp =>
           do p_3 <- gh_get h_Species v_sp;
           do p_4 <- qs_member_expected OH p_3;
           let p_5 := gen_count_offspring p_4 v_skim in
           do h_Species <- gh_upd h_Species v_sp (fun r => qs_set_ExpectedOffspring r (fst p_5));
           let v_skim := snd p_5 in
           do p_6 <- gh_get h_Species v_sp;
           let v_totalExpected := Z.add v_totalExpected (qs_ExpectedOffspring p_6) in
           Ok (h_Species, v_skim, v_totalExpected))
        (sheap done ++ sheap todo, skim, total) =
      Ok (sheap done ++ sheap l2, skim', t).
Proof.
  induction todo as [|s todo IH]; intros done skim total l2 t Hn HO H; cbn [count_all] in H.
  - injection H as <- <-. exists skim. reflexivity.
  - destruct (hgets h (sp_orgs s)) as [orgs| | | | |] eqn:Hg; try discriminate. cbn [bind] in H.
    destruct (count_offspring orgs 0 skim) as [e skim1] eqn:C.
    destruct (count_all h todo skim1 (total + e)) as [[l2' t']| | | | |] eqn:R; try discriminate. cbn [bind] in H.
    injection H as <- <-.
    assert (N : ~ In (sp_id s) (map fst (sheap done))).
    { rewrite sheap_keys. rewrite map_app in Hn. cbn [map] in Hn. apply NoDup_remove_2 in Hn.
      intros Hi. apply Hn. apply in_or_app. now left. }
    cbn [map go_for]. rewrite (sheap_is_map (s :: todo)). cbn [map]. change (skv s) with (sp_id s, sview s).
    rewrite gh_get_mid by exact N. cbn [bind].
    rewrite (member_expected_view OH h s orgs Hg) by (intros k Hk; apply (HO s k); [now left|exact Hk]).
    cbn [bind app]. rewrite <- (count_offspring_is_translated orgs skim), C. cbn [fst snd].
    rewrite gh_upd_mid by exact N. cbn [bind]. rewrite gh_get_mid by exact N. cbn [bind qs_set_ExpectedOffspring qs_ExpectedOffspring].
    destruct (IH (done ++ [sp_with_exp s e]) skim1 (total + e) l2' t') as (skim' & E).
    + rewrite <- app_assoc. cbn [app]. rewrite map_app in *. exact Hn.
    + intros s' k Hs' Hk. apply (HO s' k); [now right|exact Hk].
    + exact R.
    + exists skim'. unfold sheap in E. rewrite map_app, <- !app_assoc in E. exact E.
Qed.

(* ---------------------------------------------------------------------------------------------- *)
(* (3) the make-up block                                                                           *)
(* ---------------------------------------------------------------------------------------------- *)
Lemma loop_best (SH : gheap qspecies) : forall (todo : list species) (mx : Z) (best : option species) (final : Z),
    (forall s, In s todo -> gh_get SH (sp_id s) = Ok (sview s)) ->
    exists mx',
      go_for (map sp_id todo)
        (fun '(v_maxExpected, v_bestSpecies, v_finalExpected) v_sp =>
           do p_7 <- gh_get SH v_sp;
           do jp <-
             (if Z.leb v_maxExpected (qs_ExpectedOffspring p_7) then
                (do p_8 <- gh_get SH v_sp;
                 let v_maxExpected := qs_ExpectedOffspring p_8 in
                 let v_bestSpecies := Some v_sp in
                 Ok (v_maxExpected, v_bestSpecies))
              else Ok (v_maxExpected, v_bestSpecies));
           let '(v_maxExpected, v_bestSpecies) := jp in
           do p_9 <- gh_get SH v_sp;
           let v_finalExpected := Z.add v_finalExpected (qs_ExpectedOffspring p_9) in
           Ok (v_maxExpected, v_bestSpecies, v_finalExpected))
        (mx, option_map sp_id best, final) =
      Ok (mx', option_map sp_id (best_by_exp todo mx best), fold_left (fun acc s => acc + sp_exp s) todo final).
Proof.
  induction todo as [|s todo IH]; intros mx best final HS.
  - exists mx. reflexivity.
  - cbn [map go_for]. rewrite (HS s (or_introl eq_refl)). cbn [bind sview qs_ExpectedOffspring best_by_exp fold_left].
    rewrite Z.geb_leb.
    destruct (Z.leb mx (sp_exp s)); cbn [bind].
    + destruct (IH (sp_exp s) (Some s) (final + sp_exp s)) as (mx' & E); [intros s' Hs'; apply HS; now right|].
      exists mx'. exact E.
    + destruct (IH mx best (final + sp_exp s)) as (mx' & E); [intros s' Hs'; apply HS; now right|].
      exists mx'. exact E.
Qed.

Lemma best_by_exp_in : forall l mx best b, best_by_exp l mx best = Some b -> In b l \/ best = Some b.
Proof.
  induction l as [|s l IH]; intros mx best b H; cbn [best_by_exp] in H; [now right|].
  destruct (Z.geb (sp_exp s) mx).
  - destruct (IH _ _ _ H) as [Hi|E]; [left; now right|]. injection E as <-. left. now left.
  - destruct (IH _ _ _ H) as [Hi|E]; [left; now right|now right].
Qed.

Lemma sp_replace_mid : forall l1 b l2 b', sp_id b' = sp_id b -> ~ In (sp_id b) (map sp_id l1) ->
    sp_replace (l1 ++ b :: l2) b' = l1 ++ b' :: l2.
Proof.
  induction l1 as [|x l1 IH]; intros b l2 b' E N; cbn [app sp_replace].
  - now rewrite E, Z.eqb_refl.
  - destruct (Z.eqb_spec (sp_id x) (sp_id b')) as [E'|_].
    + exfalso. apply N. left. now rewrite E', E.
    + f_equal. apply IH; [exact E|]. intros Hi. apply N. now right.
Qed.

(* a write through the pointer of species b = the model's replacement of the species with b's id *)
Lemma sheap_replace l b b' (F : qspecies -> qspecies) :
  NoDup (map sp_id l) -> In b l -> sp_id b' = sp_id b -> sview b' = F (sview b) ->
  gh_get (sheap l) (sp_id b) = Ok (sview b) /\
  gh_upd (sheap l) (sp_id b) F = Ok (sheap (sp_replace l b')).
Proof.
  intros Hn Hi E V. apply in_split in Hi. destruct Hi as (l1 & l2 & ->).
  assert (N : ~ In (sp_id b) (map sp_id l1)).
  { rewrite map_app in Hn. cbn [map] in Hn. apply NoDup_remove_2 in Hn. intros Hi. apply Hn. apply in_or_app. now left. }
  rewrite (sp_replace_mid l1 b l2 b' E N). unfold sheap. rewrite !map_app. cbn [map].
  assert (N' : ~ In (sp_id b) (map fst (map (fun s => (sp_id s, sview s)) l1))) by (rewrite map_map; exact N).
  split; [now apply gh_get_mid|]. rewrite gh_upd_mid by exact N'. now rewrite E, V.
Qed.

Lemma sp_replace_ids' l s' : map sp_id (sp_replace l s') = map sp_id l.
Proof.
  induction l as [|x l IH]; cbn [sp_replace map]; [reflexivity|].
  destruct (Z.eqb_spec (sp_id x) (sp_id s')) as [E|_]; cbn [map]; [now rewrite E|now rewrite IH].
Qed.

Lemma loop_zero : forall (todo done : list species),
    NoDup (map sp_id (done ++ todo)) ->
    go_for (map sp_id todo)
      (fun h_Species v_sp =>
         do h_Species <- gh_upd h_Species v_sp (fun r => qs_set_ExpectedOffspring r 0);
         Ok h_Species)
      (sheap (map (fun s => sp_with_exp s 0) done) ++ sheap todo) =
    Ok (sheap (map (fun s => sp_with_exp s 0) (done ++ todo))).
Proof.
  induction todo as [|s todo IH]; intros done Hn.
  - cbn [map go_for sheap]. now rewrite !app_nil_r.
  - cbn [map go_for].
    assert (N : ~ In (sp_id s) (map fst (sheap (map (fun s => sp_with_exp s 0) done)))).
    { rewrite sheap_keys, map_map. cbn [sp_with_exp sp_id].
      rewrite map_app in Hn. cbn [map] in Hn. apply NoDup_remove_2 in Hn. intros Hi. apply Hn. apply in_or_app. now left. }
    change (sheap (s :: todo)) with ((sp_id s, sview s) :: sheap todo).
    rewrite gh_upd_mid by exact N. cbn [bind].
    specialize (IH (done ++ [s])). rewrite <- app_assoc in IH. cbn [app] in IH. specialize (IH Hn).
    unfold sheap in *. rewrite !map_app in IH. cbn [map] in IH. rewrite <- !app_assoc in IH. cbn [app] in IH.
    rewrite !map_app. cbn [map]. exact IH.
Qed.

Lemma loop_zero_all (l : list species) :
  NoDup (map sp_id l) ->
  go_for (map sp_id l)
    (fun h_Species v_sp =>
       do h_Species <- gh_upd h_Species v_sp (fun r => qs_set_ExpectedOffspring r 0);
       Ok h_Species)
    (sheap l) = Ok (sheap (map (fun s => sp_with_exp s 0) l)).
Proof. intros Hn. exact (loop_zero l [] Hn). Qed.

(* ---------------------------------------------------------------------------------------------- *)
(* (4) speciesToKeep = append(speciesToKeep, sp) for sp.ExpectedOffspring > 0                       *)
(* ---------------------------------------------------------------------------------------------- *)
Lemma loop_keep (SH : gheap qspecies) : forall (todo : list species) (keep : list Z),
    (forall s, In s todo -> gh_get SH (sp_id s) = Ok (sview s)) ->
    go_for (map sp_id todo)
      (fun v_speciesToKeep v_sp =>
         do p_13 <- gh_get SH v_sp;
         if Z.ltb 0 (qs_ExpectedOffspring p_13) then
           Ok (v_speciesToKeep ++ [v_sp])
         else Ok v_speciesToKeep)
      keep =
    Ok (keep ++ map sp_id (filter (fun s => Z.gtb (sp_exp s) 0) todo)).
Proof.
  induction todo as [|s todo IH]; intros keep HS.
  - cbn. now rewrite app_nil_r.
  - cbn [map go_for filter]. rewrite (HS s (or_introl eq_refl)). cbn [bind sview qs_ExpectedOffspring].
    rewrite Z.gtb_ltb. destruct (Z.ltb 0 (sp_exp s)); cbn [bind].
    + rewrite IH by (intros s' Hs'; apply HS; now right). cbn [map]. now rewrite <- app_assoc.
    + apply IH. intros s' Hs'. apply HS. now right.
Qed.

(* ---------------------------------------------------------------------------------------------- *)
(* the whole function                                                                              *)
(* ---------------------------------------------------------------------------------------------- *)
Lemma count_all_total h : forall l skim total,
    (forall s, In s l -> exists orgs, hgets h (sp_orgs s) = Ok orgs) ->
    exists l2 t, count_all h l skim total = Ok (l2, t).
Proof.
  induction l as [|s l IH]; intros skim total H; cbn [count_all]; [eauto|].
  destruct (H s (or_introl eq_refl)) as [orgs ->]. cbn [bind].
  destruct (count_offspring orgs 0 skim) as [e skim'].
  destruct (IH skim' (total + e)) as (l2 & t & ->); [intros s' Hs'; apply H; now right|]. cbn [bind]. eauto.
Qed.

(* the make-up block of the model, as a function of the species list after counting *)
Definition makeup (n te : Z) (sps : list species) : list species :=
  if Z.ltb te n then
    let best := best_by_exp sps 0 None in
    let final := fold_left (fun acc s => acc + sp_exp s) sps 0 in
    let sps1 := match best with Some b => sp_replace sps (sp_with_exp b (sp_exp b + 1)) | None => sps end in
    let final := final + 1 in
    if Z.ltb final n then
      let zeroed := map (fun s => sp_with_exp s 0) sps1 in
      match best with Some b => sp_replace zeroed (sp_with_exp b n) | None => zeroed end
    else sps1
  else sps.

Lemma purge_unfold p orgs :
  hgets (p_heap p) (p_orgs p) = Ok orgs ->
  purge_zero_offspring p =
  (let total := fold_left (fun acc x => PrimFloat.add acc (o_fit x)) orgs 0%float in
   let avg := PrimFloat.div total (f_of_Z (zlen orgs)) in
   let h1 := if PrimFloat.eqb avg 0%float then p_heap p else hsets (p_heap p) (map (with_share avg) orgs) in
   do r <- count_all h1 (p_species p) 0%float 0;
   Ok (p_with p (filter (fun s => Z.gtb (sp_exp s) 0) (makeup (zlen orgs) (snd r) (fst r)))
              (p_detached p ++ filter (fun s => negb (Z.gtb (sp_exp s) 0)) (makeup (zlen orgs) (snd r) (fst r)))
              (p_orgs p) h1)).
Proof.
  intros Hg. unfold purge_zero_offspring. rewrite Hg. cbn [bind]. cbv zeta. unfold with_share, makeup.
  match goal with |- (do r <- ?c; _) = _ => destruct c as [[sps te]| | | | |] end; reflexivity.
Qed.

Lemma makeup_ids n te sps : map sp_id (makeup n te sps) = map sp_id sps.
Proof.
  unfold makeup. destruct (te <? n); [|reflexivity]. cbv zeta.
  destruct (best_by_exp sps 0 None) as [b|]; destruct (_ <? n);
    rewrite ?sp_replace_ids', ?map_map; cbn [sp_with_exp sp_id]; rewrite ?sp_replace_ids'; reflexivity.
Qed.

(* the translated make-up block, run on the species heap after counting, yields the heap of the model's [makeup] *)
Lemma block_makeup (n te : Z) (sps : list species) :
  NoDup (map sp_id sps) ->
  (if te <? n
   then
     do st <-
       go_for (map sp_id sps)
         (fun '(v_maxExpected, v_bestSpecies, v_finalExpected) (v_sp : Z) =>
            do p_7 <- gh_get (sheap sps) v_sp;
            do jp <-
              (if v_maxExpected <=? qs_ExpectedOffspring p_7
               then do p_8 <- gh_get (sheap sps) v_sp; Ok (qs_ExpectedOffspring p_8, Some v_sp)
               else Ok (v_maxExpected, v_bestSpecies));
            let '(v_maxExpected0, v_bestSpecies0) := jp in
            do p_9 <- gh_get (sheap sps) v_sp;
            Ok (v_maxExpected0, v_bestSpecies0, v_finalExpected + qs_ExpectedOffspring p_9))
         (0, None, 0);
     let '(_, v_bestSpecies, v_finalExpected) := st in
     do jp0 <-
       (if go_not_nil v_bestSpecies
        then
          do p_10 <- go_deref v_bestSpecies;
          do p_11 <- gh_get (sheap sps) p_10;
          do h_Species0 <-
            gh_upd (sheap sps) p_10 (fun r0 : qspecies => qs_set_ExpectedOffspring r0 (qs_ExpectedOffspring p_11 + 1));
          Ok h_Species0
        else Ok (sheap sps));
     if v_finalExpected + 1 <? n
     then
       do st2 <-
         go_for (map sp_id sps)
           (fun (h_Species0 : gheap qspecies) (v_sp : Z) =>
              do h_Species1 <- gh_upd h_Species0 v_sp (fun r0 : qspecies => qs_set_ExpectedOffspring r0 0);
              Ok h_Species1) jp0;
       if go_not_nil v_bestSpecies
       then
         do p_12 <- go_deref v_bestSpecies;
         do h_Species0 <- gh_upd st2 p_12 (fun r0 : qspecies => qs_set_ExpectedOffspring r0 n);
         Ok h_Species0
       else Ok st2
     else Ok jp0
   else Ok (sheap sps)) = Ok (sheap (makeup n te sps)).
Proof.
  intros Hn. unfold makeup. destruct (te <? n); [|reflexivity]. cbv zeta.
  destruct (loop_best (sheap sps) sps 0 None 0) as (mx' & E); [intros s Hs; now apply sheap_get|].
  cbn [option_map] in E. cbv zeta in E. rewrite E. cbn [bind]. clear E.
  destruct (best_by_exp sps 0 None) as [b|] eqn:B; cbn [option_map go_not_nil go_deref bind].
  - assert (Hb : In b sps) by (destruct (best_by_exp_in _ _ _ _ B) as [Hi|E]; [exact Hi|discriminate]).
    destruct (sheap_replace sps b (sp_with_exp b (sp_exp b + 1))
                (fun r0 => qs_set_ExpectedOffspring r0 (qs_ExpectedOffspring (sview b) + 1)) Hn Hb eq_refl eq_refl) as [G U].
    rewrite G. cbn [bind]. rewrite U. cbn [bind]. clear G U.
    set (sps1 := sp_replace sps (sp_with_exp b (sp_exp b + 1))).
    destruct (fold_left (fun acc s => acc + sp_exp s) sps 0 + 1 <? n); [|reflexivity].
    assert (I1 : map sp_id sps1 = map sp_id sps) by apply sp_replace_ids'.
    rewrite <- I1. rewrite (loop_zero_all sps1) by (rewrite I1; exact Hn).
    cbn [bind].
    set (b1 := sp_with_exp b (sp_exp b + 1)).
    assert (Hb1 : In b1 sps1) by (apply sp_replace_in_new; exists b; split; [exact Hb|reflexivity]).
    set (zeroed := map (fun s => sp_with_exp s 0) sps1).
    assert (Hz : In (sp_with_exp b1 0) zeroed) by (apply (in_map (fun s => sp_with_exp s 0)); exact Hb1).
    assert (Nz : NoDup (map sp_id zeroed)) by (unfold zeroed; rewrite map_map; cbn [sp_with_exp sp_id]; change (NoDup (map sp_id sps1)); rewrite I1; exact Hn).
    destruct (sheap_replace zeroed (sp_with_exp b1 0) (sp_with_exp b n)
                (fun r0 => qs_set_ExpectedOffspring r0 n) Nz Hz eq_refl eq_refl) as [_ U].
    cbn [sp_with_exp sp_id b1] in U. rewrite U. reflexivity.
  - destruct (fold_left (fun acc s => acc + sp_exp s) sps 0 + 1 <? n); [|reflexivity].
    rewrite (loop_zero_all sps Hn). reflexivity.
Qed.

(* what the translated code returns, against the population the model returns *)
Definition view_agrees (r : qpop) (p' : population) : Prop :=
  qp_organisms r = qp_organisms (abs p') /\
  qp_Organisms r = qp_Organisms (abs p') /\
  qp_Species r = qp_Species (abs p') /\
  (forall s, In s (p_species p' ++ p_detached p') -> gh_get (qp_species r) (sp_id s) = Ok (sview s)).

Theorem gen_purge_zero_offspring_agrees : forall (p : population) (generation : Z),
    Part p ->
    exists p', purge_zero_offspring p = Ok p' /\
    exists r, gen_purge_zero_offspring (abs p) generation = Ok r /\ view_agrees r p'.
Proof.
  intros p g P.
  pose proof (part_orgs_nodup _ P) as Nk. pose proof (part_ids _ P) as Ni.
  destruct (hgets_total (p_heap p) (p_orgs p)) as [orgs Hg].
  { intros k Hk. destruct (part_heap _ P k Hk) as (x & Hx & _). eauto. }
  pose proof (hgets_keys _ _ _ Hg) as K.
  rewrite (purge_unfold p orgs Hg). cbv zeta.
  set (total := fold_left (fun acc x => PrimFloat.add acc (o_fit x)) orgs 0%float).
  set (avg := PrimFloat.div total (f_of_Z (zlen orgs))).
  set (h1 := if PrimFloat.eqb avg 0 then p_heap p else hsets (p_heap p) (map (with_share avg) orgs)).
  (* every organism of the population is in the new heap *)
  assert (H1 : forall k, In k (p_orgs p) -> exists x, hget h1 k = Ok x).
  { intros k Hk. subst h1. destruct (PrimFloat.eqb avg 0).
    - destruct (part_heap _ P k Hk) as (x & Hx & _). eauto.
    - rewrite <- K in Hk. apply in_map_iff in Hk. destruct Hk as (x & <- & Hx).
      exists (with_share avg x). change (o_key x) with (o_key (with_share avg x)).
      apply my_hsets_get_in; [rewrite with_share_keys, K; exact Nk|].
      now apply (in_map (with_share avg)). }
  destruct (count_all_total h1 (p_species p) 0%float 0) as (sps & te & Hc).
  { intros s Hs. apply hgets_total. intros k Hk. apply H1. eapply part_incl; eauto. }
  rewrite Hc. cbn [bind fst snd].
  eexists. split; [reflexivity|].
  unfold gen_purge_zero_offspring. cbn [abs qp_organisms qp_species qp_Organisms qp_Species]. cbv zeta.
  (* (1) the average *)
  rewrite (loop_total (oheap (p_heap p) (p_orgs p)) (p_heap p) (p_orgs p) orgs 0%float Hg (fun k Hk => oheap_get _ _ _ Hk)).
  cbn [bind]. fold total.
  assert (L : go_len (p_orgs p) = zlen orgs) by (unfold go_len, zlen; rewrite <- K, map_length; reflexivity).
  rewrite L. fold avg.
  (* (1) the shares *)
  assert (S1 : (if negb (PrimFloat.eqb avg 0)
                then do st0 <- go_for (p_orgs p)
                       (fun (h_Organism : gheap qorg) (v_o : Z) =>
                          do p_2 <- gh_get h_Organism v_o;
                          do h_Organism0 <- gh_upd h_Organism v_o
                               (fun r0 : qorg => qo_set_ExpectedOffspring r0 (qo_Fitness p_2 / avg)%float);
                          Ok h_Organism0) (oheap (p_heap p) (p_orgs p));
                     Ok st0
                else Ok (oheap (p_heap p) (p_orgs p))) = Ok (oheap h1 (p_orgs p))).
  { subst h1. destruct (PrimFloat.eqb avg 0); cbn [negb]; [reflexivity|].
    rewrite (oheap_of_orgs _ _ _ Hg). rewrite <- K at 1.
    pose proof (loop_expected avg orgs []) as E. cbn [map app] in E. rewrite E by (rewrite K; exact Nk). cbn [bind].
    now rewrite (oheap_after_share _ _ _ avg Hg Nk). }
  rewrite S1. cbn [bind]. clear S1.
  (* (2) the count *)
  pose proof (count_all_ids _ _ _ _ _ _ Hc) as I.
  assert (Ns : NoDup (map sp_id sps)) by (rewrite I; exact Ni).
  set (spsF := makeup (zlen orgs) te sps).
  assert (IF : map sp_id spsF = map sp_id sps) by apply makeup_ids.
  assert (NF : NoDup (map sp_id spsF)) by (rewrite IF; exact Ns).
  match goal with
  | |- exists r, ?e = Ok r /\ _ =>
    assert (R : e = Ok {| qp_organisms := oheap h1 (p_orgs p); qp_species := sheap spsF; qp_Organisms := p_orgs p;
                          qp_Species := map sp_id (filter (fun s => Z.gtb (sp_exp s) 0) spsF) |})
  end.
  { destruct (loop_count (oheap h1 (p_orgs p)) h1 (p_species p) [] 0%float 0 sps te) as (skim' & E).
    { exact Ni. }
    { intros s k Hs Hk. apply oheap_get. eapply part_incl; eauto. }
    { exact Hc. }
    cbn [app sheap map] in E. change (map (fun s => (sp_id s, sview s)) (p_species p)) with (sheap (p_species p)) in E.
    cbv zeta in E.
    match type of E with
    | ?l = _ =>
      match goal with
      | |- context [go_for (map sp_id (p_species p)) ?f ?i] => change (go_for (map sp_id (p_species p)) f i) with l
      end
    end.
    rewrite E. cbn [bind]. clear E.
    change (map (fun s => (sp_id s, sview s)) sps) with (sheap sps).
    (* (3) the make-up block *)
    rewrite <- I.
    pose proof (block_makeup (zlen orgs) te sps Ns) as B. cbv zeta in B. rewrite B. cbn [bind]. clear B.
    (* (4) the species kept *)
    fold spsF. rewrite <- IF.
    rewrite (loop_keep (sheap spsF) spsF []) by (intros s Hs; now apply sheap_get). cbn [bind app]. reflexivity. }
  rewrite R. eexists. split; [reflexivity|].
  unfold view_agrees. cbn [abs p_with qp_organisms qp_species qp_Organisms qp_Species p_heap p_orgs p_species p_detached].
  repeat split.
  intros s Hs. rewrite (part_detached _ P) in Hs. cbn [app] in Hs.
  apply in_app_or in Hs. destruct Hs as [Hs|Hs]; apply filter_In in Hs; destruct Hs as [Hs _]; now apply sheap_get.
Qed.
