(* C12, fast solver over the reals, relative to a description [translated n fn idx] of what
   Network.FastNetworkSolver produces (discharged in SolverBuild.v): what one forwardStep does; after
   j steps every neuron of depth <= j holds its final value; ForwardSteps / Relax with at least
   depth-many sweeps return the solution of the node equations. *)
From NeatModel Require Import Res Net Fast SolverUtil SolverSpec.
From Coq Require Import Reals Lra Arith Lia.
Open Scope R_scope.

Section FastSpec.
Variable n : net R.
Variable fn : fnet R.
Variable idx : nat -> nat.     (* position in allNodes -> index in the fast solver's arrays *)

Notation N := (nnodes n).

Definition nonbias_src (l : link R) : bool := negb (is_bias (role_at n (l_src l))).
Definition bias_src (l : link R) : bool := is_bias (role_at n (l_src l)).

Record translated : Prop := mkTr {
  tr_total : f_total fn = N;
  tr_acts_len : length (f_acts fn) = N;
  tr_biases_len : length (f_biases fn) = N;
  tr_sensor_le : (f_sensor fn <= N)%nat;
  tr_out : f_out fn = length (outputs n);
  tr_idx_lt : forall p, (p < N)%nat -> (idx p < N)%nat;
  tr_idx_inj : forall p q, (p < N)%nat -> (q < N)%nat -> idx p = idx q -> p = q;
  tr_idx_surj : forall i, (i < N)%nat -> exists p, (p < N)%nat /\ idx p = i;
  tr_sensor : forall p, (p < N)%nat -> ((idx p < f_sensor fn)%nat <-> sensorb n p = true);
  tr_bias : forall p, (p < N)%nat -> ((idx p < f_bias fn)%nat <-> is_bias (role_at n p) = true);
  tr_acts : forall p, (p < N)%nat -> nth (idx p) (f_acts fn) 0%Z = nd_act (node_at n p);
  tr_conns : forall p, (p < N)%nat -> neuronb n p = true ->
      filter (fun c => (fl_tgt c =? idx p)%nat) (f_conns fn) =
      map (fun l => mkFlink (idx (l_src l)) (idx p) (l_w l)) (filter nonbias_src (nd_in (node_at n p)));
  tr_biases : forall p, (p < N)%nat -> neuronb n p = true ->
      nth (idx p) (f_biases fn) 0 = fold_left (fun a l => a + l_w l) (filter bias_src (nd_in (node_at n p))) 0;
  tr_outs : forall i, (i < length (outputs n))%nat -> idx (nth i (outputs n) 0%nat) = (f_sensor fn + i)%nat;
  tr_ins : forall i, (i < f_in fn)%nat ->
      idx (nth i (positions_with n is_input) 0%nat) = (f_bias fn + i)%nat;
  tr_in : f_in fn = length (positions_with n is_input)
}.

End FastSpec.

Section FastForward.
Variable n : net R.
Variable known : Z -> bool.
Variable f : Z -> R -> R.
Variable dp : nat -> nat.
Variable v : nat -> R.
Variable fn : fnet R.
Variable idx : nat -> nat.
Hypothesis FF : ffnet n known dp.
Hypothesis SOL : solves n f v.
Hypothesis TR : translated n fn idx.
Hypothesis vbias : forall p, (p < nnodes n)%nat -> is_bias (role_at n p) = true -> v p = 1.

Notation act := (ract known f).
Notation fstate := (fstate R).
Notation N := (nnodes n).

Definition sg (s : fstate) (i : nat) : R := nth i (fs_sig s) 0.
Definition bp (s : fstate) (i : nat) : R := nth i (fs_bp s) 0.

(* ----- first loop: one pass over the connections ----- *)
Definition same_rec (s s' : fstate) : Prop :=
  fs_done s' = fs_done s /\ fs_inact s' = fs_inact s /\ fs_last s' = fs_last s.

Lemma same_rec_refl s : same_rec s s.
Proof. repeat split. Qed.
Lemma same_rec_trans s1 s2 s3 : same_rec s1 s2 -> same_rec s2 s3 -> same_rec s1 s3.
Proof. intros (A1 & A2 & A3) (B1 & B2 & B3). repeat split; congruence. Qed.

Definition contrib (s : fstate) (cs : list (flink R)) (t : nat) : R :=
  sumf (fun c => sg s (fl_src c) * fl_w c) (filter (fun c => (fl_tgt c =? t)%nat) cs).

Lemma fold_conn_step_spec cs : forall s,
  let s' := fold_left (conn_step Rnum) cs s in
  fs_sig s' = fs_sig s /\ length (fs_bp s') = length (fs_bp s) /\ same_rec s s' /\
  forall t, (t < length (fs_bp s))%nat -> bp s' t = bp s t + contrib s cs t.
Proof.
  induction cs as [|c rest IH]; intros s; simpl.
  - repeat split; auto. intros t _. unfold contrib. simpl. lra.
  - destruct (IH (conn_step Rnum s c)) as (E1 & E2 & E3 & E6).
    assert (Hs : fs_sig (conn_step Rnum s c) = fs_sig s) by reflexivity.
    assert (Hl : length (fs_bp (conn_step Rnum s c)) = length (fs_bp s))
      by (unfold conn_step, set_bp; simpl; apply upd_length).
    split; [congruence|]. split; [congruence|]. split; [exact E3|].
    intros t Ht. rewrite E6 by (rewrite Hl; exact Ht).
    assert (Hc : contrib (conn_step Rnum s c) rest t = contrib s rest t).
    { unfold contrib. apply sumf_ext. intros c' _. unfold sg. now rewrite Hs. }
    rewrite Hc.
    assert (Hbp : bp (conn_step Rnum s c) t =
                  if (fl_tgt c =? t)%nat then bp s t + sg s (fl_src c) * fl_w c else bp s t).
    { unfold bp, sg, conn_step, set_bp, bpF, sigF, getF. simpl. rewrite nth_upd.
      destruct (fl_tgt c =? t)%nat eqn:E; simpl; [|reflexivity].
      apply Nat.eqb_eq in E. subst t. destruct (fl_tgt c <? length (fs_bp s))%nat eqn:E'; [reflexivity|].
      apply Nat.ltb_ge in E'. lia. }
    rewrite Hbp. unfold contrib. simpl. destruct (fl_tgt c =? t)%nat; simpl; lra.
Qed.

(* ----- second loop, when every activation type met is registered ----- *)
Definition pre_act (s : fstate) (i : nat) : R :=
  if (0 <? f_bias fn)%nat then bp s i + nth i (f_biases fn) 0 else bp s i.

Definition actv_pure (s : fstate) (i : nat) : fstate :=
  set_bp s i (f (nth i (f_acts fn) 0%Z) (pre_act s i)).

Lemma fs_activate_pure is : forall s,
  (forall i, In i is -> known (nth i (f_acts fn) 0%Z) = true) ->
  fs_activate Rnum act fn is s = (fold_left actv_pure is s, Ok true).
Proof.
  induction is as [|i rest IH]; intros s Hk; simpl; [reflexivity|].
  unfold ract. rewrite (Hk i (or_introl eq_refl)).
  change (if (0 <? f_bias fn)%nat
          then fadd Rnum (bpF Rnum s i) (getF Rnum (f_biases fn) i) else bpF Rnum s i) with (pre_act s i).
  apply IH. intros j Hj. apply Hk. simpl. auto.
Qed.

Lemma fold_actv_pure_spec is : forall s,
  NoDup is ->
  let s' := fold_left actv_pure is s in
  fs_sig s' = fs_sig s /\ length (fs_bp s') = length (fs_bp s) /\ same_rec s s' /\
  (forall j, ~ In j is -> bp s' j = bp s j) /\
  (forall j, In j is -> (j < length (fs_bp s))%nat -> bp s' j = f (nth j (f_acts fn) 0%Z) (pre_act s j)).
Proof.
  induction is as [|i rest IH]; intros s ND; simpl.
  - split; [reflexivity|]. split; [reflexivity|]. split; [apply same_rec_refl|]. split; [auto|]. intros j [].
  - inversion ND as [|? ? Hni ND']; subst.
    destruct (IH (actv_pure s i) ND') as (E1 & E2 & E3 & E4 & E5).
    assert (Hl : length (fs_bp (actv_pure s i)) = length (fs_bp s))
      by (unfold actv_pure, set_bp; simpl; apply upd_length).
    assert (Ho : forall j, j <> i -> bp (actv_pure s i) j = bp s j).
    { intros j Hj. unfold bp, actv_pure, set_bp. simpl. apply nth_upd_other. auto. }
    split; [exact E1|]. split; [congruence|]. split; [exact E3|]. split.
    + intros j Hj. rewrite E4 by tauto. apply Ho. intros ->. apply Hj. auto.
    + intros j [<-|Hj] Hlt.
      * rewrite E4 by exact Hni. unfold bp at 1, actv_pure, set_bp. simpl. apply nth_upd_same. exact Hlt.
      * rewrite E5 by (try exact Hj; rewrite Hl; exact Hlt).
        assert (Hne : j <> i) by (intros ->; contradiction).
        unfold pre_act. now rewrite (Ho j Hne).
Qed.

(* ----- third loop: copy and clear ----- *)
Lemma fs_commit_delta_fst d is : forall r s, fst (fs_commit_delta Rnum d is r s) = fs_commit Rnum is s.
Proof. induction is as [|i rest IH]; intros r s; simpl; [reflexivity|]. apply IH. Qed.

Lemma fs_commit_spec is : forall s,
  NoDup is ->
  let s' := fs_commit Rnum is s in
  length (fs_sig s') = length (fs_sig s) /\ length (fs_bp s') = length (fs_bp s) /\ same_rec s s' /\
  (forall j, ~ In j is -> sg s' j = sg s j /\ bp s' j = bp s j) /\
  (forall j, In j is -> (j < length (fs_sig s))%nat -> (j < length (fs_bp s))%nat ->
             sg s' j = bp s j /\ bp s' j = 0).
Proof.
  induction is as [|i rest IH]; intros s ND; simpl.
  - split; [reflexivity|]. split; [reflexivity|]. split; [apply same_rec_refl|]. split; [auto|]. intros j [].
  - inversion ND as [|? ? Hni ND']; subst.
    destruct (IH (commit_one Rnum s i) ND') as (E1 & E2 & E3 & E4 & E5).
    assert (Hl1 : length (fs_sig (commit_one Rnum s i)) = length (fs_sig s))
      by (unfold commit_one, set_bp, set_sig; simpl; apply upd_length).
    assert (Hl2 : length (fs_bp (commit_one Rnum s i)) = length (fs_bp s))
      by (unfold commit_one, set_bp, set_sig; simpl; apply upd_length).
    assert (Ho : forall j, j <> i -> sg (commit_one Rnum s i) j = sg s j /\ bp (commit_one Rnum s i) j = bp s j).
    { intros j Hj. unfold sg, bp, commit_one, set_bp, set_sig. simpl. split; apply nth_upd_other; auto. }
    split; [congruence|]. split; [congruence|]. split; [exact E3|]. split.
    + intros j Hj. assert (Hne : j <> i) by (intros ->; apply Hj; auto).
      destruct (E4 j) as [A B]; [tauto|]. destruct (Ho j Hne) as [C D]. split; congruence.
    + intros j [<-|Hj] H1 H2.
      * destruct (E4 i Hni) as [A B]. rewrite A, B.
        unfold sg, bp, commit_one, set_bp, set_sig, bpF, getF. simpl.
        split; apply nth_upd_same; assumption.
      * assert (Hne : j <> i) by (intros ->; contradiction).
        destruct (E5 j Hj) as [A B]; [rewrite Hl1; exact H1|rewrite Hl2; exact H2|].
        destruct (Ho j Hne) as [_ D]. split; congruence.
Qed.

(* ----- forwardStep ----- *)
Definition in_range (i : nat) : Prop := (f_sensor fn <= i < N)%nat.

Lemma in_neuron_range i : In i (neuron_range fn) <-> in_range i.
Proof.
  unfold neuron_range, in_range. rewrite (tr_total _ _ _ TR). rewrite in_seq.
  pose proof (tr_sensor_le _ _ _ TR). lia.
Qed.

Lemma range_neuron i : in_range i -> exists p, (p < N)%nat /\ idx p = i /\ neuronb n p = true.
Proof.
  intros [H1 H2]. destruct (tr_idx_surj _ _ _ TR i H2) as (p & Hp & E). exists p. split; [exact Hp|]. split; [exact E|].
  destruct (sensor_or_neuron n p) as [Hs|Hn]; [|exact Hn].
  apply (tr_sensor _ _ _ TR p Hp) in Hs. lia.
Qed.

Lemma range_known i : In i (neuron_range fn) -> known (nth i (f_acts fn) 0%Z) = true.
Proof.
  intros Hi. apply in_neuron_range in Hi. destruct (range_neuron i Hi) as (p & Hp & E & Hn).
  rewrite <- E, (tr_acts _ _ _ TR p Hp). apply (ff_known _ _ _ FF); assumption.
Qed.

Definition flensN (s : fstate) : Prop := length (fs_sig s) = N /\ length (fs_bp s) = N.

Lemma forward_step_spec d s :
  flensN s ->
  exists s' r, forward_step Rnum act fn d s = (s', Ok r) /\ flensN s' /\ same_rec s s' /\
    (forall i, in_range i ->
       sg s' i = f (nth i (f_acts fn) 0%Z)
                   (if (0 <? f_bias fn)%nat then bp s i + contrib s (f_conns fn) i + nth i (f_biases fn) 0
                    else bp s i + contrib s (f_conns fn) i) /\ bp s' i = 0) /\
    (forall i, ~ in_range i -> sg s' i = sg s i) /\
    (fleb Rnum d (fzero Rnum) = true -> r = true).
Proof.
  intros [LS LB]. unfold forward_step.
  destruct (fold_conn_step_spec (f_conns fn) s) as (A1 & A2 & A3 & A4).
  set (s1 := fold_left (conn_step Rnum) (f_conns fn) s) in *.
  rewrite (fs_activate_pure (neuron_range fn) s1 range_known).
  assert (ND : NoDup (neuron_range fn)) by apply seq_NoDup.
  destruct (fold_actv_pure_spec (neuron_range fn) s1 ND) as (B1 & B2 & B3 & B4 & B5).
  set (s2 := fold_left actv_pure (neuron_range fn) s1) in *.
  destruct (fs_commit_spec (neuron_range fn) s2 ND) as (C1 & C2 & C3 & C4 & C5).
  assert (Hfinal : forall s3, s3 = fs_commit Rnum (neuron_range fn) s2 ->
     flensN s3 /\ same_rec s s3 /\
     (forall i, in_range i ->
       sg s3 i = f (nth i (f_acts fn) 0%Z)
                   (if (0 <? f_bias fn)%nat then bp s i + contrib s (f_conns fn) i + nth i (f_biases fn) 0
                    else bp s i + contrib s (f_conns fn) i) /\ bp s3 i = 0) /\
     (forall i, ~ in_range i -> sg s3 i = sg s i)).
  { intros s3 ->. split; [split; congruence|]. split; [apply (same_rec_trans _ _ _ A3), (same_rec_trans _ _ _ B3), C3|].
    split.
    - intros i Hi. pose proof Hi as [Hi1 Hi2]. apply in_neuron_range in Hi.
      destruct (C5 i Hi) as [D1 D2]; [congruence|congruence|]. split; [|exact D2].
      rewrite D1, B5 by (try exact Hi; congruence). unfold pre_act. rewrite A4 by lia.
      destruct (0 <? f_bias fn)%nat; reflexivity.
    - intros i Hi. destruct (C4 i) as [D1 _]; [rewrite in_neuron_range; exact Hi|].
      rewrite D1. unfold sg. now rewrite B1, A1. }
  destruct (fleb Rnum d (fzero Rnum)) eqn:Ed.
  - exists (fs_commit Rnum (neuron_range fn) s2), true. split; [reflexivity|].
    destruct (Hfinal _ eq_refl) as (H1 & H2 & H3 & H4).
    split; [exact H1|]. split; [exact H2|]. split; [exact H3|]. split; [exact H4|]. reflexivity.
  - pose proof (fs_commit_delta_fst d (neuron_range fn) true s2) as Hd.
    destruct (fs_commit_delta Rnum d (neuron_range fn) true s2) as [s3 r]. simpl in Hd.
    exists s3, r. split; [reflexivity|].
    destruct (Hfinal _ Hd) as (H1 & H2 & H3 & H4).
    split; [exact H1|]. split; [exact H2|]. split; [exact H3|]. split; [exact H4|]. discriminate.
Qed.


(* ----- the invariant ----- *)
Definition fbase (s : fstate) : Prop :=
  flensN s /\ (forall i, in_range i -> bp s i = 0) /\
  (forall p, (p < N)%nat -> sensorb n p = true -> sg s (idx p) = v p).

Definition FFin (j : nat) (s : fstate) : Prop :=
  fbase s /\ forall p, (p < N)%nat -> neuronb n p = true -> (dp p <= j)%nat -> sg s (idx p) = v p.

Lemma neuron_in_range p : (p < N)%nat -> neuronb n p = true -> in_range (idx p).
Proof.
  intros Hp Hn. split; [|apply (tr_idx_lt _ _ _ TR); exact Hp].
  destruct (Nat.lt_ge_cases (idx p) (f_sensor fn)) as [H|H]; [|exact H].
  apply (tr_sensor _ _ _ TR p Hp) in H. rewrite (neuron_not_sensor n p Hn) in H. discriminate.
Qed.

Lemma sensor_not_in_range p : (p < N)%nat -> sensorb n p = true -> ~ in_range (idx p).
Proof. intros Hp Hs [H _]. apply (tr_sensor _ _ _ TR p Hp) in Hs. lia. Qed.

Lemma bias_term_zero p : (p < N)%nat -> f_bias fn = 0%nat -> filter (bias_src n) (nd_in (node_at n p)) = [].
Proof.
  intros Hp H0. destruct (filter (bias_src n) (nd_in (node_at n p))) as [|l rest] eqn:E; [reflexivity|].
  exfalso. assert (Hl : In l (filter (bias_src n) (nd_in (node_at n p)))) by (rewrite E; simpl; auto).
  apply filter_In in Hl. destruct Hl as [Hl Hb]. unfold bias_src in Hb.
  pose proof (net_ok_src n (ff_ok _ _ _ FF) p l Hp Hl) as Hs.
  apply (tr_bias _ _ _ TR (l_src l) Hs) in Hb. lia.
Qed.

(* the pre-activation of a neuron all of whose sources carry their value *)
Lemma pre_activation_value s p :
  (p < N)%nat -> neuronb n p = true ->
  (forall l, In l (nd_in (node_at n p)) -> sg s (idx (l_src l)) = v (l_src l)) ->
  (if (0 <? f_bias fn)%nat then contrib s (f_conns fn) (idx p) + nth (idx p) (f_biases fn) 0
   else contrib s (f_conns fn) (idx p)) = wsum v (nd_in (node_at n p)).
Proof.
  intros Hp Hn Hv.
  assert (Hc : contrib s (f_conns fn) (idx p) =
               sumf (fun l => l_w l * v (l_src l)) (filter (nonbias_src n) (nd_in (node_at n p)))).
  { unfold contrib. rewrite (tr_conns _ _ _ TR p Hp Hn), sumf_map. simpl.
    apply sumf_ext. intros l Hl. apply filter_In in Hl. destruct Hl as [Hl _]. rewrite (Hv l Hl). lra. }
  assert (Hb : nth (idx p) (f_biases fn) 0 =
               sumf (fun l => l_w l * v (l_src l)) (filter (bias_src n) (nd_in (node_at n p)))).
  { rewrite (tr_biases _ _ _ TR p Hp Hn), sumf_fold_left, Rplus_0_l.
    apply sumf_ext. intros l Hl. apply filter_In in Hl. destruct Hl as [Hl Hbs].
    rewrite (vbias (l_src l)); [lra|exact (net_ok_src n (ff_ok _ _ _ FF) p l Hp Hl)|exact Hbs]. }
  rewrite wsum_sumf, (sumf_filter_split _ (bias_src n)).
  change (fun x => negb (bias_src n x)) with (nonbias_src n).
  rewrite Hc. destruct (0 <? f_bias fn)%nat eqn:E0.
  - rewrite Hb. lra.
  - apply Nat.ltb_ge in E0. rewrite (bias_term_zero p Hp) by lia. simpl. lra.
Qed.

Lemma forward_step_FFin d j s :
  FFin j s ->
  exists s' r, forward_step Rnum act fn d s = (s', Ok r) /\ FFin (S j) s' /\ same_rec s s' /\
               (fleb Rnum d (fzero Rnum) = true -> r = true).
Proof.
  intros HF. pose proof HF as [(LN & BZ & SV) NV].
  destruct (forward_step_spec d s LN) as (s' & r & E & LN' & SR & Hin & Hout & Hr).
  exists s', r. split; [exact E|]. split; [|split; [exact SR|exact Hr]].
  split; [split; [exact LN'|split]|].
  - intros i Hi. apply Hin. exact Hi.
  - intros p Hp Hs. rewrite Hout by (apply sensor_not_in_range; assumption). apply SV; assumption.
  - intros p Hp Hn Hd. pose proof (neuron_in_range p Hp Hn) as Hi.
    destruct (Hin _ Hi) as [Es _]. rewrite Es, (BZ _ Hi), (tr_acts _ _ _ TR p Hp).
    assert (Hv : forall l, In l (nd_in (node_at n p)) -> sg s (idx (l_src l)) = v (l_src l)).
    { intros l Hl. pose proof (net_ok_src n (ff_ok _ _ _ FF) p l Hp Hl) as Hs.
      destruct (sensor_or_neuron n (l_src l)) as [Hse|Hne]; [apply SV; assumption|].
      apply NV; try assumption. pose proof (ff_rank _ _ _ FF p l Hp Hn Hl). lia. }
    pose proof (pre_activation_value s p Hp Hn Hv) as Hpre.
    rewrite (SOL p Hp Hn). f_equal.
    destruct (0 <? f_bias fn)%nat; rewrite <- Hpre; lra.
Qed.

Lemma FFin_zero s : fbase s -> FFin 0 s.
Proof.
  intros B. split; [exact B|]. intros p Hp Hn Hd. exfalso.
  pose proof (ff_fed _ _ _ FF p Hp Hn) as Hne.
  destruct (nd_in (node_at n p)) as [|l rest] eqn:E; [congruence|].
  pose proof (ff_rank _ _ _ FF p l Hp Hn) as Hr. rewrite E in Hr. specialize (Hr (or_introl eq_refl)). lia.
Qed.

Lemma fleb_zero_zero : fleb Rnum (fzero Rnum) (fzero Rnum) = true.
Proof. simpl. destruct (Rle_dec 0 0); [reflexivity|lra]. Qed.

(* ----- ForwardSteps ----- *)
Lemma ff_loop_FFin it : forall j s last,
  FFin j s ->
  exists s', ff_loop Rnum act fn it last s = (s', Ok (if (it =? 0)%nat then last else true)) /\
             FFin (j + it) s' /\ same_rec s s'.
Proof.
  induction it as [|it IH]; intros j s last HF; simpl.
  - exists s. rewrite Nat.add_0_r. split; [reflexivity|]. split; [exact HF|apply same_rec_refl].
  - destruct (forward_step_FFin 0 j s HF) as (s1 & r & E & HF1 & SR & Hr). rewrite E.
    rewrite (Hr fleb_zero_zero).
    destruct (IH (S j) s1 true HF1) as (s' & E' & HF' & SR').
    exists s'. split; [|split; [replace (j + S it)%nat with (S j + it)%nat by lia; exact HF'|
                              exact (same_rec_trans _ _ _ SR SR')]].
    rewrite E'. destruct (it =? 0)%nat; reflexivity.
Qed.

(* reading the outputs *)
Lemma map_seq_nth {A} (g : nat -> A) (h : nat -> A) (l : list nat) : forall a,
  (forall i, (i < length l)%nat -> g (a + i)%nat = h (nth i l 0%nat)) ->
  map g (seq a (length l)) = map h l.
Proof.
  induction l as [|x rest IH]; intros a H; simpl; [reflexivity|].
  f_equal.
  - specialize (H 0%nat). simpl in H. rewrite Nat.add_0_r in H. apply H. lia.
  - apply IH. intros i Hi. specialize (H (S i)). simpl in H. rewrite <- H by lia. f_equal. lia.
Qed.

Lemma outputs_FFin j s :
  FFin j s -> (forall o, In o (outputs n) -> (dp o <= j)%nat) ->
  fast_outputs Rnum fn s = map v (outputs n).
Proof.
  intros [B NV] Hd. unfold fast_outputs. rewrite (tr_out _ _ _ TR).
  apply map_seq_nth. intros i Hi.
  rewrite <- (tr_outs _ _ _ TR i Hi).
  assert (Ho : In (nth i (outputs n) 0%nat) (outputs n)) by (apply nth_In; exact Hi).
  apply NV.
  - exact (net_ok_outputs n (ff_ok _ _ _ FF) _ Ho).
  - exact (ff_outs _ _ _ FF _ Ho).
  - apply Hd. exact Ho.
Qed.

Theorem fast_forward_from_base (k : Z) s :
  fbase s -> (forall o, In o (outputs n) -> (Z.of_nat (dp o) <= k)%Z) ->
  exists s' r, fast_forward Rnum act fn k s = (s', Ok r) /\ fast_outputs Rnum fn s' = map v (outputs n).
Proof.
  intros B Hk. unfold fast_forward.
  destruct (ff_loop_FFin (Z.to_nat k) 0 s false (FFin_zero s B)) as (s' & E & HF & _).
  exists s'. eexists. split; [exact E|].
  apply (outputs_FFin _ _ HF). intros o Ho. specialize (Hk o Ho). simpl. lia.
Qed.

(* ----- Relax: the number of sweeps a call performs ----- *)
Fixpoint relax_sweeps (it : nat) (d : R) (s : fstate) : nat :=
  match it with
  | O => O
  | S it' =>
    match forward_step Rnum act fn d s with
    | (s', Ok false) => S (relax_sweeps it' d s')
    | _ => 1%nat
    end
  end.

Lemma relax_loop_FFin it d : forall j s last,
  FFin j s ->
  exists s' r, relax_loop Rnum act fn it d last s = (s', Ok r) /\
               FFin (j + relax_sweeps it d s) s' /\ same_rec s s' /\
               (it <> 0%nat -> r = false -> relax_sweeps it d s = it) /\
               (it <> 0%nat -> fleb Rnum d (fzero Rnum) = true -> relax_sweeps it d s = 1%nat).
Proof.
  induction it as [|it IH]; intros j s last HF; simpl.
  - exists s, last. rewrite Nat.add_0_r. split; [reflexivity|]. split; [exact HF|].
    split; [apply same_rec_refl|]. split; intros H; congruence.
  - destruct (forward_step_FFin d j s HF) as (s1 & r & E & HF1 & SR & Hr). rewrite E.
    destruct r.
    + exists s1, true. split; [reflexivity|]. split; [replace (j + 1)%nat with (S j) by lia; exact HF1|].
      split; [exact SR|]. split; [intros _ H; discriminate|reflexivity].
    + destruct (IH (S j) s1 false HF1) as (s' & r' & E' & HF' & SR' & H1 & H2).
      exists s', r'. split; [exact E'|].
      split; [replace (j + S (relax_sweeps it d s1))%nat with (S j + relax_sweeps it d s1)%nat by lia; exact HF'|].
      split; [exact (same_rec_trans _ _ _ SR SR')|]. split.
      * intros _ Hr'. destruct it as [|it'].
        -- reflexivity.
        -- rewrite H1; [reflexivity|discriminate|exact Hr'].
      * intros _ Hd. specialize (Hr Hd). discriminate.
Qed.

Theorem fast_relax_from_base (ms : Z) (d : R) s :
  fbase s ->
  (forall o, In o (outputs n) -> (dp o <= relax_sweeps (Z.to_nat ms) d s)%nat) ->
  exists s' r, fast_relax Rnum act fn ms d s = (s', Ok r) /\ fast_outputs Rnum fn s' = map v (outputs n).
Proof.
  intros B Hk. unfold fast_relax.
  destruct (relax_loop_FFin (Z.to_nat ms) d 0 s false (FFin_zero s B)) as (s' & r & E & HF & _).
  exists s', r. split; [exact E|]. apply (outputs_FFin _ _ HF). intros o Ho. simpl. apply Hk. exact Ho.
Qed.

(* the sweeps performed: all of them when the call reports "not relaxed"; exactly one when the tolerance is <= 0 *)
Lemma relax_sweeps_not_relaxed (ms : Z) (d : R) s s' :
  fbase s -> (1 <= ms)%Z -> fast_relax Rnum act fn ms d s = (s', Ok false) ->
  relax_sweeps (Z.to_nat ms) d s = Z.to_nat ms.
Proof.
  intros B Hms E. unfold fast_relax in E.
  destruct (relax_loop_FFin (Z.to_nat ms) d 0 s false (FFin_zero s B)) as (s2 & r & E2 & _ & _ & H1 & _).
  rewrite E in E2. injection E2 as _ <-. apply H1; [lia|reflexivity].
Qed.

Lemma relax_sweeps_nonpositive (ms : Z) (d : R) s :
  fbase s -> (1 <= ms)%Z -> d <= 0 -> relax_sweeps (Z.to_nat ms) d s = 1%nat.
Proof.
  intros B Hms Hd.
  destruct (relax_loop_FFin (Z.to_nat ms) d 0 s false (FFin_zero s B)) as (s2 & r & _ & _ & _ & _ & H2).
  apply H2; [lia|]. simpl. destruct (Rle_dec d 0); [reflexivity|lra].
Qed.

End FastForward.
