(* C19, totality: the ten Floats statistics never reach one of gonum's panics.

   Generic part: for ANY number structure whose "<" is asymmetric and false on NaN, the copy
   produced by x.sorted() passes stat.Quantile's Float64sAreSorted test, so "x data are not
   sorted" (the panic repaired by 8399ba2) is unreachable; together with 0 <= p <= 1 and the
   arithmetic fact that counting to n reaches p*n, no panic is reachable at all.
   Instances: the reals with NaN (every series, NaN elements included) and binary64 (the ordering
   laws are proved from the IEEE specification of the primitive comparison; the counting fact is
   not proved for binary64, where it only holds for series shorter than 2^53). *)
From Coq Require Import List ZArith Bool Reals Lra Lia Floats.
From NeatModel Require Import Res Stats StatsSpec StatsQuantile.
Import ListNotations.

Section Total.
Context {F : Type} (N : num F).

Hypothesis ltb_asym : forall x y, n_ltb N x y = true -> n_ltb N y x = false.
Hypothesis ltb_nan_l : forall x y, n_isnan N x = true -> n_ltb N x y = false.
Hypothesis ltb_nan_r : forall x y, n_isnan N y = true -> n_ltb N x y = false.

Lemma less_asym x y : less N x y = true -> less N y x = false.
Proof.
  unfold less. intros H. apply orb_true_iff in H. destruct H as [H | H].
  - apply andb_true_iff in H. destruct H as [Hx Hy]. rewrite Hx. simpl. rewrite andb_false_r. simpl.
    now apply ltb_nan_r.
  - destruct (n_isnan N x) eqn:Ex; [rewrite (ltb_nan_l x y Ex) in H; discriminate|].
    destruct (n_isnan N y) eqn:Ey; [rewrite (ltb_nan_r x y Ey) in H; discriminate|].
    simpl. now apply ltb_asym.
Qed.

Lemma are_sorted_cons y m :
  are_sorted N (y :: m) = match m with [] => true | z :: _ => negb (less N z y) && are_sorted N m end.
Proof. destruct m; reflexivity. Qed.

Lemma insert_head x l :
  insert N x l = x :: l \/ exists z l', l = z :: l' /\ less N x z = false /\ insert N x l = z :: insert N x l'.
Proof.
  destruct l as [|z l']; [now left|]. simpl. destruct (less N x z) eqn:E; [now left|].
  right. exists z, l'. auto.
Qed.

Lemma insert_sorted_gen x : forall l, are_sorted N l = true -> are_sorted N (insert N x l) = true.
Proof.
  induction l as [|y l IH]; intros H; [reflexivity|].
  simpl insert. destruct (less N x y) eqn:E.
  - rewrite are_sorted_cons. rewrite (less_asym _ _ E). simpl. exact H.
  - rewrite are_sorted_cons in H.
    assert (Hl : are_sorted N l = true).
    { destruct l; [reflexivity|]. now apply andb_true_iff in H. }
    specialize (IH Hl). rewrite are_sorted_cons.
    destruct (insert_head x l) as [Eq | (z & l' & -> & Ez & Eq)]; rewrite Eq in *.
    + rewrite E. simpl. exact IH.
    + apply andb_true_iff in H. destruct H as [H1 _]. rewrite H1. simpl. exact IH.
Qed.

Lemma isort_fold_sorted_gen : forall l acc,
  are_sorted N acc = true -> are_sorted N (fold_left (fun a x => insert N x a) l acc) = true.
Proof. induction l as [|x l IH]; intros acc H; simpl; [exact H|]. apply IH, insert_sorted_gen, H. Qed.

(* the sorted copy always passes the sortedness test of stat.Quantile *)
Lemma sorted_copy_is_sorted l : are_sorted N (F_sorted N l) = true.
Proof. apply isort_fold_sorted_gen. reflexivity. Qed.

Lemma insert_length x l : length (insert N x l) = S (length l).
Proof. induction l as [|y l IH]; simpl; [reflexivity|]. destruct (less N x y); simpl; now rewrite ?IH. Qed.

Lemma isort_fold_length : forall l acc,
  length (fold_left (fun a x => insert N x a) l acc) = (length l + length acc)%nat.
Proof. induction l as [|x l IH]; intros acc; simpl; [reflexivity|]. rewrite IH, insert_length. lia. Qed.

Lemma sorted_copy_length l : length (F_sorted N l) = length l.
Proof. unfold F_sorted, isort. rewrite isort_fold_length. simpl. lia. Qed.

(* ---- the quantile ---- *)
Variable p : F.
Hypothesis p_ok : n_leb N (n_zero N) p && n_leb N p (n_one N) = true.

(* without any arithmetic fact: the only panic left is panic("impossible") *)
Lemma emp_loop_weak : forall x c f, (exists v, emp_loop N x c f = Ok v) \/ emp_loop N x c f = GoPanic panic_impossible.
Proof.
  induction x as [|v x IH]; intros c f; simpl; [now right|].
  destruct (n_leb N f (n_add N c (n_one N))); [left; eauto | apply IH].
Qed.

Theorem quantile_no_sort_panic x :
  (exists v, F_quantile N p x = Ok v) \/ F_quantile N p x = GoPanic panic_impossible.
Proof.
  unfold F_quantile. destruct x as [|x0 x]; [left; eauto|].
  unfold st_quantile. rewrite p_ok. simpl negb. cbv iota.
  pose proof (sorted_copy_length (x0 :: x)) as HL.
  destruct (F_sorted N (x0 :: x)) as [|s0 s] eqn:Es; [simpl in HL; discriminate|].
  destruct (has_nan N (s0 :: s)); [left; eauto|].
  rewrite <- Es, sorted_copy_is_sorted. simpl negb. cbv iota. apply emp_loop_weak.
Qed.

(* counting 1, 2, ..., n *)
Fixpoint count_up (k : nat) : F :=
  match k with O => n_zero N | S k' => n_add N (count_up k') (n_one N) end.

Variable bound : nat -> Prop.
Hypothesis p_cum : forall n, (1 <= n)%nat -> bound n ->
  n_leb N (n_mul N p (n_ofZ N (Z.of_nat n))) (count_up n) = true.

Lemma emp_loop_total f : forall x k,
  x <> [] -> n_leb N f (count_up (k + length x)) = true -> exists v, emp_loop N x (count_up k) f = Ok v.
Proof.
  induction x as [|v x IH]; intros k Hne Hf; [congruence|]. simpl emp_loop.
  change (n_add N (count_up k) (n_one N)) with (count_up (S k)).
  destruct (n_leb N f (count_up (S k))) eqn:E; [eauto|].
  apply IH.
  - intros ->. simpl in Hf. rewrite Nat.add_1_r in Hf. congruence.
  - simpl length in Hf. now rewrite Nat.add_succ_r in Hf.
Qed.

Theorem quantile_total x : bound (length x) -> exists v, F_quantile N p x = Ok v.
Proof.
  intros Hb. unfold F_quantile. destruct x as [|x0 x]; [eauto|].
  unfold st_quantile. rewrite p_ok. simpl negb. cbv iota.
  pose proof (sorted_copy_length (x0 :: x)) as HL.
  destruct (F_sorted N (x0 :: x)) as [|s0 s] eqn:Es; [simpl in HL; discriminate|].
  destruct (has_nan N (s0 :: s)); [eauto|].
  rewrite <- Es, sorted_copy_is_sorted. simpl negb. cbv iota.
  apply (emp_loop_total _ (F_sorted N (x0 :: x)) 0).
  - rewrite Es. discriminate.
  - simpl plus. unfold len. rewrite Es, HL. apply p_cum; [simpl; lia | exact Hb].
Qed.

End Total.

(* ---- Min / Max: the index MinIdx/MaxIdx return is inside the slice (no hypothesis needed) ---- *)
Section TotalMinMax.
Context {F : Type} (N : num F).

Lemma index_total : forall (s : list F) i, (0 <= i < len s)%Z -> exists v, index s i = Ok v.
Proof.
  induction s as [|a s IH]; intros i Hi; unfold len in *; simpl in *; [lia|].
  destruct (Z.eqb_spec i 0); [eauto|]. destruct (Z.ltb_spec i 0); [lia|]. apply IH. unfold len. lia.
Qed.

Lemma min_loop_range : forall s i mn ind,
  (0 <= ind <= i)%Z -> (ind < i)%Z \/ s <> [] ->
  (0 <= min_loop N s i mn ind < i + len s)%Z.
Proof.
  induction s as [|v s IH]; intros i mn ind H1 H2.
  - simpl. unfold len; simpl. destruct H2; [lia | congruence].
  - simpl min_loop. unfold len in *. simpl length. rewrite Nat2Z.inj_succ.
    destruct (n_isnan N v); [|destruct (n_ltb N v mn || n_isnan N mn)].
    + specialize (IH (i + 1)%Z mn ind). lia.
    + specialize (IH (i + 1)%Z v i). lia.
    + specialize (IH (i + 1)%Z mn ind). lia.
Qed.

Lemma max_loop_range : forall s i mx ind,
  (0 <= ind <= i)%Z -> (ind < i)%Z \/ s <> [] ->
  (0 <= max_loop N s i mx ind < i + len s)%Z.
Proof.
  induction s as [|v s IH]; intros i mx ind H1 H2.
  - simpl. unfold len; simpl. destruct H2; [lia | congruence].
  - simpl max_loop. unfold len in *. simpl length. rewrite Nat2Z.inj_succ.
    destruct (n_isnan N v); [|destruct (n_ltb N mx v || n_isnan N mx)].
    + specialize (IH (i + 1)%Z mx ind). lia.
    + specialize (IH (i + 1)%Z v i). lia.
    + specialize (IH (i + 1)%Z mx ind). lia.
Qed.

Theorem min_total x : exists v, F_min N x = Ok v.
Proof.
  destruct x as [|x0 x]; [simpl; eauto|].
  change (F_min N (x0 :: x)) with (index (x0 :: x) (min_loop N (x0 :: x) 0 (n_nan N) 0)).
  apply index_total. assert (H : (0 <= min_loop N (x0 :: x) 0 (n_nan N) 0 < 0 + len (x0 :: x))%Z).
  { apply min_loop_range; [lia | right; discriminate]. }
  lia.
Qed.

Theorem max_total x : exists v, F_max N x = Ok v.
Proof.
  destruct x as [|x0 x]; [simpl; eauto|].
  change (F_max N (x0 :: x)) with (index (x0 :: x) (max_loop N (x0 :: x) 0 (n_nan N) 0)).
  apply index_total. assert (H : (0 <= max_loop N (x0 :: x) 0 (n_nan N) 0 < 0 + len (x0 :: x))%Z).
  { apply max_loop_range; [lia | right; discriminate]. }
  lia.
Qed.
End TotalMinMax.

(* ================= instance: reals with NaN ================= *)
Open Scope R_scope.

Lemma x_ltb_asym (x y : xr) : n_ltb xnum x y = true -> n_ltb xnum y x = false.
Proof.
  destruct x as [x|], y as [y|]; simpl; try discriminate; try reflexivity.
  intros H. apply Rltb_true in H. apply Rltb_false. lra.
Qed.
Lemma x_ltb_nan_l (x y : xr) : n_isnan xnum x = true -> n_ltb xnum x y = false.
Proof. destruct x; [discriminate | reflexivity]. Qed.
Lemma x_ltb_nan_r (x y : xr) : n_isnan xnum y = true -> n_ltb xnum x y = false.
Proof. destruct y; [discriminate|]. destruct x; reflexivity. Qed.

Lemma x_count_up k : count_up xnum k = Some (INR k).
Proof.
  induction k as [|k IH]; [reflexivity|]. simpl count_up. rewrite IH. simpl n_add. simpl n_one.
  unfold xlift2. f_equal. rewrite S_INR. reflexivity.
Qed.

Lemma x_p_ok q : 0 <= q <= 1 -> n_leb xnum (n_zero xnum) (Some q) && n_leb xnum (Some q) (n_one xnum) = true.
Proof.
  intros H. simpl. apply andb_true_iff. split; apply Rleb_true; lra.
Qed.

Lemma x_p_cum q : 0 <= q <= 1 -> forall n, (1 <= n)%nat -> True ->
  n_leb xnum (n_mul xnum (Some q) (n_ofZ xnum (Z.of_nat n))) (count_up xnum n) = true.
Proof.
  intros H n _ _. rewrite x_count_up. simpl. apply Rleb_true. rewrite <- INR_IZR_INZ.
  pose proof (pos_INR n). nra.
Qed.

Theorem x_quantile_total q (l : list xr) : 0 <= q <= 1 -> exists v, F_quantile xnum (Some q) l = Ok v.
Proof.
  intros H. apply (quantile_total xnum x_ltb_asym x_ltb_nan_l x_ltb_nan_r (Some q) (x_p_ok q H) (fun _ => True) (x_p_cum q H)).
  exact I.
Qed.

(* every statistic that has a panic path in gonum, on every series over the reals with NaN *)
Theorem x_never_panics (l : list xr) :
  (exists v, F_min xnum l = Ok v) /\ (exists v, F_max xnum l = Ok v) /\
  (exists v, F_median xnum l = Ok v) /\ (exists v, F_q25 xnum l = Ok v) /\ (exists v, F_q75 xnum l = Ok v).
Proof.
  split; [apply min_total|]. split; [apply max_total|].
  unfold F_median, F_q25, F_q75.
  replace (n_frac xnum 1 2) with (Some (1 / 2)) by (symmetry; apply frac_xnum; lra).
  replace (n_frac xnum 1 4) with (Some (1 / 4)) by (symmetry; apply frac_xnum; lra).
  replace (n_frac xnum 3 4) with (Some (3 / 4)) by (symmetry; apply frac_xnum; lra).
  repeat split; apply x_quantile_total; lra.
Qed.

(* ================= instance: binary64 ================= *)
Close Scope R_scope.

Lemma SFcompare_swap a b : SFcompare b a = option_map CompOpp (SFcompare a b).
Proof.
  destruct a as [sa|sa| |sa ma ea], b as [sb|sb| |sb mb eb]; simpl; try reflexivity;
    try (destruct sa; reflexivity); try (destruct sb; reflexivity);
    try (destruct sa, sb; reflexivity).
  f_equal. destruct sa, sb; try reflexivity.
  - rewrite (Z.compare_antisym ea eb). destruct (ea ?= eb)%Z; simpl; try reflexivity.
    change (Pos.compare_cont Eq mb ma) with (Pos.compare mb ma).
    change (Pos.compare_cont Eq ma mb) with (Pos.compare ma mb).
    rewrite (Pos.compare_antisym ma mb). reflexivity.
  - rewrite (Z.compare_antisym ea eb). destruct (ea ?= eb)%Z; simpl; try reflexivity.
    change (Pos.compare_cont Eq mb ma) with (Pos.compare mb ma).
    change (Pos.compare_cont Eq ma mb) with (Pos.compare ma mb).
    rewrite (Pos.compare_antisym ma mb). reflexivity.
Qed.

Lemma f_ltb_asym (x y : float) : n_ltb fnum x y = true -> n_ltb fnum y x = false.
Proof.
  simpl. rewrite !FloatAxioms.ltb_spec. unfold SFltb. rewrite (SFcompare_swap (Prim2SF x) (Prim2SF y)).
  destruct (SFcompare (Prim2SF x) (Prim2SF y)) as [[| |]|]; simpl; congruence.
Qed.

Lemma SFcompare_refl a : a <> S754_nan -> SFcompare a a = Some Eq.
Proof.
  destruct a as [s|s| |s m e]; simpl; intros H; try reflexivity; try congruence.
  - destruct s; reflexivity.
  - rewrite Z.compare_refl. change (Pos.compare_cont Eq m m) with (Pos.compare m m).
    rewrite Pos.compare_refl. destruct s; reflexivity.
Qed.

Lemma f_isnan (x : float) : n_isnan fnum x = true -> Prim2SF x = S754_nan.
Proof.
  simpl. unfold is_nan. rewrite FloatAxioms.eqb_spec. unfold SFeqb. intros H.
  destruct (Prim2SF x) eqn:E; try reflexivity; exfalso;
    rewrite SFcompare_refl in H by discriminate; discriminate.
Qed.

Lemma f_ltb_nan_l (x y : float) : n_isnan fnum x = true -> n_ltb fnum x y = false.
Proof. intros H. apply f_isnan in H. simpl. rewrite FloatAxioms.ltb_spec, H. reflexivity. Qed.
Lemma f_ltb_nan_r (x y : float) : n_isnan fnum y = true -> n_ltb fnum x y = false.
Proof.
  intros H. apply f_isnan in H. simpl. rewrite FloatAxioms.ltb_spec, H. unfold SFltb.
  destruct (Prim2SF x); reflexivity.
Qed.

Lemma f_p_ok_half : n_leb fnum (n_zero fnum) (n_frac fnum 1 2) && n_leb fnum (n_frac fnum 1 2) (n_one fnum) = true.
Proof. vm_compute. reflexivity. Qed.
Lemma f_p_ok_quarter : n_leb fnum (n_zero fnum) (n_frac fnum 1 4) && n_leb fnum (n_frac fnum 1 4) (n_one fnum) = true.
Proof. vm_compute. reflexivity. Qed.
Lemma f_p_ok_three_quarters : n_leb fnum (n_zero fnum) (n_frac fnum 3 4) && n_leb fnum (n_frac fnum 3 4) (n_one fnum) = true.
Proof. vm_compute. reflexivity. Qed.

(* binary64: Min and Max never panic; Median/Q25/Q75 never panic with "not sorted", "percentile
   out of bounds", "zero length" -- for every series of floats, NaN, infinities and signed
   zeros included.  (panic("impossible") needs cumsum to reach p*n, which binary64 counting
   does for every series shorter than 2^53; that arithmetic fact is not proved here.) *)
Theorem f_never_panics (l : list float) :
  (exists v, F_min fnum l = Ok v) /\ (exists v, F_max fnum l = Ok v) /\
  ((exists v, F_median fnum l = Ok v) \/ F_median fnum l = GoPanic panic_impossible) /\
  ((exists v, F_q25 fnum l = Ok v) \/ F_q25 fnum l = GoPanic panic_impossible) /\
  ((exists v, F_q75 fnum l = Ok v) \/ F_q75 fnum l = GoPanic panic_impossible).
Proof.
  split; [apply min_total|]. split; [apply max_total|].
  repeat split.
  - apply (quantile_no_sort_panic fnum f_ltb_asym f_ltb_nan_l f_ltb_nan_r _ f_p_ok_half).
  - apply (quantile_no_sort_panic fnum f_ltb_asym f_ltb_nan_l f_ltb_nan_r _ f_p_ok_quarter).
  - apply (quantile_no_sort_panic fnum f_ltb_asym f_ltb_nan_l f_ltb_nan_r _ f_p_ok_three_quarters).
Qed.
