(* C12: the one-pass evaluation in topological order as an executable definition (fuelled recursion on
   depth), shown to be a solution of the node equations of a feed-forward network; with the solver theorems
   of SolverMain.v this gives: all four solvers return [topo], hence the same outputs. *)
From NeatModel Require Import Res Net Fast SolverUtil SolverSpec SolverStd SolverFast SolverBuild SolverMain SolverLoad.
From Coq Require Import Reals Lra Arith Lia.
Open Scope nat_scope.

Section Topo.
Variable n : net R.
Variable f : Z -> R -> R.
Notation N := (nnodes n).

(* value of node p: a sensor carries its loaded value, a neuron activation(sum of weight * source) *)
Fixpoint topo_val (sv : nat -> R) (fuel : nat) (p : nat) : R :=
  match fuel with
  | O => 0%R
  | S k => if sensorb n p then sv p
           else f (nd_act (node_at n p)) (wsum (topo_val sv k) (nd_in (node_at n p)))
  end.

(* loaded values: bias inputs are one, the i-th input node (in node order) carries x_i *)
Definition sv_of (x : list R) (p : nat) : R :=
  if is_bias (role_at n p) then 1%R else nth (pos_of p (positions_with n is_input)) x 0%R.

Definition topo_eval (x : list R) : nat -> R := topo_val (sv_of x) N.
Definition topo (x : list R) : list R := map (topo_eval x) (outputs n).

Variable dp : nat -> nat.
Hypothesis FW : feedforward n dp.

Lemma topo_stable sv : forall k1 k2 p, p < N -> dp p < k1 -> dp p < k2 -> topo_val sv k1 p = topo_val sv k2 p.
Proof.
  induction k1 as [|k1 IH]; intros k2 p Hp H1 H2; [lia|].
  destruct k2 as [|k2]; [lia|]. simpl.
  destruct (sensorb n p) eqn:Es; [reflexivity|]. f_equal.
  assert (Hn : neuronb n p = true).
  { destruct (sensor_or_neuron n p) as [H|H]; [congruence|exact H]. }
  apply wsum_ext. intros l Hl.
  pose proof (dp_rank n dp FW p l Hp Hn Hl) as Hr.
  apply IH; [exact (net_ok_src n (fw_ok _ _ FW) p l Hp Hl)|lia|lia].
Qed.

Lemma topo_solves x : solves n f (topo_eval x).
Proof.
  intros p Hp Hn. unfold topo_eval. destruct N as [|k] eqn:EN; [lia|].
  simpl. rewrite (neuron_not_sensor n p Hn). f_equal. apply wsum_ext. intros l Hl.
  assert (HpN : p < N) by lia.
  pose proof (dp_rank n dp FW p l HpN Hn Hl) as Hr.
  pose proof (dp_lt_N n dp FW p HpN) as Hb.
  exact (topo_stable (sv_of x) k (S k) (l_src l) (net_ok_src n (fw_ok _ _ FW) p l HpN Hl) ltac:(lia) ltac:(lia)).
Qed.

Lemma topo_sensor_vals x : sensor_vals n x (topo_eval x).
Proof.
  split.
  - intros p Hp Hb. unfold topo_eval. destruct N as [|k]; [lia|]. simpl.
    assert (Hs : sensorb n p = true) by (unfold sensorb; destruct (role_at n p); simpl in *; congruence).
    rewrite Hs. unfold sv_of. now rewrite Hb.
  - intros i Hi. set (p := nth i (positions_with n is_input) 0).
    assert (Hin : In p (positions_with n is_input)) by (apply nth_In; exact Hi).
    pose proof (proj1 (in_positions_with n is_input p) Hin) as [Hp Hr].
    unfold topo_eval. destruct N as [|k]; [lia|]. simpl.
    assert (Hs : sensorb n p = true) by (unfold sensorb; destruct (role_at n p); simpl in *; congruence).
    rewrite Hs. unfold sv_of.
    assert (Hb : is_bias (role_at n p) = false) by (destruct (role_at n p); simpl in *; congruence).
    rewrite Hb. unfold p. rewrite pos_of_nth; [reflexivity|apply positions_with_nodup|exact Hi].
Qed.

End Topo.

(* the node equations have exactly one solution with the given sensor values *)
Section TopoUnique.
Variable n : net R.
Variable f : Z -> R -> R.
Variable dp : nat -> nat.
Hypothesis FW : feedforward n dp.

Lemma topo_unique x v :
  solves n f v -> sensor_vals n x v -> forall p, p < nnodes n -> v p = topo_eval n f x p.
Proof.
  intros SOL [VB VI].
  destruct (topo_sensor_vals n f x) as [TB TI].
  assert (G : forall d p, dp p <= d -> p < nnodes n -> v p = topo_eval n f x p).
  { induction d as [|d IH]; intros p Hd Hp.
    - destruct (sensor_or_neuron n p) as [Hs|Hn].
      + destruct (is_bias (role_at n p)) eqn:Eb.
        * rewrite VB, TB; auto.
        * assert (Hin : In p (positions_with n is_input)).
          { apply in_positions_with. split; [exact Hp|]. unfold sensorb in Hs. destruct (role_at n p); simpl in *; congruence. }
          destruct (pos_of_in p _ Hin) as [Hlt Hnth]. rewrite <- Hnth. rewrite VI, TI; auto.
      + exfalso. destruct (fw_depth_neuron _ _ FW p Hp Hn) as [_ E]. lia.
    - destruct (sensor_or_neuron n p) as [Hs|Hn].
      + destruct (is_bias (role_at n p)) eqn:Eb.
        * rewrite VB, TB; auto.
        * assert (Hin : In p (positions_with n is_input)).
          { apply in_positions_with. split; [exact Hp|]. unfold sensorb in Hs. destruct (role_at n p); simpl in *; congruence. }
          destruct (pos_of_in p _ Hin) as [Hlt Hnth]. rewrite <- Hnth. rewrite VI, TI; auto.
      + rewrite (SOL p Hp Hn), (topo_solves n f dp FW x p Hp Hn). f_equal. apply wsum_ext. intros l Hl.
        pose proof (dp_rank n dp FW p l Hp Hn Hl) as Hr.
        apply IH; [lia|exact (net_ok_src n (fw_ok _ _ FW) p l Hp Hl)]. }
  intros p Hp. apply (G (dp p)); [lia|exact Hp].
Qed.

End TopoUnique.
