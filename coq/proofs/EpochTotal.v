(* C02, "turning over an epoch succeeds without error": assembly.
   EpochTotalMut.v (operators), EpochTotalBaby.v (breeding loop and epoch), EpochTotalQuota.v (quota
   chain), EpochTotalFloat.v (the binary64 facts) are put together into the statement about one
   epoch and about whole runs that start from NewPopulation. *)
From NeatModel Require Import Compat.
From NeatModel Require Import Res F64 GoRand Genome Options Insert Dup Mutate Mate Population InsertSpec WF
     MutateMonad Registry PopBase PopPrepare PopRepro PopFinal PopInv PopNoErr PopWF TapeLocal
     EpochTotalDefs EpochTotalFloat EpochTotalMut EpochTotalBaby EpochTotalQuota.
From Coq Require Import Lia.

Notation innovs := Genome.innovs.

Lemma acts_ok_safe o : acts_ok o -> act_safe o.
Proof. intros H t Ht. now apply random_activation_safe. Qed.

(* ------------------------------------------------------------------------------------------ *)
(* 1. one epoch                                                                                 *)
(* ------------------------------------------------------------------------------------------ *)
Theorem epoch_succeeds C o gen p x s R NR :
  Part p -> Fresh p -> zlen (p_orgs p) = o_pop_size o -> 0 < o_pop_size o < 2 ^ 31 ->
  GInv C p (s_env s) R NR -> records_traits_ok (s_env s) (zlen (c_tshape C)) ->
  acts_ok o -> survivors_ok o -> PrimFloat.eqb (o_compat_thresh o) 0 = false ->
  quota_sum_ok o p -> tape_ok (s_tape s) ->
  (exists r, next_epoch o gen p x s = Ok r) \/ next_epoch o gen p x s = OutOfTape.
Proof.
  intros HP Fr Hsz Hpop G Hrec HA Sv Hc Hq Ht.
  apply (next_epoch_total C o gen p x s R NR); auto.
  - now apply acts_ok_safe.
  - apply quota_survives; auto; lia.
  - lia.
  - lia.
  - intros p1 sorted best s1 Ep. eapply prepare_quota_total; eauto; lia.
Qed.

(* ------------------------------------------------------------------------------------------ *)
(* 2. runs                                                                                      *)
(* ------------------------------------------------------------------------------------------ *)
(* the evaluator cannot fail: every organism of Population.Organisms is in the heap *)
Lemma set_fitness_total : forall ks fs h, (forall k, In k ks -> hdom h k) -> exists h', set_fitness h ks fs = Ok h'.
Proof.
  induction ks as [|k ks IH]; intros fs h D; cbn [set_fitness]; [eauto|]. destruct fs as [|f fs]; [eauto|].
  destruct (D k (or_introl eq_refl)) as [y Hy]. rewrite Hy. cbn [bind]. apply IH.
  intros k' Hk'. eapply (hdom_frame o_species); [|apply D; now right].
  apply (hframe_hset_get o_species _ y); [|reflexivity]. cbn. now rewrite (hget_key _ _ _ Hy).
Qed.

(* the float-dependent hypothesis along a run: in every epoch the floor-and-carry total of the
   offspring chain does not exceed the population size *)
Fixpoint quota_run_ok (o : options) (steps : list (list float * Z)) (p : population) (x : executor) (s : st) : Prop :=
  match steps with
  | [] => True
  | (fs, gen) :: rest =>
    forall h, set_fitness (p_heap p) (p_orgs p) fs = Ok h ->
      quota_sum_ok o (p_with_heap p h) /\
      forall p' x' s', next_epoch o gen (p_with_heap p h) x s = Ok ((p', x'), s') -> quota_run_ok o rest p' x' s'
  end.

(* everything an epoch needs of the population and the state, and leaves behind *)
Record run_inv (C : ctx) (o : options) (p : population) (s : st) : Prop := {
  ri_part : Part p;
  ri_fresh : Fresh p;
  ri_size : zlen (p_orgs p) = o_pop_size o;
  ri_ginv : exists R NR, GInv C p (s_env s) R NR;
  ri_rec : innovs (s_env s) = [];
  ri_exps : exps_nonneg (p_heap p);
  ri_tape : tape_ok (s_tape s) }.

Lemma run_inv_spawn o g s0 p s :
  wf g -> innovs (s_env s0) = [] -> tape_ok (s_tape s0) -> new_population o g s0 = Ok (p, s) ->
  run_inv (ctx_of g) o p s.
Proof.
  intros W Ei Ht H. destruct (new_population_full _ _ _ _ _ H) as (HP & Fr & Hsz & _).
  destruct (GInv_spawn _ _ _ _ _ W Ei H) as [G Ei']. constructor; auto.
  - eauto.
  - eapply exps_nonneg_spawn; eauto.
  - eapply tape_ok_local; [apply tl_new_population|exact H|exact Ht].
Qed.

Lemma run_inv_fitness C o p s fs h :
  run_inv C o p s -> set_fitness (p_heap p) (p_orgs p) fs = Ok h -> run_inv C o (p_with_heap p h) s.
Proof.
  intros [A B D (R & NR & [RO Hh]) E F G] H. constructor; auto.
  - eapply set_fitness_part; eauto.
  - eapply set_fitness_fresh; eauto.
  - exists R, NR. constructor; [exact RO|]. cbn [p_heap p_with_heap p_with]. eapply set_fitness_hall; eauto.
  - cbn [p_heap p_with_heap p_with]. eapply exps_nonneg_set_fitness; eauto.
Qed.

Lemma run_inv_step C o gen p x s p' x' s' :
  run_inv C o p s -> next_epoch o gen p x s = Ok ((p', x'), s') -> run_inv C o p' s'.
Proof.
  intros [A B D (R & NR & G) E F T] H.
  destruct (next_epoch_step_full _ _ _ _ _ _ _ _ H A) as (A' & B' & D' & _).
  destruct (GInv_step _ _ _ _ _ _ _ _ _ _ _ G H) as (R' & NR' & _ & G' & E').
  constructor; auto.
  - eauto.
  - eapply exps_nonneg_step; eauto.
  - eapply tape_ok_local; [apply tl_next_epoch|exact H|exact T].
Qed.

Lemma run_inv_epoch C o gen p x s :
  run_inv C o p s -> 0 < o_pop_size o < 2 ^ 31 -> acts_ok o -> survivors_ok o ->
  PrimFloat.eqb (o_compat_thresh o) 0 = false -> quota_sum_ok o p ->
  (exists r, next_epoch o gen p x s = Ok r) \/ next_epoch o gen p x s = OutOfTape.
Proof.
  intros [A B D (R & NR & G) E F T] Hpop HA Sv Hc Hq.
  apply (epoch_succeeds C o gen p x s R NR); auto. intros i Hi. rewrite E in Hi. destruct Hi.
Qed.

Theorem run_succeeds C o : 0 < o_pop_size o < 2 ^ 31 -> acts_ok o -> survivors_ok o ->
  PrimFloat.eqb (o_compat_thresh o) 0 = false ->
  forall steps p x s, run_inv C o p s -> quota_run_ok o steps p x s ->
  (exists r, PopInv.run_epochs o steps p x s = Ok r) \/ PopInv.run_epochs o steps p x s = OutOfTape.
Proof.
  intros Hpop HA Sv Hc. induction steps as [|[fs gen] rest IH]; intros p x s I Q; cbn [PopInv.run_epochs]; [eauto|].
  destruct (set_fitness_total (p_orgs p) fs (p_heap p)) as [h Eh].
  { intros k Hk. destruct (part_heap _ (ri_part _ _ _ _ I) k Hk) as (y & Hy & _). now exists y. }
  rewrite Eh. cbn [bind]. cbn [quota_run_ok] in Q. destruct (Q h Eh) as [Q1 Q2].
  pose proof (run_inv_fitness _ _ _ _ _ _ I Eh) as I1.
  destruct (run_inv_epoch C o gen _ x s I1 Hpop HA Sv Hc Q1) as [[[[p' x'] s'] E]|E]; rewrite E; cbn [bind]; [|now right].
  apply IH; [eapply run_inv_step; eauto|eauto].
Qed.

Theorem history_succeeds o g s0 steps x p s :
  wf g -> innovs (s_env s0) = [] -> tape_ok (s_tape s0) ->
  0 < o_pop_size o < 2 ^ 31 -> acts_ok o -> survivors_ok o -> PrimFloat.eqb (o_compat_thresh o) 0 = false ->
  new_population o g s0 = Ok (p, s) -> quota_run_ok o steps p x s ->
  (exists r, PopInv.run_epochs o steps p x s = Ok r) \/ PopInv.run_epochs o steps p x s = OutOfTape.
Proof.
  intros W Ei Ht Hpop HA Sv Hc H Q. apply (run_succeeds (ctx_of g) o Hpop HA Sv Hc steps p x s); [|exact Q].
  eapply run_inv_spawn; eauto.
Qed.

(* ------------------------------------------------------------------------------------------ *)
(* 3. NewPopulation itself                                                                      *)
(* ------------------------------------------------------------------------------------------ *)
Lemma tot_spawn_loop g : wf g -> forall n count acc s, tot (fun _ s' => tstep s s') (spawn_loop n g count acc s).
Proof.
  intros W. induction n as [|n IH]; intros count acc s; cbn [spawn_loop]; [apply tstep_refl|].
  rewrite (bindM_lift_ok _ _ _ _ (duplicate_wf g count W)).
  eapply tot_bind_t; [apply tot_true_t, tot_link_weights; cbn [genes with_id]; apply (wf_nonempty g W)|].
  intros r s1 _ _ _. apply IH.
Qed.

Theorem spawn_succeeds o g s :
  wf g -> 0 < o_pop_size o -> PrimFloat.eqb (o_compat_thresh o) 0 = false ->
  (exists r, new_population o g s = Ok r) \/ new_population o g s = OutOfTape.
Proof.
  intros W Hpos Hc. unfold new_population. destruct (Z.leb_spec (o_pop_size o) 0) as [|_]; [lia|].
  pose proof (tot_spawn_loop g W (Z.to_nat (o_pop_size o)) 0 [] s) as T.
  destruct (spawn_loop (Z.to_nat (o_pop_size o)) g 0 [] s) as [[orgs s1]| | | | |] eqn:Hsp; try contradiction;
    [|right; now apply bindM_tape_eq].
  left. rewrite (bindM_ok_eq _ _ _ _ _ Hsp).
  apply spawn_loop_ok in Hsp. destruct Hsp as (news & E & K & _ & _). cbn in E. subst news.
  rewrite Z2Nat.id, Z.add_0_l in K by lia.
  assert (E1 : exists ln, last_node_id g = Ok ln).
  { unfold last_node_id. pose proof (wf_nodes_ne g W). destruct (nodes g); [congruence|eauto]. }
  assert (E2 : exists ni, next_gene_innov g = Ok ni).
  { unfold next_gene_innov. pose proof (wf_nonempty g W). destruct (genes g); [congruence|eauto]. }
  destruct E1 as [ln E1]. destruct E2 as [ni E2].
  rewrite (bindM_lift_eq _ _ _ _ E1), (bindM_lift_eq _ _ _ _ E2).
  unfold bindM at 1. unfold e_set_counters at 1.
  set (n := o_pop_size o) in *.
  set (p0 := {| p_species := []; p_detached := []; p_orgs := map o_key orgs; p_heap := orgs; p_last_species := 0;
                p_highest := 0%float; p_epochs_highest := 0; p_next_key := n |}).
  assert (Hn : NoDup (map o_key orgs)) by (rewrite K; apply zrange_nodup).
  assert (W0 : Wf (all_sp p0) (p_heap p0) (fun _ => False)).
  { constructor; cbn; try tauto. constructor. }
  destruct (speciate_loop_total o (map o_key orgs) p0 (fun _ => False) W0) as [p' Es]; auto.
  { intros y []. }
  { intros k Hk. apply in_map_iff in Hk. destruct Hk as (y & <- & Hy). exists y. cbn. now apply hget_nodup_in. }
  unfold lift, speciate. destruct (map o_key orgs) eqn:Ek.
  { exfalso. assert (L : length (zrange 0 n) = O) by (rewrite <- K; reflexivity). rewrite zrange_length in L. lia. }
  rewrite Es. cbn [bind]. eauto.
Qed.

(* ------------------------------------------------------------------------------------------ *)
(* 4. operator level, in the vocabulary of props/C02.v                                          *)
(* ------------------------------------------------------------------------------------------ *)
Lemma tot_safe {A} (Q : A -> st -> Prop) (r : res (A * st)) : tot Q r -> safe r.
Proof. apply tot_total. Qed.

Theorem mutators_succeed o g s pw rt ga times id :
  wf g -> records_traits_ok (s_env s) (zlen (traits g)) -> tape_ok (s_tape s) -> acts_ok o ->
  safe (mutate_add_node o g s) /\ safe (mutate_add_link o g s) /\ safe (mutate_connect_sensors g s) /\
  safe (mutate_link_weights pw rt ga g s) /\ safe (mutate_random_trait o g s) /\
  safe (mutate_link_trait times g s) /\ safe (mutate_node_trait times g s) /\
  safe (mutate_toggle_enable times g s) /\ safe (mutate_gene_reenable g s) /\
  (env_ok (s_env s) g -> safe (mutate_all_nonstructural o g s)) /\
  duplicate g id = Ok (with_id g id).
Proof.
  intros W Hr Ht HA. assert (G : sgood (zlen (traits g)) s) by (split; assumption).
  pose proof (wf_nonempty g W) as Hg. pose proof (wf_traits_ne g W) as Htr. pose proof (wf_nodes_ne g W) as Hn.
  repeat split.
  - eapply tot_safe, tot_add_node; eauto using acts_ok_safe.
  - eapply tot_safe, tot_add_link; eauto.
  - eapply tot_safe, tot_connect_sensors; eauto.
  - eapply tot_safe, tot_link_weights; eauto.
  - eapply tot_safe, tot_random_trait; eauto.
  - eapply tot_safe, tot_link_trait; eauto.
  - eapply tot_safe, tot_node_trait; eauto.
  - eapply tot_safe, tot_toggle_enable; eauto.
  - eapply tot_safe, tot_gene_reenable; eauto.
  - intros E. eapply tot_safe, tot_all_nonstructural. split; assumption.
  - now apply duplicate_wf.
Qed.

(* the structural mutators keep recorded trait indices inside the trait list (they store an index
   drawn by rand.Intn(len(traits)), or 0) *)
Theorem mutators_keep_records o g s g' b s' :
  wf g -> records_traits_ok (s_env s) (zlen (traits g)) -> tape_ok (s_tape s) -> acts_ok o ->
  mutate_add_node o g s = Ok ((g', b), s') \/ mutate_add_link o g s = Ok ((g', b), s') \/
  mutate_connect_sensors g s = Ok ((g', b), s') ->
  records_traits_ok (s_env s') (zlen (traits g)).
Proof.
  intros W Hr Ht HA H. assert (G : sgood (zlen (traits g)) s) by (split; assumption).
  destruct H as [H|[H|H]].
  - exact (proj1 (tot_Ok _ _ _ _ (tot_add_node _ o g s W eq_refl (acts_ok_safe o HA) G) H)).
  - exact (proj1 (tot_Ok _ _ _ _ (tot_add_link _ o g s W eq_refl G) H)).
  - exact (proj1 (tot_Ok _ _ _ _ (tot_connect_sensors _ g s W eq_refl G) H)).
Qed.

(* ------------------------------------------------------------------------------------------ *)
(* 5. boolean checkers for the non-vacuity examples                                             *)
(* ------------------------------------------------------------------------------------------ *)
Definition tape_okb (t : tape) : bool := forallb (fun c => Z.leb 0 c && Z.ltb c (2 ^ 63)) t.

Lemma tape_okb_ok t : tape_okb t = true -> tape_ok t.
Proof.
  unfold tape_okb, tape_ok. intros H. apply Forall_forall. intros c Hc.
  pose proof (proj1 (forallb_forall _ _) H c Hc) as E. apply andb_true_iff in E. destruct E as [E1 E2].
  apply Z.leb_le in E1. apply Z.ltb_lt in E2. lia.
Qed.

Definition quota_sum_okb (o : options) (p : population) : bool :=
  match adjust_all o (p_heap p) (p_species p) with
  | Ok (h1, sps1) =>
    match purge_zero_offspring (p_with p sps1 (p_detached p) (p_orgs p) h1) with
    | Ok p2 => match count_all (p_heap p2) sps1 0%float 0 with
               | Ok (sps, T) => Z.leb T (o_pop_size o) && forallb (fun s => Z.leb 0 (sp_exp s)) sps
               | _ => true
               end
    | _ => true
    end
  | _ => true
  end.

Lemma quota_sum_okb_ok o p : quota_sum_okb o p = true -> quota_sum_ok o p.
Proof.
  unfold quota_sum_okb, quota_sum_ok. intros H h1 sps1 p2 sps T E1 E2 E3. rewrite E1, E2, E3 in H.
  apply andb_true_iff in H. destruct H as [H1 H2]. split; [now apply Z.leb_le|].
  intros s Hs. apply Z.leb_le. exact (proj1 (forallb_forall _ _) H2 s Hs).
Qed.

Fixpoint quota_run_okb (o : options) (steps : list (list float * Z)) (p : population) (x : executor) (s : st) : bool :=
  match steps with
  | [] => true
  | (fs, gen) :: rest =>
    match set_fitness (p_heap p) (p_orgs p) fs with
    | Ok h =>
      quota_sum_okb o (p_with_heap p h) &&
      match next_epoch o gen (p_with_heap p h) x s with
      | Ok ((p', x'), s') => quota_run_okb o rest p' x' s'
      | _ => true
      end
    | _ => true
    end
  end.

Lemma quota_run_okb_ok o : forall steps p x s, quota_run_okb o steps p x s = true -> quota_run_ok o steps p x s.
Proof.
  induction steps as [|[fs gen] rest IH]; intros p x s H; cbn [quota_run_okb quota_run_ok] in *; [exact I|].
  intros h Eh. rewrite Eh in H. apply andb_true_iff in H. destruct H as [H1 H2]. split; [now apply quota_sum_okb_ok|].
  intros p' x' s' E. rewrite E in H2. now apply IH.
Qed.
