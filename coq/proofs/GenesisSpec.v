(* C11, part 1: Genome.Genesis builds exactly the network [spec_net g]: one node per genome node, per
   node the enabled genes ending / starting there in gene order, one control node per enabled module. *)
From NeatModel Require Import Res F64 Genome Genesis.
From Coq Require Import Lia Permutation.

(* ---------- the specification ---------- *)

Definition link_of_gene (x : gene) : plink :=
  {| l_in := g_in x; l_out := g_out x; l_w := g_w x; l_rec := g_rec x; l_trait := g_trait x |}.

Definition enabled_genes (g : genome) : list gene := filter g_en (genes g).
Definition enabled_modules (g : genome) : list mimo := filter m_en (modules g).
Definition node_ids (g : genome) : list Z := map n_id (nodes g).
Definition ctl_id (m : mimo) : Z := n_id (m_node m).

(* the enabled genes of [gs] ending in / starting from node [id], in gene order, as links *)
Definition links_into (gs : list gene) (id : Z) : list plink :=
  map link_of_gene (filter (fun x => g_en x && Z.eqb (g_out x) id) gs).
Definition links_from (gs : list gene) (id : Z) : list plink :=
  map link_of_gene (filter (fun x => g_en x && Z.eqb (g_in x) id) gs).

Definition spec_node (gs : list gene) (n : node) : pnode :=
  {| p_id := n_id n; p_type := n_type n; p_act := n_act n; p_trait := n_trait n;
     p_incoming := links_into gs (n_id n); p_outgoing := links_from gs (n_id n) |}.

Definition ctl_in_link (c : Z) (sw : Z * float) : plink :=
  {| l_in := fst sw; l_out := c; l_w := snd sw; l_rec := false; l_trait := None |}.
Definition ctl_out_link (c : Z) (dw : Z * float) : plink :=
  {| l_in := c; l_out := fst dw; l_w := snd dw; l_rec := false; l_trait := None |}.

Definition spec_ctl (m : mimo) : pnode :=
  {| p_id := ctl_id m; p_type := n_type (m_node m); p_act := n_act (m_node m); p_trait := n_trait (m_node m);
     p_incoming := map (ctl_in_link (ctl_id m)) (m_ins m);
     p_outgoing := map (ctl_out_link (ctl_id m)) (m_outs m) |}.

Definition is_output (n : node) : bool := Z.eqb (n_type n) OUTPUT.
Definition sensor_ids (g : genome) : list Z := map n_id (filter is_sensor (nodes g)).
Definition output_ids (g : genome) : list Z := map n_id (filter is_output (nodes g)).

Definition spec_net (g : genome) (netId : Z) : pnet :=
  {| net_id := netId; net_inputs := sensor_ids g; net_outputs := output_ids g;
     net_all := map (spec_node (genes g)) (nodes g);
     net_control := map spec_ctl (enabled_modules g);
     net_all_mimo := map (spec_node (genes g)) (nodes g) ++ map spec_ctl (enabled_modules g) |}.

(* ---------- well-formedness hypotheses ---------- *)

Definition wf_nodes (g : genome) : Prop := NoDup (node_ids g).
Definition wf_genes (g : genome) : Prop :=
  forall x, In x (genes g) -> g_en x = true -> In (g_in x) (node_ids g) /\ In (g_out x) (node_ids g).
Definition wf_modules (g : genome) : Prop :=
  forall m, In m (modules g) -> m_en m = true ->
  forall s w, In (s, w) (m_ins m) \/ In (s, w) (m_outs m) -> In s (node_ids g).

(* ---------- node creation ---------- *)

Lemma output_not_sensor n : is_output n = true -> is_sensor n = false.
Proof.
  unfold is_output, is_sensor, INPUT, BIAS, OUTPUT. intros H. apply Z.eqb_eq in H. rewrite H. reflexivity.
Qed.

Lemma gen_nodes_spec ns : forall inL outL allL,
    gen_nodes ns inL outL allL =
    (inL ++ map n_id (filter is_sensor ns), outL ++ map n_id (filter is_output ns), allL ++ map new_pnode_copy ns).
Proof.
  induction ns as [|n ns IH]; intros inL outL allL; simpl.
  - now rewrite !app_nil_r.
  - rewrite IH. fold (is_sensor n). fold (is_output n).
    destruct (is_sensor n) eqn:Hs.
    + destruct (is_output n) eqn:Ho.
      * apply output_not_sensor in Ho. congruence.
      * simpl. now rewrite <- !app_assoc.
    + destruct (is_output n) eqn:Ho; simpl; now rewrite <- !app_assoc.
Qed.

Lemma spec_node_nil n : spec_node [] n = new_pnode_copy n.
Proof. reflexivity. Qed.

(* ---------- link creation ---------- *)

Lemma upd_node_map (F : node -> pnode) (f : pnode -> pnode) id :
  (forall n, p_id (F n) = n_id n) ->
  forall ns, NoDup (map n_id ns) -> In id (map n_id ns) ->
  upd_node id f (map F ns) = Some (map (fun n => if Z.eqb (n_id n) id then f (F n) else F n) ns).
Proof.
  intros Hid. induction ns as [|n ns IH]; intros Hnd Hin; simpl in *.
  - contradiction.
  - inversion Hnd as [|? ? Hnotin Hnd']; subst. rewrite Hid.
    destruct (Z.eqb_spec (n_id n) id) as [E|E].
    + f_equal. f_equal. apply map_ext_in. intros a Ha.
      destruct (Z.eqb_spec (n_id a) id) as [E'|E']; [|reflexivity].
      exfalso. apply Hnotin. rewrite E, <- E'. now apply in_map.
    + destruct Hin as [Hin|Hin]; [contradiction|].
      now rewrite (IH Hnd' Hin).
Qed.

Lemma links_into_snoc gs x id :
  links_into (gs ++ [x]) id =
  links_into gs id ++ (if g_en x && Z.eqb (g_out x) id then [link_of_gene x] else []).
Proof.
  unfold links_into. rewrite filter_app, map_app. simpl.
  now destruct (g_en x && Z.eqb (g_out x) id).
Qed.
Lemma links_from_snoc gs x id :
  links_from (gs ++ [x]) id =
  links_from gs id ++ (if g_en x && Z.eqb (g_in x) id then [link_of_gene x] else []).
Proof.
  unfold links_from. rewrite filter_app, map_app. simpl.
  now destruct (g_en x && Z.eqb (g_in x) id).
Qed.

Lemma gen_links_spec ns : NoDup (map n_id ns) ->
  forall gs P,
    (forall x, In x gs -> g_en x = true -> In (g_in x) (map n_id ns) /\ In (g_out x) (map n_id ns)) ->
    gen_links gs (map (spec_node P) ns) = Ok (map (spec_node (P ++ gs)) ns).
Proof.
  intros Hnd. induction gs as [|x gs IH]; intros P Hwf; simpl.
  - now rewrite app_nil_r.
  - assert (Hwf' : forall y, In y gs -> g_en y = true -> In (g_in y) (map n_id ns) /\ In (g_out y) (map n_id ns)).
    { intros y Hy. apply Hwf. now right. }
    assert (Happ : P ++ x :: gs = (P ++ [x]) ++ gs) by now rewrite <- app_assoc.
    destruct (g_en x) eqn:Hen.
    + destruct (Hwf x (or_introl eq_refl) Hen) as [Hi Ho].
      rewrite (upd_node_map (spec_node P) _ (g_out x) (fun n => eq_refl) ns Hnd Ho).
      set (F1 := fun n => if Z.eqb (n_id n) (g_out x) then add_incoming _ (spec_node P n) else spec_node P n).
      assert (HF1 : forall n, p_id (F1 n) = n_id n).
      { intros n. unfold F1. now destruct (Z.eqb (n_id n) (g_out x)). }
      rewrite (upd_node_map F1 _ (g_in x) HF1 ns Hnd Hi).
      rewrite Happ, <- (IH (P ++ [x]) Hwf'). f_equal. apply map_ext. intros n.
      unfold F1, spec_node, add_incoming, add_outgoing. simpl.
      rewrite links_into_snoc, links_from_snoc, Hen. simpl.
      rewrite (Z.eqb_sym (g_out x) (n_id n)), (Z.eqb_sym (g_in x) (n_id n)).
      destruct (Z.eqb (n_id n) (g_in x)), (Z.eqb (n_id n) (g_out x)); simpl;
        rewrite ?app_nil_r; reflexivity.
    + rewrite Happ, <- (IH (P ++ [x]) Hwf'). f_equal. apply map_ext. intros n.
      unfold spec_node. rewrite links_into_snoc, links_from_snoc, Hen. simpl. now rewrite !app_nil_r.
Qed.

Lemma gen_links_no_err gs : forall allL c, gen_links gs allL <> GoErr c.
Proof.
  induction gs as [|x gs IH]; intros allL c; simpl; [discriminate|].
  destruct (g_en x); [|apply IH].
  destruct (upd_node (g_out x) _ allL); [|discriminate].
  destruct (upd_node (g_in x) _ l); [apply IH|discriminate].
Qed.

(* ---------- control nodes ---------- *)

Lemma has_pnode_spec gs ns s : has_pnode s (map (spec_node gs) ns) = true <-> In s (map n_id ns).
Proof.
  unfold has_pnode. rewrite existsb_exists. split.
  - intros (p & Hp & E). apply in_map_iff in Hp. destruct Hp as (n & <- & Hn).
    apply Z.eqb_eq in E. simpl in E. subst s. now apply in_map.
  - intros H. apply in_map_iff in H. destruct H as (n & <- & Hn).
    exists (spec_node gs n). split; [now apply in_map|]. simpl. apply Z.eqb_refl.
Qed.

Lemma ctl_connect_inputs_spec allL : forall ins cn,
    (forall s w, In (s, w) ins -> has_pnode s allL = true) ->
    ctl_connect_inputs ins allL cn =
    Ok {| p_id := p_id cn; p_type := p_type cn; p_act := p_act cn; p_trait := p_trait cn;
          p_incoming := p_incoming cn ++ map (ctl_in_link (p_id cn)) ins; p_outgoing := p_outgoing cn |}.
Proof.
  induction ins as [|[s w] ins IH]; intros cn H; simpl.
  - rewrite app_nil_r. now destruct cn.
  - rewrite (H s w (or_introl eq_refl)). rewrite IH.
    + simpl. unfold ctl_in_link at 2. simpl. now rewrite <- app_assoc.
    + intros s' w' Hin. apply (H s' w'). now right.
Qed.

Lemma ctl_connect_outputs_spec allL : forall outs cn,
    (forall s w, In (s, w) outs -> has_pnode s allL = true) ->
    ctl_connect_outputs outs allL cn =
    Ok {| p_id := p_id cn; p_type := p_type cn; p_act := p_act cn; p_trait := p_trait cn;
          p_incoming := p_incoming cn; p_outgoing := p_outgoing cn ++ map (ctl_out_link (p_id cn)) outs |}.
Proof.
  induction outs as [|[s w] outs IH]; intros cn H; simpl.
  - rewrite app_nil_r. now destruct cn.
  - rewrite (H s w (or_introl eq_refl)). rewrite IH.
    + simpl. unfold ctl_out_link at 2. simpl. now rewrite <- app_assoc.
    + intros s' w' Hin. apply (H s' w'). now right.
Qed.

Lemma gen_control_spec allL : forall ms acc,
    (forall m, In m ms -> m_en m = true ->
               forall s w, In (s, w) (m_ins m) \/ In (s, w) (m_outs m) -> has_pnode s allL = true) ->
    gen_control ms allL acc = Ok (acc ++ map spec_ctl (filter m_en ms)).
Proof.
  induction ms as [|m ms IH]; intros acc H; simpl.
  - now rewrite app_nil_r.
  - assert (H' : forall m', In m' ms -> m_en m' = true ->
                 forall s w, In (s, w) (m_ins m') \/ In (s, w) (m_outs m') -> has_pnode s allL = true).
    { intros m' Hm'. apply H. now right. }
    destruct (m_en m) eqn:Hen.
    + rewrite ctl_connect_inputs_spec.
      2:{ intros s w Hin. apply (H m (or_introl eq_refl) Hen s w). now left. }
      simpl. rewrite ctl_connect_outputs_spec.
      2:{ intros s w Hin. apply (H m (or_introl eq_refl) Hen s w). now right. }
      simpl. rewrite (IH _ H'). now rewrite <- app_assoc.
    + apply (IH _ H').
Qed.

Lemma ctl_connect_inputs_no_err allL : forall ins cn c, ctl_connect_inputs ins allL cn <> GoErr c.
Proof.
  induction ins as [|[s w] ins IH]; intros cn c; simpl; [discriminate|].
  destruct (has_pnode s allL); [apply IH|discriminate].
Qed.
Lemma ctl_connect_outputs_no_err allL : forall outs cn c, ctl_connect_outputs outs allL cn <> GoErr c.
Proof.
  induction outs as [|[s w] outs IH]; intros cn c; simpl; [discriminate|].
  destruct (has_pnode s allL); [apply IH|discriminate].
Qed.
Lemma gen_control_no_err allL : forall ms acc c, gen_control ms allL acc <> GoErr c.
Proof.
  induction ms as [|m ms IH]; intros acc c; simpl; [discriminate|].
  destruct (m_en m); [|apply IH].
  destruct (ctl_connect_inputs (m_ins m) allL _) eqn:E1; simpl; try discriminate.
  - destruct (ctl_connect_outputs (m_outs m) allL a) eqn:E2; simpl; try discriminate.
    + apply IH.
    + intros X. injection X as ->. now apply ctl_connect_outputs_no_err in E2.
  - intros X. injection X as ->. now apply ctl_connect_inputs_no_err in E1.
Qed.

(* ---------- Genesis ---------- *)

Lemma genesis_unfold g netId :
  genesis g netId =
  match genes g with
  | [] => GoErr ErrNoGenes
  | _ =>
    match output_ids g with
    | [] => GoErr ErrNoOutputs
    | _ =>
      do allList' <- gen_links (genes g) (map new_pnode_copy (nodes g));
      match modules g with
      | [] => Ok (new_network (sensor_ids g) (output_ids g) allList' netId)
      | _ => do cNodes <- gen_control (modules g) allList' [];
             Ok (new_modular_network (sensor_ids g) (output_ids g) allList' cNodes netId)
      end
    end
  end.
Proof.
  unfold genesis. rewrite gen_nodes_spec. simpl. reflexivity.
Qed.

Theorem genesis_ok g netId :
  wf_nodes g -> wf_genes g -> wf_modules g -> genes g <> [] -> output_ids g <> [] ->
  genesis g netId = Ok (spec_net g netId).
Proof.
  intros Hn Hg Hm Hgenes Houts. rewrite genesis_unfold.
  destruct (genes g) as [|x0 gs0] eqn:Eg; [congruence|]. rewrite <- Eg.
  destruct (output_ids g) as [|o0 os0] eqn:Eo; [congruence|]. rewrite <- Eo.
  rewrite <- (map_ext _ _ spec_node_nil (nodes g)).
  rewrite (gen_links_spec (nodes g) Hn (genes g) [] Hg). simpl.
  destruct (modules g) as [|m0 ms0] eqn:Em.
  - unfold new_network, spec_net, enabled_modules. rewrite Em. simpl. now rewrite app_nil_r.
  - rewrite <- Em. rewrite gen_control_spec.
    + simpl. reflexivity.
    + intros m Hin Hen s w Hio. apply has_pnode_spec. exact (Hm m Hin Hen s w Hio).
Qed.

(* Genesis returns an error exactly when there are no genes or no output node (for every genome) *)
Theorem genesis_error_iff g netId :
  (genesis g netId = GoErr ErrNoGenes <-> genes g = []) /\
  (genesis g netId = GoErr ErrNoOutputs <-> genes g <> [] /\ output_ids g = []) /\
  (forall c, genesis g netId = GoErr c -> c = ErrNoGenes \/ c = ErrNoOutputs).
Proof.
  rewrite genesis_unfold.
  destruct (genes g) as [|x0 gs0] eqn:Eg.
  - split; [split; auto|]. split.
    + split; [discriminate|]. intros [H _]. congruence.
    + intros c H. injection H as <-. now left.
  - rewrite <- Eg.
    destruct (output_ids g) as [|o0 os0] eqn:Eo.
    + split; [split; [discriminate|congruence]|]. split.
      * split; [intros _; split; [congruence|reflexivity]|reflexivity].
      * intros c H. injection H as <-. now right.
    + assert (Hno : forall c,
                 (do allList' <- gen_links (genes g) (map new_pnode_copy (nodes g));
                  match modules g with
                  | [] => Ok (new_network (sensor_ids g) (o0 :: os0) allList' netId)
                  | _ => do cNodes <- gen_control (modules g) allList' [];
                         Ok (new_modular_network (sensor_ids g) (o0 :: os0) allList' cNodes netId)
                  end) <> GoErr c).
      { intros c. destruct (gen_links (genes g) _) eqn:El; simpl; try discriminate.
        - destruct (modules g); [discriminate|].
          destruct (gen_control _ a []) eqn:Ec; simpl; try discriminate.
          intros X. injection X as ->. now apply gen_control_no_err in Ec.
        - intros X. injection X as ->. now apply gen_links_no_err in El. }
      split; [split; [intros H; now apply Hno in H|congruence]|]. split.
      * split; [intros H; now apply Hno in H|intros [_ H]; discriminate].
      * intros c H. now apply Hno in H.
Qed.

(* ---------- the links of the network are the enabled genes (bijection) ---------- *)

Definition all_incoming (n : pnet) : list plink := concat (map p_incoming (net_all n)).
Definition all_outgoing (n : pnet) : list plink := concat (map p_outgoing (net_all n)).

Lemma partition_by_key {A} (key : A -> Z) : forall ids (l : list A),
    NoDup ids -> (forall x, In x l -> In (key x) ids) ->
    Permutation (concat (map (fun i => filter (fun x => Z.eqb (key x) i) l) ids)) l.
Proof.
  induction ids as [|i ids IH]; intros l Hnd Hin; simpl.
  - destruct l as [|x l]; [constructor|]. exfalso. exact (Hin x (or_introl eq_refl)).
  - inversion Hnd as [|? ? Hni Hnd']; subst.
    set (p := fun x => Z.eqb (key x) i).
    assert (Hrest : map (fun j => filter (fun x => Z.eqb (key x) j) l) ids =
                    map (fun j => filter (fun x => Z.eqb (key x) j) (filter (fun x => negb (p x)) l)) ids).
    { apply map_ext_in. intros j Hj. clear -Hj Hni.
      induction l as [|x l IHl]; simpl; [reflexivity|].
      unfold p at 1. destruct (Z.eqb_spec (key x) i) as [E|E]; simpl.
      - destruct (Z.eqb_spec (key x) j) as [E'|E']; [|exact IHl].
        exfalso. apply Hni. now rewrite <- E, E'.
      - now rewrite IHl. }
    rewrite Hrest.
    assert (Hperm : Permutation (filter p l ++ filter (fun x => negb (p x)) l) l).
    { clear. induction l as [|x l IHl]; simpl; [constructor|].
      destruct (p x); simpl.
      - now constructor.
      - eapply Permutation_trans; [apply Permutation_sym, Permutation_middle|]. now constructor. }
    eapply Permutation_trans; [|exact Hperm].
    apply Permutation_app_head. apply IH; [exact Hnd'|].
    intros x Hx. apply filter_In in Hx. destruct Hx as [Hx Hp].
    destruct (Hin x Hx) as [E|E]; [|exact E].
    exfalso. unfold p in Hp. rewrite <- E, Z.eqb_refl in Hp. discriminate.
Qed.

Lemma filter_and {A} (p q : A -> bool) l :
  filter (fun x => p x && q x) l = filter q (filter p l).
Proof.
  induction l as [|x l IH]; simpl; [reflexivity|].
  destruct (p x); simpl; [destruct (q x); now rewrite IH | exact IH].
Qed.

Theorem spec_incoming_perm g netId :
  wf_nodes g -> wf_genes g ->
  Permutation (all_incoming (spec_net g netId)) (map link_of_gene (enabled_genes g)).
Proof.
  intros Hn Hg. unfold all_incoming, spec_net, enabled_genes. simpl.
  rewrite map_map. simpl. unfold links_into.
  rewrite <- (map_map n_id (fun i => map link_of_gene (filter (fun x => g_en x && Z.eqb (g_out x) i) (genes g)))).
  rewrite <- (map_map (fun i => filter (fun x => g_en x && Z.eqb (g_out x) i) (genes g)) (map link_of_gene)).
  rewrite <- concat_map. apply Permutation_map.
  rewrite (map_ext _ (fun i => filter (fun x => Z.eqb (g_out x) i) (filter g_en (genes g)))).
  2:{ intros i. apply filter_and. }
  apply (partition_by_key g_out); [exact Hn|].
  intros x Hx. apply filter_In in Hx. destruct Hx as [Hx He]. exact (proj2 (Hg x Hx He)).
Qed.

Theorem spec_outgoing_perm g netId :
  wf_nodes g -> wf_genes g ->
  Permutation (all_outgoing (spec_net g netId)) (map link_of_gene (enabled_genes g)).
Proof.
  intros Hn Hg. unfold all_outgoing, spec_net, enabled_genes. simpl.
  rewrite map_map. simpl. unfold links_from.
  rewrite <- (map_map n_id (fun i => map link_of_gene (filter (fun x => g_en x && Z.eqb (g_in x) i) (genes g)))).
  rewrite <- (map_map (fun i => filter (fun x => g_en x && Z.eqb (g_in x) i) (genes g)) (map link_of_gene)).
  rewrite <- concat_map. apply Permutation_map.
  rewrite (map_ext _ (fun i => filter (fun x => Z.eqb (g_in x) i) (filter g_en (genes g)))).
  2:{ intros i. apply filter_and. }
  apply (partition_by_key g_in); [exact Hn|].
  intros x Hx. apply filter_In in Hx. destruct Hx as [Hx He]. exact (proj1 (Hg x Hx He)).
Qed.
