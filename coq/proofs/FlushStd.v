(* C13 for the standard solver (model/Net.v), any topology, any number structure in which 0 < 0 is false.

   [rel P s1 s2]: the two states agree on every field except ActivationSum, whose entries agree on the
   positions in P only.  [seqv = rel (fun _ => False)] ignores ActivationSum altogether: it is never read
   before being rewritten (the first loop of ActivateSteps clears it for every neuron before the second
   loop reads it; nothing else reads it).  Every operation maps seqv states to seqv states with equal
   results and outputs; Flush maps every reachable state to one that is seqv to the initial state. *)
From NeatModel Require Import Res Net SolverUtil.
From Coq Require Import Arith Lia.
Open Scope Z_scope.

Section FlushStd.
Variable F : Type.
Variable NF : num F.
Variable act : Z -> F -> res F.
Hypothesis ltb_zero_zero : fltb NF (fzero NF) (fzero NF) = false.

Notation state := (sstate F).

Definition rel (P : nat -> Prop) (s1 s2 : state) : Prop :=
  s_act s1 = s_act s2 /\ s_cnt s1 = s_cnt s2 /\ s_l1 s1 = s_l1 s2 /\ s_l2 s1 = s_l2 s2 /\ s_on s1 = s_on s2 /\
  length (s_sum s1) = length (s_sum s2) /\
  forall j, P j -> getF NF (s_sum s1) j = getF NF (s_sum s2) j.

Definition seqv : state -> state -> Prop := rel (fun _ => False).

Lemma rel_weaken (P Q : nat -> Prop) s1 s2 : (forall j, Q j -> P j) -> rel P s1 s2 -> rel Q s1 s2.
Proof.
  intros HPQ (H1 & H2 & H3 & H4 & H5 & H6 & H7). repeat split; auto.
Qed.

Lemma seqv_refl s : seqv s s.
Proof. repeat split; auto. Qed.

Lemma rel_seqv P s1 s2 : rel P s1 s2 -> seqv s1 s2.
Proof. apply rel_weaken. intros j []. Qed.

(* ----- primitives ----- *)
Lemma set_sum_rel P s1 s2 i v :
  rel P s1 s2 -> rel (fun j => P j \/ j = i) (set_sum s1 i v) (set_sum s2 i v).
Proof.
  intros (H1 & H2 & H3 & H4 & H5 & H6 & H7). unfold set_sum. repeat split; simpl; auto.
  - rewrite !upd_length. exact H6.
  - intros j Hj. unfold getF. rewrite !nth_upd, H6.
    destruct ((i =? j)%nat && (i <? length (s_sum s2))%nat) eqn:E; [reflexivity|].
    destruct Hj as [Hj|Hj].
    + apply H7. exact Hj.
    + subst j. rewrite Nat.eqb_refl in E. simpl in E.
      rewrite !nth_overflow; [reflexivity| |]; apply Nat.ltb_ge in E; lia.
Qed.

Lemma add_sum_rel P s1 s2 i a :
  rel P s1 s2 -> P i -> rel P (add_sum NF s1 i a) (add_sum NF s2 i a).
Proof.
  intros H Hi. unfold add_sum.
  assert (E : getF NF (s_sum s1) i = getF NF (s_sum s2) i) by (apply H; exact Hi).
  rewrite E. eapply rel_weaken; [|apply set_sum_rel; exact H].
  intros j Hj. left. exact Hj.
Qed.

Lemma set_on_rel P s1 s2 i : rel P s1 s2 -> rel P (set_on s1 i) (set_on s2 i).
Proof.
  intros (H1 & H2 & H3 & H4 & H5 & H6 & H7). unfold set_on. repeat split; simpl; auto. now rewrite H5.
Qed.

Lemma active_out_rel P s1 s2 j : rel P s1 s2 -> active_out NF s1 j = active_out NF s2 j.
Proof. intros (H1 & H2 & _). unfold active_out. now rewrite H1, H2. Qed.

Lemma active_out_td_rel P s1 s2 j : rel P s1 s2 -> active_out_td NF s1 j = active_out_td NF s2 j.
Proof. intros (H1 & H2 & H3 & _). unfold active_out_td. now rewrite H2, H3. Qed.

Lemma set_activation_rel P s1 s2 i v :
  rel P s1 s2 -> rel P (set_activation NF s1 i v) (set_activation NF s2 i v).
Proof.
  intros (H1 & H2 & H3 & H4 & H5 & H6 & H7). unfold set_activation, save_activations.
  repeat split; simpl; auto; congruence.
Qed.

Lemma sensor_load_rel P n s1 s2 i v :
  rel P s1 s2 -> rel P (sensor_load NF n s1 i v) (sensor_load NF n s2 i v).
Proof.
  intros H. unfold sensor_load. destruct (is_sensor (role_at n i)); [apply set_activation_rel|]; exact H.
Qed.

(* ----- LoadSensors ----- *)
Lemma load_full_rel P n ins x : forall c s1 s2,
  rel P s1 s2 ->
  rel P (fst (load_full NF n ins x c s1)) (fst (load_full NF n ins x c s2)) /\
  snd (load_full NF n ins x c s1) = snd (load_full NF n ins x c s2).
Proof.
  induction ins as [|i rest IH]; intros c s1 s2 H; simpl.
  - auto.
  - destruct (is_sensor (role_at n i)).
    + destruct (nth_error x c); simpl; auto. apply IH. apply sensor_load_rel. exact H.
    + apply IH. exact H.
Qed.

Lemma load_short_rel P n ins x : forall c s1 s2,
  rel P s1 s2 ->
  rel P (fst (load_short NF n ins x c s1)) (fst (load_short NF n ins x c s2)) /\
  snd (load_short NF n ins x c s1) = snd (load_short NF n ins x c s2).
Proof.
  induction ins as [|i rest IH]; intros c s1 s2 H; simpl.
  - auto.
  - destruct (is_input (role_at n i)).
    + destruct (nth_error x c); simpl; auto. apply IH. apply sensor_load_rel. exact H.
    + apply IH. apply sensor_load_rel. exact H.
Qed.

Lemma std_load_rel P n x s1 s2 :
  rel P s1 s2 ->
  rel P (fst (std_load NF n x s1)) (fst (std_load NF n x s2)) /\
  snd (std_load NF n x s1) = snd (std_load NF n x s2).
Proof.
  intros H. unfold std_load. destruct (length x =? length (inputs n))%nat.
  - apply load_full_rel. exact H.
  - apply load_short_rel. exact H.
Qed.

(* ----- first loop of ActivateSteps ----- *)
Lemma link_step_rel P n i s1 s2 l :
  rel P s1 s2 -> P i -> rel P (link_step NF n i s1 l) (link_step NF n i s2 l).
Proof.
  intros H Hi. unfold link_step.
  rewrite (active_out_rel P s1 s2 _ H), (active_out_td_rel P s1 s2 _ H).
  assert (Hon : s_on s1 = s_on s2) by apply H. rewrite Hon.
  destruct (negb (l_td l)).
  - apply add_sum_rel; [|exact Hi].
    destruct (getB (s_on s2) (l_src l) || is_sensor (role_at n (l_src l))); [apply set_on_rel|]; exact H.
  - apply add_sum_rel; assumption.
Qed.

Lemma fold_link_step_rel P n i ls : forall s1 s2,
  rel P s1 s2 -> P i ->
  rel P (fold_left (link_step NF n i) ls s1) (fold_left (link_step NF n i) ls s2).
Proof.
  induction ls as [|l rest IH]; intros s1 s2 H Hi; simpl; [exact H|].
  apply IH; [|exact Hi]. apply link_step_rel; assumption.
Qed.

Lemma sum_node_rel P n s1 s2 i :
  rel P s1 s2 ->
  rel (fun j => P j \/ (j = i /\ is_neuron (role_at n i) = true)) (sum_node NF n s1 i) (sum_node NF n s2 i).
Proof.
  intros H. unfold sum_node. destruct (is_neuron (role_at n i)) eqn:E.
  - apply fold_link_step_rel; [|right; auto].
    eapply rel_weaken; [|apply set_sum_rel; exact H].
    intros j [Hj|[Hj _]]; auto.
  - eapply rel_weaken; [|exact H]. intros j [Hj|[_ Hj]]; [exact Hj|discriminate].
Qed.

Lemma fold_sum_node_rel n L : forall P s1 s2,
  rel P s1 s2 ->
  rel (fun j => P j \/ (In j L /\ is_neuron (role_at n j) = true))
      (fold_left (sum_node NF n) L s1) (fold_left (sum_node NF n) L s2).
Proof.
  induction L as [|i rest IH]; intros P s1 s2 H; simpl.
  - eapply rel_weaken; [|exact H]. intros j [Hj|[[] _]]; exact Hj.
  - eapply rel_weaken; [|apply IH; apply sum_node_rel; exact H].
    simpl. intros j [Hj|[[Hj|Hj] Hn]]; auto. subst j. left. right. auto.
Qed.

Definition neuron_pos (n : net F) (j : nat) : Prop :=
  (j < nnodes n)%nat /\ is_neuron (role_at n j) = true.

Lemma phase1_rel P n s1 s2 :
  rel P s1 s2 -> rel (neuron_pos n) (phase1 NF n s1) (phase1 NF n s2).
Proof.
  intros H. unfold phase1. eapply rel_weaken; [|apply fold_sum_node_rel; exact H].
  intros j [Hj Hn]. right. split; [|exact Hn]. apply in_seq. lia.
Qed.

(* ----- second loop ----- *)
Lemma activate_node_rel P n s1 s2 i :
  rel P s1 s2 -> P i ->
  rel P (fst (activate_node NF act n s1 i)) (fst (activate_node NF act n s2 i)) /\
  snd (activate_node NF act n s1 i) = snd (activate_node NF act n s2 i).
Proof.
  intros H Hi. unfold activate_node.
  assert (E : getF NF (s_sum s1) i = getF NF (s_sum s2) i) by (apply H; exact Hi).
  rewrite E. destruct (act (nd_act (node_at n i)) (getF NF (s_sum s2) i)); simpl; auto.
  split; auto. apply set_activation_rel. exact H.
Qed.

Lemma phase2_rel P n is : forall s1 s2,
  rel P s1 s2 -> (forall i, In i is -> is_neuron (role_at n i) = true -> P i) ->
  rel P (fst (phase2 NF act n is s1)) (fst (phase2 NF act n is s2)) /\
  snd (phase2 NF act n is s1) = snd (phase2 NF act n is s2).
Proof.
  induction is as [|i rest IH]; intros s1 s2 H HP; simpl.
  - auto.
  - assert (Hon : s_on s1 = s_on s2) by apply H. rewrite Hon.
    destruct (is_neuron (role_at n i)) eqn:En; simpl.
    + destruct (getB (s_on s2) i).
      * destruct (activate_node_rel P n s1 s2 i H) as [Hr He]; [apply HP; simpl; auto|].
        destruct (activate_node NF act n s1 i) as [s1' r1], (activate_node NF act n s2 i) as [s2' r2].
        simpl in Hr, He. subst r2.
        destruct r1; simpl; auto. apply IH; [exact Hr|]. intros j Hj. apply HP. simpl. auto.
      * apply IH; [exact H|]. intros j Hj. apply HP. simpl. auto.
    + apply IH; [exact H|]. intros j Hj. apply HP. simpl. auto.
Qed.

Lemma sweep_rel P n s1 s2 :
  rel P s1 s2 ->
  seqv (fst (sweep NF act n s1)) (fst (sweep NF act n s2)) /\
  snd (sweep NF act n s1) = snd (sweep NF act n s2).
Proof.
  intros H. unfold sweep.
  destruct (phase2_rel (neuron_pos n) n (seq 0 (nnodes n)) (phase1 NF n s1) (phase1 NF n s2)) as [Hr He].
  - eapply phase1_rel. exact H.
  - intros i Hi Hn. split; [|exact Hn]. apply in_seq in Hi. lia.
  - split; [|exact He]. eapply rel_seqv. exact Hr.
Qed.

Lemma output_is_off_rel P n s1 s2 : rel P s1 s2 -> output_is_off n s1 = output_is_off n s2.
Proof. intros (_ & H2 & _). unfold output_is_off. now rewrite H2. Qed.

Lemma activate_loop_rel n fuel : forall ms ac ot s1 s2,
  seqv s1 s2 ->
  seqv (fst (activate_loop NF act n fuel ms ac ot s1)) (fst (activate_loop NF act n fuel ms ac ot s2)) /\
  snd (activate_loop NF act n fuel ms ac ot s1) = snd (activate_loop NF act n fuel ms ac ot s2).
Proof.
  induction fuel as [|f IH]; intros ms ac ot s1 s2 H; simpl.
  - auto.
  - rewrite (output_is_off_rel _ n s1 s2 H).
    destruct (output_is_off n s2 || negb ot); [|auto].
    destruct (ac >=? ms); [auto|].
    destruct (sweep_rel _ n s1 s2 H) as [Hr He].
    destruct (sweep NF act n s1) as [s1' r1], (sweep NF act n s2) as [s2' r2]. simpl in Hr, He. subst r2.
    destruct r1; simpl; auto.
Qed.

Lemma activate_steps_rel n ms s1 s2 :
  seqv s1 s2 ->
  seqv (fst (activate_steps NF act n ms s1)) (fst (activate_steps NF act n ms s2)) /\
  snd (activate_steps NF act n ms s1) = snd (activate_steps NF act n ms s2).
Proof.
  intros H. unfold activate_steps. destruct (ms =? 0); [auto|]. apply activate_loop_rel. exact H.
Qed.

Lemma forward_loop_rel n it : forall steps last s1 s2,
  seqv s1 s2 ->
  seqv (fst (forward_loop NF act n it steps last s1)) (fst (forward_loop NF act n it steps last s2)) /\
  snd (forward_loop NF act n it steps last s1) = snd (forward_loop NF act n it steps last s2).
Proof.
  induction it as [|it IH]; intros steps last s1 s2 H; simpl.
  - auto.
  - destruct (activate_steps_rel n steps s1 s2 H) as [Hr He].
    destruct (activate_steps NF act n steps s1) as [s1' r1], (activate_steps NF act n steps s2) as [s2' r2].
    simpl in Hr, He. subst r2. destruct r1; simpl; auto.
Qed.

Lemma std_forward_rel n k s1 s2 :
  seqv s1 s2 ->
  seqv (fst (std_forward NF act n k s1)) (fst (std_forward NF act n k s2)) /\
  snd (std_forward NF act n k s1) = snd (std_forward NF act n k s2).
Proof.
  intros H. unfold std_forward. destruct (k =? 0); [auto|]. apply forward_loop_rel. exact H.
Qed.

Lemma std_recursive_rel n s1 s2 :
  seqv s1 s2 ->
  seqv (fst (std_recursive NF act n s1)) (fst (std_recursive NF act n s2)) /\
  snd (std_recursive NF act n s1) = snd (std_recursive NF act n s2).
Proof.
  intros H. unfold std_recursive. destruct (max_depth n); simpl; auto. apply std_forward_rel. exact H.
Qed.

(* ----- Flush ----- *)
Lemma flushback_rel P s1 s2 i : rel P s1 s2 -> rel P (flushback NF s1 i) (flushback NF s2 i).
Proof.
  intros (H1 & H2 & H3 & H4 & H5 & H6 & H7). unfold flushback. repeat split; simpl; auto; congruence.
Qed.

Lemma flush_check_rel P s1 s2 i : rel P s1 s2 -> flush_check_fails NF s1 i = flush_check_fails NF s2 i.
Proof.
  intros (H1 & H2 & H3 & H4 & _). unfold flush_check_fails. now rewrite H1, H2, H3, H4.
Qed.

Lemma flush_loop_rel P is : forall s1 s2,
  rel P s1 s2 ->
  rel P (fst (flush_loop NF is s1)) (fst (flush_loop NF is s2)) /\
  snd (flush_loop NF is s1) = snd (flush_loop NF is s2).
Proof.
  induction is as [|i rest IH]; intros s1 s2 H; simpl.
  - auto.
  - pose proof (flushback_rel P s1 s2 i H) as Hf.
    rewrite (flush_check_rel P _ _ i Hf).
    destruct (flush_check_fails NF (flushback NF s2 i) i); simpl; auto.
Qed.

(* ----- every operation respects seqv ----- *)
Theorem std_step_respects n o s1 s2 :
  seqv s1 s2 ->
  seqv (fst (std_step NF act n s1 o)) (fst (std_step NF act n s2 o)) /\
  snd (std_step NF act n s1 o) = snd (std_step NF act n s2 o).
Proof.
  intros H. destruct o as [x|k| |ms d|]; simpl.
  - apply std_load_rel. exact H.
  - apply std_forward_rel. exact H.
  - apply std_recursive_rel. exact H.
  - unfold std_relax. simpl. auto.
  - apply flush_loop_rel. exact H.
Qed.

Lemma std_outputs_respects n s1 s2 : seqv s1 s2 -> std_outputs NF n s1 = std_outputs NF n s2.
Proof. intros (H1 & _). unfold std_outputs. now rewrite H1. Qed.

Theorem std_trace_respects n ops : forall s1 s2,
  seqv s1 s2 -> std_trace NF act n s1 ops = std_trace NF act n s2 ops.
Proof.
  induction ops as [|o rest IH]; intros s1 s2 H; simpl; [reflexivity|].
  destruct (std_step_respects n o s1 s2 H) as [Hr He].
  destruct (std_step NF act n s1 o) as [s1' r1], (std_step NF act n s2 o) as [s2' r2]. simpl in Hr, He.
  subst r2. rewrite (std_outputs_respects n s1' s2' Hr). f_equal. apply IH. exact Hr.
Qed.

(* ----- lengths never change ----- *)
Definition lens (s : state) : nat * nat * nat * nat * nat * nat :=
  (length (s_act s), length (s_cnt s), length (s_sum s), length (s_l1 s), length (s_l2 s), length (s_on s)).

Ltac lens_tac := unfold lens; simpl; rewrite ?upd_length; reflexivity.

Lemma lens_set_activation s i v : lens (set_activation NF s i v) = lens s.
Proof. unfold set_activation, save_activations. lens_tac. Qed.
Lemma lens_sensor_load n s i v : lens (sensor_load NF n s i v) = lens s.
Proof. unfold sensor_load. destruct (is_sensor _); [apply lens_set_activation|reflexivity]. Qed.
Lemma lens_load_full n ins x : forall c s, lens (fst (load_full NF n ins x c s)) = lens s.
Proof.
  induction ins as [|i rest IH]; intros c s; simpl; [reflexivity|].
  destruct (is_sensor _); [|apply IH]. destruct (nth_error x c); [|reflexivity].
  rewrite IH. apply lens_sensor_load.
Qed.
Lemma lens_load_short n ins x : forall c s, lens (fst (load_short NF n ins x c s)) = lens s.
Proof.
  induction ins as [|i rest IH]; intros c s; simpl; [reflexivity|].
  destruct (is_input _).
  - destruct (nth_error x c); [|reflexivity]. rewrite IH. apply lens_sensor_load.
  - rewrite IH. apply lens_sensor_load.
Qed.
Lemma lens_std_load n x s : lens (fst (std_load NF n x s)) = lens s.
Proof. unfold std_load. destruct (_ =? _)%nat; [apply lens_load_full|apply lens_load_short]. Qed.

Lemma lens_link_step n i s l : lens (link_step NF n i s l) = lens s.
Proof.
  unfold link_step, add_sum, set_sum, set_on. destruct (negb (l_td l)); [|lens_tac].
  destruct (_ || _); lens_tac.
Qed.
Lemma lens_fold_link_step n i ls : forall s, lens (fold_left (link_step NF n i) ls s) = lens s.
Proof. induction ls as [|l rest IH]; intros s; simpl; [reflexivity|]. rewrite IH. apply lens_link_step. Qed.
Lemma lens_sum_node n s i : lens (sum_node NF n s i) = lens s.
Proof.
  unfold sum_node. destruct (is_neuron _); [|reflexivity]. rewrite lens_fold_link_step. unfold set_sum. lens_tac.
Qed.
Lemma lens_phase1 n s : lens (phase1 NF n s) = lens s.
Proof.
  unfold phase1. generalize (seq 0 (nnodes n)). intros L. revert s.
  induction L as [|i rest IH]; intros s; simpl; [reflexivity|]. rewrite IH. apply lens_sum_node.
Qed.
Lemma lens_activate_node n s i : lens (fst (activate_node NF act n s i)) = lens s.
Proof. unfold activate_node. destruct (act _ _); simpl; try reflexivity. apply lens_set_activation. Qed.
Lemma lens_phase2 n is : forall s, lens (fst (phase2 NF act n is s)) = lens s.
Proof.
  induction is as [|i rest IH]; intros s; simpl; [reflexivity|].
  destruct (is_neuron _ && getB (s_on s) i); [|apply IH].
  pose proof (lens_activate_node n s i) as H.
  destruct (activate_node NF act n s i) as [s' r]. simpl in H. destruct r; simpl; try exact H.
  rewrite IH. exact H.
Qed.
Lemma lens_sweep n s : lens (fst (sweep NF act n s)) = lens s.
Proof. unfold sweep. rewrite lens_phase2. apply lens_phase1. Qed.
Lemma lens_activate_loop n fuel : forall ms ac ot s, lens (fst (activate_loop NF act n fuel ms ac ot s)) = lens s.
Proof.
  induction fuel as [|f IH]; intros ms ac ot s; simpl; [reflexivity|].
  destruct (_ || _); [|reflexivity]. destruct (ac >=? ms); [reflexivity|].
  pose proof (lens_sweep n s) as H. destruct (sweep NF act n s) as [s' r]. simpl in H.
  destruct r; simpl; try exact H. rewrite IH. exact H.
Qed.
Lemma lens_activate_steps n ms s : lens (fst (activate_steps NF act n ms s)) = lens s.
Proof. unfold activate_steps. destruct (ms =? 0); [reflexivity|apply lens_activate_loop]. Qed.
Lemma lens_forward_loop n it : forall steps last s, lens (fst (forward_loop NF act n it steps last s)) = lens s.
Proof.
  induction it as [|it IH]; intros steps last s; simpl; [reflexivity|].
  pose proof (lens_activate_steps n steps s) as H. destruct (activate_steps NF act n steps s) as [s' r]. simpl in H.
  destruct r; simpl; try exact H. rewrite IH. exact H.
Qed.
Lemma lens_std_forward n k s : lens (fst (std_forward NF act n k s)) = lens s.
Proof. unfold std_forward. destruct (k =? 0); [reflexivity|apply lens_forward_loop]. Qed.
Lemma lens_std_recursive n s : lens (fst (std_recursive NF act n s)) = lens s.
Proof. unfold std_recursive. destruct (max_depth n); simpl; try reflexivity. apply lens_std_forward. Qed.
Lemma lens_flushback s i : lens (flushback NF s i) = lens s.
Proof. unfold flushback. lens_tac. Qed.
Lemma lens_flush_loop is : forall s, lens (fst (flush_loop NF is s)) = lens s.
Proof.
  induction is as [|i rest IH]; intros s; simpl; [reflexivity|].
  destruct (flush_check_fails _ _ _); simpl; [apply lens_flushback|]. rewrite IH. apply lens_flushback.
Qed.
Lemma lens_std_step n s o : lens (fst (std_step NF act n s o)) = lens s.
Proof.
  destruct o; simpl.
  - apply lens_std_load.
  - apply lens_std_forward.
  - apply lens_std_recursive.
  - reflexivity.
  - apply lens_flush_loop.
Qed.
Lemma lens_std_run n h : forall s, lens (std_run NF act n s h) = lens s.
Proof.
  unfold std_run. induction h as [|o rest IH]; intros s; simpl; [reflexivity|]. rewrite IH. apply lens_std_step.
Qed.

Lemma lens_init n : lens (std_init NF n) = (nnodes n, nnodes n, nnodes n, nnodes n, nnodes n, nnodes n).
Proof. unfold lens, std_init. simpl. now rewrite !repeat_length. Qed.

(* ----- Flush never reports an error and clears everything but ActivationSum ----- *)
Lemma flush_check_after_flushback s i : flush_check_fails NF (flushback NF s i) i = false.
Proof.
  unfold flush_check_fails, flushback, getF, getZ. simpl.
  assert (EZ : nth i (upd i 0 (s_cnt s)) 0 = 0).
  { rewrite nth_upd. destruct ((i =? i)%nat && (i <? length (s_cnt s))%nat) eqn:E; [reflexivity|].
    rewrite Nat.eqb_refl in E. simpl in E. apply Nat.ltb_ge in E. apply nth_overflow. exact E. }
  assert (EF : forall l, nth i (upd i (fzero NF) l) (fzero NF) = fzero NF).
  { intros l. rewrite nth_upd. destruct ((i =? i)%nat && (i <? length l)%nat) eqn:E; [reflexivity|].
    rewrite Nat.eqb_refl in E. simpl in E. apply Nat.ltb_ge in E. apply nth_overflow. exact E. }
  rewrite EZ, !EF, ltb_zero_zero. reflexivity.
Qed.

Lemma flush_loop_ok is : forall s, flush_loop NF is s = (fold_left (flushback NF) is s, Ok true).
Proof.
  induction is as [|i rest IH]; intros s; simpl; [reflexivity|].
  rewrite flush_check_after_flushback. apply IH.
Qed.

Lemma fold_flushback_fields is : forall s,
  let s' := fold_left (flushback NF) is s in
  s_act s' = fold_left (fun l i => upd i (fzero NF) l) is (s_act s) /\
  s_cnt s' = fold_left (fun l i => upd i 0 l) is (s_cnt s) /\
  s_sum s' = s_sum s /\
  s_l1 s' = fold_left (fun l i => upd i (fzero NF) l) is (s_l1 s) /\
  s_l2 s' = fold_left (fun l i => upd i (fzero NF) l) is (s_l2 s) /\
  s_on s' = fold_left (fun l i => upd i false l) is (s_on s).
Proof.
  induction is as [|i rest IH]; intros s; simpl; [repeat split|].
  apply (IH (flushback NF s i)).
Qed.

Theorem std_flush_ok n s : snd (std_flush NF n s) = Ok true.
Proof. unfold std_flush. now rewrite flush_loop_ok. Qed.

Theorem std_flush_init n s :
  lens s = lens (std_init NF n) -> seqv (fst (std_flush NF n s)) (std_init NF n).
Proof.
  intros HL. rewrite lens_init in HL. unfold lens in HL. injection HL as L1 L2 L3 L4 L5 L6.
  unfold std_flush. rewrite flush_loop_ok. simpl.
  destruct (fold_flushback_fields (seq 0 (nnodes n)) s) as (E1 & E2 & E3 & E4 & E5 & E6).
  unfold seqv, rel. rewrite E1, E2, E3, E4, E5, E6.
  rewrite !upd_all by assumption. unfold std_init. simpl.
  repeat split; auto.
  - rewrite repeat_length. exact L3.
  - intros j [].
Qed.

(* ----- C13, standard solver: after Flush, any state reached from a fresh network by any history of
   operations behaves, for every later sequence of operations, exactly like the fresh network ----- *)
Theorem std_flush_fresh n (h ops : list (op F)) :
  std_trace NF act n (fst (std_flush NF n (std_run NF act n (std_init NF n) h))) ops =
  std_trace NF act n (std_init NF n) ops.
Proof.
  apply std_trace_respects. apply std_flush_init. apply lens_std_run.
Qed.

End FlushStd.
