(* C09 / C02: the hand-written model of Species.countOffspring IS the loop of neat/genetics/species.go.

   gen/QuotaLoop.v is regenerated on every run by `neatverif translate quotaloop`: the body of the method
   translated construct by construct into [gen_count_offspring exps skim] over the list of the members'
   ExpectedOffspring (the only thing the loop reads), with int(x) = F64.f_trunc_Z, math.Floor = ffloor,
   math.Mod(x, 1.0) = fmod1.  The translated loop is a [fold_left] over the tuple of ALL variables the Go loop
   body assigns (orgOffIntPart, orgOffFracPart, expectedOffspring, skim, skimIntPart); the model
   [count_offspring_gen float_qnum] (model/Population.v) is a recursion over the two that are live
   (expectedOffspring, skim).  This file is checked in: it proves the two equal for every list and every
   incoming skim (NaN, infinities, negative and out-of-range values included).  One step of the translated
   body projects onto one step of the model by conversion (after a case split on the `skim >= 1.0` test);
   the rest is induction on the list.  An edit of the loop in the source changes the generated term and this
   proof stops checking. *)
From Coq Require Import ZArith List Bool Floats.
From NeatModel Require Import Res F64 Population QuotaLoop.
Import ListNotations.
Open Scope Z_scope.

(* the state threaded through the translated loop, and the part of it the function returns *)
Definition ql_state : Type := (Z * float * Z * float * float)%type.
Definition ql_out (st : ql_state) : Z * float := let '(_, _, e, skim, _) := st in (e, skim).

(* one iteration of the model, as a function of (expectedOffspring, skim) and the member's ExpectedOffspring *)
Definition ql_model_step (es : Z * float) (x : float) : Z * float :=
  let expected := fst es + q_floorZ float_qnum x in
  let skim := q_add float_qnum (snd es) (q_frac float_qnum x) in
  if q_ge1 float_qnum skim
  then (expected + q_floorZ float_qnum skim, q_sub float_qnum skim (q_floor float_qnum skim))
  else (expected, skim).

Lemma count_offspring_gen_step : forall (x : float) (l : list float) (e : Z) (skim : float),
    count_offspring_gen float_qnum (x :: l) e skim =
    count_offspring_gen float_qnum l (fst (ql_model_step (e, skim) x)) (snd (ql_model_step (e, skim) x)).
Proof.
  intros x l e skim. unfold ql_model_step. cbn [count_offspring_gen fst snd].
  destruct (q_ge1 float_qnum (q_add float_qnum skim (q_frac float_qnum x))); reflexivity.
Qed.

(* any loop whose step projects onto the model's step computes the model's result *)
Lemma fold_projects_to_model : forall (F : ql_state -> float -> ql_state),
    (forall st x, ql_out (F st x) = ql_model_step (ql_out st) x) ->
    forall (l : list float) (st : ql_state),
      ql_out (fold_left F l st) = count_offspring_gen float_qnum l (fst (ql_out st)) (snd (ql_out st)).
Proof.
  intros F HF l. induction l as [|x l IH]; intros st.
  - cbn [fold_left count_offspring_gen]. destruct (ql_out st); reflexivity.
  - cbn [fold_left]. rewrite IH, HF.
    destruct (ql_out st) as [e skim]. cbn [fst snd].
    symmetry. apply count_offspring_gen_step.
Qed.

(* the translated body of countOffspring = the model, started (as the Go function does) from expectedOffspring = 0 *)
Theorem gen_count_offspring_agrees : forall (exps : list float) (skim : float),
    gen_count_offspring exps skim = count_offspring_gen float_qnum exps 0 skim.
Proof.
  intros exps skim. unfold gen_count_offspring. cbv zeta.
  match goal with
  | |- context [fold_left ?F exps ?st] =>
    assert (HF : forall s x, ql_out (F s x) = ql_model_step (ql_out s) x);
      [| exact (fold_projects_to_model F HF exps st)]
  end.
  intros [[[[a b] e] s] c] x.
  unfold ql_model_step, ql_out. cbn [fst snd float_qnum q_add q_sub q_ge1 q_floor q_floorZ q_frac].
  destruct (PrimFloat.leb 1 (PrimFloat.add s (fmod1 x))); reflexivity.
Qed.

(* the same, in the form the epoch model calls it ([count_all]: [count_offspring orgs 0 skim]) *)
Corollary count_offspring_is_translated : forall (orgs : list organism) (skim : float),
    count_offspring orgs 0 skim = gen_count_offspring (map o_exp orgs) skim.
Proof. intros orgs skim. unfold count_offspring. symmetry. apply gen_count_offspring_agrees. Qed.
