(* C09: the parent cut-off.  sort_desc (the stable insertion sort standing for sort.Sort +
   sort.Reverse) returns a permutation, sorted descending whenever Less is a strict weak order on
   the elements; Species.adjustFitness reorders a species' members that way, marks exactly the
   positions from num_parents = int(floor(survival_thresh * n + 1)) on for elimination and the first
   as champion; purgeOrganisms then leaves each species exactly its unmarked members, in order. *)
From NeatModel Require Import Res F64 GoRand Genome Options Population MonadLemmas QuotaReal QuotaSpec QuotaSteal.
From NeatModel Require SpeciateFloat.
From Coq Require Import Lia Permutation Sorted.

(* ---------- sort_desc ---------- *)
Section SortDesc.
  Context {A : Type} (lt : A -> A -> bool).

  Lemma ins_rev_perm x : forall rp, Permutation (ins_rev lt x rp) (x :: rp).
  Proof.
    induction rp as [|y r IH]; cbn; [apply Permutation_refl|].
    destruct (lt y x); [|apply Permutation_refl].
    eapply Permutation_trans; [apply perm_skip; exact IH|apply perm_swap].
  Qed.

  Lemma fold_ins_rev_perm : forall l acc, Permutation (fold_left (fun rp x => ins_rev lt x rp) l acc) (acc ++ l).
  Proof.
    induction l as [|x l IH]; intros acc; cbn [fold_left].
    - rewrite app_nil_r. apply Permutation_refl.
    - eapply Permutation_trans; [apply IH|].
      eapply Permutation_trans; [apply Permutation_app_tail; apply ins_rev_perm|].
      cbn. apply Permutation_middle.
  Qed.

  Lemma sort_desc_perm l : Permutation (sort_desc lt l) l.
  Proof.
    unfold sort_desc. eapply Permutation_trans; [apply Permutation_sym; apply Permutation_rev|].
    exact (fold_ins_rev_perm l []).
  Qed.

  Lemma sort_desc_length l : length (sort_desc lt l) = length l.
  Proof. apply Permutation_length. apply sort_desc_perm. Qed.

  (* Less is a strict weak order on the elements satisfying [valid] *)
  Context (valid : A -> Prop).
  Hypothesis lt_asym : forall a b, valid a -> valid b -> lt a b = true -> lt b a = false.
  Hypothesis lt_negtrans : forall a b c, valid a -> valid b -> valid c -> lt a c = true -> lt a b = true \/ lt b c = true.

  (* the reversed prefix is ascending: nothing further down is Less than something before it *)
  Let asc (y z : A) : Prop := lt z y = false.

  Lemma ins_rev_sorted x : valid x -> forall rp, Forall valid rp ->
    StronglySorted asc rp -> StronglySorted asc (ins_rev lt x rp).
  Proof.
    intros Vx. induction rp as [|y r IH]; intros Hv Hs; cbn.
    - constructor; constructor.
    - inversion Hv as [|? ? Vy Vr]; subst. inversion Hs as [|? ? Hs' Hy]; subst.
      destruct (lt y x) eqn:E.
      + constructor; [now apply IH|].
        assert (P : Permutation (ins_rev lt x r) (x :: r)) by apply ins_rev_perm.
        apply Forall_forall. intros w Hw. apply (Permutation_in _ P) in Hw. destruct Hw as [<-|Hw].
        * unfold asc. now apply lt_asym.
        * rewrite Forall_forall in Hy. now apply Hy.
      + constructor; [exact Hs|]. constructor; [exact E|].
        apply Forall_forall. intros w Hw. unfold asc.
        rewrite Forall_forall in Hy, Vr. specialize (Hy w Hw). unfold asc in Hy.
        destruct (lt w x) eqn:F; [|reflexivity].
        destruct (lt_negtrans w y x (Vr w Hw) Vy Vx F) as [C|C]; congruence.
  Qed.

  Lemma fold_ins_rev_sorted : forall l acc, Forall valid l -> Forall valid acc -> StronglySorted asc acc ->
    StronglySorted asc (fold_left (fun rp x => ins_rev lt x rp) l acc).
  Proof.
    induction l as [|x l IH]; intros acc Hl Ha Hs; [exact Hs|]. cbn [fold_left].
    inversion Hl as [|? ? Vx Vl]; subst. apply IH; [assumption| |now apply ins_rev_sorted].
    apply Forall_forall. intros w Hw. apply (Permutation_in _ (ins_rev_perm x acc)) in Hw.
    destruct Hw as [<-|Hw]; [assumption|]. rewrite Forall_forall in Ha. now apply Ha.
  Qed.

  Lemma StronglySorted_app_inv {B} (R : B -> B -> Prop) l1 l2 :
    StronglySorted R l1 -> StronglySorted R l2 -> (forall a b, In a l1 -> In b l2 -> R a b) ->
    StronglySorted R (l1 ++ l2).
  Proof.
    induction l1 as [|x l1 IH]; intros H1 H2 H; [exact H2|]. cbn. inversion H1 as [|? ? H1' Hx]; subst.
    constructor.
    - apply IH; auto. intros a b Ha Hb. apply H; [now right|assumption].
    - apply Forall_app. split; [assumption|]. apply Forall_forall. intros b Hb. apply H; [now left|assumption].
  Qed.

  Lemma StronglySorted_rev {B} (R : B -> B -> Prop) l :
    StronglySorted R l -> StronglySorted (fun a b => R b a) (rev l).
  Proof.
    induction 1 as [|x l Hs IH Hx]; [constructor|]. cbn. apply StronglySorted_app_inv.
    - exact IH.
    - constructor; constructor.
    - intros a b Ha [<-|[]]. apply in_rev in Ha. rewrite Forall_forall in Hx. now apply Hx.
  Qed.

  (* the result is sorted descending: no later element is Less-greater than an earlier one *)
  Lemma sort_desc_sorted l : Forall valid l ->
    StronglySorted (fun a b => lt a b = false) (sort_desc lt l).
  Proof.
    intros Hl. unfold sort_desc.
    apply (StronglySorted_rev asc). apply fold_ins_rev_sorted; auto; constructor.
  Qed.

  Lemma StronglySorted_split {B} (R : B -> B -> Prop) l1 a l2 b l3 :
    StronglySorted R (l1 ++ a :: l2 ++ b :: l3) -> R a b.
  Proof.
    induction l1 as [|x l1 IH]; cbn; intros H; inversion H as [|? ? H' Hx]; subst.
    - rewrite Forall_forall in Hx. apply Hx. apply in_or_app. right. now left.
    - now apply IH.
  Qed.

  Lemma sort_desc_no_inversion l l1 a l2 b l3 : Forall valid l ->
    sort_desc lt l = l1 ++ a :: l2 ++ b :: l3 -> lt a b = false.
  Proof.
    intros Hl E. pose proof (sort_desc_sorted l Hl) as S. rewrite E in S.
    exact (StronglySorted_split _ _ _ _ _ _ S).
  Qed.
End SortDesc.

(* Organisms.Less is a strict weak order on organisms whose fitness values are numbers *)
Definition org_valid (x : organism) : Prop :=
  SpeciateFloat.not_nan (o_fit x) /\ SpeciateFloat.not_nan (o_highest x).

Lemma feqb_SFeqb_key a b : SpeciateFloat.not_nan a -> SpeciateFloat.not_nan b ->
  PrimFloat.eqb a b = true -> SpeciateFloat.sf_key (Prim2SF a) = SpeciateFloat.sf_key (Prim2SF b).
Proof.
  unfold SpeciateFloat.not_nan. rewrite eqb_spec. unfold SFeqb.
  destruct (Prim2SF a) as [sx|sx| |sx mx ex], (Prim2SF b) as [sy|sy| |sy my ey]; try congruence; cbn;
    try (destruct sx); try (destruct sy); cbn; try discriminate; try reflexivity; intros _ _.
  - destruct (Z.compare_spec ex ey); try discriminate. subst.
    change (Pos.compare_cont Eq mx my) with (Pos.compare mx my).
    destruct (Pos.compare_spec mx my); try discriminate. now subst.
  - destruct (Z.compare_spec ex ey); try discriminate. subst.
    change (Pos.compare_cont Eq mx my) with (Pos.compare mx my).
    destruct (Pos.compare_spec mx my); try discriminate. now subst.
Qed.

Lemma fltb_key a b : SpeciateFloat.not_nan a -> SpeciateFloat.not_nan b ->
  (PrimFloat.ltb a b = true <-> SpeciateFloat.lexlt (SpeciateFloat.sf_key (Prim2SF a)) (SpeciateFloat.sf_key (Prim2SF b))).
Proof. intros Ha Hb. rewrite ltb_spec. now apply SpeciateFloat.SFltb_key. Qed.

Lemma lexlt_irrefl_eq a b : a = b -> ~ SpeciateFloat.lexlt a b.
Proof. intros ->. destruct b as [[b1 b2] b3]. unfold SpeciateFloat.lexlt. lia. Qed.

Lemma key_eq_feqb a b : SpeciateFloat.not_nan a -> SpeciateFloat.not_nan b ->
  SpeciateFloat.sf_key (Prim2SF a) = SpeciateFloat.sf_key (Prim2SF b) -> PrimFloat.eqb a b = true.
Proof.
  unfold SpeciateFloat.not_nan. rewrite eqb_spec. unfold SFeqb.
  destruct (Prim2SF a) as [sx|sx| |sx mx ex], (Prim2SF b) as [sy|sy| |sy my ey]; try congruence; cbn;
    try (destruct sx); try (destruct sy); cbn; try discriminate; try reflexivity; intros _ _ E;
    injection E as E1 E2; try lia.
  - assert (ex = ey) by lia. assert (mx = my) by lia. subst. now rewrite Z.compare_refl, Pos.compare_cont_refl.
  - assert (ex = ey) by lia. assert (mx = my) by lia. subst. now rewrite Z.compare_refl, Pos.compare_cont_refl.
Qed.

(* org_lt as a lexicographic comparison of integer keys *)
Definition okey (x : organism) := (SpeciateFloat.sf_key (Prim2SF (o_fit x)), SpeciateFloat.sf_key (Prim2SF (o_highest x))).
Definition olex (p q : (Z * Z * Z) * (Z * Z * Z)) : Prop :=
  SpeciateFloat.lexlt (fst p) (fst q) \/ (fst p = fst q /\ SpeciateFloat.lexlt (snd p) (snd q)).

Lemma org_lt_key a b : org_valid a -> org_valid b -> (org_lt a b = true <-> olex (okey a) (okey b)).
Proof.
  intros [Fa Ha] [Fb Hb]. unfold org_lt, olex, okey. cbn [fst snd].
  destruct (PrimFloat.ltb (o_fit a) (o_fit b)) eqn:L.
  - split; [intros _|reflexivity]. left. now apply fltb_key.
  - assert (NL : ~ SpeciateFloat.lexlt (SpeciateFloat.sf_key (Prim2SF (o_fit a))) (SpeciateFloat.sf_key (Prim2SF (o_fit b)))).
    { intros C. apply (fltb_key _ _ Fa Fb) in C. congruence. }
    destruct (PrimFloat.eqb (o_fit a) (o_fit b)) eqn:E.
    + pose proof (feqb_SFeqb_key _ _ Fa Fb E) as K. rewrite (fltb_key _ _ Ha Hb). split.
      * intros H. right. split; assumption.
      * intros [C|[_ C]]; [contradiction|assumption].
    + split; [discriminate|]. intros [C|[K _]]; [contradiction|].
      apply (key_eq_feqb _ _ Fa Fb) in K. congruence.
Qed.

Lemma lexlt_total_cases a b : SpeciateFloat.lexlt a b \/ a = b \/ SpeciateFloat.lexlt b a.
Proof.
  destruct a as [[a1 a2] a3], b as [[b1 b2] b3]. unfold SpeciateFloat.lexlt.
  destruct (Z.lt_total a1 b1) as [?|[?|?]]; [lia| |lia].
  destruct (Z.lt_total a2 b2) as [?|[?|?]]; [lia| |lia].
  destruct (Z.lt_total a3 b3) as [?|[?|?]]; [lia| |lia].
  right. left. congruence.
Qed.

Lemma lexlt_asym a b : SpeciateFloat.lexlt a b -> ~ SpeciateFloat.lexlt b a.
Proof. destruct a as [[a1 a2] a3], b as [[b1 b2] b3]. unfold SpeciateFloat.lexlt. lia. Qed.

Lemma org_lt_asym a b : org_valid a -> org_valid b -> org_lt a b = true -> org_lt b a = false.
Proof.
  intros Va Vb H. apply Bool.not_true_is_false. intros C.
  apply (org_lt_key _ _ Va Vb) in H. apply (org_lt_key _ _ Vb Va) in C.
  unfold olex in *. destruct H as [H|[E H]], C as [C|[E' C]].
  - exact (lexlt_asym _ _ H C).
  - exact (lexlt_irrefl_eq _ _ (eq_sym E') H).
  - exact (lexlt_irrefl_eq _ _ (eq_sym E) C).
  - exact (lexlt_asym _ _ H C).
Qed.

Lemma org_lt_negtrans a b c : org_valid a -> org_valid b -> org_valid c ->
  org_lt a c = true -> org_lt a b = true \/ org_lt b c = true.
Proof.
  intros Va Vb Vc H. apply (org_lt_key _ _ Va Vc) in H.
  rewrite (org_lt_key _ _ Va Vb), (org_lt_key _ _ Vb Vc). unfold olex in *.
  set (fa := fst (okey a)) in *. set (fb := fst (okey b)) in *. set (fc := fst (okey c)) in *.
  set (ha := snd (okey a)) in *. set (hb := snd (okey b)) in *. set (hc := snd (okey c)) in *.
  destruct H as [H|[E H]].
  - destruct (SpeciateFloat.lexlt_negtrans _ _ fb H) as [C|C]; [left; now left|right; now left].
  - destruct (lexlt_total_cases fa fb) as [C|[C|C]].
    + left. now left.
    + destruct (SpeciateFloat.lexlt_negtrans _ _ hb H) as [D|D].
      * left. right. split; assumption.
      * right. right. split; [congruence|assumption].
    + right. left. now rewrite <- E.
Qed.

(* ---------- Species.adjustFitness: order, marks ---------- *)
Definition mark_at (np : Z) (i : nat) (x : organism) : organism :=
  let y := if Z.geb (Z.of_nat i) np then o_with_elim x true else x in
  if Nat.eqb i 0 then o_with_champ y true else y.

Lemma mark_elim_nth np : forall l i0 j,
  nth_error (mark_elim l i0 np) j =
  option_map (fun x => if Z.geb (i0 + Z.of_nat j) np then o_with_elim x true else x) (nth_error l j).
Proof.
  induction l as [|x l IH]; intros i0 j; [destruct j; reflexivity|].
  destruct j as [|j]; cbn [mark_elim nth_error option_map].
  - now rewrite Z.add_0_r.
  - rewrite IH. replace (i0 + 1 + Z.of_nat j) with (i0 + Z.of_nat (S j)) by lia. reflexivity.
Qed.

Definition marked_of (np : Z) (sorted : list organism) : list organism :=
  match mark_elim sorted 0 np with
  | t :: r => o_with_champ t true :: r
  | [] => []
  end.

Lemma marked_of_nth np sorted j : nth_error (marked_of np sorted) j = option_map (mark_at np j) (nth_error sorted j).
Proof.
  unfold marked_of. pose proof (mark_elim_nth np sorted 0) as H.
  destruct (mark_elim sorted 0 np) as [|t r] eqn:E.
  - destruct sorted as [|x l]; [|discriminate E]. destruct j; reflexivity.
  - destruct j as [|j].
    + specialize (H 0%nat). cbn [nth_error] in *. destruct sorted as [|x l]; [discriminate|].
      cbn in H. injection H as ->. reflexivity.
    + specialize (H (S j)). cbn [nth_error] in *. rewrite H. unfold mark_at. cbn [Nat.eqb]. reflexivity.
Qed.

Lemma mark_at_key np i x : o_key (mark_at np i x) = o_key x.
Proof. unfold mark_at. destruct (Z.geb _ _), (Nat.eqb i 0); reflexivity. Qed.

Lemma mark_at_elim np i x : o_elim (mark_at np i x) = Z.leb np (Z.of_nat i) || o_elim x.
Proof. unfold mark_at. rewrite Z.geb_leb. destruct (Z.leb _ _), (Nat.eqb i 0); reflexivity. Qed.

Lemma mark_at_champ np x : o_champ (mark_at np 0 x) = true.
Proof. unfold mark_at. destruct (Z.geb _ _); reflexivity. Qed.

Lemma mark_at_rest np i x : i <> 0%nat -> o_champ (mark_at np i x) = o_champ x.
Proof. unfold mark_at. intros H. apply Nat.eqb_neq in H. rewrite H. destruct (Z.geb _ _); reflexivity. Qed.

Lemma nth_error_ext {A} : forall (l1 l2 : list A), (forall i, nth_error l1 i = nth_error l2 i) -> l1 = l2.
Proof.
  induction l1 as [|x l1 IH]; intros l2 H.
  - destruct l2; [reflexivity|]. specialize (H 0%nat). discriminate.
  - destruct l2 as [|y l2]; [specialize (H 0%nat); discriminate|].
    pose proof (H 0%nat) as H0. cbn in H0. injection H0 as ->. f_equal. apply IH. intros i. exact (H (S i)).
Qed.

Lemma marked_of_keys np sorted : map o_key (marked_of np sorted) = map o_key sorted.
Proof.
  apply nth_error_ext. intros i. rewrite !nth_error_map, marked_of_nth.
  destruct (nth_error sorted i); cbn; [now rewrite mark_at_key|reflexivity].
Qed.

Lemma adjust_one_key o age debt n x : o_key (adjust_one o age debt n x) = o_key x.
Proof. reflexivity. Qed.

Lemma NoDup_key_unique (l : list organism) y :
  NoDup (map o_key l) -> In y l -> forall z, In z l -> o_key z = o_key y -> z = y.
Proof.
  induction l as [|x l IH]; intros Hnd Hy z Hz Hk; [destruct Hy|]. cbn in Hnd. inversion Hnd as [|? ? Hn Hnd']; subst.
  destruct Hy as [->|Hy], Hz as [->|Hz]; auto.
  - exfalso. apply Hn. rewrite <- Hk. now apply in_map.
  - exfalso. apply Hn. rewrite Hk. now apply in_map.
Qed.

(* 7a. what adjustFitness does to the order and the marks of a species *)
Lemma adjust_fitness_spec : forall o h s h' s',
  adjust_fitness o h s = Ok (h', s') -> NoDup (sp_orgs s) ->
  exists orgs,
    hgets h (sp_orgs s) = Ok orgs /\
    let n := zlen orgs in
    let debt0 := (sp_age s - sp_lastimp s + 1) - o_dropoff o in
    let debt := if Z.eqb debt0 0 then 1 else debt0 in
    let sorted := sort_desc org_lt (map (adjust_one o (sp_age s) debt n) orgs) in
    let np := f_trunc_Z (ffloor (PrimFloat.add (PrimFloat.mul (o_survival o) (f_of_Z n)) 1%float)) in
    sp_orgs s' = map o_key sorted /\
    Permutation (sp_orgs s') (sp_orgs s) /\
    sp_id s' = sp_id s /\ sp_age s' = sp_age s /\ sp_exp s' = sp_exp s /\ sp_novel s' = sp_novel s /\
    (forall i x, nth_error sorted i = Some x -> hget h' (o_key x) = Ok (mark_at np i x)) /\
    (forall k, ~ In k (sp_orgs s) -> hget h' k = hget h k).
Proof.
  intros o h s h' s' H Hnd. unfold adjust_fitness in H.
  destruct (hgets h (sp_orgs s)) as [orgs| | | | |] eqn:Ho; cbn [bind] in H; try discriminate.
  exists orgs. split; [reflexivity|]. cbv zeta.
  set (n := zlen orgs) in *.
  set (debt := if Z.eqb (sp_age s - sp_lastimp s + 1 - o_dropoff o) 0 then 1 else sp_age s - sp_lastimp s + 1 - o_dropoff o) in *.
  set (np := f_trunc_Z (ffloor (PrimFloat.add (PrimFloat.mul (o_survival o) (f_of_Z n)) 1%float))) in *.
  remember (sort_desc org_lt (map (adjust_one o (sp_age s) debt n) orgs)) as sorted eqn:Es.
  destruct sorted as [|top rest]; [discriminate|].
  destruct (Z.ltb np 0); [discriminate|].
  change (Ok (hsets h (marked_of np (top :: rest)),
              sp_with_orgs (if PrimFloat.ltb (sp_maxfit s) (o_orig top) then sp_with_improved s (o_orig top) (sp_age s) else s)
                           (map o_key (marked_of np (top :: rest)))) = Ok (h', s')) in H.
  injection H as <- <-.
  set (sorted := top :: rest) in *.
  assert (Hperm : Permutation (map o_key sorted) (sp_orgs s)).
  { rewrite <- (hgets_keys _ _ _ Ho).
    rewrite Es. eapply Permutation_trans; [apply Permutation_map; apply sort_desc_perm|].
    rewrite map_map. cbn. apply Permutation_refl. }
  assert (Hnd' : NoDup (map o_key sorted)).
  { eapply Permutation_NoDup; [apply Permutation_sym; exact Hperm|exact Hnd]. }
  assert (Horgs' : forall s1, sp_orgs (sp_with_orgs s1 (map o_key (marked_of np sorted))) = map o_key sorted).
  { intros s1. cbn [sp_orgs sp_with_orgs]. apply marked_of_keys. }
  split; [apply Horgs'|]. split; [rewrite Horgs'; exact Hperm|].
  split; [destruct (PrimFloat.ltb _ _); reflexivity|]. split; [destruct (PrimFloat.ltb _ _); reflexivity|].
  split; [destruct (PrimFloat.ltb _ _); reflexivity|]. split; [destruct (PrimFloat.ltb _ _); reflexivity|].
  split.
  - intros i x Hi. rewrite <- (mark_at_key np i x). apply (hget_hsets (marked_of np sorted) h (mark_at np i x)).
    + apply (nth_error_In _ i). rewrite marked_of_nth, Hi. reflexivity.
    + apply NoDup_key_unique.
      * rewrite marked_of_keys. exact Hnd'.
      * apply (nth_error_In _ i). rewrite marked_of_nth, Hi. reflexivity.
  - intros k Hk. apply (hget_hsets_other (marked_of np sorted) h k). rewrite marked_of_keys. intros C. apply Hk.
    eapply Permutation_in; [exact Hperm|exact C].
Qed.

(* the marks as flags: if no member was marked before, exactly the positions >= num_parents are
   marked for elimination afterwards, and the first member is the champion *)
Lemma adjust_fitness_flags : forall o h s h' s',
  adjust_fitness o h s = Ok (h', s') -> NoDup (sp_orgs s) ->
  (forall k x, In k (sp_orgs s) -> hget h k = Ok x -> o_elim x = false) ->
  let n := zlen (sp_orgs s) in
  let np := f_trunc_Z (ffloor (PrimFloat.add (PrimFloat.mul (o_survival o) (f_of_Z n)) 1%float)) in
  forall i k, nth_error (sp_orgs s') i = Some k ->
    exists x, hget h' k = Ok x /\ o_elim x = Z.leb np (Z.of_nat i) /\ (i = 0%nat -> o_champ x = true).
Proof.
  intros o h s h' s' H Hnd Hpre n np i k Hi.
  destruct (adjust_fitness_spec _ _ _ _ _ H Hnd) as [orgs [Ho A]]. cbv zeta in A.
  assert (Hn : zlen orgs = n) by (unfold n, zlen; now rewrite (hgets_length _ _ _ Ho)).
  rewrite Hn in A. fold np in A.
  destruct A as [A1 [A2 [_ [_ [_ [_ [A3 _]]]]]]].
  rewrite A1, nth_error_map in Hi.
  destruct (nth_error (sort_desc org_lt _) i) as [x|] eqn:Ex; [|discriminate]. cbn in Hi. injection Hi as <-.
  exists (mark_at np i x). split; [exact (A3 i x Ex)|]. split.
  - rewrite mark_at_elim.
    assert (Hx : In x (sort_desc org_lt (map (adjust_one o (sp_age s)
                  (if Z.eqb (sp_age s - sp_lastimp s + 1 - o_dropoff o) 0 then 1 else sp_age s - sp_lastimp s + 1 - o_dropoff o) n) orgs)))
      by (eapply nth_error_In; exact Ex).
    apply (Permutation_in _ (sort_desc_perm org_lt _)) in Hx. apply in_map_iff in Hx. destruct Hx as [y [<- Hy]].
    destruct (hgets_In _ _ _ Ho _ Hy) as [B1 B2]. change (o_elim (adjust_one _ _ _ _ y)) with (o_elim y).
    rewrite (Hpre _ _ B1 B2). now rewrite Bool.orb_false_r.
  - intros ->. apply mark_at_champ.
Qed.

(* ---------- Population.purgeOrganisms ---------- *)
Definition keeps (h : list organism) (k : Z) : bool :=
  match hget h k with Ok x => negb (o_elim x) | _ => true end.

Definition rm (R : list Z) (s : species) : species :=
  sp_with_orgs s (filter (fun k => negb (existsb (Z.eqb k) R)) (sp_orgs s)).

Lemma sp_find_map (f : species -> species) : (forall s, sp_id (f s) = sp_id s) ->
  forall l id, sp_find (map f l) id = option_map f (sp_find l id).
Proof.
  intros Hf. induction l as [|x l IH]; intros id; [reflexivity|]. cbn. rewrite Hf.
  destruct (Z.eqb (sp_id x) id); [reflexivity|apply IH].
Qed.

Lemma sp_replace_map l : forall s', NoDup (map sp_id l) ->
  sp_replace l s' = map (fun x => if Z.eqb (sp_id x) (sp_id s') then s' else x) l.
Proof.
  induction l as [|x l IH]; intros s' Hnd; [reflexivity|]. cbn in Hnd. inversion Hnd as [|? ? Hn Hnd']; subst.
  cbn. destruct (Z.eqb (sp_id x) (sp_id s')) eqn:E.
  - f_equal. apply Z.eqb_eq in E. rewrite <- (map_id l) at 1. apply map_ext_in. intros y Hy.
    destruct (Z.eqb (sp_id y) (sp_id s')) eqn:F; [|reflexivity].
    apply Z.eqb_eq in F. exfalso. apply Hn. rewrite E, <- F. now apply in_map.
  - f_equal. now apply IH.
Qed.

Lemma filter_filter_rm k R (l : list Z) :
  filter (fun x => negb (Z.eqb x k)) (filter (fun j => negb (existsb (Z.eqb j) R)) l) =
  filter (fun j => negb (existsb (Z.eqb j) (k :: R))) l.
Proof.
  induction l as [|j l IH]; [reflexivity|]. cbn [filter existsb].
  destruct (existsb (Z.eqb j) R) eqn:E; cbn [negb].
  - rewrite Bool.orb_true_r. cbn. exact IH.
  - cbn [filter]. rewrite Bool.orb_false_r. destruct (Z.eqb j k); cbn; [exact IH|now rewrite IH].
Qed.

Lemma filter_rm_absent k R (l : list Z) : ~ In k l ->
  filter (fun j => negb (existsb (Z.eqb j) (k :: R))) l = filter (fun j => negb (existsb (Z.eqb j) R)) l.
Proof.
  intros H. apply filter_ext_in. intros j Hj. cbn [existsb].
  destruct (Z.eqb j k) eqn:E; [|reflexivity]. apply Z.eqb_eq in E. subst. contradiction.
Qed.

Lemma NoDup_app_l {A} (l1 l2 : list A) : NoDup (l1 ++ l2) -> NoDup l1.
Proof.
  induction l1 as [|x l1 IH]; intros H; [constructor|]. cbn in H. inversion H as [|? ? Hn H']; subst.
  constructor; [|now apply IH]. intros C. apply Hn. apply in_or_app. now left.
Qed.
Lemma NoDup_app_r {A} (l1 l2 : list A) : NoDup (l1 ++ l2) -> NoDup l2.
Proof. induction l1 as [|x l1 IH]; intros H; [exact H|]. cbn in H. inversion H; subst. now apply IH. Qed.

Lemma rm_id R s : sp_id (rm R s) = sp_id s.
Proof. reflexivity. Qed.

Section Purge.
  Variables (sp0 det0 : list species) (h : list organism).
  Hypothesis Hnd : NoDup (map sp_id (sp0 ++ det0)).
  (* every member of a species points back to it *)
  Hypothesis Hpart : forall s k x, In s (sp0 ++ det0) -> In k (sp_orgs s) -> hget h k = Ok x -> o_species x = sp_id s.

  Definition purge_inv (R : list Z) (pc : population) : Prop :=
    p_species pc = map (rm R) sp0 /\ p_detached pc = map (rm R) det0 /\ p_heap pc = h.

  Lemma Hnd_sp : NoDup (map sp_id sp0).
  Proof. rewrite map_app in Hnd. exact (NoDup_app_l _ _ Hnd). Qed.
  Lemma Hnd_det : NoDup (map sp_id det0).
  Proof. rewrite map_app in Hnd. exact (NoDup_app_r _ _ Hnd). Qed.

  Lemma ids_disjoint s d : In s sp0 -> In d det0 -> sp_id s <> sp_id d.
  Proof.
    intros Hs Hd E. rewrite map_app in Hnd. clear Hpart.
    induction sp0 as [|x l IH]; [destruct Hs|]. cbn in Hnd. inversion Hnd as [|? ? Hn Hnd']; subst.
    destruct Hs as [->|Hs]; [|exact (IH Hnd' Hs)].
    apply Hn. apply in_or_app. right. rewrite E. now apply in_map.
  Qed.

  Lemma rm_step_list (l0 : list species) R k x sid s0 :
    NoDup (map sp_id l0) -> (forall s, In s l0 -> In s (sp0 ++ det0)) ->
    hget h k = Ok x -> o_species x = sid -> In s0 l0 -> sp_id s0 = sid ->
    sp_replace (map (rm R) l0) (sp_with_orgs (rm R s0) (filter (fun y => negb (Z.eqb y k)) (sp_orgs (rm R s0)))) =
    map (rm (k :: R)) l0.
  Proof.
    intros Hnd0 Hsub Hx Hsid Hs0 Hid.
    rewrite sp_replace_map by (rewrite map_map; cbn; exact Hnd0).
    rewrite map_map. apply map_ext_in. intros s Hs. cbn [sp_id sp_with_orgs rm].
    destruct (Z.eqb (sp_id s) (sp_id s0)) eqn:E.
    - apply Z.eqb_eq in E.
      assert (s = s0).
      { pose proof (sp_find_NoDup _ _ Hnd0 Hs) as F1. pose proof (sp_find_NoDup _ _ Hnd0 Hs0) as F2.
        rewrite E, F2 in F1. now injection F1. }
      subst s. unfold rm. cbn [sp_orgs sp_with_orgs]. rewrite filter_filter_rm. destruct s0; reflexivity.
    - unfold rm. rewrite filter_rm_absent; [reflexivity|]. intros Hk.
      apply Z.eqb_neq in E. apply E. rewrite Hid, <- Hsid. symmetry. exact (Hpart s k x (Hsub s Hs) Hk Hx).
  Qed.

  Lemma rm_other_list (l0 : list species) R k x :
    hget h k = Ok x -> (forall s, In s l0 -> In s (sp0 ++ det0) /\ sp_id s <> o_species x) ->
    map (rm (k :: R)) l0 = map (rm R) l0.
  Proof.
    intros Hx Hl. apply map_ext_in. intros s Hs. destruct (Hl s Hs) as [A B].
    unfold rm. rewrite filter_rm_absent; [reflexivity|]. intros Hk. apply B. symmetry. exact (Hpart s k x A Hk Hx).
  Qed.

  Lemma remove_step R pc k x p1 :
    purge_inv R pc -> hget h k = Ok x -> remove_from_species pc x = Ok p1 -> o_key x = k ->
    purge_inv (k :: R) p1 /\ p_orgs p1 = p_orgs pc.
  Proof.
    intros [I1 [I2 I3]] Hx Hr Hk. unfold remove_from_species in Hr. rewrite Hk in Hr.
    rewrite I1 in Hr. rewrite (sp_find_map (rm R) (rm_id R)) in Hr.
    destruct (sp_find sp0 (o_species x)) as [s0|] eqn:F; cbn [option_map] in Hr.
    - destruct (sp_find_In _ _ _ F) as [Hs0 Hid].
      unfold remove_org in Hr. rewrite (sp_find_map (rm R) (rm_id R)), F in Hr. cbn [option_map] in Hr.
      destruct (_ && _) in Hr; cbn [bind] in Hr; [|discriminate]. injection Hr as <-.
      unfold purge_inv. cbn [p_species p_detached p_heap p_orgs p_with]. split; [|reflexivity].
      split; [|split; [|exact I3]].
      + apply (rm_step_list sp0 R k x (o_species x) s0 Hnd_sp); auto.
        intros s Hs. apply in_or_app. now left.
      + rewrite I2. symmetry. apply (rm_other_list det0 R k x Hx). intros d Hd.
        split; [apply in_or_app; now right|]. rewrite <- Hid. intros E. exact (ids_disjoint s0 d Hs0 Hd (eq_sym E)).
    - rewrite I2 in Hr. unfold remove_org in Hr. rewrite (sp_find_map (rm R) (rm_id R)) in Hr.
      destruct (sp_find det0 (o_species x)) as [s0|] eqn:G; cbn [option_map bind] in Hr; [|discriminate].
      destruct (sp_find_In _ _ _ G) as [Hs0 Hid].
      destruct (_ && _) in Hr; cbn [bind] in Hr; [|discriminate]. injection Hr as <-.
      unfold purge_inv. cbn [p_species p_detached p_heap p_orgs p_with]. split; [|reflexivity].
      split; [|split; [|exact I3]].
      + symmetry. apply (rm_other_list sp0 R k x Hx). intros s Hs.
        split; [apply in_or_app; now left|]. intros E.
        pose proof (sp_find_NoDup _ _ Hnd_sp Hs) as F1. rewrite E, F in F1. discriminate.
      + apply (rm_step_list det0 R k x (o_species x) s0 Hnd_det); auto.
        intros s Hs. apply in_or_app. now right.
  Qed.

  Lemma purge_loop_spec : forall ks pc keep R p',
    purge_organisms_loop pc ks keep = Ok p' -> purge_inv R pc ->
    exists R', (forall k, In k R' <-> In k R \/ (In k ks /\ keeps h k = false)) /\
               purge_inv R' p' /\ p_orgs p' = rev keep ++ filter (keeps h) ks.
  Proof.
    induction ks as [|k ks IH]; intros pc keep R p' H HI.
    - cbn in H. injection H as <-. exists R. split; [intros k; cbn; tauto|]. split; [exact HI|].
      cbn. now rewrite app_nil_r.
    - cbn [purge_organisms_loop] in H. destruct HI as [I1 [I2 I3]]. rewrite I3 in H.
      destruct (hget h k) as [x| | | | |] eqn:Hx; cbn [bind] in H; try discriminate.
      destruct (o_elim x) eqn:E.
      + destruct (remove_from_species pc x) as [p1| | | | |] eqn:Hr; cbn [bind] in H; try discriminate.
        destruct (remove_step R pc k x p1 (conj I1 (conj I2 I3)) Hx Hr (hget_key _ _ _ Hx)) as [HI1 Ho1].
        destruct (IH _ _ _ _ H HI1) as [R' [A [B C]]]. exists R'. split; [|split; [exact B|]].
        * intros j. rewrite A. cbn [In]. split.
          -- intros [[<-|Hj]|[Hj1 Hj2]]; [right|now left|right; split; [now right|assumption]].
             split; [now left|]. unfold keeps. now rewrite Hx, E.
          -- intros [Hj|[[<-|Hj1] Hj2]]; [left; now right|left; now left|right; now split].
        * rewrite C. cbn [filter]. unfold keeps at 2. now rewrite Hx, E.
      + destruct (IH _ _ _ _ H (conj I1 (conj I2 I3))) as [R' [A [B C]]]. exists R'. split; [|split; [exact B|]].
        * intros j. rewrite A. cbn [In]. split.
          -- intros [Hj|[Hj1 Hj2]]; [now left|right; split; [now right|assumption]].
          -- intros [Hj|[[<-|Hj1] Hj2]]; [now left| |right; now split].
             unfold keeps in Hj2. rewrite Hx, E in Hj2. discriminate.
        * rewrite C. cbn [filter rev]. unfold keeps at 2. rewrite Hx, E. cbn [negb]. now rewrite <- app_assoc.
  Qed.
End Purge.

(* 7b. purgeOrganisms leaves every species exactly its members that are not marked, in order *)
Lemma purge_organisms_spec : forall p p',
  purge_organisms p = Ok p' ->
  NoDup (map sp_id (p_species p ++ p_detached p)) ->
  (forall s k x, In s (p_species p ++ p_detached p) -> In k (sp_orgs s) -> hget (p_heap p) k = Ok x -> o_species x = sp_id s) ->
  (forall s k, In s (p_species p ++ p_detached p) -> In k (sp_orgs s) -> In k (p_orgs p)) ->
  p_species p' = map (fun s => sp_with_orgs s (filter (keeps (p_heap p)) (sp_orgs s))) (p_species p) /\
  p_detached p' = map (fun s => sp_with_orgs s (filter (keeps (p_heap p)) (sp_orgs s))) (p_detached p) /\
  p_orgs p' = filter (keeps (p_heap p)) (p_orgs p) /\ p_heap p' = p_heap p.
Proof.
  intros p p' H Hnd Hpart Hmem. unfold purge_organisms in H.
  assert (HI : purge_inv (p_species p) (p_detached p) (p_heap p) [] p).
  { unfold purge_inv. repeat split.
    - transitivity (map (fun s : species => s) (p_species p)); [symmetry; apply map_id|]. apply map_ext. intros s. unfold rm. cbn.
      assert (F : forall l : list Z, filter (fun _ => true) l = l) by (induction l; cbn; congruence).
      rewrite F. destruct s; reflexivity.
    - transitivity (map (fun s : species => s) (p_detached p)); [symmetry; apply map_id|]. apply map_ext. intros s. unfold rm. cbn.
      assert (F : forall l : list Z, filter (fun _ => true) l = l) by (induction l; cbn; congruence).
      rewrite F. destruct s; reflexivity. }
  destruct (purge_loop_spec _ _ _ Hnd Hpart _ _ _ _ _ H HI) as [R [A [[B1 [B2 B3]] C]]].
  assert (Hrm : forall s, In s (p_species p ++ p_detached p) ->
                          rm R s = sp_with_orgs s (filter (keeps (p_heap p)) (sp_orgs s))).
  { intros s Hs. unfold rm. f_equal. apply filter_ext_in. intros k Hk.
    destruct (keeps (p_heap p) k) eqn:K.
    - apply Bool.negb_true_iff. apply Bool.not_true_is_false. intros E.
      apply existsb_Zeqb_In in E. apply A in E. destruct E as [[]|[_ E]]. congruence.
    - apply Bool.negb_false_iff. apply existsb_Zeqb_In. apply A. right. split; [|assumption].
      exact (Hmem s k Hs Hk). }
  split; [|split; [|split]].
  - rewrite B1. apply map_ext_in. intros s Hs. apply Hrm. apply in_or_app. now left.
  - rewrite B2. apply map_ext_in. intros s Hs. apply Hrm. apply in_or_app. now right.
  - exact C.
  - exact B3.
Qed.

Lemma filter_firstn {A} (f : A -> bool) : forall (l : list A) (m : nat),
  (forall i a, nth_error l i = Some a -> f a = Nat.ltb i m) -> filter f l = firstn m l.
Proof.
  induction l as [|x l IH]; intros m H; [now destruct m|].
  cbn [filter]. rewrite (H 0%nat x eq_refl). destruct m as [|m]; cbn [Nat.ltb Nat.leb firstn].
  - rewrite (IH 0%nat); [reflexivity|]. intros i a Hi. rewrite (H (S i) a Hi). reflexivity.
  - f_equal. apply IH. intros i a Hi. rewrite (H (S i) a Hi). reflexivity.
Qed.

(* 7c. the parent cut-off: a species whose members carry the marks adjustFitness sets keeps, after
   purgeOrganisms, exactly its first num_parents members (all of them if there are fewer), in order *)
Lemma parents_cut : forall p p' s np,
  purge_organisms p = Ok p' ->
  NoDup (map sp_id (p_species p ++ p_detached p)) ->
  (forall s k x, In s (p_species p ++ p_detached p) -> In k (sp_orgs s) -> hget (p_heap p) k = Ok x -> o_species x = sp_id s) ->
  (forall s k, In s (p_species p ++ p_detached p) -> In k (sp_orgs s) -> In k (p_orgs p)) ->
  In s (p_species p) ->
  (forall i k, nth_error (sp_orgs s) i = Some k ->
               exists x, hget (p_heap p) k = Ok x /\ o_elim x = Z.leb np (Z.of_nat i)) ->
  exists s', sp_find (p_species p') (sp_id s) = Some s' /\
             s' = sp_with_orgs s (firstn (Z.to_nat np) (sp_orgs s)) /\
             length (sp_orgs s') = Nat.min (Z.to_nat np) (length (sp_orgs s)).
Proof.
  intros p p' s np H Hnd Hpart Hmem Hs Hflags.
  destruct (purge_organisms_spec _ _ H Hnd Hpart Hmem) as [A _].
  assert (Hnd_sp : NoDup (map sp_id (p_species p))) by (rewrite map_app in Hnd; exact (NoDup_app_l _ _ Hnd)).
  exists (sp_with_orgs s (firstn (Z.to_nat np) (sp_orgs s))). split; [|split; [reflexivity|]].
  - rewrite A. rewrite sp_find_map by reflexivity. rewrite (sp_find_NoDup _ _ Hnd_sp Hs). cbn [option_map]. f_equal. f_equal.
    apply filter_firstn. intros i k Hi. destruct (Hflags i k Hi) as [x [Hx He]]. unfold keeps. rewrite Hx, He.
    destruct (Z.leb np (Z.of_nat i)) eqn:L; cbn [negb]; symmetry.
    + apply Z.leb_le in L. apply Nat.ltb_ge. lia.
    + apply Z.leb_gt in L. apply Nat.ltb_lt. lia.
  - cbn [sp_orgs sp_with_orgs]. apply firstn_length.
Qed.
