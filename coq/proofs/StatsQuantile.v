(* C19, quantiles: Floats.Median/Q25/Q75 (sort a copy, stat.Quantile with stat.Empirical) return
   the least element whose empirical CDF is >= p, for every order of the input. *)
From Coq Require Import List ZArith Bool Reals Lra Lia Permutation Sorted.
From NeatModel Require Import Res Stats StatsSpec.
Import ListNotations.
Open Scope R_scope.

(* ---------- the definition ---------- *)

Fixpoint count_le (q : R) (xs : list R) : nat :=
  match xs with
  | [] => O
  | x :: xs' => if Rle_dec x q then S (count_le q xs') else count_le q xs'
  end.

(* empirical distribution function of the series at q *)
Definition ecdf (xs : list R) (q : R) : R := INR (count_le q xs) / nR xs.

(* q is the empirical p-quantile: the least element of the series whose ecdf is >= p *)
Definition is_quantile (p q : R) (xs : list R) : Prop :=
  In q xs /\ p <= ecdf xs q /\ forall y, In y xs -> p <= ecdf xs y -> q <= y.

Lemma count_le_app q a b : count_le q (a ++ b) = (count_le q a + count_le q b)%nat.
Proof. induction a as [|x a IH]; simpl; [reflexivity|]. destruct (Rle_dec x q); simpl; now rewrite IH. Qed.

Lemma count_le_perm q a b : Permutation a b -> count_le q a = count_le q b.
Proof.
  induction 1 as [|x a b H IH|x y a|a b c H1 IH1 H2 IH2]; simpl.
  - reflexivity.
  - now rewrite IH.
  - destruct (Rle_dec x q), (Rle_dec y q); reflexivity.
  - now rewrite IH1.
Qed.

Lemma count_le_all q a : (forall x, In x a -> x <= q) -> count_le q a = length a.
Proof.
  induction a as [|x a IH]; intros H; simpl; [reflexivity|].
  destruct (Rle_dec x q) as [_|n]; [f_equal; apply IH; intros; apply H; now right|].
  exfalso. apply n. apply H. now left.
Qed.

Lemma count_le_none q a : (forall x, In x a -> q < x) -> count_le q a = O.
Proof.
  induction a as [|x a IH]; intros H; simpl; [reflexivity|].
  destruct (Rle_dec x q) as [l|_]; [|apply IH; intros; apply H; now right].
  exfalso. specialize (H x (or_introl eq_refl)). lra.
Qed.

Lemma count_le_length q a : (count_le q a <= length a)%nat.
Proof. induction a as [|x a IH]; simpl; [lia|]. destruct (Rle_dec x q); lia. Qed.

Lemma ecdf_ge p q xs : xs <> [] -> (p <= ecdf xs q <-> p * nR xs <= INR (count_le q xs)).
Proof.
  intros H. destruct xs as [|x xs]; [congruence|]. pose proof (nR_pos x xs) as Hp. unfold ecdf.
  split; intros Hq.
  - apply Rmult_le_compat_r with (r := nR (x :: xs)) in Hq; [|lra].
    unfold Rdiv in Hq. rewrite Rmult_assoc, Rinv_l in Hq by lra. lra.
  - apply Rmult_le_reg_r with (r := nR (x :: xs)); [lra|].
    unfold Rdiv. rewrite Rmult_assoc, Rinv_l by lra. lra.
Qed.

Lemma is_quantile_unique p q q' xs : is_quantile p q xs -> is_quantile p q' xs -> q = q'.
Proof.
  intros (I1 & C1 & M1) (I2 & C2 & M2). specialize (M1 _ I2 C2). specialize (M2 _ I1 C1). lra.
Qed.

Lemma ecdf_perm xs ys q : Permutation xs ys -> ecdf xs q = ecdf ys q.
Proof. intros H. unfold ecdf. now rewrite (count_le_perm q _ _ H), (nR_perm _ _ H). Qed.

Lemma is_quantile_perm p q xs ys : Permutation xs ys -> is_quantile p q xs -> is_quantile p q ys.
Proof.
  intros H (I & C & M). split; [eapply Permutation_in; eauto|]. split.
  - now rewrite <- (ecdf_perm _ _ q H).
  - intros y Hy Hc. apply M; [eapply Permutation_in; [apply Permutation_sym; exact H | exact Hy]|].
    now rewrite (ecdf_perm _ _ y H).
Qed.

(* ---------- sort.Float64s on reals ---------- *)

Lemma less_R x y : less rnum x y = Rltb x y.
Proof. reflexivity. Qed.

Lemma insert_perm x l : Permutation (insert rnum x l) (x :: l).
Proof.
  induction l as [|y l IH]; simpl; [apply Permutation_refl|].
  destruct (less rnum x y); [apply Permutation_refl|].
  eapply Permutation_trans; [apply perm_skip; exact IH | apply perm_swap].
Qed.

Lemma insert_sorted x l : StronglySorted Rle l -> StronglySorted Rle (insert rnum x l).
Proof.
  induction 1 as [|y l Hs IH Hy]; simpl.
  - constructor; constructor.
  - rewrite less_R. destruct (Rltb x y) eqn:E.
    + apply Rltb_true in E. constructor; [constructor; assumption|].
      constructor; [lra|]. eapply Forall_impl; [|exact Hy]. simpl. intros; lra.
    + apply Rltb_false in E. constructor; [exact IH|].
      eapply Permutation_Forall; [apply Permutation_sym, insert_perm|].
      constructor; assumption.
Qed.

Lemma isort_fold_perm : forall l acc,
  Permutation (fold_left (fun a x => insert rnum x a) l acc) (l ++ acc).
Proof.
  induction l as [|x l IH]; intros acc; simpl; [apply Permutation_refl|].
  eapply Permutation_trans; [apply IH|].
  eapply Permutation_trans; [apply Permutation_app_head, insert_perm|].
  apply Permutation_sym, Permutation_middle.
Qed.

Lemma isort_perm l : Permutation (isort rnum l) l.
Proof. unfold isort. eapply Permutation_trans; [apply isort_fold_perm|]. now rewrite app_nil_r. Qed.

Lemma isort_fold_sorted : forall l acc,
  StronglySorted Rle acc -> StronglySorted Rle (fold_left (fun a x => insert rnum x a) l acc).
Proof. induction l as [|x l IH]; intros acc H; simpl; [exact H|]. apply IH, insert_sorted, H. Qed.

Lemma isort_sorted l : StronglySorted Rle (isort rnum l).
Proof. apply isort_fold_sorted. constructor. Qed.

Lemma are_sorted_R l : StronglySorted Rle l -> are_sorted rnum l = true.
Proof.
  induction 1 as [|x l Hs IH Hx]; [reflexivity|].
  destruct l as [|y l]; [reflexivity|].
  change (are_sorted rnum (x :: y :: l)) with (negb (less rnum y x) && are_sorted rnum (y :: l)).
  rewrite IH, andb_true_r, less_R. inversion Hx as [|? ? Hxy _]; subst.
  destruct (Rltb y x) eqn:E; [apply Rltb_true in E; lra | reflexivity].
Qed.

(* lifting of the sort and of the sortedness test *)
Lemma less_lift x y : less xnum (Some x) (Some y) = less rnum x y.
Proof. reflexivity. Qed.

Lemma insert_lift x l : insert xnum (Some x) (inj l) = inj (insert rnum x l).
Proof.
  induction l as [|y l IH]; [reflexivity|]. simpl inj. simpl insert.
  rewrite less_lift. destruct (less rnum x y); [reflexivity|].
  change (inj (y :: insert rnum x l)) with (Some y :: inj (insert rnum x l)). now rewrite <- IH.
Qed.

Lemma isort_fold_lift : forall l acc,
  fold_left (fun a x => insert xnum x a) (inj l) (inj acc) = inj (fold_left (fun a x => insert rnum x a) l acc).
Proof.
  induction l as [|x l IH]; intros acc; [reflexivity|]. simpl. rewrite insert_lift. apply IH.
Qed.

Lemma isort_lift l : isort xnum (inj l) = inj (isort rnum l).
Proof. apply (isort_fold_lift l []). Qed.

Lemma are_sorted_lift l : are_sorted xnum (inj l) = are_sorted rnum l.
Proof.
  induction l as [|x l IH]; [reflexivity|]. destruct l as [|y l]; [reflexivity|].
  change (are_sorted xnum (inj (x :: y :: l))) with (negb (less xnum (Some y) (Some x)) && are_sorted xnum (inj (y :: l))).
  rewrite IH, less_lift. reflexivity.
Qed.

Lemma has_nan_inj l : has_nan xnum (inj l) = false.
Proof. induction l as [|x l IH]; [reflexivity|]. simpl. exact IH. Qed.

(* ---------- the cumulative loop ---------- *)

Definition lift_res (r : res R) : res xr :=
  match r with
  | Ok v => Ok (Some v) | GoErr c => GoErr c | GoPanic c => GoPanic c
  | OutOfTape => OutOfTape | OutOfFuel => OutOfFuel | BadOracle => BadOracle
  end.

Lemma emp_loop_lift : forall s c f,
  emp_loop xnum (inj s) (Some c) (Some f) = lift_res (emp_loop rnum s c f).
Proof.
  induction s as [|v s IH]; intros c f; [reflexivity|]. simpl inj. simpl emp_loop.
  change (xcmp Rleb (Some f) (Some (c + 1))) with (Rleb f (c + 1)).
  destruct (Rleb f (c + 1)); [reflexivity|]. apply IH.
Qed.

Lemma emp_loop_R : forall s c f,
  s <> [] -> f <= c + INR (length s) ->
  exists pre v post, s = pre ++ v :: post /\ emp_loop rnum s c f = Ok v /\
                     f <= c + INR (length pre) + 1 /\ (pre = [] \/ c + INR (length pre) < f).
Proof.
  induction s as [|v s IH]; intros c f Hne Hf; [congruence|].
  simpl emp_loop. change (n_leb rnum f (n_add rnum c (n_one rnum))) with (Rleb f (c + 1)).
  destruct (Rleb f (c + 1)) eqn:E.
  - apply Rleb_true in E. exists [], v, s. simpl. repeat split; auto. lra.
  - apply Rleb_false in E.
    assert (Hs : s <> []).
    { intros ->. simpl in Hf. lra. }
    destruct (IH (c + 1) f Hs) as (pre & w & post & -> & Ev & H1 & H2).
    { simpl length in Hf. rewrite S_INR in Hf. lra. }
    exists (v :: pre), w, post. simpl length. rewrite S_INR. repeat split; auto; try lra.
    right. destruct H2 as [-> | H2]; simpl; lra.
Qed.

Lemma sorted_app_le : forall (a b : list R),
  StronglySorted Rle (a ++ b) -> forall x y, In x a -> In y b -> x <= y.
Proof.
  induction a as [|z a IH]; intros b H x y Hx Hy; [contradiction|].
  simpl in H. inversion H as [|? ? Hs Hall]; subst. destruct Hx as [<- | Hx].
  - rewrite Forall_forall in Hall. apply Hall. apply in_or_app. now right.
  - eapply IH; eauto.
Qed.

Lemma sorted_tail_ge : forall (v : R) post, StronglySorted Rle (v :: post) -> forall y, In y (v :: post) -> v <= y.
Proof.
  intros v post H y [<- | Hy]; [lra|]. inversion H as [|? ? _ Hall]; subst.
  rewrite Forall_forall in Hall. now apply Hall.
Qed.

(* the loop on a sorted series returns the quantile *)
Lemma emp_loop_quantile p s :
  s <> [] -> StronglySorted Rle s -> 0 <= p <= 1 ->
  exists q, emp_loop rnum s 0 (p * nR s) = Ok q /\ is_quantile p q s.
Proof.
  intros Hne Hs Hp.
  destruct (emp_loop_R s 0 (p * nR s) Hne) as (pre & v & post & E & Ev & H1 & H2).
  { pose proof (nR_nonneg s). unfold nR in *. nra. }
  exists v. split; [exact Ev|].
  assert (Hpre : forall x, In x pre -> x <= v).
  { intros x Hx. rewrite E in Hs. eapply sorted_app_le; [exact Hs | exact Hx | now left]. }
  assert (Hpost : StronglySorted Rle (v :: post)).
  { rewrite E in Hs. clear -Hs. induction pre as [|z pre IH]; [exact Hs|]. simpl in Hs. inversion Hs; auto. }
  split; [rewrite E; apply in_or_app; right; now left|]. split.
  - apply ecdf_ge; [exact Hne|]. rewrite E at 2. rewrite count_le_app. simpl count_le.
    destruct (Rle_dec v v) as [_|n]; [|exfalso; apply n; lra].
    rewrite (count_le_all v pre Hpre). rewrite plus_INR, S_INR.
    pose proof (pos_INR (count_le v post)). lra.
  - intros y Hy Hc. apply ecdf_ge in Hc; [|exact Hne].
    destruct (Rle_dec v y) as [l|n]; [exact l|]. exfalso. apply Rnot_le_lt in n.
    assert (Hzero : count_le y (v :: post) = O).
    { apply count_le_none. intros x Hx. pose proof (sorted_tail_ge v post Hpost x Hx). lra. }
    rewrite E in Hc at 2. rewrite count_le_app, Hzero, Nat.add_0_r in Hc.
    pose proof (count_le_length y pre) as Hl. apply le_INR in Hl.
    destruct H2 as [-> | H2].
    + simpl in E. rewrite E in Hy. pose proof (sorted_tail_ge v post Hpost y Hy). lra.
    + lra.
Qed.

(* ---------- stat.Quantile and the three accessors ---------- *)

Lemma st_quantile_sorted p s :
  s <> [] -> StronglySorted Rle s -> 0 <= p <= 1 ->
  exists q, st_quantile xnum (Some p) (inj s) = Ok (Some q) /\ is_quantile p q s.
Proof.
  intros Hne Hs Hp. destruct (emp_loop_quantile p s Hne Hs Hp) as (q & Eq & Hq).
  exists q. split; [|exact Hq]. unfold st_quantile.
  change (n_leb xnum (n_zero xnum) (Some p)) with (Rleb 0 p).
  change (n_leb xnum (Some p) (n_one xnum)) with (Rleb p 1).
  destruct (proj2 (Rleb_true 0 p) (proj1 Hp)), (proj2 (Rleb_true p 1) (proj2 Hp)).
  replace (Rleb 0 p) with true by (symmetry; apply Rleb_true; lra).
  replace (Rleb p 1) with true by (symmetry; apply Rleb_true; lra).
  simpl negb. cbv iota.
  destruct s as [|x s]; [congruence|]. simpl inj. change (Some x :: inj s) with (inj (x :: s)).
  rewrite has_nan_inj, are_sorted_lift, (are_sorted_R _ Hs). simpl negb. cbv iota.
  rewrite inj_len. change (n_mul xnum (Some p) (n_ofZ xnum (len (x :: s)))) with (Some (p * IZR (len (x :: s)))).
  rewrite len_INR. change (n_zero xnum) with (Some 0). rewrite emp_loop_lift, Eq. reflexivity.
Qed.

Theorem quantile_spec p xs :
  xs <> [] -> 0 <= p <= 1 ->
  exists q, F_quantile xnum (Some p) (inj xs) = Ok (Some q) /\ is_quantile p q xs.
Proof.
  intros Hne Hp.
  assert (Hs : isort rnum xs <> []).
  { intros E. pose proof (isort_perm xs) as P. rewrite E in P. apply Permutation_nil in P. contradiction. }
  destruct (st_quantile_sorted p (isort rnum xs) Hs (isort_sorted xs) Hp) as (q & Eq & Hq).
  exists q. split.
  - unfold F_quantile, F_sorted. destruct xs as [|x xs]; [congruence|]. simpl inj.
    change (Some x :: inj xs) with (inj (x :: xs)). rewrite isort_lift. exact Eq.
  - eapply is_quantile_perm; [apply isort_perm | exact Hq].
Qed.

Theorem quantile_empty p : F_quantile xnum p [] = Ok None.
Proof. reflexivity. Qed.

Theorem quantile_perm p xs ys :
  0 <= p <= 1 -> Permutation xs ys -> F_quantile xnum (Some p) (inj xs) = F_quantile xnum (Some p) (inj ys).
Proof.
  intros Hp H. destruct xs as [|x xs].
  - apply Permutation_nil in H. now subst.
  - destruct (quantile_spec p (x :: xs)) as (q & E & Hq); [discriminate | exact Hp|].
    destruct (quantile_spec p ys) as (q' & E' & Hq'); [eapply perm_nil_inv; [exact H | discriminate] | exact Hp|].
    rewrite E, E'. do 2 f_equal. eapply is_quantile_unique; [eapply is_quantile_perm; eauto | exact Hq'].
Qed.

Lemma frac_xnum m d : IZR d <> 0 -> n_frac xnum m d = Some (IZR m / IZR d).
Proof. intros H. simpl. now apply xdiv_some. Qed.

Lemma half_eq : n_frac xnum 1 2 = Some (1 / 2).
Proof. apply frac_xnum. lra. Qed.
Lemma quarter_eq : n_frac xnum 1 4 = Some (1 / 4).
Proof. apply frac_xnum. lra. Qed.
Lemma three_quarters_eq : n_frac xnum 3 4 = Some (3 / 4).
Proof. apply frac_xnum. lra. Qed.

Theorem median_spec xs : xs <> [] -> exists q, F_median xnum (inj xs) = Ok (Some q) /\ is_quantile (1 / 2) q xs.
Proof. intros H. unfold F_median. rewrite half_eq. apply quantile_spec; [exact H | lra]. Qed.
Theorem q25_spec xs : xs <> [] -> exists q, F_q25 xnum (inj xs) = Ok (Some q) /\ is_quantile (1 / 4) q xs.
Proof. intros H. unfold F_q25. rewrite quarter_eq. apply quantile_spec; [exact H | lra]. Qed.
Theorem q75_spec xs : xs <> [] -> exists q, F_q75 xnum (inj xs) = Ok (Some q) /\ is_quantile (3 / 4) q xs.
Proof. intros H. unfold F_q75. rewrite three_quarters_eq. apply quantile_spec; [exact H | lra]. Qed.

Theorem median_perm xs ys : Permutation xs ys -> F_median xnum (inj xs) = F_median xnum (inj ys).
Proof. intros H. unfold F_median. rewrite half_eq. apply quantile_perm; [lra | exact H]. Qed.
Theorem q25_perm xs ys : Permutation xs ys -> F_q25 xnum (inj xs) = F_q25 xnum (inj ys).
Proof. intros H. unfold F_q25. rewrite quarter_eq. apply quantile_perm; [lra | exact H]. Qed.
Theorem q75_perm xs ys : Permutation xs ys -> F_q75 xnum (inj xs) = F_q75 xnum (inj ys).
Proof. intros H. unfold F_q75. rewrite three_quarters_eq. apply quantile_perm; [lra | exact H]. Qed.

Theorem median_empty : F_median xnum [] = Ok None.
Proof. reflexivity. Qed.
Theorem q25_empty : F_q25 xnum [] = Ok None.
Proof. reflexivity. Qed.
Theorem q75_empty : F_q75 xnum [] = Ok None.
Proof. reflexivity. Qed.

(* what the fix 8399ba2 repaired: without the sort, the median of an unsorted series panics *)
Lemma median_unsorted_panics : F_median_unsorted xnum (inj [2; 1]) = GoPanic panic_not_sorted.
Proof.
  unfold F_median_unsorted. rewrite half_eq. simpl inj. unfold st_quantile.
  change (n_leb xnum (n_zero xnum) (Some (1 / 2))) with (Rleb 0 (1 / 2)).
  change (n_leb xnum (Some (1 / 2)) (n_one xnum)) with (Rleb (1 / 2) 1).
  replace (Rleb 0 (1 / 2)) with true by (symmetry; apply Rleb_true; lra).
  replace (Rleb (1 / 2) 1) with true by (symmetry; apply Rleb_true; lra).
  simpl negb. cbv iota. change [Some 2; Some 1] with (inj [2; 1]).
  rewrite has_nan_inj. change (less xnum (Some 1) (Some 2)) with (Rltb 1 2).
  replace (Rltb 1 2) with true by (symmetry; apply Rltb_true; lra). reflexivity.
Qed.
