(* C02, "succeeds without error", operator level: every mutator of model/Mutate.v (and duplicate)
   applied to a well-formed genome returns Ok or runs out of tape -- never GoErr, GoPanic, OutOfFuel
   or BadOracle -- provided every recorded innovation names a trait index inside the trait list
   ([records_traits_ok], an invariant the mutators themselves maintain: proved here as the
   postcondition) and, for mutateAddNode, that drawing a random activation cannot fail ([act_safe]).
   A small total-correctness calculus [tot Q r]: r is Ok (a, s') with Q a s', or OutOfTape. *)
From NeatModel Require Import Res F64 GoRand Genome Options Insert Dup Mutate InsertSpec WF
     MutateMonad MutateFrame MutateSpec MutateWF MateSpec TapeLocal EpochTotalDefs.
From Coq Require Import Lia.

(* MateSpec.innovs (numbers of a genome) shadows the record field of the environment *)
Notation innovs := Genome.innovs.

(* ------------------------------------------------------------------------------------------ *)
(* 1. the calculus                                                                              *)
(* ------------------------------------------------------------------------------------------ *)
Definition tot {A} (Q : A -> st -> Prop) (r : res (A * st)) : Prop :=
  match r with Ok (a, s') => Q a s' | OutOfTape => True | _ => False end.

Lemma tot_bind {A B} (P : A -> st -> Prop) (Q : B -> st -> Prop) (m : @M st A) (f : A -> @M st B) s :
  tot P (m s) -> (forall a s1, m s = Ok (a, s1) -> P a s1 -> tot Q (f a s1)) -> tot Q (bindM m f s).
Proof.
  unfold bindM, tot. destruct (m s) as [[a s1]| | | | |]; intros H1 H2; try contradiction; auto.
  now apply H2.
Qed.

Lemma tot_mono {A} (P Q : A -> st -> Prop) r :
  tot P r -> (forall a s', r = Ok (a, s') -> P a s' -> Q a s') -> tot Q r.
Proof. unfold tot. destruct r as [[a s']| | | | |]; auto. Qed.

Lemma tot_ret {A} (a : A) s (Q : A -> st -> Prop) : Q a s -> tot Q (ret a s).
Proof. intros H. exact H. Qed.

Lemma tot_lift {A} (r : res A) a s (Q : A -> st -> Prop) : r = Ok a -> Q a s -> tot Q (lift r s).
Proof. intros -> H. exact H. Qed.

Lemma tot_oot {A} (Q : A -> st -> Prop) s : tot Q ((fun _ : st => @OutOfTape (A * st)) s).
Proof. exact I. Qed.

Lemma tot_total {A} (Q : A -> st -> Prop) r : tot Q r -> (exists a, r = Ok a) \/ r = OutOfTape.
Proof. unfold tot. destruct r as [[a s']| | | | |]; intros H; try contradiction; eauto. Qed.

Lemma tot_Ok {A} (Q : A -> st -> Prop) r a s' : tot Q r -> r = Ok (a, s') -> Q a s'.
Proof. intros H ->. exact H. Qed.

(* a step that leaves the environment alone and consumes tape *)
Definition tstep (s s' : st) : Prop :=
  s_env s' = s_env s /\ (tape_ok (s_tape s) -> tape_ok (s_tape s')).

Lemma tstep_refl s : tstep s s.
Proof. split; auto. Qed.

Lemma tstep_trans a b c : tstep a b -> tstep b c -> tstep a c.
Proof. intros [A1 A2] [B1 B2]. split; [congruence|auto]. Qed.

(* the state invariant of the operators: recorded trait indices in range, genuine draws *)
Definition sgood (n : Z) (s : st) : Prop := records_traits_ok (s_env s) n /\ tape_ok (s_tape s).

Lemma sgood_tstep n s s' : sgood n s -> tstep s s' -> sgood n s'.
Proof. intros [A B] [E T]. split; [now rewrite E|auto]. Qed.

Lemma tape_ok_app u t : tape_ok (u ++ t) -> tape_ok t.
Proof. unfold tape_ok. intros H. apply Forall_app in H. tauto. Qed.

(* ------------------------------------------------------------------------------------------ *)
(* 2. the primitive draws                                                                       *)
(* ------------------------------------------------------------------------------------------ *)
Lemma tot_on_tape {A} (f : tape -> res (A * tape)) (Qv : A -> Prop) s :
  raw_local f -> tape_safe (f (s_tape s)) -> (forall a t', f (s_tape s) = Ok (a, t') -> Qv a) ->
  tot (fun a s' => Qv a /\ tstep s s') (on_tape f s).
Proof.
  intros L S H. unfold on_tape, tot. destruct (f (s_tape s)) as [[a t']| | | | |] eqn:E; try contradiction; auto.
  split; [eauto|]. split; [reflexivity|]. cbn [s_tape]. destruct (L _ _ _ E) as (u & -> & _). apply tape_ok_app.
Qed.

Lemma tape_float64_safe t : tape_safe (tape_float64 t).
Proof. induction t as [|x t IH]; cbn [tape_float64]; [exact I|]. destruct (PrimFloat.eqb _ _); [exact IH|exact I]. Qed.

Lemma tape_float32_safe t : tape_safe (tape_float32 t).
Proof.
  induction t as [|x t IH]; cbn [tape_float32]; [exact I|]. destruct (PrimFloat.eqb _ _); [exact IH|].
  cbv zeta. destruct (PrimFloat.eqb _ _); [exact IH|exact I].
Qed.

Lemma tot_float64 s : tot (fun _ s' => tstep s s') (r_float64 s).
Proof.
  eapply tot_mono; [apply (tot_on_tape tape_float64 (fun _ => True)); [apply rl_float64|apply tape_float64_safe|auto]|].
  intros a s' _ [_ H]. exact H.
Qed.

Lemma tot_float32 s : tot (fun _ s' => tstep s s') (r_float32 s).
Proof.
  eapply tot_mono; [apply (tot_on_tape tape_float32 (fun _ => True)); [apply rl_float32|apply tape_float32_safe|auto]|].
  intros a s' _ [_ H]. exact H.
Qed.

Lemma tot_randsign s : tot (fun _ s' => tstep s s') (r_randsign s).
Proof.
  eapply tot_mono; [apply (tot_on_tape tape_randsign (fun _ => True)); [apply rl_randsign| |auto]|].
  - unfold tape_randsign. destruct (s_tape s); exact I.
  - intros a s' _ [_ H]. exact H.
Qed.

(* masking with a non-negative mask *)
Lemma land_range x b : 0 <= b -> 0 <= Z.land x b <= b.
Proof.
  intros Hb. apply Z.ldiff_le; [exact Hb|].
  rewrite Z.ldiff_land, <- Z.land_assoc, Z.land_lnot_diag. apply Z.land_0_r.
Qed.

Lemma tape_int31n_rej_range n mx : 0 < n -> forall t v t',
  tape_int31n_rej n mx t = Ok (v, t') -> 0 <= v < n.
Proof.
  intros Hn. induction t as [|x t IH]; intros v t' H; cbn [tape_int31n_rej] in H; [discriminate|].
  cbv zeta in H. destruct (Z.gtb _ _); [eauto|]. apply ok_pair_inj in H. destruct H as [<- _]. apply Z.mod_pos_bound. exact Hn.
Qed.

Lemma tape_int31n_range n t v t' : 0 < n -> tape_int31n n t = Ok (v, t') -> 0 <= v < n.
Proof.
  intros Hn. unfold tape_int31n. destruct (Z.eqb _ _).
  - destruct t as [|x t]; [discriminate|]. intros H. apply ok_pair_inj in H. destruct H as [<- _].
    pose proof (land_range (int31_of x) (n - 1)). lia.
  - apply tape_int31n_rej_range. exact Hn.
Qed.

Lemma tape_int31n_safe n t : tape_safe (tape_int31n n t).
Proof.
  unfold tape_int31n. destruct (Z.eqb _ _); [destruct t; exact I|].
  generalize (2147483647 - 2147483648 mod n). intros mx.
  induction t as [|x t IH]; cbn [tape_int31n_rej]; [exact I|]. cbv zeta. destruct (Z.gtb _ _); [exact IH|exact I].
Qed.

(* rand.Intn(n), n > 0: a value in [0, n) *)
Lemma tot_intn n s : 0 < n -> tot (fun k s' => 0 <= k < n /\ tstep s s') (r_intn n s).
Proof.
  intros Hn. apply tot_on_tape; [apply rl_intn| |].
  - unfold tape_intn. destruct (Z.leb_spec n 0); [lia|]. apply tape_int31n_safe.
  - unfold tape_intn. destruct (Z.leb_spec n 0); [lia|]. intros a t'. now apply tape_int31n_range.
Qed.

(* the environment primitives always succeed *)
Lemma tot_e_innovs s (Q : list innovation -> st -> Prop) : Q (innovs (s_env s)) s -> tot Q (e_innovs s).
Proof. intros H. exact H. Qed.

Lemma tot_tape_len s (Q : nat -> st -> Prop) : Q (length (s_tape s)) s -> tot Q (tape_len s).
Proof. intros H. exact H. Qed.

(* counters do not matter to [sgood] *)
Lemma sgood_next_innov n s : sgood n s -> forall v s', e_next_innov s = Ok (v, s') -> sgood n s'.
Proof. intros G v s' H. unfold e_next_innov in H. injection H as _ <-. exact G. Qed.

Lemma sgood_next_node n s : sgood n s -> forall v s', e_next_node s = Ok (v, s') -> sgood n s'.
Proof. intros G v s' H. unfold e_next_node in H. injection H as _ <-. exact G. Qed.

Lemma sgood_store n s i : sgood n s -> 0 <= i_trait i < n -> forall u s', e_store i s = Ok (u, s') -> sgood n s'.
Proof.
  intros [G T] Hi u s' H. unfold e_store in H. injection H as _ <-. split; [|exact T].
  intros j Hj. cbn [s_env innovs] in Hj. apply in_app_or in Hj. destruct Hj as [Hj|[<-|[]]]; auto.
Qed.

Lemma tot_next_innov n s : sgood n s -> tot (fun _ s' => sgood n s') (e_next_innov s).
Proof. intros G. exact G. Qed.
Lemma tot_next_node n s : sgood n s -> tot (fun _ s' => sgood n s') (e_next_node s).
Proof. intros G. exact G. Qed.
Lemma tot_store n s i : sgood n s -> 0 <= i_trait i < n -> tot (fun _ s' => sgood n s') (e_store i s).
Proof. intros G Hi. unfold tot. destruct (e_store i s) as [[u s']| | | | |] eqn:E; try discriminate. eapply sgood_store; eauto. Qed.

(* ------------------------------------------------------------------------------------------ *)
(* 3. composition helpers                                                                       *)
(* ------------------------------------------------------------------------------------------ *)
Lemma bindM_lift_ok {A B} (r : res A) (f : A -> @M st B) a s : r = Ok a -> bindM (lift r) f s = f a s.
Proof. intros ->. reflexivity. Qed.

(* bind in a computation that only consumes tape *)
Lemma tot_bind_t {A B} (m : @M st A) (f : A -> @M st B) (Pv : A -> Prop) s :
  tot (fun a s1 => Pv a /\ tstep s s1) (m s) ->
  (forall a s1, m s = Ok (a, s1) -> Pv a -> tstep s s1 -> tot (fun _ s' => tstep s1 s') (f a s1)) ->
  tot (fun _ s' => tstep s s') (bindM m f s).
Proof.
  intros Hm Hf. eapply tot_bind; [exact Hm|]. intros a s1 E [Hv T]. cbv beta.
  eapply tot_mono; [exact (Hf a s1 E Hv T)|]. intros b s2 _ T2. cbv beta in T2. eapply tstep_trans; eauto.
Qed.

(* bind in a computation that maintains [sgood n], after a tape-only step *)
Lemma tot_bind_g n {A B} (m : @M st A) (f : A -> @M st B) (Pv : A -> Prop) s :
  sgood n s ->
  tot (fun a s1 => Pv a /\ tstep s s1) (m s) ->
  (forall a s1, m s = Ok (a, s1) -> Pv a -> sgood n s1 -> tot (fun _ s' => sgood n s') (f a s1)) ->
  tot (fun _ s' => sgood n s') (bindM m f s).
Proof.
  intros G Hm Hf. eapply tot_bind; [exact Hm|]. intros a s1 E [Hv T]. cbv beta.
  apply (Hf a s1 E Hv). eapply sgood_tstep; eauto.
Qed.

Lemma tot_t_g n {A} (r : res (A * st)) s : sgood n s -> tot (fun _ s' => tstep s s') r -> tot (fun _ s' => sgood n s') r.
Proof. intros G H. eapply tot_mono; [exact H|]. intros a s' _ T. cbv beta in T. eapply sgood_tstep; eauto. Qed.

Lemma tot_true_t {A} (r : res (A * st)) s :
  tot (fun _ s' => tstep s s') r -> tot (fun a s' => True /\ tstep s s') r.
Proof. intros H. eapply tot_mono; [exact H|]. cbv beta. auto. Qed.

(* computations that only consume tape and cannot fail *)
Definition tonly {A} (m : @M st A) : Prop := forall s, tot (fun _ s' => tstep s s') (m s).

Lemma tonly_ret {A} (a : A) : tonly (ret a).
Proof. intros s. apply tstep_refl. Qed.

Lemma tonly_bind {A B} (m : @M st A) (f : A -> @M st B) : tonly m -> (forall a, tonly (f a)) -> tonly (bindM m f).
Proof.
  intros Hm Hf s. apply (tot_bind_t m f (fun _ => True)); [apply tot_true_t, Hm|]. intros a s1 _ _ _. apply Hf.
Qed.

Lemma tonly_if {A} (c : bool) (m1 m2 : @M st A) : tonly m1 -> tonly m2 -> tonly (if c then m1 else m2).
Proof. now destruct c. Qed.

Lemma tonly_float64 : tonly r_float64. Proof. exact tot_float64. Qed.
Lemma tonly_float32 : tonly r_float32. Proof. exact tot_float32. Qed.
Lemma tonly_randsign : tonly r_randsign. Proof. exact tot_randsign. Qed.

Ltac tonly_step :=
  first [ apply tonly_ret | apply tonly_float64 | apply tonly_float32 | apply tonly_randsign | assumption
        | apply tonly_bind; [|intros ?]
        | apply tonly_if
        | match goal with |- tonly (let '(_, _) := ?x in _) => destruct x end ].
Ltac tonly := repeat tonly_step.

Lemma tonly_mapM {A B} (f : A -> @M st B) : (forall x, tonly (f x)) -> forall l, tonly (mapM f l).
Proof. intros Hf. induction l as [|x l IH]; cbn [mapM]; tonly. apply Hf. Qed.

(* ------------------------------------------------------------------------------------------ *)
(* 4. the non-structural mutators                                                               *)
(* ------------------------------------------------------------------------------------------ *)
Lemma tonly_mutate_param pw pr p : tonly (mutate_param pw pr p).
Proof. unfold mutate_param. tonly. Qed.

Lemma tonly_trait_mutate pw pr t : tonly (trait_mutate pw pr t).
Proof. unfold trait_mutate. tonly. apply tonly_mapM. intros x. apply tonly_mutate_param. Qed.

Lemma zlen_pos {A} (l : list A) : l <> [] -> 0 < zlen l.
Proof. unfold zlen. destruct l; [congruence|]. cbn [length]. lia. Qed.

Lemma zlen_set_nth {A} (l : list A) k y : zlen (set_nth l k y) = zlen l.
Proof. unfold zlen. now rewrite set_nth_length. Qed.

Lemma nonempty_set_nth {A} (l : list A) k y : l <> [] -> set_nth l k y <> [].
Proof. intros H E. apply (f_equal (@length A)) in E. rewrite set_nth_length in E. destruct l; [congruence|discriminate]. Qed.

(* mutateRandomTrait *)
Lemma tot_random_trait o g s : traits g <> [] -> tot (fun _ s' => tstep s s') (mutate_random_trait o g s).
Proof.
  intros Ht. unfold mutate_random_trait. destruct (traits g) as [|t0 ts] eqn:E; [congruence|].
  eapply tot_bind_t; [apply tot_intn, zlen_pos; discriminate|]. intros k s1 _ Hk _.
  destruct (idx_ok (t0 :: ts) k Hk) as (t & Et & _). rewrite (bindM_lift_ok _ _ _ _ Et).
  apply tonly_bind; [apply tonly_trait_mutate|]. intros t'. apply tonly_ret.
Qed.

(* mutateLinkTrait *)
Lemma tot_link_trait_loop times : forall g s, traits g <> [] -> genes g <> [] ->
  tot (fun _ s' => tstep s s') (mutate_link_trait_loop times g s).
Proof.
  induction times as [|n IH]; intros g s Ht Hg; cbn [mutate_link_trait_loop]; [apply tonly_ret|].
  eapply tot_bind_t; [apply tot_intn, zlen_pos, Ht|]. intros tn s1 _ Htn _.
  eapply tot_bind_t; [apply tot_intn, zlen_pos, Hg|]. intros gn s2 _ Hgn _.
  destruct (idx_ok (traits g) tn Htn) as (t & Et & _). rewrite (bindM_lift_ok _ _ _ _ Et).
  destruct (idx_ok (genes g) gn Hgn) as (x & Ex & _). rewrite (bindM_lift_ok _ _ _ _ Ex).
  apply IH; cbn [traits genes with_genes]; [exact Ht|now apply nonempty_set_nth].
Qed.

Lemma tot_link_trait times g s : traits g <> [] -> genes g <> [] ->
  tot (fun _ s' => tstep s s') (mutate_link_trait times g s).
Proof.
  intros Ht Hg. unfold mutate_link_trait. destruct (traits g) eqn:E1; [congruence|]. destruct (genes g) eqn:E2; [congruence|].
  eapply tot_bind_t; [apply tot_true_t, tot_link_trait_loop; congruence|]. intros g' s1 _ _ _. apply tonly_ret.
Qed.

(* mutateNodeTrait *)
Lemma tot_node_trait_loop times : forall g s, traits g <> [] -> nodes g <> [] ->
  tot (fun _ s' => tstep s s') (mutate_node_trait_loop times g s).
Proof.
  induction times as [|n IH]; intros g s Ht Hg; cbn [mutate_node_trait_loop]; [apply tonly_ret|].
  eapply tot_bind_t; [apply tot_intn, zlen_pos, Ht|]. intros tn s1 _ Htn _.
  eapply tot_bind_t; [apply tot_intn, zlen_pos, Hg|]. intros gn s2 _ Hgn _.
  destruct (idx_ok (traits g) tn Htn) as (t & Et & _). rewrite (bindM_lift_ok _ _ _ _ Et).
  destruct (idx_ok (nodes g) gn Hgn) as (x & Ex & _). rewrite (bindM_lift_ok _ _ _ _ Ex).
  apply IH; cbn [traits nodes with_nodes]; [exact Ht|now apply nonempty_set_nth].
Qed.

Lemma tot_node_trait times g s : traits g <> [] -> nodes g <> [] ->
  tot (fun _ s' => tstep s s') (mutate_node_trait times g s).
Proof.
  intros Ht Hg. unfold mutate_node_trait. destruct (traits g) eqn:E1; [congruence|]. destruct (nodes g) eqn:E2; [congruence|].
  eapply tot_bind_t; [apply tot_true_t, tot_node_trait_loop; congruence|]. intros g' s1 _ _ _. apply tonly_ret.
Qed.

(* mutateLinkWeights *)
Lemma tonly_one_weight pw rt ga sv c e n x : tonly (mutate_one_weight pw rt ga sv c e n x).
Proof. unfold mutate_one_weight. tonly. Qed.

Lemma tonly_weights_loop pw rt ga sv c e : forall l n, tonly (mutate_weights_loop pw rt ga sv c e n l).
Proof. induction l as [|x l IH]; intros n; cbn [mutate_weights_loop]; tonly; first [apply tonly_one_weight|apply IH]. Qed.

Lemma tot_link_weights pw rt ga g s : genes g <> [] -> tot (fun _ s' => tstep s s') (mutate_link_weights pw rt ga g s).
Proof.
  intros Hg. unfold mutate_link_weights. destruct (genes g) eqn:E; [congruence|]. revert s.
  change (tonly (let! r := r_float64 in
                 let severe := PrimFloat.ltb half r in
                 let count := f_of_Z (zlen (g0 :: l)) in
                 let end_part := PrimFloat.mul count 0x1.999999999999ap-1%float in
                 let! gs' := mutate_weights_loop pw rt ga severe count end_part 0%float (g0 :: l) in
                 ret (with_genes g gs', true))).
  tonly. cbv zeta. tonly. apply tonly_weights_loop.
Qed.

(* mutateToggleEnable *)
Lemma tot_toggle_loop times : forall g s, genes g <> [] -> tot (fun _ s' => tstep s s') (toggle_loop times g s).
Proof.
  induction times as [|n IH]; intros g s Hg; cbn [toggle_loop]; [apply tonly_ret|].
  eapply tot_bind_t; [apply tot_intn, zlen_pos, Hg|]. intros gn s1 _ Hgn _.
  destruct (idx_ok (genes g) gn Hgn) as (x & Ex & _). rewrite (bindM_lift_ok _ _ _ _ Ex). cbv zeta.
  apply IH. destruct (_ && _); [|exact Hg]. cbn [genes with_genes]. now apply nonempty_set_nth.
Qed.

Lemma tot_toggle_enable times g s : genes g <> [] -> tot (fun _ s' => tstep s s') (mutate_toggle_enable times g s).
Proof.
  intros Hg. unfold mutate_toggle_enable. destruct (genes g) eqn:E; [congruence|].
  eapply tot_bind_t; [apply tot_true_t, tot_toggle_loop; congruence|]. intros g' s1 _ _ _. apply tonly_ret.
Qed.

(* mutateGeneReEnable *)
Lemma tot_gene_reenable g s : genes g <> [] -> tot (fun _ s' => tstep s s') (mutate_gene_reenable g s).
Proof. intros Hg. unfold mutate_gene_reenable. destruct (genes g); [congruence|]. apply tonly_ret. Qed.

(* ------------------------------------------------------------------------------------------ *)
(* 5. mutateAllNonstructural: the genome stays well-formed along the cascade                    *)
(* ------------------------------------------------------------------------------------------ *)
Definition gpre (s : st) (g : genome) : Prop := wf g /\ env_ok (s_env s) g.

Lemma wf_traits_ne g : wf g -> traits g <> [].
Proof. intros W. exact (proj1 (wf_traits g W)). Qed.

Lemma wf_nodes_ne g : wf g -> nodes g <> [].
Proof. intros W. destruct (wf_output g W) as (n & Hn & _). intros E. rewrite E in Hn. destruct Hn. Qed.

Lemma tot_add_spec {A} (P Q : A -> st -> Prop) r :
  tot P r -> (forall a s', r = Ok (a, s') -> Q a s') -> tot (fun a s' => Q a s' /\ P a s') r.
Proof. intros H HQ. eapply tot_mono; [exact H|]. intros a s' E HP. split; auto. Qed.

(* the shape shared by the six parametric mutators *)
Definition nonstruct_tot (op : genome -> @M st (genome * bool)) : Prop :=
  forall g s, gpre s g -> tot (fun r s' => gpre s' (fst r) /\ tstep s s') (op g s).

Lemma nonstruct_of (op : genome -> @M st (genome * bool)) :
  (forall g s, wf g -> tot (fun _ s' => tstep s s') (op g s)) ->
  (forall g s g' b s', op g s = Ok ((g', b), s') -> wf g -> env_ok (s_env s) g -> op_ok g s g' s') ->
  nonstruct_tot op.
Proof.
  intros Ht Hw g s [W E]. apply tot_add_spec; [now apply Ht|]. intros [g' b] s' H.
  destruct (Hw _ _ _ _ _ H W E) as (W' & _ & E' & _). split; assumption.
Qed.

Lemma ns_random_trait o : nonstruct_tot (mutate_random_trait o).
Proof. apply nonstruct_of; [intros g s W; apply tot_random_trait, wf_traits_ne, W|apply mutate_random_trait_wf]. Qed.
Lemma ns_link_trait times : nonstruct_tot (mutate_link_trait times).
Proof.
  apply nonstruct_of; [intros g s W; apply tot_link_trait; [apply wf_traits_ne, W|apply (wf_nonempty g W)]|apply mutate_link_trait_wf].
Qed.
Lemma ns_node_trait times : nonstruct_tot (mutate_node_trait times).
Proof.
  apply nonstruct_of; [intros g s W; apply tot_node_trait; [apply wf_traits_ne, W|apply wf_nodes_ne, W]|apply mutate_node_trait_wf].
Qed.
Lemma ns_link_weights pw rt ga : nonstruct_tot (mutate_link_weights pw rt ga).
Proof. apply nonstruct_of; [intros g s W; apply tot_link_weights, (wf_nonempty g W)|apply mutate_link_weights_wf]. Qed.
Lemma ns_toggle_enable times : nonstruct_tot (mutate_toggle_enable times).
Proof. apply nonstruct_of; [intros g s W; apply tot_toggle_enable, (wf_nonempty g W)|apply mutate_toggle_enable_wf]. Qed.
Lemma ns_gene_reenable : nonstruct_tot mutate_gene_reenable.
Proof. apply nonstruct_of; [intros g s W; apply tot_gene_reenable, (wf_nonempty g W)|apply mutate_gene_reenable_wf]. Qed.

Lemma gpre_tstep s s' g : gpre s g -> tstep s s' -> gpre s' g.
Proof. intros [W E] [Ee _]. split; [exact W|now rewrite Ee]. Qed.

Lemma tot_step_if p op gb s : nonstruct_tot op -> gpre s (fst gb) ->
  tot (fun r s' => gpre s' (fst r) /\ tstep s s') (step_if p op gb s).
Proof.
  intros Hop G. unfold step_if.
  eapply tot_bind; [apply tot_float64|]. intros r s1 _ T. cbv beta in T. destruct (PrimFloat.ltb r p).
  - eapply tot_mono; [apply Hop; eapply gpre_tstep; eauto|]. intros a s' _ [G' T']. split; [exact G'|eapply tstep_trans; eauto].
  - apply tot_ret. split; [eapply gpre_tstep; eauto|exact T].
Qed.

Lemma tot_bind_gpre {A} (m : @M st (genome * bool)) (f : genome * bool -> @M st A) (Q : A -> st -> Prop) s :
  tot (fun r s1 => gpre s1 (fst r) /\ tstep s s1) (m s) ->
  (forall r s1, gpre s1 (fst r) -> tstep s s1 -> tot (fun a s' => Q a s' /\ tstep s1 s') (f r s1)) ->
  tot (fun a s' => Q a s' /\ tstep s s') (bindM m f s).
Proof.
  intros Hm Hf. eapply tot_bind; [exact Hm|]. intros r s1 _ [G T]. cbv beta.
  eapply tot_mono; [exact (Hf r s1 G T)|]. intros a s' _ [HQ T']. split; [exact HQ|eapply tstep_trans; eauto].
Qed.

Theorem tot_all_nonstructural o g s : gpre s g ->
  tot (fun r s' => gpre s' (fst r) /\ tstep s s') (mutate_all_nonstructural o g s).
Proof.
  intros G. unfold mutate_all_nonstructural.
  eapply tot_bind_gpre; [apply tot_step_if; [apply ns_random_trait|exact G]|]. intros a s1 Ga _.
  eapply tot_bind_gpre; [apply tot_step_if; [apply ns_link_trait|exact Ga]|]. intros b s2 Gb _.
  eapply tot_bind_gpre; [apply tot_step_if; [apply ns_node_trait|exact Gb]|]. intros c s3 Gc _.
  eapply tot_bind_gpre; [apply tot_step_if; [apply ns_link_weights|exact Gc]|]. intros d s4 Gd _.
  eapply tot_bind_gpre; [apply tot_step_if; [apply ns_toggle_enable|exact Gd]|]. intros e s5 Ge _.
  apply tot_step_if; [apply ns_gene_reenable|exact Ge].
Qed.

(* ------------------------------------------------------------------------------------------ *)
(* 6. shared by the structural mutators                                                         *)
(* ------------------------------------------------------------------------------------------ *)
Lemma trait_at_ok g k : 0 <= k < zlen (traits g) -> exists r, trait_at g k = Ok r.
Proof. intros Hk. unfold trait_at. destruct (idx_ok (traits g) k Hk) as (t & -> & _). cbn [bind]. eauto. Qed.

Lemma find_link_innov_In : forall l i o rc inn, find_link_innov l i o rc = Some inn -> In inn l.
Proof.
  induction l as [|x l IH]; intros i o rc inn H; cbn [find_link_innov] in H; [discriminate|].
  destruct (_ && _); [injection H as <-; now left|right; eauto].
Qed.

Lemma find_node_innov_In : forall l i o old inn, find_node_innov l i o old = Some inn -> In inn l.
Proof.
  induction l as [|x l IH]; intros i o old inn H; cbn [find_node_innov] in H; [discriminate|].
  destruct (_ && _); [injection H as <-; now left|right; eauto].
Qed.

Lemma bindM_e_innovs {B} (f : list innovation -> @M st B) s : bindM e_innovs f s = f (innovs (s_env s)) s.
Proof. reflexivity. Qed.
Lemma bindM_tape_len {B} (f : nat -> @M st B) s : bindM tape_len f s = f (length (s_tape s)) s.
Proof. reflexivity. Qed.
Lemma bindM_ret {A B} (a : A) (f : A -> @M st B) s : bindM (ret a) f s = f a s.
Proof. reflexivity. Qed.

(* ------------------------------------------------------------------------------------------ *)
(* 7. mutateConnectSensors                                                                      *)
(* ------------------------------------------------------------------------------------------ *)
Lemma tot_connect_one n sensor g added stop out s :
  0 < n -> zlen (traits g) = n -> sgood n s ->
  tot (fun r s' => zlen (traits (fst (fst r))) = n /\ sgood n s') (connect_one sensor (g, added, stop) out s).
Proof.
  intros Hn Ht G. unfold connect_one. destruct stop; [apply tot_ret; auto|].
  destruct (existsb _ _); [apply tot_ret; auto|]. rewrite bindM_e_innovs.
  destruct (find_link_innov _ _ _ _) as [inn|] eqn:Ef.
  - apply find_link_innov_In in Ef. destruct (trait_at_ok g (i_trait inn)) as [tr Etr]; [rewrite Ht; now apply (proj1 G)|].
    rewrite (bindM_lift_ok _ _ _ _ Etr). destruct (have_gene _ _); apply tot_ret; auto.
  - eapply tot_bind; [apply (tot_intn (zlen (traits g))); lia|]. intros tn s1 _ [Htn T1]. cbv beta.
    pose proof (sgood_tstep _ _ _ G T1) as G1.
    eapply tot_bind; [apply tot_randsign|]. intros sg s2 _ T2. cbv beta in T2. pose proof (sgood_tstep _ _ _ G1 T2) as G2.
    eapply tot_bind; [apply tot_float64|]. intros f s3 _ T3. cbv beta in T3. pose proof (sgood_tstep _ _ _ G2 T3) as G3. cbv zeta.
    eapply tot_bind; [apply (tot_next_innov n), G3|]. intros num s4 _ G4. cbv beta in G4.
    destruct (trait_at_ok g tn Htn) as [tr Etr]. rewrite (bindM_lift_ok _ _ _ _ Etr).
    eapply tot_bind; [apply (tot_store n); [exact G4|cbn [i_trait link_innovation]; lia]|]. intros u s5 _ G5. cbv beta in G5.
    apply tot_ret. auto.
Qed.

Lemma tot_connect_fold n sensor : forall outs acc s,
  0 < n -> zlen (traits (fst (fst acc))) = n -> sgood n s ->
  tot (fun r s' => zlen (traits (fst (fst r))) = n /\ sgood n s') (foldM (connect_one sensor) outs acc s).
Proof.
  induction outs as [|out outs IH]; intros acc s Hn Ht G; cbn [foldM]; [apply tot_ret; auto|].
  destruct acc as [[g added] stop]. cbn [fst] in Ht.
  eapply tot_bind; [apply tot_connect_one; eauto|]. intros acc' s1 _ [Ht1 G1]. now apply IH.
Qed.

Theorem tot_connect_sensors n g s :
  wf g -> zlen (traits g) = n -> sgood n s -> tot (fun _ s' => sgood n s') (mutate_connect_sensors g s).
Proof.
  intros W Ht G. pose proof (zlen_pos _ (wf_traits_ne g W)) as Hn. rewrite Ht in Hn.
  unfold mutate_connect_sensors. destruct (genes g) eqn:Eg; [destruct (wf_nonempty g W Eg)|]. rewrite <- Eg. cbv zeta.
  match goal with |- context [match ?d with [] => _ | _ :: _ => _ end] => set (dis := d) end.
  destruct dis as [|d0 dl] eqn:Ed; [apply tot_ret, G|].
  eapply tot_bind_g; [exact G|apply tot_intn, zlen_pos; discriminate|]. intros k s1 _ Hk G1.
  destruct (idx_ok (d0 :: dl) k Hk) as (sn & Es & _). rewrite (bindM_lift_ok _ _ _ _ Es).
  eapply tot_bind; [apply (tot_connect_fold n); [exact Hn|exact Ht|exact G1]|]. intros [[g' added] stop] s2 _ [_ G2].
  apply tot_ret. exact G2.
Qed.

(* ------------------------------------------------------------------------------------------ *)
(* 8. mutateAddLink                                                                             *)
(* ------------------------------------------------------------------------------------------ *)
(* firstNonSensor: the length of the leading run of sensors *)
Fixpoint lead (l : list node) : Z :=
  match l with [] => 0 | x :: l' => if is_sensor x then 1 + lead l' else 0 end.

Lemma zlen_cons {A} (x : A) l : zlen (x :: l) = 1 + zlen l.
Proof. unfold zlen. cbn [length]. lia. Qed.

Lemma lead_range l : 0 <= lead l <= zlen l.
Proof.
  induction l as [|x l IH]; [unfold zlen; cbn; lia|]. cbn [lead]. rewrite zlen_cons.
  destruct (is_sensor x); lia.
Qed.

(* rand.Intn(nodesLen - firstNonSensor) cannot panic: some node is not a sensor *)
Lemma lead_lt l : (exists n, In n l /\ is_sensor n = false) -> lead l < zlen l.
Proof.
  induction l as [|x l IH]; intros (n & Hn & Hs); [destruct Hn|]. cbn [lead]. rewrite zlen_cons.
  destruct (is_sensor x) eqn:Ex.
  - destruct Hn as [->|Hn]; [congruence|]. assert (lead l < zlen l) by (apply IH; eauto). lia.
  - pose proof (lead_range l). lia.
Qed.

Lemma wf_lead g : wf g -> 0 <= lead (nodes g) < zlen (nodes g).
Proof.
  intros W. split; [apply lead_range|]. apply lead_lt. destruct (wf_output g W) as (n & Hn & Ho).
  exists n. split; [exact Hn|]. unfold is_sensor. rewrite Ho. reflexivity.
Qed.

Lemma tot_bind_tv {A B} (m : @M st A) (f : A -> @M st B) (Pv : A -> Prop) (Qv : B -> Prop) s :
  tot (fun a s1 => Pv a /\ tstep s s1) (m s) ->
  (forall a s1, m s = Ok (a, s1) -> Pv a -> tstep s s1 -> tot (fun b s' => Qv b /\ tstep s1 s') (f a s1)) ->
  tot (fun b s' => Qv b /\ tstep s s') (bindM m f s).
Proof.
  intros Hm Hf. eapply tot_bind; [exact Hm|]. intros a s1 E [Hv T]. cbv beta.
  eapply tot_mono; [exact (Hf a s1 E Hv T)|]. intros b s2 _ [HQ T2]. split; [exact HQ|eapply tstep_trans; eauto].
Qed.

Definition pair_ok (n : Z) (distinct : bool) (ab : Z * Z) : Prop :=
  0 <= fst ab < n /\ 0 <= snd ab < n /\ (distinct = true -> fst ab <> snd ab).

Lemma tot_pick_distinct n first : 0 <= first < n -> forall fuel s,
  tot (fun ab s' => pair_ok n true ab /\ tstep s s') (pick_distinct fuel n first s).
Proof.
  intros Hf. induction fuel as [|fuel IH]; intros s; cbn [pick_distinct]; [exact I|].
  eapply tot_bind_tv; [apply tot_intn; lia|]. intros a s1 _ Ha _.
  eapply tot_bind_tv; [apply (tot_intn (n - first)); lia|]. intros b0 s2 _ Hb _. cbv zeta. cbv beta in Ha, Hb.
  destruct (Z.eqb_spec a (first + b0)) as [E|NE]; [apply IH|].
  apply tot_ret. split; [|apply tstep_refl]. unfold pair_ok. cbn [fst snd]. repeat split; auto; lia.
Qed.

Lemma tot_pick_pair dr n first s : 0 <= first < n ->
  tot (fun ab s' => pair_ok n (negb dr) ab /\ tstep s s') (pick_pair dr n first s).
Proof.
  intros Hf. unfold pick_pair. rewrite bindM_tape_len.
  assert (D : forall s0, tot (fun ab s' => pair_ok n (negb dr) ab /\ tstep s0 s') (pick_distinct (length (s_tape s)) n first s0)).
  { intros s0. eapply tot_mono; [apply tot_pick_distinct, Hf|]. intros ab s' _ [(A & B & C) T].
    split; [|exact T]. repeat split; auto; tauto. }
  destruct dr; [|apply D].
  eapply tot_bind_tv; [apply tot_true_t, tot_float64|]. intros r s1 _ _ _.
  destruct (PrimFloat.ltb half r); [|apply D].
  eapply tot_bind_tv; [apply (tot_intn (n - first)); lia|]. intros a0 s2 _ Ha _. cbv beta in Ha.
  apply tot_ret. split; [|apply tstep_refl]. unfold pair_ok. cbn [fst snd negb]. repeat split; try lia; try discriminate.
Qed.

(* a pair of nodes the try loop reports as found sits at two positions of the node list, distinct
   positions unless a recurrent link was asked for *)
Definition found_ok (g : genome) (dr : bool) (pr : option (node * node) * bool) : Prop :=
  forall n1 n2, pr = (Some (n1, n2), true) ->
    exists a b, nth_error (nodes g) a = Some n1 /\ nth_error (nodes g) b = Some n2 /\ (dr = false -> a <> b).

Lemma tot_add_link_tries dr g first : 0 <= first < zlen (nodes g) -> forall tries lp s,
  tot (fun pr s' => found_ok g dr pr /\ tstep s s') (add_link_tries tries dr g (zlen (nodes g)) first lp s).
Proof.
  intros Hf. induction tries as [|k IH]; intros lp s; cbn [add_link_tries].
  - apply tot_ret. split; [|apply tstep_refl]. intros n1 n2 H. discriminate.
  - eapply tot_bind_tv; [apply tot_pick_pair, Hf|]. intros [a b] s1 _ (Ha & Hb & Hd) _. cbn [fst snd] in Ha, Hb, Hd.
    destruct (idx_ok (nodes g) a Ha) as (n1 & E1 & N1). rewrite (bindM_lift_ok _ _ _ _ E1).
    destruct (idx_ok (nodes g) b Hb) as (n2 & E2 & N2). rewrite (bindM_lift_ok _ _ _ _ E2). cbv zeta.
    match goal with |- context [if ?c then add_link_tries _ _ _ _ _ _ else _] => destruct c end; [apply IH|].
    destruct (is_recurrent _ _ _ _ _ _) as [rf c]. destruct (Bool.eqb rf dr); [|apply IH].
    apply tot_ret. split; [|apply tstep_refl]. intros m1 m2 H. injection H as <- <-.
    exists (Z.to_nat a), (Z.to_nat b). repeat split; auto. intros ->. cbn [negb] in Hd. specialize (Hd eq_refl). lia.
Qed.

Lemma genesis_check_wf g : wf g -> genesis_check g = Ok tt.
Proof.
  intros W. unfold genesis_check. destruct (genes g) eqn:E; [destruct (wf_nonempty g W E)|].
  destruct (wf_output g W) as (n & Hn & Ho).
  replace (existsb _ (nodes g)) with true; [reflexivity|]. symmetry. apply existsb_exists. exists n.
  split; [exact Hn|]. rewrite Ho. reflexivity.
Qed.

Lemma nodup_nth_ids (l : list node) a b n1 n2 :
  NoDup (map n_id l) -> nth_error l a = Some n1 -> nth_error l b = Some n2 -> a <> b -> n_id n1 <> n_id n2.
Proof.
  intros Hn Ha Hb Hab E. apply Hab. apply (proj1 (NoDup_nth_error (map n_id l)) Hn).
  - rewrite map_length. apply nth_error_Some. congruence.
  - rewrite (map_nth_error n_id _ _ Ha), (map_nth_error n_id _ _ Hb). now rewrite E.
Qed.

Theorem tot_add_link n o g s :
  wf g -> zlen (traits g) = n -> sgood n s -> tot (fun _ s' => sgood n s') (mutate_add_link o g s).
Proof.
  intros W Ht G. pose proof (zlen_pos _ (wf_traits_ne g W)) as Hn. rewrite Ht in Hn.
  unfold mutate_add_link. rewrite (genesis_check_wf g W). cbv zeta.
  eapply tot_bind_g; [exact G|apply tot_true_t, tot_float64|]. intros r s1 _ _ G1.
  set (dr := PrimFloat.ltb r (o_recur_only o)). clearbody dr.
  change ((fix lead (l : list node) : Z := match l with [] => 0 | x :: l' => if is_sensor x then 1 + lead l' else 0 end) (nodes g))
    with (lead (nodes g)).
  eapply tot_bind_g; [exact G1|apply tot_add_link_tries, wf_lead, W|]. intros pr s2 _ Hfound G2.
  destruct pr as [[[n1 n2]|] [|]]; try (apply tot_ret; exact G2).
  destruct (Hfound n1 n2 eq_refl) as (a & b & Na & Nb & Hab).
  assert (Hc : Z.eqb (n_id n1) (n_id n2) && negb dr = false).
  { destruct dr; [apply andb_false_r|]. cbn [negb]. rewrite andb_true_r. apply Z.eqb_neq.
    eapply nodup_nth_ids; eauto. apply asc_NoDup. exact (wf_nodes g W). }
  rewrite bindM_e_innovs. destruct (find_link_innov _ _ _ _) as [inn|] eqn:Ef.
  - apply find_link_innov_In in Ef. destruct (trait_at_ok g (i_trait inn)) as [tr Etr]; [rewrite Ht; now apply (proj1 G2)|].
    rewrite (bindM_lift_ok _ _ _ _ Etr). cbv zeta. destruct (have_gene _ _); [apply tot_ret, G2|].
    cbn [g_in g_out mk_gene]. rewrite Hc. apply tot_ret, G2.
  - eapply tot_bind_g; [exact G2|apply (tot_intn (zlen (traits g))); lia|]. intros tn s3 _ Htn G3. cbv beta in Htn.
    eapply tot_bind_g; [exact G3|apply tot_true_t, tot_randsign|]. intros sg s4 _ _ G4.
    eapply tot_bind_g; [exact G4|apply tot_true_t, tot_float64|]. intros f s5 _ _ G5. cbv zeta.
    eapply tot_bind; [apply (tot_next_innov n), G5|]. intros num s6 _ G6. cbv beta in G6.
    destruct (trait_at_ok g tn Htn) as [tr Etr]. rewrite (bindM_lift_ok _ _ _ _ Etr).
    eapply tot_bind; [apply (tot_store n); [exact G6|cbn [i_trait link_innovation]; lia]|]. intros u s7 _ G7. cbv beta in G7.
    cbn [g_in g_out mk_gene]. rewrite Hc. apply tot_ret, G7.
Qed.

(* ------------------------------------------------------------------------------------------ *)
(* 9. mutateAddNode                                                                             *)
(* ------------------------------------------------------------------------------------------ *)
(* Options.RandomNodeActivationType cannot fail on genuine draws (EpochTotalFloat.random_activation_safe
   derives it from [acts_ok]) *)
Definition act_safe (o : options) : Prop := forall t, tape_ok t -> tape_safe (tape_random_activation o t).

Lemma in_is_bias_ok g x : endpoints_ok g -> In x (genes g) -> exists b, in_is_bias g x = Ok b.
Proof. intros He Hx. destruct (He x Hx) as (a & _ & Ea & _). unfold in_is_bias. rewrite Ea. eauto. Qed.

Lemma tot_pick_small g : endpoints_ok g -> forall l i s, incl l (genes g) ->
  tot (fun r s' => (forall k, r = Some k -> (i <= k < i + length l)%nat) /\ tstep s s') (pick_gene_small g l i s).
Proof.
  intros He. induction l as [|x l IH]; intros i s Hl; cbn [pick_gene_small].
  - apply tot_ret. split; [discriminate|apply tstep_refl].
  - assert (Hl' : incl l (genes g)) by (intros y Hy; apply Hl; now right).
    assert (Next : forall s0, tot (fun r s' => (forall k, r = Some k -> (i <= k < i + length (x :: l))%nat) /\ tstep s0 s')
                                  (pick_gene_small g l (S i) s0)).
    { intros s0. eapply tot_mono; [apply IH, Hl'|]. intros r s' _ [Hr T]. split; [|exact T].
      intros k Hk. specialize (Hr k Hk). cbn [length]. lia. }
    destruct (g_en x); [|apply Next].
    destruct (in_is_bias_ok g x He (Hl x (or_introl eq_refl))) as [b Eb]. rewrite (bindM_lift_ok _ _ _ _ Eb).
    destruct b; [apply Next|].
    eapply tot_bind_tv; [apply tot_true_t, tot_float32|]. intros r s1 _ _ _.
    destruct (PrimFloat.leb f32_03 r); [|apply Next].
    apply tot_ret. split; [|apply tstep_refl]. intros k H. injection H as <-. cbn [length]. lia.
Qed.

Lemma tot_pick_big g : endpoints_ok g -> genes g <> [] -> forall tries s,
  tot (fun r s' => (forall k, r = Some k -> (k < length (genes g))%nat) /\ tstep s s') (pick_gene_big tries g s).
Proof.
  intros He Hg. induction tries as [|k IH]; intros s; cbn [pick_gene_big].
  - apply tot_ret. split; [discriminate|apply tstep_refl].
  - eapply tot_bind_tv; [apply tot_intn, zlen_pos, Hg|]. intros gn s1 _ Hgn _. cbv beta in Hgn.
    destruct (idx_ok (genes g) gn Hgn) as (x & Ex & Nx). rewrite (bindM_lift_ok _ _ _ _ Ex).
    assert (Hx : In x (genes g)) by (eapply nth_error_In; eauto).
    assert (Fin : forall bias, tot (fun r s' => (forall k0, r = Some k0 -> (k0 < length (genes g))%nat) /\ tstep s1 s')
                   ((if g_en x && negb bias then ret (Some (Z.to_nat gn)) else pick_gene_big k g) s1)).
    { intros bias. destruct (_ && _); [|apply IH]. apply tot_ret. split; [|apply tstep_refl].
      intros k0 H. injection H as <-. unfold zlen in Hgn. lia. }
    destruct (g_en x) eqn:En.
    + destruct (in_is_bias_ok g x He Hx) as [b Eb]. rewrite (bindM_lift_ok _ _ _ _ Eb). apply Fin.
    + rewrite bindM_ret. apply Fin.
Qed.

Theorem tot_add_node n o g s :
  wf g -> zlen (traits g) = n -> act_safe o -> sgood n s -> tot (fun _ s' => sgood n s') (mutate_add_node o g s).
Proof.
  intros W Ht HA G. pose proof (zlen_pos _ (wf_traits_ne g W)) as Hn. rewrite Ht in Hn.
  unfold mutate_add_node. destruct (genes g) as [|x0 gl] eqn:Eg; [apply tot_ret, G|]. rewrite <- Eg.
  assert (Hg : genes g <> []) by (rewrite Eg; discriminate).
  eapply tot_bind_g with (Pv := fun r => forall k, r = Some k -> (k < length (genes g))%nat); [exact G| |].
  { destruct (Z.ltb _ 15).
    - eapply tot_mono; [apply (tot_pick_small g (wf_endpoints g W) (genes g) O s), incl_refl|].
      intros r s' _ [Hr T]. split; [|exact T]. intros k Hk. specialize (Hr k Hk). lia.
    - apply tot_pick_big; [exact (wf_endpoints g W)|exact Hg]. }
  intros pick s1 _ Hp G1. destruct pick as [k|]; [|apply tot_ret, G1].
  destruct (nth_res_ok (genes g) k (Hp k eq_refl)) as (x & Ex & _). rewrite (bindM_lift_ok _ _ _ _ Ex). cbv zeta.
  rewrite bindM_e_innovs.
  set (g1 := with_genes g (set_nth (genes g) k (set_en false x))).
  assert (Et0 : exists tr0, trait_at g1 0 = Ok tr0) by (apply trait_at_ok; cbn [g1 traits with_genes]; lia).
  destruct Et0 as [tr0 Et0].
  destruct (find_node_innov _ _ _ _) as [inn|].
  - rewrite (bindM_lift_ok _ _ _ _ Et0). cbv zeta. destruct (have_node _ _); apply tot_ret, G1.
  - eapply tot_bind; [apply (tot_next_node n), G1|]. intros nid s2 _ G2. cbv beta in G2.
    rewrite (bindM_lift_ok _ _ _ _ Et0).
    eapply tot_bind_g; [exact G2| |].
    { apply (tot_on_tape (tape_random_activation o) (fun _ => True)); [apply rl_random_activation|apply HA, (proj2 G2)|auto]. }
    intros act s3 _ _ G3. cbv zeta.
    eapply tot_bind; [apply (tot_next_innov n), G3|]. intros num1 s4 _ G4. cbv beta in G4.
    eapply tot_bind; [apply (tot_next_innov n), G4|]. intros num2 s5 _ G5. cbv beta in G5.
    eapply tot_bind; [apply (tot_store n); [exact G5|cbn [i_trait]; lia]|]. intros u s6 _ G6. cbv beta in G6.
    apply tot_ret, G6.
Qed.

(* ------------------------------------------------------------------------------------------ *)
(* 10. Genome.duplicate                                                                         *)
(* ------------------------------------------------------------------------------------------ *)
Theorem duplicate_total g id : wf g -> exists g', duplicate g id = Ok g'.
Proof. intros W. rewrite (duplicate_wf g id W). eauto. Qed.
