(* C14, second part: range of the result, semantics of the cap, repeated queries. *)
From NeatModel Require Import Res Depth DepthSpec.
From Coq Require Import Lia.

(* ---------- range: 0 <= r <= |nodes| on any graph, with or without cap ---------- *)

(* what a call at depth d with marks vis returns: a depth within [d, B] or the cap with the error *)
Definition in_range (cap lo B : Z) (Q : Prop) (c : Z) (e : derr) : Prop :=
  (e = NoErr -> lo <= c <= B) /\ (e <> NoErr -> e = ErrDepthExceeded /\ c = cap /\ Q).

Lemma loop_range : forall rec self cap d1 B Q vis0, rec_marks rec ->
  (forall i c e v', ~ In i vis0 -> rec i vis0 = Ok (c, e, v') -> in_range cap d1 B Q c e) ->
  forall ins mx r e vis',
    mx <= B ->
    depth_loop rec self ins mx vis0 = Ok (r, e, vis') -> in_range cap mx B Q r e.
Proof.
  intros rec self cap d1 B Q vis0 Hm Hr. induction ins as [|i ins IH]; simpl; intros mx r e vis' HB H.
  - inversion H; subst. split; [intros _; lia | intros Hne; congruence].
  - destruct (mem i vis0) eqn:Em; [eauto|].
    apply mem_false in Em.
    destruct (rec i vis0) as [[[c0 e0] v0]| | | | |] eqn:Er; try discriminate.
    assert (v0 = vis0) by (eapply Hm; eauto). subst v0.
    destruct (Hr _ _ _ _ Em Er) as [Hok Herr].
    destruct e0.
    + specialize (Hok eq_refl). pose proof (max_step_ge mx c0) as [Hg1 Hg2].
      assert (HB' : (if mx <? c0 then c0 else mx) <= B)
        by (destruct (max_step_cases mx c0) as [E|E]; rewrite E; lia).
      destruct (IH _ _ _ _ HB' H) as [Hok' Herr']. split; [|assumption].
      intros He. specialize (Hok' He). lia.
    + inversion H; subst. split; [discriminate|]. intros _. apply Herr. discriminate.
    + inversion H; subst. split; [discriminate|]. intros _. apply Herr. discriminate.
Qed.

Lemma depth_range_core : forall g cap f id d vis r e vis',
    NoDup vis -> incl vis (ids g) -> ~ In id vis ->
    depth g f cap id d vis = Ok (r, e, vis') ->
    in_range cap d (d + len (ids g) - len vis - 1) (0 < cap < d + len (ids g) - len vis) r e.
Proof.
  intros g cap. induction f as [|f IH]; simpl; intros id d vis r e vis' Hnd Hincl Hn H; [discriminate|].
  pose proof (NoDup_incl_length Hnd Hincl) as Hlen.
  destruct ((0 <? cap) && (cap <? d)) eqn:Ec.
  - inversion H; subst. apply andb_true_iff in Ec. destruct Ec as [E1 E2].
    apply Z.ltb_lt in E1. apply Z.ltb_lt in E2.
    split; [discriminate|]. intros _. unfold len. repeat split; lia.
  - destruct (type_of (n_nodes g) id) as [t|] eqn:Et; [|discriminate].
    apply type_of_In in Et. fold (ids g) in Et.
    assert (Hlen2 : (length (id :: vis) <= length (ids g))%nat).
    { apply NoDup_incl_length; [now constructor|]. intros x [Hx|Hx]; [now subst x | auto]. }
    simpl in Hlen2.
    destruct (is_sensor t).
    + inversion H; subst. split; [intros _; unfold len; lia | intros Hne; congruence].
    + eapply loop_range with (d1 := d + 1) in H.
      * exact H.
      * apply rec_marks_depth.
      * intros i c0 e0 v' Hi Hr.
        assert (Hx := IH i (d + 1) (id :: vis) c0 e0 v').
        assert (Hl : len (id :: vis) = len vis + 1) by (unfold len; simpl length; lia).
        rewrite Hl in Hx.
        destruct Hx as [Hok Herr]; auto.
        { now constructor. }
        { intros x [Hx|Hx]; [now subst x | auto]. }
        split.
        -- intros He. specialize (Hok He). lia.
        -- intros He. destruct (Herr He) as (X1 & X2 & X3). repeat split; auto; lia.
      * unfold len. lia.
Qed.

Lemma out_loop_range : forall rec cap N Q, rec_marks rec ->
  (forall o c e v', rec o [] = Ok (c, e, v') -> in_range cap 0 N Q c e) ->
  forall outs mx r e vis',
    mx <= N ->
    out_loop rec outs mx [] = Ok (r, e, vis') -> in_range cap mx N Q r e.
Proof.
  intros rec cap N Q Hm Hr. induction outs as [|o outs IH]; simpl; intros mx r e vis' HB H.
  - inversion H; subst. split; [intros _; lia | intros Hne; congruence].
  - destruct (rec o []) as [[[c0 e0] v0]| | | | |] eqn:Er; try discriminate.
    assert (v0 = []) by (eapply Hm; eauto; intros []). subst v0.
    destruct (Hr _ _ _ _ Er) as [Hok Herr].
    destruct e0.
    + specialize (Hok eq_refl). pose proof (max_step_ge mx c0) as [Hg1 Hg2].
      assert (HB' : (if mx <? c0 then c0 else mx) <= N)
        by (destruct (max_step_cases mx c0) as [E|E]; rewrite E; lia).
      destruct (IH _ _ _ _ HB' H) as [Hok' Herr']. split; [|assumption].
      intros He. specialize (Hok' He). lia.
    + inversion H; subst. split; [discriminate|]. intros _. apply Herr. discriminate.
    + inversion H; subst. split; [discriminate|]. intros _. apply Herr. discriminate.
Qed.

Lemma len_ids : forall g, len (ids g) = len (n_nodes g).
Proof. intros g. unfold len, ids. now rewrite map_length. Qed.

(* any graph, any cap: a depth between 0 and |nodes|; an error can only be the cap error, then the
   value is the cap, and the cap is positive and smaller than the number of nodes *)
Lemma max_depth_cap_range : forall g cap r e vis',
    n_control g = 0 -> n_nodes g <> [] ->
    max_depth_cap g cap [] = Ok (r, e, vis') ->
    0 <= r <= len (n_nodes g) /\
    (e <> NoErr -> e = ErrDepthExceeded /\ r = cap /\ 0 < cap < len (n_nodes g)).
Proof.
  intros g cap r e vis' Hctl Hne H. unfold max_depth_cap in H.
  destruct (0 <? n_control g) eqn:E1; [rewrite Hctl in E1; discriminate|].
  assert (Hpos : 1 <= len (n_nodes g)).
  { unfold len. destruct (n_nodes g); [congruence | simpl length; lia]. }
  destruct ((len (n_nodes g) =? len (n_inputs g) + len (n_outputs g)) && (n_control g =? 0)).
  - inversion H; subst. split; [lia | congruence].
  - eapply out_loop_range with (cap := cap) (N := len (n_nodes g)) (Q := 0 < cap < len (n_nodes g)) in H.
    + destruct H as [Hok Herr]. split.
      * destruct e.
        -- specialize (Hok eq_refl). lia.
        -- assert (Hx : ErrDepthExceeded <> NoErr) by discriminate.
           destruct (Herr Hx) as (_ & E & Hc). lia.
        -- assert (Hx : ErrModular <> NoErr) by discriminate.
           destruct (Herr Hx) as (_ & E & Hc). lia.
      * assumption.
    + apply rec_marks_depth.
    + intros o c0 e0 v' Hr. apply depth_range_core in Hr.
      * rewrite len_ids in Hr. unfold len in Hr at 2 4. simpl in Hr.
        destruct Hr as [Hok Herr]. split.
        -- intros He. specialize (Hok He). lia.
        -- intros He. destruct (Herr He) as (X1 & X2 & X3). repeat split; auto; lia.
      * constructor.
      * intros x [].
      * intros [].
    + lia.
Qed.

(* ---------- the cap: same answer below it, (cap, error) above it ---------- *)

Definition capped (cap r : Z) (v : list Z) : res dres :=
  if r <=? cap then Ok (r, NoErr, v) else Ok (cap, ErrDepthExceeded, v).

Lemma loop_ge : forall rec self ins mx vis r e vis',
    depth_loop rec self ins mx vis = Ok (r, e, vis') -> e = NoErr -> mx <= r.
Proof.
  intros rec self. induction ins as [|i ins IH]; simpl; intros mx vis r e vis' H He.
  - inversion H; subst. lia.
  - destruct (mem i vis); [eauto|].
    destruct (rec i vis) as [[[c0 e0] v0]| | | | |]; try discriminate.
    destruct e0; [|inversion H; subst; discriminate|inversion H; subst; discriminate].
    pose proof (max_step_ge mx c0) as [Hg _]. specialize (IH _ _ _ _ _ H He). lia.
Qed.

Lemma out_loop_ge : forall rec outs mx vis r e vis',
    out_loop rec outs mx vis = Ok (r, e, vis') -> e = NoErr -> mx <= r.
Proof.
  intros rec. induction outs as [|o outs IH]; simpl; intros mx vis r e vis' H He.
  - inversion H; subst. lia.
  - destruct (rec o vis) as [[[c0 e0] v0]| | | | |]; try discriminate.
    destruct e0; [|inversion H; subst; discriminate|inversion H; subst; discriminate].
    pose proof (max_step_ge mx c0) as [Hg _]. specialize (IH _ _ _ _ _ H He). lia.
Qed.

(* rec0: the uncapped recursive call, rec1: the capped one *)
Definition rec_cap (rec0 rec1 : Z -> list Z -> res dres) (cap d1 : Z) (vis0 : list Z) : Prop :=
  forall i c v, ~ In i vis0 -> rec0 i vis0 = Ok (c, NoErr, v) ->
    d1 <= c /\ rec1 i vis0 = capped cap c v.

Lemma loop_cap : forall rec0 rec1 self cap d1 vis0, rec_marks rec0 -> rec_cap rec0 rec1 cap d1 vis0 ->
  forall ins mx r v,
    mx <= cap ->
    depth_loop rec0 self ins mx vis0 = Ok (r, NoErr, v) ->
    depth_loop rec1 self ins mx vis0 = capped cap r v.
Proof.
  intros rec0 rec1 self cap d1 vis0 Hm Hc. induction ins as [|i ins IH]; simpl; intros mx r v Hmx H.
  - inversion H; subst. unfold capped. destruct (r <=? cap) eqn:E; [reflexivity|].
    apply Z.leb_gt in E. lia.
  - destruct (mem i vis0) eqn:Em; [eauto|].
    apply mem_false in Em.
    destruct (rec0 i vis0) as [[[c0 e0] v0]| | | | |] eqn:Er; try discriminate.
    destruct e0; [|inversion H|inversion H].
    assert (v0 = vis0) by (eapply Hm; eauto). subst v0.
    destruct (Hc _ _ _ Em Er) as [Hd1 Hr1]. rewrite Hr1. unfold capped at 1.
    destruct (c0 <=? cap) eqn:Ec.
    + apply Z.leb_le in Ec. apply IH; [|assumption].
      destruct (max_step_cases mx c0) as [E|E]; rewrite E; lia.
    + apply Z.leb_gt in Ec.
      pose proof (loop_ge _ _ _ _ _ _ _ _ H eq_refl) as Hge.
      pose proof (max_step_ge mx c0) as [_ Hg2].
      pose proof (loop_marks _ _ Hm _ _ _ _ _ _ H) as Hv. subst v.
      unfold capped. destruct (r <=? cap) eqn:E; [apply Z.leb_le in E; lia | reflexivity].
Qed.

Lemma depth_uncapped_noerr : forall g cap, nocap cap -> forall f id d vis c e v,
    depth g f cap id d vis = Ok (c, e, v) -> ~ In id vis -> e = NoErr.
Proof.
  intros g cap Hc f id d vis c e v H Hn.
  destruct (depth_sem g cap Hc f d vis id c e v Hn H) as [He _]. exact He.
Qed.

Lemma depth_cap_core : forall g cap, 0 < cap -> forall f d vis0,
    rec_cap (fun i v => depth g f 0 i d v) (fun i v => depth g f cap i d v) cap d vis0.
Proof.
  intros g cap Hcap. induction f as [|f IH]; intros d vis id r v Hn H; [discriminate|].
  pose proof (depth_marks_core _ _ _ _ _ _ _ _ _ Hn H) as Hv. subst v.
  assert (Hdr : d <= r).
  { destruct (depth_sem g 0 nocap0 (S f) d vis id r NoErr vis Hn H) as (_ & Hub & _).
    specialize (Hub id O (bp_end g vis id Hn)). lia. }
  split; [assumption|].
  simpl in H. simpl.
  assert (E0 : (0 <? cap) = true) by (apply Z.ltb_lt; assumption). rewrite E0. simpl andb.
  destruct (cap <? d) eqn:Ed.
  - apply Z.ltb_lt in Ed. unfold capped. destruct (r <=? cap) eqn:E; [apply Z.leb_le in E; lia | reflexivity].
  - apply Z.ltb_ge in Ed.
    destruct (type_of (n_nodes g) id) as [t|]; [|discriminate].
    destruct (is_sensor t).
    + inversion H; subst. unfold capped. destruct (r <=? cap) eqn:E; [reflexivity | apply Z.leb_gt in E; lia].
    + pose proof (loop_marks _ _ (rec_marks_depth g f 0 (d + 1)) _ _ _ _ _ _ H) as Hu.
      eapply loop_cap with (rec1 := fun i v => depth g f cap i (d + 1) v) in H.
      * exact H.
      * apply rec_marks_depth.
      * apply IH.
      * assumption.
Qed.

Lemma out_loop_cap : forall rec0 rec1 cap, rec_marks rec0 -> rec_cap rec0 rec1 cap 0 [] ->
  forall outs mx r v,
    mx <= cap ->
    out_loop rec0 outs mx [] = Ok (r, NoErr, v) ->
    out_loop rec1 outs mx [] = capped cap r v.
Proof.
  intros rec0 rec1 cap Hm Hc. induction outs as [|o outs IH]; simpl; intros mx r v Hmx H.
  - inversion H; subst. unfold capped. destruct (r <=? cap) eqn:E; [reflexivity|].
    apply Z.leb_gt in E. lia.
  - destruct (rec0 o []) as [[[c0 e0] v0]| | | | |] eqn:Er; try discriminate.
    destruct e0; [|inversion H|inversion H].
    assert (Hno : ~ In o []) by (intros []).
    assert (v0 = []) by (eapply Hm; eauto). subst v0.
    destruct (Hc _ _ _ Hno Er) as [Hd1 Hr1]. rewrite Hr1. unfold capped at 1.
    destruct (c0 <=? cap) eqn:Ec.
    + apply Z.leb_le in Ec. apply IH; [|assumption].
      destruct (max_step_cases mx c0) as [E|E]; rewrite E; lia.
    + apply Z.leb_gt in Ec.
      pose proof (out_loop_ge _ _ _ _ _ _ _ H eq_refl) as Hge.
      pose proof (max_step_ge mx c0) as [_ Hg2].
      assert (v = []) by (eapply out_loop_marks; eauto; intros x _ []). subst v.
      unfold capped. destruct (r <=? cap) eqn:E; [apply Z.leb_le in E; lia | reflexivity].
Qed.

(* r0 is what the uncapped query answers on the fresh network *)
Lemma max_depth_cap_capped : forall g cap r0 v0,
    0 < cap -> max_depth_cap g 0 [] = Ok (r0, NoErr, v0) ->
    max_depth_cap g cap [] = if r0 <=? cap then Ok (r0, NoErr, []) else Ok (cap, ErrDepthExceeded, []).
Proof.
  intros g cap r0 v0 Hcap H.
  assert (v0 = []) by (eapply max_depth_cap_marks; eauto; intros o _ []). subst v0.
  unfold max_depth_cap in *.
  destruct (0 <? n_control g); [discriminate|].
  destruct ((len (n_nodes g) =? len (n_inputs g) + len (n_outputs g)) && (n_control g =? 0)).
  - inversion H; subst. destruct (1 <=? cap) eqn:E; [reflexivity | apply Z.leb_gt in E; lia].
  - eapply out_loop_cap with (rec1 := fun o v => depth g (depth_fuel g) cap o 0 v) (cap := cap) in H.
    + exact H.
    + apply rec_marks_depth.
    + apply depth_cap_core. assumption.
    + lia.
Qed.

Lemma max_depth_cap_uncapped_noerr : forall g cap r e v,
    nocap cap -> n_control g = 0 -> max_depth_cap g cap [] = Ok (r, e, v) -> e = NoErr.
Proof.
  intros g cap r e v Hc Hctl H. unfold max_depth_cap in H.
  destruct (0 <? n_control g) eqn:E1; [rewrite Hctl in E1; discriminate|].
  destruct ((len (n_nodes g) =? len (n_inputs g) + len (n_outputs g)) && (n_control g =? 0)).
  - now inversion H.
  - apply out_loop_sem with (g := g) in H; [tauto | apply rec_marks_depth | apply depth_sem; assumption].
Qed.

(* a cap <= 0 is no cap *)
Lemma depth_loop_ext : forall rec0 rec1 self, (forall i v, rec0 i v = rec1 i v) ->
  forall ins mx vis, depth_loop rec0 self ins mx vis = depth_loop rec1 self ins mx vis.
Proof.
  intros rec0 rec1 self He. induction ins as [|i ins IH]; intros mx vis; simpl; [reflexivity|].
  destruct (mem i vis); [apply IH|]. rewrite He.
  destruct (rec1 i vis) as [[[c0 e0] v0]| | | | |]; try reflexivity.
  destruct e0; [apply IH | reflexivity | reflexivity].
Qed.

Lemma out_loop_ext : forall rec0 rec1, (forall i v, rec0 i v = rec1 i v) ->
  forall outs mx vis, out_loop rec0 outs mx vis = out_loop rec1 outs mx vis.
Proof.
  intros rec0 rec1 He. induction outs as [|o outs IH]; intros mx vis; simpl; [reflexivity|].
  rewrite He.
  destruct (rec1 o vis) as [[[c0 e0] v0]| | | | |]; try reflexivity.
  destruct e0; [apply IH | reflexivity | reflexivity].
Qed.

Lemma depth_nocap_same : forall g cap, nocap cap -> forall f id d vis,
    depth g f cap id d vis = depth g f 0 id d vis.
Proof.
  intros g cap Hc. induction f as [|f IH]; intros id d vis; simpl; [reflexivity|].
  rewrite (nocap_test _ _ Hc). simpl.
  destruct (type_of (n_nodes g) id) as [t|]; [|reflexivity].
  destruct (is_sensor t); [reflexivity|].
  apply depth_loop_ext. intros i v. apply IH.
Qed.

Lemma max_depth_cap_nocap_same : forall g cap vis, nocap cap -> max_depth_cap g cap vis = max_depth_cap g 0 vis.
Proof.
  intros g cap vis Hc. unfold max_depth_cap.
  destruct (0 <? n_control g); [reflexivity|].
  destruct ((len (n_nodes g) =? len (n_inputs g) + len (n_outputs g)) && (n_control g =? 0)); [reflexivity|].
  apply out_loop_ext. intros i v. now apply depth_nocap_same.
Qed.

(* ---------- repeated queries ---------- *)

(* the marks left by a sequence of queries issued one after the other on a fresh network *)
Fixpoint marks_after (g : net) (qs : list (Z * Z)) (vis : list Z) : option (list Z) :=
  match qs with
  | [] => Some vis
  | q :: qs' => match run_query g q vis with Ok (_, _, vis') => marks_after g qs' vis' | _ => None end
  end.

Lemma marks_after_fresh : forall g qs v, marks_after g qs [] = Some v -> v = [].
Proof.
  intros g. induction qs as [|q qs IH]; simpl; intros v H.
  - now inversion H.
  - destruct (run_query g q []) as [[[r e] v1]| | | | |] eqn:Eq; try discriminate.
    apply run_query_marks in Eq. subst v1. auto.
Qed.

Lemma query_after_any_history : forall g qs v q,
    marks_after g qs [] = Some v -> run_query g q v = run_query g q [].
Proof. intros g qs v q H. apply marks_after_fresh in H. now subst v. Qed.

Lemma query_twice_same : forall g c1 c2 r1 e1 v1,
    max_depth_cap g c1 [] = Ok (r1, e1, v1) -> max_depth_cap g c2 v1 = max_depth_cap g c2 [].
Proof.
  intros g c1 c2 r1 e1 v1 H.
  assert (v1 = []) by (eapply max_depth_cap_marks; eauto; intros o _ []). now subst v1.
Qed.

(* ---------- helpers for concrete networks (examples) ---------- *)

Lemma acyclic_of_order : forall g,
    forallb (fun l => fst l <? snd l) (n_links g) = true -> acyclic g.
Proof.
  intros g Hf.
  assert (Hp : forall u v k, path g u v k -> u + Z.of_nat k <= v).
  { intros u v k H. induction H as [v|u w v k Hp IH Hl]; [lia|].
    rewrite forallb_forall in Hf. specialize (Hf _ Hl). simpl in Hf. apply Z.ltb_lt in Hf. lia. }
  intros v k H. apply Hp in H. lia.
Qed.

Lemma closed_of_check : forall g,
    forallb (fun l => mem (fst l) (ids g)) (n_links g) = true ->
    forallb (fun o => mem o (ids g)) (n_outputs g) = true -> closed g.
Proof.
  intros g H1 H2. rewrite forallb_forall in H1, H2. split.
  - intros u v Hl. apply mem_In. exact (H1 _ Hl).
  - intros o Ho. apply mem_In. exact (H2 _ Ho).
Qed.

Lemma no_sensor_target_of_check : forall g,
    forallb (fun l => negb (sensorb g (snd l))) (n_links g) = true ->
    forall u v, In (u, v) (n_links g) -> sensorb g v = false.
Proof.
  intros g H u v Hl. rewrite forallb_forall in H. specialize (H _ Hl). simpl in H.
  now apply negb_true_iff in H.
Qed.
