(* C12: "acyclic, every neuron reachable from a sensor" in graph terms, and the depth function.
   [edge q p]: p is a neuron with an incoming link from q.  [path q p m]: a path of m edges.
   For an acyclic network in which every neuron has an incoming link (equivalently: is reachable from a
   sensor), [lp N] is the depth function required by [feedforward], and [lp N p] is the length of the
   longest path ending in p. *)
From NeatModel Require Import Res Net SolverUtil SolverSpec SolverMain.
From Coq Require Import Reals Arith Lia.
Open Scope nat_scope.

Section Graph.
Variable n : net R.
Notation N := (nnodes n).

Definition edge (q p : nat) : Prop :=
  p < N /\ neuronb n p = true /\ exists l, In l (nd_in (node_at n p)) /\ l_src l = q.

Inductive path : nat -> nat -> nat -> Prop :=
| path0 : forall p, path p p 0
| pathS : forall q r p m, path q r m -> edge r p -> path q p (S m).

Definition acyclic : Prop := forall p m, path p p m -> m = 0.
Definition reachable : Prop :=
  forall p, p < N -> neuronb n p = true -> exists s m, s < N /\ sensorb n s = true /\ path s p m.

(* longest path ending in p, with fuel *)
Fixpoint lp (fuel : nat) (p : nat) : nat :=
  match fuel with
  | O => 0
  | S k => if neuronb n p
           then match nd_in (node_at n p) with
                | [] => 0
                | ls => S (list_max (map (fun l => lp k (l_src l)) ls))
                end
           else 0
  end.

Lemma lp_S k p : neuronb n p = true -> nd_in (node_at n p) <> [] ->
  lp (S k) p = S (list_max (map (fun l => lp k (l_src l)) (nd_in (node_at n p)))).
Proof. intros Hn Hne. simpl. rewrite Hn. destruct (nd_in (node_at n p)); [congruence|reflexivity]. Qed.

(* a strictly increasing rank along the edges rules out cycles *)
Lemma rank_acyclic (r : nat -> nat) : (forall q p, edge q p -> r q < r p) -> acyclic.
Proof.
  intros Hr.
  assert (G : forall q p m, path q p m -> r q + m <= r p).
  { induction 1 as [p|q r' p m H IH He]; [lia|]. specialize (Hr _ _ He). lia. }
  intros p m H. specialize (G _ _ _ H). lia.
Qed.

Hypothesis OK : net_ok n = true.

Lemma nd_in_range p : nd_in (node_at n p) <> [] -> p < N.
Proof.
  intros H. destruct (Nat.lt_ge_cases p N) as [Hlt|Hge]; [exact Hlt|].
  exfalso. apply H. unfold node_at. rewrite nth_overflow by exact Hge. reflexivity.
Qed.

Lemma path_trans q r p a b : path q r a -> path r p b -> path q p (a + b).
Proof.
  intros H1 H2. induction H2 as [r|r r' p m H2 IH He].
  - rewrite Nat.add_0_r. exact H1.
  - rewrite Nat.add_succ_r. apply pathS with (r := r'); [apply IH; exact H1|exact He].
Qed.

(* lp k p is the length of some path ending in p ... *)
Lemma lp_path : forall k p, exists q, path q p (lp k p).
Proof.
  induction k as [|k IH]; intros p; simpl; [exists p; constructor|].
  destruct (neuronb n p) eqn:En; [|exists p; constructor].
  destruct (nd_in (node_at n p)) as [|l0 rest] eqn:El; [exists p; constructor|].
  destruct (list_max_attained (fun l => lp k (l_src l)) (l0 :: rest)) as (l & Hl & E); [discriminate|].
  simpl in E. rewrite <- E. destruct (IH (l_src l)) as (q & Hq). exists q.
  apply pathS with (r := l_src l); [exact Hq|].
  split; [apply nd_in_range; rewrite El; discriminate|]. split; [exact En|].
  exists l. rewrite El. auto.
Qed.

(* ... and at least the length of every path of at most k edges ending in p *)
Lemma lp_longest q p m : path q p m -> forall k, m <= k -> m <= lp k p.
Proof.
  induction 1 as [p|q r p m H IH He]; intros k Hk; [lia|].
  destruct k as [|k]; [lia|]. simpl.
  destruct He as (Hp & Hn & l & Hl & Hs). rewrite Hn.
  destruct (nd_in (node_at n p)) as [|l0 rest] eqn:El; [destruct Hl|].
  apply le_n_S.
  assert (Hle : lp k (l_src l) <= list_max (map (fun l => lp k (l_src l)) (l0 :: rest))).
  { assert (F : Forall (fun x => x <= list_max (map (fun l => lp k (l_src l)) (l0 :: rest)))
                       (map (fun l => lp k (l_src l)) (l0 :: rest))) by (apply list_max_le; lia).
    rewrite Forall_forall in F. apply F. apply in_map_iff. exists l. auto. }
  simpl in Hle. rewrite Hs in Hle. specialize (IH k). lia.
Qed.

Hypothesis ACYC : acyclic.

(* the nodes of a path are pairwise distinct and in range, so a path has fewer than N edges *)
Lemma path_nodes q p m : path q p m -> p < N ->
  exists nodes, length nodes = S m /\ NoDup nodes /\ (forall x, In x nodes -> x < N /\ exists j, path x p j).
Proof.
  induction 1 as [p|q r p m H IH He]; intros Hp.
  - exists [p]. split; [reflexivity|]. split; [constructor; [intros []|constructor]|].
    intros x [<-|[]]. split; [exact Hp|]. exists 0. constructor.
  - pose proof He as (_ & Hn & l & Hl & Hs).
    assert (Hr : r < N) by (rewrite <- Hs; exact (net_ok_src n OK p l Hp Hl)).
    destruct (IH Hr) as (nodes & Len & ND & Hx).
    exists (p :: nodes). split; [simpl; now rewrite Len|]. split.
    + constructor; [|exact ND]. intros Hin. destruct (Hx p Hin) as [_ [j Hj]].
      assert (C : path p p (S j)) by (apply pathS with (r := r); assumption).
      apply ACYC in C. discriminate.
    + intros x [<-|Hin]; [split; [exact Hp|exists 0; constructor]|].
      destruct (Hx x Hin) as [Hlt [j Hj]]. split; [exact Hlt|]. exists (S j).
      apply pathS with (r := r); assumption.
Qed.

Lemma path_short q p m : path q p m -> p < N -> S m <= N.
Proof.
  intros H Hp. destruct (path_nodes q p m H Hp) as (nodes & Len & ND & Hx).
  rewrite <- Len, <- (seq_length N 0). apply NoDup_incl_length; [exact ND|].
  intros x Hin. apply in_seq. destruct (Hx x Hin). lia.
Qed.

Lemma lp_stable k1 k2 p : p < N -> N <= S k1 -> N <= S k2 -> lp k1 p = lp k2 p.
Proof.
  intros Hp H1 H2. apply Nat.le_antisymm.
  - destruct (lp_path k1 p) as (q & Hq). apply (lp_longest q p _ Hq). pose proof (path_short _ _ _ Hq Hp). lia.
  - destruct (lp_path k2 p) as (q & Hq). apply (lp_longest q p _ Hq). pose proof (path_short _ _ _ Hq Hp). lia.
Qed.

(* lp N p is the length of the longest path ending in p *)
Theorem lp_is_longest p : p < N ->
  (exists q, path q p (lp N p)) /\ (forall q m, path q p m -> m <= lp N p).
Proof.
  intros Hp. split; [apply lp_path|]. intros q m H. apply (lp_longest q p m H).
  pose proof (path_short _ _ _ H Hp). lia.
Qed.

Lemma reachable_fed : reachable -> forall p, p < N -> neuronb n p = true -> nd_in (node_at n p) <> [].
Proof.
  intros HR p Hp Hn. destruct (HR p Hp Hn) as (s & m & Hs & Hse & Hpath).
  inversion Hpath as [p' E1 E2|q r p' m' H He]; subst.
  - rewrite (neuron_not_sensor n p Hn) in Hse. discriminate.
  - destruct He as (_ & _ & l & Hl & _). intros E. rewrite E in Hl. destruct Hl.
Qed.

Hypothesis REACH : reachable.
Hypothesis outs_nodup : NoDup (outputs n).
Hypothesis outs_exact : forall o, In o (outputs n) <-> (o < N /\ is_output (role_at n o) = true).
Hypothesis plain : forall p l, p < N -> In l (nd_in (node_at n p)) -> l_td l = false.

Theorem acyclic_feedforward : feedforward n (lp N).
Proof.
  constructor; try assumption.
  - intros p Hp Hs. destruct N as [|k]; [reflexivity|]. simpl.
    assert (Hn : neuronb n p = false).
    { unfold neuronb, sensorb in *. destruct (role_at n p); simpl in *; congruence. }
    now rewrite Hn.
  - intros p Hp Hn. pose proof (reachable_fed REACH p Hp Hn) as Hne. split; [exact Hne|].
    assert (HN : N = S (N - 1)) by lia.
    transitivity (lp (S (N - 1)) p); [f_equal; exact HN|].
    rewrite lp_S by assumption. f_equal. f_equal. apply map_ext_in. intros l Hl.
    assert (Hs : l_src l < N) by exact (net_ok_src n OK p l Hp Hl).
    apply lp_stable; lia.
Qed.

End Graph.
