(* C10: who the champion is.  sort.Sort(sort.Reverse(organisms)) as modelled (stable insertion
   sort) puts an org_lt-maximal organism first, for organisms whose fitness values are not NaN. *)
From NeatModel Require Import Compat.
From NeatModel Require Import Res F64 GoRand Genome Options Population ChampHeap ChampPrepare.
From Coq Require Import Lia Sorting.Permutation Floats.

(* ---------- the insertion sort puts a maximal element first ---------- *)
Section SortMax.
  Context {A : Type} (lt : A -> A -> bool) (P : A -> Prop).
  Hypothesis asym : forall a b, P a -> P b -> lt a b = true -> lt b a = false.
  (* le a b := lt b a = false is transitive *)
  Hypothesis trans : forall a b c, P a -> P b -> P c -> lt b a = false -> lt c b = false -> lt c a = false.

  (* ascending: every later element is not below an earlier one *)
  Fixpoint asc_all (l : list A) : Prop :=
    match l with
    | [] => True
    | a :: r => (forall b, In b r -> lt b a = false) /\ asc_all r
    end.

  Lemma ins_rev_In x rp y : In y (ins_rev lt x rp) <-> y = x \/ In y rp.
  Proof.
    induction rp as [|a r IH]; cbn [ins_rev].
    - cbn. intuition.
    - destruct (lt a x); cbn [In]; [rewrite IH|]; intuition.
  Qed.

  Lemma ins_rev_asc x rp : P x -> Forall P rp -> asc_all rp -> asc_all (ins_rev lt x rp).
  Proof.
    intros Px. induction rp as [|a r IH]; intros HP Hs; cbn [ins_rev].
    - cbn. split; [intros b []|exact I].
    - inversion HP as [|? ? Pa Pr]; subst. destruct Hs as [Ha Hr]. destruct (lt a x) eqn:E.
      + cbn [asc_all]. split; [|now apply IH]. intros b Hb. apply ins_rev_In in Hb.
        destruct Hb as [->|Hb]; [now apply asym|now apply Ha].
      + cbn [asc_all]. split; [|split; assumption]. intros b [<-|Hb]; [exact E|].
        apply (trans x a b); try assumption. * rewrite Forall_forall in Pr. now apply Pr. * now apply Ha.
  Qed.

  Lemma fold_ins_asc l : forall acc, Forall P l -> Forall P acc -> asc_all acc ->
    asc_all (fold_left (fun rp x => ins_rev lt x rp) l acc) /\ Forall P (fold_left (fun rp x => ins_rev lt x rp) l acc).
  Proof.
    induction l as [|x l IH]; intros acc Hl Hacc Hs; cbn [fold_left]; [now split|].
    inversion Hl as [|? ? Px Pl]; subst. apply IH; [exact Pl| |now apply ins_rev_asc].
    apply Forall_forall. intros y Hy. apply ins_rev_In in Hy. destruct Hy as [->|Hy]; [exact Px|].
    rewrite Forall_forall in Hacc. now apply Hacc.
  Qed.

  Lemma asc_all_last l m : asc_all (l ++ [m]) -> forall y, In y l -> lt m y = false.
  Proof.
    induction l as [|a r IH]; intros Hs y Hy; [destruct Hy|].
    cbn [app asc_all] in Hs. destruct Hs as [Ha Hr]. destruct Hy as [<-|Hy].
    - apply Ha. apply in_or_app. right. now left.
    - now apply IH.
  Qed.

  Lemma irrefl a : P a -> lt a a = false.
  Proof. intros Pa. destruct (lt a a) eqn:E; [|reflexivity]. now rewrite (asym a a Pa Pa E) in E. Qed.

  Theorem sort_desc_head_max l top r :
    Forall P l -> sort_desc lt l = top :: r -> forall y, In y l -> lt top y = false.
  Proof.
    unfold sort_desc. intros HP Hs y Hy.
    destruct (fold_ins_asc l [] HP (Forall_nil _) I) as [Hasc HP'].
    set (rp := fold_left (fun rp x => ins_rev lt x rp) l []) in *.
    assert (E : rp = rev r ++ [top]) by (rewrite <- (rev_involutive rp), Hs; reflexivity).
    assert (Hin : In y rp).
    { apply (Permutation_in (l := sort_desc lt l)); [|apply (Permutation_in _ (Permutation_sym (sort_desc_perm lt l)) Hy)].
      unfold sort_desc. fold rp. apply Permutation_sym, Permutation_rev. }
    rewrite E in Hasc, Hin, HP'. apply in_app_or in Hin. destruct Hin as [Hin|[<-|[]]].
    - exact (asc_all_last _ _ Hasc y Hin).
    - apply irrefl. rewrite Forall_forall in HP'. apply HP'. apply in_or_app. right. now left.
  Qed.
End SortMax.

(* ---------- binary64 comparison of non-NaN values is a lexicographic order on integers ---------- *)
Definition r1 (f : spec_float) : Z :=
  match f with
  | S754_zero _ => 0 | S754_nan => 0
  | S754_infinity s => if s then -2 else 2
  | S754_finite s _ _ => if s then -1 else 1
  end.
Definition r2 (f : spec_float) : Z :=
  match f with S754_finite s _ e => if s then - e else e | _ => 0 end.
Definition r3 (f : spec_float) : Z :=
  match f with S754_finite s m _ => if s then Zneg m else Zpos m | _ => 0 end.

Definition lex_lt (f g : spec_float) : Prop :=
  r1 f < r1 g \/ (r1 f = r1 g /\ (r2 f < r2 g \/ (r2 f = r2 g /\ r3 f < r3 g))).
Definition lex_eq (f g : spec_float) : Prop := r1 f = r1 g /\ r2 f = r2 g /\ r3 f = r3 g.

Lemma SFltb_lex f g : f <> S754_nan -> g <> S754_nan -> (SFltb f g = true <-> lex_lt f g).
Proof.
  intros Hf Hg. unfold SFltb, lex_lt.
  destruct f as [s1|s1| |s1 m1 e1], g as [s2|s2| |s2 m2 e2]; try contradiction;
    try destruct s1; try destruct s2; cbn [SFcompare r1 r2 r3];
    try (split; [intros H; try discriminate H; lia | intros H; try reflexivity; lia]);
    change (Pos.compare_cont Eq m1 m2) with (Pos.compare m1 m2);
    destruct (Z.compare_spec e1 e2); try destruct (Pos.compare_spec m1 m2); cbn [CompOpp];
    (split; [intros HH; try discriminate HH; lia | intros HH; try reflexivity; lia]).
Qed.

Lemma SFeqb_lex f g : f <> S754_nan -> g <> S754_nan -> (SFeqb f g = true <-> lex_eq f g).
Proof.
  intros Hf Hg. unfold SFeqb, lex_eq.
  destruct f as [s1|s1| |s1 m1 e1], g as [s2|s2| |s2 m2 e2]; try contradiction;
    try destruct s1; try destruct s2; cbn [SFcompare r1 r2 r3];
    try (split; [intros H; try discriminate H; lia | intros H; try reflexivity; lia]);
    change (Pos.compare_cont Eq m1 m2) with (Pos.compare m1 m2);
    destruct (Z.compare_spec e1 e2); try destruct (Pos.compare_spec m1 m2); cbn [CompOpp];
    (split; [intros HH; try discriminate HH; lia | intros HH; try reflexivity; lia]).
Qed.

Lemma not_nan_sf x : PrimFloat.is_nan x = false -> Prim2SF x <> S754_nan.
Proof.
  unfold PrimFloat.is_nan. rewrite FloatAxioms.eqb_spec. intros H E. rewrite E in H. discriminate.
Qed.

(* ---------- Organisms.Less on organisms without NaN ---------- *)
Definition no_nan (x : organism) : Prop := PrimFloat.is_nan (o_fit x) = false /\ PrimFloat.is_nan (o_highest x) = false.

Definition org_below (a b : organism) : Prop :=
  lex_lt (Prim2SF (o_fit a)) (Prim2SF (o_fit b)) \/
  (lex_eq (Prim2SF (o_fit a)) (Prim2SF (o_fit b)) /\ lex_lt (Prim2SF (o_highest a)) (Prim2SF (o_highest b))).

Lemma org_lt_below a b : no_nan a -> no_nan b -> (org_lt a b = true <-> org_below a b).
Proof.
  intros [Fa Ha] [Fb Hb]. apply not_nan_sf in Fa, Ha, Fb, Hb.
  unfold org_lt, org_below. rewrite !FloatAxioms.ltb_spec, FloatAxioms.eqb_spec.
  pose proof (SFltb_lex _ _ Fa Fb) as L1. pose proof (SFeqb_lex _ _ Fa Fb) as L2. pose proof (SFltb_lex _ _ Ha Hb) as L3.
  destruct (SFltb (Prim2SF (o_fit a)) (Prim2SF (o_fit b))).
  - split; [intros _; left; now apply L1|reflexivity].
  - destruct (SFeqb (Prim2SF (o_fit a)) (Prim2SF (o_fit b))).
    + rewrite L3. split; [intros H; right; split; [now apply L2|exact H]|].
      intros [H|[_ H]]; [apply L1 in H; discriminate|exact H].
    + split; [discriminate|]. intros [H|[H _]]; [apply L1 in H; discriminate|apply L2 in H; discriminate].
Qed.

Lemma org_lt_asym a b : no_nan a -> no_nan b -> org_lt a b = true -> org_lt b a = false.
Proof.
  intros Na Nb H. apply (org_lt_below a b Na Nb) in H.
  destruct (org_lt b a) eqn:E; [|reflexivity]. apply (org_lt_below b a Nb Na) in E.
  exfalso. unfold org_below, lex_lt, lex_eq in *. lia.
Qed.

Lemma org_lt_trans a b c : no_nan a -> no_nan b -> no_nan c ->
  org_lt b a = false -> org_lt c b = false -> org_lt c a = false.
Proof.
  intros Na Nb Nc H1 H2. destruct (org_lt c a) eqn:E; [|reflexivity]. exfalso.
  apply (org_lt_below c a Nc Na) in E.
  assert (N1 : ~ org_below b a) by (intros H; apply (org_lt_below b a Nb Na) in H; congruence).
  assert (N2 : ~ org_below c b) by (intros H; apply (org_lt_below c b Nc Nb) in H; congruence).
  unfold org_below, lex_lt, lex_eq in *. lia.
Qed.

Theorem sort_desc_org_max l top r :
  Forall no_nan l -> sort_desc org_lt l = top :: r -> forall y, In y l -> org_lt top y = false.
Proof. apply (sort_desc_head_max org_lt no_nan org_lt_asym org_lt_trans). Qed.
