(* inversion lemmas for the state monad of base/GoRand.v and the primitives of model/Genome.v *)
From NeatModel Require Import Res F64 GoRand Genome.

Lemma bindM_ok {S A B} (m : @M S A) (f : A -> @M S B) s b s' :
  bindM m f s = Ok (b, s') -> exists a s1, m s = Ok (a, s1) /\ f a s1 = Ok (b, s').
Proof.
  unfold bindM. destruct (m s) as [[a s1]| | | | |]; try discriminate. intros H. now exists a, s1.
Qed.

Lemma ret_ok {S A} (a b : A) (s s' : S) : ret a s = Ok (b, s') -> a = b /\ s = s'.
Proof. unfold ret. intros H. now injection H. Qed.

Lemma lift_ok {S A} (r : res A) (s s' : S) a : lift r s = Ok (a, s') -> r = Ok a /\ s' = s.
Proof. unfold lift. destruct r; cbn [bind]; try discriminate. intros H. injection H as <- <-. now split. Qed.

Lemma on_tape_ok {A} (f : tape -> res (A * tape)) s a s' :
  on_tape f s = Ok (a, s') ->
  exists t', f (s_tape s) = Ok (a, t') /\ s' = {| s_tape := t'; s_env := s_env s |}.
Proof.
  unfold on_tape. destruct (f (s_tape s)) as [[a' t']| | | | |]; try discriminate.
  intros H. injection H as <- <-. now exists t'.
Qed.

(* primitives that only touch the tape leave the environment alone *)
Lemma on_tape_env {A} (f : tape -> res (A * tape)) s a s' : on_tape f s = Ok (a, s') -> s_env s' = s_env s.
Proof. intros H. apply on_tape_ok in H. destruct H as [t' [_ ->]]. reflexivity. Qed.

Lemma e_next_innov_ok s v s' :
  e_next_innov s = Ok (v, s') ->
  v = next_innov (s_env s) + 1 /\ s_tape s' = s_tape s /\
  innovs (s_env s') = innovs (s_env s) /\ next_innov (s_env s') = v /\ next_node (s_env s') = next_node (s_env s).
Proof. unfold e_next_innov. intros H. injection H as <- <-. cbn. repeat split. Qed.

Lemma e_next_node_ok s v s' :
  e_next_node s = Ok (v, s') ->
  v = next_node (s_env s) + 1 /\ s_tape s' = s_tape s /\
  innovs (s_env s') = innovs (s_env s) /\ next_innov (s_env s') = next_innov (s_env s) /\ next_node (s_env s') = v.
Proof. unfold e_next_node. intros H. injection H as <- <-. cbn. repeat split. Qed.

Lemma e_store_ok i s u s' :
  e_store i s = Ok (u, s') ->
  s_tape s' = s_tape s /\ innovs (s_env s') = innovs (s_env s) ++ [i] /\
  next_innov (s_env s') = next_innov (s_env s) /\ next_node (s_env s') = next_node (s_env s).
Proof. unfold e_store. intros H. injection H as _ <-. cbn. repeat split. Qed.

Lemma e_innovs_ok s l s' : e_innovs s = Ok (l, s') -> l = innovs (s_env s) /\ s' = s.
Proof. unfold e_innovs. intros H. injection H as <- <-. now split. Qed.

(* one step of monadic inversion on a hypothesis *)
Ltac minv1 H :=
  match type of H with
  | bindM _ _ _ = Ok _ =>
    let a := fresh "a" in let s1 := fresh "s" in let H1 := fresh "Hm" in let H2 := fresh "Hk" in
    apply bindM_ok in H; destruct H as [a [s1 [H1 H2]]]
  | ret _ _ = Ok _ => apply ret_ok in H; destruct H as [? ?]; subst
  | lift _ _ = Ok _ => apply lift_ok in H; destruct H as [? ?]; subst
  | e_innovs _ = Ok _ => apply e_innovs_ok in H; destruct H as [? ?]; subst
  end.

(* named variants: [mbind H as a s1 H1 H2] splits a bind; [mret H] finishes a ret/lift *)
Tactic Notation "mbind" hyp(H) "as" ident(a) ident(s1) ident(H1) ident(H2) :=
  apply bindM_ok in H; destruct H as [a [s1 [H1 H2]]].
Ltac mret H :=
  match type of H with
  | ret _ _ = Ok _ => apply ret_ok in H; destruct H as [? ?]; subst
  | lift _ _ = Ok _ => apply lift_ok in H; destruct H as [? ?]; subst
  | e_innovs _ = Ok _ => apply e_innovs_ok in H; destruct H as [? ?]; subst
  end.
