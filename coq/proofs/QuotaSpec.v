(* C09 at model level (floats as they are, integer bookkeeping): heap lemmas, the quota chain of
   purgeZeroOffspringSpecies with its +1 fix-up and fallback, the definition of an organism's
   expected offspring, and "a species with zero quota does not reproduce". *)
From NeatModel Require Import Res F64 GoRand Genome Options Population MonadLemmas QuotaReal.
From Coq Require Import Lia.

(* ---------- the organism heap ---------- *)
Lemma hget_key h k x : hget h k = Ok x -> o_key x = k.
Proof.
  induction h as [|y h IH]; cbn; [discriminate|].
  destruct (Z.eqb (o_key y) k) eqn:E; [|exact IH].
  intros H. injection H as <-. now apply Z.eqb_eq.
Qed.

Lemma hget_hset h o k : hget (hset h o) k = if Z.eqb (o_key o) k then Ok o else hget h k.
Proof.
  induction h as [|x h IH]; cbn.
  - destruct (Z.eqb (o_key o) k); reflexivity.
  - destruct (Z.eqb (o_key x) (o_key o)) eqn:E; cbn.
    + apply Z.eqb_eq in E. rewrite E. destruct (Z.eqb (o_key o) k); reflexivity.
    + rewrite IH. destruct (Z.eqb (o_key x) k) eqn:E2; [|reflexivity].
      apply Z.eqb_eq in E2. subst k. rewrite Z.eqb_sym, E. reflexivity.
Qed.

Lemma hget_hset_same h o : hget (hset h o) (o_key o) = Ok o.
Proof. rewrite hget_hset, Z.eqb_refl. reflexivity. Qed.

Lemma hget_hset_other h o k : o_key o <> k -> hget (hset h o) k = hget h k.
Proof. intros H. rewrite hget_hset. apply Z.eqb_neq in H. now rewrite H. Qed.

Lemma hgets_cons_ok h k ks l : hgets h (k :: ks) = Ok l ->
  exists x r, hget h k = Ok x /\ hgets h ks = Ok r /\ l = x :: r.
Proof.
  cbn. destruct (hget h k) as [x| | | | |]; cbn; try discriminate.
  destruct (hgets h ks) as [r| | | | |]; cbn; try discriminate.
  intros H. injection H as <-. now exists x, r.
Qed.

Lemma hgets_keys h : forall ks l, hgets h ks = Ok l -> map o_key l = ks.
Proof.
  induction ks as [|k ks IH]; intros l H.
  - cbn in H. injection H as <-. reflexivity.
  - apply hgets_cons_ok in H. destruct H as [x [r [H1 [H2 ->]]]]. cbn.
    rewrite (hget_key _ _ _ H1), (IH _ H2). reflexivity.
Qed.

Lemma hgets_length h ks l : hgets h ks = Ok l -> length l = length ks.
Proof. intros H. rewrite <- (hgets_keys _ _ _ H). now rewrite map_length. Qed.

Lemma hgets_In h : forall ks l, hgets h ks = Ok l -> forall x, In x l -> In (o_key x) ks /\ hget h (o_key x) = Ok x.
Proof.
  induction ks as [|k ks IH]; intros l H x Hx.
  - cbn in H. injection H as <-. destruct Hx.
  - apply hgets_cons_ok in H. destruct H as [y [r [H1 [H2 ->]]]]. destruct Hx as [<-|Hx].
    + rewrite (hget_key _ _ _ H1). split; [now left|assumption].
    + destruct (IH _ H2 _ Hx) as [A B]. split; [now right|assumption].
Qed.

Lemma hgets_nth h : forall ks l, hgets h ks = Ok l ->
  forall i k, nth_error ks i = Some k -> exists x, nth_error l i = Some x /\ hget h k = Ok x.
Proof.
  induction ks as [|k0 ks IH]; intros l H i k Hi.
  - destruct i; discriminate.
  - apply hgets_cons_ok in H. destruct H as [y [r [H1 [H2 ->]]]]. destruct i as [|i]; cbn in *.
    + injection Hi as <-. now exists y.
    + exact (IH _ H2 _ _ Hi).
Qed.

(* after writing back a list of organisms (fold of hset), looking up a key returns the organism of
   the list carrying it, provided the list does not carry two different organisms with that key *)
Lemma hget_hsets : forall l h y,
  In y l -> (forall z, In z l -> o_key z = o_key y -> z = y) ->
  hget (hsets h l) (o_key y) = Ok y.
Proof.
  unfold hsets. induction l as [|x l IH]; intros h y Hy Hu; [destruct Hy|].
  cbn [fold_left]. destruct (in_dec (fun a b => Z.eq_dec a b) (o_key y) (map o_key l)) as [Hin|Hnin].
  - apply in_map_iff in Hin. destruct Hin as [z [Hz1 Hz2]].
    assert (z = y) by (apply Hu; [now right|assumption]). subst z.
    apply IH; [assumption|]. intros z Hz. apply Hu. now right.
  - destruct Hy as [->|Hy]; [|exfalso; apply Hnin; apply in_map_iff; now exists y].
    assert (G : forall l h, ~ In (o_key y) (map o_key l) -> hget (fold_left hset l h) (o_key y) = hget h (o_key y)).
    { clear. induction l as [|x l IH]; intros h Hn; [reflexivity|]. cbn [fold_left].
      rewrite IH by (intros C; apply Hn; now right). apply hget_hset_other.
      intros E. apply Hn. left. exact E. }
    rewrite G by assumption. apply hget_hset_same.
Qed.

Lemma hget_hsets_other : forall l h k, ~ In k (map o_key l) -> hget (hsets h l) k = hget h k.
Proof.
  unfold hsets. induction l as [|x l IH]; intros h k Hn; [reflexivity|]. cbn [fold_left].
  rewrite IH by (intros C; apply Hn; now right). apply hget_hset_other.
  intros E. apply Hn. left. exact E.
Qed.

(* ---------- sums of quotas ---------- *)
Definition sp_sum (l : list species) : Z := fold_right (fun s a => sp_exp s + a) 0 l.

Lemma sp_sum_cons x l : sp_sum (x :: l) = sp_exp x + sp_sum l.
Proof. reflexivity. Qed.

Lemma sp_sum_app a b : sp_sum (a ++ b) = sp_sum a + sp_sum b.
Proof. induction a as [|x a IH]; [reflexivity|]. cbn [app]. rewrite !sp_sum_cons, IH. lia. Qed.

Lemma fold_left_sp_sum l : forall acc, fold_left (fun acc s => acc + sp_exp s) l acc = acc + sp_sum l.
Proof. induction l as [|x l IH]; intros acc; [cbn; lia|]. cbn [fold_left]. rewrite IH, sp_sum_cons. lia. Qed.

Lemma sp_sum_Zsum l : sp_sum l = Zsum (map sp_exp l).
Proof. induction l as [|x l IH]; [reflexivity|]. cbn [map]. rewrite sp_sum_cons, IH. reflexivity. Qed.

Definition sp_pos (s : species) : bool := Z.gtb (sp_exp s) 0.

Lemma sp_sum_filter_pos l : (forall s, In s l -> 0 <= sp_exp s) -> sp_sum (filter sp_pos l) = sp_sum l.
Proof.
  induction l as [|x l IH]; intros H; [reflexivity|]. cbn [filter]. unfold sp_pos at 1.
  assert (Hx := H x (or_introl eq_refl)). specialize (IH (fun s Hs => H s (or_intror Hs))).
  destruct (Z.gtb (sp_exp x) 0) eqn:E; rewrite !sp_sum_cons || rewrite sp_sum_cons; rewrite IH; [reflexivity|].
  rewrite Z.gtb_ltb in E. apply Z.ltb_ge in E. lia.
Qed.

Lemma sp_sum_map_zero l : sp_sum (map (fun s => sp_with_exp s 0) l) = 0.
Proof. induction l as [|x l IH]; [reflexivity|]. cbn [map]. rewrite sp_sum_cons, IH. reflexivity. Qed.

(* ---------- count_all: the chain of countOffspring over Population.Species ---------- *)
Lemma count_all_cons_ok h s l skim total l2 t :
  count_all h (s :: l) skim total = Ok (l2, t) ->
  exists orgs e skim' l3,
    hgets h (sp_orgs s) = Ok orgs /\ count_offspring orgs 0 skim = (e, skim') /\
    count_all h l skim' (total + e) = Ok (l3, t) /\ l2 = sp_with_exp s e :: l3.
Proof.
  cbn [count_all]. destruct (hgets h (sp_orgs s)) as [orgs| | | | |]; cbn [bind]; try discriminate.
  destruct (count_offspring orgs 0 skim) as [e skim'] eqn:C.
  destruct (count_all h l skim' (total + e)) as [[l3 t3]| | | | |] eqn:D; cbn [bind]; try discriminate.
  intros H. injection H as <- <-. exists orgs, e, skim', l3. repeat split; auto.
Qed.

(* only the quota field of a species is written *)
Definition quota_only (s s' : species) : Prop := s' = sp_with_exp s (sp_exp s').

Lemma quota_only_refl s : quota_only s s.
Proof. destruct s; reflexivity. Qed.
Lemma quota_only_with_exp s e : quota_only s (sp_with_exp s e).
Proof. destruct s; reflexivity. Qed.
Lemma quota_only_trans a b c : quota_only a b -> quota_only b c -> quota_only a c.
Proof. unfold quota_only. intros -> ->. destruct a; reflexivity. Qed.
Lemma quota_only_id s s' : quota_only s s' -> sp_id s' = sp_id s.
Proof. intros ->. reflexivity. Qed.
Lemma quota_only_orgs s s' : quota_only s s' -> sp_orgs s' = sp_orgs s.
Proof. intros ->. reflexivity. Qed.

Lemma Forall2_quota_only_ids l l' : Forall2 quota_only l l' -> map sp_id l' = map sp_id l.
Proof. induction 1 as [|a b l l' H _ IH]; cbn; [reflexivity|]. now rewrite IH, (quota_only_id _ _ H). Qed.

Lemma Forall2_refl {A} (R : A -> A -> Prop) : (forall a, R a a) -> forall l, Forall2 R l l.
Proof. intros H. induction l; constructor; auto. Qed.

Lemma Forall2_trans {A} (R : A -> A -> Prop) : (forall a b c, R a b -> R b c -> R a c) ->
  forall l1 l2 l3, Forall2 R l1 l2 -> Forall2 R l2 l3 -> Forall2 R l1 l3.
Proof.
  intros HT l1 l2 l3 H. revert l3. induction H as [|a b l1 l2 H _ IH]; intros l3 H3; inversion H3; subst; constructor.
  - eapply HT; eassumption.
  - now apply IH.
Qed.

Lemma count_all_spec h : forall l skim total l2 t,
  count_all h l skim total = Ok (l2, t) ->
  t = total + sp_sum l2 /\ Forall2 quota_only l l2.
Proof.
  induction l as [|s l IH]; intros skim total l2 t H.
  - cbn in H. injection H as <- <-. cbn. split; [lia|constructor].
  - apply count_all_cons_ok in H. destruct H as [orgs [e [skim' [l3 [H1 [H2 [H3 ->]]]]]]].
    destruct (IH _ _ _ _ H3) as [A B]. split.
    + rewrite sp_sum_cons. cbn [sp_exp sp_with_exp]. lia.
    + constructor; [apply quota_only_with_exp|assumption].
Qed.

(* count_all is the generic chain (QuotaReal.chain_gen) at the float instance, applied to the
   members' ExpectedOffspring in species order *)
Fixpoint species_exps (h : list organism) (l : list species) : res (list (list float)) :=
  match l with
  | [] => Ok []
  | s :: l' => do orgs <- hgets h (sp_orgs s); do r <- species_exps h l'; Ok (map o_exp orgs :: r)
  end.

Lemma count_all_chain h : forall l skim total l2 t,
  count_all h l skim total = Ok (l2, t) ->
  exists spp sk, species_exps h l = Ok spp /\
                 chain_gen float_qnum spp skim total = (map sp_exp l2, t, sk).
Proof.
  induction l as [|s l IH]; intros skim total l2 t H.
  - cbn in H. injection H as <- <-. exists [], skim. split; reflexivity.
  - apply count_all_cons_ok in H. destruct H as [orgs [e [skim' [l3 [H1 [H2 [H3 ->]]]]]]].
    destruct (IH _ _ _ _ H3) as [spp [sk [A B]]].
    exists (map o_exp orgs :: spp), sk. split.
    + cbn [species_exps]. rewrite H1, A. reflexivity.
    + cbn [chain_gen]. unfold count_offspring in H2. rewrite H2, B. reflexivity.
Qed.

(* ---------- the species that receives the make-up offspring ---------- *)
Lemma best_by_exp_spec : forall l mx best,
  (best_by_exp l mx best = best /\ forall s, In s l -> sp_exp s < mx) \/
  (exists pre b post, l = pre ++ b :: post /\ best_by_exp l mx best = Some b /\ mx <= sp_exp b /\
                      (forall s, In s pre -> sp_exp s <= sp_exp b) /\
                      (forall s, In s post -> sp_exp s < sp_exp b)).
Proof.
  induction l as [|s l IH]; intros mx best.
  - left. split; [reflexivity|]. intros s [].
  - cbn [best_by_exp]. destruct (Z.geb (sp_exp s) mx) eqn:E.
    + rewrite Z.geb_leb in E. apply Z.leb_le in E. right.
      destruct (IH (sp_exp s) (Some s)) as [[A B]|[pre [b [post [A [B [C [D D']]]]]]]].
      * exists [], s, l. repeat split; auto. intros x [].
      * exists (s :: pre), b, post. subst l. repeat split; auto; try lia.
        intros x [<-|Hx]; [assumption|auto].
    + rewrite Z.geb_leb in E. apply Z.leb_gt in E.
      destruct (IH mx best) as [[A B]|[pre [b [post [A [B [C [D D']]]]]]]].
      * left. split; [assumption|]. intros x [<-|Hx]; auto.
      * right. exists (s :: pre), b, post. subst l. repeat split; auto.
        intros x [<-|Hx]; [lia|auto].
Qed.

Lemma sp_replace_at pre b post b' :
  sp_id b' = sp_id b -> ~ In (sp_id b) (map sp_id pre) ->
  sp_replace (pre ++ b :: post) b' = pre ++ b' :: post.
Proof.
  intros Hid. induction pre as [|x pre IH]; intros Hn; cbn.
  - rewrite Hid, Z.eqb_refl. reflexivity.
  - rewrite Hid. destruct (Z.eqb (sp_id x) (sp_id b)) eqn:E.
    + apply Z.eqb_eq in E. exfalso. apply Hn. left. exact E.
    + rewrite IH; [reflexivity|]. intros C. apply Hn. now right.
Qed.

(* ---------- purgeZeroOffspringSpecies, unfolded ---------- *)
(* the precision fix-up block: total_expected < N: +1 to the last species with maximal quota; if that
   is still short (the "population died" fallback) that species gets everything *)
Definition pz_fix (sps : list species) (total_expected n : Z) : list species :=
  if Z.ltb total_expected n then
    let best := best_by_exp sps 0 None in
    let final := fold_left (fun acc s => acc + sp_exp s) sps 0 in
    let sps1 := match best with Some b => sp_replace sps (sp_with_exp b (sp_exp b + 1)) | None => sps end in
    let final := final + 1 in
    if Z.ltb final n then
      let zeroed := map (fun s => sp_with_exp s 0) sps1 in
      match best with Some b => sp_replace zeroed (sp_with_exp b n) | None => zeroed end
    else sps1
  else sps.

(* overallAverage: left fold of + over Population.Organisms, divided by float64(len) *)
Definition pz_avg (orgs : list organism) : float :=
  PrimFloat.div (fold_left (fun acc x => PrimFloat.add acc (o_fit x)) orgs 0%float) (f_of_Z (zlen orgs)).

Definition pz_heap (h : list organism) (orgs : list organism) : list organism :=
  if PrimFloat.eqb (pz_avg orgs) 0%float then h
  else hsets h (map (fun x => o_with_exp x (PrimFloat.div (o_fit x) (pz_avg orgs))) orgs).

Lemma purge_zero_unfold p p' :
  purge_zero_offspring p = Ok p' ->
  exists orgs sps T,
    hgets (p_heap p) (p_orgs p) = Ok orgs /\
    p_heap p' = pz_heap (p_heap p) orgs /\
    count_all (p_heap p') (p_species p) 0%float 0 = Ok (sps, T) /\
    p_species p' = filter sp_pos (pz_fix sps T (zlen orgs)) /\
    p_detached p' = p_detached p ++ filter (fun s => negb (sp_pos s)) (pz_fix sps T (zlen orgs)) /\
    p_orgs p' = p_orgs p /\ p_last_species p' = p_last_species p /\ p_highest p' = p_highest p /\
    p_epochs_highest p' = p_epochs_highest p /\ p_next_key p' = p_next_key p.
Proof.
  unfold purge_zero_offspring. destruct (hgets (p_heap p) (p_orgs p)) as [orgs| | | | |]; cbn [bind]; try discriminate.
  fold (pz_avg orgs). fold (pz_heap (p_heap p) orgs).
  destruct (count_all (pz_heap (p_heap p) orgs) (p_species p) 0%float 0) as [[sps T]| | | | |] eqn:C; cbn [bind]; try discriminate.
  fold (pz_fix sps T (zlen orgs)). intros H. injection H as <-. cbn.
  exists orgs, sps, T. repeat split; auto.
Qed.

(* ---------- 5. total_robust ---------- *)
Definition sp_zero (s : species) : species := sp_with_exp s 0.

Lemma pz_fix_spec sps T n :
  T = sp_sum sps -> sps <> [] -> NoDup (map sp_id sps) -> (forall s, In s sps -> 0 <= sp_exp s) ->
  (n <= T -> pz_fix sps T n = sps) /\
  (T < n -> exists pre b post,
      sps = pre ++ b :: post /\
      (forall s, In s pre -> sp_exp s <= sp_exp b) /\ (forall s, In s post -> sp_exp s < sp_exp b) /\
      (T = n - 1 -> pz_fix sps T n = pre ++ sp_with_exp b (sp_exp b + 1) :: post) /\
      (T < n - 1 -> pz_fix sps T n = map sp_zero pre ++ sp_with_exp b n :: map sp_zero post)).
Proof.
  intros HT Hne Hnd Hnn. split.
  - intros H. unfold pz_fix. apply Z.ltb_ge in H. now rewrite H.
  - intros H. unfold pz_fix. apply Z.ltb_lt in H. rewrite H. apply Z.ltb_lt in H.
    destruct (best_by_exp_spec sps 0 None) as [[A B]|[pre [b [post [A [B [C [D D']]]]]]]].
    + exfalso. destruct sps as [|s sps]; [now apply Hne|].
      specialize (B s (or_introl eq_refl)). specialize (Hnn s (or_introl eq_refl)). lia.
    + exists pre, b, post. split; [assumption|]. split; [assumption|]. split; [assumption|].
      rewrite B. rewrite fold_left_sp_sum, <- HT. cbn [Z.add].
      assert (Hnotin : ~ In (sp_id b) (map sp_id pre)).
      { subst sps. rewrite map_app in Hnd. cbn in Hnd. intros Hin.
        apply NoDup_remove_2 in Hnd. apply Hnd. apply in_or_app. now left. }
      rewrite A. rewrite (sp_replace_at pre b post (sp_with_exp b (sp_exp b + 1)) eq_refl Hnotin).
      split.
      * intros E. assert (F : Z.ltb (T + 1) n = false) by (apply Z.ltb_ge; lia). rewrite F. reflexivity.
      * intros E. assert (F : Z.ltb (T + 1) n = true) by (apply Z.ltb_lt; lia). rewrite F.
        rewrite map_app. cbn [map].
        change (fun s : species => sp_with_exp s 0) with sp_zero.
        apply sp_replace_at; [reflexivity|].
        rewrite map_map. cbn. exact Hnotin.
Qed.

Lemma total_robust : forall p p' orgs sps T,
  purge_zero_offspring p = Ok p' ->
  hgets (p_heap p) (p_orgs p) = Ok orgs ->
  count_all (p_heap p') (p_species p) 0%float 0 = Ok (sps, T) ->
  p_species p <> [] -> NoDup (map sp_id (p_species p)) ->
  (forall s, In s sps -> 0 <= sp_exp s) ->
  let n := zlen orgs in
  T = sp_sum sps /\ Forall2 quota_only (p_species p) sps /\
  exists final,
    p_species p' = filter (fun s => Z.gtb (sp_exp s) 0) final /\
    p_detached p' = p_detached p ++ filter (fun s => negb (Z.gtb (sp_exp s) 0)) final /\
    sp_sum (p_species p') = sp_sum final /\
    (n <= T -> final = sps /\ sp_sum final = T) /\
    (T < n -> sp_sum final = n /\
       exists pre b post,
         sps = pre ++ b :: post /\
         (forall s, In s pre -> sp_exp s <= sp_exp b) /\ (forall s, In s post -> sp_exp s < sp_exp b) /\
         (T = n - 1 -> final = pre ++ sp_with_exp b (sp_exp b + 1) :: post) /\
         (T < n - 1 -> final = map (fun s => sp_with_exp s 0) pre ++ sp_with_exp b n :: map (fun s => sp_with_exp s 0) post)).
Proof.
  intros p p' orgs sps T Hp Ho Hc Hne Hnd Hnn n.
  apply purge_zero_unfold in Hp. destruct Hp as [orgs' [sps' [T' [P1 [P2 [P3 [P4 [P5 _]]]]]]]].
  rewrite Ho in P1. injection P1 as <-. rewrite Hc in P3. injection P3 as <- <-.
  destruct (count_all_spec _ _ _ _ _ _ Hc) as [HT HF]. cbn [Z.add] in HT.
  assert (Hne' : sps <> []).
  { intros E. subst sps. inversion HF. now apply Hne. }
  assert (Hnd' : NoDup (map sp_id sps)) by (rewrite (Forall2_quota_only_ids _ _ HF); exact Hnd).
  destruct (pz_fix_spec sps T n HT Hne' Hnd' Hnn) as [FA FB].
  split; [assumption|]. split; [assumption|].
  exists (pz_fix sps T n). fold n in P4, P5. split; [exact P4|]. split; [exact P5|].
  assert (Hfinal_nn : T <= n -> forall s, In s (pz_fix sps T n) -> 0 <= sp_exp s).
  { intros HTn. destruct (Z_lt_le_dec T n) as [Hlt|Hge].
    - destruct (FB Hlt) as [pre [b [post [E1 [E2 [E3 [E4 E5]]]]]]].
      destruct (Z.eq_dec T (n - 1)) as [Heq|Hneq].
      + rewrite (E4 Heq). intros s Hs. apply in_app_or in Hs. destruct Hs as [Hs|[<-|Hs]].
        * apply Hnn. subst sps. apply in_or_app. now left.
        * cbn. assert (0 <= sp_exp b) by (apply Hnn; subst sps; apply in_or_app; right; now left). lia.
        * apply Hnn. subst sps. apply in_or_app. right. now right.
      + rewrite (E5 ltac:(lia)). intros s Hs. apply in_app_or in Hs. destruct Hs as [Hs|[<-|Hs]].
        * apply in_map_iff in Hs. destruct Hs as [x [<- _]]. cbn. lia.
        * cbn. assert (0 <= T) by (rewrite HT; clear -Hnn; induction sps as [|x l IH]; cbn; [lia|];
            fold (sp_sum l); assert (0 <= sp_exp x) by (apply Hnn; now left);
            assert (0 <= sp_sum l) by (apply IH; intros; apply Hnn; now right); lia). lia.
        * apply in_map_iff in Hs. destruct Hs as [x [<- _]]. cbn. lia.
    - rewrite (FA Hge). exact Hnn. }
  split.
  { rewrite P4. destruct (Z_lt_le_dec n T) as [Hlt|Hge].
    - rewrite (FA ltac:(lia)). apply sp_sum_filter_pos. exact Hnn.
    - apply sp_sum_filter_pos. apply Hfinal_nn. exact Hge. }
  split.
  - intros H. rewrite (FA H). split; [reflexivity|]. now rewrite HT.
  - intros H. destruct (FB H) as [pre [b [post [E1 [E2 [E3 [E4 E5]]]]]]]. split.
    + destruct (Z.eq_dec T (n - 1)) as [Heq|Hneq].
      * rewrite (E4 Heq). rewrite sp_sum_app, sp_sum_cons. cbn [sp_exp sp_with_exp].
        rewrite HT, E1, sp_sum_app, sp_sum_cons in Heq. lia.
      * rewrite (E5 ltac:(lia)). rewrite sp_sum_app, sp_sum_cons. cbn [sp_exp sp_with_exp].
        unfold sp_zero. rewrite !sp_sum_map_zero. lia.
    + exists pre, b, post. repeat split; auto.
Qed.

(* the headline form: whenever the float chain does not overshoot, the quotas of the species that
   stay in Population.Species total exactly the number of organisms; if it overshoots (impossible in
   exact arithmetic, QuotaReal.total_exact) they total what the chain produced *)
Lemma total_robust_sum : forall p p' orgs sps T,
  purge_zero_offspring p = Ok p' ->
  hgets (p_heap p) (p_orgs p) = Ok orgs ->
  count_all (p_heap p') (p_species p) 0%float 0 = Ok (sps, T) ->
  p_species p <> [] -> NoDup (map sp_id (p_species p)) ->
  (forall s, In s sps -> 0 <= sp_exp s) ->
  (T <= zlen orgs -> sp_sum (p_species p') = zlen orgs) /\
  (zlen orgs < T -> sp_sum (p_species p') = T) /\
  (forall s, In s (p_species p') -> 0 < sp_exp s) /\
  (forall s, In s (p_detached p') -> In s (p_detached p) \/ sp_exp s <= 0).
Proof.
  intros p p' orgs sps T Hp Ho Hc Hne Hnd Hnn.
  destruct (total_robust p p' orgs sps T Hp Ho Hc Hne Hnd Hnn) as [HT [HF [final [F1 [F2 [F3 [F4 F5]]]]]]].
  repeat split.
  - intros H. rewrite F3. destruct (Z_lt_le_dec T (zlen orgs)) as [Hlt|Hge].
    + exact (proj1 (F5 Hlt)).
    + destruct (F4 Hge) as [_ E]. lia.
  - intros H. rewrite F3. destruct (F4 ltac:(lia)) as [_ E]. exact E.
  - intros s Hs. rewrite F1 in Hs. apply filter_In in Hs. destruct Hs as [_ Hs].
    rewrite Z.gtb_ltb in Hs. now apply Z.ltb_lt in Hs.
  - intros s Hs. rewrite F2 in Hs. apply in_app_or in Hs. destruct Hs as [Hs|Hs]; [now left|right].
    apply filter_In in Hs. destruct Hs as [_ Hs]. apply Bool.negb_true_iff in Hs.
    rewrite Z.gtb_ltb in Hs. now apply Z.ltb_ge in Hs.
Qed.

(* ---------- 4. expected_def ---------- *)
Lemma expected_def : forall p p' orgs,
  purge_zero_offspring p = Ok p' ->
  hgets (p_heap p) (p_orgs p) = Ok orgs ->
  let avg := PrimFloat.div (fold_left (fun acc x => PrimFloat.add acc (o_fit x)) orgs 0%float) (f_of_Z (zlen orgs)) in
  PrimFloat.eqb avg 0%float = false ->
  forall x, In x orgs ->
    hget (p_heap p') (o_key x) = Ok (o_with_exp x (PrimFloat.div (o_fit x) avg)) /\
    (forall k, ~ In k (p_orgs p) -> hget (p_heap p') k = hget (p_heap p) k).
Proof.
  intros p p' orgs Hp Ho avg Havg x Hx.
  apply purge_zero_unfold in Hp. destruct Hp as [orgs' [sps' [T' [P1 [P2 _]]]]].
  rewrite Ho in P1. injection P1 as <-. rewrite P2. unfold pz_heap. fold avg in Havg.
  change (pz_avg orgs) with avg. rewrite Havg. split.
  - set (g := fun x0 : organism => o_with_exp x0 (PrimFloat.div (o_fit x0) avg)).
    change (o_key x) with (o_key (g x)). change (o_with_exp x (PrimFloat.div (o_fit x) avg)) with (g x).
    apply hget_hsets.
    + apply in_map. exact Hx.
    + intros z Hz Hk. apply in_map_iff in Hz. destruct Hz as [y [<- Hy]].
      change (o_key (g y)) with (o_key y) in Hk. change (o_key (g x)) with (o_key x) in Hk.
      destruct (hgets_In _ _ _ Ho _ Hy) as [_ A]. destruct (hgets_In _ _ _ Ho _ Hx) as [_ B].
      rewrite Hk in A. rewrite A in B. injection B as ->. reflexivity.
  - intros k Hk. apply hget_hsets_other. rewrite map_map.
    replace (map (fun x0 => o_key (o_with_exp x0 (PrimFloat.div (o_fit x0) avg))) orgs) with (map o_key orgs) by (apply map_ext; reflexivity).
    rewrite (hgets_keys _ _ _ Ho). exact Hk.
Qed.

(* when the average is zero nobody's expected offspring is written *)
Lemma expected_def_zero_avg : forall p p' orgs,
  purge_zero_offspring p = Ok p' ->
  hgets (p_heap p) (p_orgs p) = Ok orgs ->
  PrimFloat.eqb (PrimFloat.div (fold_left (fun acc x => PrimFloat.add acc (o_fit x)) orgs 0%float) (f_of_Z (zlen orgs))) 0%float = true ->
  p_heap p' = p_heap p.
Proof.
  intros p p' orgs Hp Ho Havg.
  apply purge_zero_unfold in Hp. destruct Hp as [orgs' [sps' [T' [P1 [P2 _]]]]].
  rewrite Ho in P1. injection P1 as <-. rewrite P2. unfold pz_heap, pz_avg. now rewrite Havg.
Qed.

(* ---------- 8. a species with zero quota does not reproduce ---------- *)
Lemma zero_quota_no_babies : forall o generation all_species sorted s h key st,
  sp_exp s <= 0 -> sp_orgs s <> [] ->
  reproduce_species o generation all_species sorted s h key st = Ok ((h, key, []), st).
Proof.
  intros o generation all_species sorted s h key st He Hne. unfold reproduce_species.
  assert (G : Z.gtb (sp_exp s) 0 = false) by (rewrite Z.gtb_ltb; apply Z.ltb_ge; lia).
  rewrite G. cbn [andb]. destruct (sp_orgs s) as [|k ks]; [now elim Hne|].
  replace (Z.to_nat (sp_exp s)) with O by lia. reflexivity.
Qed.

(* and then reproduce_all skips it *)
Lemma reproduce_all_skip_zero : forall o generation all_species sorted best_id s l h key babies best_rep st,
  sp_exp s <= 0 -> sp_orgs s <> [] ->
  reproduce_all o generation all_species sorted best_id (s :: l) h key babies best_rep st =
  reproduce_all o generation all_species sorted best_id l h key babies (best_rep || Z.eqb (sp_id s) best_id) st.
Proof.
  intros. cbn [reproduce_all]. unfold bindM at 1. rewrite zero_quota_no_babies by assumption.
  rewrite app_nil_r. reflexivity.
Qed.
