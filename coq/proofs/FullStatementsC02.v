(* agent "agent-full": C02_full settled -- as stated it is FALSE; the corrected statement is proved.

   C02_full (props/C02.v) assumes the book-keeping invariant, the quota total, well-formed genomes and a
   tape of genuine draws, but nothing about
     - the options' activator table (acts_ok: mutateAddNode draws the new node's activation from it),
     - the innovation record kept in the population (records_traits_ok: mutateAddLink re-uses a recorded
       link innovation and indexes the genome's traits with the recorded trait index),
     - the consistency of the genomes with that record and with one another (GInv of C03).
   Two concrete states satisfy every hypothesis of C02_full and make NextEpoch fail:
     (a) sane population, NodeActivators EMPTY, MutateAddNodeProb = 1:   NextEpoch returns error 20
         ("no node activators registered with NEAT options"); reachable from NewPopulation with such options;
     (b) sane population AND sane options (one activator), but the population's innovation record holds the
         link innovation (4 -> 4, recurrent, number 99, weight 0.5, trait index 7) while every genome has three
         traits; MutateOnlyProb = MutateAddLinkProb = RecurOnlyProb = 1: NextEpoch panics, index out of range
         (code 2; the implementation: "index out of range [7] with length 3").  Not reachable from
         NewPopulation + NextEpoch (the record is empty between epochs and the mutators only store indices
         they drew below len(Traits)); it takes a call of the public Population.StoreInnovation.
   Both were replayed on the implementation (see REPORT.md of agent-full).
   The corrected statement adds exactly the three missing hypotheses and follows from
   EpochTotalBaby.next_epoch_total. *)
From Coq Require Import ZArith List Floats Lia.
Import ListNotations.
Open Scope Z_scope.
From NeatModel Require Import Res F64 GoRand GoSource Genome Options GenomeLit Population WF PopBase PopRepro PopInv PopNoErr.
From NeatModel Require Import Mutate Dup Registry PopWF EpochTotalDefs EpochTotalMut EpochTotalBaby EpochTotalQuota EpochTotalSurv EpochTotal.

Notation innovs := Genome.innovs.

(* ---------- the statement (verbatim copy of Definition C02_full of props/C02.v) ---------- *)
Definition epoch_full_statement : Prop := forall o gen p x s,
  Part p -> Fresh p -> zlen (p_orgs p) < 2 ^ 31 -> survivors_ok o -> survives o p -> 0 < o_pop_size o ->
  PrimFloat.eqb (o_compat_thresh o) 0 = false ->
  (forall p1 sorted best s1, prepare o p s = Ok ((p1, sorted, best), s1) ->
                             sum_exp (p_species p1) = o_pop_size o) ->
  (forall k y, In k (p_orgs p) -> hget (p_heap p) k = Ok y -> wf (o_genome y)) ->
  Forall (fun c => 0 <= c < 2 ^ 63) (s_tape s) ->
  (exists r, next_epoch o gen p x s = Ok r) \/ next_epoch o gen p x s = OutOfTape.

(* ---------- the corrected statement: C02_full plus the three environment hypotheses ---------- *)
Definition epoch_full_corrected : Prop := forall C o gen p x s R NR,
  Part p -> Fresh p -> zlen (p_orgs p) < 2 ^ 31 -> survivors_ok o -> survives o p -> 0 < o_pop_size o ->
  PrimFloat.eqb (o_compat_thresh o) 0 = false ->
  (forall p1 sorted best s1, prepare o p s = Ok ((p1, sorted, best), s1) ->
                             sum_exp (p_species p1) = o_pop_size o) ->
  (forall k y, In k (p_orgs p) -> hget (p_heap p) k = Ok y -> wf (o_genome y)) ->
  Forall (fun c => 0 <= c < 2 ^ 63) (s_tape s) ->
  GInv C p (s_env s) R NR -> records_traits_ok (s_env s) (zlen (c_tshape C)) -> acts_ok o ->
  (exists r, next_epoch o gen p x s = Ok r) \/ next_epoch o gen p x s = OutOfTape.

Theorem epoch_full_corrected_holds : epoch_full_corrected.
Proof.
  intros C o gen p x s R NR HP Fr Hsmall Sv Hal Hpos Hc Hq _ Ht G Hrec HA.
  apply (next_epoch_total C o gen p x s R NR); auto. now apply acts_ok_safe.
Qed.

(* ---------- every hypothesis of C02_full holds after NewPopulation + fitness assignment ---------- *)
(* ... in whatever innovation environment (any state s1 on the tape NewPopulation left) the epoch is then run:
   C02_full does not mention it *)
Lemma full_hyps_from_spawn o g s0 p s fs h s1 :
  wf g -> innovs (s_env s0) = [] -> tape_ok (s_tape s0) -> new_population o g s0 = Ok (p, s) ->
  set_fitness (p_heap p) (p_orgs p) fs = Ok h ->
  0 < o_pop_size o < 2 ^ 31 ->
  PrimFloat.leb 0%float (o_survival o) = true -> PrimFloat.leb (o_survival o) 1%float = true ->
  quota_sum_ok o (p_with_heap p h) ->
  s_tape s1 = s_tape s ->
  let q := p_with_heap p h in
  Part q /\ Fresh q /\ zlen (p_orgs q) < 2 ^ 31 /\ survivors_ok o /\ survives o q /\
  (forall p1 sorted best s2, prepare o q s1 = Ok ((p1, sorted, best), s2) -> sum_exp (p_species p1) = o_pop_size o) /\
  (forall k y, In k (p_orgs q) -> hget (p_heap q) k = Ok y -> wf (o_genome y)) /\
  Forall (fun c => 0 <= c < 2 ^ 63) (s_tape s1) /\
  (exists R NR, GInv (ctx_of g) q (s_env s) R NR) /\ innovs (s_env s) = [].
Proof.
  intros W Ei Ht Hn Hf Hpop S0 S1 Hq Es q.
  pose proof (run_inv_spawn o g s0 p s W Ei Ht Hn) as I0.
  pose proof (run_inv_fitness _ _ _ _ _ _ I0 Hf) as I1. fold q in I1.
  destruct I1 as [A B D (R & NR & G) E F T].
  split; [exact A|]. split; [exact B|]. split; [lia|]. split; [now apply survivors_ok_unit|].
  split; [apply quota_survives; auto; lia|].
  split. { intros p1 sorted best s2 Ep. eapply prepare_quota_total; eauto; lia. }
  split. { intros k y _ Hy. apply hget_In in Hy. exact (gk_wf _ _ _ _ _ (gi_orgs _ _ _ _ _ G y Hy)). }
  split; [rewrite Es; exact T|]. split; [exists R, NR; exact G|exact E].
Qed.

(* ---------- the two witnesses ---------- *)
Definition ok_or {A} (r : res A) (d : A) : A := match r with Ok a => a | _ => d end.
Lemma ok_or_eq {A} (r : res A) (d : A) : is_ok r = true -> r = Ok (ok_or r d).
Proof. destruct r; try discriminate. reflexivity. Qed.

(* coqGenome(readPlain(xorStart, 1)) *)
Definition w_start : genome :=
  GN 1 [(T 1 [0x1.999999999999ap-04%float; zero; zero; zero; zero; zero; zero; zero]);
        (T 2 [0x1.999999999999ap-03%float; zero; zero; zero; zero; zero; zero; zero]);
        (T 3 [0x1.3333333333333p-02%float; zero; zero; zero; zero; zero; zero; zero])]
       [(N 1 1 17 None); (N 2 1 17 None); (N 3 3 17 None); (N 4 2 4 None)]
       [(G 1 4 false zero (Some 1) 1 zero true); (G 2 4 false zero (Some 2) 2 zero true);
        (G 3 4 false zero (Some 3) 3 zero true)] [].
Definition w_s0 : st := {| s_tape := go_tape 42 4000; s_env := EV [] 0 0 |}.
Definition w_fit : list float := [1; 2; 3; 4; 5; 6]%float.
Definition w_x0 : executor := {| x_best_id := 0; x_best_reproduced := false |}.
Definition d_pop : population :=
  {| p_species := []; p_detached := []; p_orgs := []; p_heap := []; p_last_species := 0; p_highest := 0%float;
     p_epochs_highest := 0; p_next_key := 0 |}.

(* (a) baseOptions() with PopSize 6, CompatThreshold 6, AgeSignificance 1, BabiesStolen 0, MutateAddNodeProb 1,
       MateOnlyProb 0, NodeActivators = [] , NodeActivatorsProb = [] *)
Definition wa_opts : options :=
  OPT [0x1p-01%float; 0x1p+00%float; 0x1.4p+01%float; 0x1p+00%float; 0x1p+00%float; 0x1.999999999999ap-02%float;
       0x1.8p+02%float; 0x1p+00%float; 0x1.999999999999ap-03%float; 0x1p-02%float; 0x1.999999999999ap-04%float;
       0x1.999999999999ap-04%float; 0x1.999999999999ap-04%float; 0x1.ccccccccccccdp-01%float; zero; zero; 0x1p+00%float;
       0x1.47ae147ae147bp-04%float; 0x1p-01%float; 0x1.0624dd2f1a9fcp-10%float; 0x1.3333333333333p-02%float;
       0x1.3333333333333p-02%float; 0x1.3333333333333p-02%float; zero; zero] 6 50 50 0 false [] [].
(* (b) baseOptions() with PopSize 6, CompatThreshold 6, AgeSignificance 1, BabiesStolen 0, MutateOnlyProb 1,
       MutateAddNodeProb 0, MutateAddLinkProb 1, RecurOnlyProb 1, MateOnlyProb 0 (NodeActivators = [SigmoidSteepened]) *)
Definition wb_opts : options :=
  OPT [0x1p-01%float; 0x1p+00%float; 0x1.4p+01%float; 0x1p+00%float; 0x1p+00%float; 0x1.999999999999ap-02%float;
       0x1.8p+02%float; 0x1p+00%float; 0x1.999999999999ap-03%float; 0x1p+00%float; 0x1.999999999999ap-04%float;
       0x1.999999999999ap-04%float; 0x1.999999999999ap-04%float; 0x1.ccccccccccccdp-01%float; zero; zero; zero;
       0x1p+00%float; 0x1p-01%float; 0x1.0624dd2f1a9fcp-10%float; 0x1.3333333333333p-02%float;
       0x1.3333333333333p-02%float; 0x1.3333333333333p-02%float; zero; 0x1p+00%float] 6 50 50 0 false [4] [0x1p+00%float].
(* NewInnovationForRecurrentLink(4, 4, 99, 0.5, 7, true) *)
Definition wb_record : innovation := IV 2 4 4 99 0 0x1p-01%float 7 0 0 true.

Definition wa_p : population := fst (ok_or (new_population wa_opts w_start w_s0) (d_pop, w_s0)).
Definition wa_s : st := snd (ok_or (new_population wa_opts w_start w_s0) (d_pop, w_s0)).
Definition wa_h : list organism := ok_or (set_fitness (p_heap wa_p) (p_orgs wa_p) w_fit) [].
Definition wb_p : population := fst (ok_or (new_population wb_opts w_start w_s0) (d_pop, w_s0)).
Definition wb_s : st := snd (ok_or (new_population wb_opts w_start w_s0) (d_pop, w_s0)).
Definition wb_h : list organism := ok_or (set_fitness (p_heap wb_p) (p_orgs wb_p) w_fit) [].
(* the innovation environment of (b): the counters NewPopulation left, and the one stored record *)
Definition wb_env : ienv :=
  {| innovs := [wb_record]; next_innov := next_innov (s_env wb_s); next_node := next_node (s_env wb_s) |}.

Lemma w_start_wf : wf w_start.
Proof.
  constructor.
  - discriminate.
  - unfold genes_sorted, InsertSpec.asc. cbn. repeat constructor.
  - unfold links_nodup. cbn. repeat constructor; cbn; intuition discriminate.
  - unfold nodes_sorted, InsertSpec.asc. cbn. repeat constructor.
  - intros y [<-|[<-|[<-|[]]]]; cbn; eexists; eexists; repeat split.
  - split.
    + intros y t [<-|[<-|[<-|[]]]] [= <-]; (split; [discriminate|]); cbn; eauto 8.
    + intros n t [<-|[<-|[<-|[<-|[]]]]]; discriminate.
  - split; [discriminate|]. exists 1. split; [reflexivity|reflexivity].
  - exists (N 4 2 4 None). split; [cbn; auto|reflexivity].
  - reflexivity.
Qed.
Lemma w_tape_ok : tape_ok (s_tape w_s0).
Proof. apply tape_okb_ok. vm_compute. reflexivity. Qed.

Lemma wa_np_ok : new_population wa_opts w_start w_s0 = Ok (wa_p, wa_s).
Proof. unfold wa_p, wa_s. rewrite <- surjective_pairing. apply ok_or_eq. vm_compute. reflexivity. Qed.
Lemma wa_sf_ok : set_fitness (p_heap wa_p) (p_orgs wa_p) w_fit = Ok wa_h.
Proof. unfold wa_h. apply ok_or_eq. vm_compute. reflexivity. Qed.
Lemma wa_quota : quota_sum_ok wa_opts (p_with_heap wa_p wa_h).
Proof. apply quota_sum_okb_ok. vm_compute. reflexivity. Qed.
Lemma wa_fails : next_epoch wa_opts 1 (p_with_heap wa_p wa_h) w_x0 wa_s = GoErr 20.
Proof. vm_compute. reflexivity. Qed.
Lemma wa_opts_facts :
  0 < o_pop_size wa_opts < 2 ^ 31 /\ PrimFloat.leb 0%float (o_survival wa_opts) = true /\
  PrimFloat.leb (o_survival wa_opts) 1%float = true /\ PrimFloat.eqb (o_compat_thresh wa_opts) 0 = false /\
  o_activators wa_opts = [].
Proof. vm_compute. repeat split; congruence. Qed.

Lemma wb_np_ok : new_population wb_opts w_start w_s0 = Ok (wb_p, wb_s).
Proof. unfold wb_p, wb_s. rewrite <- surjective_pairing. apply ok_or_eq. vm_compute. reflexivity. Qed.
Lemma wb_sf_ok : set_fitness (p_heap wb_p) (p_orgs wb_p) w_fit = Ok wb_h.
Proof. unfold wb_h. apply ok_or_eq. vm_compute. reflexivity. Qed.
Lemma wb_quota : quota_sum_ok wb_opts (p_with_heap wb_p wb_h).
Proof. apply quota_sum_okb_ok. vm_compute. reflexivity. Qed.
Lemma wb_fails : next_epoch wb_opts 1 (p_with_heap wb_p wb_h) w_x0 {| s_tape := s_tape wb_s; s_env := wb_env |} = GoPanic 2.
Proof. vm_compute. reflexivity. Qed.
(* the same state with the record left empty succeeds: the stored record is what breaks the epoch *)
Lemma wb_without_record_ok :
  is_ok (next_epoch wb_opts 1 (p_with_heap wb_p wb_h) w_x0 {| s_tape := s_tape wb_s; s_env := s_env wb_s |}) = true.
Proof. vm_compute. reflexivity. Qed.
Lemma wb_opts_facts :
  0 < o_pop_size wb_opts < 2 ^ 31 /\ PrimFloat.leb 0%float (o_survival wb_opts) = true /\
  PrimFloat.leb (o_survival wb_opts) 1%float = true /\ PrimFloat.eqb (o_compat_thresh wb_opts) 0 = false /\
  acts_ok wb_opts.
Proof. vm_compute. repeat split; congruence. Qed.

Global Opaque wa_p wa_s wa_h wb_p wb_s wb_h w_s0.

(* a failure is neither a success nor "out of tape" *)
Lemma not_safe_err {A} (r : res A) c : r = GoErr c -> ~ ((exists a, r = Ok a) \/ r = OutOfTape).
Proof. intros -> [[a E]|E]; discriminate. Qed.
Lemma not_safe_panic {A} (r : res A) c : r = GoPanic c -> ~ ((exists a, r = Ok a) \/ r = OutOfTape).
Proof. intros -> [[a E]|E]; discriminate. Qed.

(* (b): every hypothesis of C02_full, sane options (acts_ok) on top, and NextEpoch panics *)
Theorem epoch_full_needs_environment :
  exists o gen p x s,
    Part p /\ Fresh p /\ zlen (p_orgs p) < 2 ^ 31 /\ survivors_ok o /\ survives o p /\ 0 < o_pop_size o /\
    PrimFloat.eqb (o_compat_thresh o) 0 = false /\
    (forall p1 sorted best s1, prepare o p s = Ok ((p1, sorted, best), s1) -> sum_exp (p_species p1) = o_pop_size o) /\
    (forall k y, In k (p_orgs p) -> hget (p_heap p) k = Ok y -> wf (o_genome y)) /\
    Forall (fun c => 0 <= c < 2 ^ 63) (s_tape s) /\
    acts_ok o /\
    (exists i, innovs (s_env s) = [i] /\ i_type i = 2 /\ i_trait i = 7 /\
               forall k y, In k (p_orgs p) -> hget (p_heap p) k = Ok y -> zlen (traits (o_genome y)) = 3) /\
    next_epoch o gen p x s = GoPanic 2 /\
    is_ok (next_epoch o gen p x {| s_tape := s_tape s;
                                   s_env := {| innovs := []; next_innov := next_innov (s_env s);
                                               next_node := next_node (s_env s) |} |}) = true.
Proof.
  destruct wb_opts_facts as (Hpop & S0 & S1 & Hc & HA).
  destruct (full_hyps_from_spawn wb_opts w_start w_s0 wb_p wb_s w_fit wb_h {| s_tape := s_tape wb_s; s_env := wb_env |}
              w_start_wf eq_refl w_tape_ok wb_np_ok wb_sf_ok Hpop S0 S1 wb_quota eq_refl) as (A1 & A2 & A3 & A4 & A5 & A6 & A7 & A8 & (R & NR & G) & _).
  exists wb_opts, 1, (p_with_heap wb_p wb_h), w_x0, {| s_tape := s_tape wb_s; s_env := wb_env |}.
  split; [exact A1|]. split; [exact A2|]. split; [exact A3|]. split; [exact A4|]. split; [exact A5|].
  split; [lia|]. split; [exact Hc|]. split; [exact A6|]. split; [exact A7|]. split; [exact A8|]. split; [exact HA|].
  refine (conj _ (conj wb_fails _)); [|vm_compute; reflexivity].
  exists wb_record. split; [reflexivity|]. split; [reflexivity|]. split; [reflexivity|].
  intros k y _ Hy. apply hget_In in Hy. pose proof (gk_tshape _ _ _ _ _ (gi_orgs _ _ _ _ _ G y Hy)) as E.
  unfold zlen. rewrite <- (map_length (fun t => (t_id t, length (t_params t))) (traits (o_genome y))).
  change (Z.of_nat (length (tshape (o_genome y))) = 3). rewrite E. reflexivity.
Qed.

(* (a): every hypothesis of C02_full, and NextEpoch returns an error *)
Theorem epoch_full_needs_activators :
  exists o gen p x s,
    Part p /\ Fresh p /\ zlen (p_orgs p) < 2 ^ 31 /\ survivors_ok o /\ survives o p /\ 0 < o_pop_size o /\
    PrimFloat.eqb (o_compat_thresh o) 0 = false /\
    (forall p1 sorted best s1, prepare o p s = Ok ((p1, sorted, best), s1) -> sum_exp (p_species p1) = o_pop_size o) /\
    (forall k y, In k (p_orgs p) -> hget (p_heap p) k = Ok y -> wf (o_genome y)) /\
    Forall (fun c => 0 <= c < 2 ^ 63) (s_tape s) /\
    o_activators o = [] /\ innovs (s_env s) = [] /\
    next_epoch o gen p x s = GoErr 20.
Proof.
  destruct wa_opts_facts as (Hpop & S0 & S1 & Hc & HA).
  destruct (full_hyps_from_spawn wa_opts w_start w_s0 wa_p wa_s w_fit wa_h wa_s w_start_wf eq_refl w_tape_ok
              wa_np_ok wa_sf_ok Hpop S0 S1 wa_quota eq_refl) as (A1 & A2 & A3 & A4 & A5 & A6 & A7 & A8 & _ & Ei).
  exists wa_opts, 1, (p_with_heap wa_p wa_h), w_x0, wa_s.
  split; [exact A1|]. split; [exact A2|]. split; [exact A3|]. split; [exact A4|]. split; [exact A5|].
  split; [lia|]. split; [exact Hc|]. split; [exact A6|]. split; [exact A7|]. split; [exact A8|]. split; [exact HA|].
  exact (conj Ei wa_fails).
Qed.

Theorem epoch_full_refuted : ~ epoch_full_statement.
Proof.
  intros H.
  destruct epoch_full_needs_environment as (o & gen & p & x & s & A1 & A2 & A3 & A4 & A5 & A6 & A7 & A8 & A9 & A10 & _ & _ & F & _).
  exact (not_safe_panic _ _ F (H o gen p x s A1 A2 A3 A4 A5 A6 A7 A8 A9 A10)).
Qed.
