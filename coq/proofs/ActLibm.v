(* C18, float level, activations that call Go's math library (Exp, Tanh, Sin, Pow).
   Coq cannot compute libm, so the claims are about the binary64 COMPOSITION around the library
   call, for an arbitrary interpretation [L] of the calls that satisfies the section hypotheses
   below (what IEEE-quality implementations of exp/tanh/sin/pow guarantee: no NaN out of thin air,
   sign/range, weak monotonicity).  Under them, for |x| <= 1e300: every result is finite and lies
   in the documented range, and the sigmoid family and tanh are monotonically non-decreasing in the
   numeric order on floats. *)
From Coq Require Import ZArith Reals Lra Lia Bool List.
From Flocq Require Import Core BinarySingleNaN.
From Coq Require Import Floats.
From NeatModel Require Import Res F64 ActRegistry Act ActReal ActFloatBase ActFloat.
Open Scope R_scope.

(* ---------- classification of floats ---------- *)
Lemma float_cases : forall v, fin v \/ v = infinity \/ v = neg_infinity \/ is_nan v = true.
Proof.
  intros v. destruct (FP.Prim2B v) as [s|s| |s m e Hb] eqn:E.
  - left. apply fin_B. now rewrite E.
  - right. rewrite <- (FP.B2Prim_Prim2B v), E.
    destruct s; [right; left; now rewrite FP.neg_infinity_equiv | left; now rewrite FP.infinity_equiv].
  - right. right. right. rewrite FP.is_nan_equiv, E. reflexivity.
  - left. apply fin_B. now rewrite E.
Qed.

Lemma Prim2B_infinity : FP.Prim2B infinity = B754_infinity false.
Proof. rewrite FP.infinity_equiv. apply FP.Prim2B_B2Prim. Qed.
Lemma Prim2B_neg_infinity : FP.Prim2B neg_infinity = B754_infinity true.
Proof. rewrite FP.neg_infinity_equiv. apply FP.Prim2B_B2Prim. Qed.

Lemma inf_leb_fin : forall h, fin h -> (infinity <=? h)%float = false.
Proof.
  intros h H. apply fin_B in H. rewrite FP.leb_equiv, Prim2B_infinity.
  destruct (FP.Prim2B h) as [s|s| |s m e Hb]; try discriminate; reflexivity.
Qed.
Lemma fin_leb_ninf : forall l, fin l -> (l <=? neg_infinity)%float = false.
Proof.
  intros l H. apply fin_B in H. rewrite FP.leb_equiv, Prim2B_neg_infinity.
  destruct (FP.Prim2B l) as [s|s| |s m e Hb]; try discriminate; try reflexivity.
Qed.
Lemma nan_leb_l : forall v h, is_nan v = true -> (v <=? h)%float = false.
Proof.
  intros v h H. rewrite FP.is_nan_equiv in H. rewrite FP.leb_equiv.
  destruct (FP.Prim2B v); try discriminate. reflexivity.
Qed.
Lemma nan_leb_r : forall v l, is_nan v = true -> (l <=? v)%float = false.
Proof.
  intros v l H. rewrite FP.is_nan_equiv in H. rewrite FP.leb_equiv.
  destruct (FP.Prim2B v); try discriminate. destruct (FP.Prim2B l) as [s|s| |s m e Hb]; try reflexivity; destruct s; reflexivity.
Qed.

(* lo <= v <= hi with finite bounds: v is finite and its value is between theirs *)
Lemma between_fin : forall lo hi v, fin lo -> fin hi ->
    (lo <=? v)%float = true -> (v <=? hi)%float = true -> fin v /\ FR lo <= FR v <= FR hi.
Proof.
  intros lo hi v Hl Hh H1 H2.
  destruct (float_cases v) as [F|[->|[->|N]]].
  - split; [exact F|]. split; now apply leb_true_R.
  - rewrite (inf_leb_fin hi Hh) in H2. discriminate.
  - rewrite (fin_leb_ninf lo Hl) in H1. discriminate.
  - rewrite (nan_leb_l v hi N) in H2. discriminate.
Qed.

(* 0 <= v: finite non-negative, or +infinity *)
Lemma nonneg_cases : forall v, (0 <=? v)%float = true -> (fin v /\ 0 <= FR v) \/ v = infinity.
Proof.
  intros v H. destruct (float_cases v) as [F|[->|[->|N]]].
  - left. split; [exact F|]. rewrite <- FR_zero. apply leb_true_R; auto. apply fin_zero.
  - now right.
  - rewrite (fin_leb_ninf 0%float fin_zero) in H. discriminate.
  - rewrite (nan_leb_r v 0%float N) in H. discriminate.
Qed.

Lemma leb_not_nan_l : forall a b, (a <=? b)%float = true -> is_nan a = false.
Proof.
  intros a b H. destruct (is_nan a) eqn:N; [|reflexivity]. now rewrite (nan_leb_l a b N) in H.
Qed.
Lemma leb_not_nan_r : forall a b, (a <=? b)%float = true -> is_nan b = false.
Proof.
  intros a b H. destruct (is_nan b) eqn:N; [|reflexivity]. now rewrite (nan_leb_r b a N) in H.
Qed.

Lemma inf_leb_inv : forall v, (infinity <=? v)%float = true -> v = infinity.
Proof.
  intros v H. destruct (float_cases v) as [F|[->|[->|N]]].
  - now rewrite (inf_leb_fin v F) in H.
  - reflexivity.
  - vm_compute in H. discriminate.
  - now rewrite (nan_leb_r v infinity N) in H.
Qed.

(* ---------- the largest finite float ---------- *)
Lemma FR_max_value : FR c_max_float64 = bpow radix2 emax - bpow radix2 (emax - prec).
Proof.
  rewrite (FR_SF c_max_float64).
  let v := eval vm_compute in (Prim2SF c_max_float64) in change (Prim2SF c_max_float64) with v.
  unfold SF2R, F2R, Fnum, Fexp. change (emax - prec)%Z with 971%Z. change emax with 1024%Z.
  simpl bpow. simpl. lra.
Qed.

Lemma FR_le_max : forall x, Rabs (FR x) <= FR c_max_float64.
Proof. intros x. rewrite FR_max_value. unfold FR. apply abs_B2R_le_emax_minus_prec. apply FP.Hmax. Qed.

Lemma one_plus_max : rnd (1 + FR c_max_float64) = FR c_max_float64.
Proof.
  pose proof (Bplus_correct prec emax _ _ mode_NE (FP.Prim2B 1%float) (FP.Prim2B c_max_float64)) as H.
  assert (F1 : BinarySingleNaN.is_finite (FP.Prim2B 1%float) = true) by (apply fin_B; apply fin_one).
  assert (F2 : BinarySingleNaN.is_finite (FP.Prim2B c_max_float64) = true) by (apply fin_B; apply fin_c_max).
  specialize (H F1 F2). simpl round_mode in H.
  assert (E : (1 + c_max_float64)%float = c_max_float64) by (vm_compute; reflexivity).
  rewrite <- FP.add_equiv, E in H.
  destruct (Rlt_bool _ _).
  - destruct H as [H _]. fold (FR c_max_float64) (FR 1%float) in H. rewrite FR_one in H.
    unfold rnd. symmetry. exact H.
  - destruct H as [H _]. rewrite FP.B2SF_Prim2B in H. vm_compute in H. discriminate.
Qed.

(* ---------- n / (1 + e) for e >= 0 (possibly +inf) and a small positive numerator n ---------- *)
Section Quot.
Variable n : float.
Hypothesis fin_n : fin n.
Hypothesis n_pos : 0 < FR n.
Hypothesis n_inf : (n / (1 + infinity))%float = 0%float.

Definition quot (e : float) : float := (n / (1 + e))%float.

Lemma one_plus_fin : forall e, fin e -> 0 <= FR e ->
    fin (1 + e)%float /\ FR (1 + e)%float = rnd (1 + FR e) /\ 1 <= FR (1 + e)%float.
Proof.
  intros e He Hp.
  assert (B : FR 1%float <= 1 + FR e <= FR c_max_float64 -> False \/ True) by tauto.
  pose proof (FR_le_max e) as M. rewrite Rabs_pos_eq in M by assumption.
  assert (U : rnd (1 + FR e) <= FR c_max_float64).
  { rewrite <- one_plus_max. apply rnd_le. lra. }
  assert (L1 : 1 <= rnd (1 + FR e)).
  { rewrite <- FR_one at 1. rewrite <- (rnd_FR 1%float). apply rnd_le. rewrite FR_one. lra. }
  destruct (add_R 1%float e fin_one He) as [Ed Fd].
  { rewrite FR_one. pose proof (FR_lt_emax c_max_float64) as X. apply Rabs_def2 in X.
    apply Rabs_def1; lra. }
  rewrite FR_one in Ed. split; [exact Fd|]. split; [exact Ed|]. rewrite Ed. exact L1.
Qed.

Lemma quot_fin : forall e, fin e -> 0 <= FR e ->
    fin (quot e) /\ FR (quot e) = rnd (FR n / rnd (1 + FR e)) /\ 0 <= FR (quot e) <= FR n.
Proof.
  intros e He Hp. unfold quot.
  destruct (one_plus_fin e He Hp) as (Fd & Ed & D1).
  assert (Q : 0 <= FR n / FR (1 + e)%float <= FR n).
  { split.
    - apply Rmult_le_pos; [lra|]. left. apply Rinv_0_lt_compat. lra.
    - apply (Rmult_le_reg_r (FR (1 + e)%float)); [lra|].
      unfold Rdiv. rewrite Rmult_assoc, Rinv_l by lra. nra. }
  destruct (div_R n (1 + e)%float fin_n) as [Eq Fq].
  { lra. }
  { apply (rnd_no_overflow _ 0%float n). rewrite FR_zero. exact Q. }
  split; [exact Fq|]. split; [now rewrite Eq, Ed|].
  rewrite Eq. rewrite <- FR_zero at 1. apply rnd_between. rewrite FR_zero. exact Q.
Qed.

(* result for every admissible e *)
Lemma quot_range : forall e, (0 <=? e)%float = true -> fin (quot e) /\ 0 <= FR (quot e) <= FR n.
Proof.
  intros e H. destruct (nonneg_cases e H) as [[He Hp]| ->].
  - destruct (quot_fin e He Hp) as (F & _ & R). now split.
  - unfold quot. rewrite n_inf. split; [apply fin_zero|]. rewrite FR_zero. lra.
Qed.

Lemma quot_antitone : forall e1 e2, (0 <=? e1)%float = true -> (e1 <=? e2)%float = true ->
    (quot e2 <=? quot e1)%float = true.
Proof.
  intros e1 e2 H1 H12.
  destruct (quot_range e1 H1) as [F1 R1].
  destruct (nonneg_cases e1 H1) as [[He1 Hp1]| ->].
  - destruct (float_cases e2) as [He2|[->|[->|N]]].
    + assert (Hp2 : FR e1 <= FR e2) by now apply leb_true_R.
      destruct (quot_fin e1 He1 Hp1) as (_ & E1 & _).
      destruct (quot_fin e2 He2) as (F2 & E2 & _); [lra|].
      apply leb_of_R; try assumption. rewrite E1, E2. apply rnd_le.
      assert (D1 : 1 <= rnd (1 + FR e1)).
      { rewrite <- FR_one at 1. rewrite <- (rnd_FR 1%float). apply rnd_le. rewrite FR_one. lra. }
      assert (D12 : rnd (1 + FR e1) <= rnd (1 + FR e2)) by (apply rnd_le; lra).
      apply div_le; nra.
    + unfold quot at 1. rewrite n_inf. apply leb_of_R; [apply fin_zero|exact F1|]. rewrite FR_zero. lra.
    + rewrite (fin_leb_ninf e1 He1) in H12. discriminate.
    + rewrite (nan_leb_r e2 e1 N) in H12. discriminate.
  - apply inf_leb_inv in H12. subst e2. apply leb_refl_fin. exact F1.
Qed.
End Quot.

Lemma fin_two : fin 2%float. Proof. fin_c. Qed.

(* ---------- scaling the input by a source constant ---------- *)
Definition c_8e300 : float := 0x1.7e43c8800759cp+999.   (* 8 * 1e300, exactly *)
Lemma fin_8e300 : fin c_8e300. Proof. fin_c. Qed.
Lemma FR_8e300 : FR c_8e300 = 8 * FR c_1e300 /\ FR c_8e300 + 4 <= FR c_max_float64.
Proof.
  rewrite (FR_SF c_1e300), (FR_SF c_max_float64), (FR_SF c_8e300).
  let v := eval vm_compute in (Prim2SF c_1e300) in change (Prim2SF c_1e300) with v.
  let v := eval vm_compute in (Prim2SF c_max_float64) in change (Prim2SF c_max_float64) with v.
  let v := eval vm_compute in (Prim2SF c_8e300) in change (Prim2SF c_8e300) with v.
  unfold SF2R, F2R, Fnum, Fexp. simpl bpow. simpl. lra.
Qed.

(* c * x for |c| <= 8 and x in the domain: finite, bounded by 8e300, = the rounded product *)
Lemma scale_R : forall c x, fin c -> Rabs (FR c) <= 8 -> in_domain x ->
    fin (c * x)%float /\ FR (c * x)%float = rnd (FR c * FR x) /\ Rabs (FR (c * x)%float) <= FR c_8e300.
Proof.
  intros c x Hc Hc8 Hd.
  pose proof (in_domain_fin x Hd) as Hx. pose proof (in_domain_R x Hd) as HX.
  destruct FR_8e300 as [E8 _]. destruct big_constants as [_ BP].
  assert (P : - FR c_8e300 <= FR c * FR x <= FR c_8e300).
  { rewrite E8. assert (Rabs (FR c * FR x) <= 8 * FR c_1e300).
    { rewrite Rabs_mult. pose proof (Rabs_pos (FR c)). pose proof (Rabs_pos (FR x)). nra. }
    apply Rabs_le_inv in H. lra. }
  rewrite <- FR_opp in P.
  destruct (mul_R c x Hc Hx) as [E F].
  { apply (rnd_no_overflow _ (- c_8e300)%float c_8e300). exact P. }
  split; [exact F|]. split; [exact E|].
  rewrite E. apply rnd_between in P. rewrite FR_opp in P. apply Rabs_le. lra.
Qed.

(* adding a small constant afterwards *)
Lemma shift_R : forall t k, fin t -> fin k -> Rabs (FR t) <= FR c_8e300 -> Rabs (FR k) <= 4 ->
    fin (t + k)%float /\ FR (t + k)%float = rnd (FR t + FR k)
    /\ fin (t - k)%float /\ FR (t - k)%float = rnd (FR t - FR k).
Proof.
  intros t k Ht Hk Bt Bk. destruct FR_8e300 as [_ E8].
  apply Rabs_le_inv in Bt. apply Rabs_le_inv in Bk.
  destruct (add_R t k Ht Hk) as [E1 F1].
  { apply (rnd_no_overflow _ (- c_max_float64)%float c_max_float64). rewrite FR_opp. lra. }
  destruct (sub_R t k Ht Hk) as [E2 F2].
  { apply (rnd_no_overflow _ (- c_max_float64)%float c_max_float64). rewrite FR_opp. lra. }
  tauto.
Qed.

Lemma FR_steep : 0 < FR c_4_924273 <= 8.
Proof. unfold c_4_924273. fr_const 0x1.3b2749f0e4da1p+2%float. Qed.
Lemma FR_shift : 0 < FR c_2_4621365 <= 4.
Proof. unfold c_2_4621365. fr_const 0x1.3b2749f0e4da1p+1%float. Qed.
Lemma FR_09 : 0 < FR c_0_9 <= 8.
Proof. unfold c_0_9. fr_const 0x1.ccccccccccccdp-1%float. Qed.
Lemma FR_25 : 0 < FR c_2_5 <= 8.
Proof. unfold c_2_5. fr_const 0x1.4p+1%float. Qed.
Lemma fin_steep : fin c_4_924273. Proof. fin_c. Qed.
Lemma fin_shift : fin c_2_4621365. Proof. fin_c. Qed.
Lemma fin_09 : fin c_0_9. Proof. fin_c. Qed.
Lemma fin_25 : fin c_2_5. Proof. fin_c. Qed.

(* the seven arguments handed to math.Exp by the sigmoid family: finite, and antitone in x *)
Definition arg_plain (x : float) : float := (- x)%float.
Definition arg_reduced (x : float) : float := ((- c_half) * x)%float.
Definition arg_steep (x : float) : float := ((- c_4_924273) * x)%float.
Definition arg_left (x : float) : float := ((- x) - c_2_4621365)%float.
Definition arg_left_steep (x : float) : float := (- (c_4_924273 * x + c_2_4621365))%float.
Definition arg_right_steep (x : float) : float := (- (c_4_924273 * x - c_2_4621365))%float.

Definition antitone_arg (A : float -> float) : Prop :=
  (forall x, in_domain x -> fin (A x)) /\
  (forall x y, in_domain x -> in_domain y -> (x <=? y)%float = true -> (A y <=? A x)%float = true).

Lemma antitone_from_R : forall (A : float -> float) (AR : R -> R),
    (forall x, in_domain x -> fin (A x) /\ FR (A x) = AR (FR x)) ->
    (forall X Y, X <= Y -> AR Y <= AR X) -> antitone_arg A.
Proof.
  intros A AR H M. split.
  - intros x Hx. now destruct (H x Hx).
  - intros x y Hx Hy Hxy. destruct (H x Hx) as [Fx Ex]. destruct (H y Hy) as [Fy Ey].
    apply leb_of_R; try assumption. rewrite Ex, Ey. apply M.
    apply leb_true_R; auto using in_domain_fin.
Qed.

Lemma arg_plain_ok : antitone_arg arg_plain.
Proof.
  apply (antitone_from_R _ (fun X => - X)).
  - intros x Hx. unfold arg_plain. split; [apply fin_opp; now apply in_domain_fin|apply FR_opp].
  - intros. lra.
Qed.

Lemma arg_reduced_ok : antitone_arg arg_reduced.
Proof.
  apply (antitone_from_R _ (fun X => rnd (-0.5 * X))).
  - intros x Hx. unfold arg_reduced.
    destruct (scale_R (- c_half)%float x) as (F & E & _); [apply fin_opp, fin_half| |exact Hx|].
    + rewrite FR_opp. unfold c_half. rewrite FR_half. rewrite Rabs_Ropp, Rabs_pos_eq; lra.
    + split; [exact F|]. rewrite E, FR_opp. unfold c_half. rewrite FR_half. f_equal. lra.
  - intros. apply rnd_le. lra.
Qed.

Lemma arg_steep_ok : antitone_arg arg_steep.
Proof.
  pose proof FR_steep as K.
  apply (antitone_from_R _ (fun X => rnd (- FR c_4_924273 * X))).
  - intros x Hx. unfold arg_steep.
    destruct (scale_R (- c_4_924273)%float x) as (F & E & _); [apply fin_opp, fin_steep| |exact Hx|].
    + rewrite FR_opp, Rabs_Ropp, Rabs_pos_eq; lra.
    + split; [exact F|]. now rewrite E, FR_opp.
  - intros. apply rnd_le. nra.
Qed.

Lemma arg_left_ok : antitone_arg arg_left.
Proof.
  pose proof FR_shift as K.
  apply (antitone_from_R _ (fun X => rnd (- X - FR c_2_4621365))).
  - intros x Hx. unfold arg_left.
    pose proof (in_domain_fin x Hx) as Fx. pose proof (in_domain_R x Hx) as HX.
    destruct FR_8e300 as [E8 _]. destruct big_constants as [_ BP].
    destruct (shift_R (- x)%float c_2_4621365) as (_ & _ & F & E); [now apply fin_opp|apply fin_shift| | |].
    + rewrite FR_opp, Rabs_Ropp. lra.
    + rewrite Rabs_pos_eq; lra.
    + split; [exact F|]. now rewrite E, FR_opp.
  - intros. apply rnd_le. lra.
Qed.

Lemma arg_left_steep_ok : antitone_arg arg_left_steep.
Proof.
  pose proof FR_steep as K. pose proof FR_shift as K2.
  apply (antitone_from_R _ (fun X => - rnd (rnd (FR c_4_924273 * X) + FR c_2_4621365))).
  - intros x Hx. unfold arg_left_steep.
    destruct (scale_R c_4_924273 x) as (F & E & B); [apply fin_steep| |exact Hx|].
    + rewrite Rabs_pos_eq; lra.
    + destruct (shift_R (c_4_924273 * x)%float c_2_4621365 F fin_shift B) as (F2 & E2 & _).
      { rewrite Rabs_pos_eq; lra. }
      split; [now apply fin_opp|]. now rewrite FR_opp, E2, E.
  - intros. apply Ropp_le_contravar. apply rnd_le.
    assert (rnd (FR c_4_924273 * X) <= rnd (FR c_4_924273 * Y)) by (apply rnd_le; nra). lra.
Qed.

Lemma arg_right_steep_ok : antitone_arg arg_right_steep.
Proof.
  pose proof FR_steep as K. pose proof FR_shift as K2.
  apply (antitone_from_R _ (fun X => - rnd (rnd (FR c_4_924273 * X) - FR c_2_4621365))).
  - intros x Hx. unfold arg_right_steep.
    destruct (scale_R c_4_924273 x) as (F & E & B); [apply fin_steep| |exact Hx|].
    + rewrite Rabs_pos_eq; lra.
    + destruct (shift_R (c_4_924273 * x)%float c_2_4621365 F fin_shift B) as (_ & _ & F2 & E2).
      { rewrite Rabs_pos_eq; lra. }
      split; [now apply fin_opp|]. now rewrite FR_opp, E2, E.
  - intros. apply Ropp_le_contravar. apply rnd_le.
    assert (rnd (FR c_4_924273 * X) <= rnd (FR c_4_924273 * Y)) by (apply rnd_le; nra). lra.
Qed.

(* ------------------------------------------------------------------------------------------ *)
(* the claims, relative to the library                                                         *)
(* ------------------------------------------------------------------------------------------ *)
Section LibmRelative.
Variable L : libm_fn -> float -> float -> float.

Definition exp_fl (a : float) : float := L LExp a 0%float.
Definition tanh_fl (a : float) : float := L LTanh a 0%float.
Definition sin_fl (a : float) : float := L LSin a 0%float.
Definition pow2_fl (a : float) : float := L LPow a 2%float.

(* what is assumed of math.Exp: a non-NaN argument gives a non-negative result (possibly +Inf),
   weakly monotone, and at most 1 on non-positive arguments *)
Hypothesis exp_nonneg : forall a, is_nan a = false -> (0 <=? exp_fl a)%float = true.
Hypothesis exp_mono : forall a b, (a <=? b)%float = true -> (exp_fl a <=? exp_fl b)%float = true.
Hypothesis exp_le_one : forall a, (a <=? 0)%float = true -> (exp_fl a <=? 1)%float = true.
(* math.Tanh: into [-1, 1], weakly monotone *)
Hypothesis tanh_range : forall a, is_nan a = false -> (-1 <=? tanh_fl a)%float = true /\ (tanh_fl a <=? 1)%float = true.
Hypothesis tanh_mono : forall a b, (a <=? b)%float = true -> (tanh_fl a <=? tanh_fl b)%float = true.
(* math.Sin: into [-1, 1] on finite arguments *)
Hypothesis sin_range : forall a, fin a -> (-1 <=? sin_fl a)%float = true /\ (sin_fl a <=? 1)%float = true.
(* math.Pow(a, 2): non-negative (possibly +Inf) for a non-NaN argument *)
Hypothesis pow2_nonneg : forall a, is_nan a = false -> (0 <=? pow2_fl a)%float = true.

Lemma one_inf : (1 / (1 + infinity))%float = 0%float. Proof. vm_compute. reflexivity. Qed.
Lemma two_inf : (2 / (1 + infinity))%float = 0%float. Proof. vm_compute. reflexivity. Qed.
Lemma one_posR : 0 < FR 1%float. Proof. rewrite FR_one. lra. Qed.
Lemma two_posR : 0 < FR 2%float. Proof. rewrite FR_two. lra. Qed.

(* 1/(1+exp(A x)) for an antitone argument A *)
Lemma sigmoid_shape : forall A, antitone_arg A ->
    (forall x, in_domain x ->
       fin (quot 1%float (exp_fl (A x))) /\ 0 <= FR (quot 1%float (exp_fl (A x))) <= 1) /\
    (forall x y, in_domain x -> in_domain y -> (x <=? y)%float = true ->
       (quot 1%float (exp_fl (A x)) <=? quot 1%float (exp_fl (A y)))%float = true).
Proof.
  intros A [AF AM]. split.
  - intros x Hx. rewrite <- FR_one.
    apply (quot_range 1%float fin_one one_posR one_inf). apply exp_nonneg. apply fin_not_nan. now apply AF.
  - intros x y Hx Hy Hxy.
    apply (quot_antitone 1%float fin_one one_posR one_inf).
    + apply exp_nonneg. apply fin_not_nan. now apply AF.
    + apply exp_mono. now apply AM.
Qed.

Definition sigmoid_claim (f : float -> comp) : Prop :=
  (forall x, in_domain x -> fin (run L (f x)) /\ 0 <= FR (run L (f x)) <= 1) /\
  (forall x y, in_domain x -> in_domain y -> (x <=? y)%float = true -> (run L (f x) <=? run L (f y))%float = true).

Lemma plainSigmoid_libm : sigmoid_claim plainSigmoid.
Proof. exact (sigmoid_shape arg_plain arg_plain_ok). Qed.
Lemma reducedSigmoid_libm : sigmoid_claim reducedSigmoid.
Proof. exact (sigmoid_shape arg_reduced arg_reduced_ok). Qed.
Lemma steepenedSigmoid_libm : sigmoid_claim steepenedSigmoid.
Proof. exact (sigmoid_shape arg_steep arg_steep_ok). Qed.
Lemma leftShiftedSigmoid_libm : sigmoid_claim leftShiftedSigmoid.
Proof. exact (sigmoid_shape arg_left arg_left_ok). Qed.
Lemma leftShiftedSteepenedSigmoid_libm : sigmoid_claim leftShiftedSteepenedSigmoid.
Proof. exact (sigmoid_shape arg_left_steep arg_left_steep_ok). Qed.
Lemma rightShiftedSteepenedSigmoid_libm : sigmoid_claim rightShiftedSteepenedSigmoid.
Proof. exact (sigmoid_shape arg_right_steep arg_right_steep_ok). Qed.

(* bipolar sigmoid: 2/(1+e) - 1 in [-1, 1], monotone *)
Lemma bipolar_out : forall q, fin q -> 0 <= FR q <= 2 ->
    fin (q - 1)%float /\ FR (q - 1)%float = rnd (FR q - 1) /\ -1 <= FR (q - 1)%float <= 1.
Proof.
  intros q Fq Rq.
  destruct (sub_R q 1%float Fq fin_one) as [E F].
  { rewrite FR_one. apply (rnd_no_overflow _ (-1)%float 1%float). rewrite FR_mone, FR_one. lra. }
  rewrite FR_one in E. split; [exact F|]. split; [exact E|].
  rewrite E. rewrite <- FR_mone, <- FR_one. apply rnd_between. rewrite FR_mone, FR_one. lra.
Qed.

Lemma bipolarSigmoid_libm :
  (forall x, in_domain x -> fin (run L (bipolarSigmoid x)) /\ -1 <= FR (run L (bipolarSigmoid x)) <= 1) /\
  (forall x y, in_domain x -> in_domain y -> (x <=? y)%float = true ->
     (run L (bipolarSigmoid x) <=? run L (bipolarSigmoid y))%float = true).
Proof.
  destruct arg_steep_ok as [AF AM].
  assert (Q : forall x, in_domain x ->
           fin (quot 2%float (exp_fl (arg_steep x))) /\ 0 <= FR (quot 2%float (exp_fl (arg_steep x))) <= 2).
  { intros x Hx. rewrite <- FR_two.
    apply (quot_range 2%float fin_two two_posR two_inf). apply exp_nonneg, fin_not_nan. now apply AF. }
  split.
  - intros x Hx. destruct (Q x Hx) as [F R].
    destruct (bipolar_out _ F R) as (F' & _ & R'). split; assumption.
  - intros x y Hx Hy Hxy.
    destruct (Q x Hx) as [Fx Rx]. destruct (Q y Hy) as [Fy Ry].
    destruct (bipolar_out _ Fx Rx) as (Fx' & Ex & _). destruct (bipolar_out _ Fy Ry) as (Fy' & Ey & _).
    change (run L (bipolarSigmoid x)) with (quot 2%float (exp_fl (arg_steep x)) - 1)%float.
    change (run L (bipolarSigmoid y)) with (quot 2%float (exp_fl (arg_steep y)) - 1)%float.
    apply leb_of_R; try assumption. rewrite Ex, Ey. apply rnd_le.
    assert (M : (quot 2%float (exp_fl (arg_steep x)) <=? quot 2%float (exp_fl (arg_steep y)))%float = true).
    { apply (quot_antitone 2%float fin_two two_posR two_inf).
      - apply exp_nonneg, fin_not_nan. now apply AF.
      - apply exp_mono. now apply AM. }
    apply leb_true_R in M; try assumption. lra.
Qed.

(* tanh(0.9 x) *)
Lemma hyperbolicTangent_libm :
  (forall x, in_domain x -> fin (run L (hyperbolicTangent x)) /\ -1 <= FR (run L (hyperbolicTangent x)) <= 1) /\
  (forall x y, in_domain x -> in_domain y -> (x <=? y)%float = true ->
     (run L (hyperbolicTangent x) <=? run L (hyperbolicTangent y))%float = true).
Proof.
  pose proof FR_09 as K.
  assert (S : forall x, in_domain x -> fin (c_0_9 * x)%float /\ FR (c_0_9 * x)%float = rnd (FR c_0_9 * FR x)).
  { intros x Hx. destruct (scale_R c_0_9 x fin_09) as (F & E & _); [rewrite Rabs_pos_eq; lra|exact Hx|tauto]. }
  split.
  - intros x Hx. destruct (S x Hx) as [F _].
    destruct (tanh_range (c_0_9 * x)%float (fin_not_nan _ F)) as [T1 T2].
    destruct (between_fin (-1)%float 1%float _ fin_mone fin_one T1 T2) as [FT RT].
    rewrite FR_mone, FR_one in RT. split; assumption.
  - intros x y Hx Hy Hxy. destruct (S x Hx) as [Fx Ex]. destruct (S y Hy) as [Fy Ey].
    apply tanh_mono. apply leb_of_R; try assumption. rewrite Ex, Ey. apply rnd_le.
    apply leb_true_R in Hxy; auto using in_domain_fin. nra.
Qed.

(* exp(-p) for p = pow(a, 2) >= 0: in [0, 1] *)
Lemma neg_nonneg : forall p, (0 <=? p)%float = true -> (- p <=? 0)%float = true.
Proof.
  intros p H. destruct (nonneg_cases p H) as [[F P]| ->].
  - apply leb_of_R; [now apply fin_opp|apply fin_zero|]. rewrite FR_opp, FR_zero. lra.
  - vm_compute. reflexivity.
Qed.

Lemma gauss_core : forall a, is_nan a = false ->
    fin (exp_fl (- pow2_fl a)) /\ 0 <= FR (exp_fl (- pow2_fl a)) <= 1.
Proof.
  intros a Na. pose proof (pow2_nonneg a Na) as P. pose proof (neg_nonneg _ P) as N.
  pose proof (exp_le_one _ N) as U.
  pose proof (exp_nonneg _ (leb_not_nan_l _ _ N)) as Lo.
  destruct (between_fin 0%float 1%float _ fin_zero fin_one Lo U) as [F R].
  rewrite FR_zero, FR_one in R. split; assumption.
Qed.

Lemma gaussian_libm : forall x, in_domain x -> fin (run L (gaussian x)) /\ 0 <= FR (run L (gaussian x)) <= 1.
Proof. intros x Hx. apply gauss_core. apply fin_not_nan. now apply in_domain_fin. Qed.

Lemma bipolarGaussian_libm : forall x, in_domain x ->
    fin (run L (bipolarGaussian x)) /\ -1 <= FR (run L (bipolarGaussian x)) <= 1.
Proof.
  intros x Hx. pose proof FR_25 as K.
  assert (F25 : fin (x * c_2_5)%float).
  { pose proof (in_domain_fin x Hx) as Fx. pose proof (in_domain_R x Hx) as HX.
    destruct FR_8e300 as [E8 _]. destruct big_constants as [_ BP].
    destruct (mul_R x c_2_5 Fx fin_25) as [_ F]; [|exact F].
    apply (rnd_no_overflow _ (- c_8e300)%float c_8e300). rewrite FR_opp, E8.
    assert (Rabs (FR x * FR c_2_5) <= 8 * FR c_1e300).
    { rewrite Rabs_mult. rewrite (Rabs_pos_eq (FR c_2_5)) by lra. pose proof (Rabs_pos (FR x)). nra. }
    apply Rabs_le_inv in H. lra. }
  destruct (gauss_core (x * c_2_5)%float (fin_not_nan _ F25)) as [Fe Re].
  change (run L (bipolarGaussian x)) with (2 * exp_fl (- pow2_fl (x * c_2_5)) - 1)%float.
  set (e := exp_fl (- pow2_fl (x * c_2_5))) in *.
  destruct (mul_R 2%float e fin_two Fe) as [E2 F2].
  { rewrite FR_two. apply (rnd_no_overflow _ 0%float 2%float). rewrite FR_zero, FR_two. lra. }
  rewrite FR_two in E2.
  assert (R2 : 0 <= FR (2 * e)%float <= 2).
  { rewrite E2. rewrite <- FR_zero, <- FR_two. apply rnd_between. rewrite FR_zero, FR_two. lra. }
  destruct (bipolar_out _ F2 R2) as (F & _ & R). split; assumption.
Qed.

(* sin(2 x) *)
Lemma sineFunction_libm : forall x, in_domain x ->
    fin (run L (sineFunction x)) /\ -1 <= FR (run L (sineFunction x)) <= 1.
Proof.
  intros x Hx.
  destruct (scale_R 2%float x fin_two) as (F & _ & _); [rewrite FR_two, Rabs_pos_eq; lra|exact Hx|].
  destruct (sin_range (2 * x)%float F) as [S1 S2].
  destruct (between_fin (-1)%float 1%float _ fin_mone fin_one S1 S2) as [FS RS].
  rewrite FR_mone, FR_one in RS. split; assumption.
Qed.

End LibmRelative.
