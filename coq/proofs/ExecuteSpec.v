(* Declarative specification of an experiment run and the proof that the transliterated
   Execute refines it (C20). *)
From NeatModel Require Import Res Execute.
From Coq Require Import Lia.

(* ---------- the specification ---------- *)

(* position and kind of the first generation whose outcome is not "unsolved" *)
Fixpoint first_decisive (os : list outcome) : option (nat * outcome) :=
  match os with
  | [] => None
  | Unsolved :: os' =>
    match first_decisive os' with Some (i, o) => Some (S i, o) | None => None end
  | o :: _ => Some (O, o)
  end.

(* generation g0+j of trial t, evaluated on population t after k0+j turnovers, unsolved and turned over *)
Definition full_gen (obs : bool) (t g0 k0 : Z) (j : nat) : list event :=
  [EEval t (g0 + Z.of_nat j) t (k0 + Z.of_nat j); ENext t (g0 + Z.of_nat j)]
    ++ when obs (EEpoch t (g0 + Z.of_nat j)).

Definition prefix_gens (obs : bool) (t g0 k0 : Z) (i : nat) : list event :=
  flat_map (full_gen obs t g0 k0) (seq 0 i).

Definition gens_spec (obs : bool) (t g0 n0 k0 : Z) (cancelled : bool) (os : list outcome) : gres :=
  match os with
  | [] => {| g_ev := []; g_abort := None; g_cancelled := cancelled; g_n := n0; g_turns := k0 |}
  | _ =>
    if cancelled then
      {| g_ev := []; g_abort := Some ErrCtx; g_cancelled := true; g_n := n0; g_turns := k0 |}
    else
      match first_decisive os with
      | None =>
        let k := length os in
        {| g_ev := prefix_gens obs t g0 k0 k; g_abort := None; g_cancelled := false;
           g_n := n0 + Z.of_nat k; g_turns := k0 + Z.of_nat k |}
      | Some (i, o) =>
        let gi := g0 + Z.of_nat i in
        let ki := k0 + Z.of_nat i in
        let ni := n0 + Z.of_nat i in
        let ev := EEval t gi t ki in
        match o with
        | EvalError | SolvedError | CancelError =>
          {| g_ev := prefix_gens obs t g0 k0 i ++ [ev]; g_abort := Some ErrEval;
             g_cancelled := false; g_n := ni; g_turns := ki |}
        | Cancel =>
          {| g_ev := prefix_gens obs t g0 k0 i ++ [ev; ENext t gi]; g_abort := Some ErrCtx;
             g_cancelled := true; g_n := ni; g_turns := ki |}
        | _ => (* Solved, CancelSolved *)
          {| g_ev := prefix_gens obs t g0 k0 i ++ ev :: when obs (EEpoch t gi); g_abort := None;
             g_cancelled := is_cancel o; g_n := ni + 1; g_turns := ki |}
        end
      end
  end.

Fixpoint run_spec (obs : bool) (t : Z) (cancelled : bool) (script : list (list outcome))
  : list event * status :=
  match script with
  | [] => ([], Done)
  | os :: script' =>
    let r := gens_spec obs t 0 0 0 cancelled os in
    let head := ESpawn t :: when obs (EStart t) ++ g_ev r in
    match g_abort r with
    | Some st => (head, st)
    | None =>
      let '(tl, st) := run_spec obs (t + 1) (g_cancelled r) script' in
      (head ++ ERecord t (g_n r) (g_turns r) :: when obs (EFinish t (g_n r)) ++ tl, st)
    end
  end.

(* ---------- refinement ---------- *)

Lemma first_decisive_not_unsolved os i o : first_decisive os = Some (i, o) -> o <> Unsolved.
Proof.
  revert i o; induction os as [|x os IH]; simpl; intros i o H; [discriminate|].
  destruct x; try (injection H as _ <-; discriminate).
  destruct (first_decisive os) as [[j o']|] eqn:E; [|discriminate].
  injection H as _ <-. eapply IH; reflexivity.
Qed.

Lemma prefix_gens_S obs t g0 k0 i :
  prefix_gens obs t g0 k0 (S i) =
  full_gen obs t g0 k0 O ++ prefix_gens obs t (g0 + 1) (k0 + 1) i.
Proof.
  unfold prefix_gens. cbn [seq flat_map]. f_equal.
  rewrite <- seq_shift, flat_map_concat_map, map_map, <- flat_map_concat_map.
  apply flat_map_ext. intros j. unfold full_gen.
  replace (g0 + Z.of_nat (S j)) with (g0 + 1 + Z.of_nat j) by lia.
  replace (k0 + Z.of_nat (S j)) with (k0 + 1 + Z.of_nat j) by lia.
  reflexivity.
Qed.

Lemma full_gen_0 obs t g0 k0 :
  full_gen obs t g0 k0 O = [EEval t g0 t k0; ENext t g0] ++ when obs (EEpoch t g0).
Proof. unfold full_gen. cbn [Z.of_nat]. now rewrite !Z.add_0_r. Qed.

Lemma gen_loop_refines obs t os :
  forall g0 n0 k0 cancelled,
    gen_loop obs t g0 n0 k0 cancelled os = gens_spec obs t g0 n0 k0 cancelled os.
Proof.
  induction os as [|o os IH]; intros g0 n0 k0 cancelled; [reflexivity|].
  cbn [gen_loop]. destruct cancelled; [reflexivity|].
  unfold gens_spec; cbn [first_decisive].
  destruct o; cbn [is_solved is_cancel orb];
    try (cbn [Z.of_nat prefix_gens seq flat_map app]; rewrite !Z.add_0_r; reflexivity).
  (* Unsolved: the loop continues *)
  rewrite IH. clear IH. unfold gens_spec.
  destruct os as [|o' os'].
  - cbn [first_decisive length]. rewrite prefix_gens_S, full_gen_0.
    cbn [prefix_gens seq flat_map Z.of_nat g_ev g_abort g_cancelled g_n g_turns].
    rewrite app_nil_r. f_equal; try lia. now rewrite app_nil_r.
  - destruct (first_decisive (o' :: os')) as [[i o]|] eqn:E.
    + assert (Ho : o <> Unsolved) by (eapply first_decisive_not_unsolved; exact E).
      replace (g0 + Z.of_nat (S i)) with (g0 + 1 + Z.of_nat i) by lia.
      replace (k0 + Z.of_nat (S i)) with (k0 + 1 + Z.of_nat i) by lia.
      replace (n0 + Z.of_nat (S i)) with (n0 + 1 + Z.of_nat i) by lia.
      rewrite prefix_gens_S, full_gen_0.
      destruct o; try congruence;
        cbn [g_ev g_abort g_cancelled g_n g_turns]; rewrite <- !app_assoc; reflexivity.
    + cbn [g_ev g_abort g_cancelled g_n g_turns].
      change (length (Unsolved :: o' :: os')) with (S (length (o' :: os'))).
      rewrite prefix_gens_S, full_gen_0, <- app_assoc.
      f_equal; lia.
Qed.

Theorem trial_loop_refines obs script :
  forall t cancelled, trial_loop obs t cancelled script = run_spec obs t cancelled script.
Proof.
  induction script as [|os script IH]; intros t cancelled; [reflexivity|].
  cbn [trial_loop run_spec]. rewrite gen_loop_refines.
  destruct (g_abort _); [reflexivity|]. now rewrite IH.
Qed.

Theorem execute_refines obs script : execute obs script = run_spec obs 0 false script.
Proof. apply trial_loop_refines. Qed.

(* ---------- consequences stated as the property words them ---------- *)

Definition records (tr : list event) : list (Z * Z) :=
  flat_map (fun e => match e with ERecord t n _ => [(t, n)] | _ => [] end) tr.
Definition evals_of (t : Z) (tr : list event) : list Z :=
  flat_map (fun e => match e with EEval t' g _ _ => if Z.eqb t t' then [g] else [] | _ => [] end) tr.
Definition count (p : event -> bool) (tr : list event) : nat := length (filter p tr).

Definition is_start t e := match e with EStart t' => Z.eqb t t' | _ => false end.
Definition is_finish t e := match e with EFinish t' _ => Z.eqb t t' | _ => false end.
Definition is_record t e := match e with ERecord t' _ _ => Z.eqb t t' | _ => false end.
Definition is_spawn t e := match e with ESpawn t' => Z.eqb t t' | _ => false end.
Definition trial_of (e : event) : Z :=
  match e with
  | ESpawn t | EStart t | EEval t _ _ _ | ENext t _ | EEpoch t _ | ERecord t _ _ | EFinish t _ => t
  end.

(* every event of trial_loop started at t0 belongs to a trial >= t0 *)
Lemma trial_of_gen_loop obs t os : forall g n k c e,
    In e (g_ev (gen_loop obs t g n k c os)) -> trial_of e = t.
Proof.
  induction os as [|o os IH]; intros g n k c e; cbn [gen_loop]; [intros []|].
  destruct c; [intros []|].
  destruct o; cbn [is_solved is_cancel orb g_ev]; unfold when; destruct obs;
    cbn [In app]; intros H;
    repeat match goal with
           | H : _ \/ _ |- _ => destruct H as [H|H]
           | H : False |- _ => destruct H
           | H : _ = e |- _ => subst e; reflexivity
           | H : In _ (g_ev _) |- _ => eapply IH; exact H
           end.
Qed.

Lemma trial_of_trial_loop obs script : forall t c e,
    In e (fst (trial_loop obs t c script)) -> t <= trial_of e.
Proof.
  induction script as [|os script IH]; intros t c e; cbn [trial_loop fst]; [intros []|].
  assert (Hhead : In e (ESpawn t :: when obs (EStart t) ++ g_ev (gen_loop obs t 0 0 0 c os))
                  -> t <= trial_of e).
  { cbn [In]. intros [<-|H]; [cbn; lia|]. apply in_app_or in H. destruct H as [H|H].
    - unfold when in H. destruct obs; cbn in H; [destruct H as [<-|[]]; cbn; lia | destruct H].
    - apply trial_of_gen_loop in H. lia. }
  destruct (g_abort _); cbn [fst]; [exact Hhead|].
  destruct (trial_loop obs (t + 1) _ script) as [tl st] eqn:E. cbn [fst].
  rewrite app_comm_cons. intros H. apply in_app_or in H. destruct H as [H|H]; [now apply Hhead|].
  cbn [In] in H. destruct H as [<-|H]; [cbn; lia|].
  apply in_app_or in H. destruct H as [H|H].
  - unfold when in H. destruct obs; cbn in H; [destruct H as [<-|[]]; cbn; lia | destruct H].
  - specialize (IH (t + 1) (g_cancelled (gen_loop obs t 0 0 0 c os)) e).
    rewrite E in IH. cbn [fst] in IH. specialize (IH H). lia.
Qed.

(* 1. a run that returns nil has recorded exactly [runs] trials, in order *)
Lemma records_app a b : records (a ++ b) = records a ++ records b.
Proof. unfold records. now rewrite flat_map_app. Qed.

Lemma records_gen_loop obs t os : forall g n k c, records (g_ev (gen_loop obs t g n k c os)) = [].
Proof.
  induction os as [|o os IH]; intros g n k c; cbn [gen_loop]; [reflexivity|].
  destruct c; [reflexivity|].
  destruct o; cbn [is_solved is_cancel orb g_ev]; unfold when; destruct obs; cbn; try reflexivity;
    apply IH.
Qed.

Lemma records_when b e : (forall t n k, e <> ERecord t n k) -> records (when b e) = [].
Proof. destruct b; cbn; [|reflexivity]. destruct e; try reflexivity. intros H. now contradiction (H t n turns). Qed.

Theorem done_records_all obs script : forall t c tr,
    trial_loop obs t c script = (tr, Done) ->
    map fst (records tr) = map (fun i => t + Z.of_nat i) (seq 0 (length script)).
Proof.
  induction script as [|os script IH]; intros t c tr; cbn [trial_loop].
  - intros H. injection H as <-. reflexivity.
  - destruct (g_abort _) eqn:Ea.
    + intros H. injection H as _ ->.
      (* aborted trials end with an error status, never Done *)
      exfalso. revert Ea. generalize 0 at 1 2 3. intros z. revert z c.
      assert (forall os g n k c, g_abort (gen_loop obs t g n k c os) <> Some Done) as G.
      { clear. induction os as [|o os IH]; intros g n k c; cbn [gen_loop]; [discriminate|].
        destruct c; [discriminate|].
        destruct o; cbn [is_solved is_cancel orb g_abort]; try discriminate. apply IH. }
      intros z c' Ea. eapply G. exact Ea.
    + destruct (trial_loop obs (t + 1) _ script) as [tl st] eqn:E.
      intros H. injection H as <- ->.
      rewrite app_comm_cons, records_app. cbn [records flat_map app].
      change (flat_map _ ?l) with (records l).
      rewrite !records_app, records_gen_loop.
      rewrite !records_when by discriminate.
      cbn [app map fst length seq].
      rewrite (IH _ _ _ E). rewrite Z.add_0_r. f_equal.
      rewrite <- seq_shift, map_map. apply map_ext. intros i. lia.
Qed.

(* 2. generations of a trial are evaluated in the order 0,1,2,... *)
Lemma evals_gen_loop obs t os : forall g n k c,
    exists m, evals_of t (g_ev (gen_loop obs t g n k c os)) = map (fun i => g + Z.of_nat i) (seq 0 m)
              /\ (m <= length os)%nat.
Proof.
  induction os as [|o os IH]; intros g n k c; cbn [gen_loop].
  - exists O. split; [reflexivity|cbn; lia].
  - destruct c; [exists O; split; [reflexivity|cbn; lia]|].
    assert (Hone : forall l, evals_of t l = [] ->
              exists m : nat, evals_of t (EEval t g t k :: l) = map (fun i => g + Z.of_nat i) (seq 0 m)
                              /\ (m <= length (o :: os))%nat).
    { intros l Hl. exists 1%nat. split; [|cbn; lia].
      unfold evals_of in *. cbn [flat_map]. rewrite Z.eqb_refl, Hl. cbn. now rewrite Z.add_0_r. }
    destruct o; cbn [is_solved is_cancel orb g_ev];
      try (apply Hone; unfold when; destruct obs; cbn; try rewrite Z.eqb_refl; reflexivity).
    destruct (IH (g + 1) (n + 1) (k + 1) false) as [m [Hm Hle]].
    exists (S m). split; [|cbn; lia].
    unfold evals_of in *. cbn [flat_map]. rewrite Z.eqb_refl.
    rewrite flat_map_app. replace (flat_map _ (when obs (EEpoch t g))) with (@nil Z)
      by (destruct obs; reflexivity).
    cbn [app]. rewrite Hm. cbn [seq map]. rewrite Z.add_0_r. f_equal.
    rewrite <- seq_shift, map_map. apply map_ext. intros i. lia.
Qed.

(* 3. the population of a solved generation is not turned over, and no later generation of
      that trial is evaluated *)
Fixpoint outcome_at (os : list outcome) (g0 g : Z) : outcome :=
  match os with
  | [] => Unsolved
  | o :: os' => if Z.eqb g g0 then o else outcome_at os' (g0 + 1) g
  end.

Theorem no_turnover_after_solved obs t os : forall g0 n k c g,
    In (ENext t g) (g_ev (gen_loop obs t g0 n k c os)) -> is_solved (outcome_at os g0 g) = false.
Proof.
  induction os as [|o os IH]; intros g0 n k c g; cbn [gen_loop]; [intros []|].
  destruct c; [intros []|].
  assert (Hlt : forall g' n' k' c', In (ENext t g) (g_ev (gen_loop obs t g' n' k' c' os)) -> g' <= g).
  { clear. induction os as [|o os IH]; intros g' n' k' c'; cbn [gen_loop]; [intros []|].
    destruct c'; [intros []|].
    destruct o; cbn [is_solved is_cancel orb g_ev]; unfold when; destruct obs; cbn [In app];
      intros H;
      repeat match goal with
             | H : _ \/ _ |- _ => destruct H as [H|H]
             | H : False |- _ => destruct H
             | H : _ = ENext _ _ |- _ => first [discriminate H | injection H as ->; lia]
             | H : In _ (g_ev _) |- _ => apply IH in H; lia
             end. }
  cbn [outcome_at].
  destruct o; cbn [is_solved is_cancel orb g_ev]; unfold when; destruct obs; cbn [In app];
    intros H;
    repeat match goal with
           | H : _ \/ _ |- _ => destruct H as [H|H]
           | H : False |- _ => destruct H
           | H : _ = ENext _ _ |- _ => first [discriminate H | injection H as ->; rewrite Z.eqb_refl; reflexivity]
           end;
    match goal with
    | H : In _ (g_ev _) |- _ =>
      pose proof (Hlt _ _ _ _ H) as Hg;
        destruct (Z.eqb_spec g g0) as [->|_]; [lia | eapply IH; exact H]
    end.
Qed.

(* 4. with an observer, a trial that is recorded was announced exactly once before and is
      finished exactly once after; 5. an error stops the run at once *)
Theorem finish_follows_record obs script : forall t c t',
    count (is_finish t') (fst (trial_loop obs t c script)) =
    (if obs then count (is_record t') (fst (trial_loop obs t c script)) else O).
Proof.
  induction script as [|os script IH]; intros t c t'; cbn [trial_loop]; [destruct obs; reflexivity|].
  assert (Hgl : forall g n k c',
             count (is_finish t') (g_ev (gen_loop obs t g n k c' os)) = O /\
             count (is_record t') (g_ev (gen_loop obs t g n k c' os)) = O).
  { clear. induction os as [|o os IH]; intros g n k c'; cbn [gen_loop]; [split; reflexivity|].
    destruct c'; [split; reflexivity|].
    destruct o; cbn [is_solved is_cancel orb g_ev]; unfold when; destruct obs; cbn;
      try (split; reflexivity); apply IH. }
  unfold count in *.
  destruct (g_abort _).
  - cbn [fst]. cbn [filter is_finish is_record]. rewrite !filter_app.
    rewrite !app_length. destruct (Hgl 0 0 0 c) as [-> ->].
    unfold when; destruct obs; cbn; reflexivity.
  - destruct (trial_loop obs (t + 1) _ script) as [tl st] eqn:E. cbn [fst].
    specialize (IH (t + 1) (g_cancelled (gen_loop obs t 0 0 0 c os))). rewrite E in IH.
    cbn [fst] in IH. specialize (IH t').
    cbn [filter is_finish is_record]. rewrite !filter_app. cbn [filter is_finish is_record].
    rewrite !filter_app.
    destruct (Hgl 0 0 0 c) as [Hf Hr].
    apply length_zero_iff_nil in Hf. apply length_zero_iff_nil in Hr. rewrite Hf, Hr.
    unfold when. destruct obs; cbn [filter is_finish is_record app length];
      destruct (Z.eqb t' t); cbn [length app]; rewrite ?app_length; cbn [length]; lia.
Qed.

(* 6. an evaluator error - alone, or together with a "solved" mark or a cancellation made in the same
      call - ends the run at once: the failing evaluation is the last event, nothing is recorded for
      that trial, no observer is told, and the status is the evaluator's error *)
Definition is_error (o : outcome) : bool :=
  match o with EvalError | SolvedError | CancelError => true | _ => false end.

Lemma gen_loop_error_last obs t os : forall g n k c,
    g_abort (gen_loop obs t g n k c os) = Some ErrEval ->
    exists ev' g' k', g_ev (gen_loop obs t g n k c os) = ev' ++ [EEval t g' t k'] /\ g <= g' /\
                      is_error (outcome_at os g g') = true.
Proof.
  induction os as [|o os IH]; intros g n k c; cbn [gen_loop]; [discriminate|].
  destruct c; [discriminate|].
  cbn [outcome_at].
  destruct o; cbn [is_solved is_cancel orb g_abort g_ev]; try discriminate;
    try (intros _; exists [], g, k; rewrite Z.eqb_refl; split; [reflexivity | split; [lia | reflexivity]]).
  intros H. destruct (IH _ _ _ _ H) as (ev' & g' & k' & E & Hle & Herr).
  exists (EEval t g t k :: ENext t g :: when obs (EEpoch t g) ++ ev'), g', k'.
  rewrite E. split; [|split].
  - cbn [app]. now rewrite app_assoc.
  - lia.
  - destruct (Z.eqb_spec g' g) as [->|_]; [lia | exact Herr].
Qed.

Theorem error_ends_run obs script : forall t c tr,
    trial_loop obs t c script = (tr, ErrEval) ->
    exists tr' t' g k, tr = tr' ++ [EEval t' g t' k].
Proof.
  induction script as [|os script IH]; intros t c tr; cbn [trial_loop]; [discriminate|].
  destruct (g_abort (gen_loop obs t 0 0 0 c os)) as [st|] eqn:Ea.
  - intros H. injection H as <- ->.
    destruct (gen_loop_error_last obs t os 0 0 0 c Ea) as (ev' & g' & k' & E & _ & _).
    exists (ESpawn t :: when obs (EStart t) ++ ev'), t, g', k'. rewrite E. cbn [app]. now rewrite app_assoc.
  - destruct (trial_loop obs (t + 1) (g_cancelled (gen_loop obs t 0 0 0 c os)) script) as [tl st] eqn:Et.
    intros H. injection H as <- ->.
    destruct (IH _ _ _ Et) as (tr' & t' & g & k & ->).
    exists (ESpawn t :: when obs (EStart t) ++ g_ev (gen_loop obs t 0 0 0 c os) ++
            ERecord t (g_n (gen_loop obs t 0 0 0 c os)) (g_turns (gen_loop obs t 0 0 0 c os)) ::
            when obs (EFinish t (g_n (gen_loop obs t 0 0 0 c os))) ++ tr'), t', g, k.
    cbn [app]. f_equal. rewrite <- !app_assoc. cbn [app]. do 2 f_equal. now rewrite <- app_assoc.
Qed.

(* and an error outcome that is reached does end it: the generation loop that meets an error outcome
   before any solved or cancelling one aborts with the evaluator's error *)
Theorem reached_error_aborts obs t os o i : forall g n k,
    first_decisive os = Some (i, o) -> is_error o = true ->
    g_abort (gen_loop obs t g n k false os) = Some ErrEval.
Proof.
  intros g n k Hf He. rewrite gen_loop_refines. unfold gens_spec.
  destruct os as [|o0 os0]; [discriminate|]. rewrite Hf.
  destruct o; try discriminate; reflexivity.
Qed.
