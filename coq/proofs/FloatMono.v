(* Float-level facts shared by C10 and C09 (binary64, through Flocq's bridge and ActFloatBase):
   1. multiplication by a positive finite constant and division by a finite constant >= 1 are
      monotone (non-strictly) on the non-negative floats INCLUDING +infinity, so the fitness
      adjustment of Species.adjustFitness is monotone on non-negative raw fitness values;
   2. numParents = int(math.Floor(SurvivalThresh * float64(n) + 1)) >= 1 for a bounded, non-negative
      SurvivalThresh.
   "Extended non-negative" floats: [ext x] := x is a finite float of value >= 0 (either zero
   included) or x = +infinity; equivalently 0 <= x in binary64 ([ext_iff]). *)
From Coq Require Import ZArith Reals Lra Lia Bool List.
From Flocq Require Import Core BinarySingleNaN.
From Coq Require Import Floats.
From Coq Require Uint63.
From NeatModel Require Import ActFloatBase.
From NeatModel Require Import Res F64 GoRand Genome Options Population EpochTotalFloat.
Import ListNotations.
Open Scope Z_scope.

(* ------------------------------------------------------------------------------------------ *)
(* 0. classification                                                                            *)
(* ------------------------------------------------------------------------------------------ *)
Definition pinf (x : float) : Prop := Prim2SF x = S754_infinity false.
Definition nnf (x : float) : Prop := fin x /\ (0 <= FR x)%R.
Definition ext (x : float) : Prop := nnf x \/ pinf x.
(* a positive finite float *)
Definition posf (c : float) : Prop := fin c /\ (0 < FR c)%R.

Lemma Prim2SF_zero : Prim2SF 0%float = S754_zero false.
Proof. vm_compute. reflexivity. Qed.
Lemma Prim2SF_infinity : Prim2SF infinity = S754_infinity false.
Proof. vm_compute. reflexivity. Qed.

Lemma classify x :
  fin x \/ Prim2SF x = S754_infinity false \/ Prim2SF x = S754_infinity true \/ Prim2SF x = S754_nan.
Proof.
  pose proof (FP.B2SF_Prim2B x) as E. pose proof (fin_B x) as F.
  destruct (FP.Prim2B x) as [s|s| |s m e Hb]; cbn [B2SF BinarySingleNaN.is_finite] in E, F.
  - left. now apply F.
  - destruct s; auto.
  - auto.
  - left. now apply F.
Qed.

(* the spec_float of a finite float is a zero or a finite number *)
Lemma fin_sf x : fin x -> match Prim2SF x with S754_zero _ | S754_finite _ _ _ => True | _ => False end.
Proof.
  intros F. apply fin_B in F. rewrite <- (FP.B2SF_Prim2B x).
  destruct (FP.Prim2B x) as [s|s| |s m e Hb]; try discriminate F; exact I.
Qed.

Lemma pinf_not_fin x : pinf x -> fin x -> False.
Proof. intros P F. apply fin_sf in F. rewrite P in F. exact F. Qed.

(* the spec_float of a positive finite float *)
Lemma posf_sf c : posf c -> exists m e, Prim2SF c = S754_finite false m e.
Proof.
  intros [F P]. destruct (fin_nonneg_sf c F (Rlt_le _ _ P)) as [[s [_ E]]|[m [e [E _]]]]; [lra|eauto].
Qed.

Lemma posf_sign c : posf c -> Bsign (FP.Prim2B c) = false.
Proof.
  intros H. destruct (posf_sf c H) as [m [e E]]. rewrite <- (FP.B2SF_Prim2B c) in E.
  destruct (FP.Prim2B c) as [s|s| |s m' e' Hb]; try discriminate E. cbn in E. now injection E as ->.
Qed.

Lemma nnf_zero : nnf 0%float.
Proof. split; [exact fin_zero|rewrite FR_zero; lra]. Qed.

(* ------------------------------------------------------------------------------------------ *)
(* 1. the order on extended non-negative floats                                                 *)
(* ------------------------------------------------------------------------------------------ *)
Lemma leb_pinf_r x y : ext x -> pinf y -> PrimFloat.leb x y = true.
Proof.
  intros Hx Hy. rewrite leb_spec, Hy. destruct Hx as [[F _]|P].
  - apply fin_sf in F. destruct (Prim2SF x) as [s|s| |s m e]; try contradiction; destruct s; reflexivity.
  - rewrite P. reflexivity.
Qed.

Lemma leb_nnf x y : nnf x -> nnf y -> (FR x <= FR y)%R -> PrimFloat.leb x y = true.
Proof. intros [Fx _] [Fy _] H. now apply leb_of_R. Qed.

(* what x <= y says when x is extended non-negative *)
Lemma leb_ext_inv x y : ext x -> PrimFloat.leb x y = true ->
  (ext x /\ pinf y) \/ (nnf x /\ nnf y /\ (FR x <= FR y)%R).
Proof.
  intros Hx H. destruct (classify y) as [Fy|[Py|[Ny|Ny]]].
  - right. destruct Hx as [[Fx X0]|Px].
    + pose proof (leb_true_R x y Fx Fy H) as L. split; [now split|]. split; [split; [exact Fy|lra]|exact L].
    + exfalso. rewrite leb_spec, Px in H. apply fin_sf in Fy.
      destruct (Prim2SF y) as [s|s| |s m e]; try contradiction; discriminate H.
  - left. now split.
  - exfalso. rewrite leb_spec, Ny in H. destruct Hx as [[Fx _]|Px].
    + apply fin_sf in Fx. destruct (Prim2SF x) as [s|s| |s m e]; try contradiction; destruct s; discriminate H.
    + rewrite Px in H. discriminate H.
  - exfalso. rewrite leb_spec, Ny in H. destruct (Prim2SF x) as [s|s| |s m e]; discriminate H.
Qed.

Lemma ext_iff x : ext x <-> PrimFloat.leb 0%float x = true.
Proof.
  split.
  - intros [[F X0]|P].
    + apply leb_of_R; [exact fin_zero|exact F|]. rewrite FR_zero. exact X0.
    + apply leb_pinf_r; [left; exact nnf_zero|exact P].
  - intros H. destruct (leb_ext_inv 0%float x (or_introl nnf_zero) H) as [[_ P]|[_ [N _]]]; [now right|now left].
Qed.

Lemma leb_ext_r x y : ext x -> PrimFloat.leb x y = true -> ext y.
Proof. intros Hx H. destruct (leb_ext_inv x y Hx H) as [[_ P]|[_ [N _]]]; [now right|now left]. Qed.

Lemma ext_not_lt0 x : ext x -> PrimFloat.ltb x 0%float = false.
Proof.
  intros [[F X0]|P].
  - rewrite ltb_R by auto using fin_zero. rewrite FR_zero. apply Rlt_bool_false. exact X0.
  - rewrite ltb_spec, P, Prim2SF_zero. reflexivity.
Qed.

Lemma ext_not_nan x : ext x -> PrimFloat.is_nan x = false.
Proof.
  intros H. unfold PrimFloat.is_nan. destruct H as [[F _]|P].
  - rewrite eqb_R by assumption. rewrite Req_bool_true by reflexivity. reflexivity.
  - rewrite eqb_spec, P. reflexivity.
Qed.

Lemma ext_leb_refl x : ext x -> PrimFloat.leb x x = true.
Proof. intros [N|P]; [apply leb_nnf; auto; lra|apply leb_pinf_r; [now right|exact P]]. Qed.

(* x <= y and not x < y: x = y numerically *)
Lemma leb_not_ltb_eqb x y : ext x -> PrimFloat.leb x y = true -> PrimFloat.ltb x y = false -> PrimFloat.eqb x y = true.
Proof.
  intros Hx H1 H2. destruct (leb_ext_inv x y Hx H1) as [[_ Py]|[[Fx _] [[Fy _] L]]].
  - destruct Hx as [[Fx _]|Px].
    + exfalso. rewrite ltb_spec, Py in H2. apply fin_sf in Fx.
      destruct (Prim2SF x) as [s|s| |s m e]; try contradiction; destruct s; discriminate H2.
    + rewrite eqb_spec, Px, Py. reflexivity.
  - rewrite eqb_R by assumption. apply Req_bool_true. apply ltb_false_R in H2; auto. lra.
Qed.

(* ------------------------------------------------------------------------------------------ *)
(* 2. multiplication by a positive finite constant, division by a finite constant >= 1          *)
(* ------------------------------------------------------------------------------------------ *)
Lemma pos_sign x : fin x -> (0 < FR x)%R -> Bsign (FP.Prim2B x) = false.
Proof. intros F P. apply posf_sign. now split. Qed.

(* x * c is the rounded product, or +infinity when that overflows *)
Lemma mul_cases x c : nnf x -> posf c ->
  (nnf (x * c)%float /\ FR (x * c)%float = rnd (FR x * FR c)) \/
  (pinf (x * c)%float /\ (two1024 <= rnd (FR x * FR c))%R).
Proof.
  intros [Fx X0] [Fc C0].
  assert (P0 : (0 <= rnd (FR x * FR c))%R) by (apply rnd_nonneg; nra).
  destruct (Rlt_dec (rnd (FR x * FR c)) two1024) as [Hlt|Hge].
  - left. destruct (mul_R x c Fx Fc) as [E F]; [rewrite Rabs_pos_eq by exact P0; exact Hlt|].
    split; [split; [exact F|rewrite E; exact P0]|exact E].
  - right. apply Rnot_lt_le in Hge. split; [|exact Hge].
    pose proof (Bmult_correct prec emax _ _ mode_NE (FP.Prim2B x) (FP.Prim2B c)) as H.
    simpl round_mode in H. fold (FR x) (FR c) in H.
    change (round radix2 fexp64 ZnearestE (FR x * FR c)) with (rnd (FR x * FR c)) in H.
    rewrite Rlt_bool_false in H by (rewrite Rabs_pos_eq by exact P0; exact Hge).
    assert (Xp : (0 < FR x)%R).
    { destruct (Rle_lt_or_eq_dec _ _ X0) as [L|E]; [exact L|]. exfalso.
      rewrite <- E, Rmult_0_l, rnd_0 in Hge. unfold two1024 in Hge. pose proof (bpow_gt_0 radix2 emax). lra. }
    rewrite (pos_sign x Fx Xp), (pos_sign c Fc C0) in H.
    unfold pinf. rewrite <- (FP.B2SF_Prim2B (x * c)%float), FP.mul_equiv. exact H.
Qed.

Lemma mul_pinf x c : pinf x -> posf c -> pinf (x * c)%float.
Proof.
  intros P Hc. destruct (posf_sf c Hc) as [m [e E]]. unfold pinf in *. rewrite mul_spec, P, E. reflexivity.
Qed.

(* x / d for d >= 1 never overflows *)
Lemma div_cases x d : nnf x -> fin d -> (1 <= FR d)%R ->
  nnf (x / d)%float /\ FR (x / d)%float = rnd (FR x / FR d).
Proof.
  intros [Fx X0] Fd D1.
  assert (Q : (0 <= FR x / FR d <= FR x)%R).
  { split.
    - apply Rmult_le_pos; [exact X0|]. left. apply Rinv_0_lt_compat. lra.
    - apply Rmult_le_reg_r with (FR d); [lra|]. unfold Rdiv. rewrite Rmult_assoc, Rinv_l by lra. nra. }
  assert (Hq : (FR 0%float <= FR x / FR d <= FR x)%R) by (rewrite FR_zero; exact Q).
  destruct (div_R x d Fx) as [E F]; [lra|exact (rnd_no_overflow _ _ _ Hq)|].
  split; [|exact E]. split; [exact F|]. rewrite E. apply rnd_nonneg. apply Q.
Qed.

Lemma div_pinf x d : pinf x -> posf d -> pinf (x / d)%float.
Proof.
  intros P Hd. destruct (posf_sf d Hd) as [m [e E]]. unfold pinf in *. rewrite div_spec, P, E. reflexivity.
Qed.

(* ------------------------------------------------------------------------------------------ *)
(* 3. monotone operations on extended non-negative floats                                       *)
(* ------------------------------------------------------------------------------------------ *)
Definition mono_op (f : float -> float) : Prop :=
  (forall x, ext x -> ext (f x)) /\
  (forall x y, ext x -> PrimFloat.leb x y = true -> PrimFloat.leb (f x) (f y) = true).

Lemma mono_id : mono_op (fun x => x).
Proof. split; auto. Qed.

Lemma mono_comp f g : mono_op f -> mono_op g -> mono_op (fun x => g (f x)).
Proof.
  intros [F1 F2] [G1 G2]. split.
  - intros x Hx. apply G1, F1, Hx.
  - intros x y Hx H. apply G2; [apply F1, Hx|]. apply F2; assumption.
Qed.

(* an operation that is the rounding of a monotone real function, or +infinity on overflow *)
Section RoundedMono.
  Variable f : float -> float.
  Variable g : R -> R.
  Hypothesis g_mono : forall a b, (0 <= a <= b)%R -> (g a <= g b)%R.
  Hypothesis f_cases : forall x, nnf x ->
    (nnf (f x) /\ FR (f x) = rnd (g (FR x))) \/ (pinf (f x) /\ (two1024 <= rnd (g (FR x)))%R).
  Hypothesis f_pinf : forall x, pinf x -> pinf (f x).

  Lemma rounded_ext x : ext x -> ext (f x).
  Proof.
    intros [N|P]; [|right; now apply f_pinf].
    destruct (f_cases x N) as [[N' _]|[P' _]]; [now left|now right].
  Qed.

  Lemma rounded_mono : mono_op f.
  Proof.
    split; [exact rounded_ext|]. intros x y Hx H.
    destruct (leb_ext_inv x y Hx H) as [[_ Py]|[Nx [Ny L]]].
    - apply leb_pinf_r; [now apply rounded_ext|now apply f_pinf].
    - destruct (f_cases y Ny) as [[Ny' Ey]|[Py' _]]; [|apply leb_pinf_r; [apply rounded_ext; now left|exact Py']].
      assert (M : (rnd (g (FR x)) <= rnd (g (FR y)))%R) by (apply rnd_le, g_mono; split; [apply Nx|exact L]).
      destruct (f_cases x Nx) as [[Nx' Ex]|[_ Ox]].
      + apply leb_nnf; try assumption. rewrite Ex, Ey. exact M.
      + exfalso. pose proof (FR_lt_emax (f y)) as B. rewrite Ey in B. apply Rabs_def2 in B. lra.
  Qed.
End RoundedMono.

Lemma mono_mul c : posf c -> mono_op (fun x => x * c)%float.
Proof.
  intros Hc. apply (rounded_mono _ (fun a => a * FR c)%R).
  - intros a b [A B]. destruct Hc as [_ C0]. nra.
  - intros x Hx. exact (mul_cases x c Hx Hc).
  - intros x Hx. exact (mul_pinf x c Hx Hc).
Qed.

Lemma mono_div d : fin d -> (1 <= FR d)%R -> mono_op (fun x => x / d)%float.
Proof.
  intros Fd D1. apply (rounded_mono _ (fun a => a / FR d)%R).
  - intros a b [A B]. apply Rmult_le_compat_r; [|exact B]. left. apply Rinv_0_lt_compat. lra.
  - intros x Hx. left. exact (div_cases x d Hx Fd D1).
  - intros x Hx. apply div_pinf; [exact Hx|]. split; [exact Fd|lra].
Qed.

(* "if f < 0 then 0.0001 else f" does nothing on extended non-negative floats *)
Lemma mono_clamp c : mono_op (fun x => if PrimFloat.ltb x 0%float then c else x).
Proof.
  split.
  - intros x Hx. now rewrite (ext_not_lt0 x Hx).
  - intros x y Hx H. rewrite (ext_not_lt0 x Hx), (ext_not_lt0 y (leb_ext_r x y Hx H)). exact H.
Qed.

(* ------------------------------------------------------------------------------------------ *)
(* 4. float64(n)                                                                                *)
(* ------------------------------------------------------------------------------------------ *)
Lemma rnd_one : rnd 1 = 1%R.
Proof. change 1%R with (bpow radix2 0). apply rnd_bpow. lia. Qed.

Lemma f_of_Z_ge1 n : 1 <= n < 2 ^ 63 -> fin (f_of_Z n) /\ (1 <= FR (f_of_Z n))%R.
Proof.
  intros Hn. destruct (f_of_Z_R n) as (F & E & _); [lia|]. split; [exact F|].
  rewrite E, <- rnd_one. apply rnd_le. apply IZR_le. lia.
Qed.

(* ------------------------------------------------------------------------------------------ *)
(* 5. Species.adjustFitness on one fitness value                                                *)
(* ------------------------------------------------------------------------------------------ *)
Definition c001 : float := 0x1.47ae147ae147bp-7%float.
Definition c0001 : float := 0x1.a36e2eb1c432dp-14%float.

Definition adj_fit (o : options) (age debt n : Z) (f : float) : float :=
  let f := if Z.geb debt 1 then PrimFloat.mul f c001 else f in
  let f := if Z.leb age 10 then PrimFloat.mul f (o_age_sig o) else f in
  let f := if PrimFloat.ltb f 0%float then c0001 else f in
  PrimFloat.div f (f_of_Z n).

Lemma adjust_one_fit_eq o age debt n x : o_fit (adjust_one o age debt n x) = adj_fit o age debt n (o_fit x).
Proof. reflexivity. Qed.

Lemma posf_c001 : posf c001.
Proof.
  split; [fin_c|]. unfold c001. rewrite FR_SF.
  let v := eval vm_compute in (Prim2SF 0x1.47ae147ae147bp-7%float) in change (Prim2SF 0x1.47ae147ae147bp-7%float) with v.
  unfold SF2R. apply F2R_gt_0. reflexivity.
Qed.

(* a positive finite float, stated with comparisons *)
Lemma posf_of_cmp c : PrimFloat.ltb 0%float c = true -> PrimFloat.ltb c infinity = true -> posf c.
Proof.
  intros H0 H1.
  assert (F : fin c).
  { destruct (classify c) as [F|[P|[P|P]]]; [exact F| | |]; exfalso.
    - rewrite ltb_spec, P, Prim2SF_infinity in H1. discriminate H1.
    - rewrite ltb_spec, P, Prim2SF_zero in H0. discriminate H0.
    - rewrite ltb_spec, P in H0. rewrite Prim2SF_zero in H0. discriminate H0. }
  split; [exact F|]. rewrite <- FR_zero. apply ltb_true_R; auto using fin_zero.
Qed.

Theorem adj_fit_mono_op o age debt n :
  (age <= 10 -> posf (o_age_sig o)) -> 1 <= n < 2 ^ 63 -> mono_op (adj_fit o age debt n).
Proof.
  intros Hs Hn. unfold adj_fit. destruct (f_of_Z_ge1 n Hn) as [Fd D1].
  apply (mono_comp (fun f => if PrimFloat.ltb
           (if Z.leb age 10 then PrimFloat.mul (if Z.geb debt 1 then PrimFloat.mul f c001 else f) (o_age_sig o)
            else (if Z.geb debt 1 then PrimFloat.mul f c001 else f)) 0%float then c0001
         else (if Z.leb age 10 then PrimFloat.mul (if Z.geb debt 1 then PrimFloat.mul f c001 else f) (o_age_sig o)
               else (if Z.geb debt 1 then PrimFloat.mul f c001 else f)))
        (fun f => PrimFloat.div f (f_of_Z n))); [|now apply mono_div].
  apply (mono_comp (fun f => if Z.leb age 10 then PrimFloat.mul (if Z.geb debt 1 then PrimFloat.mul f c001 else f) (o_age_sig o)
                             else (if Z.geb debt 1 then PrimFloat.mul f c001 else f))
                   (fun f => if PrimFloat.ltb f 0%float then c0001 else f)); [|apply mono_clamp].
  apply (mono_comp (fun f => if Z.geb debt 1 then PrimFloat.mul f c001 else f)
                   (fun f => if Z.leb age 10 then PrimFloat.mul f (o_age_sig o) else f)).
  - destruct (Z.geb debt 1); [apply mono_mul, posf_c001|apply mono_id].
  - destruct (Z.leb age 10) eqn:E; [|apply mono_id]. apply mono_mul, Hs. now apply Z.leb_le.
Qed.

(* Monotonicity of the fitness adjustment: for raw fitness values 0 <= f1 <= f2 (f2 may be
   +infinity), the same species parameters and a positive finite age significance, the adjusted
   values satisfy 0 <= adjusted f1 <= adjusted f2 (possibly +infinity after overflow). *)
Theorem adj_fit_mono o age debt n f1 f2 :
  (age <= 10 -> PrimFloat.ltb 0%float (o_age_sig o) = true /\ PrimFloat.ltb (o_age_sig o) infinity = true) ->
  1 <= n < 2 ^ 63 ->
  PrimFloat.leb 0%float f1 = true -> PrimFloat.leb f1 f2 = true ->
  PrimFloat.leb 0%float (adj_fit o age debt n f1) = true /\
  PrimFloat.leb (adj_fit o age debt n f1) (adj_fit o age debt n f2) = true.
Proof.
  intros Hs Hn H0 H.
  destruct (adj_fit_mono_op o age debt n) as [M1 M2]; [|exact Hn|].
  - intros Ha. destruct (Hs Ha) as [A B]. now apply posf_of_cmp.
  - apply ext_iff in H0. split; [apply ext_iff, M1, H0|now apply M2].
Qed.

(* ------------------------------------------------------------------------------------------ *)
(* 6. numParents = int(math.Floor(SurvivalThresh * float64(n) + 1))                              *)
(* ------------------------------------------------------------------------------------------ *)
(* float64(n) for ANY n >= 0 (for n >= 2^63 the model's conversion wraps through Uint63.of_Z but
   stays a finite float in [0, 2^63]) *)
Lemma of_uint63_f_of_Z i : PrimFloat.of_uint63 i = f_of_Z (Uint63.to_Z i).
Proof.
  rewrite <- (Uint63.of_to_Z i) at 1. destruct (Uint63.to_Z i) as [|q|q] eqn:E.
  - vm_compute. reflexivity.
  - cbn [f_of_Z]. reflexivity.
  - pose proof (Uint63.to_Z_bounded i). lia.
Qed.

Lemma f_of_Z_any n : 0 <= n -> fin (f_of_Z n) /\ (0 <= FR (f_of_Z n) <= bpow radix2 63)%R.
Proof.
  intros Hn. destruct n as [|p|p]; try lia.
  - destruct (f_of_Z_R 0) as (F & E & B); [lia|]. split; [exact F|]. rewrite E. exact B.
  - cbn [f_of_Z]. rewrite of_uint63_f_of_Z.
    pose proof (Uint63.to_Z_bounded (Uint63.of_Z (Z.pos p))) as Hb. change Uint63.wB with (2 ^ 63) in Hb.
    destruct (f_of_Z_R _ Hb) as (F & E & B). split; [exact F|]. rewrite E. exact B.
Qed.

(* a power of two given as a float literal *)
Lemma FR_pow2_const c e : Prim2SF c = S754_finite false 4503599627370496 (e - 52) -> FR c = bpow radix2 e.
Proof.
  intros H. rewrite FR_SF, H. unfold SF2R, F2R. cbn [cond_Zopp Fnum Fexp].
  change 4503599627370496 with (Zpower radix2 52). rewrite IZR_Zpower by lia. rewrite <- bpow_plus.
  f_equal. lia.
Qed.

(* thr * d + 1 for 0 <= thr <= 2^k and 0 <= d <= 2^j: a finite float in [1, 2^(k+j+1)] *)
Lemma thr_sum_R thr d k j : nnf thr -> (FR thr <= bpow radix2 k)%R -> fin d -> (0 <= FR d <= bpow radix2 j)%R ->
  0 <= k + j -> k + j + 1 <= 1000 ->
  let a := PrimFloat.add (PrimFloat.mul thr d) 1%float in
  fin a /\ (1 <= FR a <= bpow radix2 (k + j + 1))%R.
Proof.
  intros [Ft T0] T1 Fd [D0 D1] Hkj0 Hkj a.
  pose proof (bpow_gt_0 radix2 k) as Pk. pose proof (bpow_gt_0 radix2 j) as Pj.
  assert (Ekj : (bpow radix2 k * bpow radix2 j = bpow radix2 (k + j))%R) by (symmetry; apply bpow_plus).
  assert (Ekj1 : (bpow radix2 (k + j + 1) = 2 * bpow radix2 (k + j))%R).
  { replace (k + j + 1) with (1 + (k + j)) by lia. rewrite bpow_plus. reflexivity. }
  assert (G1 : (1 <= bpow radix2 (k + j))%R) by (change 1%R with (bpow radix2 0); apply bpow_le; lia).
  assert (Lt1 : (bpow radix2 (k + j + 1) < two1024)%R) by (apply bpow_lt; unfold emax; lia).
  assert (Hprod : (0 <= FR thr * FR d <= bpow radix2 (k + j))%R).
  { split; [nra|]. rewrite <- Ekj. apply Rmult_le_compat; lra. }
  assert (Rp : (0 <= rnd (FR thr * FR d) <= bpow radix2 (k + j))%R).
  { split; [apply rnd_nonneg; apply Hprod|]. rewrite <- (rnd_bpow (k + j)) by lia. apply rnd_le. apply Hprod. }
  destruct (mul_R thr d Ft Fd) as [Ep Fp]; [rewrite Rabs_pos_eq by apply Rp; lra|].
  set (p := PrimFloat.mul thr d) in *.
  assert (Rs : (1 <= rnd (FR p + FR 1%float) <= bpow radix2 (k + j + 1))%R).
  { rewrite FR_one, Ep. split.
    - rewrite <- rnd_one at 1. apply rnd_le. lra.
    - rewrite <- (rnd_bpow (k + j + 1)) by lia. apply rnd_le. lra. }
  destruct (add_R p 1%float Fp fin_one) as [Ea Fa]; [rewrite Rabs_pos_eq by lra; lra|].
  split; [exact Fa|]. fold a in Ea. rewrite Ea. exact Rs.
Qed.

(* int(math.Floor(a)) for every finite 0 <= a < 2^63 is the integer part of a (from 2^63 on the amd64
   conversion yields math.MinInt64: F64.f_trunc_Z) *)
Lemma trunc_ffloor_any a : fin a -> (0 <= FR a)%R -> (FR a < bpow radix2 63)%R -> f_trunc_Z (ffloor a) = Zfloor (FR a).
Proof.
  intros Fa A0 A63. destruct (PrimFloat.leb two52 (PrimFloat.abs a)) eqn:E.
  - unfold ffloor. rewrite E. now apply f_trunc_Z_floor.
  - apply trunc_ffloor; [exact Fa|]. split; [exact A0|].
    rewrite leb_R in E by auto using fin_two52, fin_abs.
    rewrite FR_two52, FR_abs, Rabs_pos_eq in E by exact A0.
    revert E. case Rle_bool_spec; [discriminate|auto].
Qed.

Definition np_of (thr : float) (n : Z) : Z :=
  f_trunc_Z (ffloor (PrimFloat.add (PrimFloat.mul thr (f_of_Z n)) 1%float)).

(* 0 <= thr <= c where c is the float 2^k: thr is finite, non-negative, at most 2^k *)
Lemma thr_bounds thr c k : FR c = bpow radix2 k -> fin c ->
  PrimFloat.leb 0%float thr = true -> PrimFloat.leb thr c = true -> nnf thr /\ (FR thr <= bpow radix2 k)%R.
Proof.
  intros Ec Fc H0 H1. apply ext_iff in H0. destruct (leb_ext_inv thr c H0 H1) as [[_ P]|[N [_ L]]].
  - exfalso. exact (pinf_not_fin c P Fc).
  - split; [exact N|]. now rewrite <- Ec.
Qed.

Lemma np_of_range thr n c k j : FR c = bpow radix2 k -> fin c ->
  PrimFloat.leb 0%float thr = true -> PrimFloat.leb thr c = true ->
  fin (f_of_Z n) -> (0 <= FR (f_of_Z n) <= bpow radix2 j)%R -> 0 <= k + j -> k + j + 1 <= 62 ->
  1 <= np_of thr n <= 2 ^ (k + j + 1).
Proof.
  intros Ec Fc H0 H1 Fd Hd Hkj0 Hkj. destruct (thr_bounds thr c k Ec Fc H0 H1) as [N T1].
  destruct (thr_sum_R thr (f_of_Z n) k j N T1 Fd Hd Hkj0 ltac:(lia)) as [Fa [A1 A2]].
  assert (A63 : (FR (PrimFloat.add (PrimFloat.mul thr (f_of_Z n)) 1%float) < bpow radix2 63)%R).
  { apply Rle_lt_trans with (1 := A2). apply bpow_lt. lia. }
  unfold np_of. rewrite trunc_ffloor_any by (try exact Fa; try exact A63; lra). split.
  - apply Zfloor_lub. exact A1.
  - apply le_IZR. apply Rle_trans with (1 := Zfloor_lb _). apply Rle_trans with (1 := A2).
    rewrite <- (IZR_Zpower radix2) by lia. apply IZR_le. change (Zpower radix2 (k + j + 1)) with (2 ^ (k + j + 1)). lia.
Qed.

Definition c29 : float := 0x1p+29%float.
Definition c900 : float := 0x1p+900%float.
Lemma FR_c29 : FR c29 = bpow radix2 29. Proof. apply FR_pow2_const. vm_compute. reflexivity. Qed.
Lemma FR_c900 : FR c900 = bpow radix2 900. Proof. apply FR_pow2_const. vm_compute. reflexivity. Qed.
Lemma fin_c29 : fin c29. Proof. fin_c. Qed.
Lemma fin_c900 : fin c900. Proof. fin_c. Qed.

(* 0 <= SurvivalThresh <= 2^29 and 1 <= n < 2^31: numParents lies in [1, 2^61], inside the range
   [-2^63, 2^63) in which Go's int(x) truncates on every platform *)
Theorem np_of_small thr n :
  PrimFloat.leb 0%float thr = true -> PrimFloat.leb thr c29 = true -> 0 <= n < 2 ^ 31 ->
  1 <= np_of thr n <= 2 ^ 61.
Proof.
  intros H0 H1 Hn. destruct (f_of_Z_exact n) as [Fd Ed]; [lia|].
  apply (np_of_range thr n c29 29 31 FR_c29 fin_c29 H0 H1 Fd); [|lia|lia].
  rewrite Ed. split; [apply IZR_le; lia|]. rewrite <- (IZR_Zpower radix2) by lia. apply IZR_le.
  change (Zpower radix2 31) with (2 ^ 31). lia.
Qed.

(* 0 <= SurvivalThresh <= 1/2 and ANY species size (also sizes no Go slice can have: float64(n) stays
   in [0, 2^63]): SurvivalThresh * float64(n) + 1 lies in [1, 3 * 2^61], below 2^63, so numParents >= 1.
   No larger bound works for every n: 1 * float64(2^63 - 1) + 1 = 2^63 converts to math.MinInt64. *)
Definition chalf : float := 0x1p-1%float.
Lemma FR_chalf : FR chalf = bpow radix2 (-1). Proof. apply FR_pow2_const. vm_compute. reflexivity. Qed.
Lemma fin_chalf : fin chalf. Proof. fin_c. Qed.

Lemma format_3_61 : generic_format radix2 fexp64 (3 * bpow radix2 61)%R.
Proof.
  change fexp64 with (FLT_exp (3 - emax - prec) prec). apply generic_format_FLT.
  apply (FLT_spec radix2 (3 - emax - prec) prec _ (Float radix2 3 61)).
  - unfold F2R. cbn [Fnum Fexp]. reflexivity.
  - cbn. lia.
  - cbn. unfold emax, prec. lia.
Qed.

Lemma thr_sum_half thr d : nnf thr -> (FR thr <= bpow radix2 (-1))%R -> fin d -> (0 <= FR d <= bpow radix2 63)%R ->
  let a := PrimFloat.add (PrimFloat.mul thr d) 1%float in
  fin a /\ (1 <= FR a <= 3 * bpow radix2 61)%R.
Proof.
  intros [Ft T0] T1 Fd [D0 D1] a.
  pose proof (bpow_gt_0 radix2 (-1)) as Pk. pose proof (bpow_gt_0 radix2 63) as Pj.
  assert (E62 : (bpow radix2 (-1) * bpow radix2 63 = bpow radix2 62)%R) by (rewrite <- bpow_plus; reflexivity).
  assert (E62' : (bpow radix2 62 = 2 * bpow radix2 61)%R) by (change 62 with (1 + 61); rewrite bpow_plus; reflexivity).
  assert (G1 : (1 <= bpow radix2 61)%R) by (change 1%R with (bpow radix2 0); apply bpow_le; lia).
  assert (Lt1 : (3 * bpow radix2 61 < two1024)%R).
  { apply Rlt_trans with (bpow radix2 63).
    - change 63 with (2 + 61). rewrite bpow_plus. change (bpow radix2 2) with 4%R. lra.
    - apply bpow_lt. unfold emax. lia. }
  assert (Hprod : (0 <= FR thr * FR d <= bpow radix2 62)%R).
  { split; [nra|]. rewrite <- E62. apply Rmult_le_compat; lra. }
  assert (Rp : (0 <= rnd (FR thr * FR d) <= bpow radix2 62)%R).
  { split; [apply rnd_nonneg; apply Hprod|]. rewrite <- (rnd_bpow 62) by lia. apply rnd_le. apply Hprod. }
  destruct (mul_R thr d Ft Fd) as [Ep Fp]; [rewrite Rabs_pos_eq by apply Rp; lra|].
  set (p := PrimFloat.mul thr d) in *.
  assert (Rs : (1 <= rnd (FR p + FR 1%float) <= 3 * bpow radix2 61)%R).
  { rewrite FR_one, Ep. split.
    - rewrite <- rnd_one at 1. apply rnd_le. lra.
    - replace (3 * bpow radix2 61)%R with (rnd (3 * bpow radix2 61)).
      + apply rnd_le. lra.
      + unfold rnd. apply round_generic; auto with typeclass_instances. exact format_3_61. }
  destruct (add_R p 1%float Fp fin_one) as [Ea Fa]; [rewrite Rabs_pos_eq by lra; lra|].
  split; [exact Fa|]. fold a in Ea. rewrite Ea. exact Rs.
Qed.

Theorem np_of_pos thr n :
  PrimFloat.leb 0%float thr = true -> PrimFloat.leb thr chalf = true -> 0 <= n -> 1 <= np_of thr n.
Proof.
  intros H0 H1 Hn. destruct (f_of_Z_any n Hn) as [Fd Hd].
  destruct (thr_bounds thr chalf (-1) FR_chalf fin_chalf H0 H1) as [N T1].
  destruct (thr_sum_half thr (f_of_Z n) N T1 Fd Hd) as [Fa [A1 A2]].
  unfold np_of. rewrite trunc_ffloor_any; [apply Zfloor_lub; exact A1|exact Fa|lra|].
  apply Rle_lt_trans with (1 := A2). change 63 with (2 + 61). rewrite bpow_plus. change (bpow radix2 2) with 4%R.
  pose proof (bpow_gt_0 radix2 61). lra.
Qed.

(* int(math.Floor(a)) of a finite a >= 1 is at least 1 - or, from 2^63 on, the integer indefinite
   math.MinInt64: never 0 and never a small negative number *)
Lemma trunc_ffloor_ge1_or_indefinite a : fin a -> (1 <= FR a)%R ->
  1 <= f_trunc_Z (ffloor a) \/ f_trunc_Z (ffloor a) = int64_indefinite.
Proof.
  intros Fa A1. destruct (Rlt_or_le (FR a) (bpow radix2 63)) as [L|L].
  - left. rewrite trunc_ffloor_any; [apply Zfloor_lub; exact A1|exact Fa|lra|exact L].
  - right. assert (E : PrimFloat.leb two52 (PrimFloat.abs a) = true).
    { apply leb_of_R; auto using fin_two52, fin_abs. rewrite FR_two52, FR_abs, Rabs_pos_eq by lra.
      apply Rle_trans with (2 := L). apply bpow_le. lia. }
    unfold ffloor. rewrite E. unfold f_trunc_Z.
    destruct (fin_nonneg_sf a Fa ltac:(lra)) as [[s [Es Ez]]|[m [e [Es Ev]]]]; [rewrite Ez in A1; lra|].
    rewrite Es, sf_pos_val. rewrite <- Ev.
    assert (H63 : 2 ^ 63 <= Zfloor (FR a)).
    { apply Zfloor_lub. rewrite <- bpow63. exact L. }
    replace (Z.ltb (Zfloor (FR a)) 9223372036854775808) with false by (symmetry; apply Z.ltb_ge; lia).
    rewrite Bool.andb_false_r. reflexivity.
Qed.

(* ------------------------------------------------------------------------------------------ *)
(* 7. sums and quotients of extended non-negative floats (C09: the population average and the     *)
(*    expected offspring are proper numbers: >= 0 or +infinity, never NaN)                        *)
(* ------------------------------------------------------------------------------------------ *)
Lemma nnf_sign_of_pos_sum a b : nnf a -> nnf b -> (0 < FR a + FR b)%R ->
  Bsign (FP.Prim2B a) = Bsign (FP.Prim2B b) -> Bsign (FP.Prim2B a) = false.
Proof.
  intros [Fa A0] [Fb B0] S E. destruct (Rle_lt_or_eq_dec _ _ A0) as [L|Z0].
  - now apply pos_sign.
  - rewrite E. apply pos_sign; [exact Fb|lra].
Qed.

Lemma add_ext a b : ext a -> ext b -> ext (a + b)%float.
Proof.
  intros [Na|Pa] Hb.
  - destruct Hb as [Nb|Pb].
    + destruct Na as [Fa A0], Nb as [Fb B0].
      assert (P0 : (0 <= rnd (FR a + FR b))%R) by (apply rnd_nonneg; lra).
      destruct (Rlt_dec (rnd (FR a + FR b)) two1024) as [Hlt|Hge].
      * left. destruct (add_R a b Fa Fb) as [E F]; [rewrite Rabs_pos_eq by exact P0; exact Hlt|].
        split; [exact F|rewrite E; exact P0].
      * right. apply Rnot_lt_le in Hge.
        pose proof (Bplus_correct prec emax _ _ mode_NE (FP.Prim2B a) (FP.Prim2B b) (proj1 (fin_B a) Fa) (proj1 (fin_B b) Fb)) as H.
        simpl round_mode in H. fold (FR a) (FR b) in H.
        change (round radix2 fexp64 ZnearestE (FR a + FR b)) with (rnd (FR a + FR b)) in H.
        rewrite Rlt_bool_false in H by (rewrite Rabs_pos_eq by exact P0; exact Hge).
        destruct H as [H Es].
        assert (Sp : (0 < FR a + FR b)%R).
        { destruct (Rle_lt_or_eq_dec 0 (FR a + FR b)) as [L|E]; [lra|exact L|]. exfalso.
          rewrite <- E, rnd_0 in Hge. unfold two1024 in Hge. pose proof (bpow_gt_0 radix2 emax). lra. }
        rewrite (nnf_sign_of_pos_sum a b (conj Fa A0) (conj Fb B0) Sp Es) in H.
        unfold pinf. rewrite <- (FP.B2SF_Prim2B (a + b)%float), FP.add_equiv. exact H.
    + right. unfold pinf in *. rewrite add_spec, Pb. destruct Na as [Fa _]. apply fin_sf in Fa.
      destruct (Prim2SF a) as [s|s| |s m e]; try contradiction; reflexivity.
  - right. unfold pinf in *. rewrite add_spec, Pa. destruct Hb as [[Fb _]|Pb].
    + apply fin_sf in Fb. destruct (Prim2SF b) as [s|s| |s m e]; try contradiction; reflexivity.
    + rewrite Pb. reflexivity.
Qed.

Lemma fold_add_ext {A} (g : A -> float) l : forall acc, ext acc -> (forall x, In x l -> ext (g x)) ->
  ext (fold_left (fun a x => PrimFloat.add a (g x)) l acc).
Proof.
  induction l as [|x l IH]; intros acc Ha H; cbn [fold_left]; [exact Ha|].
  apply IH; [apply add_ext; [exact Ha|apply H; now left]|intros y Hy; apply H; now right].
Qed.

(* x / d for a positive finite d: the rounded quotient, or +infinity when that overflows *)
Lemma div_gen_cases x d : nnf x -> posf d ->
  (nnf (x / d)%float /\ FR (x / d)%float = rnd (FR x / FR d)) \/
  (pinf (x / d)%float /\ (two1024 <= rnd (FR x / FR d))%R).
Proof.
  intros [Fx X0] [Fd D0].
  assert (Q0 : (0 <= FR x / FR d)%R) by (apply Rmult_le_pos; [exact X0|left; now apply Rinv_0_lt_compat]).
  assert (P0 : (0 <= rnd (FR x / FR d))%R) by (apply rnd_nonneg; exact Q0).
  assert (Dn : FR d <> 0%R) by lra.
  destruct (Rlt_dec (rnd (FR x / FR d)) two1024) as [Hlt|Hge].
  - left. destruct (div_R x d Fx Dn) as [E F]; [rewrite Rabs_pos_eq by exact P0; exact Hlt|].
    split; [split; [exact F|rewrite E; exact P0]|exact E].
  - right. apply Rnot_lt_le in Hge. split; [|exact Hge].
    pose proof (Bdiv_correct prec emax _ _ mode_NE (FP.Prim2B x) (FP.Prim2B d) Dn) as H.
    simpl round_mode in H. fold (FR x) (FR d) in H.
    change (round radix2 fexp64 ZnearestE (FR x / FR d)) with (rnd (FR x / FR d)) in H.
    rewrite Rlt_bool_false in H by (rewrite Rabs_pos_eq by exact P0; exact Hge).
    assert (Xp : (0 < FR x)%R).
    { destruct (Rle_lt_or_eq_dec _ _ X0) as [L|E]; [exact L|]. exfalso.
      rewrite <- E in Hge. unfold Rdiv in Hge. rewrite Rmult_0_l, rnd_0 in Hge.
      unfold two1024 in Hge. pose proof (bpow_gt_0 radix2 emax). lra. }
    rewrite (pos_sign x Fx Xp), (pos_sign d Fd D0) in H.
    unfold pinf. rewrite <- (FP.B2SF_Prim2B (x / d)%float), FP.div_equiv. exact H.
Qed.

Lemma sf_zero_nnf x s : Prim2SF x = S754_zero s -> nnf x.
Proof.
  intros E. split.
  - apply fin_B. rewrite <- (FP.B2SF_Prim2B x) in E. destruct (FP.Prim2B x); try discriminate E; reflexivity.
  - rewrite FR_SF, E. cbn. lra.
Qed.

(* a finite non-negative float divided by +infinity is a zero *)
Lemma div_by_pinf x d : nnf x -> pinf d -> nnf (x / d)%float.
Proof.
  intros [Fx X0] Pd. destruct (fin_nonneg_sf x Fx X0) as [[s [E _]]|[m [e [E _]]]].
  - apply (sf_zero_nnf _ (xorb s false)). rewrite div_spec, E, Pd. reflexivity.
  - apply (sf_zero_nnf _ false). rewrite div_spec, E, Pd. reflexivity.
Qed.

(* an extended non-negative float that is not (numerically) zero is positive finite or +infinity *)
Lemma ext_nonzero x : ext x -> PrimFloat.eqb x 0%float = false -> posf x \/ pinf x.
Proof.
  intros [[F X0]|P] H; [left|now right]. split; [exact F|].
  rewrite eqb_R in H by auto using fin_zero. rewrite FR_zero in H.
  destruct (Rle_lt_or_eq_dec _ _ X0) as [L|E]; [exact L|]. rewrite Req_bool_true in H by (symmetry; exact E). discriminate H.
Qed.

(* fitness / average for a finite fitness >= 0 and an average that is >= 0 (or +infinity), not zero *)
Lemma div_ext_nonzero x d : nnf x -> ext d -> PrimFloat.eqb d 0%float = false -> ext (x / d)%float.
Proof.
  intros Nx Hd Hz. destruct (ext_nonzero d Hd Hz) as [Pd|Pd].
  - destruct (div_gen_cases x d Nx Pd) as [[N _]|[P _]]; [now left|now right].
  - left. now apply div_by_pinf.
Qed.

(* finite and >= 0, stated with comparisons *)
Lemma nnf_of_cmp x : PrimFloat.leb 0%float x = true -> PrimFloat.ltb x infinity = true -> nnf x.
Proof.
  intros H0 H1. apply ext_iff in H0. destruct H0 as [N|P]; [exact N|].
  exfalso. rewrite ltb_spec, P, Prim2SF_infinity in H1. discriminate H1.
Qed.

(* the average of n fitness values >= 0: >= 0 or +infinity, never NaN; every finite fitness >= 0
   divided by a non-zero such average: >= 0 or +infinity, never NaN *)
Theorem avg_and_quotients_ext {A} (g : A -> float) l :
  1 <= Z.of_nat (length l) < 2 ^ 63 ->
  (forall x, In x l -> PrimFloat.leb 0%float (g x) = true) ->
  let avg := PrimFloat.div (fold_left (fun a x => PrimFloat.add a (g x)) l 0%float) (f_of_Z (Z.of_nat (length l))) in
  PrimFloat.leb 0%float avg = true /\
  (PrimFloat.eqb avg 0%float = false ->
   forall x, In x l -> PrimFloat.ltb (g x) infinity = true -> PrimFloat.leb 0%float (PrimFloat.div (g x) avg) = true).
Proof.
  intros Hn H avg. destruct (f_of_Z_ge1 _ Hn) as [Fd D1].
  assert (Ea : ext avg).
  { apply (proj1 (mono_div _ Fd D1)). apply fold_add_ext; [left; exact nnf_zero|]. intros x Hx. apply ext_iff, H, Hx. }
  split; [now apply ext_iff|]. intros Hz x Hx Hf. apply ext_iff. apply div_ext_nonzero; [|exact Ea|exact Hz].
  apply nnf_of_cmp; [now apply H|exact Hf].
Qed.

(* ------------------------------------------------------------------------------------------ *)
(* 8. the quotients fitness / average are small: at most 2n                                      *)
(*    (so int(math.Floor(ExpectedOffspring)) is an in-range conversion: no NaN, no infinity,      *)
(*    nothing near 2^63, whatever the magnitude of the FINITE fitness values, subnormal included)  *)
(* ------------------------------------------------------------------------------------------ *)
From Flocq Require Import Mult_error.

Lemma FR_fmt x : generic_format radix2 fexp64 (FR x).
Proof. unfold FR. apply generic_format_B2R. Qed.

(* doubling a binary64 value is exact (overflow aside) *)
Lemma rnd_double a : rnd (2 * FR a) = (2 * FR a)%R.
Proof.
  unfold rnd. apply round_generic; auto with typeclass_instances.
  replace (2 * FR a)%R with (FR a * bpow radix2 1)%R by (simpl (bpow radix2 1); lra).
  change fexp64 with (FLT_exp (-1074) 53). apply mult_bpow_pos_exact_FLT; [|lia].
  exact (FR_fmt a).
Qed.

(* a + b for finite a, b >= 0: the rounded sum, or +infinity *)
Lemma add_gen_cases a b : nnf a -> nnf b ->
  (nnf (a + b)%float /\ FR (a + b)%float = rnd (FR a + FR b)) \/ pinf (a + b)%float.
Proof.
  intros [Fa A0] [Fb B0].
  assert (P0 : (0 <= rnd (FR a + FR b))%R) by (apply rnd_nonneg; lra).
  destruct (Rlt_dec (rnd (FR a + FR b)) two1024) as [Hlt|Hge].
  - left. destruct (add_R a b Fa Fb) as [E F]; [rewrite Rabs_pos_eq by exact P0; exact Hlt|].
    split; [split; [exact F|rewrite E; exact P0]|exact E].
  - right. destruct (add_ext a b (or_introl (conj Fa A0)) (or_introl (conj Fb B0))) as [[F _]|P]; [|exact P].
    exfalso. apply Hge. pose proof (FR_lt_emax (a + b)%float) as L.
    pose proof (Bplus_correct prec emax _ _ mode_NE (FP.Prim2B a) (FP.Prim2B b) (proj1 (fin_B a) Fa) (proj1 (fin_B b) Fb)) as H.
    simpl round_mode in H. fold (FR a) (FR b) in H.
    change (round radix2 fexp64 ZnearestE (FR a + FR b)) with (rnd (FR a + FR b)) in H.
    destruct (Rlt_bool_spec (Rabs (rnd (FR a + FR b))) (bpow radix2 emax)) as [Hl|Hg].
    + rewrite Rabs_pos_eq in Hl by exact P0. exact Hl.
    + exfalso. destruct H as [H _]. apply fin_B in F. rewrite FP.add_equiv in F.
      destruct (Bplus _ _ _) ; try discriminate H; discriminate F.
Qed.

Lemma fold_add_pinf {A} (g : A -> float) l : forall acc, pinf acc -> (forall x, In x l -> ext (g x)) ->
  pinf (fold_left (fun a x => PrimFloat.add a (g x)) l acc).
Proof.
  induction l as [|x l IH]; intros acc Pa H; cbn [fold_left]; [exact Pa|].
  apply IH; [|intros y Hy; apply H; now right].
  destruct (add_ext acc (g x) (or_intror Pa) (H x (or_introl eq_refl))) as [[F _]|P]; [|exact P].
  exfalso. unfold pinf in Pa. apply fin_sf in F. rewrite add_spec, Pa in F.
  destruct (H x (or_introl eq_refl)) as [[Fg _]|Pg].
  - apply fin_sf in Fg. destruct (Prim2SF (g x)) as [s|s| |s m e]; try contradiction; exact F.
  - unfold pinf in Pg. rewrite Pg in F. exact F.
Qed.

(* a FINITE left-to-right float sum of finite values >= 0 is at least the start value and every term *)
Lemma fold_add_ge {A} (g : A -> float) l : forall acc, nnf acc -> (forall x, In x l -> nnf (g x)) ->
  fin (fold_left (fun a x => PrimFloat.add a (g x)) l acc) ->
  (FR acc <= FR (fold_left (fun a x => PrimFloat.add a (g x)) l acc))%R /\
  forall x, In x l -> (FR (g x) <= FR (fold_left (fun a x => PrimFloat.add a (g x)) l acc))%R.
Proof.
  induction l as [|y l IH]; intros acc Na H F; cbn [fold_left] in *.
  - split; [lra|intros x []].
  - destruct (add_gen_cases acc (g y) Na (H y (or_introl eq_refl))) as [[N1 E1]|P1].
    + destruct (IH _ N1 (fun z Hz => H z (or_intror Hz)) F) as [I1 I2].
      destruct Na as [Fa A0]. destruct (H y (or_introl eq_refl)) as [Fy Y0].
      assert (G1 : (FR acc <= FR (acc + g y)%float)%R).
      { rewrite E1. rewrite <- (rnd_FR acc) at 1. apply rnd_le. lra. }
      assert (G2 : (FR (g y) <= FR (acc + g y)%float)%R).
      { rewrite E1. rewrite <- (rnd_FR (g y)) at 1. apply rnd_le. lra. }
      split; [lra|]. intros x [<-|Hx]; [lra|now apply I2].
    + exfalso. apply (pinf_not_fin _ (fold_add_pinf g l _ P1 (fun z Hz => or_introl (H z (or_intror Hz)))) F).
Qed.

Lemma div_by_pinf_zero x d : nnf x -> pinf d -> nnf (x / d)%float /\ FR (x / d)%float = 0%R.
Proof.
  intros [Fx X0] Pd. destruct (fin_nonneg_sf x Fx X0) as [[s [E _]]|[m [e [E _]]]].
  - assert (Ez : Prim2SF (x / d)%float = S754_zero (xorb s false)) by (rewrite div_spec, E, Pd; reflexivity).
    split; [exact (sf_zero_nnf _ _ Ez)|]. rewrite FR_SF, Ez. reflexivity.
  - assert (Ez : Prim2SF (x / d)%float = S754_zero false) by (rewrite div_spec, E, Pd; reflexivity).
    split; [exact (sf_zero_nnf _ _ Ez)|]. rewrite FR_SF, Ez. reflexivity.
Qed.

(* n <= 2^31 finite fitness values >= 0 whose float average is not zero: every quotient
   fitness / average is a finite float in [0, 2n].  (The float sum S is >= every term, or +infinity;
   the average a = rnd(S/n) satisfies S/n <= 2a because doubling is exact and rounding monotone;
   hence fitness / a <= 2n, and 2n is a float.) *)
Theorem quotients_bounded {A} (g : A -> float) l :
  1 <= Z.of_nat (length l) <= 2 ^ 31 ->
  (forall x, In x l -> PrimFloat.leb 0%float (g x) = true /\ PrimFloat.ltb (g x) infinity = true) ->
  let avg := PrimFloat.div (fold_left (fun a x => PrimFloat.add a (g x)) l 0%float) (f_of_Z (Z.of_nat (length l))) in
  PrimFloat.eqb avg 0%float = false ->
  forall x, In x l -> nnf (PrimFloat.div (g x) avg) /\ (FR (PrimFloat.div (g x) avg) <= 2 * IZR (Z.of_nat (length l)))%R.
Proof.
  intros Hn H avg Hz x Hx. set (n := Z.of_nat (length l)) in *.
  assert (Hg : forall y, In y l -> nnf (g y)) by (intros y Hy; destruct (H y Hy); now apply nnf_of_cmp).
  destruct (f_of_Z_exact n) as [Fd Ed]; [lia|].
  assert (N1 : (1 <= IZR n)%R) by (apply IZR_le; lia).
  assert (Pd : posf (f_of_Z n)) by (split; [exact Fd|rewrite Ed; lra]).
  set (S := fold_left (fun a x => PrimFloat.add a (g x)) l 0%float) in *.
  assert (ES : ext S) by (apply fold_add_ext; [left; exact nnf_zero|intros y Hy; left; now apply Hg]).
  assert (B2n : (0 <= 2 * IZR n)%R) by lra.
  destruct (Hg x Hx) as [Fx X0].
  destruct ES as [NS|PS].
  2:{ destruct (div_by_pinf_zero (g x) avg (Hg x Hx) (div_pinf S _ PS Pd)) as [Nq Eq]. split; [exact Nq|]. rewrite Eq. exact B2n. }
  destruct (fold_add_ge g l 0%float nnf_zero Hg (proj1 NS)) as [_ Gx]. specialize (Gx x Hx). fold S in Gx.
  destruct (div_gen_cases S (f_of_Z n) NS Pd) as [[Na Ea]|[Pa _]].
  2:{ destruct (div_by_pinf_zero (g x) avg (Hg x Hx) Pa) as [Nq Eq]. split; [exact Nq|]. rewrite Eq. exact B2n. }
  fold avg in Na, Ea. rewrite Ed in Ea.
  destruct (ext_nonzero avg (or_introl Na) Hz) as [Pavg|Pi]; [|exfalso; exact (pinf_not_fin _ Pi (proj1 Na))].
  destruct Pavg as [Fa A0].
  (* S / n <= 2 avg *)
  assert (K : (FR S / IZR n <= 2 * FR avg)%R).
  { destruct (Rle_or_lt (FR S / IZR n) (2 * FR avg)) as [L|L]; [exact L|exfalso].
    assert (M : (rnd (2 * FR avg) <= rnd (FR S / IZR n))%R) by (apply rnd_le; lra).
    rewrite rnd_double, <- Ea in M. lra. }
  assert (K2 : (FR (g x) / FR avg <= 2 * IZR n)%R).
  { apply Rle_trans with (FR S / FR avg)%R.
    - unfold Rdiv. apply Rmult_le_compat_r; [left; now apply Rinv_0_lt_compat|exact Gx].
    - unfold Rdiv in *. apply Rmult_le_reg_r with (FR avg); [exact A0|].
      rewrite Rmult_assoc, Rinv_l, Rmult_1_r by lra.
      apply Rmult_le_reg_r with (/ IZR n)%R; [apply Rinv_0_lt_compat; lra|].
      replace (2 * IZR n * FR avg * / IZR n)%R with (2 * FR avg)%R by (field; lra). exact K. }
  assert (Q0 : (0 <= FR (g x) / FR avg)%R) by (apply Rmult_le_pos; [exact X0|left; now apply Rinv_0_lt_compat]).
  assert (R2n : rnd (2 * IZR n) = (2 * IZR n)%R).
  { replace (2 * IZR n)%R with (IZR (2 * n)) by (rewrite mult_IZR; reflexivity). apply rnd_int53. lia. }
  assert (Rq : (0 <= rnd (FR (g x) / FR avg) <= 2 * IZR n)%R).
  { split; [now apply rnd_nonneg|]. rewrite <- R2n. now apply rnd_le. }
  assert (Lt : (2 * IZR n < two1024)%R).
  { apply Rlt_trans with (IZR (2 ^ 53)).
    - replace (2 * IZR n)%R with (IZR (2 * n)) by (rewrite mult_IZR; reflexivity). apply IZR_lt. lia.
    - change (2 ^ 53) with (Zpower radix2 53). rewrite IZR_Zpower by lia. apply bpow_lt. unfold emax. lia. }
  destruct (div_R (g x) avg Fx) as [Eq Fq]; [lra|rewrite Rabs_pos_eq by apply Rq; lra|].
  split; [split; [exact Fq|rewrite Eq; apply Rq]|rewrite Eq; apply Rq].
Qed.
