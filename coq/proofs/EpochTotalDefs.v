(* C02, "turning over an epoch succeeds without error": shared vocabulary of the totality proofs
   (EpochTotalFloat.v, EpochTotalMut.v, EpochTotalBaby.v, EpochTotalQuota.v).  Definitions only. *)
From NeatModel Require Import Res F64 GoRand Genome Options.

(* a tape of genuine Int63() draws *)
Definition tape_ok (t : tape) : Prop := Forall (fun c => 0 <= c < 2 ^ 63) t.

(* a finite float in [0, 1): what rand.Float64() returns *)
Definition unit_float (f : float) : Prop :=
  PrimFloat.leb 0%float f = true /\ PrimFloat.ltb f 1%float = true.

(* every recorded innovation names a trait index inside the trait list (n = number of traits) *)
Definition records_traits_ok (e : ienv) (n : Z) : Prop :=
  forall i, In i (innovs e) -> 0 <= i_trait i < n.

(* the roulette wheel of activation probabilities: the float total (accumulated left to right from 0,
   exactly as SingleRouletteThrow does) is finite and not negative *)
Definition probs_ok (probs : list float) : Prop :=
  let total := fold_left PrimFloat.add probs 0%float in
  PrimFloat.leb 0%float total = true /\ PrimFloat.ltb total infinity = true.

(* NodeActivators: at least one; with two or more, as many probabilities as activators and a usable wheel *)
Definition acts_ok (o : options) : Prop :=
  match o_activators o with
  | [] => False
  | [_] => True
  | acts => length acts = length (o_activator_probs o) /\ probs_ok (o_activator_probs o)
  end.

(* "Ok or out of tape" for a raw tape derivation *)
Definition tape_safe {A} (r : res (A * tape)) : Prop :=
  match r with Ok _ | OutOfTape => True | _ => False end.
