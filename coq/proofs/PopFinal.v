(* reproduce + finalizeReproduction (C02): after the babies are speciated the old generation is
   removed from every species, empty species are dropped, the others age by the novel rule, genome
   ids are renumbered 0.. and Population.Organisms is rebuilt from the species. *)
From NeatModel Require Import Compat.
From NeatModel Require Import Res F64 GoRand Genome Options Insert Dup Mutate Mate Population MonadLemmas
     PopBase PopRepro.
From Coq Require Import Lia Permutation.

(* ---------- reproduce ---------- *)
Record reproduced (o : options) (p p2 : population) (x x2 : executor) (babies : list Z) : Prop := {
  rp_babies : babies = zrange (p_next_key p) (p_next_key p2);
  rp_count : zlen babies = o_pop_size o;
  rp_key : p_next_key p <= p_next_key p2;
  rp_wf : Wf (all_sp p2) (p_heap p2) (fun k => In k (p_orgs p) \/ In k babies);
  rp_orgs : p_orgs p2 = p_orgs p;
  rp_old : forall k, In k (p_orgs p) -> k < p_next_key p;
  rp_bound : hbound (p_heap p2) (p_next_key p2);
  rp_fresh : forall k, In k babies -> hview o_elim (p_heap p2) k = Some false;
  rp_last : p_last_species p <= p_last_species p2;
  rp_ids : forall s, In s (all_sp p2) -> sp_id s <= p_last_species p2;
  rp_listed : forall k, In k babies -> exists y, In y (p_species p2) /\ In k (sp_orgs y);
  rp_meta : exists news, map meta (p_species p2) = map meta (p_species p) ++ map meta news /\
                         Forall (founded (p_last_species p) (p_last_species p2)) news;
  rp_best_id : x_best_id x2 = x_best_id x;
  rp_best : x_best_reproduced x2 =
            (x_best_reproduced x || existsb (fun s => Z.eqb (sp_id s) (x_best_id x)) (p_species p))%bool }.

Lemma reproduce_ok o gen p sorted x s p2 x2 s' :
  reproduce o gen p sorted x s = Ok ((p2, x2), s') ->
  Wf (all_sp p) (p_heap p) (fun k => In k (p_orgs p)) -> hbound (p_heap p) (p_next_key p) ->
  (forall y, In y (all_sp p) -> sp_id y <= p_last_species p) ->
  exists babies, reproduced o p p2 x x2 babies.
Proof.
  unfold reproduce. cbv zeta. intros H W B Hl.
  mbind H as r s1 Hr H. destruct r as [[[h1 key1] babies] best_rep].
  pose proof (reproduce_all_ok o gen (p_species p ++ p_detached p) sorted (x_best_id x) (p_species p)
                               (p_heap p) (p_next_key p) [] (x_best_reproduced x) B _ _ _ Hr) as R.
  cbn in R. destruct R as ([R1 R2 R3 R4 R5] & -> & Ek & ->).
  destruct (negb _) eqn:Ec; [discriminate|]. apply negb_false_iff in Ec. apply Z.eqb_eq in Ec.
  mbind H as p2' s2 Hs H. apply lift_ok in Hs. destruct Hs as [Hs ->].
  apply ret_ok in H. destruct H as [H _]. injection H as <- <-.
  set (p1 := {| p_species := p_species p; p_detached := p_detached p; p_orgs := p_orgs p; p_heap := h1;
                p_last_species := p_last_species p; p_highest := p_highest p;
                p_epochs_highest := p_epochs_highest p; p_next_key := key1 |}) in *.
  assert (Hold : forall k, In k (p_orgs p) -> k < p_next_key p).
  { intros k Hk. destruct (wf_cover _ _ _ W k Hk) as (y & Hy & Hi).
    pose proof (wf_link _ _ _ W y k Hy Hi) as E. apply hview_some in E. destruct E as (z & Hz & _).
    eapply B; eauto. }
  unfold speciate in Hs. destruct (zrange (p_next_key p) key1) as [|b0 bs0] eqn:Eb; [discriminate|].
  rewrite <- Eb in *. clear Eb b0 bs0.
  assert (W1 : Wf (all_sp p1) (p_heap p1) (fun k => In k (p_orgs p))).
  { change (all_sp p1) with (all_sp p). cbn. eapply Wf_ext; [exact W|apply hext_pe_species, R1]. }
  destruct (speciate_loop_ok _ _ _ _ _ Hs W1) as [W2 [S1 S2 S3 S3' S4 S5 S6 S7 S8 S9 S10]].
  - intros k Hk Ho. apply zrange_in in Hk. apply Hold in Ho. lia.
  - apply zrange_nodup.
  - exact Hl.
  - exists (zrange (p_next_key p) key1). cbn in *. constructor; cbn; auto.
    + now rewrite S9.
    + rewrite S9. exact R2.
    + eapply hbound_frame; [exact S3|]. now rewrite S9.
    + intros k Hk. apply zrange_in in Hk. rewrite S3'. now apply R5.
Qed.

(* ---------- purgeOldGeneration ---------- *)
Lemma purge_old_loop_ok (B : Z -> Prop) : forall ks p p3,
  purge_old_loop p ks = Ok p3 ->
  Wf (all_sp p) (p_heap p) (fun k => In k ks \/ B k) -> NoDup ks -> (forall k, In k ks -> ~ B k) ->
  Wf (all_sp p3) (p_heap p3) B /\ p_orgs p3 = [] /\ p_heap p3 = p_heap p /\
  map meta (p_species p3) = map meta (p_species p) /\
  (forall k, B k -> (exists y, In y (p_species p) /\ In k (sp_orgs y)) ->
             exists y, In y (p_species p3) /\ In k (sp_orgs y)) /\
  p_last_species p3 = p_last_species p /\ p_next_key p3 = p_next_key p.
Proof.
  induction ks as [|k ks IH]; intros p p3 H W Hn Hb; cbn [purge_old_loop] in H.
  - injection H as <-. cbn. splits; auto. eapply Wf_iff; [exact W|]. intros k. cbn. tauto.
  - rbind H as x Hx. rbind H as p1 H1. pose proof (hget_key _ _ _ Hx) as Ek.
    inversion Hn as [|? ? Nk Hn']; subst.
    apply remove_from_species_ok in H1. destruct H1 as (R & Em & Ekeep & Eh & Eo & El & En).
    assert (W1 : Wf (all_sp p1) (p_heap p1) (fun y => In y ks \/ B y)).
    { rewrite Eh. eapply Wf_iff.
      - eapply Wf_remove; [exact W| |left; now left|exact R]. now apply hview_get.
      - intros y. cbn. split.
        + intros [[[Hy|Hy]|Hy] Ny]; auto. congruence.
        + intros [Hy|Hy]; (split; [auto|]); intros ->; [contradiction|].
          apply (Hb (o_key x)); [now left|assumption]. }
    destruct (IH _ _ H W1 Hn') as (A1 & A2 & A3 & A4 & A5 & A6 & A7).
    { intros k' Hk'. apply Hb. now right. }
    splits; auto; try congruence.
    intros k' Bk' Hy. apply A5; [assumption|]. apply Ekeep; [|assumption].
    intros ->. apply (Hb (o_key x)); [now left|assumption].
Qed.

(* ---------- purgeOrAgeSpecies ---------- *)
Definition age1 (s : species) : species :=
  if sp_novel s then sp_with_age s (sp_age s) false else sp_with_age s (sp_age s + 1) false.
Definition nonempty (s : species) : bool := match sp_orgs s with [] => false | _ => true end.

Lemma zrange_cons a b : a < b -> zrange a b = a :: zrange (a + 1) b.
Proof.
  intros H. rewrite <- (zrange_app a (a + 1) b) by lia.
  replace (zrange a (a + 1)) with [a]; [reflexivity|].
  rewrite (zrange_snoc a a) by lia. now rewrite zrange_nil.
Qed.

Lemma renumber_ok : forall ks h c h' c',
  renumber h ks c = Ok (h', c') ->
  c' = c + zlen ks /\ hframe pe h h' /\ (forall k, ~ In k ks -> hget h' k = hget h k) /\
  (NoDup ks -> map (gid_at h') ks = zrange c c').
Proof.
  induction ks as [|k ks IH]; intros h c h' c' H; cbn [renumber] in H.
  - injection H as <- <-. unfold zlen. cbn. splits; auto using hframe_refl; try lia.
    intros _. now rewrite zrange_nil.
  - rbind H as x Hx. pose proof (hget_key _ _ _ Hx) as Ek.
    apply IH in H. destruct H as (E & F & Ho & Hg).
    assert (F1 : hframe pe h (hset h (o_with_genome x (with_id (o_genome x) c)))).
    { apply (hframe_hset_get pe _ x); [|reflexivity]. cbn. now rewrite Ek. }
    unfold zlen in *. cbn [length]. splits.
    + lia.
    + eapply hframe_trans; eauto.
    + intros k' N. rewrite Ho; [|intros Hi; apply N; now right]. rewrite hget_hset. cbn. rewrite Ek.
      destruct (Z.eqb_spec k' k); [|reflexivity]. exfalso. apply N. now left.
    + intros Hn. inversion Hn as [|? ? Nk Hn']; subst. cbn [map]. rewrite (Hg Hn'). rewrite (zrange_cons c) by lia.
      f_equal. unfold gid_at. rewrite (Ho _ Nk), hget_hset. cbn. now rewrite Z.eqb_refl.
Qed.

Lemma purge_or_age_ok : forall l h c acc l' h' orgs',
  purge_or_age l h c acc = Ok (l', h', orgs') ->
  l' = map age1 (filter nonempty l) /\ orgs' = acc ++ members l /\ hframe pe h h' /\
  (forall k, ~ In k (members l) -> hget h' k = hget h k) /\
  (NoDup (members l) -> map (gid_at h') (members l) = zrange c (c + zlen (members l))).
Proof.
  induction l as [|s l IH]; intros h c acc l' h' orgs' H; cbn [purge_or_age] in H.
  - injection H as <- <- <-. cbn. rewrite app_nil_r. splits; auto using hframe_refl.
    intros _. unfold zlen. cbn. now rewrite Z.add_0_r, zrange_nil.
  - change (members (s :: l)) with (sp_orgs s ++ members l). cbn [filter].
    assert (En : nonempty s = match sp_orgs s with [] => false | _ => true end) by reflexivity.
    destruct (sp_orgs s) as [|k0 ks0] eqn:Es.
    + rewrite En. cbn [app]. now apply IH.
    + rewrite En. clear En. rewrite <- Es in *.
      rbind H as r Hr. destruct r as [h1 c1]. rbind H as r2 Hr2. destruct r2 as [[l2 h2] orgs2].
      apply Ok_inj in H. injection H as <- <- <-.
      apply renumber_ok in Hr. destruct Hr as (Ec & F1 & Ho1 & Hg1).
      apply IH in Hr2. destruct Hr2 as (-> & -> & F2 & Ho2 & Hg2).
      splits.
      * reflexivity.
      * now rewrite <- app_assoc.
      * eapply hframe_trans; eauto.
      * intros k N. rewrite Ho2, Ho1; auto; intros Hi; apply N; apply in_or_app; auto.
      * intros Hn. apply nodup_app_inv in Hn. destruct Hn as (N1 & N2 & N3).
        rewrite map_app, (Hg2 N2).
        assert (E1 : map (gid_at h2) (sp_orgs s) = map (gid_at h1) (sp_orgs s)).
        { apply map_ext_in. intros k Hk. unfold gid_at. rewrite Ho2; [reflexivity|]. intros Hi. eapply N3; eauto. }
        rewrite E1, (Hg1 N1). unfold zlen in *. rewrite app_length, Nat2Z.inj_add.
        rewrite zrange_app; [f_equal; lia|lia|lia].
Qed.

Lemma members_filter_nonempty l : members (filter nonempty l) = members l.
Proof.
  induction l as [|s l IH]; [reflexivity|]. cbn [filter]. unfold nonempty at 1.
  change (members (s :: l)) with (sp_orgs s ++ members l).
  destruct (sp_orgs s) eqn:E; [exact IH|].
  change (members (s :: filter nonempty l)) with (sp_orgs s ++ members (filter nonempty l)).
  now rewrite IH, E.
Qed.

(* ---------- finalizeReproduction ---------- *)
Lemma hget_filter (f : Z -> bool) h k :
  hget (filter (fun x => f (o_key x)) h) k = if f k then hget h k else GoPanic 4.
Proof.
  induction h as [|y h IH]; cbn; [now destruct (f k)|].
  destruct (f (o_key y)) eqn:Ey; cbn.
  - destruct (Z.eqb_spec (o_key y) k) as [<-|N]; [now rewrite Ey|exact IH].
  - destruct (Z.eqb_spec (o_key y) k) as [<-|N]; [rewrite Ey in *; exact IH|exact IH].
Qed.

Lemma existsb_eqb_in k l : existsb (Z.eqb k) l = true <-> In k l.
Proof.
  rewrite existsb_exists. split.
  - intros (x & Hx & E). apply Z.eqb_eq in E. now subst.
  - intros H. exists k. split; [assumption|apply Z.eqb_refl].
Qed.

Record finalized (p2 p' : population) (babies : list Z) : Prop := {
  fn_part : Part p';
  fn_perm : Permutation (p_orgs p') babies;
  fn_gids : map (gid_at (p_heap p')) (p_orgs p') = zrange 0 (zlen (p_orgs p'));
  fn_species : exists l3, map meta l3 = map meta (p_species p2) /\
                          p_species p' = map age1 (filter nonempty l3);
  fn_fresh : Fresh p';
  fn_last : p_last_species p' = p_last_species p2;
  fn_key : p_next_key p' = p_next_key p2 }.

Lemma finalize_ok p2 x2 s p' s' (babies : list Z) :
  finalize p2 x2 s = Ok (p', s') ->
  Wf (all_sp p2) (p_heap p2) (fun k => In k (p_orgs p2) \/ In k babies) ->
  NoDup (p_orgs p2) -> NoDup babies -> (forall k, In k (p_orgs p2) -> ~ In k babies) ->
  (forall k, In k babies -> exists y, In y (p_species p2) /\ In k (sp_orgs y)) ->
  (forall y, In y (all_sp p2) -> sp_id y <= p_last_species p2) ->
  hbound (p_heap p2) (p_next_key p2) ->
  (forall k, In k babies -> hview o_elim (p_heap p2) k = Some false) ->
  finalized p2 p' babies.
Proof.
  unfold finalize. intros H W Hn Hnb Hdis Hlist Hl Hb Hfr.
  mbind H as p3 s1 H1 H. apply lift_ok in H1. destruct H1 as [H1 ->].
  mbind H as r s2 H2 H. apply lift_ok in H2. destruct H2 as [H2 ->]. destruct r as [[sps h] orgs].
  destruct (negb _ && negb _); [discriminate|]. injection H as <- _.
  apply (purge_old_loop_ok (fun k => In k babies)) in H1; auto.
  destruct H1 as (W3 & Eo3 & Eh3 & Em3 & Ekeep & El3 & En3).
  apply purge_or_age_ok in H2. destruct H2 as (-> & -> & F & Hother & Hg).
  cbn [app] in *.
  (* the surviving species *)
  set (l3 := p_species p3) in *.
  assert (W3' : Wf l3 (p_heap p3) (fun k => In k (members l3))).
  { destruct W3 as [V1 V2 V3 V4 V5]. unfold all_sp in *. fold l3 in V1, V2, V3, V4, V5. constructor.
    - rewrite map_app in V1. now apply nodup_app_inv in V1.
    - intros y Hy. apply V2. apply in_or_app. now left.
    - intros y k Hy Hk. apply V3; [apply in_or_app; now left|assumption].
    - intros y k Hy Hk. apply members_in. eauto.
    - intros k Hk. apply members_in in Hk. exact Hk. }
  pose proof (Wf_members_nodup _ _ _ W3') as Nm.
  set (live := filter (fun x => existsb (Z.eqb (o_key x)) (members l3)) h).
  assert (Hlive : forall k, In k (members l3) -> hget live k = hget h k).
  { intros k Hk. unfold live. rewrite (hget_filter (fun k => existsb (Z.eqb k) (members l3))).
    apply existsb_eqb_in in Hk. now rewrite Hk. }
  assert (Hlive' : forall k x, hget live k = Ok x -> hget h k = Ok x).
  { intros k x E. unfold live in E. rewrite (hget_filter (fun k => existsb (Z.eqb k) (members l3))) in E.
    destruct (existsb _ _); [assumption|discriminate]. }
  assert (Efil : forall y, In y (map age1 (filter nonempty l3)) <->
                           exists y0, In y0 l3 /\ sp_orgs y0 <> [] /\ y = age1 y0).
  { intros y. rewrite in_map_iff. split.
    - intros (y0 & <- & Hy0). apply filter_In in Hy0. destruct Hy0 as [Hy0 Ne]. exists y0. splits; auto.
      unfold nonempty in Ne. destruct (sp_orgs y0); [discriminate|congruence].
    - intros (y0 & Hy0 & Ne & ->). exists y0. split; [reflexivity|]. apply filter_In. split; [assumption|].
      unfold nonempty. destruct (sp_orgs y0); [contradiction|reflexivity]. }
  assert (Eage : forall y0, sp_id (age1 y0) = sp_id y0 /\ sp_orgs (age1 y0) = sp_orgs y0).
  { intros y0. unfold age1. now destruct (sp_novel y0). }
  constructor; cbn.
  - apply Wf_Part; cbn.
    + constructor.
      * replace (map sp_id (map age1 (filter nonempty l3))) with (map sp_id (filter nonempty l3)).
        -- pose proof (wf_ids _ _ _ W3') as V.
           clear -V. induction l3 as [|a l IH]; cbn; [constructor|]. inversion V as [|? ? Va Vl]; subst.
           destruct (nonempty a); [|auto]. cbn. constructor; [|auto]. intros Hi. apply Va.
           apply in_map_iff in Hi. destruct Hi as (z & <- & Hz). apply filter_In in Hz. apply in_map. tauto.
        -- rewrite map_map. apply map_ext. intros y0. symmetry. apply Eage.
      * intros y Hy. apply Efil in Hy. destruct Hy as (y0 & Hy0 & _ & ->). rewrite (proj2 (Eage y0)).
        eapply wf_nodup; eauto.
      * intros y k Hy Hk. apply Efil in Hy. destruct Hy as (y0 & Hy0 & _ & ->).
        rewrite (proj2 (Eage y0)) in Hk. rewrite (proj1 (Eage y0)).
        pose proof (wf_link _ _ _ W3' y0 k Hy0 Hk) as E. unfold sp_of in *. rewrite <- (hframe_pe_species _ _ F) in E.
        unfold hview in *. rewrite Hlive; [exact E|]. apply members_in. eauto.
      * intros y k Hy Hk. apply Efil in Hy. destruct Hy as (y0 & Hy0 & _ & ->).
        rewrite (proj2 (Eage y0)) in Hk. apply members_in. eauto.
      * intros k Hk. apply members_in in Hk. destruct Hk as (y0 & Hy0 & Hk). exists (age1 y0). split.
        -- apply Efil. exists y0. splits; auto. intros E. rewrite E in Hk. contradiction.
        -- now rewrite (proj2 (Eage y0)).
    + exact Nm.
    + intros y Hy. apply Efil in Hy. destruct Hy as (y0 & Hy0 & _ & ->). rewrite (proj1 (Eage y0)).
      rewrite El3.
      (* ids of p3's species are ids of p2's species *)
      assert (Hi : In (sp_id y0) (map sp_id (p_species p2))).
      { replace (map sp_id (p_species p2)) with (map (fun m : Z * Z * bool => fst (fst m)) (map meta (p_species p2)))
          by (rewrite map_map; reflexivity).
        rewrite <- Em3, map_map. now apply (in_map (fun y => fst (fst (meta y)))). }
      apply in_map_iff in Hi. destruct Hi as (z & Ez & Hz). rewrite <- Ez. apply Hl. unfold all_sp. apply in_or_app. now left.
    + intros y Hy. apply Efil in Hy. destruct Hy as (y0 & Hy0 & Ne & ->). now rewrite (proj2 (Eage y0)).
    + replace (map (gid_at live) (members l3)) with (map (gid_at h) (members l3)).
      * rewrite (Hg Nm). apply zrange_nodup.
      * apply map_ext_in. intros k Hk. unfold gid_at. now rewrite Hlive.
    + rewrite En3. intros k x E. apply Hlive' in E. pose proof (hview_get o_species _ _ _ E) as V.
      rewrite (hframe_pe_species _ _ F), Eh3 in V. apply hview_some in V. destruct V as (z & Hz & _). eapply Hb; eauto.
    + reflexivity.
  - apply NoDup_Permutation; auto. intros k. split.
    + intros Hk. apply members_in in Hk. destruct Hk as (y & Hy & Hk).
      apply (wf_incl _ _ _ W3 y k); [unfold all_sp; apply in_or_app; now left|assumption].
    + intros Hk. apply members_in. apply Ekeep; auto.
  - replace (map (gid_at live) (members l3)) with (map (gid_at h) (members l3)).
    + rewrite (Hg Nm). now rewrite Z.add_0_l.
    + apply map_ext_in. intros k Hk. unfold gid_at. now rewrite Hlive.
  - exists l3. split; [exact Em3|reflexivity].
  - intros k x Hk Hx. cbn in Hk, Hx. rewrite (Hlive _ Hk) in Hx.
    assert (Hbk : In k babies).
    { apply members_in in Hk. destruct Hk as (y & Hy & Hk).
      apply (wf_incl _ _ _ W3 y k); [unfold all_sp; apply in_or_app; now left|assumption]. }
    pose proof (Hfr _ Hbk) as V. rewrite <- Eh3, <- (hframe_pe_elim _ _ F) in V.
    unfold hview in V. rewrite Hx in V. now injection V.
  - exact El3.
  - exact En3.
Qed.
