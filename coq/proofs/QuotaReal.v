(* C09 over the reals: the floor-and-carry apportionment of Species.countOffspring, instantiated
   with exact arithmetic, loses nothing: the running invariant "offspring handed out + carried
   fraction = everything expected so far" holds, each species' quota is the floor of carried
   fraction plus the members' expected offspring, and over a whole population whose expected
   offspring are fitness / mean fitness the quotas total exactly the population size.
   [count_offspring_gen] is the polymorphic definition of model/Population.v; the float instance
   [float_qnum] is what runs against Go, [R_qnum] below is the real-number instance. *)
From NeatModel Require Import Res F64 GoRand Genome Options Population.
From Coq Require Import Reals Lra Lia.

(* ---------- the real-number instance ---------- *)
(* math.Floor *)
Definition Rfloor (x : R) : Z := Int_part x.
(* math.Trunc: toward zero *)
Definition Rtrunc (x : R) : Z := if Rle_dec 0 x then Int_part x else (- Int_part (- x))%Z.

Definition R_qnum : qnum R := {|
  q_add := Rplus;
  q_sub := Rminus;
  q_ge1 := fun x => if Rle_dec 1 x then true else false;
  q_floor := fun x => IZR (Rfloor x);
  q_floorZ := Rfloor;
  q_frac := fun x => (x - IZR (Rtrunc x))%R        (* math.Mod(x, 1.0) = x - trunc x, sign of x *)
|}.

Definition Rsum (l : list R) : R := fold_right Rplus 0%R l.
Definition Zsum (l : list Z) : Z := fold_right Z.add 0%Z l.

Lemma Rsum_app a b : Rsum (a ++ b) = (Rsum a + Rsum b)%R.
Proof. induction a as [|x a IH]; simpl; [lra|rewrite IH; lra]. Qed.

Lemma Rfloor_bounds x : (IZR (Rfloor x) <= x < IZR (Rfloor x) + 1)%R.
Proof. unfold Rfloor. pose proof (base_Int_part x). lra. Qed.

Lemma Rfloor_unique x z : (IZR z <= x < IZR z + 1)%R -> Rfloor x = z.
Proof.
  intros [H1 H2]. pose proof (Rfloor_bounds x) as [H3 H4].
  assert (A : (IZR z < IZR (Rfloor x) + 1)%R) by lra.
  assert (B : (IZR (Rfloor x) < IZR z + 1)%R) by lra.
  rewrite <- plus_IZR in A, B. apply lt_IZR in A, B. lia.
Qed.

Lemma Rfloor_IZR z : Rfloor (IZR z) = z.
Proof. apply Rfloor_unique. lra. Qed.

(* for a non-negative number math.Mod(x, 1.0) is x - floor x *)
Lemma R_frac_nonneg x : (0 <= x)%R -> q_frac R_qnum x = (x - IZR (Rfloor x))%R.
Proof. intros H. cbn. unfold Rtrunc, Rfloor. destruct (Rle_dec 0 x); [reflexivity|contradiction]. Qed.

Lemma R_ge1_true x : q_ge1 R_qnum x = true -> (1 <= x)%R.
Proof. cbn. destruct (Rle_dec 1 x); [auto|discriminate]. Qed.
Lemma R_ge1_false x : q_ge1 R_qnum x = false -> (x < 1)%R.
Proof. cbn. destruct (Rle_dec 1 x); [discriminate|lra]. Qed.

(* ---------- 1. the carry invariant ---------- *)
Lemma carry_invariant : forall (exps : list R) (e : Z) (skim : R) (e' : Z) (skim' : R),
  Forall (fun x => 0 <= x)%R exps -> (0 <= skim < 1)%R ->
  count_offspring_gen R_qnum exps e skim = (e', skim') ->
  (IZR e' + skim' = IZR e + skim + Rsum exps)%R /\ (0 <= skim' < 1)%R.
Proof.
  induction exps as [|x l IH]; intros e skim e' skim' Hnn Hsk H.
  - cbn in H. injection H as <- <-. cbn. split; [lra|assumption].
  - inversion Hnn as [|x0 l0 Hx Hl]; subst. cbn [count_offspring_gen] in H.
    rewrite (R_frac_nonneg x Hx) in H. cbn [q_add q_sub q_floor q_floorZ R_qnum] in H.
    pose proof (Rfloor_bounds x) as Bx.
    set (sk1 := (skim + (x - IZR (Rfloor x)))%R) in *.
    assert (Hsk1 : (0 <= sk1 < 2)%R) by (unfold sk1; lra).
    destruct (q_ge1 R_qnum sk1) eqn:G.
    + apply R_ge1_true in G. pose proof (Rfloor_bounds sk1) as B1.
      apply IH in H; [|assumption|lra]. destruct H as [H1 H2]. split; [|assumption].
      rewrite H1. rewrite !plus_IZR. cbn [Rsum fold_right]. unfold sk1. fold (Rsum l). lra.
    + apply R_ge1_false in G.
      apply IH in H; [|assumption|lra]. destruct H as [H1 H2]. split; [|assumption].
      rewrite H1. rewrite !plus_IZR. cbn [Rsum fold_right]. unfold sk1. fold (Rsum l). lra.
Qed.

(* a species' quota is the floor of (carried-in fraction + the members' expected offspring), the
   carried-out fraction is the fractional part, and the quota differs from the members' sum by
   less than one *)
Lemma quota_floor_carry : forall (exps : list R) (e : Z) (skim : R) (e' : Z) (skim' : R),
  Forall (fun x => 0 <= x)%R exps -> (0 <= skim < 1)%R ->
  count_offspring_gen R_qnum exps e skim = (e', skim') ->
  (e' - e)%Z = Rfloor (skim + Rsum exps) /\
  skim' = (skim + Rsum exps - IZR (Rfloor (skim + Rsum exps)))%R /\
  (Rabs (IZR (e' - e) - Rsum exps) < 1)%R.
Proof.
  intros exps e skim e' skim' Hnn Hsk H.
  destruct (carry_invariant _ _ _ _ _ Hnn Hsk H) as [H1 H2].
  assert (F : Rfloor (skim + Rsum exps) = (e' - e)%Z).
  { apply Rfloor_unique. rewrite minus_IZR. lra. }
  split; [now rewrite F|]. split.
  - rewrite F, minus_IZR. lra.
  - rewrite minus_IZR. apply Rabs_def1; lra.
Qed.

(* ---------- 2. expected offspring sum to the population size ---------- *)
Lemma Rsum_map_div (f : list R) (m : R) : Rsum (map (fun x => x / m)%R f) = (Rsum f / m)%R.
Proof. induction f as [|x f IH]; simpl; [lra|rewrite IH; lra]. Qed.

Lemma sum_expected : forall (f : list R),
  let n := INR (length f) in
  let mean := (Rsum f / n)%R in
  mean <> 0%R ->
  Rsum (map (fun x => x / mean)%R f) = n.
Proof.
  intros f n mean Hm. rewrite Rsum_map_div. unfold mean in *.
  assert (Hn : n <> 0%R).
  { intros E. apply Hm. rewrite E. unfold Rdiv. rewrite Rinv_0. lra. }
  assert (Hs : Rsum f <> 0%R).
  { intros E. apply Hm. rewrite E. lra. }
  field. split; assumption.
Qed.

(* e_i * mean = f_i: the expected offspring of an organism is its adjusted fitness over the mean *)
Lemma expected_times_mean (x mean : R) : mean <> 0%R -> (x / mean * mean = x)%R.
Proof. intros H. field. assumption. Qed.

(* ---------- 3. the chain over the species of a population ---------- *)
(* Population.purgeZeroOffspringSpecies: for _, sp := range p.Species { sp.ExpectedOffspring, skim =
   sp.countOffspring(skim); total += sp.ExpectedOffspring }.  [count_all] of model/Population.v is
   this chain at the float instance (lemma count_all_chain in QuotaSpec.v). *)
Section Chain.
  Context {F : Type} (N : qnum F).
  Fixpoint chain_gen (spp : list (list F)) (skim : F) (total : Z) : list Z * Z * F :=
    match spp with
    | [] => ([], total, skim)
    | exps :: r =>
      let '(e, skim') := count_offspring_gen N exps 0 skim in
      let '(qs, t, sk) := chain_gen r skim' (total + e) in
      (e :: qs, t, sk)
    end.
End Chain.

Lemma chain_invariant : forall (spp : list (list R)) (skim : R) (total : Z) qs t sk,
  Forall (Forall (fun x => 0 <= x)%R) spp -> (0 <= skim < 1)%R ->
  chain_gen R_qnum spp skim total = (qs, t, sk) ->
  (IZR t + sk = IZR total + skim + Rsum (concat spp))%R /\ (0 <= sk < 1)%R /\
  t = (total + Zsum qs)%Z /\ length qs = length spp.
Proof.
  induction spp as [|exps r IH]; intros skim total qs t sk Hnn Hsk H.
  - cbn in H. injection H as <- <- <-. cbn. repeat split; try lra; lia.
  - inversion Hnn as [|a b Ha Hb]; subst. cbn [chain_gen] in H.
    destruct (count_offspring_gen R_qnum exps 0 skim) as [e skim'] eqn:C.
    destruct (chain_gen R_qnum r skim' (total + e)) as [[qs1 t1] sk1] eqn:D.
    injection H as <- <- <-.
    destruct (carry_invariant _ _ _ _ _ Ha Hsk C) as [C1 C2].
    destruct (IH _ _ _ _ _ Hb C2 D) as [D1 [D2 [D3 D4]]].
    cbn [concat]. rewrite Rsum_app. rewrite plus_IZR in D1. cbn [Zsum fold_right length].
    fold (Zsum qs1). repeat split; try lra; try lia.
Qed.

(* every species of the chain gets the floor of (what the species before it carried over + its
   members' expected offspring) *)
Lemma chain_quota : forall (pre : list (list R)) (exps : list R) (post : list (list R)) qs t sk,
  Forall (Forall (fun x => 0 <= x)%R) (pre ++ exps :: post) ->
  chain_gen R_qnum (pre ++ exps :: post) 0%R 0 = (qs, t, sk) ->
  let carry := (Rsum (concat pre) - IZR (Rfloor (Rsum (concat pre))))%R in
  nth (length pre) qs 0%Z = Rfloor (carry + Rsum exps) /\
  (Rabs (IZR (nth (length pre) qs 0%Z) - Rsum exps) < 1)%R.
Proof.
  intros pre exps post qs t sk Hnn H.
  assert (G : forall pre skim total qs t sk,
             Forall (Forall (fun x => 0 <= x)%R) (pre ++ exps :: post) -> (0 <= skim < 1)%R ->
             chain_gen R_qnum (pre ++ exps :: post) skim total = (qs, t, sk) ->
             exists skin e skout, (0 <= skin < 1)%R /\
               (exists z : Z, skim + Rsum (concat pre) = IZR z + skin)%R /\
               count_offspring_gen R_qnum exps 0 skin = (e, skout) /\ nth (length pre) qs 0%Z = e).
  { clear. induction pre as [|p pre IH]; intros skim total qs t sk Hnn Hsk H.
    - cbn [app chain_gen] in H.
      destruct (count_offspring_gen R_qnum exps 0 skim) as [e skim'] eqn:C.
      destruct (chain_gen R_qnum post skim' (total + e)) as [[qs1 t1] sk1] eqn:D.
      injection H as <- <- <-. exists skim, e, skim'. repeat split; try lra; auto.
      exists 0%Z. cbn. lra.
    - cbn [app chain_gen] in H. inversion Hnn as [|a b Ha Hb]; subst.
      destruct (count_offspring_gen R_qnum p 0 skim) as [e skim'] eqn:C.
      destruct (chain_gen R_qnum (pre ++ exps :: post) skim' (total + e)) as [[qs1 t1] sk1] eqn:D.
      injection H as <- <- <-.
      destruct (carry_invariant _ _ _ _ _ Ha Hsk C) as [C1 C2].
      destruct (IH _ _ _ _ _ Hb C2 D) as [skin [e1 [skout [I1 [[z I2] [I3 I4]]]]]].
      exists skin, e1, skout. repeat split; auto; try lra.
      exists (e + z)%Z. cbn [concat]. rewrite Rsum_app, plus_IZR. change (IZR 0) with 0%R in C1. lra. }
  assert (Z01 : (0 <= 0 < 1)%R) by lra.
  destruct (G pre 0%R 0%Z qs t sk Hnn Z01 H) as [skin [e [skout [I1 [[z I2] [I3 I4]]]]]].
  assert (Hexps : Forall (fun x => 0 <= x)%R exps).
  { apply Forall_app in Hnn. destruct Hnn as [_ Hnn]. now inversion Hnn. }
  destruct (quota_floor_carry _ _ _ _ _ Hexps I1 I3) as [Q1 [Q2 Q3]].
  assert (Hz : Rfloor (Rsum (concat pre)) = z).
  { apply Rfloor_unique. lra. }
  cbv zeta. rewrite I4, Hz.
  replace (Rsum (concat pre) - IZR z)%R with skin by lra.
  split; [|replace e with (e - 0)%Z by lia; exact Q3].
  rewrite <- Q1. lia.
Qed.

(* the expected offspring of a population: every organism's adjusted fitness over the mean *)
Definition expected_of (fs : list (list R)) : list (list R) :=
  let n := INR (length (concat fs)) in
  let mean := (Rsum (concat fs) / n)%R in
  map (map (fun x => x / mean)%R) fs.

Lemma concat_map_map {A B} (g : A -> B) (l : list (list A)) : concat (map (map g) l) = map g (concat l).
Proof. induction l as [|a l IH]; simpl; [reflexivity|]. now rewrite map_app, IH. Qed.

(* in exact arithmetic the quotas total exactly the population size and nothing is left in the
   carry: neither the +1 fix-up nor the fallback of purgeZeroOffspringSpecies can fire *)
Lemma total_exact : forall (fs : list (list R)) qs t sk,
  let n := length (concat fs) in
  Forall (Forall (fun x => 0 <= x)%R) fs ->
  (Rsum (concat fs) / INR n <> 0)%R ->
  chain_gen R_qnum (expected_of fs) 0%R 0 = (qs, t, sk) ->
  t = Z.of_nat n /\ Zsum qs = Z.of_nat n /\ sk = 0%R /\ length qs = length fs.
Proof.
  intros fs qs t sk n Hnn Hm H.
  assert (Hpos : (0 < Rsum (concat fs) / INR n)%R).
  { assert (Hn : INR n <> 0%R).
    { intros E. apply Hm. rewrite E. unfold Rdiv. rewrite Rinv_0. lra. }
    assert (0 < INR n)%R by (pose proof (pos_INR n); lra).
    assert (0 <= Rsum (concat fs))%R.
    { clear -Hnn. induction fs as [|a fs IH]; cbn; [lra|]. inversion Hnn as [|x y Ha Hb]; subst.
      rewrite Rsum_app. specialize (IH Hb).
      assert (0 <= Rsum a)%R. { clear -Ha. induction Ha; cbn; [lra|]. fold (Rsum l). lra. }
      lra. }
    assert (0 <= Rsum (concat fs) / INR n)%R by (apply Rmult_le_pos; [assumption|left; now apply Rinv_0_lt_compat]).
    lra. }
  assert (Hexp : Forall (Forall (fun x => 0 <= x)%R) (expected_of fs)).
  { unfold expected_of. fold n. apply Forall_forall. intros l Hl. apply in_map_iff in Hl.
    destruct Hl as [l0 [<- Hl0]]. apply Forall_forall. intros x Hx. apply in_map_iff in Hx.
    destruct Hx as [x0 [<- Hx0]]. rewrite Forall_forall in Hnn. specialize (Hnn _ Hl0).
    rewrite Forall_forall in Hnn. specialize (Hnn _ Hx0).
    apply Rmult_le_pos; [assumption|left; now apply Rinv_0_lt_compat]. }
  assert (Z01 : (0 <= 0 < 1)%R) by lra.
  destruct (chain_invariant _ _ _ _ _ _ Hexp Z01 H) as [I1 [I2 [I3 I4]]].
  unfold expected_of in I1. rewrite concat_map_map in I1. fold n in I1.
  pose proof (sum_expected (concat fs)) as S. cbv zeta in S. fold n in S. rewrite (S Hm) in I1.
  rewrite INR_IZR_INZ in I1. change (IZR 0) with 0%R in I1.
  assert (Ht : t = Z.of_nat n).
  { assert (A : (IZR t < IZR (Z.of_nat n) + 1)%R) by lra.
    assert (B : (IZR (Z.of_nat n) < IZR t + 1)%R) by lra.
    rewrite <- plus_IZR in A, B. apply lt_IZR in A, B. lia. }
  rewrite Ht in I1. repeat split; try lia; try lra.
  unfold expected_of in I4. now rewrite map_length in I4.
Qed.

(* non-vacuity: three species with fractional expected offspring *)
Example chain_example :
  let fs := [[3; 1]; [2; 2; 2]; [1; 1]]%R in
  Forall (Forall (fun x => 0 <= x)%R) fs /\ (Rsum (concat fs) / INR (length (concat fs)) <> 0)%R.
Proof.
  cbn. split.
  - repeat constructor; lra.
  - lra.
Qed.
