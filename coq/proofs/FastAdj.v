(* reverseAdjacentList / adjacentMatrix of the fast solver (model/Fast.v: radj, adj_w) in closed form:
   radj fn t lists every source of a connection into t exactly once; over the reals adj_w fn s t is the
   sum of the weights of the connections s -> t. *)
From NeatModel Require Import Res Net Fast SolverUtil SolverSpec.
From Coq Require Import Reals Lra Arith Lia.

Section Generic.
Variable F : Type.

Lemma contains_index_In (l : list nat) i : contains_index l i = true <-> In i l.
Proof.
  unfold contains_index. rewrite existsb_exists. split.
  - intros (v & Hv & E). apply Nat.eqb_eq in E. subst. exact Hv.
  - intros H. exists i. split; [exact H|apply Nat.eqb_refl].
Qed.

Lemma radj_fold_In t (l : list (flink F)) : forall acc a,
  In a (fold_left (radj_step t) l acc) <->
  In a acc \/ exists c, In c l /\ fl_tgt c = t /\ fl_src c = a.
Proof.
  induction l as [|c rest IH]; intros acc a; simpl.
  - split; [auto|]. intros [H|(c & [] & _)]. exact H.
  - rewrite IH. unfold radj_step. destruct (fl_tgt c =? t)%nat eqn:Et.
    + apply Nat.eqb_eq in Et. destruct (contains_index acc (fl_src c)) eqn:Ec.
      * apply contains_index_In in Ec. split.
        -- intros [H|(c' & H1 & H2)]; [left; exact H|right; exists c'; split; [right; exact H1|exact H2]].
        -- intros [H|(c' & [<-|H1] & H2 & H3)]; [left; exact H| |right; exists c'; auto].
           left. rewrite <- H3. exact Ec.
      * split.
        -- intros [H|(c' & H1 & H2)]; [|right; exists c'; split; [right; exact H1|exact H2]].
           apply in_app_or in H. destruct H as [H|[<-|[]]]; [left; exact H|].
           right. exists c. split; [left; reflexivity|auto].
        -- intros [H|(c' & [<-|H1] & H2 & H3)].
           ++ left. apply in_or_app. left. exact H.
           ++ left. apply in_or_app. right. left. exact H3.
           ++ right. exists c'. auto.
    + apply Nat.eqb_neq in Et. split.
      * intros [H|(c' & H1 & H2)]; [left; exact H|right; exists c'; split; [right; exact H1|exact H2]].
      * intros [H|(c' & [<-|H1] & H2 & H3)]; [left; exact H|contradiction|right; exists c'; auto].
Qed.

Lemma radj_In (fn : fnet F) t a :
  In a (radj fn t) <-> exists c, In c (f_conns fn) /\ fl_tgt c = t /\ fl_src c = a.
Proof.
  unfold radj. rewrite radj_fold_In. split; [intros [[]|H]; exact H|auto].
Qed.

Lemma radj_fold_NoDup t (l : list (flink F)) : forall acc,
  NoDup acc -> NoDup (fold_left (radj_step t) l acc).
Proof.
  induction l as [|c rest IH]; intros acc H; simpl; [exact H|]. apply IH.
  unfold radj_step. destruct (fl_tgt c =? t)%nat; [|exact H].
  destruct (contains_index acc (fl_src c)) eqn:Ec; [exact H|].
  assert (Hn : ~ In (fl_src c) acc).
  { intros Hin. apply contains_index_In in Hin. congruence. }
  clear Ec. induction acc as [|x acc' IHa]; simpl.
  - constructor; [intros []|constructor].
  - inversion H as [|? ? Hx Hacc]; subst. constructor.
    + intros Hin. apply in_app_or in Hin. destruct Hin as [Hin|[<-|[]]]; [exact (Hx Hin)|].
      apply Hn. left. reflexivity.
    + apply IHa; [exact Hacc|]. intros Hin. apply Hn. right. exact Hin.
Qed.

Lemma radj_NoDup (fn : fnet F) t : NoDup (radj fn t).
Proof. apply radj_fold_NoDup. constructor. Qed.

End Generic.

Open Scope R_scope.

(* the weight entry over the reals: the sum of the weights of the matching connections *)
Lemma adj_w_sum (fn : fnet R) s t :
  adj_w Rnum fn s t =
  sumf (@fl_w R) (filter (fun c => (fl_src c =? s)%nat && (fl_tgt c =? t)%nat) (f_conns fn)).
Proof.
  unfold adj_w.
  assert (G : forall l b x, (b = false -> x = 0) ->
    snd (fold_left (adj_step Rnum s t) l (b, x)) =
    x + sumf (@fl_w R) (filter (fun c => (fl_src c =? s)%nat && (fl_tgt c =? t)%nat) l)).
  { induction l as [|c rest IH]; intros b x Hb; simpl; [lra|].
    unfold adj_step at 2. destruct ((fl_src c =? s)%nat && (fl_tgt c =? t)%nat); simpl.
    - rewrite IH by discriminate. destruct b; simpl; [lra|]. rewrite (Hb eq_refl). lra.
    - apply IH. exact Hb. }
  rewrite G by reflexivity. simpl. lra.
Qed.

Lemma filter_filter_and {A} (p q : A -> bool) (l : list A) :
  filter (fun c => p c && q c) l = filter p (filter q l).
Proof.
  induction l as [|c rest IH]; simpl; [reflexivity|].
  destruct (q c); simpl.
  - rewrite andb_true_r. destruct (p c); rewrite IH; reflexivity.
  - rewrite andb_false_r. exact IH.
Qed.

Lemma sumf_plus {A} (g h : A -> R) (l : list A) : sumf (fun x => g x + h x) l = sumf g l + sumf h l.
Proof. induction l as [|x rest IH]; simpl; [lra|]. rewrite IH. lra. Qed.

Lemma sumf_zero {A} (g : A -> R) (l : list A) : (forall x, In x l -> g x = 0) -> sumf g l = 0.
Proof.
  induction l as [|x rest IH]; intros H; simpl; [reflexivity|].
  rewrite (H x (or_introl eq_refl)), IH; [lra|]. intros y Hy. apply H. right. exact Hy.
Qed.

(* a sum over a duplicate-free list picks the one matching term *)
Lemma sumf_indicator (k : nat -> R) (x : nat) (d : list nat) :
  NoDup d -> In x d -> sumf (fun a => if (x =? a)%nat then k a else 0) d = k x.
Proof.
  induction d as [|y rest IH]; intros ND Hin; [destruct Hin|]. simpl.
  inversion ND as [|? ? Hy ND']; subst. destruct Hin as [->|Hin].
  - rewrite Nat.eqb_refl. rewrite sumf_zero; [lra|].
    intros a Ha. destruct (x =? a)%nat eqn:E; [|reflexivity]. apply Nat.eqb_eq in E. subst. contradiction.
  - destruct (x =? y)%nat eqn:E.
    + apply Nat.eqb_eq in E. subst. contradiction.
    + rewrite IH by assumption. lra.
Qed.

(* regrouping a weighted sum by source *)
Lemma sumf_regroup {A} (src : A -> nat) (w : A -> R) (g : nat -> R) (d : list nat) (l : list A) :
  NoDup d -> (forall c, In c l -> In (src c) d) ->
  sumf (fun a => sumf w (filter (fun c => (src c =? a)%nat) l) * g a) d = sumf (fun c => w c * g (src c)) l.
Proof.
  intros ND. induction l as [|c rest IH]; intros Hin; simpl.
  - apply sumf_zero. intros. lra.
  - rewrite <- IH by (intros c' Hc'; apply Hin; right; exact Hc').
    rewrite <- (sumf_indicator (fun a => w c * g a) (src c) d ND (Hin c (or_introl eq_refl))).
    rewrite <- sumf_plus. apply sumf_ext. intros a _.
    destruct (src c =? a)%nat; simpl; lra.
Qed.
