(* C03 / C01, population level: the registry invariant over all organisms of a population is
   established by NewPopulation and preserved by every epoch turnover (sequential executor).
   Operator-level facts come from Registry.v (and, through [mutators_ok], from MutateWF.v). *)
From NeatModel Require Import Compat.
From NeatModel Require Import Res F64 GoRand Genome Options Insert Dup Mutate Mate Population InsertSpec WF
     MutateMonad MutateFrame MutateSpec MutateWF MateSpec MateWF Registry.
From Coq Require Import Lia Sorting.Sorted Sorting.Permutation.

Notation innovs := Genome.innovs.

(* ------------------------------------------------------------------------------------------ *)
(* 1. inversion of the result monad                                                             *)
(* ------------------------------------------------------------------------------------------ *)
Lemma bind_ok {A B} (r : res A) (f : A -> res B) b : bind r f = Ok b -> exists a, r = Ok a /\ f a = Ok b.
Proof. destruct r; cbn [bind]; try discriminate. intros H. eauto. Qed.

Ltac rinv1 :=
  match goal with
  | H : bind _ _ = Ok _ |- _ =>
    let a := fresh "a" in let E := fresh "E" in
    apply bind_ok in H; destruct H as (a & E & H); cbv beta in H
  | H : Ok _ = Ok _ |- _ => injection H as H
  end.
Ltac rinv := repeat rinv1.
Tactic Notation "mb" hyp(H) "as" ident(a) ident(s1) ident(E) :=
  apply bindM_inv in H; destruct H as (a & s1 & E & H); cbv beta in H.
Ltac ml E := apply lift_inv in E; destruct E as [E ->].
Tactic Notation "rbind" hyp(H) "as" ident(a) ident(E) :=
  apply bind_ok in H; destruct H as (a & E & H); cbv beta in H.

(* ------------------------------------------------------------------------------------------ *)
(* 2. the heap                                                                                  *)
(* ------------------------------------------------------------------------------------------ *)
(* a property of genomes holds of every organism of a heap (or any list of organisms) *)
Definition hall (P : genome -> Prop) (h : list organism) : Prop := forall x, In x h -> P (o_genome x).

Lemma hget_In : forall h k o, hget h k = Ok o -> In o h.
Proof.
  induction h as [|x h IH]; intros k o H; cbn [hget] in H; [discriminate|].
  destruct (Z.eqb (o_key x) k); [injection H as <-; now left|right; eauto].
Qed.

Lemma hset_In : forall h o x, In x (hset h o) -> x = o \/ In x h.
Proof.
  induction h as [|y h IH]; intros o x H; cbn [hset] in H.
  - destruct H as [<-|[]]. now left.
  - destruct (Z.eqb (o_key y) (o_key o)).
    + destruct H as [<-|H]; [now left|right; now right].
    + destruct H as [<-|H]; [right; now left|]. destruct (IH _ _ H); [now left|right; now right].
Qed.

Section Heap.
  Variable P : genome -> Prop.

  Lemma hall_hset h o : hall P h -> P (o_genome o) -> hall P (hset h o).
  Proof. intros H Ho x Hx. apply hset_In in Hx. destruct Hx as [->|Hx]; [exact Ho|now apply H]. Qed.

  Lemma hall_hget h k o : hall P h -> hget h k = Ok o -> P (o_genome o).
  Proof. intros H Hg. apply H. eapply hget_In; eauto. Qed.

  Lemma hall_hsets l : forall h, hall P h -> hall P l -> hall P (hsets h l).
  Proof.
    unfold hsets. induction l as [|o l IH]; intros h H Hl; cbn [fold_left]; [exact H|].
    apply IH; [apply hall_hset; [exact H|apply Hl; now left]|intros x Hx; apply Hl; now right].
  Qed.

  Lemma hall_hgets h : hall P h -> forall ks l, hgets h ks = Ok l -> hall P l.
  Proof.
    intros H. induction ks as [|k ks IH]; intros l Hg; cbn [hgets] in Hg.
    - injection Hg as <-. intros x [].
    - rinv. subst. intros x [<-|Hx]; [eapply hall_hget; eauto|eapply IH; eauto].
  Qed.

  Lemma hall_map (f : organism -> organism) l :
    (forall x, o_genome (f x) = o_genome x) -> hall P l -> hall P (map f l).
  Proof. intros Hf H x Hx. apply in_map_iff in Hx. destruct Hx as (y & <- & Hy). rewrite Hf. now apply H. Qed.

  Lemma hall_incl l l' : (forall x, In x l' -> In x l) -> hall P l -> hall P l'.
  Proof. intros I H x Hx. apply H. now apply I. Qed.

  Lemma hall_app l l' : hall P l -> hall P l' -> hall P (l ++ l').
  Proof. intros H H' x Hx. apply in_app_or in Hx. destruct Hx; auto. Qed.

  Lemma hall_filter f l : hall P l -> hall P (filter f l).
  Proof. intros H x Hx. apply filter_In in Hx. apply H. tauto. Qed.

  (* ---------- sort.Sort keeps the elements ---------- *)
  Lemma ins_rev_In {A} (lt : A -> A -> bool) x : forall rp y, In y (ins_rev lt x rp) -> y = x \/ In y rp.
  Proof.
    induction rp as [|z r IH]; intros y H; cbn [ins_rev] in H.
    - destruct H as [<-|[]]. now left.
    - destruct (lt z x).
      + destruct H as [<-|H]; [right; now left|]. destruct (IH _ H); [now left|right; now right].
      + destruct H as [<-|H]; [now left|now right].
  Qed.

  Lemma sort_desc_In {A} (lt : A -> A -> bool) l y : In y (sort_desc lt l) -> In y l.
  Proof.
    unfold sort_desc. rewrite <- in_rev.
    assert (G : forall l acc, In y (fold_left (fun rp x => ins_rev lt x rp) l acc) -> In y l \/ In y acc).
    { clear l. induction l as [|x l IH]; intros acc H; cbn [fold_left] in H; [now right|].
      destruct (IH _ H) as [H1|H1]; [left; now right|]. apply ins_rev_In in H1. destruct H1 as [->|H1]; [left; now left|now right]. }
    intros H. destruct (G l [] H) as [H1|[]]. exact H1.
  Qed.

  Lemma hall_sort lt l : hall P l -> hall P (sort_desc lt l).
  Proof. apply hall_incl. intros x. apply sort_desc_In. Qed.

  Lemma hall_mark_elim : forall l i n, hall P l -> hall P (mark_elim l i n).
  Proof.
    induction l as [|x l IH]; intros i n H y Hy; cbn [mark_elim] in Hy; [destruct Hy|].
    destruct Hy as [<-|Hy].
    - destruct (Z.geb i n); apply (H x); now left.
    - eapply IH; [|exact Hy]. intros z Hz. apply H. now right.
  Qed.

  (* ---------- prepareForReproduction ---------- *)
  Lemma adjust_fitness_hall o h s h' s' : adjust_fitness o h s = Ok (h', s') -> hall P h -> hall P h'.
  Proof.
    unfold adjust_fitness. intros H Hh. rinv.
    set (adj := map _ a) in *.
    assert (Hadj : hall P adj) by (apply hall_map; [reflexivity|eapply hall_hgets; eauto]).
    destruct (sort_desc org_lt adj) as [|top rest] eqn:Es; [discriminate|].
    destruct (Z.ltb (f_trunc_Z _) 0); [discriminate|].
    match type of H with Ok (hsets _ ?m, _) = _ => set (mk := m) in H end.
    assert (Hmk : hall P mk).
    { subst mk.
      assert (Hm : hall P (mark_elim (top :: rest) 0
                    (f_trunc_Z (ffloor (PrimFloat.add (PrimFloat.mul (o_survival o) (f_of_Z (zlen a))) 1%float))))).
      { apply hall_mark_elim. rewrite <- Es. now apply hall_sort. }
      destruct (mark_elim _ _ _) as [|t r]; [intros x []|].
      intros x [<-|Hx]; [apply (Hm t); now left|apply Hm; now right]. }
    clearbody mk. injection H as <- _. now apply hall_hsets.
  Qed.

  Lemma adjust_all_hall o : forall l h h' l', adjust_all o h l = Ok (h', l') -> hall P h -> hall P h'.
  Proof.
    induction l as [|s l IH]; intros h h' l' H Hh; cbn [adjust_all] in H.
    - injection H as <- _. exact Hh.
    - rbind H as r E. destruct r as [h1 s1]. rbind H as r2 E2. destruct r2 as [h2 l2]. injection H as <- _.
      eapply IH; [exact E2|]. eapply adjust_fitness_hall; eauto.
  Qed.

  Lemma purge_zero_offspring_hall p p' : purge_zero_offspring p = Ok p' -> hall P (p_heap p) -> hall P (p_heap p').
  Proof.
    unfold purge_zero_offspring. intros H Hh. rbind H as orgs E. rbind H as r E2. destruct r as [sps te].
    injection H as <-. cbn [p_heap p_with].
    destruct (PrimFloat.eqb _ _); [exact Hh|].
    apply hall_hsets; [exact Hh|]. apply hall_map; [reflexivity|]. eapply hall_hgets; eauto.
  Qed.

  Lemma first_org_hall h s c : first_org h s = Ok c -> hall P h -> P (o_genome c).
  Proof. unfold first_org. destruct (sp_orgs s); [discriminate|]. intros H Hh. eapply hall_hget; eauto. Qed.

  Lemma set_champ_super_hall h s n h' : set_champ_super h s n = Ok h' -> hall P h -> hall P h'.
  Proof.
    unfold set_champ_super. intros H Hh. rinv. subst. apply hall_hset; [exact Hh|].
    cbn. eapply first_org_hall; eauto.
  Qed.

  Lemma delta_coding_hall o p sorted p' : delta_coding o p sorted = Ok p' -> hall P (p_heap p) -> hall P (p_heap p').
  Proof.
    unfold delta_coding. intros H Hh. destruct sorted as [|a [|b rest]]; [discriminate| |].
    - rinv. subst. cbn. eapply set_champ_super_hall; eauto.
    - rinv. subst. cbn. eapply set_champ_super_hall; [eauto|]. eapply set_champ_super_hall; eauto.
  Qed.

  Lemma give_loop_hall o : forall sorted bi blocks sps h stolen s sps' h' stolen' s',
      give_loop o sorted bi blocks (sps, h, stolen) s = Ok ((sps', h', stolen'), s') ->
      hall P h -> hall P h' /\ s_env s' = s_env s.
  Proof.
    induction sorted as [|id r IH]; intros bi blocks sps h stolen s sps' h' stolen' s' H Hh; cbn [give_loop] in H.
    - minv. pairs. subst. auto.
    - destruct (sp_find sps id) as [sp|]; [|discriminate].
      destruct (Z.gtb _ _); [eapply IH; eauto|].
      minv. destruct a as [[sps1 h1] stolen1].
      assert (Hstep : hall P h1 /\ s_env s0 = s_env s).
      { destruct (_ && _).
        - minv. pairs. subst. split; [eapply set_champ_super_hall; eauto|reflexivity].
        - destruct (Z.geb bi 3).
          + minv. apply ep_float64 in E0. destruct (PrimFloat.ltb _ a).
            * destruct (Z.gtb stolen 3); minv; pairs; subst; (split; [eapply set_champ_super_hall; eauto|exact E0]).
            * minv. pairs. subst. auto.
          + minv. pairs. subst. auto. }
      destruct Hstep as [Hh1 Es]. destruct (Z.leb stolen1 0).
      + minv. pairs. subst. auto.
      + destruct (IH _ _ _ _ _ _ _ _ _ _ H Hh1) as [A B]. split; [exact A|congruence].
  Qed.

  Lemma give_babies_hall o p sorted s p' s' :
    give_babies o p sorted s = Ok (p', s') -> hall P (p_heap p) -> hall P (p_heap p') /\ s_env s' = s_env s.
  Proof.
    unfold give_babies. intros H Hh. destruct (steal_loop _ _ _ _) as [sps1 stolen].
    minv. destruct a as [[sps2 h2] leftover].
    destruct (give_loop_hall _ _ _ _ _ _ _ _ _ _ _ _ E Hh) as [Hh2 Es].
    destruct (Z.gtb leftover 0).
    - destruct sorted as [|id r]; [discriminate|]. destruct (sp_find sps2 id); [|discriminate].
      minv. subst. cbn [p_heap p_with]. split; [|exact Es]. apply hall_hset; [exact Hh2|].
      cbn. eapply first_org_hall; eauto.
    - minv. subst. cbn [p_heap p_with]. auto.
  Qed.

  Lemma remove_from_species_heap p x p' : remove_from_species p x = Ok p' -> p_heap p' = p_heap p.
  Proof.
    unfold remove_from_species. destruct (sp_find _ _); intros H; rinv; subst; reflexivity.
  Qed.

  Lemma purge_organisms_loop_heap : forall ks p keep p', purge_organisms_loop p ks keep = Ok p' -> p_heap p' = p_heap p.
  Proof.
    induction ks as [|k ks IH]; intros p keep p' H; cbn [purge_organisms_loop] in H.
    - injection H as <-. reflexivity.
    - rinv. destruct (o_elim a).
      + rinv. rewrite (IH _ _ _ H). eapply remove_from_species_heap; eauto.
      + eapply IH; eauto.
  Qed.

  Lemma prepare_hall o p s p' sorted best s' :
    prepare o p s = Ok ((p', sorted, best), s') -> hall P (p_heap p) -> hall P (p_heap p') /\ s_env s' = s_env s.
  Proof.
    unfold prepare. intros H Hh.
    mb H as r s1 E1. ml E1. destruct r as [h1 sps1].
    mb H as p2 s2 E2. ml E2.
    assert (H2 : hall P (p_heap p2)).
    { eapply purge_zero_offspring_hall; [eauto|]. cbn [p_heap p_with]. eapply adjust_all_hall; eauto. }
    destruct (sort_desc _ _) as [|bst rest] eqn:Es; [discriminate|].
    mb H as c s3 E3. ml E3.
    set (p4 := if PrimFloat.ltb _ _ then _ else _) in *.
    assert (H4 : hall P (p_heap p4)).
    { assert (H3 : hall P (hset (p_heap p2) (o_with_popchamp c true))).
      { apply hall_hset; [exact H2|]. cbn. eapply first_org_hall; eauto. }
      subst p4. destruct (PrimFloat.ltb _ _); exact H3. }
    clearbody p4.
    mb H as p5 s5 E5.
    assert (H5 : hall P (p_heap p5) /\ s_env s5 = s_env s).
    { destruct (Z.geb _ _).
      - ml E5. split; [eapply delta_coding_hall; eauto|reflexivity].
      - destruct (Z.gtb _ _).
        + eapply give_babies_hall; eauto.
        + apply ret_inv in E5. destruct E5 as [<- ->]. auto. }
    destruct H5 as [H5 Es5]. mb H as p6 s6 E6. ml E6.
    apply ret_inv in H. destruct H as [H ->]. injection H as <- _ _.
    unfold purge_organisms in E6. rewrite (purge_organisms_loop_heap _ _ _ _ E6). auto.
  Qed.

  (* ---------- speciate ---------- *)
  Lemma speciate_one_hall o p k p' : speciate_one o p k = Ok p' -> hall P (p_heap p) -> hall P (p_heap p').
  Proof.
    unfold speciate_one. intros H Hh. rinv.
    assert (Hn : hall P (hset (p_heap p) (o_with_species a (p_last_species p + 1)))).
    { apply hall_hset; [exact Hh|]. cbn. eapply hall_hget; eauto. }
    destruct (p_species p) as [|s0 sps]; [injection H as <-; exact Hn|].
    destruct (PrimFloat.eqb _ _); [discriminate|]. rinv.
    destruct a0 as [id|]; injection H as <-; [|exact Hn].
    cbn [p_heap p_with]. apply hall_hset; [exact Hh|]. cbn. exact (hall_hget _ _ _ Hh E).
  Qed.

  Lemma speciate_loop_hall o : forall ks p p', speciate_loop o p ks = Ok p' -> hall P (p_heap p) -> hall P (p_heap p').
  Proof.
    induction ks as [|k ks IH]; intros p p' H Hh; cbn [speciate_loop] in H.
    - injection H as <-. exact Hh.
    - rinv. eapply IH; [eauto|]. eapply speciate_one_hall; eauto.
  Qed.

  Lemma speciate_hall o p ks p' : speciate o p ks = Ok p' -> hall P (p_heap p) -> hall P (p_heap p').
  Proof. unfold speciate. destruct ks; [discriminate|]. apply speciate_loop_hall. Qed.

  (* ---------- finalizeReproduction (P must not depend on the genome id) ---------- *)
  Hypothesis P_id : forall g i, P g -> P (with_id g i).

  Lemma purge_old_loop_heap : forall ks p p', purge_old_loop p ks = Ok p' -> p_heap p' = p_heap p.
  Proof.
    induction ks as [|k ks IH]; intros p p' H; cbn [purge_old_loop] in H.
    - injection H as <-. reflexivity.
    - rinv. rewrite (IH _ _ H). eapply remove_from_species_heap; eauto.
  Qed.

  Lemma renumber_hall : forall ks h c h' c', renumber h ks c = Ok (h', c') -> hall P h -> hall P h'.
  Proof.
    induction ks as [|k ks IH]; intros h c h' c' H Hh; cbn [renumber] in H.
    - injection H as <- _. exact Hh.
    - rinv. eapply IH; [eauto|]. apply hall_hset; [exact Hh|]. cbn. apply P_id. eapply hall_hget; eauto.
  Qed.

  Lemma purge_or_age_hall : forall l h c orgs l' h' orgs',
      purge_or_age l h c orgs = Ok (l', h', orgs') -> hall P h -> hall P h'.
  Proof.
    induction l as [|s l IH]; intros h c orgs l' h' orgs' H Hh; cbn [purge_or_age] in H.
    - injection H as _ <- _. exact Hh.
    - destruct (sp_orgs s) as [|k0 ks0] eqn:Eo; [eapply IH; eauto|].
      rbind H as r E. destruct r as [h1 c1]. rbind H as r2 E2. destruct r2 as [[l2 h2] o2]. injection H as _ <- _.
      eapply IH; [eauto|]. eapply renumber_hall; eauto.
  Qed.

  Lemma finalize_hall p x s p' s' :
    finalize p x s = Ok (p', s') -> hall P (p_heap p) -> hall P (p_heap p') /\ s_env s' = forget (s_env s).
  Proof.
    unfold finalize. intros H Hh. apply bindM_inv in H. destruct H as (p1 & s1 & E1 & H).
    apply lift_inv in E1. destruct E1 as [E1 ->].
    apply bindM_inv in H. destruct H as (r & s2 & E2 & H). apply lift_inv in E2. destruct E2 as [E2 ->].
    destruct r as [[sps h] orgs]. cbv beta iota in H.
    destruct (_ && _); [discriminate|]. injection H as <- <-. cbn [p_heap p_with s_env]. split; [|reflexivity].
    apply hall_filter. eapply purge_or_age_hall; [eauto|]. rewrite (purge_old_loop_heap _ _ _ E1). exact Hh.
  Qed.
End Heap.

(* ------------------------------------------------------------------------------------------ *)
(* 3. reproduction                                                                              *)
(* ------------------------------------------------------------------------------------------ *)
Lemma ep_fail_panic {A} c : env_pres (@fail_panic st A c).
Proof. intros s a s' H. discriminate. Qed.

Lemma ep_int31n n : env_pres (r_int31n n).
Proof. unfold r_int31n. destruct (Z.leb n 0); [apply ep_fail_panic|apply ep_on_tape]. Qed.

Lemma ep_pick_other_species : forall tries self sorted cur, env_pres (pick_other_species tries self sorted cur).
Proof.
  induction tries as [|k IH]; intros self sorted cur; cbn [pick_other_species]; [apply ep_ret|].
  destruct (negb _); [apply ep_ret|]. repeat first [apply IH | ep_step].
Qed.

Section Repro.
  Variable MH : mutators_ok.
  Variable C : ctx.

  (* environment and registry grew, and every organism of the heap satisfies the invariant *)
  Definition pop_step (e e' : ienv) (R : reg) (NR : nreg) (h' : list organism) : Prop :=
    exists R' NR', env_extends e e' /\ ext e e' R R' NR NR' /\ rok C e' R' NR' /\ hall (gok C e' R' NR') h'.

  Lemma pop_step_refl e R NR h : rok C e R NR -> hall (gok C e R NR) h -> pop_step e e R NR h.
  Proof. intros A B. exists R, NR. split; [apply env_extends_refl|]. split; [apply ext_refl|]. auto. Qed.

  Lemma pop_step_trans e0 e1 e2 R NR h1 h2 :
    pop_step e0 e1 R NR h1 ->
    (forall R1 NR1, rok C e1 R1 NR1 -> hall (gok C e1 R1 NR1) h1 -> pop_step e1 e2 R1 NR1 h2) ->
    pop_step e0 e2 R NR h2.
  Proof.
    intros (R1 & N1 & X1 & E1 & RO1 & G1) H. destruct (H R1 N1 RO1 G1) as (R2 & N2 & X2 & E2 & RO2 & G2).
    exists R2, N2. split; [eapply env_extends_trans; eauto|]. split; [eapply ext_trans; eauto|]. auto.
  Qed.

  (* a heap built from the old heap and one new genome *)
  Lemma finish_step e e' R NR h g' h' :
    hall (gok C e R NR) h -> step_ok C e e' R NR g' ->
    (forall P : genome -> Prop, hall P h -> P g' -> hall P h') -> pop_step e e' R NR h'.
  Proof.
    intros Hh (R' & NR' & X & E & RO & G) Hb. exists R', NR'. split; [exact X|]. split; [exact E|]. split; [exact RO|].
    apply Hb; [|exact G]. intros x Hx. eapply gok_mono; [now apply Hh|exact X|apply (x_R _ _ _ _ _ _ E)|apply (x_NR _ _ _ _ _ _ E)].
  Qed.

  Lemma mutate_baby_step o R NR g s g' b s' :
    rok C (s_env s) R NR -> gok C (s_env s) R NR g ->
    mutate_baby o g s = Ok ((g', b), s') -> step_ok C (s_env s) (s_env s') R NR g'.
  Proof.
    unfold mutate_baby. intros RO G H.
    mb H as r1 s1 E1. apply ep_float64 in E1. rewrite <- E1 in RO, G |- *.
    destruct (PrimFloat.ltb r1 _).
    { mb H as r s2 E2. destruct r as [g2 b2]. apply ret_inv in H. destruct H as [H ->]. injection H as <- _.
      eapply (add_node_step MH); eauto. }
    mb H as r2 s2 E2. apply ep_float64 in E2. rewrite <- E2 in RO, G |- *.
    destruct (PrimFloat.ltb r2 _).
    { mb H as r s3 E3. destruct r as [g2 b2]. apply ret_inv in H. destruct H as [H ->]. injection H as <- _.
      eapply (add_link_step MH); eauto. }
    mb H as r3 s3 E3. apply ep_float64 in E3. rewrite <- E3 in RO, G |- *.
    mb H as gs s4 E4. destruct gs as [g1 structural].
    assert (S1 : step_ok C (s_env s3) (s_env s4) R NR g1).
    { destruct (PrimFloat.ltb r3 _).
      - eapply (connect_sensors_step MH); eauto.
      - apply ret_inv in E4. destruct E4 as [E4 ->]. injection E4 as <- _. now apply step_ok_refl. }
    destruct structural.
    - apply ret_inv in H. destruct H as [H ->]. injection H as <- _. exact S1.
    - mb H as r s5 E5. destruct r as [g5 b5]. apply ret_inv in H. destruct H as [H ->]. injection H as <- _.
      eapply step_ok_trans; [exact S1|]. intros R1 NR1 RO1 G1. eapply (all_nonstructural_step MH); eauto.
  Qed.

  Lemma dup_gok e R NR g count g0 : gok C e R NR g -> duplicate g count = Ok g0 -> gok C e R NR g0.
  Proof.
    intros G H. rewrite (duplicate_wf g count (gk_wf _ _ _ _ _ G)) in H. injection H as <-. now apply gok_with_id.
  Qed.

  Lemma one_baby_ok o gen all sorted sp count rs s rs' s' R NR :
    rok C (s_env s) R NR -> hall (gok C (s_env s) R NR) (r_heap rs) ->
    one_baby o gen all sorted sp count rs s = Ok (rs', s') ->
    pop_step (s_env s) (s_env s') R NR (r_heap rs').
  Proof.
    unfold one_baby. intros RO Hh H. cbv zeta in H.
    mb H as champ s1 E1. ml E1.
    assert (Hc : gok C (s_env s) R NR (o_genome champ)) by (eapply first_org_hall; eauto).
    destruct (Z.gtb (o_super champ) 0).
    { (* a super champion's offspring *)
      mb H as g0 s2 E2. ml E2. pose proof (dup_gok _ _ _ _ _ _ Hc E2) as G0.
      mb H as gm s3 E3. destruct gm as [g1 ms].
      assert (S : step_ok C (s_env s) (s_env s3) R NR g1).
      { destruct (Z.gtb (o_super champ) 1).
        - mb E3 as r s4 E4. apply ep_float64 in E4. rewrite <- E4 in RO, G0 |- *.
          destruct (_ || _).
          + mb E3 as x s5 E5. destruct x as [gx bx]. apply ret_inv in E3. destruct E3 as [E3 ->]. injection E3 as <- _.
            eapply (link_weights_step MH); eauto.
          + mb E3 as x s5 E5. destruct x as [gx bx]. apply ret_inv in E3. destruct E3 as [E3 ->]. injection E3 as <- _.
            eapply (add_link_step MH); eauto.
        - apply ret_inv in E3. destruct E3 as [E3 ->]. injection E3 as <- _. now apply step_ok_refl. }
      apply ret_inv in H. destruct H as [H ->]. rewrite <- H. cbn [r_heap].
      eapply finish_step; [exact Hh|exact S|]. intros P HP Hg.
      apply hall_hset; [apply hall_hset; [exact HP|cbn; eapply first_org_hall; eauto]|].
      destruct (_ && _); cbn; exact Hg. }
    destruct (_ && _).
    { (* the champion's clone *)
      mb H as g0 s2 E2. ml E2. pose proof (dup_gok _ _ _ _ _ _ Hc E2) as G0.
      apply ret_inv in H. destruct H as [H ->]. rewrite <- H. cbn [r_heap].
      eapply finish_step; [exact Hh|apply step_ok_refl; eauto|]. intros P HP Hg. apply hall_hset; [exact HP|exact Hg]. }
    mb H as r s2 E2. apply ep_float64 in E2. rewrite <- E2 in RO, Hh, Hc |- *.
    destruct (_ || _).
    { (* mutation only *)
      mb H as k s3 E3. apply ep_int31n in E3. rewrite <- E3 in RO, Hh, Hc |- *.
      mb H as mk s4 E4. ml E4. mb H as mom s5 E5. ml E5.
      assert (Hm : gok C (s_env s3) R NR (o_genome mom)) by (eapply hall_hget; eauto).
      mb H as g0 s6 E6. ml E6. pose proof (dup_gok _ _ _ _ _ _ Hm E6) as G0.
      mb H as gm s7 E7. destruct gm as [g1 b1].
      apply ret_inv in H. destruct H as [H ->]. rewrite <- H. cbn [r_heap fst].
      eapply finish_step; [exact Hh|eapply mutate_baby_step; eauto|].
      intros P HP Hg. apply hall_hset; [exact HP|exact Hg]. }
    (* mating *)
    mb H as k s3 E3. apply ep_int31n in E3. rewrite <- E3 in RO, Hh, Hc |- *.
    mb H as mk s4 E4. ml E4. mb H as mom s5 E5. ml E5.
    assert (Hm : gok C (s_env s3) R NR (o_genome mom)) by (eapply hall_hget; eauto).
    mb H as r2 s6 E6. apply ep_float64 in E6. rewrite <- E6 in RO, Hh, Hc, Hm |- *.
    mb H as dad s7 E7.
    assert (Hd : gok C (s_env s7) R NR (o_genome dad) /\ s_env s7 = s_env s6).
    { destruct (PrimFloat.ltb _ r2).
      - mb E7 as k2 s8 E8. apply ep_int31n in E8. mb E7 as dk s9 E9. ml E9. ml E7.
        rewrite E8. split; [eapply hall_hget; eauto|reflexivity].
      - mb E7 as sid s8 E8. apply ep_pick_other_species in E8. destruct (sp_find all sid); [|discriminate].
        ml E7. rewrite E8. split; [eapply first_org_hall; eauto|reflexivity]. }
    destruct Hd as [Hd Es7]. rewrite <- Es7 in RO, Hh, Hc, Hm |- *.
    mb H as r3 s8 E8. apply ep_float64 in E8. rewrite <- E8 in RO, Hh, Hc, Hm, Hd |- *.
    mb H as child s9 E9.
    assert (Hch : s_env s9 = s_env s8 /\ gok C (s_env s8) R NR child).
    { destruct (PrimFloat.ltb r3 _).
      - exact (mate_multipoint_gen_gok C _ R NR false _ _ _ _ _ _ _ _ RO Hm Hd E9).
      - mb E9 as r4 s10 E10. apply ep_float64 in E10. rewrite <- E10 in RO, Hm, Hd |- *.
        destruct (PrimFloat.ltb r4 _).
        + exact (mate_multipoint_gen_gok C _ R NR true _ _ _ _ _ _ _ _ RO Hm Hd E9).
        + exact (mate_singlepoint_gok C _ R NR _ _ _ _ _ _ RO Hm Hd E9). }
    destruct Hch as [Es9 Hch]. rewrite <- Es9 in RO, Hh, Hch |- *.
    mb H as r5 s10 E10. apply ep_float64 in E10. rewrite <- E10 in RO, Hh, Hch |- *.
    mb H as gm s11 E11. destruct gm as [g1 b1].
    apply ret_inv in H. destruct H as [H ->]. rewrite <- H. cbn [r_heap fst].
    eapply finish_step; [exact Hh| |intros P HP Hg; apply hall_hset; [exact HP|exact Hg]].
    destruct (_ || _).
    - eapply mutate_baby_step; eauto.
    - apply ret_inv in E11. destruct E11 as [E11 ->]. injection E11 as <- _. now apply step_ok_refl.
  Qed.

  Lemma reproduce_loop_ok o gen all sorted sp : forall n count rs s rs' s' R NR,
      rok C (s_env s) R NR -> hall (gok C (s_env s) R NR) (r_heap rs) ->
      reproduce_loop n o gen all sorted sp count rs s = Ok (rs', s') ->
      pop_step (s_env s) (s_env s') R NR (r_heap rs').
  Proof.
    induction n as [|n IH]; intros count rs s rs' s' R NR RO Hh H; cbn [reproduce_loop] in H.
    - apply ret_inv in H. destruct H as [<- ->]. now apply pop_step_refl.
    - mb H as rs1 s1 E1. eapply pop_step_trans; [eapply one_baby_ok; eauto|].
      intros R1 NR1 RO1 Hh1. eapply IH; eauto.
  Qed.

  Lemma reproduce_species_ok o gen all sorted sp h key s h' key' bs s' R NR :
    rok C (s_env s) R NR -> hall (gok C (s_env s) R NR) h ->
    reproduce_species o gen all sorted sp h key s = Ok ((h', key', bs), s') ->
    pop_step (s_env s) (s_env s') R NR h'.
  Proof.
    unfold reproduce_species. intros RO Hh H. destruct (_ && _); [discriminate|].
    destruct (sp_orgs sp); [discriminate|].
    mb H as rs s1 E1. apply ret_inv in H. destruct H as [H ->]. injection H as <- _ _.
    eapply reproduce_loop_ok; [exact RO| |exact E1]. exact Hh.
  Qed.

  Lemma reproduce_all_ok o gen all sorted best : forall l h key babies br s h' key' babies' br' s' R NR,
      rok C (s_env s) R NR -> hall (gok C (s_env s) R NR) h ->
      reproduce_all o gen all sorted best l h key babies br s = Ok ((h', key', babies', br'), s') ->
      pop_step (s_env s) (s_env s') R NR h'.
  Proof.
    induction l as [|sp l IH]; intros h key babies br s h' key' babies' br' s' R NR RO Hh H; cbn [reproduce_all] in H.
    - apply ret_inv in H. destruct H as [H ->]. injection H as <- _ _ _. now apply pop_step_refl.
    - mb H as r s1 E1. destruct r as [[h1 key1] bs].
      eapply pop_step_trans; [eapply reproduce_species_ok; eauto|].
      intros R1 NR1 RO1 Hh1. eapply IH; eauto.
  Qed.

  Lemma reproduce_ok o gen p sorted x s p' x' s' R NR :
    rok C (s_env s) R NR -> hall (gok C (s_env s) R NR) (p_heap p) ->
    reproduce o gen p sorted x s = Ok ((p', x'), s') ->
    pop_step (s_env s) (s_env s') R NR (p_heap p').
  Proof.
    unfold reproduce. intros RO Hh H. mb H as r s1 E1. destruct r as [[[h1 key1] babies] br].
    destruct (negb _); [discriminate|]. mb H as p2 s2 E2. ml E2.
    apply ret_inv in H. destruct H as [H ->]. injection H as <- _.
    destruct (reproduce_all_ok _ _ _ _ _ _ _ _ _ _ _ _ _ _ _ _ _ _ RO Hh E1) as (R' & NR' & X & E & RO' & Hh').
    exists R', NR'. split; [exact X|]. split; [exact E|]. split; [exact RO'|].
    eapply speciate_hall; [exact E2|]. exact Hh'.
  Qed.
End Repro.

(* ------------------------------------------------------------------------------------------ *)
(* 4. the hypotheses on the mutators are the theorems of MutateWF.v                             *)
(* ------------------------------------------------------------------------------------------ *)
Theorem mutators_ok_holds : mutators_ok.
Proof.
  constructor.
  - intros o g s g' b s'. exact (mutate_add_node_wf o g s g' b s').
  - intros o g s g' b s'. exact (mutate_add_link_wf o g s g' b s').
  - intros g s g' b s'. exact (mutate_connect_sensors_wf g s g' b s').
  - intros o g s g' b s'. exact (mutate_all_nonstructural_wf o g s g' b s').
  - intros pw rt ga g s g' b s'. exact (mutate_link_weights_wf pw rt ga g s g' b s').
Qed.

(* ------------------------------------------------------------------------------------------ *)
(* 5. the population invariant and one epoch                                                    *)
(* ------------------------------------------------------------------------------------------ *)
Record GInv (C : ctx) (p : population) (e : ienv) (R : reg) (NR : nreg) : Prop := {
  gi_reg : rok C e R NR;
  gi_orgs : hall (gok C e R NR) (p_heap p)
}.

Lemma ext_forget e e' R R' NR NR' : ext e e' R R' NR NR' -> ext e (forget e') R R' NR NR'.
Proof. intros [A B D E F G]. constructor; assumption. Qed.

Theorem GInv_step C o gen p x s p' x' s' R NR :
  GInv C p (s_env s) R NR -> next_epoch o gen p x s = Ok ((p', x'), s') ->
  exists R' NR', ext (s_env s) (s_env s') R R' NR NR' /\ GInv C p' (s_env s') R' NR' /\ innovs (s_env s') = [].
Proof.
  unfold next_epoch. intros [RO Hh] H.
  mb H as r s1 E1. destruct r as [[p1 sorted] best].
  destruct (prepare_hall _ _ _ _ _ _ _ _ E1 Hh) as [Hh1 Es1]. rewrite <- Es1 in RO, Hh1 |- *.
  mb H as r2 s2 E2. destruct r2 as [p2 x2].
  destruct (reproduce_ok mutators_ok_holds C _ _ _ _ _ _ _ _ _ _ _ RO Hh1 E2) as (R' & NR' & X & E & RO' & Hh2).
  mb H as p3 s3 E3. apply ret_inv in H. destruct H as [H ->]. injection H as <- _.
  destruct (finalize_hall (gok C (s_env s2) R' NR') (fun g i => gok_with_id C _ R' NR' g i) _ _ _ _ _ E3 Hh2) as [Hh3 Es3].
  exists R', NR'. rewrite Es3. split; [now apply ext_forget|]. split; [|reflexivity].
  constructor; [now apply rok_forget|]. intros y Hy. apply gok_forget. now apply Hh3.
Qed.

Lemma set_fitness_hall P : forall ks fs h h', set_fitness h ks fs = Ok h' -> hall P h -> hall P h'.
Proof.
  induction ks as [|k ks IH]; intros fs h h' H Hh; cbn [set_fitness] in H; [injection H as <-; exact Hh|].
  destruct fs as [|f fs]; [injection H as <-; exact Hh|]. rbind H as y E.
  eapply IH; [exact H|]. apply hall_hset; [exact Hh|]. cbn. eapply hall_hget; eauto.
Qed.

(* ------------------------------------------------------------------------------------------ *)
(* 6. histories: any number of (evaluate, turn over) rounds                                     *)
(* ------------------------------------------------------------------------------------------ *)
(* [history o p s l p' s']: from population p and state s, a run of |l| epochs, each after an
   arbitrary assignment of fitness values, with an arbitrary generation number, executor state
   and random tape, leads to p' and s'; l lists the populations after each epoch *)
Inductive history (o : options) : population -> st -> list population -> population -> st -> Prop :=
| hist_nil p s : history o p s [] p s
| hist_step p s fs h gen x tp p1 x1 s1 l p2 s2 :
    set_fitness (p_heap p) (p_orgs p) fs = Ok h ->
    next_epoch o gen (p_with_heap p h) x {| s_tape := tp; s_env := s_env s |} = Ok ((p1, x1), s1) ->
    history o p1 s1 l p2 s2 ->
    history o p s (p1 :: l) p2 s2.

Theorem GInv_history C o p s l p' s' : history o p s l p' s' -> forall R NR,
  GInv C p (s_env s) R NR ->
  exists R' NR', incl R R' /\ incl NR NR' /\ GInv C p' (s_env s') R' NR' /\
                 (forall n k, In (n, k) R' -> In (n, k) R \/ next_innov (s_env s) < n) /\
                 (forall i t, In (i, t) NR' -> In (i, t) NR \/ next_node (s_env s) < i) /\
                 forall q, In q l -> exists e, hall (gok C e R' NR') (p_heap q).
Proof.
  induction 1 as [p s|p s fs h gen x tp p1 x1 s1 l p2 s2 Hf He Hh IH]; intros R NR G.
  - exists R, NR. split; [apply incl_refl|]. split; [apply incl_refl|]. split; [exact G|]. split; [auto|]. split; [auto|].
    intros q [].
  - assert (G0 : GInv C (p_with_heap p h) (s_env {| s_tape := tp; s_env := s_env s |}) R NR).
    { destruct G as [RO Hp]. constructor; [exact RO|]. cbn [p_heap p_with_heap p_with s_env].
      eapply set_fitness_hall; eauto. }
    destruct (GInv_step _ _ _ _ _ _ _ _ _ _ _ G0 He) as (R1 & N1 & X1 & G1 & _). cbn [s_env] in X1.
    destruct (IH R1 N1 G1) as (R2 & N2 & I1 & I2 & G2 & New1 & New2 & Hl).
    exists R2, N2. split; [eapply incl_tran; [apply (x_R _ _ _ _ _ _ X1)|exact I1]|].
    split; [eapply incl_tran; [apply (x_NR _ _ _ _ _ _ X1)|exact I2]|]. split; [exact G2|].
    split; [|split].
    + intros n k Hin. destruct (New1 n k Hin) as [H1|H1].
      * apply (x_new _ _ _ _ _ _ X1 n k H1).
      * right. pose proof (x_innov _ _ _ _ _ _ X1). lia.
    + intros i t Hin. destruct (New2 i t Hin) as [H1|H1].
      * apply (x_nnew _ _ _ _ _ _ X1 i t H1).
      * right. pose proof (x_node _ _ _ _ _ _ X1). lia.
    + intros q [<-|Hq]; [|now apply Hl]. exists (s_env s1). intros y Hy.
      destruct G1 as [_ Hp1]. specialize (Hp1 y Hy). destruct Hp1 as [A B D E F G' H'].
      constructor; auto.
      * intros z Hz. apply I1. now apply D.
      * intros z Hz. apply I2. now apply E.
Qed.

(* any two genes that ever lived in the population and carry the same innovation number join the
   same nodes with the same recurrence flag; a node id never denotes nodes of different roles *)
Theorem history_one_link_per_number C o p s l p' s' R NR :
  GInv C p (s_env s) R NR -> history o p s l p' s' ->
  forall pa pb a b, In pa (p :: l) -> In pb (p :: l) -> In a (p_heap pa) -> In b (p_heap pb) ->
    (forall xa xb, In xa (genes (o_genome a)) -> In xb (genes (o_genome b)) -> g_innov xa = g_innov xb ->
                   link_key xa = link_key xb) /\
    (forall na nb, In na (nodes (o_genome a)) -> In nb (nodes (o_genome b)) -> n_id na = n_id nb ->
                   n_type na = n_type nb).
Proof.
  intros G H. destruct (GInv_history C _ _ _ _ _ _ H R NR G) as (R' & NR' & I1 & I2 & G' & _ & _ & Hl).
  assert (Hall : forall q, In q (p :: l) -> hall (fun g => g_agrees R' g /\ n_agrees NR' g) (p_heap q)).
  { intros q [<-|Hq] y Hy.
    - destruct G as [_ Hp]. specialize (Hp y Hy). split.
      + intros z Hz. apply I1. now apply (gk_reg _ _ _ _ _ Hp).
      + intros z Hz. apply I2. now apply (gk_nreg _ _ _ _ _ Hp).
    - destruct (Hl q Hq) as (e & He). specialize (He y Hy). split; [apply (gk_reg _ _ _ _ _ He)|apply (gk_nreg _ _ _ _ _ He)]. }
  intros pa pb a b Hpa Hpb Ha Hb. destruct (Hall pa Hpa a Ha) as [A1 A2]. destruct (Hall pb Hpb b Hb) as [B1 B2].
  destruct G' as [RO' _]. split.
  - intros xa xb Hxa Hxb E. apply (ro_fun _ _ _ _ RO' (g_innov xa)); [now apply A1|]. rewrite E. now apply B1.
  - intros na nb Hna Hnb E. apply (ro_nfun _ _ _ _ RO' (n_id na)); [now apply A2|]. rewrite E. now apply B2.
Qed.

(* ------------------------------------------------------------------------------------------ *)
(* 7. initialisation: NewPopulation / spawn                                                     *)
(* ------------------------------------------------------------------------------------------ *)
Definition ctx_of (g : genome) : ctx :=
  {| c_io := io_nodes g; c_tshape := tshape g; c_n0 := g_innov (hd dummy_gene (genes g)) |}.
Definition reg_of (g : genome) : reg := map (fun x => (g_innov x, link_key x)) (genes g).
Definition nreg_of (g : genome) : nreg := map (fun n => (n_id n, n_type n)) (nodes g).

Lemma init_ok g e :
  wf g -> innovs e = [] ->
  (forall x, In x (genes g) -> g_innov x <= next_innov e) ->
  (forall n, In n (nodes g) -> n_id n <= next_node e) ->
  rok (ctx_of g) e (reg_of g) (nreg_of g) /\ gok (ctx_of g) e (reg_of g) (nreg_of g) g.
Proof.
  intros W Ei Hi Hn.
  pose proof (wf_genes _ W) as Hs. unfold genes_sorted in Hs.
  pose proof (wf_nodes _ W) as Hns. unfold nodes_sorted in Hns.
  assert (Hhd : In (hd dummy_gene (genes g)) (genes g)).
  { pose proof (wf_nonempty _ W). destruct (genes g); [congruence|now left]. }
  split.
  - constructor; cbn [ctx_of c_n0 c_io]; rewrite ?Ei; try (intros; contradiction).
    + intros a b b' H1 H2. unfold reg_of in *. apply in_map_iff in H1. apply in_map_iff in H2.
      destruct H1 as (x1 & [= <- <-] & Hx1). destruct H2 as (x2 & [= E <-] & Hx2).
      now rewrite (asc_inj g_innov (genes g) x2 x1 Hs Hx2 Hx1 E).
    + intros a b b' H1 H2. unfold nreg_of in *. apply in_map_iff in H1. apply in_map_iff in H2.
      destruct H1 as (x1 & [= <- <-] & Hx1). destruct H2 as (x2 & [= E <-] & Hx2).
      now rewrite (asc_inj n_id (nodes g) x2 x1 Hns Hx2 Hx1 E).
    + now apply Hi.
    + intros n k H. unfold reg_of in H. apply in_map_iff in H. destruct H as (x & [= <- <-] & Hx).
      split; [|now apply Hi]. destruct (genes g) as [|x0 l]; [destruct Hx|]. cbn [hd].
      destruct Hx as [<-|Hx]; [lia|]. pose proof (asc_head g_innov x0 l Hs x Hx). lia.
    + intros i t H. unfold nreg_of in H. apply in_map_iff in H. destruct H as (n & [= <- <-] & Hn'). now apply Hn.
    + intros i t H Hio. unfold nreg_of in H. apply in_map_iff in H. destruct H as (n & [= <- <-] & Hn').
      apply in_io_nodes; [exact Hn'|]. now rewrite is_io_io_type.
  - constructor; cbn [ctx_of c_n0 c_io c_tshape]; auto.
    + constructor; rewrite ?Ei; try (intros; contradiction); auto. constructor.
    + intros x Hx. unfold reg_of. apply in_map_iff. now exists x.
    + intros n Hn'. unfold nreg_of. apply in_map_iff. now exists n.
    + apply incl_refl.
    + now apply in_map.
Qed.

Lemma gok_frame C e R NR g g' :
  gok C e R NR g -> frame g g' -> tshape g' = tshape g -> wf g' -> retains_io g g' -> env_ok e g' ->
  gok C e R NR g'.
Proof.
  intros G F T W IO EO. constructor; auto.
  - eapply frame_agrees; [exact F|apply (gk_reg _ _ _ _ _ G)].
  - eapply frame_nagrees; [exact F|apply (gk_nreg _ _ _ _ _ G)].
  - eapply incl_tran; [apply (gk_io _ _ _ _ _ G)|exact IO].
  - rewrite T. apply (gk_tshape _ _ _ _ _ G).
  - rewrite (frame_innovs _ _ F). apply (gk_first _ _ _ _ _ G).
Qed.

(* what Population.spawn makes of the start genome: same structure, other weights *)
Definition spawned (g g' : genome) : Prop :=
  exists i, frame (with_id g i) g' /\ traits g' = traits g /\ nodes g' = nodes g /\
            Forall2 reweighted (genes g) (genes g').

Lemma spawn_loop_spec g : wf g -> forall n count acc s l s',
    spawn_loop n g count acc s = Ok (l, s') -> hall (spawned g) acc -> hall (spawned g) l /\ s_env s' = s_env s.
Proof.
  intros W. induction n as [|n IH]; intros count acc s l s' H Ha; cbn [spawn_loop] in H.
  - apply ret_inv in H. destruct H as [<- ->]. auto.
  - mb H as d s1 E1. ml E1. rewrite (duplicate_wf g count W) in E1. injection E1 as <-.
    mb H as r s2 E2. destruct r as [g1 b1]. apply link_weights_spec in E2.
    destruct E2 as (F & Hn & Ht & HF & _ & Es). cbn [with_id nodes traits genes] in Hn, Ht, HF.
    destruct (IH _ _ _ _ _ H) as [Hl Es'].
    + apply hall_app; [exact Ha|]. intros y [<-|[]]. cbn. exists count. auto.
    + split; [exact Hl|congruence].
Qed.

Lemma spawned_gok C e R NR g g' : gok C e R NR g -> spawned g g' -> gok C e R NR g'.
Proof.
  intros G (i & F & Ht & Hn & HF).
  pose proof (gok_with_id _ _ _ _ _ i G) as Gi. pose proof (gk_wf _ _ _ _ _ G) as W.
  destruct (frame_wf (with_id g i) g' e F) as (W' & IO & EO).
  - intros x' t Hx' Htr. cbn [genes with_id] in *.
    destruct (Forall2_In_r _ _ _ _ HF Hx') as (x & Hx & (w & ->)).
    apply (has_trait_traits g); [reflexivity|]. eapply wf_gene_trait; eauto.
  - rewrite Hn. intros n' t Hn' Htr. apply (has_trait_traits g); [reflexivity|]. eapply wf_node_trait; eauto.
  - apply (gk_wf _ _ _ _ _ Gi).
  - apply (gk_env _ _ _ _ _ Gi).
  - eapply gok_frame; eauto. apply tshape_traits. exact Ht.
Qed.

Theorem GInv_spawn o g s0 p s :
  wf g -> innovs (s_env s0) = [] -> new_population o g s0 = Ok (p, s) ->
  GInv (ctx_of g) p (s_env s) (reg_of g) (nreg_of g) /\ innovs (s_env s) = [].
Proof.
  unfold new_population. intros W Ei H. destruct (Z.leb _ 0); [discriminate|].
  mb H as orgs s1 E1. destruct (spawn_loop_spec g W _ _ _ _ _ _ E1) as [Ho Es1]; [intros x []|].
  mb H as ln s2 E2. ml E2. mb H as ni s3 E3. ml E3.
  mb H as u s4 E4. unfold e_set_counters in E4. injection E4 as _ <-. ml H.
  cbn [s_env]. rewrite Es1, Ei. split; [|reflexivity].
  set (e := {| innovs := []; next_innov := ni - 1; next_node := ln + 1 |}).
  destruct (init_ok g e W eq_refl) as [RO G0].
  - intros x Hx. cbn [e next_innov]. unfold next_gene_innov in E3. rewrite (wf_nonmodular _ W) in E3.
    destruct (genes g) as [|x0 l] eqn:Eg; [discriminate|]. injection E3 as <-.
    pose proof (asc_last_max g_innov (x0 :: l) dummy_gene) as Hmax. rewrite <- Eg in Hmax.
    specialize (Hmax (wf_genes _ W) x). rewrite Eg in Hmax. specialize (Hmax Hx).
    change (match l with [] => x0 | _ :: _ => last l dummy_gene end) with (last (x0 :: l) dummy_gene). lia.
  - intros n Hn. cbn [e next_node]. unfold last_node_id in E2. rewrite (wf_nonmodular _ W) in E2.
    destruct (nodes g) as [|n0 l] eqn:En; [discriminate|]. cbn [fold_left] in E2. injection E2 as <-.
    pose proof (asc_last_max n_id (n0 :: l) {| n_id := 0; n_type := 0; n_act := 0; n_trait := None |}) as Hmax.
    rewrite <- En in Hmax. specialize (Hmax (wf_nodes _ W) n). rewrite En in Hmax. specialize (Hmax Hn).
    cbn [last] in Hmax |- *. lia.
  - constructor; [exact RO|]. eapply speciate_hall; [exact H|]. cbn [p_heap].
    intros y Hy. eapply spawned_gok; [exact G0|]. now apply Ho.
Qed.

(* ------------------------------------------------------------------------------------------ *)
(* 8. C01, population level                                                                     *)
(* ------------------------------------------------------------------------------------------ *)
(* every genome is well-formed and retains the input, bias and output nodes of the start genome *)
Definition pop_wf (g0 : genome) (p : population) : Prop :=
  hall (fun g => wf g /\ retains_io g0 g) (p_heap p).

Lemma GInv_pop_wf g0 p e R NR : GInv (ctx_of g0) p e R NR -> pop_wf g0 p.
Proof.
  intros [_ Hp] y Hy. specialize (Hp y Hy). split; [apply (gk_wf _ _ _ _ _ Hp)|exact (gk_io _ _ _ _ _ Hp)].
Qed.

Theorem pop_wf_spawn o g s0 p s :
  wf g -> innovs (s_env s0) = [] -> new_population o g s0 = Ok (p, s) -> pop_wf g p.
Proof. intros W Ei H. eapply GInv_pop_wf. exact (proj1 (GInv_spawn o g s0 p s W Ei H)). Qed.

Theorem pop_wf_step g0 o gen p x s p' x' s' R NR :
  GInv (ctx_of g0) p (s_env s) R NR -> next_epoch o gen p x s = Ok ((p', x'), s') -> pop_wf g0 p'.
Proof.
  intros G H. destruct (GInv_step _ _ _ _ _ _ _ _ _ _ _ G H) as (R' & NR' & _ & G' & _). eapply GInv_pop_wf; eauto.
Qed.

Theorem pop_wf_history o g s0 p s l p' s' :
  wf g -> innovs (s_env s0) = [] -> new_population o g s0 = Ok (p, s) -> history o p s l p' s' ->
  forall q, In q (p :: l) -> pop_wf g q.
Proof.
  intros W Ei H Hh. destruct (GInv_spawn o g s0 p s W Ei H) as [G _].
  destruct (GInv_history _ _ _ _ _ _ _ Hh _ _ G) as (R' & NR' & _ & _ & _ & _ & _ & Hl).
  intros q [<-|Hq]; [eapply GInv_pop_wf; eauto|].
  destruct (Hl q Hq) as (e & He). intros y Hy. specialize (He y Hy).
  split; [apply (gk_wf _ _ _ _ _ He)|exact (gk_io _ _ _ _ _ He)].
Qed.

(* ------------------------------------------------------------------------------------------ *)
(* 9. numbers and node ids issued in a generation are larger than any held before              *)
(* ------------------------------------------------------------------------------------------ *)
Theorem step_fresh_larger C o gen p x s p' x' s' R NR :
  GInv C p (s_env s) R NR -> next_epoch o gen p x s = Ok ((p', x'), s') ->
  forall b, In b (p_heap p') ->
    (forall xb, In xb (genes (o_genome b)) ->
       In (g_innov xb, link_key xb) R \/
       (next_innov (s_env s) < g_innov xb /\
        forall a xa, In a (p_heap p) -> In xa (genes (o_genome a)) -> g_innov xa < g_innov xb)) /\
    (forall nb, In nb (nodes (o_genome b)) ->
       In (n_id nb, n_type nb) NR \/
       (next_node (s_env s) < n_id nb /\
        forall a na, In a (p_heap p) -> In na (nodes (o_genome a)) -> n_id na < n_id nb)).
Proof.
  intros G H b Hb. destruct (GInv_step _ _ _ _ _ _ _ _ _ _ _ G H) as (R' & NR' & X & [_ Hp'] & _).
  specialize (Hp' b Hb). destruct G as [_ Hp]. split.
  - intros xb Hxb. destruct (x_new _ _ _ _ _ _ X _ _ (gk_reg _ _ _ _ _ Hp' xb Hxb)) as [H1|H1]; [now left|right].
    split; [exact H1|]. intros a xa Ha Hxa. pose proof (eo_innov _ _ (gk_env _ _ _ _ _ (Hp a Ha)) xa Hxa). lia.
  - intros nb Hnb. destruct (x_nnew _ _ _ _ _ _ X _ _ (gk_nreg _ _ _ _ _ Hp' nb Hnb)) as [H1|H1]; [now left|right].
    split; [exact H1|]. intros a na Ha Hna. pose proof (eo_node _ _ (gk_env _ _ _ _ _ (Hp a Ha)) na Hna). lia.
Qed.

(* the record of innovations is forgotten when the generation ends (no hypothesis needed) *)
Theorem next_epoch_forgets o gen p x s p' x' s' :
  next_epoch o gen p x s = Ok ((p', x'), s') ->
  innovs (s_env s') = [].
Proof.
  unfold next_epoch. intros H.
  mb H as r s1 E1. destruct r as [[p1 sorted] best]. mb H as r2 s2 E2. destruct r2 as [p2 x2].
  mb H as p3 s3 E3. apply ret_inv in H. destruct H as [_ ->].
  destruct (finalize_hall (fun _ => True) (fun _ _ _ => I) _ _ _ _ _ E3) as [_ Es]; [intros y Hy; exact I|].
  rewrite Es. reflexivity.
Qed.

(* ------------------------------------------------------------------------------------------ *)
(* 10. an executable history (used by the non-vacuity examples of props/C03.v)                  *)
(* ------------------------------------------------------------------------------------------ *)
Fixpoint run_epochs (o : options) (fit : list float) (n : nat) (gen : Z) (p : population) (x : executor) (s : st)
  : res (list population * st) :=
  match n with
  | O => Ok ([], s)
  | S k =>
    do h <- set_fitness (p_heap p) (p_orgs p) fit;
    do r <- next_epoch o gen (p_with_heap p h) x s;
    let '((p', x'), s') := r in
    do r2 <- run_epochs o fit k (gen + 1) p' x' s';
    Ok (p' :: fst r2, snd r2)
  end.

Definition run_population (o : options) (g : genome) (s0 : st) (fit : list float) (n : nat) : res (list population * st) :=
  do r <- new_population o g s0;
  let '(p, s) := r in
  do r2 <- run_epochs o fit n 1 p {| x_best_id := 0; x_best_reproduced := false |} s;
  Ok (p :: fst r2, snd r2).

Lemma run_epochs_history o fit : forall n gen p x s r,
    run_epochs o fit n gen p x s = Ok r ->
    exists p' s', history o p s (fst r) p' s' /\ length (fst r) = n.
Proof.
  induction n as [|n IH]; intros gen q x t r H; cbn [run_epochs] in H.
  - injection H as <-. exists q, t. split; [constructor|reflexivity].
  - rbind H as h Eh. rbind H as r1 E1. destruct r1 as [[q1 x1] t1]. rbind H as r2 E2. injection H as <-.
    destruct (IH _ _ _ _ _ E2) as (p' & s' & Hh & Hl). exists p', s'. cbn [fst]. split; [|cbn; now rewrite Hl].
    eapply (hist_step o q t fit h gen x (s_tape t)); [exact Eh| |exact Hh]. destruct t as [tp e]. exact E1.
Qed.

Lemma run_population_history o g s0 fit n l s2 :
  run_population o g s0 fit n = Ok (l, s2) ->
  exists p s l' p' s', new_population o g s0 = Ok (p, s) /\ history o p s l' p' s' /\ length l' = n /\ l = p :: l'.
Proof.
  unfold run_population. intros H. rbind H as r E0. destruct r as [p s]. rbind H as r2 E1. injection H as <- _.
  destruct (run_epochs_history _ _ _ _ _ _ _ _ E1) as (p' & s' & Hh & Hl). exists p, s, (fst r2), p', s'. auto.
Qed.

(* ------------------------------------------------------------------------------------------ *)
(* 11. the invariant read through the key lists                                                 *)
(* ------------------------------------------------------------------------------------------ *)
(* every organism that Population.Organisms or a species' member list refers to is in the heap *)
Lemma GInv_reachable C p e R NR k x :
  GInv C p e R NR -> hget (p_heap p) k = Ok x -> gok C e R NR (o_genome x).
Proof. intros [_ Hp] H. apply Hp. eapply hget_In; eauto. Qed.

Lemma pop_wf_reachable g0 p k x : pop_wf g0 p -> hget (p_heap p) k = Ok x -> wf (o_genome x) /\ retains_io g0 (o_genome x).
Proof. intros Hp H. apply Hp. eapply hget_In; eauto. Qed.
