(* C03, ReadPopulation (population_io.go:20-88): the two counters the reader derives from the genomes it
   reads, the population state it builds, the registry invariant GInv for that state, and the life of
   innovation numbers across a Population.Write / ReadPopulation round trip.

   Reader model: model/Plain.v (token lines; [read_population] returns the genomes in order, nextNodeId,
   nextInnovNum).  Population model: model/Population.v.  Invariant: proofs/Registry.v, proofs/PopWF.v.

   What the Go code does with the counters (population_io.go:50-64):
       lastNodeId := g.Nodes[len-1].Id          (no control genes in the plain format)
       if pop.nextNodeId < lastNodeId { pop.nextNodeId = lastNodeId + 1 }
       next := g.Genes[len-1].InnovationNum + 1
       if pop.nextInnovNum < next { pop.nextInnovNum = next }
   Both counters are "last value handed out" (getNextNodeId / getNextInnovationNumber add one and return
   the new value), so "dominates" is [<=]; the innovation counter is even strictly larger.
   Only the LAST node and the LAST gene of every genome are looked at: the counters dominate everything a
   genome holds when its nodes and genes are in ascending order (which [WF.wf] demands and every
   genome the library itself produces satisfies), and may fall short of it otherwise
   ([unsorted_counters_fall_short] below). *)
From NeatModel Require Import Plain PlainSpec PlainPopSpec.
From NeatModel Require Import Compat.
From NeatModel Require Import Res F64 GoRand Genome Options Insert Dup Mutate Mate Population InsertSpec WF
     MutateMonad MutateFrame MutateSpec MutateWF MateSpec MateWF Registry PopWF.
From Coq Require Import Lia Sorting.Sorted.
From Coq Require String.
Import String.StringSyntax.
Local Open Scope string_scope.
Open Scope list_scope.
Open Scope Z_scope.

Notation innovs := Genome.innovs.

(* ------------------------------------------------------------------------------------------ *)
(* 1. the counters, for every stream                                                            *)
(* ------------------------------------------------------------------------------------------ *)
Definition rg_last_node (g : rgenome) : Z := n_id (last (rg_nodes g) dummy_node).
Definition rg_last_innov (g : rgenome) : Z := rg_innov (last (rg_genes g) dummy_rgene).

(* one genome more: the two assignments of population_io.go:50-64 *)
Definition rbump_node (nn : Z) (g : rgenome) : Z :=
  if Z.ltb nn (rg_last_node g) then rg_last_node g + 1 else nn.
Definition rbump_innov (ni : Z) (g : rgenome) : Z :=
  if Z.ltb ni (rg_last_innov g + 1) then rg_last_innov g + 1 else ni.

Definition rg_nonempty (g : rgenome) : Prop := rg_nodes g <> [] /\ rg_genes g <> [].

Definition pinv (st : pstate) : Prop :=
  Forall rg_nonempty (Plain.p_orgs st) /\
  p_next_node st = fold_left rbump_node (Plain.p_orgs st) 0 /\
  p_next_innov st = fold_left rbump_innov (Plain.p_orgs st) 0.

Lemma last_cons_default {A} (x : A) xs d : last xs x = last (x :: xs) d.
Proof.
  destruct xs as [|y ys]; [reflexivity|].
  change (last (x :: y :: ys) d) with (last (y :: ys) d). apply last_default. discriminate.
Qed.

Lemma r_last_node_id_spec g z : r_last_node_id g = Ok z -> rg_nodes g <> [] /\ z = rg_last_node g.
Proof.
  unfold r_last_node_id, rg_last_node. destruct (rg_nodes g) as [|n ns]; [discriminate|].
  intros H. injection H as <-. split; [discriminate|]. now rewrite (last_cons_default n ns dummy_node).
Qed.

Lemma r_next_innov_spec g z : r_next_innov g = Ok z -> rg_genes g <> [] /\ z = rg_last_innov g + 1.
Proof.
  unfold r_next_innov, rg_last_innov. destruct (rg_genes g) as [|x xs]; [discriminate|].
  intros H. injection H as <-. split; [discriminate|]. now rewrite (last_cons_default x xs dummy_rgene).
Qed.

Lemma pinv_finish reg st st' : pinv st -> pop_finish reg st = Ok st' -> pinv st'.
Proof.
  unfold pop_finish. intros (A & B & D) H. destruct (p_buf st); [|discriminate].
  rinv. apply r_last_node_id_spec in E0. apply r_next_innov_spec in E1.
  destruct E0 as [N0 ->]. destruct E1 as [N1 ->]. subst st'. unfold pinv. cbn [Plain.p_orgs p_next_node p_next_innov].
  rewrite !fold_left_app. cbn [fold_left]. rewrite <- B, <- D. split; [|split; reflexivity].
  apply Forall_app. split; [exact A|]. constructor; [split; assumption|constructor].
Qed.

Lemma pinv_buffer st l st' : pinv st -> pop_buffer st l = Ok st' -> pinv st'.
Proof.
  unfold pop_buffer. intros P H. destruct (p_buf st); [|discriminate]. injection H as <-. exact P.
Qed.

Lemma pinv_line reg st l st' : pinv st -> read_pop_line reg st l = Ok st' -> pinv st'.
Proof.
  unfold read_pop_line. intros P H. destruct l as [|t [|t' rest]]; [discriminate|destruct t; discriminate|].
  destruct t as [z|f|b|tag]; try (eapply pinv_buffer; eassumption).
  destruct (String.eqb tag "genomestart").
  { destruct t' as [z| | |]; try discriminate. destruct rest; [|discriminate]. injection H as <-. exact P. }
  destruct (String.eqb tag "genomeend"); [eapply pinv_finish; eassumption|].
  destruct (String.eqb tag "/*"); [injection H as <-; exact P|]. eapply pinv_buffer; eassumption.
Qed.

Lemma pinv_lines reg : forall ls st st', pinv st -> read_pop_lines reg st ls = Ok st' -> pinv st'.
Proof.
  induction ls as [|l ls IH]; intros st st' P H; cbn [read_pop_lines] in H.
  - injection H as <-. exact P.
  - rinv. eapply IH; [|exact H]. eapply pinv_line; eassumption.
Qed.

(* exact characterisation: for every stream that parses the counters are the folds of the two assignments
   over the genomes read, in order; every genome read has a node and a gene; at least one genome was read *)
Theorem read_counters_fold reg ls gs nn ni :
  read_population reg ls = Ok (gs, nn, ni) ->
  gs <> [] /\ Forall rg_nonempty gs /\ nn = fold_left rbump_node gs 0 /\ ni = fold_left rbump_innov gs 0.
Proof.
  unfold read_population. intros H. rinv.
  assert (P : pinv a). { eapply pinv_lines; [|exact E]. repeat split. constructor. }
  destruct P as (A & B & D). destruct (Plain.p_orgs a) as [|g0 l] eqn:Eo; [discriminate|].
  injection H as <- <- <-. split; [discriminate|]. auto.
Qed.

(* ---------- the folds as maxima ---------- *)
Lemma rbump_innov_max ni g : rbump_innov ni g = Z.max ni (rg_last_innov g + 1).
Proof. unfold rbump_innov. destruct (Z.ltb_spec ni (rg_last_innov g + 1)); lia. Qed.

Definition max_over {A} (f : A -> Z) (l : list A) (a : Z) : Z := fold_left (fun m g => Z.max m (f g)) l a.

Lemma max_over_ge {A} (f : A -> Z) : forall l a, a <= max_over f l a.
Proof.
  induction l as [|g l IH]; intros a; cbn [max_over fold_left]; [lia|]. specialize (IH (Z.max a (f g))).
  unfold max_over in IH. lia.
Qed.

Lemma max_over_In {A} (f : A -> Z) : forall l a g, In g l -> f g <= max_over f l a.
Proof.
  induction l as [|x l IH]; intros a g Hg; [destruct Hg|]. cbn [max_over fold_left]. destruct Hg as [<-|Hg].
  - pose proof (max_over_ge f l (Z.max a (f x))). unfold max_over in *. lia.
  - apply (IH (Z.max a (f x)) g Hg).
Qed.

(* the maximum is attained: it is the start value or the value of an element *)
Lemma max_over_attained {A} (f : A -> Z) : forall l a, max_over f l a = a \/ exists g, In g l /\ max_over f l a = f g.
Proof.
  induction l as [|x l IH]; intros a; cbn [max_over fold_left]; [now left|].
  destruct (IH (Z.max a (f x))) as [E|(g & Hg & E)]; unfold max_over in *.
  - rewrite E. destruct (Z.max_spec a (f x)) as [[_ ->]|[_ ->]]; [right; exists x; split; [now left|reflexivity]|now left].
  - right. exists g. split; [now right|exact E].
Qed.

Lemma fold_rbump_innov : forall gs a, fold_left rbump_innov gs a = max_over (fun g => rg_last_innov g + 1) gs a.
Proof.
  induction gs as [|g gs IH]; intros a; [reflexivity|]. cbn [fold_left max_over]. rewrite IH, rbump_innov_max. reflexivity.
Qed.

(* the node counter is the maximum of the last node ids, or one more (depending on the order of the genomes:
   last ids 5,6 give 6; 6,5 give 7) *)
Lemma fold_rbump_node : forall gs a m, m <= a <= m + 1 ->
  max_over rg_last_node gs m <= fold_left rbump_node gs a <= max_over rg_last_node gs m + 1.
Proof.
  induction gs as [|g gs IH]; intros a m H; cbn [fold_left max_over]; [exact H|].
  apply IH. unfold rbump_node. destruct (Z.ltb_spec a (rg_last_node g)); lia.
Qed.

Lemma fold_rbump_node_ge : forall gs a, a <= fold_left rbump_node gs a.
Proof.
  induction gs as [|g gs IH]; intros a; cbn [fold_left]; [lia|].
  specialize (IH (rbump_node a g)). unfold rbump_node in *. destruct (Z.ltb_spec a (rg_last_node g)); lia.
Qed.

Lemma fold_rbump_node_In : forall gs a g, In g gs -> rg_last_node g <= fold_left rbump_node gs a.
Proof.
  induction gs as [|x gs IH]; intros a g Hg; [destruct Hg|]. cbn [fold_left]. destruct Hg as [<-|Hg]; [|now apply IH].
  pose proof (fold_rbump_node_ge gs (rbump_node a x)). unfold rbump_node in *.
  destruct (Z.ltb_spec a (rg_last_node x)); lia.
Qed.

(* for every stream that parses:
     nextInnovNum = max (0, max over the genomes read of (innovation number of the last gene + 1));
     M <= nextNodeId <= M + 1 for M = max (0, max over the genomes read of the id of the last node) *)
Theorem read_counters_exact reg ls gs nn ni :
  read_population reg ls = Ok (gs, nn, ni) ->
  ni = max_over (fun g => rg_last_innov g + 1) gs 0 /\
  max_over rg_last_node gs 0 <= nn <= max_over rg_last_node gs 0 + 1.
Proof.
  intros H. destruct (read_counters_fold _ _ _ _ _ H) as (_ & _ & -> & ->). split.
  - apply fold_rbump_innov.
  - apply fold_rbump_node. lia.
Qed.

(* ---------- dominance ---------- *)
Definition rgenes_sorted (g : rgenome) : Prop := asc rg_innov (rg_genes g).
Definition rnodes_sorted (g : rgenome) : Prop := asc n_id (rg_nodes g).

(* for EVERY stream and registry: each genome read has a last gene and a last node, the innovation counter
   exceeds the number of the last gene and the node counter is at least the id of the last node; when the
   genes (nodes) of the genome are in ascending order the counter dominates all of them *)
Theorem read_counters_dominate reg ls gs nn ni :
  read_population reg ls = Ok (gs, nn, ni) ->
  forall g, In g gs ->
    (rg_genes g <> [] /\ rg_innov (last (rg_genes g) dummy_rgene) < ni /\
     (rgenes_sorted g -> forall x, In x (rg_genes g) -> rg_innov x < ni)) /\
    (rg_nodes g <> [] /\ n_id (last (rg_nodes g) dummy_node) <= nn /\
     (rnodes_sorted g -> forall n, In n (rg_nodes g) -> n_id n <= nn)).
Proof.
  intros H g Hg. destruct (read_counters_fold _ _ _ _ _ H) as (_ & Hne & -> & ->).
  rewrite Forall_forall in Hne. destruct (Hne g Hg) as [Nn Ng].
  assert (A : rg_last_innov g < fold_left rbump_innov gs 0).
  { rewrite fold_rbump_innov. pose proof (max_over_In (fun g => rg_last_innov g + 1) gs 0 g Hg). cbv beta in *. lia. }
  assert (B : rg_last_node g <= fold_left rbump_node gs 0) by now apply fold_rbump_node_In.
  split; (split; [assumption|]); (split; [assumption|]).
  - intros Hs x Hx. pose proof (asc_last_max rg_innov (rg_genes g) dummy_rgene Hs x Hx). unfold rg_last_innov in A. lia.
  - intros Hs n Hn. pose proof (asc_last_max n_id (rg_nodes g) dummy_node Hs n Hn). unfold rg_last_node in B. lia.
Qed.

(* the order hypothesis is necessary: a stream the reader accepts (one genome, genes with innovation numbers
   3, 2, 1 in this order) after which nextInnovNum = 2 although the genome holds number 3, and one (nodes
   1, 2, 3, 6, 5, 4) after which nextNodeId = 5 although the genome holds node 6.  The same two files on
   the real ReadPopulation: see the report / harness family read-counters. *)
Definition ex_act_reg : registry := [(4, "SigmoidSteepenedActivation"); (17, "NullActivation")].

Definition ex_node_line (id kind ty : Z) (act : String.string) : line :=
  [TWord "node"; TInt id; TInt 0; TInt kind; TInt ty; TWord act].
Definition ex_gene_line (i o innov : Z) : line :=
  [TWord "gene"; TInt 0; TInt i; TInt o; TFloat 0x1p-1%float; TBool false; TInt innov; TFloat 0%float; TBool true].

Definition ex_unsorted_genes : list line :=
  [ [TWord "genomestart"; TInt 1];
    ex_node_line 1 1 3 "NullActivation"; ex_node_line 2 1 1 "NullActivation"; ex_node_line 3 1 1 "NullActivation";
    ex_node_line 4 0 2 "SigmoidSteepenedActivation";
    ex_gene_line 3 4 3; ex_gene_line 2 4 2; ex_gene_line 1 4 1;
    [TWord "genomeend"; TInt 1] ].

Definition ex_unsorted_nodes : list line :=
  [ [TWord "genomestart"; TInt 1];
    ex_node_line 1 1 3 "NullActivation"; ex_node_line 2 1 1 "NullActivation"; ex_node_line 3 1 1 "NullActivation";
    ex_node_line 6 0 0 "SigmoidSteepenedActivation"; ex_node_line 5 0 0 "SigmoidSteepenedActivation";
    ex_node_line 4 0 2 "SigmoidSteepenedActivation";
    ex_gene_line 1 4 1; ex_gene_line 2 4 2; ex_gene_line 3 4 3;
    [TWord "genomeend"; TInt 1] ].

Lemma unsorted_counters_fall_short :
  (exists g nn, read_population ex_act_reg ex_unsorted_genes = Ok ([g], nn, 2) /\ map rg_innov (rg_genes g) = [3; 2; 1]) /\
  (exists g ni, read_population ex_act_reg ex_unsorted_nodes = Ok ([g], 5, ni) /\ map n_id (rg_nodes g) = [1; 2; 3; 6; 5; 4]).
Proof. split; eexists; eexists; split; vm_compute; reflexivity. Qed.

(* ------------------------------------------------------------------------------------------ *)
(* 2. the population ReadPopulation builds, and the registry invariant for it                   *)
(* ------------------------------------------------------------------------------------------ *)
(* NewOrganism(0.0, newGenome, 1) for every genome read, in order (heap keys are positions) *)
Fixpoint orgs_from (k : Z) (gs : list genome) : list organism :=
  match gs with
  | [] => []
  | g :: gs' => new_baby k g 1 :: orgs_from (k + 1) gs'
  end.

(* pop = newPopulation() (no species, empty innovation record); pop.Organisms = the organisms;
   pop.nextNodeId, pop.nextInnovNum = the counters; pop.speciate(ctx, pop.Organisms) *)
Definition read_pop_build (o : options) (gs : list genome) (nn ni : Z) : @M st population :=
  fun s =>
    let orgs := orgs_from 0 gs in
    let p := {| p_species := []; p_detached := []; Population.p_orgs := map o_key orgs; p_heap := orgs;
                p_last_species := 0; p_highest := 0%float; p_epochs_highest := 0;
                p_next_key := Z.of_nat (length gs) |} in
    do p' <- speciate o p (map o_key orgs);
    Ok (p', {| s_tape := s_tape s; s_env := {| innovs := []; next_innov := ni; next_node := nn |} |}).

(* ReadPopulation as a whole.  A gene whose endpoint id names no node of its genome is read as a gene
   with a nil endpoint (Plain.v); such a genome has no counterpart in Genome.genome and the population
   is outside the population model: that case is a model limit, not a Go outcome *)
Definition read_population_state (o : options) (reg : registry) (ls : list line) : @M st population :=
  fun s =>
    do r <- read_population reg ls;
    match map_opt Plain.resolve (fst (fst r)) with
    | None => BadOracle
    | Some gs => read_pop_build o gs (snd (fst r)) (snd r) s
    end.

(* ---------- resolve ---------- *)
Lemma map_opt_Forall2 {A B} (f : A -> option B) : forall l l', map_opt f l = Some l' -> Forall2 (fun a b => f a = Some b) l l'.
Proof.
  induction l as [|a l IH]; intros l' H; cbn [map_opt] in H.
  - injection H as <-. constructor.
  - destruct (f a) as [b|] eqn:E; [|discriminate]. destruct (map_opt f l) as [bs|]; [|discriminate].
    injection H as <-. constructor; auto.
Qed.

Lemma resolve_gene_innov x y : resolve_gene x = Some y -> g_innov y = rg_innov x.
Proof. unfold resolve_gene. destruct (rg_in x), (rg_out x); try discriminate. intros H. injection H as <-. reflexivity. Qed.

Lemma resolve_fields r g : Plain.resolve r = Some g ->
  nodes g = rg_nodes r /\ map g_innov (genes g) = map rg_innov (rg_genes r).
Proof.
  unfold Plain.resolve. destruct (map_opt resolve_gene (rg_genes r)) as [xs|] eqn:E; [|discriminate].
  intros H. injection H as <-. cbn [nodes genes]. split; [reflexivity|].
  apply map_opt_Forall2 in E. induction E as [|x y l l' Hxy _ IH]; [reflexivity|].
  cbn [map]. rewrite IH, (resolve_gene_innov _ _ Hxy). reflexivity.
Qed.

Lemma Forall2_In_r' {A B} (P : A -> B -> Prop) l l' b : Forall2 P l l' -> In b l' -> exists a, In a l /\ P a b.
Proof.
  induction 1 as [|a0 b0 l l' H0 _ IH]; intros Hb; [destruct Hb|].
  destruct Hb as [<-|Hb]; [exists a0; split; [now left|exact H0]|].
  destruct (IH Hb) as (a & Ha & Pa). exists a. split; [now right|exact Pa].
Qed.

(* the counters dominate every number and id of a resolved genome whose genes and nodes are in order *)
Lemma read_counters_dominate_resolved reg ls rgs gs nn ni :
  read_population reg ls = Ok (rgs, nn, ni) -> map_opt Plain.resolve rgs = Some gs ->
  forall g, In g gs -> genes_sorted g -> nodes_sorted g ->
    (forall x, In x (genes g) -> g_innov x < ni) /\ (forall n, In n (nodes g) -> n_id n <= nn).
Proof.
  intros H Hr g Hg Sg Sn. apply map_opt_Forall2 in Hr.
  destruct (Forall2_In_r' _ _ _ _ Hr Hg) as (r & Hrin & Er).
  destruct (resolve_fields _ _ Er) as [En Ei].
  destruct (read_counters_dominate _ _ _ _ _ H r Hrin) as [(_ & _ & A) (_ & _ & B)].
  split.
  - intros x Hx. assert (Hin : In (g_innov x) (map rg_innov (rg_genes r))) by (rewrite <- Ei; now apply in_map).
    apply in_map_iff in Hin. destruct Hin as (y & Ey & Hy). rewrite <- Ey. apply A; [|exact Hy].
    unfold rgenes_sorted, asc. rewrite <- Ei. exact Sg.
  - intros n Hn. apply B; [|now rewrite <- En]. unfold rnodes_sorted. rewrite <- En. exact Sn.
Qed.

(* ---------- what the genomes of one population share ---------- *)
Record shares (C : ctx) (g : genome) : Prop := {
  sh_wf : wf g;
  sh_io : incl (c_io C) (io_nodes g);
  sh_io_back : incl (io_nodes g) (c_io C);
  sh_tshape : tshape g = c_tshape C;
  sh_first : exists x, hd_error (genes g) = Some x /\ g_innov x = c_n0 C
}.

Definition regs_of (gs : list genome) : reg := flat_map reg_of gs.
Definition nregs_of (gs : list genome) : nreg := flat_map nreg_of gs.

Lemma in_regs_of gs n k : In (n, k) (regs_of gs) <-> exists g x, In g gs /\ In x (genes g) /\ n = g_innov x /\ k = link_key x.
Proof.
  unfold regs_of, reg_of. rewrite in_flat_map. split.
  - intros (g & Hg & H). apply in_map_iff in H. destruct H as (x & [= <- <-] & Hx). now exists g, x.
  - intros (g & x & Hg & Hx & -> & ->). exists g. split; [exact Hg|]. apply in_map_iff. now exists x.
Qed.

Lemma in_nregs_of gs i t : In (i, t) (nregs_of gs) <-> exists g n, In g gs /\ In n (nodes g) /\ i = n_id n /\ t = n_type n.
Proof.
  unfold nregs_of, nreg_of. rewrite in_flat_map. split.
  - intros (g & Hg & H). apply in_map_iff in H. destruct H as (x & [= <- <-] & Hx). now exists g, x.
  - intros (g & x & Hg & Hx & -> & ->). exists g. split; [exact Hg|]. apply in_map_iff. now exists x.
Qed.

Lemma shares_first_min C g x : shares C g -> In x (genes g) -> c_n0 C <= g_innov x.
Proof.
  intros [W _ _ _ (x0 & Eh & E0)] Hx. pose proof (wf_genes _ W) as Hs. unfold genes_sorted in Hs.
  destruct (genes g) as [|y l]; [destruct Hx|]. cbn [hd_error] in Eh. injection Eh as ->.
  destruct Hx as [<-|Hx]; [lia|]. pose proof (asc_head g_innov x0 l Hs x Hx). lia.
Qed.

Lemma shares_first_in C g : shares C g -> In (c_n0 C) (map g_innov (genes g)).
Proof.
  intros [_ _ _ _ (x0 & Eh & E0)]. destruct (genes g) as [|y l]; [discriminate|]. cbn [hd_error] in Eh.
  injection Eh as ->. rewrite <- E0. now left.
Qed.

(* the environment of a freshly read population: empty record, the two counters *)
Definition read_env (nn ni : Z) : ienv := {| innovs := []; next_innov := ni; next_node := nn |}.

Lemma read_env_ok C gs nn ni :
  gs <> [] -> (forall g, In g gs -> shares C g) -> functional (regs_of gs) -> functional (nregs_of gs) ->
  (forall g x, In g gs -> In x (genes g) -> g_innov x <= ni) ->
  (forall g n, In g gs -> In n (nodes g) -> n_id n <= nn) ->
  rok C (read_env nn ni) (regs_of gs) (nregs_of gs) /\
  forall g, In g gs -> gok C (read_env nn ni) (regs_of gs) (nregs_of gs) g.
Proof.
  intros Hne Hsh F NF Hi Hn. split.
  - constructor; cbn [read_env innovs next_innov next_node]; try (intros; contradiction); auto.
    + destruct gs as [|g0 l]; [contradiction|]. assert (H0 : In g0 (g0 :: l)) by now left.
      pose proof (shares_first_in C g0 (Hsh g0 H0)) as Hin. apply in_map_iff in Hin. destruct Hin as (x & <- & Hx).
      now apply (Hi g0).
    + intros n k H. apply in_regs_of in H. destruct H as (g & x & Hg & Hx & -> & _).
      split; [eapply shares_first_min; eauto|eauto].
    + intros i t H. apply in_nregs_of in H. destruct H as (g & n & Hg & Hn' & -> & _). eauto.
    + intros i t H Hio. apply in_nregs_of in H. destruct H as (g & n & Hg & Hn' & -> & ->).
      apply (sh_io_back C g (Hsh g Hg)). apply in_io_nodes; [exact Hn'|]. now rewrite is_io_io_type.
  - intros g Hg. pose proof (Hsh g Hg) as S. constructor.
    + apply (sh_wf C g S).
    + constructor; cbn [read_env innovs next_innov next_node]; try (intros; contradiction); eauto. constructor.
    + intros x Hx. apply in_regs_of. now exists g, x.
    + intros n Hn'. apply in_nregs_of. now exists g, n.
    + apply (sh_io C g S).
    + apply (sh_tshape C g S).
    + now apply shares_first_in.
Qed.

Lemma orgs_from_genomes : forall gs k x, In x (orgs_from k gs) -> In (o_genome x) gs.
Proof.
  induction gs as [|g gs IH]; intros k x H; cbn [orgs_from] in H; [destruct H|].
  destruct H as [<-|H]; [now left|right; eauto].
Qed.

(* the population built from a list of genomes and two dominating counters satisfies the invariant, with
   the registries read off the genomes; its heap holds only those genomes *)
Theorem read_pop_build_GInv C o gs nn ni s p s' :
  (forall g, In g gs -> shares C g) -> functional (regs_of gs) -> functional (nregs_of gs) ->
  (forall g x, In g gs -> In x (genes g) -> g_innov x <= ni) ->
  (forall g n, In g gs -> In n (nodes g) -> n_id n <= nn) ->
  read_pop_build o gs nn ni s = Ok (p, s') ->
  GInv C p (s_env s') (regs_of gs) (nregs_of gs) /\ s_env s' = read_env nn ni /\ hall (fun g => In g gs) (p_heap p).
Proof.
  unfold read_pop_build. intros Hsh F NF Hi Hn H. rbind H as p1 E. injection H as <- <-. cbn [s_env].
  assert (Hne : gs <> []). { intros ->. cbn in E. discriminate. }
  destruct (read_env_ok C gs nn ni Hne Hsh F NF Hi Hn) as [RO GO].
  split; [|split; [reflexivity|]].
  - constructor; [exact RO|]. eapply speciate_hall; [exact E|]. cbn [p_heap].
    intros x Hx. apply GO. eapply orgs_from_genomes; eauto.
  - eapply speciate_hall; [exact E|]. cbn [p_heap]. intros x Hx. eapply orgs_from_genomes; eauto.
Qed.

(* ReadPopulation on ANY stream: when it succeeds (and every gene endpoint names a node), the environment is
   the empty record with the counters read, the heap holds only genomes read, and - if the genomes read
   are well-formed, share the context C and are mutually consistent - the invariant holds *)
Theorem read_population_GInv C o reg ls s p s' :
  read_population_state o reg ls s = Ok (p, s') ->
  exists rgs gs nn ni,
    read_population reg ls = Ok (rgs, nn, ni) /\ map_opt Plain.resolve rgs = Some gs /\
    s_env s' = read_env nn ni /\ hall (fun g => In g gs) (p_heap p) /\
    ((forall g, In g gs -> shares C g) -> functional (regs_of gs) -> functional (nregs_of gs) ->
     GInv C p (s_env s') (regs_of gs) (nregs_of gs)).
Proof.
  unfold read_population_state. intros H. rbind H as r E. destruct r as [[rgs nn] ni]. cbn [fst snd] in H.
  destruct (map_opt Plain.resolve rgs) as [gs|] eqn:Er; [|discriminate].
  exists rgs, gs, nn, ni. split; [exact E|]. split; [exact Er|].
  assert (Hb : s_env s' = read_env nn ni /\ hall (fun g => In g gs) (p_heap p)).
  { unfold read_pop_build in H. rbind H as p1 E1. injection H as <- <-. cbn [s_env]. split; [reflexivity|].
    eapply speciate_hall; [exact E1|]. cbn [p_heap]. intros x Hx. eapply orgs_from_genomes; eauto. }
  destruct Hb as [He Hh]. split; [exact He|]. split; [exact Hh|].
  intros Hsh F NF.
  assert (D : forall g, In g gs -> (forall x, In x (genes g) -> g_innov x < ni) /\ (forall n, In n (nodes g) -> n_id n <= nn)).
  { intros g Hg. pose proof (sh_wf C g (Hsh g Hg)) as W.
    exact (read_counters_dominate_resolved reg ls rgs gs nn ni E Er g Hg (wf_genes _ W) (wf_nodes _ W)). }
  apply (read_pop_build_GInv C o gs nn ni s p s' Hsh F NF); [| |exact H].
  - intros g x Hg Hx. pose proof (proj1 (D g Hg) x Hx). lia.
  - intros g n Hg Hn. exact (proj2 (D g Hg) n Hn).
Qed.

(* ------------------------------------------------------------------------------------------ *)
(* 3. Population.Write then ReadPopulation, from a population that satisfies the invariant      *)
(* ------------------------------------------------------------------------------------------ *)
(* what the plain format needs beyond well-formedness (C15): eight parameters per trait (neat.NumTraitParams),
   node ids and trait ids that fit an int32, a neuron type below 128, a registered activation *)
Lemma strip_modules_wf g : wf g -> strip_modules g = g.
Proof. intros W. pose proof (wf_nonmodular _ W) as M. destruct g. cbn in *. subst. reflexivity. Qed.

Lemma traits_ok_nodup g : traits_ok g -> NoDup (filter nonzero (map t_id (traits g))).
Proof.
  intros (_ & id0 & Hpos & E). apply NoDup_filter. rewrite E.
  apply FinFun.Injective_map_NoDup; [|apply seq_NoDup]. intros a b Hab. lia.
Qed.

Lemma has_trait_ref_closed g t : has_trait g t -> ref_closed (traits g) (Some t).
Proof. intros (Hz & tr & Hin & <-). split; [exact Hz|]. now apply in_map. Qed.

Lemma wf_plain C reg g :
  wf g -> tshape g = c_tshape C -> Forall (fun tp => snd tp = NUM_TRAIT_PARAMS) (c_tshape C) ->
  (forall n, In n (nodes g) -> node_ok reg n) -> pop_ok reg g /\ closed g.
Proof.
  intros W T H8 Hn.
  assert (P8 : Forall (fun t => length (t_params t) = NUM_TRAIT_PARAMS) (traits g)).
  { rewrite <- T in H8. unfold tshape in H8. rewrite Forall_map in H8. exact H8. }
  split.
  - split; [|split].
    + constructor.
      * eapply Forall_impl; [|exact P8]. intros t Ht. cbv beta in Ht. rewrite Ht. apply le_n.
      * apply traits_ok_nodup, (wf_traits _ W).
      * apply (asc_NoDup n_id), (wf_nodes _ W).
      * apply Forall_forall. exact Hn.
    + destruct (wf_output _ W) as (n & Hin & _). intros E. rewrite E in Hin. destruct Hin.
    + apply (wf_nonempty _ W).
  - destruct (wf_trait_refs _ W) as [TG TN]. constructor.
    + exact P8.
    + apply Forall_forall. intros n Hin. destruct (n_trait n) as [t|] eqn:Et; [|exact I].
      apply has_trait_ref_closed. eapply TN; eauto.
    + apply Forall_forall. intros x Hin. destruct (g_trait x) as [t|] eqn:Et; [|exact I].
      apply has_trait_ref_closed. eapply TG; eauto.
    + apply Forall_forall. intros x Hin. destruct (wf_endpoints _ W x Hin) as (a & b & Ha & Hb & _).
      apply node_with_id_In in Ha. apply node_with_id_In in Hb. destruct Ha as [Ha <-]. destruct Hb as [Hb <-].
      split; now apply in_map.
Qed.

Lemma map_opt_resolve_norm : forall gs, Forall (fun g => closed g /\ wf g) gs ->
  map_opt Plain.resolve (map norm_genome gs) = Some gs.
Proof.
  induction gs as [|g gs IH]; intros H; [reflexivity|]. inversion H as [|? ? [Hc Hw] H']; subst.
  cbn [map map_opt]. rewrite (resolve_norm g Hc), (IH H'), (strip_modules_wf g Hw). reflexivity.
Qed.

Lemma gok_shares C e R NR g : rok C e R NR -> gok C e R NR g -> shares C g.
Proof.
  intros RO G. constructor.
  - apply (gk_wf _ _ _ _ _ G).
  - apply (gk_io _ _ _ _ _ G).
  - eapply io_back; [exact RO|apply (gk_nreg _ _ _ _ _ G)].
  - apply (gk_tshape _ _ _ _ _ G).
  - pose proof (wf_nonempty _ (gk_wf _ _ _ _ _ G)) as Hne. destruct (genes g) as [|x l] eqn:Eg; [contradiction|].
    exists x. split; [reflexivity|]. eapply gok_hd; [exact RO|exact G|]. now rewrite Eg.
Qed.

Lemma regs_of_incl R gs : (forall g, In g gs -> g_agrees R g) -> incl (regs_of gs) R.
Proof. intros H [n k] Hin. apply in_regs_of in Hin. destruct Hin as (g & x & Hg & Hx & -> & ->). now apply (H g Hg). Qed.

Lemma nregs_of_incl NR gs : (forall g, In g gs -> n_agrees NR g) -> incl (nregs_of gs) NR.
Proof. intros H [i t] Hin. apply in_nregs_of in Hin. destruct Hin as (g & n & Hg & Hn & -> & ->). now apply (H g Hg). Qed.

Lemma functional_incl {A B} (l l' : list (A * B)) : incl l l' -> functional l' -> functional l.
Proof. intros I F a b b' H1 H2. apply (F a); now apply I. Qed.

(* the format's demands on the organisms written: Population.Organisms in order *)
Definition plain_writable (reg : registry) (C : ctx) (orgs : list organism) : Prop :=
  Forall (fun tp => snd tp = NUM_TRAIT_PARAMS) (c_tshape C) /\
  forall x n, In x orgs -> In n (nodes (o_genome x)) -> node_ok reg n.

(* a population that satisfies the invariant, written with Population.Write and read back with
   ReadPopulation, satisfies the invariant again: the registries are those read off the genomes written
   (sub-registries of the ones before), the record is empty, the counters dominate *)
Theorem GInv_write_read C o reg p0 e0 R NR orgs ls s p s' :
  GInv C p0 e0 R NR -> reg_ok reg ->
  hgets (p_heap p0) (Population.p_orgs p0) = Ok orgs -> plain_writable reg C orgs ->
  write_population reg (map o_genome orgs) = Ok ls ->
  read_population_state o reg ls s = Ok (p, s') ->
  GInv C p (s_env s') (regs_of (map o_genome orgs)) (nregs_of (map o_genome orgs)) /\
  incl (regs_of (map o_genome orgs)) R /\ incl (nregs_of (map o_genome orgs)) NR /\
  innovs (s_env s') = [] /\ hall (fun g => In g (map o_genome orgs)) (p_heap p).
Proof.
  intros [RO Hh] Hreg Hg [H8 Hnodes] Hw Hr.
  assert (Ho : hall (gok C e0 R NR) orgs) by (eapply hall_hgets; eauto).
  set (gs := map o_genome orgs) in *.
  assert (Hgs : forall g, In g gs -> gok C e0 R NR g).
  { intros g Hin. apply in_map_iff in Hin. destruct Hin as (x & <- & Hx). now apply Ho. }
  assert (Hpl : forall g, In g gs -> pop_ok reg g /\ closed g).
  { intros g Hin. pose proof (Hgs g Hin) as G. apply (wf_plain C reg g); [apply (gk_wf _ _ _ _ _ G)|apply (gk_tshape _ _ _ _ _ G)|exact H8|].
    apply in_map_iff in Hin. destruct Hin as (x & <- & Hx). intros n. now apply Hnodes. }
  destruct (read_population_GInv C o reg ls s p s' Hr) as (rgs & gs' & nn & ni & Erd & Eres & Ee & Hheap & HG).
  assert (Hne : gs <> []).
  { intros E0. rewrite E0 in Hw. cbn in Hw. injection Hw as <-. cbn in Erd. discriminate. }
  destruct (population_roundtrip reg gs Hreg Hne) as (ls' & Hw' & Hr').
  { apply Forall_forall. intros g Hin. apply (Hpl g Hin). }
  rewrite Hw in Hw'. injection Hw' as <-. rewrite Hr' in Erd. injection Erd as <- <- <-.
  rewrite map_opt_resolve_norm in Eres.
  2:{ apply Forall_forall. intros g Hin. split; [apply (Hpl g Hin)|apply (gk_wf _ _ _ _ _ (Hgs g Hin))]. }
  injection Eres as <-.
  assert (I1 : incl (regs_of gs) R) by (apply regs_of_incl; intros g Hin; apply (gk_reg _ _ _ _ _ (Hgs g Hin))).
  assert (I2 : incl (nregs_of gs) NR) by (apply nregs_of_incl; intros g Hin; apply (gk_nreg _ _ _ _ _ (Hgs g Hin))).
  split; [|split; [exact I1|split; [exact I2|split; [now rewrite Ee|exact Hheap]]]].
  apply HG.
  - intros g Hin. eapply gok_shares; [exact RO|now apply Hgs].
  - eapply functional_incl; [exact I1|apply (ro_fun _ _ _ _ RO)].
  - eapply functional_incl; [exact I2|apply (ro_nfun _ _ _ _ RO)].
Qed.

(* ------------------------------------------------------------------------------------------ *)
(* 4. histories across the round trip                                                           *)
(* ------------------------------------------------------------------------------------------ *)
(* the registries at the end of a history cover every organism of every population of the history *)
Lemma history_registries C o p s l p' s' R NR :
  GInv C p (s_env s) R NR -> history o p s l p' s' ->
  exists R' NR',
    incl R R' /\ incl NR NR' /\ GInv C p' (s_env s') R' NR' /\
    (forall n k, In (n, k) R' -> In (n, k) R \/ next_innov (s_env s) < n) /\
    (forall i t, In (i, t) NR' -> In (i, t) NR \/ next_node (s_env s) < i) /\
    forall q, In q (p :: l) -> hall (fun g => g_agrees R' g /\ n_agrees NR' g) (p_heap q).
Proof.
  intros G H. destruct (GInv_history C _ _ _ _ _ _ H R NR G) as (R' & NR' & I1 & I2 & G' & N1 & N2 & Hl).
  exists R', NR'. split; [exact I1|]. split; [exact I2|]. split; [exact G'|]. split; [exact N1|]. split; [exact N2|].
  intros q [<-|Hq] y Hy.
  - destruct G as [_ Hp]. specialize (Hp y Hy). split.
    + intros z Hz. apply I1. now apply (gk_reg _ _ _ _ _ Hp).
    + intros z Hz. apply I2. now apply (gk_nreg _ _ _ _ _ Hp).
  - destruct (Hl q Hq) as (e & He). specialize (He y Hy). split; [apply (gk_reg _ _ _ _ _ He)|apply (gk_nreg _ _ _ _ _ He)].
Qed.

(* evolution continued after a write / read round trip: a gene of an organism that was written and a gene
   of any organism of any generation after the read, with the same innovation number, join the same nodes
   with the same recurrence flag; a node id keeps its role *)
Theorem history_across_read C o reg p0 e0 R NR orgs ls s p2 s2 l p3 s3 :
  GInv C p0 e0 R NR -> reg_ok reg ->
  hgets (p_heap p0) (Population.p_orgs p0) = Ok orgs -> plain_writable reg C orgs ->
  write_population reg (map o_genome orgs) = Ok ls ->
  read_population_state o reg ls s = Ok (p2, s2) ->
  history o p2 s2 l p3 s3 ->
  forall a pb b, In a orgs -> In pb (p2 :: l) -> In b (p_heap pb) ->
    (forall xa xb, In xa (genes (o_genome a)) -> In xb (genes (o_genome b)) -> g_innov xa = g_innov xb ->
                   link_key xa = link_key xb) /\
    (forall na nb, In na (nodes (o_genome a)) -> In nb (nodes (o_genome b)) -> n_id na = n_id nb ->
                   n_type na = n_type nb).
Proof.
  intros G Hreg Hg Hpw Hw Hr Hh a pb b Ha Hpb Hb.
  destruct (GInv_write_read C o reg p0 e0 R NR orgs ls s p2 s2 G Hreg Hg Hpw Hw Hr) as (G2 & _ & _ & _ & _).
  destruct (history_registries C o p2 s2 l p3 s3 _ _ G2 Hh) as (R3 & NR3 & I1 & I2 & [RO3 _] & _ & _ & Hall).
  destruct (Hall pb Hpb b Hb) as [B1 B2]. split.
  - intros xa xb Hxa Hxb E. apply (ro_fun _ _ _ _ RO3 (g_innov xa)).
    + apply I1. apply in_regs_of. exists (o_genome a), xa. split; [now apply in_map|auto].
    + rewrite E. now apply B1.
  - intros na nb Hna Hnb E. apply (ro_nfun _ _ _ _ RO3 (n_id na)).
    + apply I2. apply in_nregs_of. exists (o_genome a), na. split; [now apply in_map|auto].
    + rewrite E. now apply B2.
Qed.

(* ... and against the WHOLE history before the write: any organism of any generation before the write
   and any organism of any generation after the read agree on every innovation number that is not larger
   than the counter the reader derived, and on every node id not larger than the node counter.  (A number
   above the counter was held only by organisms extinct when the population was written: the file does
   not carry the counters, and such a number is issued again after the read.) *)
Theorem whole_history_across_read C o reg pS sS R NR l0 p0 s0 orgs ls s p2 s2 l p3 s3 :
  GInv C pS (s_env sS) R NR -> history o pS sS l0 p0 s0 -> reg_ok reg ->
  hgets (p_heap p0) (Population.p_orgs p0) = Ok orgs -> plain_writable reg C orgs ->
  write_population reg (map o_genome orgs) = Ok ls ->
  read_population_state o reg ls s = Ok (p2, s2) ->
  history o p2 s2 l p3 s3 ->
  forall pa pb a b, In pa (pS :: l0) -> In pb (p2 :: l) -> In a (p_heap pa) -> In b (p_heap pb) ->
    (forall xa xb, In xa (genes (o_genome a)) -> In xb (genes (o_genome b)) -> g_innov xa = g_innov xb ->
                   g_innov xa <= next_innov (s_env s2) -> link_key xa = link_key xb) /\
    (forall na nb, In na (nodes (o_genome a)) -> In nb (nodes (o_genome b)) -> n_id na = n_id nb ->
                   n_id na <= next_node (s_env s2) -> n_type na = n_type nb).
Proof.
  intros G Hh0 Hreg Hg Hpw Hw Hr Hh pa pb a b Hpa Hpb Ha Hb.
  destruct (history_registries C o pS sS l0 p0 s0 R NR G Hh0) as (R1 & NR1 & _ & _ & G1 & _ & _ & Hall1).
  destruct (GInv_write_read C o reg p0 (s_env s0) R1 NR1 orgs ls s p2 s2 G1 Hreg Hg Hpw Hw Hr) as (G2 & J1 & J2 & _ & _).
  destruct (history_registries C o p2 s2 l p3 s3 _ _ G2 Hh) as (R3 & NR3 & _ & _ & _ & N1 & N2 & Hall3).
  destruct (Hall1 pa Hpa a Ha) as [A1 A2]. destruct (Hall3 pb Hpb b Hb) as [B1 B2]. destruct G1 as [RO1 _]. split.
  - intros xa xb Hxa Hxb E Hle. apply (ro_fun _ _ _ _ RO1 (g_innov xa)); [now apply A1|].
    rewrite E. destruct (N1 _ _ (B1 xb Hxb)) as [Hin|Hgt]; [now apply J1|lia].
  - intros na nb Hna Hnb E Hle. apply (ro_nfun _ _ _ _ RO1 (n_id na)); [now apply A2|].
    rewrite E. destruct (N2 _ _ (B2 nb Hnb)) as [Hin|Hgt]; [now apply J2|lia].
Qed.

(* ------------------------------------------------------------------------------------------ *)
(* 5. executable: write a population, read it back, run n more epochs (for the examples)        *)
(* ------------------------------------------------------------------------------------------ *)
Definition run_write_read (o : options) (reg : registry) (p0 : population) (s : st) (fit : list float) (n : nat)
  : res (population * list population * st * st) :=
  do orgs <- hgets (p_heap p0) (Population.p_orgs p0);
  do ls <- write_population reg (map o_genome orgs);
  do r <- read_population_state o reg ls s;
  let '(p2, s2) := r in
  do r2 <- run_epochs o fit n 1 p2 {| x_best_id := 0; x_best_reproduced := false |} s2;
  Ok (p2, fst r2, s2, snd r2).

Lemma run_write_read_history o reg p0 s fit n p2 l s2 s3 :
  run_write_read o reg p0 s fit n = Ok (p2, l, s2, s3) ->
  exists orgs ls p3 s3',
    hgets (p_heap p0) (Population.p_orgs p0) = Ok orgs /\ write_population reg (map o_genome orgs) = Ok ls /\
    read_population_state o reg ls s = Ok (p2, s2) /\ history o p2 s2 l p3 s3' /\ length l = n.
Proof.
  unfold run_write_read. intros H. rbind H as orgs E1. rbind H as ls E2. rbind H as r E3. destruct r as [q2 t2].
  rbind H as r2 E4. injection H as <- <- <- _.
  destruct (run_epochs_history _ _ _ _ _ _ _ _ E4) as (p3 & s3' & Hh & Hl).
  exists orgs, ls, p3, s3'. auto.
Qed.

(* ------------------------------------------------------------------------------------------ *)
(* 6. the statements of props/C03.v, written out                                                *)
(* ------------------------------------------------------------------------------------------ *)
Theorem read_counters_spec reg ls gs nn ni :
  read_population reg ls = Ok (gs, nn, ni) ->
  ni = fold_left (fun m g => Z.max m (rg_innov (last (rg_genes g) dummy_rgene) + 1)) gs 0 /\
  fold_left (fun m g => Z.max m (n_id (last (rg_nodes g) dummy_node))) gs 0 <= nn
    <= fold_left (fun m g => Z.max m (n_id (last (rg_nodes g) dummy_node))) gs 0 + 1 /\
  forall g, In g gs ->
    (rg_genes g <> [] /\ rg_innov (last (rg_genes g) dummy_rgene) < ni /\
     (StronglySorted Z.lt (map rg_innov (rg_genes g)) -> forall x, In x (rg_genes g) -> rg_innov x < ni)) /\
    (rg_nodes g <> [] /\ n_id (last (rg_nodes g) dummy_node) <= nn /\
     (StronglySorted Z.lt (map n_id (rg_nodes g)) -> forall n, In n (rg_nodes g) -> n_id n <= nn)).
Proof.
  intros H. destruct (read_counters_exact _ _ _ _ _ H) as [A B]. split; [exact A|]. split; [exact B|].
  exact (read_counters_dominate _ _ _ _ _ H).
Qed.

Definition shares_spelled (C : ctx) (g : genome) : Prop :=
  wf g /\ incl (c_io C) (io_nodes g) /\ incl (io_nodes g) (c_io C) /\ tshape g = c_tshape C /\
  exists x, hd_error (genes g) = Some x /\ g_innov x = c_n0 C.

Lemma shares_of_spelled C g : shares_spelled C g -> shares C g.
Proof. intros (A & B & D & E & F). constructor; assumption. Qed.

Theorem read_population_invariant C o reg ls s p s' :
  read_population_state o reg ls s = Ok (p, s') ->
  exists rgs gs nn ni,
    read_population reg ls = Ok (rgs, nn, ni) /\ map_opt Plain.resolve rgs = Some gs /\
    s_env s' = {| innovs := []; next_innov := ni; next_node := nn |} /\
    (forall x, In x (p_heap p) -> In (o_genome x) gs) /\
    ((forall g, In g gs ->
        wf g /\ incl (c_io C) (io_nodes g) /\ incl (io_nodes g) (c_io C) /\ tshape g = c_tshape C /\
        exists x, hd_error (genes g) = Some x /\ g_innov x = c_n0 C) ->
     (forall g1 g2 x1 x2, In g1 gs -> In g2 gs -> In x1 (genes g1) -> In x2 (genes g2) -> g_innov x1 = g_innov x2 ->
        g_in x1 = g_in x2 /\ g_out x1 = g_out x2 /\ g_rec x1 = g_rec x2) ->
     (forall g1 g2 n1 n2, In g1 gs -> In g2 gs -> In n1 (nodes g1) -> In n2 (nodes g2) -> n_id n1 = n_id n2 ->
        n_type n1 = n_type n2) ->
     GInv C p (s_env s')
          (flat_map (fun g => map (fun x => (g_innov x, (g_in x, g_out x, g_rec x))) (genes g)) gs)
          (flat_map (fun g => map (fun n => (n_id n, n_type n)) (nodes g)) gs)).
Proof.
  intros H. destruct (read_population_GInv C o reg ls s p s' H) as (rgs & gs & nn & ni & A & B & D & E & F).
  exists rgs, gs, nn, ni. split; [exact A|]. split; [exact B|]. split; [exact D|]. split; [exact E|].
  intros Hsh HF HNF. apply F.
  - intros g Hg. apply shares_of_spelled. exact (Hsh g Hg).
  - intros n k k' H1 H2. apply in_regs_of in H1. apply in_regs_of in H2.
    destruct H1 as (g1 & x1 & Hg1 & Hx1 & -> & ->). destruct H2 as (g2 & x2 & Hg2 & Hx2 & En & ->).
    destruct (HF g1 g2 x1 x2 Hg1 Hg2 Hx1 Hx2 En) as (E1 & E2 & E3). unfold link_key. congruence.
  - intros i t t' H1 H2. apply in_nregs_of in H1. apply in_nregs_of in H2.
    destruct H1 as (g1 & n1 & Hg1 & Hn1 & -> & ->). destruct H2 as (g2 & n2 & Hg2 & Hn2 & En & ->).
    exact (HNF g1 g2 n1 n2 Hg1 Hg2 Hn1 Hn2 En).
Qed.

Theorem write_read_invariant C o reg p0 e0 R NR orgs ls s p s' :
  GInv C p0 e0 R NR -> reg_ok reg ->
  hgets (p_heap p0) (Population.p_orgs p0) = Ok orgs ->
  Forall (fun tp => snd tp = NUM_TRAIT_PARAMS) (c_tshape C) ->
  (forall x n, In x orgs -> In n (nodes (o_genome x)) -> node_ok reg n) ->
  write_population reg (map o_genome orgs) = Ok ls ->
  read_population_state o reg ls s = Ok (p, s') ->
  exists R2 NR2,
    GInv C p (s_env s') R2 NR2 /\ incl R2 R /\ incl NR2 NR /\ innovs (s_env s') = [] /\
    (forall x, In x orgs -> g_agrees R2 (o_genome x) /\ n_agrees NR2 (o_genome x)) /\
    (forall y, In y (p_heap p) -> exists x, In x orgs /\ o_genome y = o_genome x).
Proof.
  intros G Hreg Hg H8 Hn Hw Hr.
  destruct (GInv_write_read C o reg p0 e0 R NR orgs ls s p s' G Hreg Hg (conj H8 Hn) Hw Hr) as (G2 & I1 & I2 & Ei & Hh).
  exists (regs_of (map o_genome orgs)), (nregs_of (map o_genome orgs)).
  split; [exact G2|]. split; [exact I1|]. split; [exact I2|]. split; [exact Ei|]. split.
  - intros x Hx. split.
    + intros z Hz. apply in_regs_of. exists (o_genome x), z. split; [now apply in_map|auto].
    + intros z Hz. apply in_nregs_of. exists (o_genome x), z. split; [now apply in_map|auto].
  - intros y Hy. specialize (Hh y Hy). cbv beta in Hh. apply in_map_iff in Hh. destruct Hh as (x & E & Hx). now exists x.
Qed.

Theorem history_across_read_spelled C o reg p0 e0 R NR orgs ls s p2 s2 l p3 s3 :
  GInv C p0 e0 R NR -> reg_ok reg ->
  hgets (p_heap p0) (Population.p_orgs p0) = Ok orgs ->
  Forall (fun tp => snd tp = NUM_TRAIT_PARAMS) (c_tshape C) ->
  (forall x n, In x orgs -> In n (nodes (o_genome x)) -> node_ok reg n) ->
  write_population reg (map o_genome orgs) = Ok ls ->
  read_population_state o reg ls s = Ok (p2, s2) ->
  history o p2 s2 l p3 s3 ->
  forall a pb b, In a orgs -> In pb (p2 :: l) -> In b (p_heap pb) ->
    (forall xa xb, In xa (genes (o_genome a)) -> In xb (genes (o_genome b)) -> g_innov xa = g_innov xb ->
                   g_in xa = g_in xb /\ g_out xa = g_out xb /\ g_rec xa = g_rec xb) /\
    (forall na nb, In na (nodes (o_genome a)) -> In nb (nodes (o_genome b)) -> n_id na = n_id nb ->
                   n_type na = n_type nb).
Proof.
  intros G Hreg Hg H8 Hn Hw Hr Hh a pb b Ha Hpb Hb.
  destruct (history_across_read C o reg p0 e0 R NR orgs ls s p2 s2 l p3 s3 G Hreg Hg (conj H8 Hn) Hw Hr Hh a pb b Ha Hpb Hb) as [K1 K2].
  split; [|exact K2]. intros xa xb Hxa Hxb E. pose proof (K1 xa xb Hxa Hxb E) as K. unfold link_key in K.
  injection K as -> -> ->. auto.
Qed.

Theorem whole_history_across_read_spelled C o reg pS sS R NR l0 p0 s0 orgs ls s p2 s2 l p3 s3 :
  GInv C pS (s_env sS) R NR -> history o pS sS l0 p0 s0 -> reg_ok reg ->
  hgets (p_heap p0) (Population.p_orgs p0) = Ok orgs ->
  Forall (fun tp => snd tp = NUM_TRAIT_PARAMS) (c_tshape C) ->
  (forall x n, In x orgs -> In n (nodes (o_genome x)) -> node_ok reg n) ->
  write_population reg (map o_genome orgs) = Ok ls ->
  read_population_state o reg ls s = Ok (p2, s2) ->
  history o p2 s2 l p3 s3 ->
  forall pa pb a b, In pa (pS :: l0) -> In pb (p2 :: l) -> In a (p_heap pa) -> In b (p_heap pb) ->
    (forall xa xb, In xa (genes (o_genome a)) -> In xb (genes (o_genome b)) -> g_innov xa = g_innov xb ->
                   g_innov xa <= next_innov (s_env s2) ->
                   g_in xa = g_in xb /\ g_out xa = g_out xb /\ g_rec xa = g_rec xb) /\
    (forall na nb, In na (nodes (o_genome a)) -> In nb (nodes (o_genome b)) -> n_id na = n_id nb ->
                   n_id na <= next_node (s_env s2) -> n_type na = n_type nb).
Proof.
  intros G Hh0 Hreg Hg H8 Hn Hw Hr Hh pa pb a b Hpa Hpb Ha Hb.
  destruct (whole_history_across_read C o reg pS sS R NR l0 p0 s0 orgs ls s p2 s2 l p3 s3 G Hh0 Hreg Hg (conj H8 Hn) Hw Hr Hh
              pa pb a b Hpa Hpb Ha Hb) as [K1 K2].
  split; [|exact K2]. intros xa xb Hxa Hxb E Hle. pose proof (K1 xa xb Hxa Hxb E Hle) as K. unfold link_key in K.
  injection K as -> -> ->. auto.
Qed.

(* ------------------------------------------------------------------------------------------ *)
(* 7. helpers for the examples                                                                  *)
(* ------------------------------------------------------------------------------------------ *)
Definition node_okb (reg : registry) (n : node) : bool :=
  fits_bits 32 (n_id n) && fits_bits 32 (oz_id (n_trait n)) && (Z.leb 0 (n_type n) && Z.ltb (n_type n) 128) &&
  match reg_name reg (n_act n) with Some _ => true | None => false end.

Lemma node_okb_sound reg n : node_okb reg n = true -> node_ok reg n.
Proof.
  unfold node_okb, node_ok. rewrite !andb_true_iff. intros [[[A B] [D E]] F].
  apply Z.leb_le in D. apply Z.ltb_lt in E. destruct (reg_name reg (n_act n)) as [s'|]; [|discriminate].
  repeat split; try assumption. now exists s'.
Qed.

Lemma orgs_node_ok reg orgs :
  forallb (fun x => forallb (node_okb reg) (nodes (o_genome x))) orgs = true ->
  forall x n, In x orgs -> In n (nodes (o_genome x)) -> node_ok reg n.
Proof.
  intros H x n Hx Hn. rewrite forallb_forall in H. specialize (H x Hx). rewrite forallb_forall in H.
  apply node_okb_sound. now apply H.
Qed.

(* a history ends in the last population of its list *)
Lemma history_last o p s l p' s' : history o p s l p' s' -> p' = last l p.
Proof.
  induction 1 as [p s|p s fs h gen x tp p1 x1 s1 l p2 s2 _ _ _ IH]; [reflexivity|].
  rewrite IH. apply last_cons_default.
Qed.
