(* Solvers built by Network.FastNetworkSolver from a network with control nodes ([fast_of_net_mod]) satisfy the
   premise of the modular Flush theorem (ModSpecFast): sensorNeuronCount <= totalNeuronCount. *)
From NeatModel Require Import Res Net Fast NetMod FastMod SolverUtil FlushBuild ModSpecFast.
From Coq Require Import Arith Lia.
Open Scope nat_scope.

Section ModSpecBuild.
Variable F : Type.
Variable NF : num F.

Theorem fast_of_net_mod_sensor_le (n : mnet F) (fx : fmnet F) :
  fast_of_net_mod NF n = Ok fx -> f_sensor (fx_net fx) <= f_total (fx_net fx).
Proof.
  unfold fast_of_net_mod. destruct (fast_of_net NF (m_net n)) as [fn| | | | |] eqn:E; try discriminate.
  destruct (net_lookup (m_net n)) as [k| | | | |]; try discriminate.
  destruct (mods_of k (m_ctrl n)) as [ms| | | | |]; try discriminate.
  intros H. injection H as <-. simpl. exact (fast_of_net_sensor_le F NF _ _ E).
Qed.

End ModSpecBuild.
