(* Solvers built by Network.FastNetworkSolver from a network with control nodes ([fast_of_net_mod]) satisfy the
   premises of the modular Flush theorem (ModSpecFast): sensorNeuronCount <= totalNeuronCount, and [flush_ok]
   whenever no control node has an outgoing link into a bias node.  The reason: indices below biasNeuronCount are
   given to bias nodes only (the first processList call), no connection ends there (the incoming links of bias
   nodes are not translated), so only a module output into a bias node can write such a slot. *)
From NeatModel Require Import Res Net Fast NetMod FastMod SolverUtil FlushBuild ModSpecFast.
From Coq Require Import Arith Lia.
Open Scope nat_scope.

Section ModSpecBuild.
Variable F : Type.
Variable NF : num F.

(* ----- the lookup table, as a list ----- *)
Definition entries (l : list nat) (start : nat) : list (nat * nat) := rev (combine l (seq start (length l))).

Lemma process_list_spec (n : net F) total l : forall start acts lk r,
  process_list n total start l acts lk = Ok r ->
  fst (fst r) = start + length l /\ snd r = entries l start ++ lk.
Proof.
  induction l as [|p rest IH]; intros start acts lk r H; simpl in H.
  - injection H as <-. simpl. split; [lia|reflexivity].
  - destruct (start <? total); [|discriminate].
    destruct (IH _ _ _ _ H) as [A B]. split; [simpl; lia|].
    rewrite B. unfold entries. simpl. rewrite <- app_assoc. reflexivity.
Qed.

Lemma find_idx_app l1 l2 p :
  find_idx (l1 ++ l2) p = match find_idx l1 p with Some i => Some i | None => find_idx l2 p end.
Proof.
  induction l1 as [|[q i] l1 IH]; simpl; [reflexivity|]. destruct (q =? p); [reflexivity|exact IH].
Qed.

Lemma find_idx_in l p i : find_idx l p = Some i -> In (p, i) l.
Proof.
  induction l as [|[q j] l IH]; simpl; [discriminate|].
  destruct (q =? p) eqn:E.
  - intros H. injection H as <-. apply Nat.eqb_eq in E. subst q. left. reflexivity.
  - intros H. right. exact (IH H).
Qed.

Lemma find_idx_some l p i : In (p, i) l -> find_idx l p <> None.
Proof.
  induction l as [|[q j] l IH]; simpl; [tauto|].
  intros [E|H].
  - injection E as -> ->. rewrite Nat.eqb_refl. discriminate.
  - destruct (q =? p); [discriminate|exact (IH H)].
Qed.

Lemma in_entries p i l s : In (p, i) (entries l s) -> In p l /\ s <= i.
Proof.
  unfold entries. rewrite <- in_rev. revert s. induction l as [|q l IH]; intros s; simpl; [tauto|].
  intros [E|H].
  - injection E as -> ->. auto.
  - destruct (IH _ H) as [A B]. split; [auto|lia].
Qed.

Lemma entries_has p l s : In p l -> exists i, In (p, i) (entries l s).
Proof.
  unfold entries. revert s. induction l as [|q l IH]; intros s; simpl; [tauto|].
  intros [->|H].
  - exists s. apply in_or_app. right. left. reflexivity.
  - destruct (IH (S s) H) as [i Hi]. exists i. apply in_or_app. left. exact Hi.
Qed.

(* a node that is not a bias node, or is listed in Outputs, gets an index >= biasNeuronCount *)
Lemma lookup_ge (n : net F) k p i :
  net_lookup n = Ok k -> find_idx k p = Some i ->
  is_bias (role_at n p) = false \/ In p (outputs n) ->
  length (positions_with n is_bias) <= i.
Proof.
  unfold net_lookup.
  destruct (process_list n (nnodes n) 0 (positions_with n is_bias) (repeat 0%Z (nnodes n)) []) as [[[i1 a1] k1]| | | | |] eqn:E1; try discriminate.
  destruct (process_list n (nnodes n) i1 (positions_with n is_input) a1 k1) as [[[i2 a2] k2]| | | | |] eqn:E2; try discriminate.
  destruct (process_list n (nnodes n) i2 (outputs n) a2 k2) as [[[i3 a3] k3]| | | | |] eqn:E3; try discriminate.
  destruct (process_list n (nnodes n) i3 (positions_with n is_hidden) a3 k3) as [[[i4 a4] k4]| | | | |] eqn:E4; try discriminate.
  intros H. injection H as <-.
  destruct (process_list_spec _ _ _ _ _ _ _ E1) as [A1 B1]. destruct (process_list_spec _ _ _ _ _ _ _ E2) as [A2 B2].
  destruct (process_list_spec _ _ _ _ _ _ _ E3) as [A3 B3]. destruct (process_list_spec _ _ _ _ _ _ _ E4) as [A4 B4].
  simpl in *. subst k4 k3 k2 k1. rewrite app_nil_r.
  set (b := length (positions_with n is_bias)) in *.
  intros Hf Hp. rewrite !find_idx_app in Hf.
  destruct (find_idx (entries (positions_with n is_hidden) i3) p) as [j|] eqn:F4.
  { injection Hf as <-. apply find_idx_in, in_entries in F4. lia. }
  destruct (find_idx (entries (outputs n) i2) p) as [j|] eqn:F3.
  { injection Hf as <-. apply find_idx_in, in_entries in F3. lia. }
  destruct (find_idx (entries (positions_with n is_input) i1) p) as [j|] eqn:F2.
  { injection Hf as <-. apply find_idx_in, in_entries in F2. lia. }
  exfalso. apply find_idx_in, in_entries in Hf. destruct Hf as [Hb _].
  destruct Hp as [Hp|Hp].
  - unfold positions_with in Hb. apply filter_In in Hb. destruct Hb as [_ Hb]. congruence.
  - destruct (entries_has p (outputs n) i2 Hp) as [j Hj]. exact (find_idx_some _ _ _ Hj F3).
Qed.

(* ----- connections never end below biasNeuronCount ----- *)
Lemma proc_links_tgts (n : net F) lk tgt ls : forall b c b' c',
  proc_links NF n lk tgt ls b c = Ok (b', c') -> forall x, In x c' -> In x c \/ fl_tgt x = tgt.
Proof.
  induction ls as [|l rest IH]; intros b c b' c' H x Hx; simpl in H.
  - injection H as <- <-. auto.
  - destruct (find_idx lk (l_src l)) as [src|]; [|discriminate].
    destruct (is_bias (role_at n (l_src l))).
    + exact (IH _ _ _ _ H x Hx).
    + destruct (IH _ _ _ _ H x Hx) as [Hc|Ht]; [|auto].
      apply in_app_or in Hc. destruct Hc as [Hc|[<-|[]]]; auto.
Qed.

Lemma proc_incoming_tgts (n : net F) lk nl : forall b c b' c',
  proc_incoming NF n lk nl b c = Ok (b', c') ->
  forall x, In x c' -> In x c \/ exists p, In p nl /\ find_idx lk p = Some (fl_tgt x).
Proof.
  induction nl as [|p rest IH]; intros b c b' c' H x Hx; simpl in H.
  - injection H as <- <-. auto.
  - destruct (find_idx lk p) as [tgt|] eqn:Et; [|discriminate].
    destruct (proc_links NF n lk tgt (nd_in (node_at n p)) b c) as [[b1 c1]| | | | |] eqn:El; try discriminate.
    destruct (IH _ _ _ _ H x Hx) as [Hc|(q & Hq & Hf)].
    + destruct (proc_links_tgts n lk tgt _ _ _ _ _ El x Hc) as [Hc0|Ht]; [auto|].
      right. exists p. split; [simpl; auto|]. rewrite Ht. exact Et.
    + right. exists q. split; [simpl; auto|exact Hf].
Qed.

Lemma fast_of_net_targets (n : net F) (fn : fnet F) :
  fast_of_net NF n = Ok fn ->
  f_bias fn = length (positions_with n is_bias) /\
  exists k, net_lookup n = Ok k /\
    forall x, In x (f_conns fn) -> exists p, (is_bias (role_at n p) = false \/ In p (outputs n)) /\ find_idx k p = Some (fl_tgt x).
Proof.
  unfold fast_of_net, net_lookup.
  destruct (process_list n (nnodes n) 0 (positions_with n is_bias) (repeat 0%Z (nnodes n)) []) as [[[i1 a1] k1]| | | | |]; try discriminate.
  destruct (process_list n (nnodes n) i1 (positions_with n is_input) a1 k1) as [[[i2 a2] k2]| | | | |]; try discriminate.
  destruct (process_list n (nnodes n) i2 (outputs n) a2 k2) as [[[i3 a3] k3]| | | | |]; try discriminate.
  destruct (process_list n (nnodes n) i3 (positions_with n is_hidden) a3 k3) as [[[i4 a4] k4]| | | | |]; try discriminate.
  destruct (proc_incoming NF n k4 (positions_with n is_input) (repeat (fzero NF) (nnodes n)) []) as [[b1 c1]| | | | |] eqn:P1; try discriminate.
  destruct (proc_incoming NF n k4 (positions_with n is_hidden) b1 c1) as [[b2 c2]| | | | |] eqn:P2; try discriminate.
  destruct (proc_incoming NF n k4 (outputs n) b2 c2) as [[b3 c3]| | | | |] eqn:P3; try discriminate.
  unfold new_fast. destruct (_ && _); [|discriminate]. intros H. injection H as <-. simpl.
  split; [reflexivity|]. exists k4. split; [reflexivity|].
  assert (R : forall t q, In q (positions_with n t) -> t (role_at n q) = true).
  { intros t q Hq. unfold positions_with in Hq. apply filter_In in Hq. apply Hq. }
  intros x Hx.
  destruct (proc_incoming_tgts n k4 _ _ _ _ _ P3 x Hx) as [Hc|(p & Hp & Hf)]; [|exists p; auto].
  destruct (proc_incoming_tgts n k4 _ _ _ _ _ P2 x Hc) as [Hc1|(p & Hp & Hf)].
  - destruct (proc_incoming_tgts n k4 _ _ _ _ _ P1 x Hc1) as [[]|(p & Hp & Hf)].
    exists p. split; [|exact Hf]. left. apply R in Hp. destruct (role_at n p); simpl in *; congruence.
  - exists p. split; [|exact Hf]. left. apply R in Hp. destruct (role_at n p); simpl in *; congruence.
Qed.

(* ----- module indices are lookups of the control nodes' link ends ----- *)
Lemma lookup_all_spec k code ps : forall is,
  lookup_all k code ps = Ok is -> forall j, In j is -> exists p, In p ps /\ find_idx k p = Some j.
Proof.
  induction ps as [|p rest IH]; intros is H j Hj; simpl in H.
  - injection H as <-. destruct Hj.
  - destruct (find_idx k p) as [i|] eqn:E; [|discriminate].
    destruct (lookup_all k code rest) as [is'| | | | |]; try discriminate. injection H as <-.
    destruct Hj as [<-|Hj].
    + exists p. simpl. auto.
    + destruct (IH _ eq_refl j Hj) as (q & Hq & Hf). exists q. simpl. auto.
Qed.

Lemma mods_of_outs k cs : forall ms,
  mods_of k cs = Ok ms -> forall m j, In m ms -> In j (fmd_outs m) ->
  exists c p, In c cs /\ In p (cn_out c) /\ find_idx k p = Some j.
Proof.
  induction cs as [|c rest IH]; intros ms H m j Hm Hj; simpl in H.
  - injection H as <-. destruct Hm.
  - destruct (lookup_all k ErrLookupModuleIn (cn_in c)) as [ins| | | | |]; try discriminate.
    destruct (lookup_all k ErrLookupModuleOut (cn_out c)) as [outs| | | | |] eqn:Eo; try discriminate.
    destruct (mods_of k rest) as [ms'| | | | |]; try discriminate. injection H as <-.
    destruct Hm as [<-|Hm].
    + simpl in Hj. destruct (lookup_all_spec _ _ _ _ Eo j Hj) as (p & Hp & Hf). exists c, p. simpl. auto.
    + destruct (IH _ eq_refl m j Hm Hj) as (c' & p & Hc & Hp & Hf). exists c', p. simpl. auto.
Qed.

Theorem fast_of_net_mod_sensor_le (n : mnet F) (fx : fmnet F) :
  fast_of_net_mod NF n = Ok fx -> f_sensor (fx_net fx) <= f_total (fx_net fx).
Proof.
  unfold fast_of_net_mod. destruct (fast_of_net NF (m_net n)) as [fn| | | | |] eqn:E; try discriminate.
  destruct (net_lookup (m_net n)) as [k| | | | |]; try discriminate.
  destruct (mods_of k (m_ctrl n)) as [ms| | | | |]; try discriminate.
  intros H. injection H as <-. simpl. exact (fast_of_net_sensor_le F NF _ _ E).
Qed.

(* no control node writes into a bias node: Flush is a reset for the solver built from the network *)
Theorem fast_of_net_mod_flush_ok (n : mnet F) (fx : fmnet F) :
  fast_of_net_mod NF n = Ok fx ->
  (forall c p, In c (m_ctrl n) -> In p (cn_out c) -> is_bias (role_at (m_net n) p) = false) ->
  flush_ok F fx = true.
Proof.
  unfold fast_of_net_mod. destruct (fast_of_net NF (m_net n)) as [fn| | | | |] eqn:E; try discriminate.
  destruct (fast_of_net_targets _ _ E) as (Hb & k & Hk & Hc). rewrite Hk.
  destruct (mods_of k (m_ctrl n)) as [ms| | | | |] eqn:Em; try discriminate.
  intros H Hout. injection H as <-.
  unfold flush_ok. simpl. rewrite forallb_forall. intros m _. rewrite forallb_forall. intros j _.
  unfold readable. simpl. destruct (f_bias fn <=? j) eqn:Ej; [reflexivity|]. apply Nat.leb_gt in Ej. simpl.
  apply negb_true_iff. unfold written. simpl. apply orb_false_iff. split.
  - destruct (existsb (fun c => fl_tgt c =? j) (f_conns fn)) eqn:X; [|reflexivity]. exfalso.
    apply existsb_exists in X. destruct X as (x & Hx & Et). apply Nat.eqb_eq in Et.
    destruct (Hc x Hx) as (p & Hp & Hf). pose proof (lookup_ge _ _ _ _ Hk Hf Hp). lia.
  - destruct (existsb (fun m0 => existsb (Nat.eqb j) (fmd_outs m0)) ms) eqn:X; [|reflexivity]. exfalso.
    apply existsb_exists in X. destruct X as (m0 & Hm0 & X). apply existsb_exists in X. destruct X as (j' & Hj' & Ee).
    apply Nat.eqb_eq in Ee. subst j'.
    destruct (mods_of_outs _ _ _ Em m0 j Hm0 Hj') as (c & p & Hcc & Hp & Hf).
    pose proof (lookup_ge _ _ _ _ Hk Hf (or_introl (Hout c p Hcc Hp))). lia.
Qed.

End ModSpecBuild.
