(* C16, Part III: the sequential model's per-species reproduction as a program over the four shared
   primitives (Innovations / NextInnovationNumber / NextNodeId / StoreInnovation), the proof that
   the model function is the in-order execution of that program, and the proof that the program
   obeys the ownership discipline of proofs/ParStep.v -- so that the interleaving theorems of
   ParStep.v apply to the model's own reproduction programs.

   The programs below are the model functions of model/Mutate.v and model/Population.v rewritten
   once, construct by construct, in the program monad [P] of ParRefineA.v: every environment
   operation becomes the corresponding primitive, every thread-local computation [m] (random
   draws, genome surgery, crossover, duplication, failing lookups) becomes [ppure m]. *)
From NeatModel Require Import Res F64 GoRand Genome Options Insert Dup Mutate Mate Population WF ParStep.
From NeatModel Require Import ParRefineA ParRefineB.
From Coq Require Import Lia Permutation.

(* ====================== the programs ====================== *)

(* ---------- mutateConnectSensors ---------- *)
Definition connect_one_p (sensor : Z) (acc : genome * bool * bool) (out : node) : P (genome * bool * bool) :=
  let '(g, added, stop) := acc in
  if stop then pret acc else
  if existsb (fun x => Z.eqb (g_in x) sensor && Z.eqb (g_out x) (n_id out)) (genes g) then pret acc else
  let? inns := p_innovs in
  match find_link_innov inns sensor (n_id out) false with
  | Some inn =>
    let? tr := ppure (lift (trait_at g (i_trait inn))) in
    let x := mk_gene tr (i_w inn) sensor (n_id out) false (i_num inn) 0%float in
    if have_gene g x then pret (g, added, true)
    else pret (with_genes g (gene_insert (genes g) x), true, false)
  | None =>
    let? tn := ppure (r_intn (zlen (traits g))) in
    let? sg := ppure r_randsign in
    let? f := ppure r_float64 in
    let w := PrimFloat.mul (PrimFloat.mul sg f) 10%float in
    let? num := p_next_innov in
    let? tr := ppure (lift (trait_at g tn)) in
    let x := mk_gene tr w sensor (n_id out) false num w in
    exec? p_store (link_innovation sensor (n_id out) num w tn false) ;;
    pret (with_genes g (gene_insert (genes g) x), true, false)
  end.

Definition mutate_connect_sensors_p (g : genome) : P (genome * bool) :=
  match genes g with
  | [] => ppure (fail_err 46)
  | _ =>
    let sensors := filter is_sensor (nodes g) in
    let outputs := filter (fun n => negb (is_sensor n)) (nodes g) in
    let disconnected :=
        filter (fun s => negb (existsb (fun x => Z.eqb (g_in x) (n_id s)) (genes g))) sensors in
    match disconnected with
    | [] => pret (g, false)
    | _ =>
      let? k := ppure (r_intn (zlen disconnected)) in
      let? s := ppure (lift (idx disconnected k)) in
      let? r := pfoldM (connect_one_p (n_id s)) outputs (g, false, false) in
      let '(g', added, stop) := r in
      pret (g', if stop then false else added)
    end
  end.

(* ---------- mutateAddLink ---------- *)
Definition mutate_add_link_p (o : options) (g : genome) : P (genome * bool) :=
  match genesis_check g with
  | GoErr _ => ppure (fail_err 53)
  | _ =>
    let n := zlen (nodes g) in
    let? r := ppure r_float64 in
    let do_recur := PrimFloat.ltb r (o_recur_only o) in
    let first := (fix lead (l : list node) : Z :=
                    match l with [] => 0 | x :: l' => if is_sensor x then 1 + lead l' else 0 end) (nodes g) in
    let? pr := ppure (add_link_tries (Z.to_nat (o_newlink_tries o)) do_recur g n first None) in
    match pr with
    | (Some (n1, n2), true) =>
      let? inns := p_innovs in
      match find_link_innov inns (n_id n1) (n_id n2) do_recur with
      | Some inn =>
        let? tr := ppure (lift (trait_at g (i_trait inn))) in
        let x := mk_gene tr (i_w inn) (n_id n1) (n_id n2) do_recur (i_num inn) 0%float in
        if have_gene g x then pret (g, false)
        else if Z.eqb (g_in x) (g_out x) && negb do_recur then ppure (fail_err 52)
        else pret (with_genes g (gene_insert (genes g) x), true)
      | None =>
        let? tn := ppure (r_intn (zlen (traits g))) in
        let? sg := ppure r_randsign in
        let? f := ppure r_float64 in
        let w := PrimFloat.mul (PrimFloat.mul sg f) 10%float in
        let? num := p_next_innov in
        let? tr := ppure (lift (trait_at g tn)) in
        let x := mk_gene tr w (n_id n1) (n_id n2) do_recur num w in
        exec? p_store (link_innovation (n_id n1) (n_id n2) num w tn do_recur) ;;
        if Z.eqb (g_in x) (g_out x) && negb do_recur then ppure (fail_err 52)
        else pret (with_genes g (gene_insert (genes g) x), true)
      end
    | (_, found) => pret (g, found)
    end
  end.

(* ---------- mutateAddNode ---------- *)
Definition node_innovation (x : gene) (nid num1 num2 : Z) : innovation :=
  {| i_type := 1; i_in := g_in x; i_out := g_out x; i_num := num1; i_num2 := num2;
     i_w := 0%float; i_trait := 0; i_node := nid; i_old := g_innov x; i_rec := false |}.

Definition mutate_add_node_p (o : options) (g : genome) : P (genome * bool) :=
  match genes g with
  | [] => pret (g, false)
  | gs =>
    let? pick := ppure (if Z.ltb (zlen gs) 15 then pick_gene_small g gs O else pick_gene_big 20 g) in
    match pick with
    | None => pret (g, false)
    | Some k =>
      let? x := ppure (lift (nth_res gs k)) in
      let g1 := with_genes g (set_nth gs k (set_en false x)) in
      let? inns := p_innovs in
      match find_node_innov inns (g_in x) (g_out x) (g_innov x) with
      | Some inn =>
        let? tr0 := ppure (lift (trait_at g1 0)) in
        let nd := {| n_id := i_node inn; n_type := HIDDEN; n_act := SIGMOID_STEEPENED; n_trait := tr0 |} in
        let x1 := mk_gene (g_trait x) 1%float (g_in x) (n_id nd) (g_rec x) (i_num inn) 0%float in
        let x2 := mk_gene (g_trait x) (g_w x) (n_id nd) (g_out x) false (i_num2 inn) 0%float in
        if have_node g1 (n_id nd) then pret (g1, false)
        else
          let gs1 := gene_insert (gene_insert (genes g1) x1) x2 in
          pret (with_nodes (with_genes g1 gs1) (node_insert (nodes g1) nd), true)
      | None =>
        let? nid := p_next_node in
        let? tr0 := ppure (lift (trait_at g1 0)) in
        let? act := ppure (on_tape (tape_random_activation o)) in
        let nd := {| n_id := nid; n_type := HIDDEN; n_act := act; n_trait := tr0 |} in
        let? num1 := p_next_innov in
        let x1 := mk_gene (g_trait x) 1%float (g_in x) nid (g_rec x) num1 0%float in
        let? num2 := p_next_innov in
        let x2 := mk_gene (g_trait x) (g_w x) nid (g_out x) false num2 0%float in
        exec? p_store (node_innovation x nid num1 num2) ;;
        let gs1 := gene_insert (gene_insert (genes g1) x1) x2 in
        pret (with_nodes (with_genes g1 gs1) (node_insert (nodes g1) nd), true)
      end
    end
  end.

(* ---------- the mutation cascade of Species.reproduce ---------- *)
Definition mutate_baby_p (o : options) (g : genome) : P (genome * bool) :=
  let? r1 := ppure r_float64 in
  if PrimFloat.ltb r1 (o_mut_add_node o) then
    let? r := mutate_add_node_p o g in pret (fst r, true)
  else
    let? r2 := ppure r_float64 in
    if PrimFloat.ltb r2 (o_mut_add_link o) then
      let? r := mutate_add_link_p o g in pret (fst r, true)
    else
      let? r3 := ppure r_float64 in
      let? gs := (if PrimFloat.ltb r3 (o_mut_connect_sensors o) then mutate_connect_sensors_p g else pret (g, false)) in
      let '(g1, structural) := gs in
      if structural then pret (g1, true)
      else let? r := ppure (mutate_all_nonstructural o g1) in pret (fst r, false).

(* ---------- one offspring ---------- *)
Definition one_baby_p (o : options) (generation : Z) (all_species : list species) (sorted : list Z)
           (s : species) (count : Z) (rs : rstate) : P rstate :=
  let h := r_heap rs in
  let pool := zlen (sp_orgs s) in
  let? champ := ppure (lift (first_org h s)) in
  let finish (h : list organism) (b : organism) (clone_done : bool) : P rstate :=
      pret {| r_heap := hset h b; r_key := r_key rs + 1; r_babies := r_babies rs ++ [o_key b]; r_clone_done := clone_done |} in
  if Z.gtb (o_super champ) 0 then
    let? g0 := ppure (lift (duplicate (o_genome champ) count)) in
    let? gm :=
       (if Z.gtb (o_super champ) 1 then
          let? r := ppure r_float64 in
          if PrimFloat.ltb r 0x1.999999999999ap-1%float || PrimFloat.eqb (o_mut_add_link o) 0%float then
            let? x := ppure (mutate_link_weights (o_weight_mut_power o) 1%float true g0) in pret (fst x, false)
          else
            let? x := mutate_add_link_p o g0 in pret (fst x, true)
        else pret (g0, false)) in
    let '(g1, mut_struct) := gm in
    let b := new_baby (r_key rs) g1 generation in
    let b := if Z.eqb (o_super champ) 1 && o_popchamp champ
             then {| o_key := o_key b; o_fit := o_fit b; o_orig := o_orig b; o_genome := o_genome b;
                     o_species := o_species b; o_exp := o_exp b; o_gen := o_gen b; o_elim := o_elim b;
                     o_champ := o_champ b; o_super := o_super b; o_popchamp := o_popchamp b;
                     o_popchampchild := true; o_highest := o_orig champ; o_mutstruct := false; o_mate := false |}
             else b in
    let h1 := hset h (o_with_super champ (o_super champ - 1)) in
    finish h1 (baby_flags b mut_struct false) (r_clone_done rs)
  else if negb (r_clone_done rs) && Z.gtb (sp_exp s) 5 then
    let? g0 := ppure (lift (duplicate (o_genome champ) count)) in
    finish h (new_baby (r_key rs) g0 generation) true
  else
    let? r := ppure r_float64 in
    if PrimFloat.ltb r (o_mutate_only o) || Z.eqb pool 1 then
      let? k := ppure (r_int31n pool) in
      let? mk := ppure (lift (idx (sp_orgs s) k)) in
      let? mom := ppure (lift (hget h mk)) in
      let? g0 := ppure (lift (duplicate (o_genome mom) count)) in
      let? gm := mutate_baby_p o g0 in
      finish h (baby_flags (new_baby (r_key rs) (fst gm) generation) (snd gm) false) (r_clone_done rs)
    else
      let? k := ppure (r_int31n pool) in
      let? mk := ppure (lift (idx (sp_orgs s) k)) in
      let? mom := ppure (lift (hget h mk)) in
      let? r2 := ppure r_float64 in
      let? dad :=
         ppure (if PrimFloat.ltb (o_interspecies o) r2 then
            let! k2 := r_int31n pool in
            let! dk := lift (idx (sp_orgs s) k2) in
            lift (hget h dk)
          else
            let! sid := pick_other_species 5 (sp_id s) sorted (sp_id s) in
            match sp_find all_species sid with
            | None => fail_panic 4
            | Some rs' => lift (first_org h rs')
            end) in
      let? r3 := ppure r_float64 in
      let? child :=
         ppure (if PrimFloat.ltb r3 (o_mate_multi o) then
            mate_multipoint (o_genome mom) (o_genome dad) count (o_orig mom) (o_orig dad)
          else
            let! r4 := r_float64 in
            if PrimFloat.ltb r4 (PrimFloat.div (o_mate_multi_avg o) (PrimFloat.add (o_mate_multi_avg o) (o_mate_single o))) then
              mate_multipoint_avg (o_genome mom) (o_genome dad) count (o_orig mom) (o_orig dad)
            else mate_singlepoint (o_genome mom) (o_genome dad) count) in
      let? r5 := ppure r_float64 in
      let? gm :=
         (if PrimFloat.ltb (o_mate_only o) r5 || Z.eqb (gid (o_genome dad)) (gid (o_genome mom))
             || PrimFloat.eqb (genome_compat o (o_genome dad) (o_genome mom)) 0%float
          then mutate_baby_p o child else pret (child, false)) in
      finish h (baby_flags (new_baby (r_key rs) (fst gm) generation) (snd gm) true) (r_clone_done rs)
  .

Fixpoint reproduce_loop_p (n : nat) (o : options) (generation : Z) (all_species : list species) (sorted : list Z)
         (s : species) (count : Z) (rs : rstate) : P rstate :=
  match n with
  | O => pret rs
  | S k => let? rs' := one_baby_p o generation all_species sorted s count rs in
           reproduce_loop_p k o generation all_species sorted s (count + 1) rs'
  end.

(* ---------- Species.reproduce: the goroutine of one species ---------- *)
Definition species_prog (o : options) (generation : Z) (all_species : list species) (sorted : list Z)
           (s : species) (h : list organism) (key : Z) : P (list organism * Z * list Z) :=
  if Z.gtb (sp_exp s) 0 && Nat.eqb (length (sp_orgs s)) 0 then ppure (fail_err 71) else
  match sp_orgs s with
  | [] => ppure (fail_panic 2)
  | _ =>
    let? rs := reproduce_loop_p (Z.to_nat (sp_exp s)) o generation all_species sorted s 0
                                {| r_heap := h; r_key := key; r_babies := []; r_clone_done := false |} in
    pret (r_heap rs, r_key rs, r_babies rs)
  end.

(* ====================== the model functions are their in-order executions ====================== *)
Lemma F_connect_one sensor acc out : Factors (connect_one sensor acc out) (connect_one_p sensor acc out).
Proof. unfold connect_one, connect_one_p. fac_auto. Qed.
#[export] Hint Resolve F_connect_one : fac.

Lemma F_mutate_connect_sensors g : Factors (mutate_connect_sensors g) (mutate_connect_sensors_p g).
Proof.
  unfold mutate_connect_sensors, mutate_connect_sensors_p.
  destruct (genes g) as [|x0 gs0]; [fac_auto|]. cbv zeta.
  destruct (filter _ (filter is_sensor (nodes g))) as [|d0 ds]; [fac_auto|].
  apply F_bind; [fac_auto|intro k]. apply F_bind; [fac_auto|intro s].
  apply F_bind; [apply F_foldM; intros; apply F_connect_one|intro r]. fac_auto.
Qed.
#[export] Hint Resolve F_mutate_connect_sensors : fac.

Lemma F_mutate_add_link o g : Factors (mutate_add_link o g) (mutate_add_link_p o g).
Proof. unfold mutate_add_link, mutate_add_link_p. fac_auto. Qed.
#[export] Hint Resolve F_mutate_add_link : fac.

Lemma F_mutate_add_node o g : Factors (mutate_add_node o g) (mutate_add_node_p o g).
Proof. unfold mutate_add_node, mutate_add_node_p, node_innovation. fac_auto. Qed.
#[export] Hint Resolve F_mutate_add_node : fac.

Lemma F_mutate_baby o g : Factors (mutate_baby o g) (mutate_baby_p o g).
Proof. unfold mutate_baby, mutate_baby_p. fac_auto. Qed.
#[export] Hint Resolve F_mutate_baby : fac.

Lemma F_one_baby o generation all_species sorted s count rs :
  Factors (one_baby o generation all_species sorted s count rs) (one_baby_p o generation all_species sorted s count rs).
Proof. unfold one_baby, one_baby_p. fac_auto. Qed.
#[export] Hint Resolve F_one_baby : fac.

Lemma F_reproduce_loop n o generation all_species sorted s : forall count rs,
    Factors (reproduce_loop n o generation all_species sorted s count rs)
            (reproduce_loop_p n o generation all_species sorted s count rs).
Proof. induction n as [|k IH]; intros count rs; cbn [reproduce_loop reproduce_loop_p]; fac_auto. Qed.
#[export] Hint Resolve F_reproduce_loop : fac.

Theorem F_reproduce_species o generation all_species sorted s h key :
  Factors (reproduce_species o generation all_species sorted s h key)
          (species_prog o generation all_species sorted s h key).
Proof. unfold reproduce_species, species_prog. fac_auto. Qed.

(* ====================== the programs obey the ownership discipline ====================== *)
(* The three allocation blocks.  In each, the numbers handed out between the read of the record and
   the store are exactly the numbers of the record stored (thread-local, possibly failing,
   computation in between does not change what the thread owns). *)
Lemma link_innovation_nums i o num w tn rc : inn_nums (link_innovation i o num w tn rc) = [num].
Proof. reflexivity. Qed.
Lemma node_innovation_nums x nid n1 n2 : inn_nums (node_innovation x nid n1 n2) = [n1; n2].
Proof. reflexivity. Qed.

Lemma OkAll_connect_one sensor acc out : OkAll (connect_one_p sensor acc out).
Proof.
  unfold connect_one_p. destruct acc as [[g added] stop].
  destruct stop; [ok_auto|]. destruct (existsb _ (genes g)); [ok_auto|].
  apply OkAll_bind; [ok_auto|intro inns]. destruct (find_link_innov _ _ _ _) as [inn|]; [ok_auto|].
  apply OkAll_bind; [ok_auto|intro tn]. apply OkAll_bind; [ok_auto|intro sg]. apply OkAll_bind; [ok_auto|intro f].
  intros [oi on]. hp_step num. hp_step tr. hp_store oi.
  - rewrite link_innovation_nums. apply Permutation_refl.
  - discriminate.
  - apply OkAll_HP. ok_auto.
Qed.
#[export] Hint Resolve OkAll_connect_one : okall.

Lemma OkAll_mutate_connect_sensors g : OkAll (mutate_connect_sensors_p g).
Proof.
  unfold mutate_connect_sensors_p.
  destruct (genes g) as [|x0 gs0]; [ok_auto|]. cbv zeta.
  destruct (filter _ (filter is_sensor (nodes g))) as [|d0 ds]; [ok_auto|].
  apply OkAll_bind; [ok_auto|intro k]. apply OkAll_bind; [ok_auto|intro s].
  apply OkAll_bind; [apply OkAll_foldM; intros; apply OkAll_connect_one|intro r]. ok_auto.
Qed.
#[export] Hint Resolve OkAll_mutate_connect_sensors : okall.

(* the allocate-and-store tail of mutateAddLink *)
Lemma OkAll_add_link_alloc (g : genome) (a b : Z) (do_recur : bool) (w : float) (tn : Z) :
  OkAll (let? num := p_next_innov in
         let? tr := ppure (lift (trait_at g tn)) in
         exec? p_store (link_innovation a b num w tn do_recur) ;;
         if Z.eqb (g_in (mk_gene tr w a b do_recur num w)) (g_out (mk_gene tr w a b do_recur num w)) && negb do_recur
         then ppure (fail_err 52)
         else pret (with_genes g (gene_insert (genes g) (mk_gene tr w a b do_recur num w)), true)).
Proof.
  intros [oi on]. hp_step num. hp_step tr. hp_store oi.
  - rewrite link_innovation_nums. apply Permutation_refl.
  - discriminate.
  - apply OkAll_HP. ok_auto.
Qed.

Lemma OkAll_mutate_add_link o g : OkAll (mutate_add_link_p o g).
Proof.
  unfold mutate_add_link_p.
  assert (G : OkAll
    (let n := zlen (nodes g) in
    let? r := ppure r_float64 in
    let do_recur := PrimFloat.ltb r (o_recur_only o) in
    let first := (fix lead (l : list node) : Z :=
                    match l with [] => 0 | x :: l' => if is_sensor x then 1 + lead l' else 0 end) (nodes g) in
    let? pr := ppure (add_link_tries (Z.to_nat (o_newlink_tries o)) do_recur g n first None) in
    match pr with
    | (Some (n1, n2), true) =>
      let? inns := p_innovs in
      match find_link_innov inns (n_id n1) (n_id n2) do_recur with
      | Some inn =>
        let? tr := ppure (lift (trait_at g (i_trait inn))) in
        let x := mk_gene tr (i_w inn) (n_id n1) (n_id n2) do_recur (i_num inn) 0%float in
        if have_gene g x then pret (g, false)
        else if Z.eqb (g_in x) (g_out x) && negb do_recur then ppure (fail_err 52)
        else pret (with_genes g (gene_insert (genes g) x), true)
      | None =>
        let? tn := ppure (r_intn (zlen (traits g))) in
        let? sg := ppure r_randsign in
        let? f := ppure r_float64 in
        let w := PrimFloat.mul (PrimFloat.mul sg f) 10%float in
        let? num := p_next_innov in
        let? tr := ppure (lift (trait_at g tn)) in
        let x := mk_gene tr w (n_id n1) (n_id n2) do_recur num w in
        exec? p_store (link_innovation (n_id n1) (n_id n2) num w tn do_recur) ;;
        if Z.eqb (g_in x) (g_out x) && negb do_recur then ppure (fail_err 52)
        else pret (with_genes g (gene_insert (genes g) x), true)
      end
    | (_, found) => pret (g, found)
    end)).
  { cbv zeta. apply OkAll_bind; [ok_auto|intro r]. apply OkAll_bind; [ok_auto|intro pr].
    destruct pr as [[[n1 n2]|] []]; try solve [ok_auto].
    apply OkAll_bind; [ok_auto|intro inns]. destruct (find_link_innov _ _ _ _) as [inn|]; [ok_auto|].
    apply OkAll_bind; [ok_auto|intro tn]. apply OkAll_bind; [ok_auto|intro sg]. apply OkAll_bind; [ok_auto|intro f].
    apply OkAll_add_link_alloc. }
  destruct (genesis_check g); solve [exact G | ok_auto].
Qed.
#[export] Hint Resolve OkAll_mutate_add_link : okall.

Lemma OkAll_mutate_add_node o g : OkAll (mutate_add_node_p o g).
Proof.
  unfold mutate_add_node_p. destruct (genes g) as [|x0 gs0]; [ok_auto|].
  apply OkAll_bind; [ok_auto|intro pick]. destruct pick as [k|]; [|ok_auto].
  apply OkAll_bind; [ok_auto|intro x]. cbv zeta.
  apply OkAll_bind; [ok_auto|intro inns]. destruct (find_node_innov _ _ _ _) as [inn|]; [ok_auto|].
  intros [oi on].
  hp_step nid. hp_step tr0. hp_step act. hp_step num1. hp_step num2. hp_store oi.
  - rewrite node_innovation_nums. apply perm_swap.
  - intros _. now left.
  - apply OkAll_HP. ok_auto.
Qed.
#[export] Hint Resolve OkAll_mutate_add_node : okall.

Lemma OkAll_mutate_baby o g : OkAll (mutate_baby_p o g).
Proof. unfold mutate_baby_p. ok_auto. Qed.
#[export] Hint Resolve OkAll_mutate_baby : okall.

Lemma OkAll_one_baby o generation all_species sorted s count rs :
  OkAll (one_baby_p o generation all_species sorted s count rs).
Proof. unfold one_baby_p. ok_auto. Qed.
#[export] Hint Resolve OkAll_one_baby : okall.

Lemma OkAll_reproduce_loop n o generation all_species sorted s : forall count rs,
    OkAll (reproduce_loop_p n o generation all_species sorted s count rs).
Proof. induction n as [|k IH]; intros count rs; cbn [reproduce_loop_p]; ok_auto. Qed.
#[export] Hint Resolve OkAll_reproduce_loop : okall.

Theorem OkAll_species_prog o generation all_species sorted s h key :
  OkAll (species_prog o generation all_species sorted s h key).
Proof. unfold species_prog. ok_auto. Qed.

(* ====================== C16_full and what follows from it ====================== *)
(* the statement of props/C16.v (C16_full), with [species_prog] as the witness *)
Theorem species_reproduction_factors :
  exists sp_prog : options -> Z -> list species -> list Z -> species -> list organism -> Z -> tape ->
                   prog (res (list organism * Z * list Z * tape)),
    (forall o gen sps sorted s h key t, ok_prog ([], []) (sp_prog o gen sps sorted s h key t)) /\
    (forall o gen sps sorted s h key t e,
        reproduce_species o gen sps sorted s h key {| s_tape := t; s_env := e |} =
        match run_seq (sp_prog o gen sps sorted s h key t) e with
        | (e', inl (Ok (r, t'))) => Ok (r, {| s_tape := t'; s_env := e' |})
        | (_, inl (GoErr c)) => GoErr c
        | (_, inl (GoPanic c)) => GoPanic c
        | (_, inl OutOfTape) => OutOfTape
        | (_, inl OutOfFuel) => OutOfFuel
        | (_, inl BadOracle) => BadOracle
        | (_, inr c) => GoErr c
        end).
Proof.
  exists species_prog. split.
  - intros o gen sps sorted s h key t. apply OkAll_ok_prog. apply OkAll_species_prog.
  - intros o gen sps sorted s h key t e. exact (F_reproduce_species o gen sps sorted s h key t e).
Qed.

Lemma species_prog_ok o gen sps sorted s h key t : forall own0, ok_prog own0 (species_prog o gen sps sorted s h key t).
Proof. intros own0. apply OkAll_ok_prog. apply OkAll_species_prog. Qed.

(* a pool all of whose goroutines are species-reproduction programs of the model (any options, any
   species, any heap, any tape each) *)
Definition model_pool (ts : list (prog (res (list organism * Z * list Z * tape)))) : Prop :=
  forall p, In p ts -> exists o gen sps sorted s h key t, p = species_prog o gen sps sorted s h key t.

Lemma model_pool_ok ts : model_pool ts -> Forall (ok_prog ([], [])) ts.
Proof.
  intros H. apply Forall_forall. intros p Hp.
  destruct (H p Hp) as (o & gen & sps & sorted & s & h & key & t & ->). apply species_prog_ok.
Qed.

(* under EVERY schedule of the model's own programs the environment extends the initial one *)
Theorem model_pool_env_extends ts ts' e0 e lbs :
  model_pool ts -> steps (e0, ts) lbs (e, ts') -> env_extends e0 e.
Proof. intros H Hs. eapply par_env_extends; [apply model_pool_ok; exact H|exact Hs]. Qed.

(* a successful sequential run of one species in the monad is the complete in-order run of its program *)
Lemma species_run_seq o gen sps sorted s h key t e r t' e' :
  reproduce_species o gen sps sorted s h key {| s_tape := t; s_env := e |} = Ok (r, {| s_tape := t'; s_env := e' |}) ->
  run_seq (species_prog o gen sps sorted s h key t) e = (e', inl (Ok (r, t'))).
Proof.
  intros H. rewrite (F_reproduce_species o gen sps sorted s h key t e) in H.
  destruct (run_seq _ e) as [e1 [[[r1 t1]|c|c| | | ]|c]]; cbn [interp] in H; try discriminate.
  injection H as -> -> ->. reflexivity.
Qed.

(* The sequential executor IS one of the schedules of the pool of model programs: if the model's
   [reproduce_all] (species after species, threading heap, key counter and tape) succeeds, then the
   pool consisting of each species' program -- started from the heap, key and tape the sequential
   run had reached at that point -- has a schedule ending in the same environment with every
   goroutine finished successfully. *)
Definition pool_of (o : options) (gen : Z) (sps : list species) (sorted : list Z)
           (l : list species) (starts : list (list organism * Z * tape))
  : list (prog (res (list organism * Z * list Z * tape))) :=
  map (fun sj => species_prog o gen sps sorted (fst sj) (fst (fst (snd sj))) (snd (fst (snd sj))) (snd (snd sj)))
      (combine l starts).

Lemma pool_of_model o gen sps sorted l starts : model_pool (pool_of o gen sps sorted l starts).
Proof.
  intros p Hp. unfold pool_of in Hp. apply in_map_iff in Hp. destruct Hp as [[s [[h key] t]] [<- _]].
  cbn [fst snd]. repeat eexists.
Qed.

Lemma reproduce_all_run_all o gen sps sorted best_id : forall l h key babies br t e r t' e',
    reproduce_all o gen sps sorted best_id l h key babies br {| s_tape := t; s_env := e |}
    = Ok (r, {| s_tape := t'; s_env := e' |}) ->
    exists starts, length starts = length l /\
                   fst (run_all (pool_of o gen sps sorted l starts) e) = e' /\
                   Forall (fun p => exists x, p = Ret (Ok x)) (snd (run_all (pool_of o gen sps sorted l starts) e)).
Proof.
  induction l as [|s l IH]; intros h key babies br t e r t' e' H; cbn [reproduce_all] in H.
  - unfold ret in H. injection H as _ _ <-. exists []. cbn. auto.
  - unfold bindM in H.
    destruct (reproduce_species o gen sps sorted s h key {| s_tape := t; s_env := e |})
      as [[[[h1 key1] bs] [t1 e1]]| | | | |] eqn:E; try discriminate.
    destruct (IH _ _ _ _ _ _ _ _ _ H) as (starts & Hlen & He & Hall).
    exists ((h, key, t) :: starts). split; [cbn; now rewrite Hlen|].
    unfold pool_of in *. cbn [combine map fst snd run_all].
    rewrite (species_run_seq _ _ _ _ _ _ _ _ _ _ _ _ E). cbn [fst snd done].
    split; [exact He|]. constructor; [eexists; reflexivity|exact Hall].
Qed.

Theorem sequential_reproduce_is_a_schedule o gen sps sorted best_id l h key babies br t e r t' e' :
  reproduce_all o gen sps sorted best_id l h key babies br {| s_tape := t; s_env := e |}
  = Ok (r, {| s_tape := t'; s_env := e' |}) ->
  exists starts lbs ts',
    length starts = length l /\
    steps (e, pool_of o gen sps sorted l starts) lbs (e', ts') /\
    Forall (fun p => exists x, p = Ret (Ok x)) ts' /\
    env_extends e e'.
Proof.
  intros H. destruct (reproduce_all_run_all _ _ _ _ _ _ _ _ _ _ _ _ _ _ _ H) as (starts & Hlen & He & Hall).
  destruct (sequential_is_a_schedule (pool_of o gen sps sorted l starts) e) as [lbs Hs].
  destruct (run_all (pool_of o gen sps sorted l starts) e) as [e2 ts2] eqn:E2. cbn [fst snd] in *. subst e2.
  exists starts, lbs, ts2. split; [exact Hlen|]. split; [exact Hs|]. split; [exact Hall|].
  eapply model_pool_env_extends; [apply pool_of_model|exact Hs].
Qed.
