(* C19: the hand-written model of the aggregate accessors IS the code of experiment/trial.go and experiment.go.

   gen/ExperAggr.v is regenerated on every run by `neatverif translate experaggr`: the body of each accessor
   translated construct by construct into [gen_<Recv>_<Method>] over the record types of model/Exper.v.  A range
   loop without a return is a [fold_left] over the enclosing variables the body assigns, a loop with a return the
   combinator [go_range] (stops at the first [inr]), `x := make([]float64, len(s))` a list of zeros and `x[i] = v`
   inside `for i, a := range s` the list update [go_set] over [go_indexed s].  The model writes the same loops as
   structural recursions (accumulator loops, first-hit searches, element-by-element lists).  This file is checked
   in: it proves, for every number structure and every input, each model function equal to its translated body.
   Three generic lemmas carry the loop invariants (an accumulator recursion is the fold of its step; a first-hit
   recursion is the early-return loop; an element-by-element list is the indexed fill of a zeroed slice, invariant:
   after k iterations the slice is the k computed elements followed by zeros); each function instantiates one of
   them and closes the step obligations by conversion (after rewriting with the agreement of the callees and a
   case split per `if`).  An edit of one of the bodies changes the generated term: the proof then either still
   checks (the edit is harmless) or stops checking. *)
From Coq Require Import ZArith List Bool Lia.
From NeatModel Require Import Res F64 Stats Exper ExperAggr.
Import ListNotations.
Open Scope Z_scope.

(* ---------------- generic loop lemmas ---------------- *)

(* for _, a := range l { s = step(s, a) }  against a recursion with an accumulator *)
Lemma fold_left_is_rec : forall {A S : Type} (step : S -> A -> S) (rec : list A -> S -> S),
    (forall s, rec [] s = s) ->
    (forall a l s, rec (a :: l) s = rec l (step s a)) ->
    forall l s, fold_left step l s = rec l s.
Proof.
  intros A S step rec H0 H1 l. induction l as [|a l IH]; intros s.
  - cbn [fold_left]. symmetry. apply H0.
  - cbn [fold_left]. rewrite IH. symmetry. apply H1.
Qed.

(* for _, a := range l { if p(a) { return true } }; return false  against a first-hit recursion *)
Lemma go_range_any_is_rec : forall {A : Type} (p : A -> bool) (rec : list A -> bool),
    rec [] = false ->
    (forall a l, rec (a :: l) = if p a then true else rec l) ->
    forall l, rec l =
              match go_range (fun (_ : unit) (a : A) => if p a then @inr unit bool true else inl tt) l tt with
              | inr r => r
              | inl _ => false
              end.
Proof.
  intros A p rec H0 H1 l. induction l as [|a l IH].
  - cbn [go_range]. exact H0.
  - rewrite H1. cbn [go_range]. destruct (p a).
    + reflexivity.
    + exact IH.
Qed.

(* x[i] = v at the position right after a prefix *)
Lemma go_set_nat_app : forall {A : Type} (pre : list A) (z : A) (rest : list A) (v : A),
    go_set_nat (pre ++ z :: rest) (length pre) v = pre ++ v :: rest.
Proof.
  intros A pre z rest v. induction pre as [|a pre IH].
  - reflexivity.
  - cbn [app length go_set_nat]. rewrite IH. reflexivity.
Qed.

Lemma go_set_app : forall {A : Type} (pre : list A) (z : A) (rest : list A) (v : A),
    go_set (pre ++ z :: rest) (Z.of_nat (length pre)) v = pre ++ v :: rest.
Proof. intros A pre z rest v. unfold go_set. rewrite Nat2Z.id. apply go_set_nat_app. Qed.

(* x := make([]T, len(l)); for i, a := range l { [if ...] x[i] = v(a) }  against the element-by-element list.
   [val a = None]: the body leaves x[i] alone (it keeps the zero of make). *)
Lemma indexed_fill_invariant : forall {A T : Type} (val : A -> option T) (z : T)
                                      (step : list T -> Z * A -> list T),
    (forall x i a, step x (i, a) = match val a with Some v => go_set x i v | None => x end) ->
    forall (l : list A) (pre : list T),
      fold_left step (go_indexed_from (Z.of_nat (length pre)) l) (pre ++ repeat z (length l)) =
      pre ++ map (fun a => match val a with Some v => v | None => z end) l.
Proof.
  intros A T val z step Hstep l. induction l as [|a l IH]; intros pre.
  - reflexivity.
  - cbn [go_indexed_from fold_left length repeat map]. rewrite Hstep.
    assert (Hx : match val a with
                 | Some v => go_set (pre ++ z :: repeat z (length l)) (Z.of_nat (length pre)) v
                 | None => pre ++ z :: repeat z (length l)
                 end = (pre ++ [match val a with Some v => v | None => z end]) ++ repeat z (length l)).
    { destruct (val a) as [v|].
      - rewrite go_set_app, <- app_assoc. reflexivity.
      - rewrite <- app_assoc. reflexivity. }
    rewrite Hx.
    replace (Z.of_nat (length pre) + 1)
      with (Z.of_nat (length (pre ++ [match val a with Some v => v | None => z end]))).
    + rewrite IH, <- app_assoc. reflexivity.
    + rewrite app_length, Nat2Z.inj_add. reflexivity.
Qed.

Lemma indexed_fill_is_rec : forall {A T : Type} (val : A -> option T) (z : T)
                                   (step : list T -> Z * A -> list T) (rec : list A -> list T),
    (forall x i a, step x (i, a) = match val a with Some v => go_set x i v | None => x end) ->
    rec [] = [] ->
    (forall a l, rec (a :: l) = (match val a with Some v => v | None => z end) :: rec l) ->
    forall l, rec l = fold_left step (go_indexed l) (repeat z (Z.to_nat (Z.of_nat (length l)))).
Proof.
  intros A T val z step rec Hstep H0 H1 l.
  rewrite Nat2Z.id. unfold go_indexed.
  pose proof (indexed_fill_invariant val z step Hstep l []) as Hinv.
  cbn [length app] in Hinv. change (Z.of_nat 0) with 0 in Hinv. rewrite Hinv. clear Hinv.
  induction l as [|a l IH].
  - exact H0.
  - rewrite H1, IH. reflexivity.
Qed.

(* ---------------- the accessors ---------------- *)

Section ExperAggrAgree.
Context {F : Type} (N : num F).

(* ---- trial.go ---- *)

Theorem Trial_AvgEpochDuration_agrees : forall t : @trial F,
    t_avg_epoch_duration t = gen_Trial_AvgEpochDuration t.
Proof.
  intros t. unfold t_avg_epoch_duration, gen_Trial_AvgEpochDuration, len. cbv zeta.
  rewrite (fold_left_is_rec _ (@sum_durations F)); [reflexivity | reflexivity | reflexivity].
Qed.

Theorem Trial_Solved_agrees : forall t : @trial F, t_solved t = gen_Trial_Solved t.
Proof.
  intros t. unfold t_solved, gen_Trial_Solved.
  apply (go_range_any_is_rec (@g_solved F) (@gens_solved F)); reflexivity.
Qed.

Theorem Trial_Diversity_agrees : forall t : @trial F, t_diversity N t = gen_Trial_Diversity N t.
Proof.
  intros t. unfold t_diversity, gen_Trial_Diversity. cbv zeta.
  apply (indexed_fill_is_rec (fun g : @generation F => Some (n_ofZ N (g_diversity g))) (n_zero N) _
                             (diversity_loop N)); reflexivity.
Qed.

Theorem Trial_ChampionsFitness_agrees : forall t : @trial F,
    t_champions_fitness N t = gen_Trial_ChampionsFitness N t.
Proof.
  intros t. unfold t_champions_fitness, gen_Trial_ChampionsFitness. cbv zeta.
  apply (indexed_fill_is_rec
           (fun g : @generation F => match g_champ g with Some o => Some (o_fitness o) | None => None end)
           (n_zero N) _ (champions_fitness_loop N)).
  - intros x i g. cbv beta iota zeta. destruct (g_champ g); reflexivity.
  - reflexivity.
  - intros g l. cbn [champions_fitness_loop]. destruct (g_champ g); reflexivity.
Qed.

Theorem Trial_ChampionSpeciesAges_agrees : forall t : @trial F,
    t_champion_species_ages N t = gen_Trial_ChampionSpeciesAges N t.
Proof.
  intros t. unfold t_champion_species_ages, gen_Trial_ChampionSpeciesAges. cbv zeta.
  apply (indexed_fill_is_rec
           (fun g : @generation F =>
              match g_champ g with
              | Some o => match o_age o with Some a => Some (n_ofZ N a) | None => None end
              | None => None
              end)
           (n_zero N) _ (champion_ages_loop N)).
  - intros x i g. cbv beta iota zeta. destruct (g_champ g) as [o|]; [destruct (o_age o)|]; reflexivity.
  - reflexivity.
  - intros g l. cbn [champion_ages_loop]. destruct (g_champ g) as [o|]; [destruct (o_age o)|]; reflexivity.
Qed.

Theorem Trial_ChampionsComplexities_agrees : forall t : @trial F,
    t_champions_complexities N t = gen_Trial_ChampionsComplexities N t.
Proof.
  intros t. unfold t_champions_complexities, gen_Trial_ChampionsComplexities. cbv zeta.
  apply (indexed_fill_is_rec
           (fun g : @generation F => if g_champion_complexity g =? max_int then None
                                     else Some (n_ofZ N (g_champion_complexity g)))
           (n_zero N) _ (champions_cplx_loop N)).
  - intros x i g. cbv beta iota zeta. destruct (g_champion_complexity g =? max_int); reflexivity.
  - reflexivity.
  - intros g l. cbn [champions_cplx_loop]. cbv zeta.
    destruct (g_champion_complexity g =? max_int); reflexivity.
Qed.

(* ---- experiment.go ---- *)

Theorem Experiment_AvgTrialDuration_agrees : forall e : @experiment F,
    e_avg_trial_duration e = gen_Experiment_AvgTrialDuration e.
Proof.
  intros e. unfold e_avg_trial_duration, gen_Experiment_AvgTrialDuration. cbv zeta.
  rewrite (fold_left_is_rec _ (@sum_trial_durations F)); [reflexivity | reflexivity | reflexivity].
Qed.

Theorem Experiment_AvgEpochDuration_agrees : forall e : @experiment F,
    e_avg_epoch_duration e = gen_Experiment_AvgEpochDuration e.
Proof.
  intros e. unfold e_avg_epoch_duration, gen_Experiment_AvgEpochDuration. cbv zeta.
  rewrite (fold_left_is_rec _ (@sum_epoch_durations F)); [reflexivity | reflexivity |].
  intros t l s. cbn [sum_epoch_durations]. rewrite Trial_AvgEpochDuration_agrees. reflexivity.
Qed.

Theorem Experiment_AvgGenerationsPerTrial_agrees : forall e : @experiment F,
    e_avg_generations_per_trial N e = gen_Experiment_AvgGenerationsPerTrial N e.
Proof.
  intros e. unfold e_avg_generations_per_trial, gen_Experiment_AvgGenerationsPerTrial. cbv zeta.
  rewrite (fold_left_is_rec _ (sum_gens N)); [reflexivity | reflexivity | reflexivity].
Qed.

Theorem Experiment_Solved_agrees : forall e : @experiment F, e_solved e = gen_Experiment_Solved e.
Proof.
  intros e. unfold gen_Experiment_Solved.
  apply (go_range_any_is_rec (@gen_Trial_Solved F) (@e_solved F)).
  - reflexivity.
  - intros t l. cbn [e_solved]. rewrite Trial_Solved_agrees. reflexivity.
Qed.

Theorem Experiment_TrialsSolved_agrees : forall e : @experiment F,
    e_trials_solved e = gen_Experiment_TrialsSolved e.
Proof.
  intros e. unfold e_trials_solved, gen_Experiment_TrialsSolved. cbv zeta.
  rewrite (fold_left_is_rec _ (@trials_solved_loop F)); [reflexivity | reflexivity |].
  intros t l s. cbn [trials_solved_loop]. rewrite Trial_Solved_agrees. reflexivity.
Qed.

Theorem Experiment_SuccessRate_agrees : forall e : @experiment F,
    e_success_rate N e = gen_Experiment_SuccessRate N e.
Proof.
  intros e. unfold e_success_rate, gen_Experiment_SuccessRate. cbv zeta.
  rewrite Experiment_TrialsSolved_agrees. reflexivity.
Qed.

Theorem Experiment_EpochsPerTrial_agrees : forall e : @experiment F,
    e_epochs_per_trial N e = gen_Experiment_EpochsPerTrial N e.
Proof.
  intros e. unfold gen_Experiment_EpochsPerTrial. cbv zeta.
  apply (indexed_fill_is_rec (fun t : @trial F => Some (n_ofZ N (len (t_gens t)))) (n_zero N) _
                             (e_epochs_per_trial N)); reflexivity.
Qed.

Theorem Experiment_AvgDiversity_agrees : forall e : @experiment F,
    e_avg_diversity N e = gen_Experiment_AvgDiversity N e.
Proof.
  intros e. unfold gen_Experiment_AvgDiversity. cbv zeta.
  apply (indexed_fill_is_rec (fun t : @trial F => Some (F_mean N true (gen_Trial_Diversity N t))) (n_zero N) _
                             (e_avg_diversity N)).
  - reflexivity.
  - reflexivity.
  - intros t l. cbn [e_avg_diversity]. rewrite Trial_Diversity_agrees. reflexivity.
Qed.

End ExperAggrAgree.
