(* C12 for feed-forward networks with modules, fast solver side (see ModSpecC12.v), the translation of the control
   nodes by Network.FastNetworkSolver, and the agreement theorem. *)
From NeatModel Require Import Res Net Fast NetMod FastMod SolverUtil SolverSpec SolverStd SolverFast SolverBuild SolverLoad SolverMain ModSpecC12.
From Coq Require Import Reals Lra Arith Lia.
Open Scope nat_scope.

(* FastControlNode of a control node under the index map *)
Definition tr_mod (idx : nat -> nat) (c : cnode) : fmodule :=
  mkFmod (cn_act c) (map idx (cn_in c)) (map idx (cn_out c)).

Section ModFFFast.
Variable n : mnet R.
Variable known : Z -> bool.
Variable f : Z -> R -> R.
Variable mknown : Z -> bool.
Variable mf : Z -> list R -> R.
Variable dp : nat -> nat.
Variable v : nat -> R.
Variable fx : fmnet R.
Variable idx : nat -> nat.

Notation nn := (m_net n).
Notation N := (nnodes (m_net n)).
Notation fn := (fx_net fx).
Notation act := (ract known f).
Notation mact := (mract mknown mf).
Notation fstate := (fstate R).

Hypothesis FF : mffnet n known mknown dp.
Hypothesis SOL : msolves n f mf v.
Hypothesis TR : translated nn fn idx.
Hypothesis TM : fx_mods fx = map (tr_mod idx) (m_ctrl n).
Hypothesis vbias : forall p, p < N -> is_bias (role_at nn p) = true -> v p = 1%R.

Lemma OKn : net_ok nn = true.
Proof. exact (net_ok_of n known mknown dp FF). Qed.

Lemma range_known_m i : In i (neuron_range fn) -> known (nth i (f_acts fn) 0%Z) = true.
Proof.
  intros Hi. apply (in_neuron_range nn fn idx TR) in Hi. destruct (range_neuron nn fn idx TR i Hi) as (p & Hp & E & Hn).
  rewrite <- E, (tr_acts _ _ _ TR p Hp). apply (mf_known _ _ _ _ FF); assumption.
Qed.

Lemma bias_term_zero_m p : p < N -> f_bias fn = 0 -> filter (bias_src nn) (nd_in (node_at nn p)) = [].
Proof.
  intros Hp H0. destruct (filter (bias_src nn) (nd_in (node_at nn p))) as [|l rest] eqn:E; [reflexivity|].
  exfalso. assert (Hl : In l (filter (bias_src nn) (nd_in (node_at nn p)))) by (rewrite E; simpl; auto).
  apply filter_In in Hl. destruct Hl as [Hl Hb]. unfold bias_src in Hb.
  pose proof (net_ok_src nn OKn p l Hp Hl) as Hs.
  apply (tr_bias _ _ _ TR (l_src l) Hs) in Hb. lia.
Qed.

Lemma pre_activation_value_m (s : fstate) p :
  p < N -> neuronb nn p = true ->
  (forall l, In l (nd_in (node_at nn p)) -> sg s (idx (l_src l)) = v (l_src l)) ->
  (if 0 <? f_bias fn then contrib s (f_conns fn) (idx p) + nth (idx p) (f_biases fn) 0
   else contrib s (f_conns fn) (idx p))%R = wsum v (nd_in (node_at nn p)).
Proof.
  intros Hp Hn Hv.
  assert (Hc : contrib s (f_conns fn) (idx p) =
               sumf (fun l => l_w l * v (l_src l))%R (filter (nonbias_src nn) (nd_in (node_at nn p)))).
  { unfold contrib. rewrite (tr_conns _ _ _ TR p Hp Hn), sumf_map. simpl.
    apply sumf_ext. intros l Hl. apply filter_In in Hl. destruct Hl as [Hl _]. rewrite (Hv l Hl). lra. }
  assert (Hb : nth (idx p) (f_biases fn) 0%R =
               sumf (fun l => l_w l * v (l_src l))%R (filter (bias_src nn) (nd_in (node_at nn p)))).
  { rewrite (tr_biases _ _ _ TR p Hp Hn), sumf_fold_left, Rplus_0_l.
    apply sumf_ext. intros l Hl. apply filter_In in Hl. destruct Hl as [Hl Hbs].
    rewrite (vbias (l_src l)); [lra|exact (net_ok_src nn OKn p l Hp Hl)|exact Hbs]. }
  rewrite wsum_sumf, (sumf_filter_split _ (bias_src nn)).
  change (fun x => negb (bias_src nn x)) with (nonbias_src nn).
  rewrite Hc. destruct (0 <? f_bias fn) eqn:E0.
  - rewrite Hb. lra.
  - apply Nat.ltb_ge in E0. rewrite (bias_term_zero_m p Hp) by lia. simpl. lra.
Qed.

(* ----- the module loop on neuronSignalsBeingProcessed ----- *)
Definition IB (J : nat) (sig0 : list R) (pre : list cnode) (s : fstate) : Prop :=
  length (fs_bp s) = N /\ fs_sig s = sig0 /\
  (forall p, p < N -> neuronb nn p = true -> ~ is_mout n p -> dp p <= J -> bp s (idx p) = v p) /\
  (forall c, In c pre -> dp (mout c) <= J -> bp s (idx (mout c)) = v (mout c)).

Lemma modules_loop_IB J sig0 : forall rest pre (s : fstate),
  m_ctrl n = pre ++ rest -> IB J sig0 pre s ->
  exists s', modules_loop Rnum mact (map (tr_mod idx) rest) s = (s', Ok true) /\ IB J sig0 (pre ++ rest) s'.
Proof.
  induction rest as [|c rest IH]; intros pre s Hsplit HI; simpl.
  - exists s. rewrite app_nil_r. auto.
  - assert (Hc : In c (m_ctrl n)) by (rewrite Hsplit; apply in_or_app; right; simpl; auto).
    destruct HI as (LB & SG & NM & PM).
    pose proof (mout_lt n known mknown dp FF c Hc) as Hh. set (h := mout c) in *.
    pose proof (ctrl_in_range n known mknown dp FF c Hc) as [Hins _].
    unfold module_step. simpl fmd_ins. simpl fmd_act. simpl fmd_outs.
    assert (Hchk : forallb (fun i => i <? length (fs_bp s)) (map idx (cn_in c)) = true).
    { rewrite forallb_forall. intros i Hi. apply in_map_iff in Hi. destruct Hi as (q & <- & Hq).
      apply Nat.ltb_lt. rewrite LB. apply (tr_idx_lt _ _ _ TR). apply Hins. exact Hq. }
    rewrite Hchk. unfold mract at 1. rewrite (mf_mknown _ _ _ _ FF c Hc).
    rewrite (mf_one _ _ _ _ FF c Hc). fold h.
    set (y := mf (cn_act c) (map (bpF Rnum s) (map idx (cn_in c)))).
    change (map idx [h]) with [idx h]. cbn [write_outs].
    assert (Hlt : idx h <? length (fs_bp s) = true).
    { apply Nat.ltb_lt. rewrite LB. apply (tr_idx_lt _ _ _ TR). exact Hh. }
    rewrite Hlt.
    set (s' := set_bp s (idx h) y).
    assert (Hbp_h : bp s' (idx h) = y).
    { unfold bp, s', set_bp. simpl. apply nth_upd_same. apply Nat.ltb_lt in Hlt. exact Hlt. }
    assert (Hbp_o : forall q, q < N -> q <> h -> bp s' (idx q) = bp s (idx q)).
    { intros q Hq Hne. unfold bp, s', set_bp. simpl. apply nth_upd_other. intros E.
      apply (tr_idx_inj _ _ _ TR) in E; [congruence|exact Hh|exact Hq]. }
    assert (Hhm : is_mout n h) by (unfold is_mout, mouts; apply in_map; exact Hc).
    assert (HI' : IB J sig0 (pre ++ [c]) s').
    { split; [unfold s', set_bp; simpl; rewrite upd_length; exact LB|]. split; [exact SG|]. split.
      - intros p Hp Hn Hm Hd. rewrite Hbp_o; [apply NM; assumption|exact Hp|intros ->; contradiction].
      - intros c' Hc' Hd. apply in_app_or in Hc'. destruct Hc' as [Hc'|[<-|[]]].
        + assert (Hc'm : In c' (m_ctrl n)) by (rewrite Hsplit; apply in_or_app; left; exact Hc').
          rewrite Hbp_o; [apply PM; assumption|exact (mout_lt n known mknown dp FF c' Hc'm)|].
          pose proof (mf_nodup _ _ _ _ FF) as ND. rewrite Hsplit in ND. unfold mouts in ND. rewrite map_app in ND. simpl in ND.
          apply NoDup_remove_2 in ND. intros E. apply ND. apply in_or_app. left.
          fold h. rewrite <- E. apply in_map. exact Hc'.
        + fold h in Hd. fold h. rewrite Hbp_h. unfold y. change (v h) with (v (mout c)). rewrite (proj2 SOL c Hc). f_equal.
          rewrite map_map. apply map_ext_in. intros i Hi.
          change (bpF Rnum s (idx i)) with (bp s (idx i)).
          pose proof (mf_in_neuron _ _ _ _ FF c i Hc Hi) as Hin.
          pose proof (Hins i Hi) as Hilt.
          pose proof (proj2 (mf_mrank _ _ _ _ FF c Hc) i Hi) as Hid. fold h in Hid.
          destruct (is_mout_dec n i) as [Him|Him].
          * pose proof (mf_ordered _ _ _ _ FF) as Ho. rewrite Hsplit in Ho.
            pose proof (ordered_app pre c rest Ho i Hi) as Hnot.
            unfold is_mout in Him. rewrite Hsplit in Him. unfold mouts in Him. rewrite map_app in Him.
            apply in_app_or in Him. destruct Him as [Him|Him]; [|contradiction].
            apply in_map_iff in Him. destruct Him as (c'' & <- & Hc''). apply PM; [exact Hc''|lia].
          * apply NM; try assumption. lia. }
    destruct (IH (pre ++ [c]) s') as (s'' & E & HI'').
    + rewrite <- app_assoc. exact Hsplit.
    + exact HI'.
    + exists s''. split; [exact E|]. rewrite <- app_assoc in HI''. exact HI''.
Qed.

(* ----- one forwardStep ----- *)
Lemma mforward_step_FFin d j (s : fstate) :
  FFin nn dp v fn idx j s ->
  exists s' r, mforward_step Rnum act mact fx d s = (s', Ok r) /\ FFin nn dp v fn idx (S j) s' /\
               (fleb Rnum d (fzero Rnum) = true -> r = true).
Proof.
  intros HF. pose proof HF as [((LS & LB) & BZ & SV) NV].
  unfold mforward_step.
  destruct (fold_conn_step_spec (f_conns fn) s) as (A1 & A2 & A3 & A4).
  set (s1 := fold_left (conn_step Rnum) (f_conns fn) s) in *.
  rewrite (fs_activate_pure known f fn (neuron_range fn) s1 range_known_m).
  assert (ND : NoDup (neuron_range fn)) by apply seq_NoDup.
  destruct (fold_actv_pure_spec f fn (neuron_range fn) s1 ND) as (B1 & B2 & B3 & B4 & B5).
  set (s2 := fold_left (actv_pure f fn) (neuron_range fn) s1) in *.
  (* sources of the ordinary neurons of depth <= j+1 carry their values *)
  assert (Hsrc : forall p l, p < N -> neuronb nn p = true -> ~ is_mout n p -> dp p <= S j ->
                 In l (nd_in (node_at nn p)) -> sg s (idx (l_src l)) = v (l_src l)).
  { intros p l Hp Hn Hm Hd Hl. pose proof (net_ok_src nn OKn p l Hp Hl) as Hs.
    destruct (sensor_or_neuron nn (l_src l)) as [Hse|Hne]; [apply SV; assumption|].
    apply NV; try assumption. pose proof (mf_rank _ _ _ _ FF p l Hp Hn Hm Hl). lia. }
  assert (HI0 : IB (S j) (fs_sig s) [] s2).
  { split; [congruence|]. split; [congruence|]. split; [|intros c []].
    intros p Hp Hn Hm Hd.
    pose proof (neuron_in_range nn fn idx TR p Hp Hn) as Hi. pose proof Hi as [Hi1 Hi2].
    rewrite B5; [|apply (in_neuron_range nn fn idx TR); exact Hi|congruence].
    unfold pre_act. rewrite A4 by lia. rewrite (BZ _ Hi), (tr_acts _ _ _ TR p Hp).
    pose proof (pre_activation_value_m s p Hp Hn (fun l Hl => Hsrc p l Hp Hn Hm Hd Hl)) as Hpre.
    rewrite (proj1 SOL p Hp Hn Hm). f_equal.
    destruct (0 <? f_bias fn); rewrite <- Hpre; lra. }
  rewrite TM.
  destruct (modules_loop_IB (S j) (fs_sig s) (m_ctrl n) [] s2 eq_refl HI0) as (s3 & E3 & (LB3 & SG3 & NM3 & PM3)).
  rewrite E3. simpl app in *.
  assert (Hall : forall p, p < N -> neuronb nn p = true -> dp p <= S j -> bp s3 (idx p) = v p).
  { intros p Hp Hn Hd. destruct (is_mout_dec n p) as [Hm|Hm].
    - destruct (is_mout_inv n p Hm) as (c & Hc & <-). apply PM3; assumption.
    - apply NM3; assumption. }
  destruct (fs_commit_spec (neuron_range fn) s3 ND) as (C1 & C2 & C3 & C4 & C5).
  assert (LS3 : length (fs_sig s3) = N) by (rewrite SG3; exact LS).
  assert (Hfinal : forall s4, s4 = fs_commit Rnum (neuron_range fn) s3 -> FFin nn dp v fn idx (S j) s4).
  { intros s4 ->. split; [split; [split; congruence|split]|].
    - intros i Hi. pose proof Hi as [Hi1 Hi2]. apply (in_neuron_range nn fn idx TR) in Hi.
      destruct (C5 i Hi) as [_ D]; [lia|lia|exact D].
    - intros p Hp Hs. destruct (C4 (idx p)) as [D _].
      { rewrite (in_neuron_range nn fn idx TR). apply (sensor_not_in_range nn fn idx TR); assumption. }
      rewrite D. unfold sg. rewrite SG3. apply SV; assumption.
    - intros p Hp Hn Hd. pose proof (neuron_in_range nn fn idx TR p Hp Hn) as Hi. pose proof Hi as [Hi1 Hi2].
      apply (in_neuron_range nn fn idx TR) in Hi.
      destruct (C5 _ Hi) as [D _]; [lia|lia|]. rewrite D. apply Hall; assumption. }
  destruct (fleb Rnum d (fzero Rnum)) eqn:Ed.
  - exists (fs_commit Rnum (neuron_range fn) s3), true. split; [reflexivity|]. split; [apply Hfinal; reflexivity|reflexivity].
  - pose proof (fs_commit_delta_fst d (neuron_range fn) true s3) as Hd.
    destruct (fs_commit_delta Rnum d (neuron_range fn) true s3) as [s4 r]. simpl in Hd.
    exists s4, r. split; [reflexivity|]. split; [apply Hfinal; exact Hd|discriminate].
Qed.

Lemma FFin_zero_m (s : fstate) : fbase nn v fn idx s -> FFin nn dp v fn idx 0 s.
Proof.
  intros B. split; [exact B|]. intros p Hp Hn Hd.
  pose proof (no_depth_zero n known mknown dp FF p Hp Hn). lia.
Qed.

Lemma mff_loop_FFin it : forall j (s : fstate) last,
  FFin nn dp v fn idx j s ->
  exists s', mff_loop Rnum act mact fx it last s = (s', Ok (if it =? 0 then last else true)) /\
             FFin nn dp v fn idx (j + it) s'.
Proof.
  induction it as [|it IH]; intros j s last HF; cbn [mff_loop Nat.eqb].
  - exists s. rewrite Nat.add_0_r. split; [reflexivity|exact HF].
  - destruct (mforward_step_FFin (fzero Rnum) j s HF) as (s1 & r & E & HF1 & Hr). rewrite E.
    rewrite (Hr fleb_zero_zero).
    destruct (IH (S j) s1 true HF1) as (s' & E' & HF').
    exists s'. split; [|replace (j + S it) with (S j + it) by lia; exact HF'].
    rewrite E'. destruct (it =? 0); reflexivity.
Qed.

Lemma outputs_FFin_m j (s : fstate) :
  FFin nn dp v fn idx j s -> (forall o, In o (outputs nn) -> dp o <= j) ->
  mfast_outputs Rnum fx s = map v (outputs nn).
Proof.
  intros [B NV] Hd. unfold mfast_outputs, fast_outputs. rewrite (tr_out _ _ _ TR).
  apply map_seq_nth. intros i Hi.
  rewrite <- (tr_outs _ _ _ TR i Hi).
  assert (Ho : In (nth i (outputs nn) 0) (outputs nn)) by (apply nth_In; exact Hi).
  apply NV.
  - exact (net_ok_outputs nn OKn _ Ho).
  - exact (mf_outs _ _ _ _ FF _ Ho).
  - apply Hd. exact Ho.
Qed.

Theorem mfast_forward_from_base (k : Z) (s : fstate) :
  fbase nn v fn idx s -> (forall o, In o (outputs nn) -> (Z.of_nat (dp o) <= k)%Z) ->
  exists s' r, mfast_forward Rnum act mact fx k s = (s', Ok r) /\ mfast_outputs Rnum fx s' = map v (outputs nn).
Proof.
  intros B Hk. unfold mfast_forward.
  destruct (mff_loop_FFin (Z.to_nat k) 0 s false (FFin_zero_m s B)) as (s' & E & HF).
  exists s'. eexists. split; [exact E|].
  apply (outputs_FFin_m _ _ HF). intros o Ho. specialize (Hk o Ho). simpl. lia.
Qed.

End ModFFFast.

(* ======================= the translation of the control nodes ======================= *)
Section ModBuild.
Variable n : mnet R.
Notation nn := (m_net n).
Notation N := (nnodes (m_net n)).
Hypothesis OK : mnet_ok n = true.
Hypothesis outs_nodup : NoDup (outputs nn).
Hypothesis outs_exact : forall o, In o (outputs nn) <-> (o < N /\ is_output (role_at nn o) = true).

Lemma OKnet : net_ok nn = true.
Proof. unfold mnet_ok in OK. apply andb_true_iff in OK. apply OK. Qed.

Lemma net_lookup_idxf : exists k, net_lookup nn = Ok k /\ forall q, q < N -> find_idx k q = Some (idxf nn q).
Proof.
  destruct (process_list_spec nn N (order nn) 0 (repeat 0%Z N) [] (order_nodup nn outs_nodup outs_exact))
    as (a4 & k4 & E & LA & A & K1 & _).
  { rewrite (order_length nn outs_nodup outs_exact). lia. }
  { apply repeat_length. }
  unfold order in E at 1. rewrite process_list_app in E.
  apply passthru_ok in E. destruct E as ([[i1 a1] k1] & E1 & E).
  rewrite process_list_app in E. apply passthru_ok in E. destruct E as ([[i2 a2] k2] & E2 & E).
  rewrite process_list_app in E. apply passthru_ok in E. destruct E as ([[i3 a3] k3] & E3 & E).
  exists k4. split.
  - unfold net_lookup. rewrite E1, E2, E3, E. reflexivity.
  - intros q Hq. rewrite K1 by (apply (order_in nn outs_exact); exact Hq). reflexivity.
Qed.

Lemma lookup_all_idxf k code ps :
  (forall q, q < N -> find_idx k q = Some (idxf nn q)) -> (forall p, In p ps -> p < N) ->
  lookup_all k code ps = Ok (map (idxf nn) ps).
Proof.
  intros LK. induction ps as [|p rest IH]; intros Hlt; simpl; [reflexivity|].
  rewrite (LK p) by (apply Hlt; simpl; auto). rewrite IH by (intros q Hq; apply Hlt; simpl; auto). reflexivity.
Qed.

Lemma mods_of_idxf k cs :
  (forall q, q < N -> find_idx k q = Some (idxf nn q)) ->
  (forall c, In c cs -> (forall p, In p (cn_in c) -> p < N) /\ (forall p, In p (cn_out c) -> p < N)) ->
  mods_of k cs = Ok (map (tr_mod (idxf nn)) cs).
Proof.
  intros LK. induction cs as [|c rest IH]; intros Hlt; simpl; [reflexivity|].
  destruct (Hlt c (or_introl eq_refl)) as [H1 H2].
  rewrite (lookup_all_idxf k _ _ LK H1), (lookup_all_idxf k _ _ LK H2).
  rewrite IH by (intros c' Hc'; apply Hlt; simpl; auto). reflexivity.
Qed.

Theorem fast_of_net_mod_translated :
  exists fx, fast_of_net_mod Rnum n = Ok fx /\ translated nn (fx_net fx) (idxf nn) /\
             fx_mods fx = map (tr_mod (idxf nn)) (m_ctrl n).
Proof.
  destruct (fast_of_net_translated nn OKnet outs_nodup outs_exact) as (fn & Efn & TR).
  destruct net_lookup_idxf as (k & Ek & LK).
  eexists. split; [|split].
  - unfold fast_of_net_mod. rewrite Efn, Ek. rewrite (mods_of_idxf k (m_ctrl n) LK).
    + reflexivity.
    + intros c Hc. pose proof OK as H. unfold mnet_ok in H. apply andb_true_iff in H. destruct H as [_ H].
      rewrite forallb_forall in H. specialize (H c Hc). apply andb_true_iff in H. destruct H as [H1 H2].
      rewrite forallb_forall in H1. rewrite forallb_forall in H2.
      split; intros p Hp; apply Nat.ltb_lt; auto.
  - exact TR.
  - reflexivity.
Qed.

End ModBuild.

(* ======================= the agreement theorem ======================= *)
Section ModC12.
Variable n : mnet R.
Variable known : Z -> bool.
Variable f : Z -> R -> R.
Variable mknown : Z -> bool.
Variable mf : Z -> list R -> R.
Variable dp : nat -> nat.
Variable v : nat -> R.
Notation nn := (m_net n).
Notation N := (nnodes (m_net n)).

Hypothesis FF : mffnet n known mknown dp.
Hypothesis SOL : msolves n f mf v.
Hypothesis outs_nodup : NoDup (outputs nn).
Hypothesis outs_exact : forall o, In o (outputs nn) <-> (o < N /\ is_output (role_at nn o) = true).
Hypothesis inputs_in_order : inputs nn = positions_with nn is_sensor.
Variable x : list R.
Hypothesis SV : sensor_vals nn x v.
Hypothesis Hx : length x = length (positions_with nn is_input).
Variable k : Z.
Hypothesis k_pos : (1 <= k)%Z.
Hypothesis k_depth : forall o, In o (outputs nn) -> (Z.of_nat (dp o) <= k)%Z.

Theorem mod_std_forward :
  exists st1 st2,
    mstd_load Rnum n x (mstd_init Rnum n) = (st1, Ok true) /\
    mstd_forward Rnum (ract known f) (mract mknown mf) n k st1 = (st2, Ok true) /\
    mstd_outputs Rnum n st2 = map v (outputs nn).
Proof.
  destruct (std_load_base nn x v inputs_in_order SV Hx) as (s1 & E1 & B).
  exists (with_s (mstd_init Rnum n) s1).
  destruct (mstd_forward_from_base n known f mknown mf dp v FF SOL k k_pos k_depth (with_s (mstd_init Rnum n) s1) B)
    as (st2 & E2 & O2).
  exists st2. split; [|split; [exact E2|exact O2]].
  unfold mstd_load. simpl ms_s. change (std_init Rnum (m_net n)) with (std_init Rnum nn). rewrite E1. reflexivity.
Qed.

Theorem mod_fast_forward :
  exists fx t1 t2 r,
    fast_of_net_mod Rnum n = Ok fx /\
    fast_load Rnum (fx_net fx) x (mfast_init Rnum fx) = (t1, Ok true) /\
    mfast_forward Rnum (ract known f) (mract mknown mf) fx k t1 = (t2, Ok r) /\
    mfast_outputs Rnum fx t2 = map v (outputs nn).
Proof.
  destruct (fast_of_net_mod_translated n (mf_ok _ _ _ _ FF) outs_nodup outs_exact) as (fx & Efx & TR & TM).
  destruct (fast_load_base nn v (fx_net fx) x TR SV Hx) as (t1 & E1 & B & _ & _).
  destruct (mfast_forward_from_base n known f mknown mf dp v fx (idxf nn) FF SOL TR TM (proj1 SV) k t1 B k_depth)
    as (t2 & r & E2 & O2).
  exists fx, t1, t2, r. auto.
Qed.

(* hence the two solvers agree *)
Theorem mod_solvers_agree :
  exists st1 st2 fx t1 t2 r,
    mstd_load Rnum n x (mstd_init Rnum n) = (st1, Ok true) /\
    mstd_forward Rnum (ract known f) (mract mknown mf) n k st1 = (st2, Ok true) /\
    fast_of_net_mod Rnum n = Ok fx /\
    fast_load Rnum (fx_net fx) x (mfast_init Rnum fx) = (t1, Ok true) /\
    mfast_forward Rnum (ract known f) (mract mknown mf) fx k t1 = (t2, Ok r) /\
    mstd_outputs Rnum n st2 = mfast_outputs Rnum fx t2 /\
    mstd_outputs Rnum n st2 = map v (outputs nn).
Proof.
  destruct mod_std_forward as (st1 & st2 & A1 & A2 & A3).
  destruct mod_fast_forward as (fx & t1 & t2 & r & B1 & B2 & B3 & B4).
  exists st1, st2, fx, t1, t2, r. repeat split; try assumption. congruence.
Qed.

End ModC12.
