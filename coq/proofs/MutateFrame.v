(* C05, parametric mutators: weight, trait, toggle-enable and re-enable mutations never change the
   node set, gene endpoints or innovation numbers; what each of them may change; toggle-enable keeps
   the last enabled gene leaving a node; re-enable enables exactly the first disabled gene. *)
From NeatModel Require Import Res F64 GoRand Genome Options Insert Mutate MutateMonad.
From Coq Require Import Lia.

(* ---------- list facts ---------- *)
Lemma set_nth_length {A} (l : list A) : forall k y, length (set_nth l k y) = length l.
Proof. induction l as [|a l IH]; intros [|k] y; cbn; auto. Qed.

Lemma set_nth_Forall2 {A} (R : A -> A -> Prop) (Hrefl : forall z, R z z) (l : list A) :
  forall k x y, nth_error l k = Some x -> R x y -> Forall2 R l (set_nth l k y).
Proof.
  assert (Hr : forall m : list A, Forall2 R m m) by (induction m; constructor; auto).
  induction l as [|a l IH]; intros [|k] x y Hn Hxy; cbn in *; try discriminate.
  - injection Hn as ->. constructor; auto.
  - constructor; [apply Hrefl|]. eapply IH; eauto.
Qed.

Lemma set_nth_In {A} (l : list A) : forall k y z, In z (set_nth l k y) -> z = y \/ In z l.
Proof.
  induction l as [|a l IH]; intros [|k] y z H; cbn in *; auto.
  - destruct H as [<-|H]; auto.
  - destruct H as [<-|H]; auto. destruct (IH _ _ _ H); auto.
Qed.

Lemma set_nth_keeps {A} (l : list A) : forall k x y c,
    nth_error l k = Some x -> In c l -> c <> x -> In c (set_nth l k y).
Proof.
  induction l as [|a l IH]; intros [|k] x y c Hn Hc Hne; cbn in *; try discriminate; auto.
  - injection Hn as ->. destruct Hc as [->|Hc]; [congruence|now right].
  - destruct Hc as [->|Hc]; [now left|right; eapply IH; eauto].
Qed.

Lemma set_nth_has {A} (l : list A) : forall k x y, nth_error l k = Some x -> In y (set_nth l k y).
Proof.
  induction l as [|a l IH]; intros [|k] x y Hn; cbn in *; try discriminate; auto.
  right. eapply IH; eauto.
Qed.

Lemma set_nth_split {A} (l : list A) : forall k x y, nth_error l k = Some x ->
    l = firstn k l ++ x :: skipn (S k) l /\ set_nth l k y = firstn k l ++ y :: skipn (S k) l.
Proof.
  induction l as [|a l IH]; intros [|k] x y Hn; cbn in *; try discriminate.
  - injection Hn as ->. auto.
  - destruct (IH _ _ y Hn) as [E1 E2]. split; [now rewrite <- E1|now rewrite E2].
Qed.

Lemma Forall2_refl {A} (R : A -> A -> Prop) : (forall x, R x x) -> forall l, Forall2 R l l.
Proof. intros H. induction l; constructor; auto. Qed.

Lemma Forall2_trans {A} (R : A -> A -> Prop) :
  (forall x y z, R x y -> R y z -> R x z) -> forall a b c, Forall2 R a b -> Forall2 R b c -> Forall2 R a c.
Proof.
  intros Ht a b c H. revert c. induction H as [|x y a b Hxy Hab IH]; intros c Hc; inversion Hc; subst; constructor; eauto.
Qed.

Lemma Forall2_map_eq {A B} (f : A -> B) (R : A -> A -> Prop) :
  (forall x y, R x y -> f y = f x) -> forall l l', Forall2 R l l' -> map f l' = map f l.
Proof. intros Hf l l' H. induction H; cbn; [reflexivity|]. f_equal; auto. Qed.

Lemma Forall2_length' {A} (R : A -> A -> Prop) l l' : Forall2 R l l' -> length l' = length l.
Proof. induction 1; cbn; auto. Qed.

Lemma Forall2_In_l {A} (R : A -> A -> Prop) l l' x : Forall2 R l l' -> In x l -> exists y, In y l' /\ R x y.
Proof.
  induction 1 as [|a b l l' Hab H IH]; intros Hin; [destruct Hin|].
  destruct Hin as [<-|Hin]; [exists b; split; [now left|assumption]|].
  destruct (IH Hin) as (y & Hy & Hr). exists y. split; [now right|assumption].
Qed.

(* ---------- the relations ---------- *)
(* what no parametric mutation may change *)
Definition node_sig (n : node) := (n_id n, n_type n, n_act n).
Definition gene_sig (x : gene) := (g_in x, g_out x, g_rec x, g_innov x).

Definition frame (g g' : genome) : Prop :=
  map node_sig (nodes g') = map node_sig (nodes g) /\
  map gene_sig (genes g') = map gene_sig (genes g) /\
  map t_id (traits g') = map t_id (traits g) /\
  gid g' = gid g /\ modules g' = modules g.

Lemma frame_refl g : frame g g.
Proof. unfold frame. auto. Qed.

Lemma frame_trans a b c : frame a b -> frame b c -> frame a c.
Proof.
  unfold frame. intros (A1 & A2 & A3 & A4 & A5) (B1 & B2 & B3 & B4 & B5).
  repeat split; congruence.
Qed.

Definition reweighted (x x' : gene) : Prop := exists w, x' = set_w w x.
Definition gene_retraited (ts : list trait) (x x' : gene) : Prop :=
  x' = x \/ exists t, In t ts /\ x' = set_gtrait (Some (t_id t)) x.
Definition node_retraited (ts : list trait) (n n' : node) : Prop :=
  n' = n \/ exists t, In t ts /\ n' = set_ntrait (Some (t_id t)) n.
Definition maybe_disabled (x x' : gene) : Prop := x' = x \/ (g_en x = true /\ x' = set_en false x).

Lemma reweighted_sig x x' : reweighted x x' -> gene_sig x' = gene_sig x.
Proof. intros [w ->]. reflexivity. Qed.
Lemma gene_retraited_sig ts x x' : gene_retraited ts x x' -> gene_sig x' = gene_sig x.
Proof. intros [->|(t & _ & ->)]; reflexivity. Qed.
Lemma node_retraited_sig ts n n' : node_retraited ts n n' -> node_sig n' = node_sig n.
Proof. intros [->|(t & _ & ->)]; reflexivity. Qed.
Lemma maybe_disabled_sig x x' : maybe_disabled x x' -> gene_sig x' = gene_sig x.
Proof. intros [->|(_ & ->)]; reflexivity. Qed.

Lemma gene_retraited_trans ts x y z : gene_retraited ts x y -> gene_retraited ts y z -> gene_retraited ts x z.
Proof.
  intros [->|(t & Ht & ->)] [->|(u & Hu & ->)]; try (now left); try (right; now exists t).
  - right; now exists u.
  - right. exists u. split; [assumption|reflexivity].
Qed.
Lemma node_retraited_trans ts x y z : node_retraited ts x y -> node_retraited ts y z -> node_retraited ts x z.
Proof.
  intros [->|(t & Ht & ->)] [->|(u & Hu & ->)]; try (now left); try (right; now exists t).
  - right; now exists u.
  - right. exists u. split; [assumption|reflexivity].
Qed.
Lemma maybe_disabled_trans x y z : maybe_disabled x y -> maybe_disabled y z -> maybe_disabled x z.
Proof.
  intros [->|(Hx & ->)] [->|(Hy & ->)]; try (now left); try (right; now split).
Qed.

(* ---------- Trait.Mutate / mutateRandomTrait ---------- *)
Lemma ep_mutate_param pw pr p : env_pres (mutate_param pw pr p).
Proof. unfold mutate_param. ep. Qed.

Lemma ep_trait_mutate pw pr t : env_pres (trait_mutate pw pr t).
Proof. unfold trait_mutate. apply ep_bind; [|intros ?; apply ep_ret]. apply ep_mapM. intros x. apply ep_mutate_param. Qed.
#[export] Hint Resolve ep_trait_mutate : ep.

Lemma mapM_length {A B} (f : A -> @M st B) : forall l s l' s', mapM f l s = Ok (l', s') -> length l' = length l.
Proof.
  induction l as [|x l IH]; intros s l' s' H; cbn [mapM] in H; minv.
  - subst. reflexivity.
  - subst. cbn. f_equal. eapply IH; eauto.
Qed.

Lemma trait_mutate_inv pw pr t s t' s' :
  trait_mutate pw pr t s = Ok (t', s') -> t_id t' = t_id t /\ length (t_params t') = length (t_params t).
Proof.
  unfold trait_mutate. intros H. minv. subst. cbn. split; [reflexivity|]. eapply mapM_length; eauto.
Qed.

Lemma map_set_nth_same {A B} (f : A -> B) (l : list A) : forall k x y,
    nth_error l k = Some x -> f y = f x -> map f (set_nth l k y) = map f l.
Proof.
  induction l as [|a l IH]; intros [|k] x y Hn Hf; cbn in *; try discriminate; auto.
  - injection Hn as ->. now rewrite Hf.
  - f_equal. eapply IH; eauto.
Qed.

Lemma ep_random_trait o g : env_pres (mutate_random_trait o g).
Proof. unfold mutate_random_trait. destruct (traits g); ep. Qed.

Lemma random_trait_spec o g s g' b s' :
  mutate_random_trait o g s = Ok ((g', b), s') ->
  frame g g' /\ nodes g' = nodes g /\ genes g' = genes g /\
  (exists k t t', nth_error (traits g) k = Some t /\ traits g' = set_nth (traits g) k t' /\
                  t_id t' = t_id t /\ length (t_params t') = length (t_params t)) /\
  b = true /\ s_env s' = s_env s.
Proof.
  unfold mutate_random_trait. intros H.
  pose proof (ep_random_trait o g _ _ _ H) as Henv.
  destruct (traits g) as [|t0 ts] eqn:Et; minv. pairs. subst.
  apply idx_inv in E0. destruct E0 as [_ Hn].
  apply trait_mutate_inv in E1. destruct E1 as [Hid Hlen].
  unfold frame. cbn. rewrite Et.
  repeat split; auto.
  - eapply (map_set_nth_same t_id (t0 :: ts)); eauto.
  - exists (Z.to_nat a), a0, a1. auto.
Qed.

(* ---------- mutateLinkTrait / mutateNodeTrait ---------- *)
Lemma nth_error_In' {A} (l : list A) k x : nth_error l k = Some x -> In x l.
Proof. apply nth_error_In. Qed.

Lemma link_trait_loop_spec : forall times g s g' s',
    mutate_link_trait_loop times g s = Ok (g', s') ->
    g' = with_genes g (genes g') /\ Forall2 (gene_retraited (traits g)) (genes g) (genes g') /\ s_env s' = s_env s.
Proof.
  induction times as [|n IH]; intros g s g' s' H; cbn [mutate_link_trait_loop] in H.
  - minv. subst. repeat split; [now destruct g'|apply Forall2_refl; now left].
  - minv. subst.
    apply idx_inv in E1, E2. destruct E1 as [_ Ht], E2 as [_ Hx].
    apply IH in H. cbn in H. destruct H as (Hg & HF & He).
    split; [rewrite Hg; reflexivity|]. split.
    + eapply Forall2_trans; [apply gene_retraited_trans| |exact HF].
      eapply set_nth_Forall2; [now left|exact Hx|].
      right. exists a1. split; [eapply nth_error_In; eauto|reflexivity].
    + rewrite He. rewrite (ep_intn _ _ _ _ E0). exact (ep_intn _ _ _ _ E).
Qed.

Lemma link_trait_spec times g s g' b s' :
  mutate_link_trait times g s = Ok ((g', b), s') ->
  frame g g' /\ nodes g' = nodes g /\ traits g' = traits g /\
  Forall2 (gene_retraited (traits g)) (genes g) (genes g') /\ b = true /\ s_env s' = s_env s.
Proof.
  unfold mutate_link_trait. intros H.
  destruct (traits g) eqn:Et; [minv|]. destruct (genes g) eqn:Eg; [minv|].
  minv. pairs. subst. apply link_trait_loop_spec in E. destruct E as (Hg & HF & He).
  rewrite Et, Eg in HF.
  assert (Hn : nodes g' = nodes g) by (rewrite Hg; reflexivity).
  assert (Htr : traits g' = traits g) by (rewrite Hg; reflexivity).
  repeat split; auto; try (rewrite Hg; reflexivity); try congruence.
  rewrite Eg. eapply Forall2_map_eq; [|exact HF]. intros x y. apply gene_retraited_sig.
Qed.

Lemma node_trait_loop_spec : forall times g s g' s',
    mutate_node_trait_loop times g s = Ok (g', s') ->
    g' = with_nodes g (nodes g') /\ Forall2 (node_retraited (traits g)) (nodes g) (nodes g') /\ s_env s' = s_env s.
Proof.
  induction times as [|n IH]; intros g s g' s' H; cbn [mutate_node_trait_loop] in H.
  - minv. subst. repeat split; [now destruct g'|apply Forall2_refl; now left].
  - minv. subst.
    apply idx_inv in E1, E2. destruct E1 as [_ Ht], E2 as [_ Hx].
    apply IH in H. cbn in H. destruct H as (Hg & HF & He).
    split; [rewrite Hg; reflexivity|]. split.
    + eapply Forall2_trans; [apply node_retraited_trans| |exact HF].
      eapply set_nth_Forall2; [now left|exact Hx|].
      right. exists a1. split; [eapply nth_error_In; eauto|reflexivity].
    + rewrite He. rewrite (ep_intn _ _ _ _ E0). exact (ep_intn _ _ _ _ E).
Qed.

Lemma node_trait_spec times g s g' b s' :
  mutate_node_trait times g s = Ok ((g', b), s') ->
  frame g g' /\ genes g' = genes g /\ traits g' = traits g /\
  Forall2 (node_retraited (traits g)) (nodes g) (nodes g') /\ b = true /\ s_env s' = s_env s.
Proof.
  unfold mutate_node_trait. intros H.
  destruct (traits g) eqn:Et; [minv|]. destruct (nodes g) eqn:En; [minv|].
  minv. pairs. subst. apply node_trait_loop_spec in E. destruct E as (Hg & HF & He).
  rewrite Et, En in HF.
  assert (Hn : genes g' = genes g) by (rewrite Hg; reflexivity).
  assert (Htr : traits g' = traits g) by (rewrite Hg; reflexivity).
  repeat split; auto; try (rewrite Hg; reflexivity); try congruence.
  rewrite En. eapply Forall2_map_eq; [|exact HF]. intros x y. apply node_retraited_sig.
Qed.

(* ---------- mutateLinkWeights ---------- *)
Lemma ep_one_weight pw rt ga sv c e n x : env_pres (mutate_one_weight pw rt ga sv c e n x).
Proof.
  unfold mutate_one_weight. apply ep_bind.
  - destruct sv; [apply ep_ret|]. destruct (_ && _); ep.
  - intros [gp cgp]. ep.
Qed.

Lemma one_weight_inv pw rt ga sv c e n x s x' s' :
  mutate_one_weight pw rt ga sv c e n x s = Ok (x', s') -> reweighted x x'.
Proof.
  unfold mutate_one_weight. intros H. minv. destruct a as [gp cgp]. minv.
  destruct ga; minv;
    repeat match goal with H : (if ?c then _ else _) _ = Ok _ |- _ => destruct c; minv end;
    subst; eexists; reflexivity.
Qed.

Lemma weights_loop_spec pw rt ga sv c e : forall l n s l' s',
    mutate_weights_loop pw rt ga sv c e n l s = Ok (l', s') -> Forall2 reweighted l l' /\ s_env s' = s_env s.
Proof.
  induction l as [|x l IH]; intros n s l' s' H; cbn [mutate_weights_loop] in H; minv; subst.
  - split; [constructor|reflexivity].
  - apply IH in E0. destruct E0 as [HF He]. split.
    + constructor; [eapply one_weight_inv; eauto|assumption].
    + rewrite He. exact (ep_one_weight _ _ _ _ _ _ _ _ _ _ _ E).
Qed.

Lemma link_weights_spec pw rt ga g s g' b s' :
  mutate_link_weights pw rt ga g s = Ok ((g', b), s') ->
  frame g g' /\ nodes g' = nodes g /\ traits g' = traits g /\
  Forall2 reweighted (genes g) (genes g') /\ b = true /\ s_env s' = s_env s.
Proof.
  unfold mutate_link_weights. intros H. destruct (genes g) eqn:Eg; [minv|].
  minv. pairs. subst. apply weights_loop_spec in E0. destruct E0 as [HF He].
  unfold frame. cbn. rewrite Eg. repeat split; auto.
  - eapply Forall2_map_eq; [|exact HF]. apply reweighted_sig.
  - rewrite He. exact (ep_float64 _ _ _ E).
Qed.

(* ---------- mutateToggleEnable ---------- *)
Definition has_enabled_out (gs : list gene) (a : Z) : Prop := exists x, In x gs /\ g_in x = a /\ g_en x = true.

Lemma toggle_loop_spec : forall times g s g' s',
    toggle_loop times g s = Ok (g', s') ->
    g' = with_genes g (genes g') /\ Forall2 maybe_disabled (genes g) (genes g') /\
    (forall a, has_enabled_out (genes g) a -> has_enabled_out (genes g') a) /\ s_env s' = s_env s.
Proof.
  induction times as [|n IH]; intros g s g' s' H; cbn [toggle_loop] in H.
  - minv. subst. repeat split; [now destruct g'|apply Forall2_refl; now left|auto].
  - minv. subst. apply idx_inv in E0. destruct E0 as [_ Hx].
    apply IH in H. destruct H as (Hg & HF & Hout & He).
    assert (Henv : s_env s' = s_env s) by (rewrite He; exact (ep_intn _ _ _ _ E)).
    destruct (g_en a0 && existsb _ (genes g)) eqn:Ec; [|now repeat split].
    apply andb_true_iff in Ec. destruct Ec as [Hen Hex].
    apply existsb_exists in Hex. destruct Hex as (c & Hc & Hcc).
    apply andb_true_iff in Hcc. destruct Hcc as [Hcc Hinn]. apply andb_true_iff in Hcc. destruct Hcc as [Hin Hcen].
    apply Z.eqb_eq in Hin. apply negb_true_iff, Z.eqb_neq in Hinn.
    cbn in Hg, HF, Hout.
    split; [rewrite Hg; reflexivity|]. split; [|split; [|exact Henv]].
    + eapply Forall2_trans; [apply maybe_disabled_trans| |exact HF].
      eapply set_nth_Forall2; [now left|exact Hx|]. right. now split.
    + intros n0 (y & Hy & Hyin & Hyen). apply Hout.
      destruct (Z.eq_dec (g_innov y) (g_innov a0)) as [Heq|Hne].
      * (* y may be the gene that was switched off: c still leaves the same node *)
        assert (Hya : g_in y = g_in a0 -> has_enabled_out (set_nth (genes g) (Z.to_nat a) (set_en false a0)) n0).
        { intros Hsame. exists c. repeat split; [|congruence|assumption].
          eapply set_nth_keeps; eauto. intros ->. congruence. }
        destruct (Z.eq_dec (g_in y) (g_in a0)) as [Hsame|Hdiff]; [now apply Hya|].
        exists y. repeat split; try assumption.
        eapply set_nth_keeps; eauto. intros ->. congruence.
      * exists y. repeat split; try assumption.
        eapply set_nth_keeps; eauto. intros ->. congruence.
Qed.

Lemma toggle_spec times g s g' b s' :
  mutate_toggle_enable times g s = Ok ((g', b), s') ->
  frame g g' /\ nodes g' = nodes g /\ traits g' = traits g /\
  Forall2 maybe_disabled (genes g) (genes g') /\
  (forall a, has_enabled_out (genes g) a -> has_enabled_out (genes g') a) /\
  b = true /\ s_env s' = s_env s.
Proof.
  unfold mutate_toggle_enable. intros H. destruct (genes g) eqn:Eg; [minv|].
  minv. pairs. subst. apply toggle_loop_spec in E. rewrite Eg in E. destruct E as (Hg & HF & Hout & He).
  assert (Hn : nodes g' = nodes g) by (rewrite Hg; reflexivity).
  assert (Htr : traits g' = traits g) by (rewrite Hg; reflexivity).
  repeat split; auto; try (rewrite Hg; reflexivity); try congruence.
  rewrite Eg. eapply Forall2_map_eq; [|exact HF]. apply maybe_disabled_sig.
Qed.

(* ---------- mutateGeneReEnable ---------- *)
Lemma reenable_first_spec : forall l,
    (Forall (fun x => g_en x = true) l /\ reenable_first l = l) \/
    (exists l1 x l2, l = l1 ++ x :: l2 /\ Forall (fun y => g_en y = true) l1 /\ g_en x = false /\
                     reenable_first l = l1 ++ set_en true x :: l2).
Proof.
  induction l as [|x l IH]; [left; split; [constructor|reflexivity]|].
  cbn [reenable_first]. destruct (g_en x) eqn:Ex.
  - destruct IH as [[HF He]|(l1 & y & l2 & -> & HF & Hy & He)].
    + left. split; [now constructor|now rewrite He].
    + right. exists (x :: l1), y, l2. rewrite He. repeat split; auto.
  - right. exists [], x, l. repeat split; auto.
Qed.

Lemma reenable_first_sig l : map gene_sig (reenable_first l) = map gene_sig l.
Proof.
  induction l as [|x l IH]; [reflexivity|]. cbn [reenable_first]. destruct (g_en x); cbn; [now rewrite IH|reflexivity].
Qed.

Lemma reenable_spec g s g' b s' :
  mutate_gene_reenable g s = Ok ((g', b), s') ->
  frame g g' /\ nodes g' = nodes g /\ traits g' = traits g /\
  ((Forall (fun x => g_en x = true) (genes g) /\ genes g' = genes g) \/
   (exists l1 x l2, genes g = l1 ++ x :: l2 /\ Forall (fun y => g_en y = true) l1 /\ g_en x = false /\
                    genes g' = l1 ++ set_en true x :: l2)) /\
  b = true /\ s' = s.
Proof.
  unfold mutate_gene_reenable. intros H. destruct (genes g) eqn:Eg; [minv|].
  minv. pairs. subst. unfold frame. cbn. rewrite Eg. repeat split; auto.
  - exact (reenable_first_sig (g0 :: l)).
  - exact (reenable_first_spec (g0 :: l)).
Qed.

(* ---------- mutateAllNonstructural ---------- *)
Lemma step_if_frame p op g0 (gb : genome * bool) s r s' :
  (forall g s g' b s', op g s = Ok ((g', b), s') -> frame g g' /\ s_env s' = s_env s) ->
  frame g0 (fst gb) ->
  step_if p op gb s = Ok (r, s') -> frame g0 (fst r) /\ s_env s' = s_env s.
Proof.
  intros Hop Hf H. unfold step_if in H. minv.
  pose proof (ep_float64 _ _ _ E) as He.
  destruct (PrimFloat.ltb a p).
  - destruct r as [g' b]. apply Hop in H. destruct H as [H1 H2]. split; [eapply frame_trans; eauto|congruence].
  - minv. subst. auto.
Qed.

Lemma all_nonstructural_spec o g s g' b s' :
  mutate_all_nonstructural o g s = Ok ((g', b), s') -> frame g g' /\ s_env s' = s_env s.
Proof.
  unfold mutate_all_nonstructural. intros H. minv.
  eapply step_if_frame in E; [| |apply frame_refl].
  2:{ intros gg1 ss1 gg2 bb2 ss2 Hr. apply random_trait_spec in Hr. tauto. }
  destruct E as [F1 V1].
  eapply step_if_frame in E0; [| |exact F1].
  2:{ intros gg1 ss1 gg2 bb2 ss2 Hr. apply link_trait_spec in Hr. tauto. }
  destruct E0 as [F2 V2].
  eapply step_if_frame in E1; [| |exact F2].
  2:{ intros gg1 ss1 gg2 bb2 ss2 Hr. apply node_trait_spec in Hr. tauto. }
  destruct E1 as [F3 V3].
  eapply step_if_frame in E2; [| |exact F3].
  2:{ intros gg1 ss1 gg2 bb2 ss2 Hr. apply link_weights_spec in Hr. tauto. }
  destruct E2 as [F4 V4].
  eapply step_if_frame in E3; [| |exact F4].
  2:{ intros gg1 ss1 gg2 bb2 ss2 Hr. apply toggle_spec in Hr. tauto. }
  destruct E3 as [F5 V5].
  eapply step_if_frame in H; [| |exact F5].
  2:{ intros gg1 ss1 gg2 bb2 ss2 Hr. apply reenable_spec in Hr. destruct Hr as (Hf & _ & _ & _ & _ & ->). auto. }
  destruct H as [F6 V6]. split; [exact F6|congruence].
Qed.

(* the two halves of [toggle_spec], as stated in props/C05.v *)
Lemma toggle_frame_spec times g s g' b s' :
  mutate_toggle_enable times g s = Ok ((g', b), s') ->
  frame g g' /\ nodes g' = nodes g /\ traits g' = traits g /\
  Forall2 maybe_disabled (genes g) (genes g') /\ b = true /\ s_env s' = s_env s.
Proof. intros H. destruct (toggle_spec _ _ _ _ _ _ H) as (A & B & C & D & _ & E & F). split; [exact A|]. repeat split; assumption. Qed.

Lemma toggle_keeps_last_out times g s g' b s' :
  mutate_toggle_enable times g s = Ok ((g', b), s') ->
  forall a, has_enabled_out (genes g) a -> has_enabled_out (genes g') a.
Proof. intros H. destruct (toggle_spec _ _ _ _ _ _ H) as (_ & _ & _ & _ & A & _). exact A. Qed.
