(* C09 without the hypothesis on ExpectedOffspring: purgeZeroOffspringSpecies writes
   o.ExpectedOffspring = o.Fitness / overallAverage, which is not negative as soon as no fitness
   value is (sum of floats that are not below zero is not below zero; so is its quotient by
   float64(n); so is the quotient of a fitness by a non-zero average).  "Not below zero" is
   [PrimFloat.ltb x 0 = false]: zeros, positive finite numbers, +infinity and NaN; it follows from
   "finite and >= 0" and is exactly what countOffspring needs (QuotaFloat.v).
   Uses the binary64 sign lemmas of EpochTotalQuota.v (C02). *)
From NeatModel Require Import Res F64 GoRand Genome Options Population QuotaReal QuotaSpec QuotaFloat.
From NeatModel Require EpochTotalQuota FloatMono.
From Coq Require Import Lia Floats Reals.
From Flocq Require Import Core.
Open Scope Z_scope.

Module Q := EpochTotalQuota.

(* 0 <= x as a float comparison (finite and >= 0, or +infinity) implies "not below zero" *)
Lemma leb0_not_lt0 x : PrimFloat.leb 0%float x = true -> PrimFloat.ltb x 0%float = false.
Proof.
  rewrite leb_spec, ltb_spec. replace (Prim2SF 0%float) with (S754_zero false) by (vm_compute; reflexivity).
  destruct (Prim2SF x) as [s|s| |s m e]; cbn; auto; destruct s; cbn; auto; discriminate.
Qed.

(* the population average of fitness values that are not below zero is not below zero *)
Lemma pz_avg_not_lt0 orgs :
  (forall x, In x orgs -> PrimFloat.ltb (o_fit x) 0%float = false) ->
  PrimFloat.ltb (pz_avg orgs) 0%float = false.
Proof.
  intros H. unfold pz_avg. apply Q.nn_div_of_Z; [|unfold zlen; lia].
  apply Q.fold_fit_nn; [exact Q.nn_zero|exact H].
Qed.

(* every organism's expected offspring, as computed, is not below zero *)
Lemma expected_not_lt0 orgs x :
  (forall y, In y orgs -> PrimFloat.ltb (o_fit y) 0%float = false) ->
  PrimFloat.eqb (pz_avg orgs) 0%float = false -> In x orgs ->
  PrimFloat.ltb (PrimFloat.div (o_fit x) (pz_avg orgs)) 0%float = false.
Proof.
  intros H Havg Hx. apply Q.nn_div_nonzero; [now apply H|now apply pz_avg_not_lt0|exact Havg].
Qed.

(* after purgeZeroOffspringSpecies: the ExpectedOffspring of every organism of Population.Organisms *)
Theorem purge_zero_exp_nonneg p p' orgs :
  purge_zero_offspring p = Ok p' ->
  hgets (p_heap p) (p_orgs p) = Ok orgs ->
  (forall y, In y orgs -> PrimFloat.ltb (o_fit y) 0%float = false) ->
  (PrimFloat.eqb (pz_avg orgs) 0%float = true ->
   forall k x, In k (p_orgs p) -> hget (p_heap p) k = Ok x -> PrimFloat.ltb (o_exp x) 0%float = false) ->
  forall k x, In k (p_orgs p) -> hget (p_heap p') k = Ok x -> PrimFloat.ltb (o_exp x) 0%float = false.
Proof.
  intros Hp Ho Hfit Hzero k x Hk Hx.
  apply purge_zero_unfold in Hp. destruct Hp as [orgs' [sps' [T' [P1 [P2 _]]]]].
  rewrite Ho in P1. injection P1 as <-. rewrite P2 in Hx. unfold pz_heap in Hx.
  destruct (PrimFloat.eqb (pz_avg orgs) 0%float) eqn:Eavg; [exact (Hzero eq_refl k x Hk Hx)|].
  apply Q.hget_hsets_cases in Hx. destruct Hx as [Hi|[N _]].
  - apply in_map_iff in Hi. destruct Hi as (x0 & <- & Hx0). cbn [o_exp o_with_exp].
    now apply expected_not_lt0.
  - exfalso. apply N. rewrite map_map.
    replace (map (fun x0 => o_key (o_with_exp x0 (PrimFloat.div (o_fit x0) (pz_avg orgs)))) orgs) with (map o_key orgs)
      by (apply map_ext; reflexivity).
    rewrite (hgets_keys _ _ _ Ho). exact Hk.
Qed.

(* With at most 2^31 FINITE fitness values >= 0 and a non-zero average every organism's
   ExpectedOffspring = fitness / average is a finite float in [0, 2n] (FloatMono.quotients_bounded,
   through Flocq), in particular in [0, 2^52): int(math.Floor(.)) converts it faithfully.  Without
   finiteness the quotient can be NaN (+Inf / +Inf), whose conversion is math.MinInt64 on amd64. *)
Theorem purge_zero_exp_conv p p' orgs :
  purge_zero_offspring p = Ok p' ->
  hgets (p_heap p) (p_orgs p) = Ok orgs ->
  1 <= zlen orgs <= 2 ^ 31 ->
  (forall y, In y orgs -> PrimFloat.leb 0%float (o_fit y) = true /\ PrimFloat.ltb (o_fit y) infinity = true) ->
  (PrimFloat.eqb (pz_avg orgs) 0%float = true ->
   forall k x, In k (p_orgs p) -> hget (p_heap p) k = Ok x ->
               PrimFloat.leb 0%float (o_exp x) = true /\ PrimFloat.ltb (o_exp x) 0x1p+52%float = true) ->
  forall k x, In k (p_orgs p) -> hget (p_heap p') k = Ok x ->
              PrimFloat.leb 0%float (o_exp x) = true /\ PrimFloat.ltb (o_exp x) 0x1p+52%float = true.
Proof.
  intros Hp Ho Hn Hfit Hzero k x Hk Hx.
  apply purge_zero_unfold in Hp. destruct Hp as [orgs' [sps' [T' [P1 [P2 _]]]]].
  rewrite Ho in P1. injection P1 as <-. rewrite P2 in Hx. unfold pz_heap in Hx.
  destruct (PrimFloat.eqb (pz_avg orgs) 0%float) eqn:Eavg; [exact (Hzero eq_refl k x Hk Hx)|].
  apply Q.hget_hsets_cases in Hx. destruct Hx as [Hi|[N _]].
  - apply in_map_iff in Hi. destruct Hi as (x0 & <- & Hx0). cbn [o_exp o_with_exp].
    destruct (FloatMono.quotients_bounded o_fit orgs Hn Hfit Eavg x0 Hx0) as [[Fq Q0] Q1].
    change (PrimFloat.div (fold_left (fun a x => PrimFloat.add a (o_fit x)) orgs 0%float) (f_of_Z (Z.of_nat (length orgs))))
      with (pz_avg orgs) in *.
    split.
    + apply ActFloatBase.leb_of_R; [exact EpochTotalFloat.fin_zero|exact Fq|]. rewrite ActFloatBase.FR_zero. exact Q0.
    + change 0x1p+52%float with two52.
      apply EpochTotalFloat.ltb_of_R; [exact Fq|exact EpochTotalFloat.fin_two52|]. rewrite EpochTotalFloat.FR_two52.
      apply Rle_lt_trans with (1 := Q1). apply Rle_lt_trans with (IZR (2 ^ 32)).
      * rewrite <- (mult_IZR 2). apply IZR_le. unfold zlen in Hn. lia.
      * change (2 ^ 32) with (Zpower Zaux.radix2 32). rewrite Raux.IZR_Zpower by lia. apply Raux.bpow_lt. lia.
  - exfalso. apply N. rewrite map_map.
    replace (map (fun x0 => o_key (o_with_exp x0 (PrimFloat.div (o_fit x0) (pz_avg orgs)))) orgs) with (map o_key orgs)
      by (apply map_ext; reflexivity).
    rewrite (hgets_keys _ _ _ Ho). exact Hk.
Qed.

(* C09_quotas_total_population_size with the hypothesis on the fitness values: finite and >= 0 *)
Theorem total_robust_fitness : forall p p' orgs sps T,
  purge_zero_offspring p = Ok p' ->
  hgets (p_heap p) (p_orgs p) = Ok orgs ->
  count_all (p_heap p') (p_species p) 0%float 0 = Ok (sps, T) ->
  p_species p <> [] -> NoDup (map sp_id (p_species p)) ->
  (forall s k, In s (p_species p) -> In k (sp_orgs s) -> In k (p_orgs p)) ->
  1 <= zlen orgs <= 2 ^ 31 ->
  (forall y, In y orgs -> PrimFloat.leb 0%float (o_fit y) = true /\ PrimFloat.ltb (o_fit y) infinity = true) ->
  (PrimFloat.eqb (pz_avg orgs) 0%float = true ->
   forall k x, In k (p_orgs p) -> hget (p_heap p) k = Ok x ->
               PrimFloat.leb 0%float (o_exp x) = true /\ PrimFloat.ltb (o_exp x) 0x1p+52%float = true) ->
  (T <= zlen orgs -> sp_sum (p_species p') = zlen orgs) /\
  (zlen orgs < T -> sp_sum (p_species p') = T) /\
  (forall s, In s (p_species p') -> 0 < sp_exp s) /\
  (forall s, In s (p_detached p') -> In s (p_detached p) \/ sp_exp s <= 0).
Proof.
  intros p p' orgs sps T Hp Ho Hc Hne Hnd Hmem Hn Hfit Hzero.
  apply (total_robust_float p p' orgs sps T Hp Ho Hc Hne Hnd).
  intros s k x Hs Hk Hx. exact (purge_zero_exp_conv p p' orgs Hp Ho Hn Hfit Hzero k x (Hmem s k Hs Hk) Hx).
Qed.

(* With FINITE fitness values >= 0 and a non-zero average, the average and every organism's
   ExpectedOffspring are proper numbers: >= 0 or +infinity (after overflow), never NaN
   (FloatMono.avg_and_quotients_ext, through Flocq). *)
Theorem purge_zero_exp_proper p p' orgs :
  purge_zero_offspring p = Ok p' ->
  hgets (p_heap p) (p_orgs p) = Ok orgs ->
  1 <= zlen orgs < 2 ^ 63 ->
  (forall y, In y orgs -> PrimFloat.leb 0%float (o_fit y) = true /\ PrimFloat.ltb (o_fit y) infinity = true) ->
  PrimFloat.eqb (pz_avg orgs) 0%float = false ->
  PrimFloat.leb 0%float (pz_avg orgs) = true /\
  forall k x, In k (p_orgs p) -> hget (p_heap p') k = Ok x -> PrimFloat.leb 0%float (o_exp x) = true.
Proof.
  intros Hp Ho Hn Hfit Eavg.
  destruct (FloatMono.avg_and_quotients_ext o_fit orgs Hn (fun y Hy => proj1 (Hfit y Hy))) as [A B].
  split; [exact A|]. intros k x Hk Hx.
  apply purge_zero_unfold in Hp. destruct Hp as [orgs' [sps' [T' [P1 [P2 _]]]]].
  rewrite Ho in P1. injection P1 as <-. rewrite P2 in Hx. unfold pz_heap in Hx. rewrite Eavg in Hx.
  apply Q.hget_hsets_cases in Hx. destruct Hx as [Hi|[N _]].
  - apply in_map_iff in Hi. destruct Hi as (x0 & <- & Hx0). cbn [o_exp o_with_exp].
    exact (B Eavg x0 Hx0 (proj2 (Hfit x0 Hx0))).
  - exfalso. apply N. rewrite map_map.
    replace (map (fun x0 => o_key (o_with_exp x0 (PrimFloat.div (o_fit x0) (pz_avg orgs)))) orgs) with (map o_key orgs)
      by (apply map_ext; reflexivity).
    rewrite (hgets_keys _ _ _ Ho). exact Hk.
Qed.
