(* C12: what Network.FastNetworkSolver builds (model/Fast.v, fast_of_net), in closed form, for a network
   whose Outputs list is exactly its output neurons: the index order bias / input / output / hidden, the
   activation table, the connection list grouped by target in the order of Incoming, the bias weights
   folded into biasList.  Discharges the record [translated] of SolverFast.v. *)
From NeatModel Require Import Res Net Fast SolverUtil SolverSpec SolverFast.
From Coq Require Import Reals Lra Arith Lia.
Open Scope nat_scope.

(* ----- position of an element in a list ----- *)
Fixpoint pos_of (p : nat) (l : list nat) : nat :=
  match l with
  | [] => 0
  | x :: t => if x =? p then 0 else S (pos_of p t)
  end.

Lemma pos_of_in p l : In p l -> pos_of p l < length l /\ nth (pos_of p l) l 0 = p.
Proof.
  induction l as [|x t IH]; intros H; [destruct H|]. simpl.
  destruct (x =? p) eqn:E.
  - apply Nat.eqb_eq in E. subst. split; [lia|reflexivity].
  - destruct H as [H|H]; [apply Nat.eqb_neq in E; congruence|].
    destruct (IH H) as [A B]. split; [lia|exact B].
Qed.

Lemma pos_of_nth l : NoDup l -> forall i, i < length l -> pos_of (nth i l 0) l = i.
Proof.
  induction l as [|x t IH]; intros ND i Hi; [simpl in Hi; lia|].
  inversion ND as [|? ? Hni ND']; subst. destruct i; simpl.
  - now rewrite Nat.eqb_refl.
  - simpl in Hi. destruct (x =? nth i t 0) eqn:E.
    + apply Nat.eqb_eq in E. exfalso. apply Hni. rewrite E. apply nth_In. lia.
    + f_equal. apply IH; [exact ND'|lia].
Qed.

Lemma pos_of_app_l p l1 l2 : In p l1 -> pos_of p (l1 ++ l2) = pos_of p l1.
Proof.
  induction l1 as [|x t IH]; intros H; [destruct H|]. simpl.
  destruct (x =? p) eqn:E; [reflexivity|]. f_equal. apply IH.
  destruct H as [H|H]; [apply Nat.eqb_neq in E; congruence|exact H].
Qed.

Lemma pos_of_app_r p l1 l2 : ~ In p l1 -> pos_of p (l1 ++ l2) = length l1 + pos_of p l2.
Proof.
  induction l1 as [|x t IH]; intros H; simpl; [reflexivity|].
  destruct (x =? p) eqn:E.
  - apply Nat.eqb_eq in E. exfalso. apply H. simpl. auto.
  - f_equal. apply IH. intros H'. apply H. simpl. auto.
Qed.

Lemma pos_of_inj p q l : In p l -> In q l -> pos_of p l = pos_of q l -> p = q.
Proof.
  intros Hp Hq E. destruct (pos_of_in p l Hp) as [_ A]. destruct (pos_of_in q l Hq) as [_ B]. congruence.
Qed.

(* ----- filter of a flat_map with a key that is injective on the (duplicate-free) index list ----- *)
Lemma filter_flat_map_unique {A} (key : A -> nat) (g : nat -> list A) (kx : nat -> nat) (l : list nat) (p : nat) :
  NoDup l -> In p l ->
  (forall q c, In c (g q) -> key c = kx q) ->
  (forall q, In q l -> kx q = kx p -> q = p) ->
  filter (fun c => key c =? kx p) (flat_map g l) = g p.
Proof.
  intros ND Hp Hkey Hinj. induction l as [|x t IH]; [destruct Hp|].
  inversion ND as [|? ? Hni ND']; subst. simpl. rewrite filter_app.
  assert (Hall : forall q, filter (fun c => key c =? kx p) (g q) = if kx q =? kx p then g q else []).
  { intros q. destruct (kx q =? kx p) eqn:E.
    - apply Nat.eqb_eq in E. rewrite <- E. clear -Hkey.
      assert (G : forall l', (forall c, In c l' -> key c = kx q) -> filter (fun c => key c =? kx q) l' = l').
      { induction l' as [|c l' IHl]; intros H; simpl; [reflexivity|].
        rewrite (H c (or_introl eq_refl)), Nat.eqb_refl. f_equal. apply IHl. intros c' Hc'. apply H. simpl. auto. }
      apply G. intros c Hc. apply (Hkey q c Hc).
    - apply Nat.eqb_neq in E. clear -Hkey E.
      assert (G : forall l', (forall c, In c l' -> key c = kx q) -> filter (fun c => key c =? kx p) l' = []).
      { induction l' as [|c l' IHl]; intros H; simpl; [reflexivity|].
        rewrite (H c (or_introl eq_refl)). destruct (kx q =? kx p) eqn:E'; [apply Nat.eqb_eq in E'; contradiction|].
        apply IHl. intros c' Hc'. apply H. simpl. auto. }
      apply G. intros c Hc. apply (Hkey q c Hc). }
  rewrite Hall. destruct Hp as [->|Hp].
  - rewrite Nat.eqb_refl.
    assert (Hrest : forall t', (forall y, In y t' -> kx y <> kx p) ->
                               filter (fun c => key c =? kx p) (flat_map g t') = []).
    { induction t' as [|y t' IHt]; intros Hy; simpl; [reflexivity|]. rewrite filter_app, Hall.
      destruct (kx y =? kx p) eqn:E.
      - apply Nat.eqb_eq in E. exfalso. apply (Hy y); [simpl; auto|exact E].
      - simpl. apply IHt. intros z Hz. apply Hy. simpl. auto. }
    rewrite Hrest; [apply app_nil_r|].
    intros y Hy E. assert (y = p) by (apply Hinj; [simpl; auto|exact E]). subst. contradiction.
  - destruct (kx x =? kx p) eqn:E.
    + apply Nat.eqb_eq in E. exfalso. assert (x = p) by (apply Hinj; [simpl; auto|exact E]). subst. contradiction.
    + simpl. apply IH; [exact ND'|exact Hp|]. intros q Hq. apply Hinj. simpl. auto.
Qed.

Section Build.
Variable n : net R.
Notation N := (nnodes n).

Definition passthru {A B} (r : res A) (k : A -> res B) : res B :=
  match r with Ok a => k a | GoErr c => GoErr c | GoPanic c => GoPanic c
             | OutOfTape => OutOfTape | OutOfFuel => OutOfFuel | BadOracle => BadOracle end.

(* ----- processList ----- *)
Lemma process_list_app total l1 l2 : forall start acts lk,
  process_list n total start (l1 ++ l2) acts lk =
  passthru (process_list n total start l1 acts lk) (fun '(i, a, k) => process_list n total i l2 a k).
Proof.
  induction l1 as [|p rest IH]; intros start acts lk; simpl; [reflexivity|].
  destruct (start <? total); [apply IH|reflexivity].
Qed.

Lemma process_list_spec total l : forall start acts lk,
  NoDup l -> start + length l <= total -> length acts = total ->
  exists acts' lk', process_list n total start l acts lk = Ok (start + length l, acts', lk') /\
    length acts' = total /\
    (forall j, nth j acts' 0%Z =
               if (start <=? j) && (j <? start + length l) then nd_act (node_at n (nth (j - start) l 0))
               else nth j acts 0%Z) /\
    (forall q, In q l -> find_idx lk' q = Some (start + pos_of q l)) /\
    (forall q, ~ In q l -> find_idx lk' q = find_idx lk q).
Proof.
  induction l as [|p rest IH]; intros start acts lk ND Hlen Hacts; simpl.
  - exists acts, lk. rewrite Nat.add_0_r. split; [reflexivity|]. split; [exact Hacts|].
    split; [|split; [intros q []|auto]].
    intros j. destruct (start <=? j) eqn:E1, (j <? start) eqn:E2; simpl; try reflexivity. bool_to_prop. lia.
  - inversion ND as [|x0 l0 Hni ND' Ex]; subst x0 l0. simpl in Hlen.
    destruct (start <? total) eqn:E; [|apply Nat.ltb_ge in E; lia].
    destruct (IH (S start) (upd start (nd_act (node_at n p)) acts) ((p, start) :: lk) ND')
      as (acts' & lk' & E1 & L1 & A1 & K1 & K2); [lia|now rewrite upd_length|].
    exists acts', lk'. split; [rewrite E1; f_equal; f_equal; f_equal; lia|]. split; [exact L1|]. split; [|split].
    + intros j. rewrite A1, nth_upd, Hacts.
      destruct (S start <=? j) eqn:E2, (j <? S start + length rest) eqn:E3, (start <=? j) eqn:E4,
               (j <? start + S (length rest)) eqn:E5, (start =? j) eqn:E6, (start <? total) eqn:E7;
        simpl; bool_to_prop; try lia; try reflexivity.
      * replace (j - start) with (S (j - S start)) by lia. reflexivity.
      * subst j. now rewrite Nat.sub_diag.
    + intros q [<-|Hq].
      * rewrite K2 by exact Hni. simpl. rewrite !Nat.eqb_refl. f_equal. lia.
      * rewrite K1 by exact Hq. simpl. destruct (p =? q) eqn:E2.
        -- apply Nat.eqb_eq in E2. subst. contradiction.
        -- f_equal. lia.
    + intros q Hq. rewrite K2 by (intros H; apply Hq; simpl; auto). simpl.
      destruct (p =? q) eqn:E2; [|reflexivity]. apply Nat.eqb_eq in E2. exfalso. apply Hq. simpl. auto.
Qed.

(* ----- processIncomingConnections ----- *)
Variable idx : nat -> nat.
Variable lk : list (nat * nat).
Hypothesis lk_total : forall q, q < N -> find_idx lk q = Some (idx q).
Hypothesis idx_lt : forall q, q < N -> idx q < N.
Hypothesis idx_inj : forall p q, p < N -> q < N -> idx p = idx q -> p = q.

Definition mk_conn (tgt : nat) (l : link R) : flink R := mkFlink (idx (l_src l)) tgt (l_w l).

Lemma proc_links_spec tgt ls : forall b c,
  (forall l, In l ls -> l_src l < N) -> tgt < length b ->
  exists b', proc_links Rnum n lk tgt ls b c = Ok (b', c ++ map (mk_conn tgt) (filter (nonbias_src n) ls)) /\
    length b' = length b /\
    (forall j, j <> tgt -> nth j b' 0%R = nth j b 0%R) /\
    nth tgt b' 0%R = fold_left (fun a l => (a + l_w l)%R) (filter (bias_src n) ls) (nth tgt b 0%R).
Proof.
  induction ls as [|l rest IH]; intros b c Hsrc Ht; simpl.
  - exists b. rewrite app_nil_r. auto.
  - rewrite (lk_total (l_src l)) by (apply Hsrc; simpl; auto).
    unfold nonbias_src, bias_src at 1. destruct (is_bias (role_at n (l_src l))) eqn:Eb; simpl.
    + destruct (IH (upd tgt (getF Rnum b tgt + l_w l)%R b) c) as (b' & E & L & O & V).
      * intros l' Hl'. apply Hsrc. simpl. auto.
      * now rewrite upd_length.
      * exists b'. split; [exact E|]. split; [rewrite L; apply upd_length|]. split.
        -- intros j Hj. rewrite O by exact Hj. apply nth_upd_other. auto.
        -- rewrite V. rewrite nth_upd_same by exact Ht. reflexivity.
    + destruct (IH b (c ++ [mkFlink (idx (l_src l)) tgt (l_w l)])) as (b' & E & L & O & V).
      * intros l' Hl'. apply Hsrc. simpl. auto.
      * exact Ht.
      * exists b'. split; [rewrite E; f_equal; f_equal; rewrite <- app_assoc; reflexivity|].
        split; [exact L|]. split; [exact O|]. exact V.
Qed.

Definition node_conns (p : nat) : list (flink R) :=
  map (mk_conn (idx p)) (filter (nonbias_src n) (nd_in (node_at n p))).
Definition node_bias (p : nat) (a : R) : R :=
  fold_left (fun a l => (a + l_w l)%R) (filter (bias_src n) (nd_in (node_at n p))) a.

Hypothesis OK : net_ok n = true.

Lemma proc_incoming_spec nl : forall b c,
  NoDup nl -> (forall p, In p nl -> p < N) -> length b = N ->
  exists b', proc_incoming Rnum n lk nl b c = Ok (b', c ++ flat_map node_conns nl) /\
    length b' = N /\
    (forall j, (forall p, In p nl -> idx p <> j) -> nth j b' 0%R = nth j b 0%R) /\
    (forall p, In p nl -> nth (idx p) b' 0%R = node_bias p (nth (idx p) b 0%R)).
Proof.
  induction nl as [|p rest IH]; intros b c ND Hlt Hb; simpl.
  - exists b. rewrite app_nil_r. split; [reflexivity|]. split; [exact Hb|]. split; [auto|]. intros p [].
  - inversion ND as [|? ? Hni ND']; subst.
    assert (Hp : p < N) by (apply Hlt; simpl; auto).
    rewrite (lk_total p Hp).
    destruct (proc_links_spec (idx p) (nd_in (node_at n p)) b c) as (b1 & E1 & L1 & O1 & V1).
    { intros l Hl. apply (net_ok_src n OK p l Hp Hl). }
    { rewrite Hb. apply idx_lt. exact Hp. }
    rewrite E1.
    destruct (IH b1 (c ++ map (mk_conn (idx p)) (filter (nonbias_src n) (nd_in (node_at n p)))) ND')
      as (b' & E' & L' & O' & V').
    { intros q Hq. apply Hlt. simpl. auto. }
    { congruence. }
    exists b'. split; [rewrite E'; f_equal; f_equal; rewrite <- app_assoc; reflexivity|].
    split; [exact L'|]. split.
    + intros j Hj. rewrite O' by (intros q Hq; apply Hj; simpl; auto).
      apply O1. intros E. apply (Hj p); [simpl; auto|congruence].
    + intros q [<-|Hq].
      * rewrite O'; [exact V1|]. intros q Hq E. apply Hni.
        assert (q = p); [|subst; exact Hq]. apply idx_inj; [apply Hlt; simpl; auto|exact Hp|exact E].
      * rewrite V' by exact Hq. unfold node_bias. f_equal. apply O1.
        intros E. apply Hni. assert (q = p); [|subst; exact Hq].
        apply idx_inj; [apply Hlt; simpl; auto|exact Hp|exact E].
Qed.

End Build.

Lemma nodup_app {A} (l1 l2 : list A) :
  NoDup l1 -> NoDup l2 -> (forall x, In x l1 -> ~ In x l2) -> NoDup (l1 ++ l2).
Proof.
  induction l1 as [|x t IH]; intros N1 N2 D; simpl; [exact N2|].
  inversion N1 as [|? ? Hni N1']; subst. constructor.
  - intros H. apply in_app_or in H. destruct H as [H|H]; [contradiction|]. apply (D x); simpl; auto.
  - apply IH; [exact N1'|exact N2|]. intros y Hy. apply D. simpl. auto.
Qed.

Section Assemble.
Variable n : net R.
Notation N := (nnodes n).
Hypothesis OK : net_ok n = true.
Hypothesis outs_nodup : NoDup (outputs n).
Hypothesis outs_exact : forall o, In o (outputs n) <-> (o < N /\ is_output (role_at n o) = true).

Definition order : list nat :=
  positions_with n is_bias ++ positions_with n is_input ++ outputs n ++ positions_with n is_hidden.
Definition idxf (p : nat) : nat := pos_of p order.

Lemma in_positions_with t p : In p (positions_with n t) <-> (p < N /\ t (role_at n p) = true).
Proof.
  unfold positions_with. rewrite filter_In, in_seq. split; intros [A B]; split; auto; lia.
Qed.

Lemma positions_with_nodup t : NoDup (positions_with n t).
Proof. unfold positions_with. apply NoDup_filter, seq_NoDup. Qed.

Lemma order_nodup : NoDup order.
Proof.
  unfold order. repeat apply nodup_app; try apply positions_with_nodup; try exact outs_nodup.
  - intros x Hx Hy. apply outs_exact in Hx. apply in_positions_with in Hy.
    destruct Hx as [_ Hx], Hy as [_ Hy]. destruct (role_at n x); discriminate.
  - intros x Hx Hy. apply in_positions_with in Hx. destruct Hx as [_ Hx].
    apply in_app_or in Hy. destruct Hy as [Hy|Hy].
    + apply outs_exact in Hy. destruct Hy as [_ Hy]. destruct (role_at n x); discriminate.
    + apply in_positions_with in Hy. destruct Hy as [_ Hy]. destruct (role_at n x); discriminate.
  - intros x Hx Hy. apply in_positions_with in Hx. destruct Hx as [_ Hx].
    apply in_app_or in Hy. destruct Hy as [Hy|Hy]; [|apply in_app_or in Hy; destruct Hy as [Hy|Hy]].
    + apply in_positions_with in Hy. destruct Hy as [_ Hy]. destruct (role_at n x); discriminate.
    + apply outs_exact in Hy. destruct Hy as [_ Hy]. destruct (role_at n x); discriminate.
    + apply in_positions_with in Hy. destruct Hy as [_ Hy]. destruct (role_at n x); discriminate.
Qed.

Lemma order_in p : In p order <-> p < N.
Proof.
  unfold order. rewrite !in_app_iff, !in_positions_with, outs_exact. split.
  - intros [H|[H|[H|H]]]; apply H.
  - intros H. destruct (role_at n p) eqn:E; simpl; tauto.
Qed.

Lemma order_length : length order = N.
Proof.
  apply Nat.le_antisymm.
  - rewrite <- (seq_length N 0). apply NoDup_incl_length; [exact order_nodup|].
    intros p Hp. apply order_in in Hp. apply in_seq. lia.
  - rewrite <- (seq_length N 0) at 1. apply NoDup_incl_length; [apply seq_NoDup|].
    intros p Hp. apply in_seq in Hp. apply order_in. lia.
Qed.

Lemma idxf_lt p : p < N -> idxf p < N.
Proof. intros H. rewrite <- order_length. apply pos_of_in. apply order_in. exact H. Qed.

Lemma idxf_inj p q : p < N -> q < N -> idxf p = idxf q -> p = q.
Proof. intros Hp Hq. apply pos_of_inj; apply order_in; assumption. Qed.

Lemma idxf_surj i : i < N -> exists p, p < N /\ idxf p = i.
Proof.
  intros Hi. exists (nth i order 0). split.
  - apply order_in. apply nth_In. rewrite order_length. exact Hi.
  - apply pos_of_nth; [exact order_nodup|rewrite order_length; exact Hi].
Qed.

(* where the four groups sit *)
Notation LB := (length (positions_with n is_bias)).
Notation LI := (length (positions_with n is_input)).
Notation LO := (length (outputs n)).

Lemma idxf_bias p : In p (positions_with n is_bias) -> idxf p = pos_of p (positions_with n is_bias).
Proof. intros H. unfold idxf, order. apply pos_of_app_l. exact H. Qed.

Lemma idxf_input p : In p (positions_with n is_input) -> idxf p = LB + pos_of p (positions_with n is_input).
Proof.
  intros H. unfold idxf, order. rewrite pos_of_app_r.
  - f_equal. apply pos_of_app_l. exact H.
  - intros H'. apply in_positions_with in H. apply in_positions_with in H'.
    destruct H as [_ H], H' as [_ H']. destruct (role_at n p); discriminate.
Qed.

Lemma idxf_output p : In p (outputs n) -> idxf p = LB + (LI + pos_of p (outputs n)).
Proof.
  intros H. pose proof H as H0. apply outs_exact in H0. destruct H0 as [_ H0].
  unfold idxf, order. rewrite pos_of_app_r.
  - f_equal. rewrite pos_of_app_r.
    + f_equal. apply pos_of_app_l. exact H.
    + intros H'. apply in_positions_with in H'. destruct H' as [_ H']. destruct (role_at n p); discriminate.
  - intros H'. apply in_positions_with in H'. destruct H' as [_ H']. destruct (role_at n p); discriminate.
Qed.

Lemma idxf_hidden p : In p (positions_with n is_hidden) ->
  idxf p = LB + (LI + (LO + pos_of p (positions_with n is_hidden))).
Proof.
  intros H. pose proof H as H0. apply in_positions_with in H0. destruct H0 as [_ H0].
  unfold idxf, order. rewrite pos_of_app_r.
  - f_equal. rewrite pos_of_app_r.
    + f_equal. rewrite pos_of_app_r; [reflexivity|].
      intros H'. apply outs_exact in H'. destruct H' as [_ H']. destruct (role_at n p); discriminate.
    + intros H'. apply in_positions_with in H'. destruct H' as [_ H']. destruct (role_at n p); discriminate.
  - intros H'. apply in_positions_with in H'. destruct H' as [_ H']. destruct (role_at n p); discriminate.
Qed.

Lemma lengths_sum : LB + (LI + (LO + length (positions_with n is_hidden))) = N.
Proof. rewrite <- order_length. unfold order. rewrite !app_length. reflexivity. Qed.

Lemma idxf_sensor p : p < N -> (idxf p < LB + LI <-> sensorb n p = true).
Proof.
  intros Hp. unfold sensorb. destruct (role_at n p) eqn:E.
  - assert (H : In p (positions_with n is_hidden)) by (apply in_positions_with; rewrite E; auto).
    rewrite (idxf_hidden p H). simpl. split; [lia|discriminate].
  - assert (H : In p (positions_with n is_input)) by (apply in_positions_with; rewrite E; auto).
    rewrite (idxf_input p H). pose proof (pos_of_in p _ H). simpl. split; [reflexivity|lia].
  - assert (H : In p (outputs n)) by (apply outs_exact; rewrite E; auto).
    rewrite (idxf_output p H). simpl. split; [lia|discriminate].
  - assert (H : In p (positions_with n is_bias)) by (apply in_positions_with; rewrite E; auto).
    rewrite (idxf_bias p H). pose proof (pos_of_in p _ H). simpl. split; [reflexivity|lia].
Qed.

Lemma idxf_isbias p : p < N -> (idxf p < LB <-> is_bias (role_at n p) = true).
Proof.
  intros Hp. destruct (role_at n p) eqn:E.
  - assert (H : In p (positions_with n is_hidden)) by (apply in_positions_with; rewrite E; auto).
    rewrite (idxf_hidden p H). simpl. split; [lia|discriminate].
  - assert (H : In p (positions_with n is_input)) by (apply in_positions_with; rewrite E; auto).
    rewrite (idxf_input p H). simpl. split; [lia|discriminate].
  - assert (H : In p (outputs n)) by (apply outs_exact; rewrite E; auto).
    rewrite (idxf_output p H). simpl. split; [lia|discriminate].
  - assert (H : In p (positions_with n is_bias)) by (apply in_positions_with; rewrite E; auto).
    rewrite (idxf_bias p H). pose proof (pos_of_in p _ H). simpl. split; [reflexivity|lia].
Qed.


Lemma passthru_ok {A B} (r : res A) (k : A -> res B) (b : B) :
  passthru r k = Ok b -> exists a, r = Ok a /\ k a = Ok b.
Proof. destruct r; simpl; intros H; try discriminate. eauto. Qed.

Theorem fast_of_net_translated : exists fn, fast_of_net Rnum n = Ok fn /\ translated n fn idxf.
Proof.
  destruct (process_list_spec n N order 0 (repeat 0%Z N) [] order_nodup) as (a4 & k4 & E & LA & A & K1 & _).
  { rewrite order_length. lia. }
  { apply repeat_length. }
  unfold order in E at 1. rewrite process_list_app in E.
  apply passthru_ok in E. destruct E as ([[i1 a1] k1] & E1 & E).
  rewrite process_list_app in E. apply passthru_ok in E. destruct E as ([[i2 a2] k2] & E2 & E).
  rewrite process_list_app in E. apply passthru_ok in E. destruct E as ([[i3 a3] k3] & E3 & E).
  assert (LK : forall q, q < N -> find_idx k4 q = Some (idxf q)).
  { intros q Hq. rewrite K1 by (apply order_in; exact Hq). reflexivity. }
  pose proof (positions_with_nodup is_input) as NDI.
  pose proof (positions_with_nodup is_hidden) as NDH.
  assert (HltI : forall p, In p (positions_with n is_input) -> p < N) by (intros p Hp; apply in_positions_with in Hp; tauto).
  assert (HltH : forall p, In p (positions_with n is_hidden) -> p < N) by (intros p Hp; apply in_positions_with in Hp; tauto).
  assert (HltO : forall p, In p (outputs n) -> p < N) by (intros p Hp; apply outs_exact in Hp; tauto).
  destruct (proc_incoming_spec n idxf k4 LK idxf_lt idxf_inj OK (positions_with n is_input) (repeat 0%R N) [] NDI HltI)
    as (b1 & P1 & L1 & O1 & V1); [apply repeat_length|].
  destruct (proc_incoming_spec n idxf k4 LK idxf_lt idxf_inj OK (positions_with n is_hidden) b1
              ([] ++ flat_map (node_conns n idxf) (positions_with n is_input)) NDH HltH L1)
    as (b2 & P2 & L2 & O2 & V2).
  destruct (proc_incoming_spec n idxf k4 LK idxf_lt idxf_inj OK (outputs n) b2
              (([] ++ flat_map (node_conns n idxf) (positions_with n is_input)) ++
               flat_map (node_conns n idxf) (positions_with n is_hidden)) outs_nodup HltO L2)
    as (b3 & P3 & L3 & O3 & V3).
  set (conns := (([] ++ flat_map (node_conns n idxf) (positions_with n is_input)) ++
                 flat_map (node_conns n idxf) (positions_with n is_hidden)) ++
                flat_map (node_conns n idxf) (outputs n)) in *.
  assert (Hconns : conns = flat_map (node_conns n idxf)
                             (positions_with n is_input ++ positions_with n is_hidden ++ outputs n)).
  { unfold conns. simpl. rewrite !flat_map_app, app_assoc. reflexivity. }
  set (targets := positions_with n is_input ++ positions_with n is_hidden ++ outputs n) in *.
  assert (NDT : NoDup targets).
  { unfold targets. repeat apply nodup_app; try assumption.
    - intros x Hx Hy. apply in_positions_with in Hx. apply outs_exact in Hy.
      destruct Hx as [_ Hx], Hy as [_ Hy]. destruct (role_at n x); discriminate.
    - intros x Hx Hy. apply in_positions_with in Hx. destruct Hx as [_ Hx].
      apply in_app_or in Hy. destruct Hy as [Hy|Hy].
      + apply in_positions_with in Hy. destruct Hy as [_ Hy]. destruct (role_at n x); discriminate.
      + apply outs_exact in Hy. destruct Hy as [_ Hy]. destruct (role_at n x); discriminate. }
  assert (HltT : forall p, In p targets -> p < N).
  { unfold targets. intros p Hp. apply in_app_or in Hp. destruct Hp as [Hp|Hp]; [auto|].
    apply in_app_or in Hp. destruct Hp as [Hp|Hp]; auto. }
  assert (Hconn_range : forall c, In c conns -> fl_src c < N /\ fl_tgt c < N).
  { intros c Hc. rewrite Hconns in Hc. apply in_flat_map in Hc. destruct Hc as (p & Hp & Hc).
    unfold node_conns in Hc. apply in_map_iff in Hc. destruct Hc as (l & <- & Hl).
    apply filter_In in Hl. destruct Hl as [Hl _]. simpl. split.
    - apply idxf_lt. exact (net_ok_src n OK p l (HltT p Hp) Hl).
    - apply idxf_lt. apply HltT. exact Hp. }
  (* the translation succeeds *)
  unfold fast_of_net. rewrite E1, E2, E3, E. change (fzero Rnum) with 0%R. rewrite P1, P2, P3.
  unfold new_fast.
  assert (Hcheck : ((length (positions_with n is_bias) + length (positions_with n is_input) + length (outputs n) <=? N)
                    && (length a4 =? N) && (length b3 =? N)
                    && forallb (fun c => (fl_src c <? N) && (fl_tgt c <? N)) conns) = true).
  { pose proof lengths_sum as LS. rewrite !andb_true_iff. repeat split.
    - apply Nat.leb_le. lia.
    - apply Nat.eqb_eq. exact LA.
    - apply Nat.eqb_eq. exact L3.
    - apply forallb_forall. intros c Hc. destruct (Hconn_range c Hc) as [C1 C2].
      apply andb_true_iff. split; apply Nat.ltb_lt; assumption. }
  rewrite Hcheck. eexists. split; [reflexivity|].
  pose proof lengths_sum as LS.
  (* neurons are among the targets *)
  assert (Hneuron : forall p, p < N -> neuronb n p = true -> In p targets).
  { intros p Hp Hn. unfold targets, neuronb in *. rewrite !in_app_iff, !in_positions_with, outs_exact.
    destruct (role_at n p); simpl in *; try discriminate; tauto. }
  assert (Hbias_val : forall p, In p targets -> nth (idxf p) b3 0%R = node_bias n p 0%R).
  { intros p Hp. unfold targets in Hp. apply in_app_or in Hp.
    assert (Hrep : forall j, nth j (repeat 0%R N) 0%R = 0%R) by (intros j; apply nth_repeat).
    assert (Hdisj : forall q l, In p l -> In q l -> idxf q <> idxf p -> q <> p) by (intros; congruence).
    destruct Hp as [Hp|Hp]; [|apply in_app_or in Hp; destruct Hp as [Hp|Hp]].
    - (* input node: touched by the first call only *)
      rewrite O3, O2, V1, Hrep; [reflexivity|exact Hp| |].
      + intros q Hq E'. apply idxf_inj in E'; [|auto|auto]. subst q.
        apply in_positions_with in Hp. apply in_positions_with in Hq.
        destruct Hp as [_ Hp], Hq as [_ Hq]. destruct (role_at n p); discriminate.
      + intros q Hq E'. apply idxf_inj in E'; [|auto|auto]. subst q.
        apply in_positions_with in Hp. apply outs_exact in Hq.
        destruct Hp as [_ Hp], Hq as [_ Hq]. destruct (role_at n p); discriminate.
    - rewrite O3, V2, O1, Hrep; [reflexivity| |exact Hp|].
      + intros q Hq E'. apply idxf_inj in E'; [|auto|auto]. subst q.
        apply in_positions_with in Hp. apply in_positions_with in Hq.
        destruct Hp as [_ Hp], Hq as [_ Hq]. destruct (role_at n p); discriminate.
      + intros q Hq E'. apply idxf_inj in E'; [|auto|auto]. subst q.
        apply in_positions_with in Hp. apply outs_exact in Hq.
        destruct Hp as [_ Hp], Hq as [_ Hq]. destruct (role_at n p); discriminate.
    - rewrite V3, O2, O1, Hrep; [reflexivity| | |exact Hp].
      + intros q Hq E'. apply idxf_inj in E'; [|auto|auto]. subst q.
        apply outs_exact in Hp. apply in_positions_with in Hq.
        destruct Hp as [_ Hp], Hq as [_ Hq]. destruct (role_at n p); discriminate.
      + intros q Hq E'. apply idxf_inj in E'; [|auto|auto]. subst q.
        apply outs_exact in Hp. apply in_positions_with in Hq.
        destruct Hp as [_ Hp], Hq as [_ Hq]. destruct (role_at n p); discriminate. }
  constructor; simpl.
  - reflexivity.
  - exact LA.
  - exact L3.
  - unfold f_sensor. simpl. lia.
  - reflexivity.
  - exact idxf_lt.
  - exact idxf_inj.
  - exact idxf_surj.
  - intros p Hp. unfold f_sensor. simpl. apply idxf_sensor. exact Hp.
  - intros p Hp. apply idxf_isbias. exact Hp.
  - intros p Hp. specialize (A (idxf p)). simpl in A. rewrite A.
    pose proof (idxf_lt p Hp) as Hl. rewrite order_length.
    destruct (idxf p <? N) eqn:E'; [|apply Nat.ltb_ge in E'; lia]. simpl. rewrite Nat.sub_0_r.
    unfold idxf. destruct (pos_of_in p order) as [_ G]; [apply order_in; exact Hp|]. now rewrite G.
  - intros p Hp Hn. rewrite Hconns.
    apply (filter_flat_map_unique (@fl_tgt R) (node_conns n idxf) idxf targets p NDT (Hneuron p Hp Hn)).
    + intros q c Hc. unfold node_conns in Hc. apply in_map_iff in Hc. destruct Hc as (l & <- & _). reflexivity.
    + intros q Hq E'. apply idxf_inj; auto.
  - intros p Hp Hn. apply Hbias_val. apply Hneuron; assumption.
  - intros i Hi. unfold f_sensor. simpl.
    assert (Ho : In (nth i (outputs n) 0) (outputs n)) by (apply nth_In; exact Hi).
    rewrite (idxf_output _ Ho), (pos_of_nth _ outs_nodup i Hi). lia.
  - intros i Hi.
    assert (Ho : In (nth i (positions_with n is_input) 0) (positions_with n is_input)) by (apply nth_In; exact Hi).
    rewrite (idxf_input _ Ho), (pos_of_nth _ NDI i Hi). reflexivity.
  - reflexivity.
Qed.

End Assemble.
