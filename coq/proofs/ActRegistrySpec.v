(* C18, registry part: the factory built from the Register/RegisterModule calls extracted from the
   current source is a bijection between names and type codes, scalar and module tables are
   disjoint, every other lookup is an error, and each code is bound to the expected Go function.
   All data are finite and closed, so the data-dependent facts are decided by vm_compute; the lemmas
   here lift them to statements about ALL integers / ALL strings. *)
From Coq Require Import ZArith List String Bool Floats Lia.
From NeatModel Require Import Res F64 ActRegistry Act.
Import ListNotations.
Open Scope Z_scope.

(* ---------- association lists ---------- *)
Section Assoc.
Context {K V : Type} (eqb : K -> K -> bool).
Hypothesis eqb_spec : forall a b, eqb a b = true <-> a = b.

Lemma map_get_in : forall (m : list (K * V)) k v, map_get eqb m k = Some v -> In (k, v) m.
Proof.
  induction m as [|[k' v'] m IH]; simpl; intros k v H; [discriminate|].
  destruct (eqb k k') eqn:E.
  - apply eqb_spec in E. injection H as <-. subst. now left.
  - right. now apply IH.
Qed.

Lemma map_get_none : forall (m : list (K * V)) k, ~ In k (map fst m) -> map_get eqb m k = None.
Proof.
  induction m as [|[k' v'] m IH]; simpl; intros k H; [reflexivity|].
  destruct (eqb k k') eqn:E.
  - apply eqb_spec in E. subst. exfalso. apply H. now left.
  - apply IH. intros Hin. apply H. now right.
Qed.

Lemma map_get_some_in_keys : forall (m : list (K * V)) k v, map_get eqb m k = Some v -> In k (map fst m).
Proof. intros m k v H. apply map_get_in in H. now apply (in_map fst) in H. Qed.

Lemma map_get_in_keys : forall (m : list (K * V)) k, In k (map fst m) -> exists v, map_get eqb m k = Some v.
Proof.
  induction m as [|[k' v'] m IH]; simpl; intros k H; [contradiction|].
  destruct (eqb k k') eqn:E; [eauto|].
  destruct H as [H|H]; [|now apply IH].
  subst. assert (eqb k k = true) by now apply eqb_spec. congruence.
Qed.

(* two maps agree everywhere as soon as they agree on the keys of both *)
Lemma map_get_ext : forall (m1 m2 : list (K * V)) (veqb : option V -> option V -> bool),
    (forall a b, veqb a b = true -> a = b) ->
    forallb (fun k => veqb (map_get eqb m1 k) (map_get eqb m2 k)) (map fst m1 ++ map fst m2) = true ->
    forall k, map_get eqb m1 k = map_get eqb m2 k.
Proof.
  intros m1 m2 veqb Hv H k.
  rewrite forallb_forall in H.
  destruct (map_get eqb m1 k) eqn:E1.
  - rewrite <- E1. apply Hv, H, in_or_app. left. eapply map_get_some_in_keys; eauto.
  - destruct (map_get eqb m2 k) eqn:E2; [|reflexivity].
    rewrite <- E1, <- E2. apply Hv, H, in_or_app. right. eapply map_get_some_in_keys; eauto.
Qed.
End Assoc.

Lemma Zeqb_spec : forall a b, Z.eqb a b = true <-> a = b.
Proof. intros. apply Z.eqb_eq. Qed.
Lemma Seqb_spec : forall a b, String.eqb a b = true <-> a = b.
Proof. intros. apply String.eqb_eq. Qed.

Definition ostr_eqb (a b : option string) : bool := option_eqb String.eqb a b.
Lemma ostr_eqb_eq : forall a b, ostr_eqb a b = true -> a = b.
Proof.
  intros [a|] [b|]; simpl; try discriminate; try reflexivity.
  intros H. apply String.eqb_eq in H. now subst.
Qed.

(* NoDup by computation *)
Fixpoint nodupb {A} (eqb : A -> A -> bool) (l : list A) : bool :=
  match l with
  | [] => true
  | x :: l' => negb (existsb (eqb x) l') && nodupb eqb l'
  end.
Lemma nodupb_sound {A} (eqb : A -> A -> bool) (H : forall a b, eqb a b = true <-> a = b) :
  forall l, nodupb eqb l = true -> NoDup l.
Proof.
  induction l as [|x l IH]; simpl; intros E; [constructor|].
  apply andb_true_iff in E. destruct E as [E1 E2]. constructor; [|now apply IH].
  intros Hin. apply negb_true_iff in E1.
  assert (existsb (eqb x) l = true) by (apply existsb_exists; exists x; split; [assumption|now apply H]).
  congruence.
Qed.

(* ---------- the tables ---------- *)
Definition registered : list (Z * string) := act_codes ++ act_module_codes.
Definition registered_codes : list Z := map fst registered.
Definition registered_names : list string := map snd registered.

Lemma names_nodup : NoDup registered_names.
Proof. apply (nodupb_sound String.eqb Seqb_spec). vm_compute. reflexivity. Qed.

Lemma codes_nodup : NoDup registered_codes.
Proof. apply (nodupb_sound Z.eqb Zeqb_spec). vm_compute. reflexivity. Qed.

Lemma codes_are_bytes : forall c, In c registered_codes -> 0 <= c < 256.
Proof.
  assert (H : forallb (fun c => Z.leb 0 c && Z.ltb c 256) registered_codes = true) by (vm_compute; reflexivity).
  rewrite forallb_forall in H. intros c Hc. apply H in Hc. lia.
Qed.

(* the factory's maps hold exactly the registered keys (as sets: the order of the Register calls is irrelevant) *)
Lemma incl_by_compute {A} (eqb : A -> A -> bool) (H : forall a b, eqb a b = true <-> a = b) :
  forall l1 l2, forallb (fun x => existsb (eqb x) l2) l1 = true -> forall x, In x l1 -> In x l2.
Proof.
  intros l1 l2 E x Hx. rewrite forallb_forall in E. apply E in Hx.
  apply existsb_exists in Hx. destruct Hx as (y & Hy & Exy). apply H in Exy. now subst.
Qed.

Lemma forward_keys : forall c, In c (map fst (fa_forward node_activators)) <-> In c registered_codes.
Proof. split; apply (incl_by_compute Z.eqb Zeqb_spec); vm_compute; reflexivity. Qed.
Lemma inverse_keys : forall n, In n (map fst (fa_inverse node_activators)) <-> In n registered_names.
Proof. split; apply (incl_by_compute String.eqb Seqb_spec); vm_compute; reflexivity. Qed.
Lemma activators_keys : forall c, In c (map fst (fa_activators node_activators)) <-> In c (map fst act_codes).
Proof. split; apply (incl_by_compute Z.eqb Zeqb_spec); vm_compute; reflexivity. Qed.
Lemma module_activators_keys :
  forall c, In c (map fst (fa_module_activators node_activators)) <-> In c (map fst act_module_codes).
Proof. split; apply (incl_by_compute Z.eqb Zeqb_spec); vm_compute; reflexivity. Qed.

(* ---------- the bijection ---------- *)
Lemma name_of_type_of : forall n c,
    activation_type_from_name node_activators n = Ok c ->
    activation_name_from_type node_activators c = Ok n.
Proof.
  intros n c. unfold activation_type_from_name.
  destruct (map_get String.eqb (fa_inverse node_activators) n) as [t|] eqn:E; [|discriminate].
  intros H. injection H as ->.
  apply (map_get_in String.eqb Seqb_spec) in E.
  assert (A : forallb (fun p => match activation_name_from_type node_activators (snd p) with
                                | Ok n' => String.eqb n' (fst p) | _ => false end)
                      (fa_inverse node_activators) = true) by (vm_compute; reflexivity).
  rewrite forallb_forall in A. apply A in E. simpl in E.
  destruct (activation_name_from_type node_activators c); try discriminate.
  apply String.eqb_eq in E. now subst.
Qed.

Lemma type_of_name_of : forall c n,
    activation_name_from_type node_activators c = Ok n ->
    activation_type_from_name node_activators n = Ok c.
Proof.
  intros c n. unfold activation_name_from_type.
  destruct (map_get Z.eqb (fa_forward node_activators) c) as [t|] eqn:E; [|discriminate].
  intros H. injection H as ->.
  apply (map_get_in Z.eqb Zeqb_spec) in E.
  assert (A : forallb (fun p => match activation_type_from_name node_activators (snd p) with
                                | Ok c' => Z.eqb c' (fst p) | _ => false end)
                      (fa_forward node_activators) = true) by (vm_compute; reflexivity).
  rewrite forallb_forall in A. apply A in E. simpl in E.
  destruct (activation_type_from_name node_activators n); try discriminate.
  apply Z.eqb_eq in E. now subst.
Qed.

(* registered codes / names are found ... *)
Lemma registered_code_has_name : forall c, In c registered_codes ->
    exists n, activation_name_from_type node_activators c = Ok n /\ In n registered_names.
Proof.
  intros c Hc. unfold activation_name_from_type.
  apply (proj2 (forward_keys c)) in Hc.
  destruct (map_get_in_keys Z.eqb Zeqb_spec _ _ Hc) as [n Hn]. rewrite Hn.
  exists n. split; [reflexivity|].
  assert (T : activation_type_from_name node_activators n = Ok c)
    by (apply type_of_name_of; unfold activation_name_from_type; now rewrite Hn).
  unfold activation_type_from_name in T.
  destruct (map_get String.eqb (fa_inverse node_activators) n) eqn:E; [|discriminate].
  apply (proj1 (inverse_keys n)). eapply map_get_some_in_keys; eauto. exact Seqb_spec.
Qed.

Lemma registered_name_has_code : forall n, In n registered_names ->
    exists c, activation_type_from_name node_activators n = Ok c /\ In c registered_codes.
Proof.
  intros n Hn. unfold activation_type_from_name.
  apply (proj2 (inverse_keys n)) in Hn.
  destruct (map_get_in_keys String.eqb Seqb_spec _ _ Hn) as [c Hc]. rewrite Hc.
  exists c. split; [reflexivity|].
  assert (T : activation_name_from_type node_activators c = Ok n)
    by (apply name_of_type_of; unfold activation_type_from_name; now rewrite Hc).
  unfold activation_name_from_type in T.
  destruct (map_get Z.eqb (fa_forward node_activators) c) eqn:E; [|discriminate].
  apply (proj1 (forward_keys c)). eapply map_get_some_in_keys; eauto. exact Zeqb_spec.
Qed.

(* ... and anything else is an error, from every lookup *)
Lemma unknown_code_errors : forall c, ~ In c registered_codes ->
    activation_name_from_type node_activators c = GoErr err_unsupported_type
    /\ (forall x, activate_by_type node_activators x c = GoErr err_unknown_activation_type)
    /\ (forall l, activate_module_by_type node_activators l c = GoErr err_unknown_module_type).
Proof.
  intros c Hc. repeat split.
  - unfold activation_name_from_type. rewrite (map_get_none Z.eqb Zeqb_spec); [reflexivity|].
    intros H. apply Hc. now apply (proj1 (forward_keys c)).
  - intros x. unfold activate_by_type. rewrite (map_get_none Z.eqb Zeqb_spec); [reflexivity|].
    intros H. apply (proj1 (activators_keys c)) in H. apply Hc. unfold registered_codes, registered.
    rewrite map_app. apply in_or_app. now left.
  - intros l. unfold activate_module_by_type. rewrite (map_get_none Z.eqb Zeqb_spec); [reflexivity|].
    intros H. apply (proj1 (module_activators_keys c)) in H. apply Hc. unfold registered_codes, registered.
    rewrite map_app. apply in_or_app. now right.
Qed.

Lemma unknown_name_errors : forall n, ~ In n registered_names ->
    activation_type_from_name node_activators n = GoErr err_unsupported_name.
Proof.
  intros n Hn. unfold activation_type_from_name.
  rewrite (map_get_none String.eqb Seqb_spec); [reflexivity|]. intros H. apply Hn. now apply (proj1 (inverse_keys n)).
Qed.

(* ---------- scalar and module tables are disjoint ---------- *)
Lemma scalar_module_disjoint : forall c, In c (map fst act_codes) -> In c (map fst act_module_codes) -> False.
Proof.
  intros c H1 H2.
  assert (A : forallb (fun c => negb (existsb (Z.eqb c) (map fst act_module_codes))) (map fst act_codes) = true)
    by (vm_compute; reflexivity).
  rewrite forallb_forall in A. apply A in H1. apply negb_true_iff in H1.
  assert (existsb (Z.eqb c) (map fst act_module_codes) = true)
    by (apply existsb_exists; exists c; split; [assumption|apply Z.eqb_refl]).
  congruence.
Qed.

(* a scalar type is served by ActivateByType and refused by ActivateModuleByType, and conversely *)
Lemma scalar_code_kind : forall c x l, In c (map fst act_codes) ->
    is_ok (activate_by_type node_activators x c) = true
    /\ activate_module_by_type node_activators l c = GoErr err_unknown_module_type.
Proof.
  intros c x l Hc. split.
  - assert (A : forallb (fun c => is_ok (activate_by_type node_activators x c)) (map fst act_codes) = true).
    { unfold activate_by_type.
      assert (B : forallb (fun c => match map_get Z.eqb (fa_activators node_activators) c with
                                    | Some fname => match scalar_by_name fname with Some _ => true | None => false end
                                    | None => false end) (map fst act_codes) = true) by (vm_compute; reflexivity).
      rewrite forallb_forall in B. apply forallb_forall. intros c' Hc'. apply B in Hc'.
      destruct (map_get Z.eqb (fa_activators node_activators) c'); [|discriminate].
      destruct (scalar_by_name s); [reflexivity|discriminate]. }
    rewrite forallb_forall in A. now apply A.
  - unfold activate_module_by_type. rewrite (map_get_none Z.eqb Zeqb_spec); [reflexivity|].
    intros H. apply (proj1 (module_activators_keys c)) in H. exact (scalar_module_disjoint c Hc H).
Qed.

Lemma module_code_kind : forall c x l, In c (map fst act_module_codes) ->
    is_ok (activate_module_by_type node_activators l c) = true
    /\ activate_by_type node_activators x c = GoErr err_unknown_activation_type.
Proof.
  intros c x l Hc. split.
  - unfold activate_module_by_type.
    assert (B : forallb (fun c => match map_get Z.eqb (fa_module_activators node_activators) c with
                                  | Some fname => match module_by_name fname with Some _ => true | None => false end
                                  | None => false end) (map fst act_module_codes) = true) by (vm_compute; reflexivity).
    rewrite forallb_forall in B. apply B in Hc.
    destruct (map_get Z.eqb (fa_module_activators node_activators) c); [|discriminate].
    destruct (module_by_name s); [reflexivity|discriminate].
  - unfold activate_by_type. rewrite (map_get_none Z.eqb Zeqb_spec); [reflexivity|].
    intros H. apply (proj1 (activators_keys c)) in H. exact (scalar_module_disjoint c H Hc).
Qed.

(* ---------- bindings and names are the expected ones ---------- *)
Lemma bindings_expected : forall c,
    map_get Z.eqb (fa_activators node_activators) c = map_get Z.eqb expected_bindings c.
Proof. apply (map_get_ext Z.eqb Zeqb_spec _ _ ostr_eqb ostr_eqb_eq). vm_compute. reflexivity. Qed.

Lemma module_bindings_expected : forall c,
    map_get Z.eqb (fa_module_activators node_activators) c = map_get Z.eqb expected_module_bindings c.
Proof. apply (map_get_ext Z.eqb Zeqb_spec _ _ ostr_eqb ostr_eqb_eq). vm_compute. reflexivity. Qed.

Lemma names_expected : forall c,
    map_get Z.eqb (fa_forward node_activators) c = map_get Z.eqb expected_names c.
Proof. apply (map_get_ext Z.eqb Zeqb_spec _ _ ostr_eqb ostr_eqb_eq). vm_compute. reflexivity. Qed.

(* the registration calls name the type constants they register, and each under its own identifier *)
Lemma registered_under_constant_name :
  forallb (fun p => match map_get Z.eqb (fa_forward node_activators) (snd p) with
                    | Some n => String.eqb n (fst p) | None => false end) act_consts = true.
Proof. vm_compute. reflexivity. Qed.

(* what ActivateByType runs for each code, spelled out *)
Definition scalar_of_code (c : Z) : option (float -> comp) :=
  match c with
  | 1 => Some plainSigmoid | 2 => Some reducedSigmoid | 3 => Some bipolarSigmoid
  | 4 => Some steepenedSigmoid | 5 => Some approximationSigmoid
  | 6 => Some approximationSteepenedSigmoid | 7 => Some inverseAbsoluteSigmoid
  | 8 => Some leftShiftedSigmoid | 9 => Some leftShiftedSteepenedSigmoid
  | 10 => Some rightShiftedSteepenedSigmoid | 11 => Some hyperbolicTangent
  | 12 => Some bipolarGaussian | 13 => Some gaussian | 14 => Some linear
  | 15 => Some absoluteLinear | 16 => Some clippedLinear | 17 => Some nullFunctor
  | 18 => Some signFunction | 19 => Some sineFunction | 20 => Some stepFunction
  | _ => None
  end.

Definition module_of_code (c : Z) : option (list float -> list float) :=
  match c with
  | 21 => Some multiplyModule | 22 => Some maxModule | 23 => Some minModule | _ => None
  end.

Lemma expected_bindings_keys : forall c, map_get Z.eqb expected_bindings c <> None -> 1 <= c <= 20.
Proof.
  intros c H.
  destruct (map_get Z.eqb expected_bindings c) eqn:E; [|congruence].
  apply (map_get_some_in_keys Z.eqb Zeqb_spec) in E. simpl in E. lia.
Qed.

Lemma activate_by_type_spec : forall c x,
    activate_by_type node_activators x c =
    match scalar_of_code c with Some f => Ok (f x) | None => GoErr err_unknown_activation_type end.
Proof.
  intros c x. unfold activate_by_type. rewrite bindings_expected.
  destruct (map_get Z.eqb expected_bindings c) eqn:E.
  - assert (R : 1 <= c <= 20) by (apply expected_bindings_keys; congruence).
    assert (C : c = 1 \/ c = 2 \/ c = 3 \/ c = 4 \/ c = 5 \/ c = 6 \/ c = 7 \/ c = 8 \/ c = 9 \/ c = 10 \/
                c = 11 \/ c = 12 \/ c = 13 \/ c = 14 \/ c = 15 \/ c = 16 \/ c = 17 \/ c = 18 \/ c = 19 \/ c = 20) by lia.
    repeat (destruct C as [C|C]; [subst c; simpl in E; injection E as <-; reflexivity|]).
    subst c; simpl in E; injection E as <-; reflexivity.
  - assert (N : ~ In c (map fst expected_bindings)).
    { intros Hin. destruct (map_get_in_keys Z.eqb Zeqb_spec _ _ Hin) as [v Hv]. congruence. }
    simpl in N.
    destruct c as [|p|p]; try reflexivity.
    do 5 (destruct p as [p|p|]; try reflexivity; try (exfalso; apply N; simpl; tauto)).
Qed.

Lemma activate_module_by_type_spec : forall c l,
    activate_module_by_type node_activators l c =
    match module_of_code c with Some f => Ok (f l) | None => GoErr err_unknown_module_type end.
Proof.
  intros c l. unfold activate_module_by_type. rewrite module_bindings_expected.
  destruct (map_get Z.eqb expected_module_bindings c) eqn:E.
  - assert (Hin : In c (map fst expected_module_bindings)) by (eapply map_get_some_in_keys; eauto; exact Zeqb_spec).
    simpl in Hin.
    destruct Hin as [<-|[<-|[<-|[]]]]; simpl in E; injection E as <-; reflexivity.
  - assert (N : ~ In c (map fst expected_module_bindings)).
    { intros Hin. destruct (map_get_in_keys Z.eqb Zeqb_spec _ _ Hin) as [v Hv]. congruence. }
    simpl in N.
    destruct c as [|p|p]; try reflexivity.
    do 5 (destruct p as [p|p|]; try reflexivity; try (exfalso; apply N; simpl; tauto)).
Qed.

(* ---------- neuron / node type names (neat/network/common.go) ---------- *)
Open Scope string_scope.
Lemma neuron_name_roundtrip : forall t, 0 <= t <= 3 -> neuron_type_by_name (neuron_type_name t) = Ok t.
Proof.
  intros t H. assert (C : t = 0 \/ t = 1 \/ t = 2 \/ t = 3) by lia.
  destruct C as [->|[->|[->| ->]]]; reflexivity.
Qed.

Lemma neuron_by_name_sound : forall n t, neuron_type_by_name n = Ok t -> 0 <= t <= 3 /\ neuron_type_name t = n.
Proof.
  intros n t. unfold neuron_type_by_name.
  destruct (String.eqb n "HIDN") eqn:E0; [apply String.eqb_eq in E0; intros H; injection H as <-; subst; split; [lia|reflexivity]|].
  destruct (String.eqb n "INPT") eqn:E1; [apply String.eqb_eq in E1; intros H; injection H as <-; subst; split; [lia|reflexivity]|].
  destruct (String.eqb n "OUTP") eqn:E2; [apply String.eqb_eq in E2; intros H; injection H as <-; subst; split; [lia|reflexivity]|].
  destruct (String.eqb n "BIAS") eqn:E3; [apply String.eqb_eq in E3; intros H; injection H as <-; subst; split; [lia|reflexivity]|].
  discriminate.
Qed.

Lemma neuron_unknown_name_errors : forall t, ~ (0 <= t <= 3) ->
    neuron_type_name t = "UNKNOWN NEURON TYPE" /\ neuron_type_by_name (neuron_type_name t) = GoErr err_unknown_neuron_name.
Proof.
  intros t H. unfold neuron_type_name.
  destruct (Z.eqb_spec t 0); [lia|]. destruct (Z.eqb_spec t 1); [lia|].
  destruct (Z.eqb_spec t 2); [lia|]. destruct (Z.eqb_spec t 3); [lia|]. split; reflexivity.
Qed.
Close Scope string_scope.
