(* concrete populations for the non-vacuity examples of props/C09.v *)
From NeatModel Require Import Res F64 GoRand Genome Options Population.

Definition ex_genome : genome := {| gid := 0; traits := []; nodes := []; genes := []; modules := [] |}.

Definition ex_org (k : Z) (f : float) (sp : Z) : organism :=
  {| o_key := k; o_fit := f; o_orig := f; o_genome := ex_genome; o_species := sp; o_exp := 0%float; o_gen := 0;
     o_elim := false; o_champ := false; o_super := 0; o_popchamp := false; o_popchampchild := false;
     o_highest := 0%float; o_mutstruct := false; o_mate := false |}.

Definition ex_species (id age quota : Z) (ks : list Z) : species :=
  {| sp_id := id; sp_age := age; sp_maxfit := 0%float; sp_exp := quota; sp_novel := false; sp_orgs := ks; sp_lastimp := age |}.

Definition ex_pop (fs : list (Z * float * Z)) (sps : list species) : population :=
  {| p_species := sps; p_detached := []; p_orgs := map (fun x => fst (fst x)) fs;
     p_heap := map (fun x => ex_org (fst (fst x)) (snd (fst x)) (snd x)) fs;
     p_last_species := 3; p_highest := 0%float; p_epochs_highest := 0; p_next_key := 100 |}.

Definition f01 : float := 0x1.999999999999ap-4%float.   (* 0.1 *)
Definition f02 : float := 0x1.999999999999ap-3%float.   (* 0.2 *)
Definition f03 : float := 0x1.3333333333333p-2%float.   (* 0.3 *)
Definition f07 : float := 0x1.6666666666666p-1%float.   (* 0.7 *)
Definition f04 : float := 0x1.999999999999ap-2%float.   (* 0.4 *)

(* seven organisms in three species; already shared and age-adjusted fitness values *)
Definition ex_fits : list (Z * float * Z) :=
  [(1, f01, 1); (2, f02, 1); (3, f03, 1); (4, f01, 2); (5, f02, 2); (6, f03, 3); (7, f07, 3)].
Definition ex_pop3 : population :=
  ex_pop ex_fits [ex_species 1 8 0 [1; 2; 3]; ex_species 2 8 0 [4; 5]; ex_species 3 8 0 [6; 7]].

(* the same population after the quotas have been fixed: 3, 3, 4 *)
Definition ex_pop3_q : population :=
  ex_pop ex_fits [ex_species 1 8 3 [1; 2; 3]; ex_species 2 8 3 [4; 5]; ex_species 3 8 4 [6; 7]].

Definition ex_opts (stolen pop : Z) : options :=
  {| o_trait_param_mut_prob := 0%float; o_trait_mut_power := 0%float; o_weight_mut_power := 0%float;
     o_disjoint := 1%float; o_excess := 1%float; o_mutdiff := 0x1.999999999999ap-2%float; o_compat_thresh := 3%float;
     o_age_sig := 1%float; o_survival := f04;
     o_mutate_only := 0%float; o_mut_random_trait := 0%float; o_mut_link_trait := 0%float; o_mut_node_trait := 0%float;
     o_mut_link_weights := 0%float; o_mut_toggle := 0%float; o_mut_reenable := 0%float;
     o_mut_add_node := 0%float; o_mut_add_link := 0%float; o_mut_connect_sensors := 0%float;
     o_interspecies := 0%float; o_mate_multi := 0%float; o_mate_multi_avg := 0%float; o_mate_single := 0%float;
     o_mate_only := 0%float; o_recur_only := 0%float;
     o_pop_size := pop; o_dropoff := 15; o_newlink_tries := 10; o_babies_stolen := stolen;
     o_compat_linear := false; o_activators := [1]; o_activator_probs := [1%float] |}.

Definition ex_state (t : tape) : st := {| s_tape := t; s_env := {| innovs := []; next_innov := 0; next_node := 0 |} |}.

Definition quotas (p : population) : list (Z * Z) := map (fun s => (sp_id s, sp_exp s)) (p_species p).
Definition members (p : population) : list (Z * list Z) := map (fun s => (sp_id s, sp_orgs s)) (p_species p).
Definition supers (p : population) : list (Z * Z) := map (fun x => (o_key x, o_super x)) (p_heap p).

(* a species of five with raw fitness values; survival threshold 0.4: floor(0.4*5+1) = 3 parents *)
Definition ex_pop5 : population :=
  ex_pop [(1, f02, 1); (2, f07, 1); (3, f01, 1); (4, f04, 1); (5, f03, 1)] [ex_species 1 3 0 [1; 2; 3; 4; 5]].
